#!/bin/sh
# Offline setup: parse every TLA+ module, pre-build the library flavours into the build cache.
set -e
cd "$(dirname "$0")"
mkdir -p out evidence .build
for f in spec/*.tla; do
  ( cd spec && tla-sany "$(basename "$f")" >/dev/null 2>&1 ) || { echo "SANY failed: $f"; exit 1; }
done
python3 - <<'PY'
import sys
sys.path.insert(0, 'tools')
import vlib
for fl in ('plain', 'san', 'tsan'):
    vlib.build_lib(fl)
print('setup ok')
PY
