"""C07 - Geocentric and LocalCartesian: closed form, complete and least-height Reverse, ENU rotation matrix, rigid motion.

M1: MC_Geocentric enumerates an exact integer lattice (a = 2^22, f in {0, 1/128, -1/128}; lat in {0, +-90}, lon multiples
of 90, integer heights; axis points incl. the centre, the singular disc / segment and their edges; local origins) and checks
the model invariants (inverse pair, admissible answer sets, orthonormal 0/+-1 rotation matrices, rigid motion), plus the
regime x class x ellipsoid x sign-pattern x scale boxes of Reverse.
M2: every vector is executed on the real Geocentric / LocalCartesian (each box is sampled by the driver inside the box).
M3: Trace_Geocentric validates lattice observations against the integer model and the laws of the property on box samples
and seeded random records, with the tolerances of the documentation (7 / 4 / 8 nm at WGS84 scale).
Objects and overloads (strengthening pass): every M overload (Geocentric / LocalCartesian x Forward / Reverse) is called with
vectors of length 0, 8, 9, 10, 18 in every record (only a 9-vector is written, the conversion never depends on M); the
LocalCartesian object is a TLA+ state machine (five constructor forms, two Reset forms, copy, assignment): TLC enumerates every
history, the driver replays it on one live object and logs bit-for-bit agreement with a fresh general-form object at the model
state, inspectors and lattice queries (stateful trace validation); Geocentric::WGS84() and every default `earth` argument are
bound to the documented constants; tools/CartConvert is run on TLC-enumerated lattice lines."""
import collections
import json

import vlib

LEVEL = 'model_checking'
LEVEL_TEXT = ('Exact integer TLA+ model of Geocentric/LocalCartesian on a dyadic axis lattice (closed form, admissible Reverse answers at '
              'the centre, on the axes, inside the singular disc/segment and at their edges, 0/+-1 rotation matrices, rigid motion), '
              'model-checked by TLC; every lattice vector and every regime box (far, sphere, outside/inside evolute, cut locus x '
              'oblate/prolate x sign pattern x scale x 23 ellipsoids) is replayed on the real code and validated by TLC; the laws of the '
              'property (closed form, Forward o Reverse over 40+ decades, Reverse o Forward, ranges, least |h|, ENU matrix, rigid motion, '
              'mutual inverses) are validated on seeded random records with the documented 7/4/8 nm bounds. LocalCartesian is also '
              'modelled as an object (state = ellipsoid and origin; constructor forms, Reset forms, copy, assignment): TLC enumerates '
              'every history of bounded length, each is replayed on a live object and validated statefully (bitwise equal to a fresh '
              'object at the model state); the optional-matrix overloads are enumerated over vector lengths; the singleton WGS84() and '
              'the default arguments are bound to the documented constants; CartConvert is driven on lattice lines.')
DESIGN_REF = 'DESIGN.md section 4, C07'
LEVEL_NOTE = ('Trusted: TLC, Geocentric.tla, the long-double textbook formulas of drv_geoc.cpp (closed form, ENU frame, surface metric, '
              'least distance to the meridian ellipse). Off the lattice the spec is relational (laws with documented tolerances); a change '
              'below 7 nm x max(|P|, a)/a_WGS84 is not a violation. |P|/a in 2^[-600,-440] is excluded by a named guard: Reverse is wrong '
              'there on the unchanged tree (finding in notes/C07.md), outside the ~40 decades the property quantifies over. The two '
              'ellipsoids with e > 1/sqrt(2) or b = 10 a (no documented accuracy) are held to 16 x the bound.')
TECHNIQUE = 'TLA+ lattice model + TLC enumeration, spec-to-code replay, TLC trace validation'


def object_stage(ctx, cfg_text):
    """LocalCartesian as a stateful object: TLC enumerates every history (constructor form, then Reset forms / copies) of the
    state graph of MC_Geocentric part "obj" and emits each with the model state after every operation and the lattice queries
    on the final state; the driver replays them on one live object per history; seeded random histories (random origins and
    ellipsoids) are appended; Trace_Geocentric validates statefully (variable obj), sharded at the "Reset" lines."""
    exe = vlib.build_driver('drv_geoc', 'plain' if ctx.quick else 'san')
    cfg = ctx.cfg('MC_Geocentric_obj', cfg_text)
    hv = [v for v in ctx.generate('MC_Geocentric', cfg, workers=vlib.NCPU, timeout=3000) if v[0] == 'obj']
    if len(hv) < 1000:
        raise vlib.FrameworkError('too few object histories: %d' % len(hv))
    rows = []
    for v in hv:
        rows.append('obj')
        rows += [['o'] + list(r) for r in v[1]]
    vin = ctx.path('histories.txt')
    vlib.write_lines(vin, rows)
    ctx.cov['behaviours_replayed'] += len(hv)
    ctx.cov['distinct_nontrivial'] += len(hv)
    trace = ctx.path('trace-obj.ndjson')
    rc, err = ctx.drive(exe, ['replay'], infile=vin, outfile=trace)
    if rc == 0:
        rnd = ctx.path('trace-obj-rnd.ndjson')
        rc, err = ctx.drive(exe, ['hist', ctx.seed, 3000 if ctx.quick else 60000], outfile=rnd)
        with open(trace, 'ab') as f, open(rnd, 'rb') as g:
            f.write(g.read())
    if rc != 0:
        ctx.violation('driver crashed replaying object histories (rc=%d): %s' % (rc, err[-600:]),
                      [{'e': 'ReplayHeader', 'property': ctx.pid, 'law': 'no-crash', 'vectors': vin}])
        return []
    n, rej = ctx.validate('Trace_Geocentric', 'Trace_Geocentric', trace, shards=vlib.NCPU, group_key='Reset')
    ctx.cov['traces_validated_against_impl'] += 1
    ctx.report_rejects(rej, trace)
    ctx.law('object-histories', len(hv))
    return [trace]


FAM_E = {0: ['-e', '4194304', '0'], 1: ['-e', '4194304', '1/128'], 2: ['-e', '4194304', '-1/128'], 3: []}   # 3: WGS84 by default


def tool_stage(ctx, cfg_text):
    """tools/CartConvert built from the tree under test, run on the lattice lines TLC enumerates (MC_Geocentric part "tool":
    forward / reverse x geocentric / -l origin x -e lattice ellipsoid or the default WGS84 x -w x -p).  Only executes and logs
    (exit status, output tokens as byte codes); Trace_Geocentric (ToolOK) decides."""
    import subprocess
    exe = vlib.build_tool('CartConvert')
    cfg = ctx.cfg('MC_Geocentric_tool', cfg_text)
    tv = [v for v in ctx.generate('MC_Geocentric', cfg, workers=4, timeout=3000) if v[0] == 't']
    if len(tv) < 500:
        raise vlib.FrameworkError('tool stage: too few vectors (%d)' % len(tv))
    groups = collections.OrderedDict()
    for v in tv:
        mode, fi, w, prec, lat0, lon0, h0 = v[1:8]
        groups.setdefault((mode, fi, w, prec, lat0, lon0, h0), []).append(v[8:11])
    recs = []
    for (mode, fi, w, prec, lat0, lon0, h0), pts in groups.items():
        opts = list(FAM_E[fi]) + ['-p', str(prec)]
        if w:
            opts.append('-w')                      # must precede -l (man page)
        if mode in ('lf', 'lr'):
            opts += ['-l'] + [str(x) for x in ((lon0, lat0, h0) if w else (lat0, lon0, h0))]
        if mode in ('gr', 'lr'):
            opts.append('-r')
        lines = []
        for (a1, a2, a3) in pts:
            if mode in ('gf', 'lf') and w:
                lines.append('%d %d %d' % (a2, a1, a3))
            else:
                lines.append('%d %d %d' % (a1, a2, a3))
        try:
            p = subprocess.run(['timeout', '60', exe] + opts, input=''.join(l + '\n' for l in lines).encode(),
                               stdout=subprocess.PIPE, stderr=subprocess.PIPE)
        except OSError as e:
            raise vlib.FrameworkError('cannot run %s: %s' % (exe, e))
        if p.returncode == 124:
            raise vlib.FrameworkError('tool timeout: %s %s' % (exe, opts))
        out = p.stdout.decode('latin-1').split('\n')[:-1]
        for i, (a1, a2, a3) in enumerate(pts):
            has = len(out) == len(lines)
            recs.append(dict(e='tool', mode=mode, fi=fi, w=w, prec=prec, o=[lat0, lon0, h0], a=[a1, a2, a3], opts=' '.join(opts),
                             inp=lines[i], status=p.returncode, has=has,
                             tok=[list(t.encode('latin-1')) for t in out[i].split()] if has else []))
    tf = ctx.path('trace-tool.ndjson')
    vlib.write_lines(tf, [json.dumps(r, separators=(',', ':')) for r in recs])
    ctx.cov['behaviours_replayed'] += len(recs)
    ctx.cov['distinct_nontrivial'] += len(recs)
    n, rej = ctx.validate('Trace_Geocentric', 'Trace_Geocentric', tf, shards=4, group_key=None)
    ctx.cov['traces_validated_against_impl'] += 1
    ctx.report_rejects(rej, tf)
    ctx.law('tool-runs', len(groups))
    return [tf]


def run(ctx):
    nbox = 4 if ctx.quick else 24

    def to_rows(vals):
        rows = []
        for v in vals:
            if v[0] == 'box':
                rows.append(list(v) + [nbox])
            else:
                rows.append(list(v))
        return rows

    base = ('INIT Init\nNEXT Next\nCONSTANTS Part = "%s" NChunks = 32 Dense = %s Depth = %d\n'
            'INVARIANTS FwdInv RevInv RotInv LocInv BoxInv MvInv ObjInv ToolInv Emit\nCHECK_DEADLOCK FALSE\n')
    dense = 'FALSE' if ctx.quick else 'TRUE'
    depth = 2 if ctx.quick else 3
    parts = [(p, base % (p, dense, depth)) for p in ('geo', 'loc', 'box')]
    nrec = 120000 if ctx.quick else 2000000
    rows, traces = vlib.lattice_pipeline(ctx, 'MC_Geocentric', parts, to_rows, 'drv_geoc', ['replay'],
                                         ['record', ctx.seed, nrec], 'Trace_Geocentric',
                                         flavour_record=None if ctx.quick else 'san', min_vectors=1000)
    if traces:
        traces += object_stage(ctx, base % ('obj', 'FALSE', depth))
        traces += tool_stage(ctx, base % ('tool', 'FALSE', depth))
    # evidence only: how many lines of each kind / regime / guard were seen (vacuity is visible)
    kinds = collections.Counter()
    for tf in traces:
        with open(tf) as f:
            for ln in f:
                try:
                    r = json.loads(ln)
                except ValueError:
                    continue
                kinds[r['e']] += 1
                if r['e'] == 'lo':
                    kinds['lo.op=' + r['op']] += 1
                if r['e'] == 'mv':
                    kinds['mv.%s.%d' % (r['ent'], r['n'])] += 1
                if r['e'] == 'tool':
                    kinds['tool.%s.fi%d' % (r['mode'], r['fi'])] += 1
                if r['e'] == 'go':
                    kinds['go.' + r['form']] += 1
                if r['e'] == 'rv':
                    kinds['rv.reg=' + r['reg']] += 1
                    if -600 <= r['ex'] <= -440:
                        kinds['rv.underflow-zone-excluded'] += 1
                    if r['ex'] >= 55:
                        kinds['rv.far'] += 1
                    if r['ev'] == -1:
                        kinds['rv.inside-evolute'] += 1
                if r['e'] == 'rt':
                    kinds['rt.shell' if abs(r['hq']) <= 783928 else 'rt.beyond-shell'] += 1
    for k, n in sorted(kinds.items()):
        ctx.law(k, n)
    ctx.cov['exhaustive'] = not ctx.quick
    return ctx.finish(RULE, TRUSTED)


RULE = ('vectors enumerated by TLC from MC_Geocentric: Forward at (lat in {0,+-90}) x (lon = 90 k) x heights around -a, -b, the singular '
        'radii, geophysical and 2^30 for f in {0, 1/128, -1/128}; Reverse at axis points of the same radii incl. the centre; LocalCartesian '
        'origins x lattice points and x local offsets; regime boxes (regime x 23 ellipsoids x 27 sign patterns x scales), each sampled '
        'by the driver; plus seeded random records (fw, rt, rv, lc). M overloads: entry point x length in {0, 8, 9, 10, 18} x lattice '
        'points, and the whole length family in every record. LocalCartesian object histories: 104 constructor forms (c4 x 4 ellipsoids '
        'x 18 origins, c3, c2, c1, c0) followed by at most Depth - 1 of 29 steps (Reset(lat0, lon0, h0), Reset(lat0, lon0), copy, '
        'assignment), every history with its lattice queries; seeded random histories. Geocentric objects: 5 forms x 23 ellipsoids. '
        'CartConvert: mode x ellipsoid (-e / default) x -w x -p x origin x lattice line. distinct_nontrivial = distinct lattice '
        'vectors, boxes, histories and tool lines.')
TRUSTED = ['TLC', 'Geocentric.tla', 'drv_geoc.cpp (long-double closed form, ENU frame, surface metric and least-distance search used to '
           'reduce each law to an integer residual; bitwise comparison of a live object with a fresh one on a probe set)',
           'props/C07.py (composition of the CartConvert command lines and input lines)']


def replay(ctx, path):
    raise vlib.FrameworkError('replay: re-run ./check C07; replay files list the offending trace lines (field "in" holds the exact inputs)')
