"""C07 - Geocentric and LocalCartesian: closed form, complete and least-height Reverse, ENU rotation matrix, rigid motion.

M1: MC_Geocentric enumerates an exact integer lattice (a = 2^22, f in {0, 1/128, -1/128}; lat in {0, +-90}, lon multiples
of 90, integer heights; axis points incl. the centre, the singular disc / segment and their edges; local origins) and checks
the model invariants (inverse pair, admissible answer sets, orthonormal 0/+-1 rotation matrices, rigid motion), plus the
regime x class x ellipsoid x sign-pattern x scale boxes of Reverse.
M2: every vector is executed on the real Geocentric / LocalCartesian (each box is sampled by the driver inside the box).
M3: Trace_Geocentric validates lattice observations against the integer model and the laws of the property on box samples
and seeded random records, with the tolerances of the documentation (7 / 4 / 8 nm at WGS84 scale)."""
import collections
import json

import vlib

LEVEL = 'model_checking'
LEVEL_TEXT = ('Exact integer TLA+ model of Geocentric/LocalCartesian on a dyadic axis lattice (closed form, admissible Reverse answers at '
              'the centre, on the axes, inside the singular disc/segment and at their edges, 0/+-1 rotation matrices, rigid motion), '
              'model-checked by TLC; every lattice vector and every regime box (far, sphere, outside/inside evolute, cut locus x '
              'oblate/prolate x sign pattern x scale x 23 ellipsoids) is replayed on the real code and validated by TLC; the laws of the '
              'property (closed form, Forward o Reverse over 40+ decades, Reverse o Forward, ranges, least |h|, ENU matrix, rigid motion, '
              'mutual inverses) are validated on seeded random records with the documented 7/4/8 nm bounds.')
DESIGN_REF = 'DESIGN.md section 4, C07'
LEVEL_NOTE = ('Trusted: TLC, Geocentric.tla, the long-double textbook formulas of drv_geoc.cpp (closed form, ENU frame, surface metric, '
              'least distance to the meridian ellipse). Off the lattice the spec is relational (laws with documented tolerances); a change '
              'below 7 nm x max(|P|, a)/a_WGS84 is not a violation. |P|/a in 2^[-600,-440] is excluded by a named guard: Reverse is wrong '
              'there on the unchanged tree (finding in notes/C07.md), outside the ~40 decades the property quantifies over. The two '
              'ellipsoids with e > 1/sqrt(2) or b = 10 a (no documented accuracy) are held to 16 x the bound.')
TECHNIQUE = 'TLA+ lattice model + TLC enumeration, spec-to-code replay, TLC trace validation'


def run(ctx):
    nbox = 4 if ctx.quick else 24

    def to_rows(vals):
        rows = []
        for v in vals:
            if v[0] == 'box':
                rows.append(list(v) + [nbox])
            else:
                rows.append(list(v))
        return rows

    base = ('INIT Init\nNEXT Next\nCONSTANTS Part = "%s" NChunks = 32 Dense = %s\n'
            'INVARIANTS FwdInv RevInv RotInv LocInv BoxInv Emit\nCHECK_DEADLOCK FALSE\n')
    dense = 'FALSE' if ctx.quick else 'TRUE'
    parts = [(p, base % (p, dense)) for p in ('geo', 'loc', 'box')]
    nrec = 120000 if ctx.quick else 2000000
    rows, traces = vlib.lattice_pipeline(ctx, 'MC_Geocentric', parts, to_rows, 'drv_geoc', ['replay'],
                                         ['record', ctx.seed, nrec], 'Trace_Geocentric',
                                         flavour_record=None if ctx.quick else 'san', min_vectors=1000)
    # evidence only: how many lines of each kind / regime / guard were seen (vacuity is visible)
    kinds = collections.Counter()
    for tf in traces:
        with open(tf) as f:
            for ln in f:
                try:
                    r = json.loads(ln)
                except ValueError:
                    continue
                kinds[r['e']] += 1
                if r['e'] == 'rv':
                    kinds['rv.reg=' + r['reg']] += 1
                    if -600 <= r['ex'] <= -440:
                        kinds['rv.underflow-zone-excluded'] += 1
                    if r['ex'] >= 55:
                        kinds['rv.far'] += 1
                    if r['ev'] == -1:
                        kinds['rv.inside-evolute'] += 1
                if r['e'] == 'rt':
                    kinds['rt.shell' if abs(r['hq']) <= 783928 else 'rt.beyond-shell'] += 1
    for k, n in sorted(kinds.items()):
        ctx.law(k, n)
    ctx.cov['exhaustive'] = not ctx.quick
    return ctx.finish(RULE, TRUSTED)


RULE = ('vectors enumerated by TLC from MC_Geocentric: Forward at (lat in {0,+-90}) x (lon = 90 k) x heights around -a, -b, the singular '
        'radii, geophysical and 2^30 for f in {0, 1/128, -1/128}; Reverse at axis points of the same radii incl. the centre; LocalCartesian '
        'origins x lattice points and x local offsets; regime boxes (regime x 23 ellipsoids x 27 sign patterns x scales), each sampled '
        'by the driver; plus seeded random records (fw, rt, rv, lc). distinct_nontrivial = distinct lattice vectors and boxes.')
TRUSTED = ['TLC', 'Geocentric.tla', 'drv_geoc.cpp (long-double closed form, ENU frame, surface metric and least-distance search used to '
           'reduce each law to an integer residual)']


def replay(ctx, path):
    raise vlib.FrameworkError('replay: re-run ./check C07; replay files list the offending trace lines (field "in" holds the exact inputs)')
