"""C19 - harmonic sums, gravity and magnetic models, normal gravity.

M1: MC_Harmonic enumerates (a) the packed coefficient storage, the constructor contract of SphericalEngine::coeff, the binary
reader with and without truncation and the capability masks of GravityCircle; (b) an exact dyadic value lattice (Schmidt harmonics of
degree <= 1 and zonal harmonics of degree <= 4 on the coordinate axes at r = a 2^j, one-, two- and three-component forms,
truncation); (c) magnetic model assembly (piecewise linear time dependence, constant term, truncation, ENU rotation), checking
model invariants (Euler homogeneity, parity, radial scaling, superposition, C<->S phase, continuity at knots, rate = slope).
M2: every vector is executed on the real classes; the magnetic vectors through synthetic .wmm/.wmm.cof files.
M3: Trace_Harmonic validates the lattice observations exactly and seeded random law records: harmonic sums against the defining
series, circle == direct, gradient == derivative, synthetic magnetic and gravity model files against the field implied by their
coefficients, normal gravity against the closed formulas of the documentation."""
import os
import vlib

LEVEL = 'exploration'
LEVEL_TEXT = ('Exact integer TLA+ model of coefficient storage/reader/truncation, of a dyadic value lattice of low-degree Schmidt harmonics '
              '(one-, two-, three-component forms) and of magnetic model assembly, enumerated by TLC with invariants and replayed on the real '
              'classes through synthetic model files; for general degree, normalisation, position and time the property is bound by laws on '
              'seeded random inputs decided by the TLA+ trace specification: the sum and its gradient against the defining double series '
              '(long double, from the documented normalisation), circle = direct, gradient = derivative, file models (magnetic: time '
              'interpolation/extrapolation, constant term, ENU, H/F/D/I; gravity: V, W = V + Phi, T = W - U, geoid height, anomaly, circle) '
              'and NormalGravity (level surface, harmonicity, gradient, Somigliana, J2 <-> f, zonal coefficients).')
DESIGN_REF = 'DESIGN.md section 4, C19'
LEVEL_NOTE = ('Trusted: TLC, Harmonic.tla, and the fixed textbook formulas in drv_harm.cpp (defining series via Ferrers functions in long '
              'double, closed formulas of the normal-gravity documentation page, geodetic-to-ENU frame). Tolerances are round-off models '
              '(c (N + 8) eps x magnitude bound) because the documentation states no accuracy for these classes; degrees above 60 '
              '(quick 40) are reached only in the thorough tier (<= 160).')
TECHNIQUE = 'TLA+ lattice model + TLC enumeration, spec-to-code replay through synthetic model files, TLC trace validation of law records'


def _flat(x):
    out = []
    for y in x:
        if isinstance(y, (list, tuple)):
            out += _flat(y)
        else:
            out.append(int(y) if isinstance(y, bool) else y)
    return out


def to_rows(vals):
    rows = []
    for v in vals:
        k = v[0]
        if k in ('idx', 'co', 'rd', 'cap'):
            rows.append([k] + _flat(v[1:]))
        elif k == 'val':
            h, pt, j, ja = v[1], v[2], v[3], v[4]
            row = ['val', h['L'], ja, j, pt]
            for l in range(h['L']):
                row += [h['tau'][l], h['N'][l], h['nmx'][l], h['mmx'][l]] + list(h['c'][l])
            rows.append(row)
        elif k == 'mag':
            g = v[1]
            rows.append(['mag', g['nm'], g['nc'], g['dt0'], g['tq'], g['j'], g['pt'], g['Nmax'], g['Mmax']] + _flat(g['sets']))
        else:
            raise vlib.FrameworkError('unknown vector kind %r' % (k,))
    return rows


def run(ctx):
    base = ('INIT Init\nNEXT Next\nCONSTANTS Part = "%s" Quick = %s NChunks = 32\n'
            'INVARIANTS IdxInv ValInv MagInv Emit\nCHECK_DEADLOCK FALSE\n')
    parts = [(p, base % (p, 'TRUE' if ctx.quick else 'FALSE')) for p in ('idx', 'val', 'mag')]
    scratch = ctx.path('models')
    os.makedirs(scratch, exist_ok=True)
    nrec = 8000 if ctx.quick else 60000
    maxdeg = 40 if ctx.quick else 160
    vlib.lattice_pipeline(ctx, 'MC_Harmonic', parts, to_rows, 'drv_harm', ['replay', scratch],
                          ['record', scratch, ctx.seed, nrec, maxdeg], 'Trace_Harmonic',
                          flavour_record=None if ctx.quick else 'san', min_vectors=1000)
    ctx.cov['exhaustive'] = not ctx.quick
    return ctx.finish(RULE, TRUSTED)


RULE = ('vectors enumerated by TLC from MC_Harmonic: every (N, M) <= 6 (8) storage layout, every coeff constructor argument tuple '
        'N <= 5 with array sizes need-1/need/need+1, every reader call (N0, M0) x (N, M, truncate) in -2..6, all 34 x 2 capability '
        'requests, Schmidt lattice harmonics (coefficient vectors over {-1,0,1}^7, 6 axis points, r = a 2^j, 1-3 components, '
        'truncations), magnetic lattice models (1-3 epochs, constant term, DeltaEpoch 1|2, quarter-year times incl. extrapolation, '
        '12 positions, 4 radii, truncations); plus seeded random law records (sh, magr, grvV/T/G/N, ng, ngz). '
        'distinct_nontrivial = distinct lattice vectors.')
TRUSTED = ['TLC', 'Harmonic.tla', 'drv_harm.cpp (defining series in long double, documentation formulas of normal gravity, '
           'ENU frame, synthetic file writers, residual quantisation in units of eps*scale)']


def replay(ctx, path):
    raise vlib.FrameworkError('replay: re-run ./check C19; replay files list the offending trace lines')
