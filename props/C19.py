"""C19 - harmonic sums, gravity and magnetic models, normal gravity.

M1: MC_Harmonic enumerates (a) the packed coefficient storage, the constructor contract of SphericalEngine::coeff, the binary
reader with and without truncation and the capability masks of GravityCircle; (b) an exact dyadic value lattice (harmonics of
degree <= 1 and zonal harmonics of degree <= 4 on the coordinate axes at r = a 2^j, one-, two- and three-component forms,
truncation, every constructor form: general / "full set", normalisation schmidt / full / argument left out, copy-assigned);
(c) magnetic model files (metadata with every optional keyword present or absent and the documented defaults, decorated
with comments and unknown keywords, piecewise linear time dependence, constant term, the lattice of Nmax / Mmax requests,
ENU rotation); (d) gravity model files over a non-rotating spherical reference body (V, W, U, T, disturbance, geoid height,
gravity anomaly and deflections, Nmax / Mmax lattice, HeightOffset / CorrectionMultiplier / Normalization defaults, GravityCircle
values under every capability request) and NormalGravity of that body, checking model invariants (Euler homogeneity, parity,
radial scaling, superposition, C<->S phase, continuity at knots, rate = slope, truncation at load = truncated file,
anomaly of degree n = (n-1) T_n / R, defaults = explicit values).
M2: every vector is executed on the real classes; the model vectors through synthetic .wmm/.egm (+.cof) files.
M3: Trace_Harmonic validates the lattice observations exactly and seeded random law records: harmonic sums against the defining
series, circle == direct, gradient == derivative, synthetic magnetic and gravity model files against the field implied by their
coefficients, normal gravity against the closed formulas of the documentation."""
import os
import vlib

LEVEL = 'exploration'
LEVEL_TEXT = ('Exact integer TLA+ model of coefficient storage/reader/truncation, of a dyadic value lattice of low-degree harmonics '
              '(one-, two-, three-component forms, every constructor form and normalisation), of magnetic model files (optional keywords and '
              'their documented defaults, time dependence, Nmax/Mmax lattice) and of gravity model files over a non-rotating spherical '
              'reference body (V, W, U, T, geoid height, anomaly, circle capabilities), enumerated by TLC with invariants and replayed on the '
              'real classes through synthetic model files; for general degree, normalisation, position and time the property is bound by laws on '
              'seeded random inputs decided by the TLA+ trace specification: the sum and its gradient against the defining double series '
              '(long double, from the documented normalisation), circle = direct, gradient = derivative, file models (magnetic: time '
              'interpolation/extrapolation, constant term, ENU, H/F/D/I; gravity: V, W = V + Phi, T = W - U, geoid height, anomaly, circle) '
              'and NormalGravity (level surface, harmonicity, gradient, Somigliana, J2 <-> f, zonal coefficients).')
DESIGN_REF = 'DESIGN.md section 4, C19'
LEVEL_NOTE = ('Trusted: TLC, Harmonic.tla, and the fixed textbook formulas in drv_harm.cpp (defining series via Ferrers functions in long '
              'double, closed formulas of the normal-gravity documentation page, geodetic-to-ENU frame). Tolerances are round-off models '
              '(c (N + 8) eps x magnitude bound) because the documentation states no accuracy for these classes; degrees above 60 '
              '(quick 40) are reached only in the thorough tier (<= 160).')
TECHNIQUE = 'TLA+ lattice model + TLC enumeration, spec-to-code replay through synthetic model files, TLC trace validation of law records'


def _flat(x):
    out = []
    for y in x:
        if isinstance(y, (list, tuple)):
            out += _flat(y)
        else:
            out.append(int(y) if isinstance(y, bool) else y)
    return out


def _meta(m):
    """keywords present in a lattice metadata file: count, then key value pairs (sorted, so that equal files get equal rows)"""
    if not isinstance(m, dict):
        raise vlib.FrameworkError('metadata record expected, got %r' % (m,))
    out = [len(m)]
    for k in sorted(m):
        out += [k, m[k]]
    return out


def to_rows(vals):
    rows = []
    for v in vals:
        k = v[0]
        if k in ('idx', 'co', 'rd', 'cap'):
            rows.append([k] + _flat(v[1:]))
        elif k == 'val':
            h, pt, j, ja = v[1], v[2], v[3], v[4]
            row = ['val', h['L'], ja, j, pt, h['ct'], h['norm'], h['wn'], int(h['asg'])]
            for l in range(h['L']):
                row += [h['tau'][l], h['N'][l], h['nmx'][l], h['mmx'][l]] + list(h['c'][l])
            rows.append(row)
        elif k == 'mag':
            g = v[1]
            rows.append(['mag', g['tq'], g['j'], g['pt'], g['Nmax'], g['Mmax'], g['wn'], int(g['deco']), len(g['sets'])] + _flat(g['sets']) + _meta(g['meta']))
        elif k == 'grv':
            g = v[1]
            rows.append(['grv'] + list(g['par']) + [g['refkey'], g['Nmax'], g['Mmax'], g['p'], g['j'], g['req'], g['wn'], int(g['deco'])]
                        + _flat(g['gs']) + _flat(g['cs']) + _meta(g['meta']))
        elif k == 'ngl':
            g = v[1]
            rows.append(['ngl', g['ja'], g['km'], int(g['via']), g['n'], g['p'], g['j']])
        else:
            raise vlib.FrameworkError('unknown vector kind %r' % (k,))
    return rows


def run(ctx):
    base = ('INIT Init\nNEXT Next\nCONSTANTS Part = "%s" Quick = %s NChunks = 32\n'
            'INVARIANTS IdxInv ValInv MagInv MetaInv GrvInv Emit\nCHECK_DEADLOCK FALSE\n')
    parts = [(p, base % (p, 'TRUE' if ctx.quick else 'FALSE')) for p in ('idx', 'val', 'mag', 'grv')]
    scratch = ctx.path('models')
    os.makedirs(scratch, exist_ok=True)
    nrec = 8000 if ctx.quick else 60000
    maxdeg = 40 if ctx.quick else 160
    vlib.lattice_pipeline(ctx, 'MC_Harmonic', parts, to_rows, 'drv_harm', ['replay', scratch],
                          ['record', scratch, ctx.seed, nrec, maxdeg], 'Trace_Harmonic',
                          flavour_record=None if ctx.quick else 'san', min_vectors=1000)
    ctx.cov['exhaustive'] = not ctx.quick
    return ctx.finish(RULE, TRUSTED)


RULE = ('vectors enumerated by TLC from MC_Harmonic: every (N, M) <= 6 (8) storage layout, every coeff constructor argument tuple '
        'N <= 5 with array sizes need-1/need/need+1, every reader call (N0, M0) x (N, M, truncate) in -2..6, all 34 x 2 capability '
        'requests, lattice harmonics (coefficient vectors over {-1,0,1}^7, 6 axis points, r = a 2^j, 1-3 components, truncations, '
        'constructor forms general/simple x normalisation schmidt/full/default x assigned, documented exceptions), magnetic lattice '
        'files (1-3 epochs, constant term, DeltaEpoch 1|2, quarter-year times incl. extrapolation, 12 positions, 4 radii, the lattice '
        'of (Nmax, Mmax) requests in -2..4, every subset of the optional keywords absent, corrupt set counts), gravity lattice files '
        '(6 x 4 coefficient shapes, (Nmax, Mmax) in -2..5, 4 mass/radius tuples, 12 positions, 2-3 radii, capability requests, optional '
        'keywords absent, Flattening | DynamicalFormFactor) and NormalGravity of the sphere (J_n for n = -2..9); plus seeded random law '
        'records (sh, magr, grvV/T/Z/G/N/C, ng, ngz, ngs). '
        'distinct_nontrivial = distinct lattice vectors.')
TRUSTED = ['TLC', 'Harmonic.tla', 'drv_harm.cpp (defining series in long double, documentation formulas of normal gravity, '
           'ENU frame, synthetic file writers, residual quantisation in units of eps*scale)']


def replay(ctx, path):
    raise vlib.FrameworkError('replay: re-run ./check C19; replay files list the offending trace lines')
