"""Shared pipeline for C01 (direct), C02 (inverse), C03 (m12, M12, M21, S12): SphereLattice + GeodSym + Trace_Geod."""
import os
import vlib

MC = 'INIT Init\nNEXT Next\nCONSTANTS Part = "%s" Step = %d NChunks = 64\nINVARIANTS DirInv InvInv EllInv Emit\nCHECK_DEADLOCK FALSE\n'
TC = 'INIT Init\nNEXT Next\nCONSTANTS Prop = "%s"\nPOSTCONDITION Summary\nCHECK_DEADLOCK FALSE\n'


def to_rows(vals):
    rows = []
    for v in vals:
        rows.append([v[0]] + [(1 if x else 0) if isinstance(x, bool) else x for x in v[1:]])
    return rows


def run(ctx, prop, parts, laws):
    """parts: subset of ('dir', 'inv', 'ell'); laws: list of (kind, n_quick, n_thorough), kind in dl il al (base ellipsoid
    family) and dx ix ax (extended family and regimes)."""
    step = 15 if ctx.quick else 1
    exe = vlib.build_driver('drv_geod', 'plain')
    exe_rec = exe if ctx.quick else vlib.build_driver('drv_geod', 'san')
    tcfg = ctx.cfg('Trace_Geod_' + prop, TC % prop)
    # --- symmetry group descriptors from GeodSym (Cayley graph model-checked for the homomorphism property)
    sv = ctx.generate('MC_GeodSym', 'MC_GeodSym', workers=4, timeout=600)
    syms = [v[1] for v in sv if v[0] == 'sym']
    if len(syms) != 8:
        raise vlib.FrameworkError('expected 8 symmetry group elements, got %d' % len(syms))
    symfile = ctx.path('sym.txt')
    vlib.write_lines(symfile, [[s['sw'], s['ls'], s['ms'], s['as'], s['ao'], s['ss']] for s in syms])
    # --- the table of public overloads and line-constructor forms from GeodOverloads (consistency model-checked)
    ov = ctx.generate('MC_GeodOverloads', 'MC_GeodOverloads', workers=2, timeout=600)
    rows = sorted([v for v in ov if v[0] == 'ovl'], key=lambda v: (v[1], v[2])) + sorted([v for v in ov if v[0] == 'ctor'], key=lambda v: v[1])
    if len([v for v in rows if v[0] == 'ovl']) != 33 or len([v for v in rows if v[0] == 'ctor']) != 8:
        raise vlib.FrameworkError('expected 33 overload rows and 8 constructor forms, got %d vectors' % len(ov))
    ovlfile = ctx.path('ovl.txt')
    vlib.write_lines(ovlfile, rows)
    # --- lattice
    allrows = []
    for part in parts:
        cfg = ctx.cfg('MC_SphereLattice_' + part, MC % (part, step))
        allrows += to_rows(ctx.generate('MC_SphereLattice', cfg, workers=vlib.NCPU, timeout=3000))
    vin = ctx.path('vectors.txt')
    vlib.write_lines(vin, allrows)
    ctx.cov['behaviours_replayed'] = len(allrows)
    traces = []
    trace = ctx.path('trace.ndjson')
    rc, err = ctx.drive(exe, ['replay', ovlfile], infile=vin, outfile=trace)
    if rc != 0:
        ctx.violation('driver crashed replaying lattice vectors (rc=%d): %s' % (rc, err[-500:]),
                      [{'e': 'ReplayHeader', 'property': prop, 'law': 'no-crash', 'vectors': vin}])
    else:
        traces.append(trace)
    for kind, nq, nt in laws:
        rt = ctx.path('trace-%s.ndjson' % kind)
        rc, err = ctx.drive(exe_rec, ['record', ctx.seed, nq if ctx.quick else nt, symfile, kind, ovlfile], outfile=rt)
        if rc != 0:
            ctx.violation('driver crashed on random %s records (rc=%d): %s' % (kind, rc, err[-500:]),
                          [{'e': 'ReplayHeader', 'property': prop, 'law': 'no-crash', 'seed': ctx.seed}])
        else:
            traces.append(rt)
    for tf in traces:
        n, rej = ctx.validate('Trace_Geod', tcfg, tf, shards=vlib.NCPU, group_key=None)
        ctx.cov['traces_validated_against_impl'] += 1
        ctx.report_rejects(rej, tf)
        with open(tf) as f:
            for i, ln in enumerate(f):
                if i in (0, 7):
                    ctx.sample(ln.strip()[:400])
    ctx.cov['distinct_nontrivial'] = len(allrows)
    ctx.cov['exhaustive'] = not ctx.quick
