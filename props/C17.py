"""C17 - constructions built on geodesics: AzimuthalEquidistant, Gnomonic, CassiniSoldner, Intersect, NearestNeighbor.

M1: MC_GeodConstr (TLC) - part nn: NearestNeighbor instances over the model's integer metrics (point multisets x order x
    bucket) and sampled searches, with the model invariants "every tree of Trees() is TreeValid" and "the brute-force scan
    meets the abstract search spec"; part nnm: the model of the vantage-point search on EVERY valid tree, every query and
    every queue order meets the abstract spec; part ix: pairs of lattice great circles on the unit-degree sphere x starts x
    origins x radii for Closest / Next / Segment / All, with the invariant that Meet() names the same point of the sphere on
    both circles (against SphereLattice), symmetry, Next candidates.
M2: every vector is executed on the real code: NearestNeighbor<int,int,metric> with the model's metrics (the header
    template is compiled into the driver) incl. Save/Load/operator<< >> round trips, Intersect on Geodesic(180/pi, 0).
M3: Trace_GeodConstr validates every observation: saved trees against TreeValid, searches against the brute-force spec,
    lattice intersections exactly (sets of admissible answers), and seeded random law records for the three projections
    (definitions, azimuth/scale of the underlying geodesic, both round trips), Closest/Next/Segment/All on ellipsoids
    (on both lines, L1-minimality against All, segment and coincidence indicators, sorted/once/complete) and
    NearestNeighbor with the geodesic metric (doubles replaced by ranks).  Trace_ProjObject follows the replay of every
    object history statefully (Init / centre after each constructor and Reset, exact Forward / Reverse values for the centre the
    SPEC has reached, bit-for-bit equality with a freshly constructed object, overloads, uninitialised object)."""
import vlib

LEVEL = 'model_checking'
LEVEL_TEXT = ('Exact TLA+ models: (a) nearest-neighbour search as a brute-force specification refined by a model of the '
              'vantage-point tree and its pruned priority-queue search, model-checked on all valid trees over small point '
              'sets for all queries and queue orders; (b) intersections of lattice great circles on the unit-degree sphere '
              '(integer displacement lattice, L1 argmin sets, segment and coincidence indicators, All; coincident circles for '
              'Closest, Next and Segment, also on eccentric ellipsoids along the equator); (c) the projection objects as a state '
              'machine whose only state is the centre set by the last Reset, with exact integer Cassini-Soldner / azimuthal '
              'equidistant / gnomonic values on the unit-degree sphere, explored over all histories constructor ; Reset^n. TLC enumerates the '
              'instances, checks the model invariants, every vector is replayed on the real code and TLC validates each '
              'observation (saved tree = TreeValid, search = brute force, intersections = admissible set). Projection '
              'definitions, round trips and ellipsoidal intersection laws are validated on seeded random samples with '
              'documented tolerances.')
DESIGN_REF = 'DESIGN.md section 4, C17'
LEVEL_NOTE = ('Trusted: TLC, NearestNeighbor.tla / IntersectLattice.tla / ProjLattice.tla / ProjObject.tla / GeodProjLaws.tla / IntersectLaws.tla (from the headers and '
              'man pages), SphereLattice.tla, the driver\'s residual quantisation (3-D chord, crossing angle). On ellipsoids the '
              'completeness of Intersect::All is decided only relationally (smaller radius, Closest, Next chain), not against '
              'an independent enumeration of all intersections; the geodesic values themselves are the business of C01-C03.')
TECHNIQUE = 'TLA+ lattice/refinement models + TLC enumeration, spec-to-code replay, TLC trace validation'


def _flat(x):
    out = []
    for t in x:
        if isinstance(t, (list, tuple)):
            out += _flat(t)
        elif isinstance(t, bool):
            out.append(1 if t else 0)
        else:
            out.append(t)
    return out


def to_rows(vals):
    rows = []
    for v in vals:
        k = v[0]
        if k == 'nnt':        # nnt metric bucket n p1..pn
            rows.append(['nnt', v[1], v[2], len(v[3])] + list(v[3]))
        elif k == 'nns':      # nns metric bucket q k maxd mind exh tol n p1..pn
            rows.append(['nns', v[1], v[2], v[3], v[4], v[5], v[6], 1 if v[7] else 0, v[8], len(v[9])] + list(v[9]))
        elif k in ('ic', 'ia', 'in'):   # kind incA nodeA sA incB nodeB sB lat.. p0x p0y maxd ell
            rows.append([k] + _flat([v[1], v[2], v[3], v[4], v[5], v[6], v[7], v[8]]))
        elif k == 'is':       # is incA nodeA sA lenA incB nodeB sB lenB lat/lon x 4 ell
            rows.append(['is'] + _flat([v[1], v[2], v[3], v[4], v[5], v[6], v[7], v[8]]))
        elif k == 'nv':       # nv ell lat lon azi c
            rows.append(['nv'] + list(v[1:6]))
    return rows


OBJ_CFG = 'INIT Init\nNEXT Next\nCONSTANTS Depth = %d\nINVARIANTS HistoryFree OracleInv Emit\nCHECK_DEADLOCK FALSE\n'


def obj_rows(vals):
    rows = []
    for v in vals:
        if v[0] != 'ph':
            continue
        row = ['ph', v[1], len(v[2])] + _flat(v[2])
        for part in v[3:7]:
            row += [len(part)] + _flat(part)
        rows.append(row)
    return rows


def object_stage(ctx):
    """Projection objects as a state machine: TLC explores every history constructor ; Reset^n (n <= Depth) over the lattice
    centres (MC_ProjObject: HistoryFree, oracle consistency), each history is replayed on ONE real CassiniSoldner object (plus
    AzimuthalEquidistant / Gnomonic objects that live for the whole replay) and Trace_ProjObject follows the replay statefully."""
    cfg = ctx.cfg('MC_ProjObject', OBJ_CFG % (2 if ctx.quick else 3))
    vals = ctx.generate('MC_ProjObject', cfg, workers=max(2, vlib.NCPU // 4), timeout=3000, heap='4g')
    rows = obj_rows(vals)
    if len(rows) < 100:
        raise vlib.FrameworkError('too few object histories emitted: %d' % len(rows))
    vin = ctx.path('histories.txt')
    vlib.write_lines(vin, rows)
    ctx.cov['behaviours_replayed'] += len(rows)
    ctx.cov['distinct_nontrivial'] += len(rows)
    exe = vlib.build_driver('drv_constr', 'plain' if ctx.quick else 'san')
    trace = ctx.path('trace-obj.ndjson')
    rc, err = ctx.drive(exe, ['replayobj'], infile=vin, outfile=trace)
    if rc != 0:
        ctx.violation('driver crashed replaying object histories (rc=%d): %s' % (rc, err[-600:]),
                      [{'e': 'ReplayHeader', 'property': ctx.pid, 'law': 'no-crash', 'histories': vin}])
        return
    n, rej = ctx.validate('Trace_ProjObject', 'Trace_ProjObject', trace, shards=vlib.NCPU, group_key='Reset')
    ctx.cov['traces_validated_against_impl'] += 1
    ctx.report_rejects(rej, trace)


def run(ctx):
    q = ctx.quick
    base = ('INIT Init\nNEXT Next\nCONSTANTS Part = "%s" NChunks = 64 NNMax = %d NNRange = %d NNGrid = %d NQ = %d NNDeep = %s '
            'NodeStep = %d IxThin = %d Ells = {0, 1, 2, 3, 4}\nINVARIANTS %s\nCHECK_DEADLOCK FALSE\n')
    parts = [
        ('nn', base % ((('nn', 5, 5, 3, 4, 'FALSE', 45, 60) if q else ('nn', 6, 6, 4, 12, 'TRUE', 30, 6)) + ('NNInv Emit',))),
        ('ix', base % ((('ix', 5, 5, 3, 4, 'FALSE', 45, 60) if q else ('ix', 6, 6, 4, 12, 'TRUE', 30, 6)) + ('IXInv SegInv Emit',))),
    ]
    # the model of the search on every valid tree (no vectors)
    nnm = base % ((('nnm', 4, 4, 2, 1, 'FALSE', 45, 60) if q else ('nnm', 5, 5, 3, 1, 'TRUE', 45, 60)) + ('NNModelInv',))
    nrec = 50000 if q else 375000
    import concurrent.futures as cf
    with cf.ThreadPoolExecutor(1) as ex:
        fut = ex.submit(ctx.model_check, 'MC_GeodConstr', ctx.cfg('MC_GeodConstr_nnm', nnm), None,
                        max(2, vlib.NCPU // 3), 3000, 100)
        vlib.lattice_pipeline(ctx, 'MC_GeodConstr', parts, to_rows, 'drv_constr', ['replay'], ['record', ctx.seed, nrec],
                              'Trace_GeodConstr', flavour_record=None if q else 'san', gen_workers=max(2, vlib.NCPU // 3))
        object_stage(ctx)
        fut.result()
    ctx.cov['exhaustive'] = False
    return ctx.finish(RULE, TRUSTED)


RULE = ('vectors enumerated by TLC from MC_GeodConstr: NearestNeighbor<int,int,metric> instances for all point multisets of size <= 5 '
        '(6 thorough) on the integers 0..5 (0..6) with d = |a - b| and <= 3 (4) points of a 3 x 3 grid with the L1 metric, in three '
        'orders, bucket in {0,1,2,4}, each with its saved tree and sampled searches (query, k, maxdist, mindist, exhaustive, tol); '
        'pairs of lattice great circles (equator, meridians, obliques 30/45/60/120/135/150 with nodes every 45 (30) degrees) whose '
        'intersections are lattice positions x starting arcs x origins x radii for Closest, Next, Segment, All, plus coincident '
        'equator/meridian pairs (Closest, Next, Segment; the equator also on a = 180/pi, f = 0.1, -0.1, 0.2, -0.25 with the exact solver) '
        'and Next on one geodesic taken twice from a vertex at every integer latitude; every history constructor ; Reset^n (n <= 2, '
        'thorough 3) of a CassiniSoldner object over 8 lattice centres with 13-17 Forward and 11 Reverse probes of the final state plus '
        'azimuthal equidistant / gnomonic probes on the central meridian; plus seeded random law records (projections incl. overload / '
        'default-argument / history agreement, intersections incl. exactly coincident segments, coincident Next at vertices, tie origins; '
        'nearest neighbour incl. the object histories). '
        'The search model (part nnm) is checked on all valid trees over <= 4 (5) points. distinct_nontrivial = distinct lattice vectors.')
TRUSTED = ['TLC', 'NearestNeighbor.tla', 'IntersectLattice.tla', 'SphereLattice.tla', 'ProjLattice.tla', 'ProjObject.tla', 'GeodProjLaws.tla', 'IntersectLaws.tla',
           'drv_constr.cpp (nanometre quantisation, 3-D chord and crossing angle, rank transform of doubles, textbook constructions)']


def replay(ctx, path):
    raise vlib.FrameworkError('replay: re-run ./check C17; replay files list the offending trace lines')
