"""C01 - direct geodesic problem."""
import geod_common
import vlib

LEVEL = 'model_checking'
LEVEL_TEXT = ('SphereLattice.tla gives the exact integer answer of the direct problem on a lattice of great circles (equator, meridians through '
              'the poles, oblique circles at their nodes/vertices) for arcs of either sign and several circuits, incl. unrolled longitude and '
              'pole passages; TLC enumerates the lattice, checks its self-consistency and every vector is replayed on the series, exact and '
              'exact=true solvers through GenDirect (arc and distance) and line objects, validated by TLC.  On the ellipsoid family the laws '
              'of the property (4-way agreement at the documented accuracy, ranges, circuit counting, chain additivity, arc/distance, Clairaut) '
              'are validated on seeded samples.  The lattice is replayed on two sphere radii (metres != degrees) and on eight interfaces '
              '(GenDirect, Line + GenPosition, DirectLine, ArcDirectLine, GenDirectLine, SetDistance / SetArc); GeodOverloads.tla holds the table '
              'of all public overloads and line-constructor forms, TLC checks its consistency and every overload of every class must write what '
              'the documented general call writes; the exact solver is judged by itself on b/a = 2^k and on a walk over 393 ellipsoids '
              'n = j/200 (b/a in [0.0101, 99]) with solver-independent anchors (AGM quarter meridian, equator).')
DESIGN_REF = 'DESIGN.md section 4, C01'
LEVEL_NOTE = ('Trusted: TLC, SphereLattice.tla, closed-form geodetic->cartesian conversion in the driver. Absolute accuracy on the ellipsoid is decided '
              'through redundancy (two independent solvers, Clairaut), see DESIGN section 7.')
TECHNIQUE = 'TLA+ lattice model + TLC enumeration, spec-to-code replay, TLC trace validation of laws'
RULE = ('lattice direct problems enumerated by TLC (circle x node x start x arc, arcs in -721..721, sphere radius rk in {1, 2}, one of six line '
        'interfaces per vector) each replayed on 9 solver/interface configurations; the ellipsoid walk j in -196..196; seeded random direct '
        'problems on 9 flattenings x 3 radii (dl) and on the extended family |f| = 0.05, 0.1, b/a = 2^-6..2^6 (dx) with the property laws as '
        'residual records; every fourth record carries all 39 overloads and 12 constructor forms of its mode. distinct_nontrivial = lattice vectors.')
TRUSTED = ['TLC', 'SphereLattice.tla', 'GeodOverloads.tla', 'drv_geod.cpp (quantisation, closed-form cartesian conversion, AGM quarter meridian)']


def run(ctx):
    geod_common.run(ctx, 'C01', ['dir', 'ell'], [('dl', 20000, 600000), ('dx', 5000, 100000)])
    return ctx.finish(RULE, TRUSTED)


def replay(ctx, path):
    raise vlib.FrameworkError('replay: re-run ./check C01; replay files list the offending trace lines')
