"""C18 - grid codes (Geohash, GARS, Georef, OSGB).

M1: MC_GridCodes enumerates the cell-edge lattice (Eps numbers) and the code lattice and checks the
    model's closure/prefix/case invariants.      M2: every emitted vector is executed on the real
    library (drv_grid replay).      M3: the observation trace (lattice replays + seeded random
    round-trip records) is validated by Trace_GridCodes; TLC decides every line.
"""
import concurrent.futures as cf
import vlib

LEVEL = 'model_checking'
PARTS = ['gh', 'gars', 'georef', 'osgb', 'dec', 'sub']


def vectors_to_lines(vals):
    rows = []
    for v in vals:
        if v[0] == 'enc':
            rows.append(['enc', v[1], v[2], v[3], v[4], v[5], v[6]])
        elif v[0] == 'dec':
            rows.append(['dec', v[1], 1 if v[3] else 0] + list(v[2]))
    return rows


def run(ctx):
    nb = 8
    # 'sub' (single-byte substitutions of valid codes and markers) does not depend on Stride
    stride = {'gh': 3, 'gars': 5, 'georef': 11, 'osgb': 1, 'dec': 3, 'sub': 1} if ctx.quick else \
             {'gh': 1, 'gars': 1, 'georef': 1, 'osgb': 1, 'dec': 1, 'sub': 1}
    exe = vlib.build_driver('drv_grid', 'plain')
    exe_san = vlib.build_driver('drv_grid', 'san') if not ctx.quick else None

    def gen(part):
        cfg = ctx.cfg('MC_GridCodes_' + part,
                      'INIT Init\nNEXT Next\nCONSTANTS NB = %d Stride = %d Part = "%s" NChunks = 64\n'
                      'INVARIANTS EncInv DecInv Emit\nCHECK_DEADLOCK FALSE\n' % (nb, stride[part], part))
        return ctx.generate('MC_GridCodes', cfg, workers=6 if ctx.quick else 16,
                            timeout=3000, heap='6g')
    if ctx.quick:
        with cf.ThreadPoolExecutor(len(PARTS)) as ex:
            allv = list(ex.map(gen, PARTS))
    else:
        allv = [gen(p) for p in PARTS]
    nsub = len(allv[PARTS.index('sub')])
    if nsub < 10000:
        raise vlib.FrameworkError('too few substitution vectors emitted: %d' % nsub)
    ctx.cov['substitution_vectors'] = nsub
    vals = [v for part in allv for v in part]
    if len(vals) < 1000:
        raise vlib.FrameworkError('too few vectors emitted: %d' % len(vals))
    rows = vectors_to_lines(vals)
    vin = ctx.path('vectors.txt')
    vlib.write_lines(vin, rows)
    ctx.cov['behaviours_replayed'] = len(rows)

    trace = ctx.path('trace.ndjson')
    rc, err = ctx.drive(exe, ['replay', nb], infile=vin, outfile=trace)
    if rc != 0:
        ctx.violation('driver crashed replaying lattice vectors (rc=%d): %s' % (rc, err[-400:]),
                      [{'e': 'ReplayHeader', 'property': 'C18', 'law': 'no-crash', 'vectors': vin}])
        return ctx.finish(RULE, TRUSTED)
    nrt = 40000 if ctx.quick else 600000
    rt = ctx.path('trace-rt.ndjson')
    rc, err = ctx.drive(exe_san or exe, ['record', ctx.seed, nrt], outfile=rt)
    if rc != 0:
        ctx.violation('driver crashed on random round trips (rc=%d): %s' % (rc, err[-400:]),
                      [{'e': 'ReplayHeader', 'property': 'C18', 'law': 'no-crash', 'seed': ctx.seed}])
        return ctx.finish(RULE, TRUSTED)
    for tf in (trace, rt):
        n, rej = ctx.validate('Trace_GridCodes', 'Trace_GridCodes', tf, shards=16, group_key=None)
        ctx.cov['traces_validated_against_impl'] += 1
        ctx.report_rejects(rej, tf)
    with open(trace) as f:
        for i, ln in enumerate(f):
            if i % 9973 == 0:
                ctx.sample(ln.strip())
    with open(rt) as f:
        for i, ln in enumerate(f):
            if i < 2:
                ctx.sample(ln.strip())
    ctx.cov['distinct_nontrivial'] = len(rows)
    ctx.cov['exhaustive'] = not ctx.quick
    return ctx.finish(RULE, TRUSTED)


RULE = ('lattice vectors enumerated by TLC from MC_GridCodes (every cell edge of the lattice at -1/0/+1 ulp, '
        'longitude wraps, poles, all low-precision codes, malformed codes, every single-byte substitution of one '
        'valid code per scheme and length and of the NaN markers), each executed on the real '
        'library; plus seeded random round-trip records; every trace line validated by TLC against '
        'GridCodes.tla. distinct_nontrivial = number of distinct lattice vectors.')
TRUSTED = ['TLC', 'GridCodes.tla (written from the headers)', 'drv_grid.cpp quantisation of decoded coordinates']


def replay(ctx, path):
    raise vlib.FrameworkError('replay: re-run ./check C18; replay files list the offending trace lines')

LEVEL_TEXT = ('TLC enumerates the whole cell-edge lattice (every edge at -1/0/+1 ulp, wraps, poles) and the low-precision code '
              'space of the four schemes in an exact integer TLA+ model, checks closure/prefix/case invariants on the model, '
              'and every enumerated vector is executed on the real library with TLC validating each observation; random '
              'round trips extend this to all precisions. Exhaustive within the lattice, sampled beyond it.')
DESIGN_REF = 'DESIGN.md section 4, C18'
LEVEL_NOTE = ('Trusted: TLC, GridCodes.tla (written from the headers), the driver quantisation. Positions one ulp from an edge that is '
              'not exactly representable (5 arc-minute, 1 arc-minute edges) and OSGB positions one ulp below an edge may go to either '
              'adjacent cell (round-off).')
TECHNIQUE = 'TLA+ lattice model + TLC enumeration, spec-to-code replay, TLC trace validation'
