"""C15 - auxiliary latitudes, ellipsoid measures, elliptic functions match their definitions.

M1: MC_AuxEll enumerates (lattice ellipsoid 1-f = P 2^-k) x (from, to) x {series, exact} x lattice angles, all
    conversion paths a -> b -> c, the Legendre schemas x modulus/parameter classes x arguments and the Carlson
    argument lattice, checking the chart model's invariants (inverse pairs, path independence, oddness, fixed
    points, monotonicity, the sphere), the parameter classes and the Carlson domains/anchors.
M2: every vector is executed on the real AuxLatitude / EllipticFunction (drv_auxell replay).
M3: Trace_AuxEll validates the lattice observations (exact dyadic expectations on the PHI/BETA/THETA charts, the
    sphere and the degenerate Carlson values) and the seeded random law records: every conversion, inspector and
    elliptic function against its defining closed form / integral (binary128 residuals, unit 2^-53), inverse pairs,
    series = exact, oddness, monotonicity, path independence, cross-class agreement, functional identities."""
import vlib

LEVEL = 'exploration'
LEVEL_TEXT = ('Law-based exploration with a TLA+ specification: the chart model of the six latitudes (exact integer arithmetic '
              'on the geographic/parametric/geocentric charts with dyadic flattening), parameter classes of the elliptic '
              'integrals and the Carlson domains are enumerated by TLC, checked against model invariants and replayed on the '
              'real code; all tolerance laws (definition residuals in binary128, inverse pairs, series = exact, oddness, '
              'monotonicity, path independence, cross-class agreement, Legendre/Jacobi/Carlson identities) are decided by '
              'TLC on lattice and seeded random observations.')
DESIGN_REF = 'DESIGN.md section 4, C15'
LEVEL_NOTE = ('Trusted: TLC, AuxLat.tla / Elliptic.tla / EllipsoidLaws.tla (from the headers and doc/), and the driver\'s '
              'binary128 evaluation of the defining closed forms and integrals (adaptive Gauss-Legendre, trapezoidal rule in '
              'log t for Carlson, Carlson duplication for the bulk meridian-arc references, cross-checked by quadrature on a '
              'sample).  "Equals the defining integral" is decided to the documented round-off level (15 nm on the WGS84 '
              'scale = 43 units of 2^-53 in the tangent), scaled by the squared axis ratio for extreme ellipsoids; the third '
              'kind integrals and 3-argument R_G / R_J are held to that level only for moderate parameters (see notes/C15.md).')
TECHNIQUE = 'TLA+ lattice model + TLC enumeration, spec-to-code replay, TLC trace validation of law records'

# Defects of the unchanged library met by the strict laws (reported in notes/C15.md).  They are matched structurally
# like the entries of known_findings.json (which this check does not edit).
# Known findings of C15 live in /verif/known_findings.json (structural matchers on input-class fields of the records).


def to_rows(vals):
    return [[v[0]] + [int(x) for x in v[1:]] for v in vals]


def run(ctx):
    q = 'TRUE' if ctx.quick else 'FALSE'
    base = ('INIT Init\nNEXT Next\nCONSTANTS RO = 43 AngRO = 22 Part = "%s" NChunks = 64 Quick = ' + q +
            '\nINVARIANTS GraphInv EllInv RcInv Emit\nCHECK_DEADLOCK FALSE\n')
    parts = [(p, base % p) for p in ('cv', 'path', 'ell')]
    nrec = 50000 if ctx.quick else 1200000
    vlib.lattice_pipeline(ctx, 'MC_AuxEll', parts, to_rows, 'drv_auxell', ['replay', vlib.NCPU],
                          ['record', ctx.seed, nrec, vlib.NCPU], 'Trace_AuxEll',
                          flavour_record=None if ctx.quick else 'san', drv_libs=['-lquadmath'])
    ctx.cov['exhaustive'] = False
    return ctx.finish(RULE, TRUSTED)


RULE = ('vectors enumerated by TLC from MC_AuxEll: 13 lattice ellipsoids (1-f = P 2^-k, b/a from 1/64 to 64) x 36 (from, to) pairs x '
        '{series, exact} x lattice angles (tangent s m 2^e, m in {1,3,5}, e from -1074 to 900, the equator and the poles, three AuxAngle '
        'forms incl. (+-inf, 1) and (+-0, 4)) x {AuxLatitude(a, f), AuxLatitude::axes(a, b)}; 13 x 216 conversion paths x modes x angles; '
        '12 x 12 modulus/parameter classes x arguments (0 included) x 4 ways of setting the parameters for the Legendre family; '
        'the Carlson argument lattice restricted to the documented domains; the AuxAngle class on small integer directions '
        '(normalized, copyquadrant, +=, degrees) and the two WGS84 singletons; plus seeded random law records (20 kinds). '
        'distinct_nontrivial = distinct lattice vectors.')
TRUSTED = ['TLC', 'AuxLat.tla', 'Elliptic.tla', 'EllipsoidLaws.tla',
           'drv_auxell.cpp (binary128 reference evaluation of the defining closed forms and integrals, residual quantisation)']


def replay(ctx, path):
    raise vlib.FrameworkError('replay: re-run ./check C15; replay files list the offending trace lines')
