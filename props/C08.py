"""C08 - polygon area and perimeter for every edit history."""
import vlib

LEVEL = 'model_checking'
LEVEL_TEXT = ('The polygon accumulator is a TLA+ state machine over lattice vertices (poles, integer equator longitudes incl. 0, +-180, '
              'wrapped values) whose area oracle is the Gauss-Bonnet turning sum, independent of the implementation\'s S12+crossing method; '
              'TLC explores all build histories to the depth bound, checks the oracle\'s own laws (rotation, reversal, shifts, diagonal cut), '
              'and every history is replayed on the four back ends with the full observable state (Compute x4 flags, 12 TestPoint, 6 TestEdge, '
              'CurrentPoint) validated by TLC after every step; the history laws are validated on random WGS84/oblate/prolate polygons with '
              'the documented error bounds.')
DESIGN_REF = 'DESIGN.md section 4, C08'
LEVEL_NOTE = ('Trusted: TLC, Polygon.tla. Exact areas are required for simple lattice polygons and degenerate ones; for self-overlapping '
              'lattice polygons the algebraic area is required modulo half the sphere (Gauss-Bonnet determines it only up to the rotation index). '
              'Histories whose consecutive vertices are antipodal (shortest line not unique) are outside the property and not generated.')
TECHNIQUE = 'TLA+ state machine + TLC history enumeration, spec-to-code replay, stateful TLC trace validation'

CFG = 'INIT Init\nNEXT Next\nCONSTANTS Depth = %d Size = "%s"\nINVARIANTS OracleInv DiagInv ReportInv Emit\nCHECK_DEADLOCK FALSE\n'


def run(ctx):
    exe = vlib.build_driver('drv_poly', 'plain')
    exe_rec = exe if ctx.quick else vlib.build_driver('drv_poly', 'san')
    depth, size = (3, 'small') if ctx.quick else (4, 'full')
    cfg = ctx.cfg('MC_Polygon_hist', CFG % (depth, size))
    hv = [v for v in ctx.generate('MC_Polygon', cfg, workers=vlib.NCPU, timeout=3000) if v[0] == 'hist']
    rows = []
    k = 0
    for v in hv:
        polyline, pre, ops = v[1], v[2], v[3]
        backends = [k % 4] if ctx.quick else [0, 1, 2, 3]
        if polyline and ctx.quick and k % 3:
            k += 1
            continue
        k += 1
        for b in backends:
            rows.append('new %d %d' % (b, 1 if polyline else 0))
            if pre:
                rows += [' '.join(str(x) for x in op) for op in pre]
                rows.append('clear')
            rows += [' '.join(str(x) for x in op) for op in ops]
    ctx.cov['behaviours_replayed'] = sum(1 for r in rows if r.startswith('new'))
    vin = ctx.path('ops.txt')
    vlib.write_lines(vin, rows)
    trace = ctx.path('trace.ndjson')
    rc, err = ctx.drive(exe, ['replay'], infile=vin, outfile=trace)
    if rc != 0:
        ctx.violation('driver crashed replaying histories (rc=%d): %s' % (rc, err[-500:]),
                      [{'e': 'ReplayHeader', 'property': 'C08', 'law': 'no-crash', 'ops': vin}])
        return ctx.finish(RULE, TRUSTED)
    n, rej = ctx.validate('Trace_Polygon', 'Trace_Polygon', trace, shards=vlib.NCPU, group_key='Reset')
    ctx.cov['traces_validated_against_impl'] += 1
    ctx.report_rejects(rej, trace)
    rt = ctx.path('trace-rt.ndjson')
    rc, err = ctx.drive(exe_rec, ['record', ctx.seed, 6000 if ctx.quick else 300000], outfile=rt)
    if rc != 0:
        ctx.violation('driver crashed on random polygons (rc=%d): %s' % (rc, err[-500:]),
                      [{'e': 'ReplayHeader', 'property': 'C08', 'law': 'no-crash', 'seed': ctx.seed}])
    else:
        n, rej = ctx.validate('Trace_Polygon', 'Trace_Polygon', rt, shards=vlib.NCPU, group_key=None)
        ctx.cov['traces_validated_against_impl'] += 1
        ctx.report_rejects(rej, rt)
    for tf in (trace, rt):
        with open(tf) as f:
            for i, ln in enumerate(f):
                if i in (3, 4):
                    ctx.sample(ln.strip()[:400])
    ctx.cov['distinct_nontrivial'] = ctx.cov['behaviours_replayed']
    ctx.cov['exhaustive'] = True
    return ctx.finish(RULE, TRUSTED)


RULE = ('TLC enumerates every build history (AddPoint over the lattice vertices, AddEdge along the equator incl. the long way round) up to '
        'Depth, for polygon and polyline mode, with and without a cleared garbage prefix; each history is replayed on Geodesic, GeodesicExact, '
        'Geodesic(exact=true) and Rhumb back ends (quick tier: one back end per history, round robin); after every step the whole observable '
        'state is compared with the oracle. distinct_nontrivial = histories replayed.')
TRUSTED = ['TLC', 'Polygon.tla (Gauss-Bonnet oracle)', 'drv_poly.cpp quantisation']


def replay(ctx, path):
    raise vlib.FrameworkError('replay: re-run ./check C08; replay files list the offending trace lines')
