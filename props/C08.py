"""C08 - polygon area and perimeter for every edit history."""
import collections
import json
import os
import vlib

LEVEL = 'model_checking'
LEVEL_TEXT = ('The polygon accumulator is a TLA+ state machine over lattice vertices (poles, integer equator longitudes incl. 0, +-180, '
              'wrapped values) whose area oracle is the Gauss-Bonnet turning sum, independent of the implementation\'s S12+crossing method; '
              'TLC explores all build histories to the depth bound, checks the oracle\'s own laws (rotation, reversal, shifts, diagonal cut), '
              'and every history is replayed on the five back ends with the full observable state (Compute x4 flags, 14 TestPoint, 6 TestEdge, '
              'CurrentPoint) validated by TLC after every step; the history laws are validated on random WGS84/oblate/prolate polygons with '
              'the documented error bounds, together with two laws that are not self-consistency laws: vertices entered as edges of the back '
              'end\'s own inverse problem give the same polygon, and rhumb polygons agree with the defining integrals of the area under a '
              'rhumb line evaluated in long double.')
DESIGN_REF = 'DESIGN.md section 4, C08'
LEVEL_NOTE = ('Trusted: TLC, Polygon.tla. Exact areas are required for simple lattice polygons and degenerate ones; for self-overlapping '
              'lattice polygons the algebraic area is required modulo half the sphere (Gauss-Bonnet determines it only up to the rotation index). '
              'Histories whose consecutive vertices are antipodal (shortest line not unique) are outside the property and not generated.')
TECHNIQUE = 'TLA+ state machine + TLC history enumeration, spec-to-code replay, stateful TLC trace validation'

CFG = 'INIT Init\nNEXT Next\nCONSTANTS Depth = %d Size = "%s"\nINVARIANTS OracleInv DiagInv ReportInv Emit\nCHECK_DEADLOCK FALSE\n'


def run(ctx):
    exe = vlib.build_driver('drv_poly', 'plain')
    exe_rec = exe if ctx.quick else vlib.build_driver('drv_poly', 'san')
    # quick: depth 3 over the small vertex set, one back end per history (round robin); thorough: depth 3 over the full vertex set on
    # all five back ends, then depth 4 over the small vertex set with one back end per history.  (Depth 4 over the full set is
    # 1.6 million histories, 8 million replays: it does not fit in memory and adds no new kind of transition.)
    passes = [(3, 'small', False)] if ctx.quick else [(3, 'full', True), (4, 'small', False)]
    vin = ctx.path('ops.txt')
    nb = 0
    k = 0
    with open(vin, 'w') as fo:
        for depth, size, allb in passes:
            cfg = ctx.cfg('MC_Polygon_hist_%d%s' % (depth, size), CFG % (depth, size))
            hv = ctx.generate('MC_Polygon', cfg, workers=vlib.NCPU, timeout=3000)
            for v in hv:
                if v[0] != 'hist':
                    continue
                polyline, pre, ops = v[1], v[2], v[3]
                backends = [0, 1, 2, 3, 4] if allb else [k % 5]
                if polyline and ctx.quick and k % 3:
                    k += 1
                    continue
                k += 1
                for b in backends:
                    rows = ['new %d %d' % (b, 1 if polyline else 0)]
                    if pre:
                        rows += [' '.join(str(x) for x in op) for op in pre]
                        rows.append('clear')
                    rows += [' '.join(str(x) for x in op) for op in ops]
                    fo.write('\n'.join(rows) + '\n')
                    nb += 1
            del hv
    ctx.cov['behaviours_replayed'] = nb
    trace = ctx.path('trace.ndjson')
    rc, err = ctx.drive(exe, ['replay'], infile=vin, outfile=trace)
    if rc != 0:
        ctx.violation('driver crashed replaying histories (rc=%d): %s' % (rc, err[-500:]),
                      [{'e': 'ReplayHeader', 'property': 'C08', 'law': 'no-crash', 'ops': vin}])
        return ctx.finish(RULE, TRUSTED)
    n, rej = ctx.validate('Trace_Polygon', 'Trace_Polygon', trace, shards=vlib.NCPU, group_key='Reset')
    ctx.cov['traces_validated_against_impl'] += 1
    ctx.report_rejects(rej, trace)
    rt = ctx.path('trace-rt.ndjson')
    rc, err = ctx.drive(exe_rec, ['record', ctx.seed, 6000 if ctx.quick else 300000], outfile=rt)
    if rc != 0:
        ctx.violation('driver crashed on random polygons (rc=%d): %s' % (rc, err[-500:]),
                      [{'e': 'ReplayHeader', 'property': 'C08', 'law': 'no-crash', 'seed': ctx.seed}])
    else:
        n, rej = ctx.validate('Trace_Polygon', 'Trace_Polygon', rt, shards=vlib.NCPU, group_key=None)
        ctx.cov['traces_validated_against_impl'] += 1
        ctx.report_rejects(rej, rt)
    for tf in (trace, rt):
        with open(tf) as f:
            for i, ln in enumerate(f):
                if i in (3, 4):
                    ctx.sample(ln.strip()[:400])
    # evidence only: how often the laws ev / ra applied and how often the conditioning guard of ev excluded the area comparison
    laws = collections.Counter()
    if os.path.exists(rt):
        with open(rt) as f:
            for ln in f:
                try:
                    r = json.loads(ln)
                except ValueError:
                    continue
                if r.get('e') != 'rl' or 'ev' not in r:
                    continue
                rh = r['backend'] >= 3
                peq = r['backend'] == 4 and r['fq'] < 0
                ok = r['ev'][5] <= 120000000 and (not rh or r['ev'][6] <= 80000000)
                if peq and r['eq'] < 10000000:
                    laws['ev.guard.pro-exact-eq(C09 known finding)'] += 1
                else:
                    laws['ev.%s.%s' % ('rhumb' if rh else 'geodesic', 'compared' if ok else 'guard.ill-conditioned')] += 1
                laws['ev.edges'] += r['ev'][4]
                if 'ra' in r:
                    laws['ra.backend%d.kind%d' % (r['backend'], r['ra'][5])] += 1
                    if peq and r['ra'][6] < 10000000:
                        laws['ra.length.guard.pro-exact-eq(C09 known finding)'] += 1
    # lattice states whose area obligations (Compute or one of the TestPoint closures) are suspended by the guard of finding C08-F1
    tverts = [('N', 30), ('S', -45), ('E', 0), ('E', 180), ('E', -91), ('E', 200), ('S', 720)]

    def f1(p, q):
        return p[1] % 360 == 0 and q[1] % 360 == 180 and 0 < q[1] < p[1]
    verts, hows = [], []
    with open(trace) as f:
        for ln in f:
            try:
                r = json.loads(ln)
            except ValueError:
                continue
            if r['e'] in ('Reset', 'clear'):
                verts, hows = [], []
            elif r['e'] == 'pt':
                verts.append((r['k'], r['lon'])); hows.append('pt')
            elif r['e'] == 'ed' and verts:
                verts.append(('E', verts[-1][1] + r['dir'] * r['s'])); hows.append('ed')
            inner = any(hows[i + 1] == 'pt' and f1(verts[i], verts[i + 1]) for i in range(len(verts) - 1))
            if len(verts) >= 2 and (inner or f1(verts[-1], verts[0])):
                laws['lattice.guard.C08-F1.compute'] += 1
            if verts and any(inner or f1(verts[-1], t) or f1(t, verts[0]) for t in tverts):
                laws['lattice.guard.C08-F1.testpoint'] += 1
    ctx.cov['laws'] = dict(sorted(laws.items()))
    ctx.cov['distinct_nontrivial'] = ctx.cov['behaviours_replayed']
    ctx.cov['exhaustive'] = True
    return ctx.finish(RULE, TRUSTED)


RULE = ('TLC enumerates every build history (AddPoint over the lattice vertices, AddEdge along the equator incl. the long way round) up to '
        'Depth, for polygon and polyline mode, with and without a cleared garbage prefix, with AddEdge on the still empty object and Clear at '
        'any point as model actions; each history is replayed on Geodesic, GeodesicExact, Geodesic(exact=true), Rhumb and Rhumb(exact=true) '
        'back ends (quick tier: depth 3 over the small vertex set, one back end per history, round robin; thorough tier: depth 3 over the full '
        'vertex set on all five back ends and depth 4 over the small vertex set, one back end per history); after every step the whole observable state is compared with the '
        'oracle. distinct_nontrivial = histories replayed.')
TRUSTED = ['TLC', 'Polygon.tla (Gauss-Bonnet oracle)', 'drv_poly.cpp quantisation',
           'drv_poly.cpp long-double references of the law ra (16-point Gauss-Legendre quadrature of the meridian distance, the isometric '
           'latitude and the area under a rhumb line; geodetic to cartesian for the distance CurrentPoint - vertex)']


def replay(ctx, path):
    raise vlib.FrameworkError('replay: re-run ./check C08; replay files list the offending trace lines')
