"""C11 - polar stereographic, Lambert conformal conic (incl. Mercator / polar limits) and Albers equal area (incl. cylindrical /
azimuthal limits): closed form, mutual inverses, conformality / equal area with the returned k and gamma, prescribed scale on the
standard parallels, equivalence of the constructors.

M1: MC_ConicSym (TLC) explores the exact discrete part of the specification ConicSym.tla: constructor / SetScale admissibility over an
    Eps lattice of latitudes and special scalar values, the canonical description of a projection and the equivalence of constructor
    forms (incl. the cross-class polar limit), the Cayley graph of the symmetry group with the homomorphism invariant of its output
    representation, and the table of sphere anchors where the textbook closed forms are rational (checked for mirror / reflection
    consistency, k = n rho/(a cos lat), and equal area between parallels).
M2: every vector is executed on the real classes (drv_conic replay).
M3: Trace_ConicSym validates each lattice observation by recomputing the expected outcome / transformation / anchor value, and the
    laws of the property on seeded random objects and points (drv_conic record) with the documented tolerances."""
import collections
import json

import vlib

LEVEL = 'model_checking'
LEVEL_TEXT = ('Exact TLA+ model of the discrete structure of the three projection classes (admissible constructor and SetScale calls on '
              'a latitude lattice with +-1 ulp at the poles, canonical description / equivalence of the one-parallel, two-parallel and '
              'sin-cos constructors and of the polar LCC with PolarStereographic, the symmetry group (hemisphere mirror, reflection in the '
              'central meridian, whole-turn shifts of lon and lon0, quarter turns for the polar aspect) with its representation on '
              '(x, y, gamma, k), and rational sphere anchors of the textbook closed forms), model-checked by TLC (homomorphism, mirror, '
              'k = n rho/(a cos lat) and equal-area invariants); every emitted vector is replayed on the real code and validated by TLC; '
              'the continuous laws (Snyder closed form in long double, Forward o Reverse and Reverse o Forward in true distance, k and '
              'gamma against finite differences of Forward, Jacobian determinant 1 for Albers, scale on the standard parallels, origin '
              'between the parallels, one-parallel equivalent, argument order, sin/cos form, SetScale equivalence, Mercator / polar '
              'stereographic / cylindrical and azimuthal equal-area limits against Ellipsoid and PolarStereographic, singletons) are '
              'validated by TLC on seeded random ellipsoids (oblate and prolate to |f| = 0.25), parallels (incl. nearly equal pairs '
              'down to 1e-12 degree and poles) and points (incl. both poles) with the 10 nm / 7e-15 / 4.5e-14 degree bounds of the headers. '
              'The object under SetScale is a state machine of the specification (the scale in force is the constructor\'s or the last '
              'non-throwing call\'s; a throwing call changes nothing observable), explored by TLC over all paths of calls and replayed; '
              'every Forward / Reverse overload and default argument is held to the call it documents it is equivalent to.')
DESIGN_REF = 'DESIGN.md section 4, C11'
LEVEL_NOTE = ('Trusted: TLC, ConicSym.tla, the long-double Snyder closed forms and metric of drv_conic.cpp. Off the lattice the spec is '
              'relational: a change below 10 nm x a/a_WGS84 (true distance) is not a violation; absolute accuracy is decided through the '
              'closed form evaluated in long double (guarded by its own conditioning: two distinct parallels must be >= 0.5 degree '
              'apart, otherwise the origin / one-parallel-equivalence / scale laws bind). For Albers the true-distance bound carries a '
              'named conditioning allowance towards the poles (equal-area inverse, see notes/C11.md); finite-difference laws are coarse '
              '(1e-6). tools/ConicProj is not exercised.')
TECHNIQUE = 'TLA+ lattice / state-graph model + TLC enumeration, spec-to-code replay, TLC trace validation'


def to_rows(vals):
    return [[(1 if x else 0) if isinstance(x, bool) else x for x in v] for v in vals]


def run(ctx):
    dense = 'FALSE' if ctx.quick else 'TRUE'
    base = ('INIT Init\nNEXT Next\nCONSTANTS Part = "%s" NChunks = 16 Dense = %s\n'
            'INVARIANTS CtorInv SetsInv SeqInv HomInv SymInv AncInv EqvInv Emit\nCHECK_DEADLOCK FALSE\n')
    parts = [(p, base % (p, dense)) for p in ('ctor', 'seq', 'grp', 'anc')]
    nobj = 14000 if ctx.quick else 500000
    rows, traces = vlib.lattice_pipeline(ctx, 'MC_ConicSym', parts, to_rows, 'drv_conic', ['replay'],
                                         ['record', ctx.seed, nobj], 'Trace_ConicSym',
                                         flavour_record=None if ctx.quick else 'san', min_vectors=5000)
    # evidence only: record kinds and how many lines each guard left to each law (vacuity is visible)
    kinds = collections.Counter()
    for tf in traces:
        with open(tf) as f:
            for ln in f:
                try:
                    r = json.loads(ln)
                except ValueError:
                    continue
                e = r['e']
                kinds[e] += 1
                if e in ('pt', 'ob', 'ss'):
                    kinds['%s.%s' % (e, r['fam'])] += 1
                if e == 'pt':
                    if r['ev'] and (r['same'] or (r['sepq'] >= 500000 and 0 <= r['ocn'] <= 20)):
                        kinds['pt.closed-form-evaluated'] += 1
                    if abs(r['latq']) == 90000000:
                        kinds['pt.at-a-pole'] += 1
                    if abs(r['latq']) <= 89000000 and abs(r['dlq']) <= 179000000 and -2000000 <= r['kq'] <= 2000000 and 0 <= r['amp'] <= 100000:
                        kinds['pt.finite-differences'] += 1
                    if r['gq'] > 179900000:
                        kinds['pt.cone-angle-wraps(excluded from inverse laws)'] += 1
                    if r['fam'] == 'alb' and (r['cnd'] >= 100000000 or r['amp'] >= 100000000):
                        kinds['pt.alb-conditioning-vacuous'] += 1
                    if not r['same'] and r['dpq'] < 1000000:
                        kinds['pt.nearly-equal-parallels(<1e-3deg)'] += 1
                    if r['kf'] != 'none':
                        kinds['pt.kf=' + r['kf']] += 1
                    if r['pol'] and r['cosq'] == 0 and ((r['sgn'] == 1) == (r['latq'] > 0)):
                        kinds['pt.at-the-pole-of-a-polar-aspect(unweighted k, gamma laws).' + r['fam']] += 1
                    if r['rk0'] != -1:
                        kinds['pt.reverse-lands-on-origin-latitude'] += 1
                if e == 'ss':
                    kinds['ss.inadmissible-call.%s' % r.get('bres', 'none')] += 1
                if e == 'seq':
                    kinds['seq.calls'] += len(r['calls'])
                    kinds['seq.calls-that-throw'] += sum(1 for o in r['out'] if o == 0)
                if e == 'sets' and r['kc'] == 7:
                    kinds['sets.default-argument'] += 1
                if e == 'ctor':
                    kinds['ctor.ct=%d.%s' % (r['ct'], r['out'])] += 1
                if e in ('anc', 'ctor') and r.get('kf', 'none') != 'none':
                    kinds['%s.kf=%s' % (e, r['kf'])] += 1
                if e == 'lim':
                    kinds['lim.' + r['lk']] += 1
    for k, n in sorted(kinds.items()):
        ctx.law(k, n)
    ctx.cov['exhaustive'] = not ctx.quick
    return ctx.finish(RULE, TRUSTED)


RULE = ('vectors enumerated by TLC from MC_ConicSym: constructor calls (every form - one parallel, two parallels, sines/cosines, '
        'un-normalised sines/cosines, PolarStereographic - x parallels on {-91,-90,-89,-45,0,30,89,90,91} degrees with -1/0/+1 ulp, NaN and '
        '+-inf in either position, sin/cos codes incl. malformed / NaN / infinite pairs in either position, every bad class of a, f, k with '
        'every form) and SetScale calls (incl. the default argument) on objects built with a scale that no call writes; every path of two '
        '(thorough: three) SetScale calls - admissible, throwing, default argument - from every kind of object, with the scale in force '
        'after each call; every element of the symmetry group reachable within the bound applied to base inputs, for Forward and for '
        'Reverse; every rational anchor of the closed forms on the 30-degree sphere lattice, for Forward and for Reverse of the image; '
        'every pair of equivalent constructor forms; plus seeded random records (ob, pt, lim, ss, sg). '
        'distinct_nontrivial = distinct lattice vectors.')
TRUSTED = ['TLC', 'ConicSym.tla', 'drv_conic.cpp (long-double closed forms of Snyder PP1395, ellipsoid metric, finite differences used to '
           'reduce each law to an integer residual)']


def replay(ctx, path):
    raise vlib.FrameworkError('replay: re-run ./check C11; replay files list the offending trace lines (field "in" holds the exact '
                              'inputs as hex floats; harness/drv_conic dbg re-executes one point)')
