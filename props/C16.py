"""C16 - angle arithmetic and exact-summation primitives (Math::*, Accumulator).

M1: MC_AngleArith enumerates a structured lattice of binary32 values (1/16 degree grid, +-ulp neighbours of multiples of
    15 degrees, huge multiples of 30 degrees up to 360*2^100, subnormal/tiny values, the AngRound grid, specials), pairs
    from an edge set, pairs related by the elementary trigonometric identities, and all Accumulator histories of length
    NHist on a limb lattice (every constructor form, +=, -=, negation, *= int, *= T, a = y, a = Accumulator(y), copy,
    assignment, probe, the six comparison operators, remainder), and the helpers polyval / sq / norm / hypot3 on integer
    lattices; TLC checks the model's own invariants (idempotence, oddness, congruence mod 360, exact
    two-sum identity, antisymmetry of AngDiff, reduction identities, accumulator algebra).
M2: every vector is executed on the real library (binary32 instantiations; the same values also as binary64).
M3: Trace_AngleArith validates every observation: binary32 results against the exact model (AngleArith.tla), all types
    against the laws of the property with integer residuals computed by the driver with MPFR; plus seeded random
    records for float / double / long double (huge, tiny, subnormal, 1 ulp from quadrant boundaries), taupf/tauf for
    e^2 in [-10, 0.98], random accumulator histories, and (thorough) a stratified sweep over all 2^32 floats."""
import vlib

LEVEL = 'model_checking'
LEVEL_TEXT = ('Exact integer TLA+ model of binary32 AngNormalize, AngDiff, AngRound, LatFix, the error-free sum and the '
              'remquo reduction structure of sincosd/sind/cosd/tand (valid for every finite float), exact atan2d axis table, '
              'and an exact limb model of Accumulator histories; TLC enumerates a structured lattice and all histories of '
              'bounded length, checks model invariants, every vector is replayed on the real code and TLC validates each '
              'observation. Doubles and long doubles are validated through exact (MPFR) integer residuals with the '
              'tolerances and guards in the TLA+ trace specification.')
DESIGN_REF = 'DESIGN.md section 4, C16'
LEVEL_NOTE = ('Trusted: TLC, AngleArith.tla/Accumulator.tla (from Math.hpp/Accumulator.hpp and IEEE-754), MPFR as the reference for '
              'the transcendental values and for exact dyadic arithmetic on doubles/long doubles. "Every 32-bit float '
              'exhaustively" is a structured lattice in TLC plus a stratified sample of all 2^32 bit patterns (thorough); the '
              'binary64/extended instantiations are judged by residual laws, not by an exact TLA+ model (53/64-bit significands '
              'exceed TLC integers).')
TECHNIQUE = 'TLA+ exact float lattice model + TLC enumeration, spec-to-code replay, TLC trace validation with MPFR residuals'


def _flat(x):
    return [int(t) for t in x]


def to_rows(vals):
    rows = []
    for v in vals:
        k = v[0]
        if k == 'one':
            rows.append(['one'] + _flat(v[1]))
        elif k in ('two', 'trp'):
            rows.append([k] + _flat(v[1]) + _flat(v[2]))
        elif k == 'pv':
            rows.append(['pv', len(v[1])] + [int(t) for t in v[1]] + [int(v[2])])
        elif k in ('sq', 'nrm', 'h3'):
            rows.append([k] + [int(t) for t in v[1:]])
        elif k == 'acc':
            rows.append(['acc', v[1]] + [int(t) for op in v[2] for t in op])
    return rows


def run(ctx):
    stride = 3 if ctx.quick else 1
    nhist = 3 if ctx.quick else 4
    base = ('INIT Init\nNEXT Next\nCONSTANTS Stride = %d Part = "%%s" NChunks = 64 NHist = %d\n'
            'INVARIANTS OneInv TwoInv TrpInv AccInv MscInv Emit\nCHECK_DEADLOCK FALSE\n' % (stride, nhist))
    parts = [(p, base % p) for p in ('one', 'two', 'trp', 'acc', 'msc')]
    nrec = 48000 if ctx.quick else 1200000
    sweep = 0 if ctx.quick else 4096
    vlib.lattice_pipeline(ctx, 'MC_AngleArith', parts, to_rows, 'drv_angle', ['replay', 'fd'],
                          ['record', ctx.seed, nrec, sweep], 'Trace_AngleArith',
                          flavour_record=None if ctx.quick else 'san', drv_libs=('-lmpfr', '-lgmp'))
    ctx.cov['exhaustive'] = False
    return ctx.finish(RULE, TRUSTED)


RULE = ('vectors enumerated by TLC from MC_AngleArith: binary32 values n/16 degree in [-720, 720] (stride 3 in the quick tier, always '
        'around multiples of 15 degrees), +-1,2 ulp neighbours of multiples of 15 degrees, 30 w 2^j (j <= 100) +-1 ulp, tiny and '
        'subnormal values, the 2^-28 AngRound grid, specials; all pairs of a 100-value edge set plus a coarse grid; pairs related by '
        'x -> -x, x + 360 j, 90 - x, 180 - x, x + 90 j, 90 j - x; all Accumulator<float|double> histories that start with one of 7 '
        'constructor forms (default, a(y), a = y) and continue with at most NHist operations out of 24 mutating ones (+=, -=, '
        'negate, *= int, *= T, a = y, a = Accumulator(y)) and, last only, 11 observing ones (probe, comparisons with 4 numbers, copy, '
        'assignment, remainder by 3 moduli); polyval (orders -1..4, coefficients -2..2, x in -4..4), sq (12-bit significands), norm '
        '(11 Pythagorean triples x signs x swap x 2^k), hypot3 on the axes; plus seeded random records (float, double, long double). distinct_nontrivial = distinct '
        'lattice vectors.')
TRUSTED = ['TLC', 'AngleArith.tla', 'Accumulator.tla', 'MPFR/GMP (reference values and exact residuals)',
           'drv_angle.cpp (residual quantisation)']


def replay(ctx, path):
    raise vlib.FrameworkError('replay: re-run ./check C16; replay files list the offending trace lines')
