"""C06 - transverse Mercator (series and exact) is the conformal projection it claims.

M1: MC_TMSym - (a) the symmetry group of the projection (latitude reflection, longitude-offset reflection, far side,
    wraps of lon / lon0) as a state machine whose generators act on inputs and, by the documented rules, on outputs; TLC
    explores the Cayley graph and checks the homomorphism invariant; (b) the sphere lattice (f = 0, a = 180/pi, dyadic k0):
    central meridian and its far side, meridians +-90, equator, poles at +-1 ulp of the critical meridians, with the
    lattice oracle itself checked for the group symmetries and for Reverse o Forward; (c) the branch point of the exact form
    (lat = 0, lon - lon0 = 90 (1 - e)  <->  x = k0 a (K' - E'), y = 0) reached through every reflection at -1/0/+1 ulp on the
    geographic side and at -6..+6 ulp of the easting on the grid side, for the configurations of the driver's tables; (d) the
    constructor family (defaulted arguments, inspectors, delegation TransverseMercator(exact) = TransverseMercatorExact).
M2: every group element is applied to base samples on TransverseMercator, TransverseMercator(exact) and
    TransverseMercatorExact; every lattice vector is executed (Forward and Reverse).
M3: Trace_TMSym validates the lattice lines exactly and the laws of the property on seeded random records with the documented
    tolerances: T1 inverse pair, T2 series = exact = independent order-30 Krueger evaluation, T3 symmetry group, T4 central
    meridian = meridian distance, T5 Cauchy-Riemann / k / gamma by finite differences, T6 UTM() singletons, poles,
    extendp domain, agreement of the overloads without gamma / k, and a sampler of the grid plane over the whole documented
    domain of Reverse (rxy: Forward o Reverse, standard = extended class on the strip, series = exact).  Records of the lower
    extended region are written as a strict line (known finding tmx-ext-lower) and a coarse line (documented bounds times the
    conditioning factor k / k0, kf none)."""
import collections
import json

import vlib

LEVEL = 'model_checking'
LEVEL_TEXT = ('TLA+ model of the symmetry group of the transverse Mercator projection (parities, far side, longitude wraps) with a '
              'homomorphism invariant, and an exact integer sphere lattice (central meridian, far side, poles, equator, +-1 ulp at the '
              'critical meridians), both model-checked by TLC; every group element and lattice vector is replayed on TransverseMercator '
              '(series, exact=true) and TransverseMercatorExact and validated by TLC; the laws of the property (mutual inverses, series = '
              'exact = order-30 Krueger evaluation from the documentation, central meridian = meridian arc, Cauchy-Riemann with k and '
              'gamma, poles, extendp domain, UTM() singletons, overloads without gamma / k, grid-plane sampler of Reverse, branch '
              'point and constructor-family lattices) are validated on seeded random records over 14 ellipsoids (prolate, sphere, '
              'oblate to f = 0.1), 5 radii and 6 scale factors with the documented 5 nm / 8 nm, 6e-14 / 7e-14 bounds.')
DESIGN_REF = 'DESIGN.md section 4, C06'
LEVEL_NOTE = ('Trusted: TLC, TMSym.tla, the long-double textbook formulas of drv_tm.cpp (closed-form geodetic->cartesian chord, meridian '
              'arc quadrature, conformal latitude, Krueger series to order 30 with the coefficients of doc/tmseries30.html summed '
              'directly). Off the lattice the spec is relational; a change below the documented accuracy is not a violation. Absolute '
              'accuracy of the exact form beyond the convergence region of the order-30 series (near the branch point, far east) rests '
              'on the inverse pair, the finite-difference definition laws and the symmetry group only. Named guards (notes/C06.md): '
              'Series35, FarSide2, EquatorFarSide, PoleConditioning, BranchPoint, InImage. Two genuine defects are NOT guarded: the strict laws reject them and '
              'known_findings.json matches them by input class (kf = tmx-gamma-nearpole, tmx-ext-lower); records of the lower extended '
              'region are written twice, a strict line (kf tmx-ext-lower, plain bounds) and a coarse line (kf none: the bounds times '
              'the conditioning factor k / k0, documented image rectangles and scale < 2^48 north of -75 degrees), so that other defects '
              'in that region are still reported. A third input class, kf = tmx-rev-bigf (exact Reverse does not converge for f = 0.1 on '
              'a band of the grid plane just beyond eta = 1.25 (K\' - E\')), is labelled by the grid-plane sampler and left rejecting. '
              'The documented convergence accuracy (2e-15") is unattainable in double precision; the scale bound is used for gamma. '
              'tools/TransverseMercatorProj is not exercised.')
TECHNIQUE = 'TLA+ group / lattice model + TLC enumeration, spec-to-code replay, TLC trace validation'

RES = {'cmp': ['so', 'sog', 'sok', 'rso', 'rsog', 'rsok', 'eo', 'eog', 'eok', 'reo', 'reog', 'reok', 'se', 'seg', 'sek'],
       'rt': ['frd', 'frg', 'frk', 'rfd', 'rfg', 'rfk'], 'cm': ['xq', 'gq', 'kq', 'yq', 'ym'],
       'pl': ['xq', 'yq', 'ym', 'gq', 'kq', 'rp', 'rk'], 'cr': ['cr1', 'cr2', 'mk', 'rg'],
       'sym': ['fd', 'fg', 'fk', 'rd', 'rg', 'rk'], 'ext': ['qd', 'qg', 'qk'],
       'bp': ['xq', 'yq', 'gq', 'kq', 'frd'], 'bpr': ['rp', 'rfd'], 'rxy': ['cd', 'cg', 'ck', 'xd', 'sd']}
TERR = (1, 2, 3, 4, 5)


def calibrate(ctx, traces):
    """Evidence only: counts per kind / guard and the maxima of the residuals on the core domain (terrestrial ellipsoids; series
    within 35 degrees; exact away from the poles / branch point; lower extended region excluded).  Nothing is decided here."""
    kinds = collections.Counter()
    mx = collections.Counter()
    for tf in traces:
        with open(tf) as f:
            for ln in f:
                try:
                    r = json.loads(ln)
                except ValueError:
                    continue
                e = r.get('e')
                kinds[e] += 1
                if e not in RES:
                    continue
                cls, fi = r.get('cls', 0), r.get('fi', 0)
                kinds['%s.cls%d' % (e, cls)] += 1
                if r.get('part') == 'coarse':       # lower extended region, coarse line: counted per conditioning factor, no maxima
                    kinds['%s.coarse.kl%s' % (e, '<=15' if -99 < r.get('kl', -99) <= 15 else '>15(vacuous position bound)')] += 1
                    continue
                if e == 'bpr' and r.get('hit'):
                    kinds['bpr.grid-point-is-library-K-E'] += 1
                if e == 'bp':
                    kinds['bp.side%+d%s' % (r['side'], '' if r['xct'] else '.rounded')] += 1
                    if r['el'][3] != 0 or not r['xct']:
                        continue
                if e == 'rxy':
                    kinds['rxy.' + ('image-point' if r['las'] >= 100 else 'continuation' if r['las'] <= -100 else 'equator')] += 1
                    if r.get('cx'):
                        kinds['rxy.strip-agreement'] += 1
                    if r['las'] < 100:
                        continue
                if r.get('kf', 'none') != 'none':
                    kinds['%s.kf=%s' % (e, r['kf'])] += 1
                    continue
                if e in ('cmp', 'rt', 'cr', 'sym', 'rxy') and cls == 0 and r['ang'] > 35000000:
                    kinds[e + '.series-beyond-35deg(guard)'] += 1
                    continue
                if e == 'cmp' and r['otr'] > 10:
                    kinds['cmp.oracle-not-converged(guard)'] += 1
                if fi not in TERR or abs(r['latq']) > 89000000 or (r['sing'] < 1000000 and e not in ('bp', 'bpr')):
                    continue
                if e == 'cr' and not (abs(r['latq']) <= 88000000 and (abs(r['latq']) >= 5000 or abs(r['lamq']) < 45000000 or cls >= 3)):
                    continue
                if (r['latq'] == 0 and abs(r['lamq']) > 90000000) or (e == 'sym' and r['bk'] == 'eq' and r['el'][2] == 1):
                    continue
                side = 'far' if abs(r['lamq']) > 90000000 else 'near'
                for k in RES[e]:
                    if k not in r or r[k] > 2000000000:
                        continue
                    if e == 'cmp' and (r['otr'] > 10):
                        continue
                    if e == 'rxy' and k == 'sd' and (r['ang'] > 35000000 or fi not in TERR):
                        continue
                    if e == 'rt' and k.startswith('rf') and cls in (1, 2) and not (abs(r['latq']) >= 100 or abs(r['lamq']) < 45000000):
                        continue
                    key = 'max.%s.%s.%s.%s' % (e, k if e != 'cmp' else k, 'series' if cls == 0 and e != 'cmp' else ('exact' if e != 'cmp' else 'x'), side)
                    mx[key] = max(mx[key], r[k])
    for k, n in sorted(kinds.items()):
        ctx.law(str(k), n)
    for k, n in sorted(mx.items()):
        ctx.cov['laws'][k] = n


def run(ctx):
    nb = 12 if ctx.quick else 60

    def to_rows(vals):
        rows = []
        for v in vals:
            rows.append(list(v) + [nb] if v[0] == 'sym' else list(v))
        return rows

    stride = 3 if ctx.quick else 1
    base = ('INIT Init\nNEXT Next\nCONSTANTS Part = "%s" NChunks = 16 Stride = %d\n'
            'INVARIANTS HomInv SphInv RevInv BpInv CfgInv Emit\nCHECK_DEADLOCK FALSE\n')
    parts = [(p, base % (p, stride)) for p in ('grp', 'sl', 'slr', 'bp', 'bpr', 'cfg')]
    nrec = 48000 if ctx.quick else 2000000
    rows, traces = vlib.lattice_pipeline(ctx, 'MC_TMSym', parts, to_rows, 'drv_tm', ['replay'], ['record', ctx.seed, nrec],
                                         'Trace_TMSym', flavour_record=None if ctx.quick else 'san', min_vectors=5000)
    calibrate(ctx, traces)
    ctx.cov['exhaustive'] = not ctx.quick
    return ctx.finish(RULE, TRUSTED)


RULE = ('vectors enumerated by TLC from MC_TMSym: all 200 elements of the symmetry group (8 reflections x wraps of lon and lon0 in -2..2), '
        'each applied by the driver to base samples (generic, central meridian, equator, pole) on three classes; sphere-lattice Forward '
        'vectors (integer latitudes x critical meridians 0, +-90, +-180 at -1/0/+1 ulp x (lon0, wrap) pairs x dyadic k0, plus a 15-degree '
        'sweep) and Reverse vectors (x = 0, y = -180..180 at -1/0/+1 ulp); branch-point vectors of the exact form (configuration x class '
        'x reflection x ulp offset, geographic and grid side); constructor-family vectors (class x configuration x sample); plus '
        'seeded random law records (cmp rt cm cr pl ext utm rxy bp bpr). '
        'distinct_nontrivial = distinct vectors.')
TRUSTED = ['TLC', 'TMSym.tla', 'drv_tm.cpp (long-double chord distance, meridian arc quadrature, order-30 Krueger series from '
           'doc/tmseries30.html, AGM elliptic integrals; quantisation of residuals)']


def replay(ctx, path):
    raise vlib.FrameworkError('replay: re-run ./check C06; replay files list the offending trace lines (field "in" holds the exact '
                              'inputs lon0, lat, lon - lon0 as hex floats)')
