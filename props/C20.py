"""C20 - Geoid heights depend only on data and position, never on cache history."""
import json
import os
import subprocess
import vlib

LEVEL = 'model_checking'
LEVEL_TEXT = ('The Geoid object is modelled as a TLA+ state machine (cache flag/window, thread-safe mode) whose heights are the exact '
              'documented bilinear interpolation (integer arithmetic on a dyadic lattice) independent of the state; TLC explores every '
              'operation history up to the depth bound and every lattice position, each is replayed on real Geoid objects reading '
              'synthetic .pgm rasters, and TLC validates every observation (exact value, bit-equality with a fresh and a thread-safe '
              'object, cache inspectors, throw contract). Cubic mode is bound by the polynomial-reproduction law (interior rows, and the two polar '
              'cell rows with the documented pole constraint) and the equality laws; random rasters/histories and enumerated file faults '
              'extend coverage; GeoidEval built from the tree is run on the same raster and its printed heights / conversions are decided by TLC.')
DESIGN_REF = 'DESIGN.md section 4, C20'
LEVEL_NOTE = ('Trusted: TLC, Geoid.tla, the pixel formulas shared by spec and driver. The cubic coefficient tables are bound through the '
              'law that a least-squares cubic fit reproduces a cubic polynomial raster exactly (interior cells: any cubic; polar cell rows: any '
              'cubic that is constant along the pole, continued by the documented reflection), not by re-deriving the tables.')
TECHNIQUE = 'TLA+ state machine + TLC history enumeration, spec-to-code replay, stateful TLC trace validation'

POLAR = ('ppoly', 36, 19, True, False)      # polar cell rows of the cubic interpolation: lattice value law + short histories

CFG = ('INIT Init\nNEXT Next\nCONSTANTS W = %d H = %d Kind = "%s" Cubic = %s TS = %s Depth = %d Part = "%s" Stride = %d NChunks = 32\n'
       'INVARIANTS BilinearInv PixInv PPolyInv HistInv Emit\nCHECK_DEADLOCK FALSE\n')
TCFG = 'INIT Init\nNEXT Next\nCONSTANTS W = %d H = %d Kind = "%s"\nPOSTCONDITION Summary\nCHECK_DEADLOCK FALSE\n'


def tl(b):
    return 'TRUE' if b else 'FALSE'


def op_line(op):
    return ' '.join(str(x) for x in op)


def run_tool(exe, args, lines):
    """Feed the lines to GeoidEval; returns (list of output lines, exit status)."""
    try:
        p = subprocess.run(['timeout', '60', exe] + args, input=''.join(l + '\n' for l in lines).encode(),
                           stdout=subprocess.PIPE, stderr=subprocess.PIPE)
    except OSError as e:
        raise vlib.FrameworkError('cannot run %s: %s' % (exe, e))
    if p.returncode == 124:
        raise vlib.FrameworkError('tool timeout: %s %s' % (exe, args))
    return p.stdout.decode('latin-1').split('\n')[:-1], p.returncode


def dec(num, den):
    """Exact decimal text of num/den (den a power of two <= 8)."""
    sgn, num = ('-' if num < 0 else ''), abs(num)
    return '%s%d.%03d' % (sgn, num // den, (num % den) * 1000 // den)


def tool_stage(ctx, tmpdir):
    """GeoidEval built from the tree under test, run on the synthetic polynomial raster at TLC-chosen positions / heights.
    Only executes and logs (options, input and output tokens as byte codes); Trace_Geoid (ToolOK) decides."""
    kind, W, H = 'poly', 36, 19
    exe = vlib.build_tool('GeoidEval')
    cfg = ctx.cfg('MC_Geoid_tool', CFG % (W, H, kind, 'TRUE', 'FALSE', 0, 'tool', 1))
    tv = sorted(v[1:] for v in ctx.generate('MC_Geoid', cfg, workers=2, timeout=3000) if v[0] == 't')
    if len(tv) < 20:
        raise vlib.FrameworkError('tool stage: too few vectors (%d)' % len(tv))
    name = '%s%dx%d' % (kind, W, H)
    if not os.path.exists(os.path.join(tmpdir, name + '.pgm')):
        raise vlib.FrameworkError('tool stage: raster %s missing' % name)
    base = ['-d', tmpdir, '-n', name]
    # positions in eighths of a cell: lat = 90 - Y8 * 10/8, lon = X8 * 10/8 (exact decimals); height = k/4 m
    pos = lambda x, y: '%s %s' % (dec(90 * 8 - y * 10, 8), dec(x * 10, 8))
    area = ['-c', '50', '10', '75', '40']
    runs = [('n', True, []), ('n', False, ['-l']), ('n', True, ['-a']), ('n', True, area), ('n', False, ['-l', '-a']), ('n', False, ['-l'] + area),
            ('m2h', True, ['--msltohae']), ('h2m', True, ['--haetomsl']), ('m2h', False, ['-l', '--msltohae']), ('h2m', False, ['-l', '--haetomsl', '-a']),
            ('m2h', True, ['-a', '--msltohae']), ('rt', True, []), ('rt', False, ['-l'])]
    recs = []
    for mode, cubic, opts in runs:
        vec = sorted(set((x, y, 0) for (x, y, k) in tv)) if mode == 'n' else tv
        lines = [pos(x, y) + ('' if mode == 'n' else ' ' + dec(k, 4)) for (x, y, k) in vec]
        if mode == 'rt':        # --msltohae piped into --haetomsl
            mid, st1 = run_tool(exe, base + opts + ['--msltohae'], lines)
            out, st = run_tool(exe, base + opts + ['--haetomsl'], mid)
            st = st or st1
        else:
            out, st = run_tool(exe, base + opts, lines)
        for i, (x, y, k) in enumerate(vec):
            has = i < len(out) and len(out) == len(lines)
            recs.append(dict(e='tool', mode=mode, cubic=cubic, opts=' '.join(opts), x=x, y=y, hq=k, status=st, has=has,
                             inp=[list(t.encode()) for t in lines[i].split()],
                             tok=[list(t.encode('latin-1')) for t in out[i].split()] if has else []))
    tf = ctx.path('trace_tool.ndjson')
    vlib.write_lines(tf, [json.dumps(r, separators=(',', ':')) for r in recs])
    ctx.cov['behaviours_replayed'] += len(recs)
    tcfg = ctx.cfg('Trace_Geoid_tool', TCFG % (W, H, kind))
    n, rej = ctx.validate('Trace_Geoid', tcfg, tf, shards=1, group_key=None)
    ctx.cov['traces_validated_against_impl'] += 1
    ctx.report_rejects(rej, tf)
    ctx.law('tool-runs', len(runs))
    ctx.law('tool-lines', len(recs))
    ctx.sample(json.dumps(recs[0], separators=(',', ':'))[:300])


def run(ctx):
    depth = 3 if ctx.quick else 4
    exe = vlib.build_driver('drv_geoid', 'plain')
    exe_san = exe if ctx.quick else vlib.build_driver('drv_geoid', 'san')
    tmpdir = ctx.path('rasters')
    os.makedirs(tmpdir, exist_ok=True)
    configs = [('grid', 90, 91, False, False), ('grid', 90, 91, False, True), ('poly', 36, 19, True, False),
               ('poly', 36, 19, True, True), ('grid', 90, 91, True, False), ('poly', 36, 19, False, False), POLAR]
    for (kind, W, H, cubic, ts) in configs:
        label = '%s_%s_%s' % (kind, 'cub' if cubic else 'bil', 'ts' if ts else 'plain')
        # ---- M1: histories (state graph) -------------------------------------------------
        d = depth if not ts and kind != 'ppoly' else 2
        cfg = ctx.cfg('MC_Geoid_hist_' + label, CFG % (W, H, kind, tl(cubic), tl(ts), d, 'hist', 1))
        hv = ctx.generate('MC_Geoid', cfg, workers=vlib.NCPU, timeout=3000)
        rows = []
        for v in hv:
            if v[0] == 'hist':
                rows.append('obj %s %d %d %d %d' % (kind, W, H, cubic, ts))
                rows += [op_line(op) for op in v[1]]
        ctx.cov['behaviours_replayed'] += sum(1 for v in hv if v[0] == 'hist')
        # ---- M1: lattice of positions (only where the value law applies) -------------------
        if (kind == 'grid' and not cubic) or (kind in ('poly', 'ppoly') and cubic and not ts):
            stride = (5 if kind == 'grid' else 3 if kind == 'poly' else 1) if ctx.quick else 1
            cfg = ctx.cfg('MC_Geoid_lat_' + label, CFG % (W, H, kind, tl(cubic), tl(ts), 0, 'lat', stride))
            lv = [v for v in ctx.generate('MC_Geoid', cfg, workers=vlib.NCPU, timeout=3000) if v[0] == 'q']
            lv.sort(key=lambda v: (v[2], v[1]))          # sweep order: consecutive queries share cells
            rows.append('obj %s %d %d %d %d' % (kind, W, H, cubic, ts))
            rows += ['h %d %d' % (v[1], v[2]) for v in lv]
            if not ts:                                   # same sweep through a full cache and an area cache
                rows.append('obj %s %d %d %d %d' % (kind, W, H, cubic, ts)); rows.append('call')
                rows += ['h %d %d' % (v[1], v[2]) for v in lv[::3]]
                rows.append('obj %s %d %d %d %d' % (kind, W, H, cubic, ts)); rows.append('ca %d %d %d %d' % (8 * (H - 1), 8 * W - 40, 0, 48))
                rows += ['h %d %d' % (v[1], v[2]) for v in lv[::3]]
            ctx.cov['behaviours_replayed'] += len(lv)
        vin = ctx.path('ops_%s.txt' % label)
        vlib.write_lines(vin, rows)
        trace = ctx.path('trace_%s.ndjson' % label)
        rc, err = ctx.drive(exe, ['replay', tmpdir], infile=vin, outfile=trace)
        if rc != 0:
            ctx.violation('driver crashed replaying %s (rc=%d): %s' % (label, rc, err[-500:]),
                          [{'e': 'ReplayHeader', 'property': 'C20', 'law': 'no-crash', 'ops': vin}])
            continue
        tcfg = ctx.cfg('Trace_Geoid_' + label, TCFG % (W, H, kind))
        n, rej = ctx.validate('Trace_Geoid', tcfg, trace, shards=vlib.NCPU, group_key='Reset')
        ctx.cov['traces_validated_against_impl'] += 1
        ctx.report_rejects(rej, trace)
        with open(trace) as f:
            for i, ln in enumerate(f):
                if i in (0, 1, 2):
                    ctx.sample(ln.strip()[:300])
    # ---- the command-line tool on the same synthetic raster -------------------------------------
    tool_stage(ctx, tmpdir)
    # ---- M3: random rasters, random histories, file faults ----------------------------------
    rt = ctx.path('trace_rnd.ndjson')
    rc, err = ctx.drive(exe_san, ['record', tmpdir, ctx.seed, 400 if ctx.quick else 20000], outfile=rt)
    if rc != 0:
        ctx.violation('driver crashed on random histories (rc=%d): %s' % (rc, err[-500:]),
                      [{'e': 'ReplayHeader', 'property': 'C20', 'law': 'no-crash', 'seed': ctx.seed}])
    else:
        tcfg = ctx.cfg('Trace_Geoid_rnd', TCFG % (2, 3, 'rnd'))
        n, rej = ctx.validate('Trace_Geoid', tcfg, rt, shards=vlib.NCPU, group_key='Reset')
        ctx.cov['traces_validated_against_impl'] += 1
        ctx.report_rejects(rej, rt)
    ctx.cov['distinct_nontrivial'] = ctx.cov['behaviours_replayed']
    ctx.cov['exhaustive'] = False
    return ctx.finish(RULE, TRUSTED)


RULE = ('TLC enumerates every operation history of length Depth over 24 operations (13 height queries chosen to hit the same cell, '
        'adjacent cells, the longitude seam, lon=+-180, both poles, a shifted period; 9 CacheArea requests incl. seam-crossing, polar, '
        'empty, zero-height (south = north) and full-circle; CacheAll; CacheClear) for plain and thread-safe objects, bilinear and cubic, '
        'and every position of the eighth-cell lattice (for the polar raster: of the two polar cell rows); each history is replayed on a '
        'fresh real object. GeoidEval: 13 runs (no option, -l, -a, -c, --msltohae, --haetomsl, the pipe of the two) at the 13 query positions '
        'x 4 heights. distinct_nontrivial = histories + lattice positions + tool lines.')
TRUSTED = ['TLC', 'Geoid.tla', 'pixel formulas shared by Geoid.tla and drv_geoid.cpp']


def replay(ctx, path):
    raise vlib.FrameworkError('replay: re-run ./check C20; replay files list the offending trace lines')
