"""C05 - MGRS: closed, exact, digit-consistent; geometric block admissibility."""
import vlib

LEVEL = 'model_checking'
LEVEL_TEXT = ('Exact integer TLA+ model of MGRS lettering (column sets, row cycle, UPS tables), coordinate folding and digit '
              'truncation; TLC enumerates tile/edge lattices at +-1 ulp and every zone x band x column x row letter combination; '
              'each vector is replayed on the real code and validated by TLC.  Block/band admissibility is judged against geometry '
              '(corner latitudes from the real inverse projection carried in the trace header), not against the implementation\'s '
              'hand-coded row table.  Random round trips cover all precisions.')
DESIGN_REF = 'DESIGN.md section 4, C05'
LEVEL_NOTE = ('Trusted: TLC, MGRS.tla (NGA lettering scheme), UTMUPS::Reverse for the geometry of the 100 km grid (checked by C04/C06). '
              'Band letters: the neighbour band is admitted within 5 nm of a band edge, as the property states.')
TECHNIQUE = 'TLA+ lattice model + TLC enumeration, spec-to-code replay, TLC trace validation'


def to_rows(vals):
    rows = []
    for v in vals:
        if v[0] == 'mr':
            rows.append(['mr', 1 if v[2] else 0] + list(v[1]))
        else:
            rows.append([v[0]] + [(1 if x else 0) if isinstance(x, bool) else x for x in v[1:]])
    return rows


def run(ctx):
    stride = 3 if ctx.quick else 1
    zones = '{1, 2, 3, 32}' if ctx.quick else '{%s}' % ', '.join(str(z) for z in range(1, 61))   # a .cfg has no '..'
    base = ('INIT Init\nNEXT Next\nCONSTANTS Stride = %d Part = "%s" NChunks = 64 Zones = %s\n'
            'INVARIANTS FwdInv RevInv DecInv MflInv Emit\nCHECK_DEADLOCK FALSE\n')
    parts = [(p, base % (stride, p, zones)) for p in ('mf', 'mr')]
    nrec = 30000 if ctx.quick else 600000
    vlib.lattice_pipeline(ctx, 'MC_MGRS', parts, to_rows, 'drv_mgrs', ['replay'], ['record', ctx.seed, nrec],
                          'Trace_MGRS', flavour_record=None if ctx.quick else 'san', header=1)
    ctx.cov['exhaustive'] = not ctx.quick
    return ctx.finish(RULE, TRUSTED)


RULE = ('vectors enumerated by TLC from MC_MGRS: UTM/UPS coordinates on every 100 km tile boundary and interior offsets at -1/0/+1 ulp '
        '(incl. closed upper edges, equator folding), precisions -1..11; every zone x band x column x row letter triple for the model '
        'zones (all 60 in the thorough tier), all UPS triples, grid-zone-only strings for zones 0..62, digit tails and malformed strings; '
        'every string also through the six-argument Reverse (default centerp) and MGRS::Decode; the overload with a supplied latitude '
        'on every column x row with latitudes on / next to band edges and at band centres (consistent and inconsistent), NaN easting / '
        'northing through both overloads; plus seeded random round trips and supplied-latitude records. '
        'distinct_nontrivial = distinct lattice vectors.')
TRUSTED = ['TLC', 'MGRS.tla', 'UTMUPS::Reverse (corner latitudes of the grid)', 'drv_mgrs.cpp quantisation']


def replay(ctx, path):
    raise vlib.FrameworkError('replay: re-run ./check C05; replay files list the offending trace lines')
