"""C13 - error contract: NaN propagates, bad input throws cleanly, nothing crashes."""
import json
import os
import re
import shutil
import subprocess
import tempfile
import vlib

LEVEL = 'fault_enumeration'
LEVEL_TEXT = ('Contract.tla tabulates the public interface (constructors, members, validating functions) with argument sorts, validity of '
              'each special value class and output dependencies, written from the headers; TLC enumerates every entry x argument position x '
              'value class (NaN, +-inf, +-0, denormal, tiny, huge, max, +-90, +-180, +-90+ulp, negative), every byte string up to the depth bound '
              'over an abstract alphabet for 17 parsers, digit runs of 6..32 digits between pieces of valid strings and DMS component sequences, truncation/byte/field faults at every offset of nearest-neighbour saves and of magnetic / gravity model '
              'files (metadata and coefficients; NumModels 1, 2 x NumConstants 0, 1; empty coefficient sets); each is executed '
              'on an ASan+UBSan build and TLC validates outcome class, exception type, NaN propagation, the documented INVALID markers for NaN, untouched outputs (reals, strings, ints, bools; also of the parsers and of a refused NearestNeighbor::Load); a crash, sanitizer '
              'report or time-out is attributed to the vector being executed.')
DESIGN_REF = 'DESIGN.md section 4, C13'
LEVEL_NOTE = ('Trusted: TLC, Contract.tla, sanitizers for memory safety/UB on the executions enumerated (absence of UB is observed, not proved). '
              'Faults are single faults of small synthetic files; entries not in the table are not covered.')
TECHNIQUE = 'TLA+ contract table + TLC fault enumeration, execution under ASan/UBSan, TLC trace validation'


def to_rows(vals):
    rows = []
    for v in vals:
        if v[0] == 'call':
            rows.append(['call', v[1], v[2], v[3]])
        elif v[0] == 'str':
            rows.append(['str', v[1]] + list(v[2]))
        elif v[0] == 'nn':
            rows.append(['nn', v[1], v[2], v[3]])
        elif v[0] == 'nninit':
            rows.append(['nninit', v[1], v[2], v[3], v[4], v[5]])
        elif v[0] == 'mfile':
            rows.append(['mfile', v[1], v[2], v[3], v[4]])
        elif v[0] == 'gfile':
            rows.append(['gfile', v[1], v[2]])
    return rows


def run(ctx):
    depth = 2 if ctx.quick else 3
    cfg = ctx.cfg('MC_Contract', 'INIT Init\nNEXT Next\nCONSTANTS NChunks = 32 StrDepth = %d Depth12 = %d Depth8 = %d\nINVARIANTS TableInv Emit\nCHECK_DEADLOCK FALSE\n' % (depth, depth + 1, depth + 2))
    vals = ctx.generate('MC_Contract', cfg, workers=vlib.NCPU, timeout=3000)
    rows = to_rows(vals)
    # seeded random byte strings and mutations of valid strings, in addition to the exhaustive short ones
    rng = ctx.rng
    valid = ['40d26\'47"N', '-73:58:56.2', '40.4N 73.9W', '33N 444500 3688500', '38SMB4488', 'SU387148', 'ezs42', '006AG39', 'GJPJ3217', '32north',
             '1.5e3', '2020-12-25', 'key = value # c', '1/3', 'inf', 'nan', "1d2'3\"", '1:2:3', '-0', '+180W']
    parsers = ['dms', 'dmslatlon', 'dmsangle', 'dmsazi', 'geocoords', 'mgrs', 'mgrsdecode', 'osgb', 'geohash', 'gars', 'georef', 'zone', 'val', 'valint',
               'fract', 'date', 'parseline']
    for _ in range(4000 if ctx.quick else 200000):
        s = bytearray(rng.choice(valid).encode())
        for _ in range(rng.randint(0, 3)):
            op = rng.randint(0, 4)
            if op == 0 and s:
                s[rng.randrange(len(s))] = rng.randrange(256)
            elif op == 1:
                s.insert(rng.randint(0, len(s)), rng.choice(b"0123456789.:'\"dNSEW+- \x00\xe2\x80\xb2"))
            elif op == 2 and s:
                del s[rng.randrange(len(s))]
            elif op == 3:
                s += bytes(rng.choice([b'9' * 12, b':', b'e999', b'\xc2\xb0', b' ']))
            else:
                # a long digit run anywhere in the string (also at the start)
                k = rng.randint(0, len(s))
                s[k:k] = rng.choice([b'9', b'1']) * rng.choice([9, 10, 12, 20])
        rows.append(['str', rng.choice(parsers)] + list(s))
    vin = ctx.path('vectors.txt')
    vlib.write_lines(vin, rows)
    ctx.cov['evaluations'] = len(rows)
    exe = vlib.build_driver('drv_contract', 'san')
    trace = ctx.path('trace.ndjson')
    # the file-fault vectors rewrite two small files each (about 15000 times): keep them on a memory file system when there is one
    shm = '/dev/shm' if os.path.isdir('/dev/shm') and os.access('/dev/shm', os.W_OK) else None
    tmp = tempfile.mkdtemp(prefix='verif-C13-', dir=shm) if shm else ctx.path('data')
    skip, crashes = 0, 0
    open(trace, 'w').close()
    env = dict(os.environ, ASAN_OPTIONS='detect_leaks=0:abort_on_error=0:exitcode=97:allocator_may_return_null=1',
               UBSAN_OPTIONS='print_stacktrace=1:halt_on_error=1:exitcode=98')
    while skip < len(rows) and crashes < 60:
        with open(vin) as fin, open(trace, 'a') as fout, open(ctx.path('drv.stderr'), 'w') as ferr:
            p = subprocess.run(['timeout', '900', exe, tmp, str(skip)], stdin=fin, stdout=fout, stderr=ferr, env=env)
        if p.returncode == 0:
            break
        # the driver announces each vector on stderr before executing it: the last announcement is the culprit
        err = open(ctx.path('drv.stderr'), errors='replace').read()
        m = re.findall(r'^@ (\d+) (.*)$', err, re.M)
        last = int(m[-1][0]) if m else skip + 1
        what = 'timeout' if p.returncode == 124 else 'alloc' if re.search(r'allocation-size-too-big|out-of-memory|requested allocation size', err) else ('sanitizer' if p.returncode in (97, 98) or 'Sanitizer' in err or 'runtime error' in err else 'signal')
        detail = ' | '.join(l.strip() for l in err.splitlines() if 'ERROR' in l or 'runtime error' in l or 'SUMMARY' in l)[:500]
        # make sure the trace has exactly one line per executed vector up to the crash, then the crash record
        nlines = sum(1 for _ in open(trace))
        with open(trace, 'a') as fout:
            for _ in range(nlines, last - 1):
                fout.write(json.dumps({'e': 'skip'}) + '\n')
            fout.write(json.dumps({'e': 'crash', 'vector': m[-1][1] if m else '?', 'what': what, 'rc': p.returncode, 'detail': detail}) + '\n')
        skip = last
        crashes += 1
    if shm:
        shutil.rmtree(tmp, ignore_errors=True)
    n, rej = ctx.validate('Trace_Contract', 'Trace_Contract', trace, shards=vlib.NCPU, group_key=None)
    ctx.cov['traces_validated_against_impl'] += 1
    ctx.report_rejects(rej, trace)
    ctx.cov['distinct_nontrivial'] = len(rows)
    ctx.cov['crashes'] = crashes
    with open(trace) as f:
        for i, ln in enumerate(f):
            if i in (0, 500, 2000):
                ctx.sample(ln.strip()[:300])
    return ctx.finish(RULE, TRUSTED)


RULE = ('fault enumeration by TLC from Contract.tla: every table entry (139: constructors, members, validating functions, line / circle / '
        'polygon / model objects) x argument position x 17 special value classes; every byte string of length <= StrDepth (2 quick, 3 thorough) over a 28-symbol '
        'abstract alphabet, <= StrDepth + 1 over 12 symbols and <= StrDepth + 2 over 8 symbols for each of 17 parsers, prefix + run of 6..32 digits + suffix over the pieces of each parser\'s valid strings, '
        'DMS component sequences with up to 4 separators; for text and binary nearest-neighbour saves truncation, 5 byte-fault kinds and 7 field-value '
        'faults at every offset / field 0..400; for MagneticModel and GravityModel metadata files truncation and 3 byte faults at every offset, '
        'dropped / duplicated keyword lines and 11 value classes for every keyword, for their coefficient files truncation and 4 byte faults at '
        'every offset and 8 header-word classes at every word (also on a gravity file with an empty correction set), 5 header-pair faults on every coefficient set of 6 fixture kinds; for geoid rasters truncation and 4 byte faults at every offset of header and data, '
        'dropped / duplicated header lines, 11 value classes for every header field and for the dimensions; the unfaulted files as controls; plus seeded mutations of valid strings. '
        'distinct_nontrivial = distinct vectors executed.')
TRUSTED = ['TLC', 'Contract.tla', 'AddressSanitizer + UndefinedBehaviorSanitizer']


def replay(ctx, path):
    raise vlib.FrameworkError('replay: re-run ./check C13; replay files name the vector')
