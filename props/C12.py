"""C12 - outputs independent of the output mask; line objects self-consistent."""
import vlib

LEVEL = 'model_checking'
LEVEL_TEXT = ('The output-mask/capability algebra of the geodesic and rhumb interfaces is a TLA+ model over bit sets (which constructor adds '
              'which capability, written set = requested AND capable, NaN return rule, third-point bookkeeping); TLC enumerates constructor x '
              'capabilities x set-operation x arcmode x outmask transitions, checks monotonicity/no-spurious-write invariants on the model, and every '
              'transition is replayed on the series, exact and exact=true line classes with sentinel-filled outputs; TLC validates the written set, NaN '
              'status, Capabilities(), Distance()/Arc(). TLC also enumerates GenInverse / Rhumb::GenInverse over end-point classes x outmasks and every '
              'inline overload (family x number of output arguments x solver kind x line capabilities, table OverloadOut from the headers). Value '
              'independence (direct, inverse, rhumb; LONG_UNROLL against wrapping), arc/distance equivalence and third-point laws (DirectLine, '
              'ArcDirectLine, InverseLine) are validated on seeded random geodesics and rhumb lines.')
DESIGN_REF = 'DESIGN.md section 4, C12'
LEVEL_NOTE = 'Trusted: TLC, GeodLine.tla (from the mask enum documentation), sentinel NaN payloads to detect writes.'
TECHNIQUE = 'TLA+ model of mask/capability algebra + TLC enumeration, spec-to-code replay, TLC trace validation'


def to_rows(vals):
    rows = []
    k = 0
    for v in vals:
        if v[0] == 'gi':        # <<"gi", end-point class, solver kind, outmask>>
            rows.append(['gic', v[1], v[2], v[3]])
        elif v[0] == 'ri':      # <<"ri", end-point class, exact, outmask>>
            rows.append(['ric', v[1], v[2], v[3]])
        elif v[0] == 'ov':      # <<"ov", overload family, number of output arguments, solver kind, caps>>
            rows.append(['ov', v[1], v[2], v[3], v[4]])
        if v[0] != 'pos':
            continue
        _, ctor, caps, so, am, om = v
        for kind in KINDS(k):
            rows.append(['pos', kind, ctor, caps, so, 1 if am else 0, om])
        k += 1
    for om in range(512):
        for kind in (0, 1, 2):
            rows.append(['gd', kind, 0, om]); rows.append(['gd', kind, 1, om]); rows.append(['gi', kind, 0, om])
        rows.append(['rd', om]); rows.append(['ri', om]); rows.append(['rl', om]); rows.append(['rdp', om]); rows.append(['rlp', om])
    rows.append(['uninit'])
    return rows


def run(ctx):
    global KINDS
    KINDS = (lambda k: [k % 3]) if ctx.quick else (lambda k: [0, 1, 2])
    cs, ms = (64, 37) if ctx.quick else (8, 5)
    base = 'INIT Init\nNEXT Next\nCONSTANTS CapsStride = %d MaskStride = %d NChunks = 64\nINVARIANTS PosInv ThirdInv NumInv SolverInv OvInv Emit\nCHECK_DEADLOCK FALSE\n'
    vlib.lattice_pipeline(ctx, 'MC_GeodLine', [('all', base % (cs, ms))], to_rows, 'drv_line', ['replay'],
                          ['record', ctx.seed, 40000 if ctx.quick else 1000000], 'Trace_GeodLine',
                          flavour_record=None if ctx.quick else 'san', parallel_gen=False)
    ctx.cov['exhaustive'] = not ctx.quick
    return ctx.finish(RULE, TRUSTED)


RULE = ('TLC enumerates <<constructor form, capability set (all 512), set-operation, arcmode, outmask>> transitions (all outmasks for sampled '
        'capability sets, sampled outmasks for all capability sets; everything in the thorough tier with finer strides), all 512 outmasks for '
        'GenDirect/GenInverse of the three geodesic solver kinds and for Rhumb GenDirect/GenInverse/RhumbLine::GenPosition; each is replayed on '
        'one of three fixed geodesics; GenInverse additionally on 17 end-point classes (coincident, short, meridional, equatorial, antipodal, '
        'swapped, prolate, sphere) x 512 outmasks x 3 solver kinds, Rhumb::GenInverse on 9 classes x 64 rhumb masks x exact, and every inline '
        'overload of Direct/ArcDirect/Inverse/Position/ArcPosition and the rhumb Direct/Inverse/Position. distinct_nontrivial = transitions replayed.')
TRUSTED = ['TLC', 'GeodLine.tla', 'drv_line.cpp (sentinel detection of writes, residual quantisation)']


def replay(ctx, path):
    raise vlib.FrameworkError('replay: re-run ./check C12; replay files list the offending trace lines')
