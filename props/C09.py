"""C09 - Rhumb lines: direct, inverse, line objects and area, series and exact variants.

M1: MC_Rhumb enumerates an exact integer lattice (sphere a = 180/pi so that a degree is a metre; integer latitudes incl. the
poles, Eps longitudes one ulp either side of the 0 / 180 degree ties, lattice azimuths 0, +-60, +-90, +-120, 180 (+360 k),
integer distances of either sign up to and beyond the poles; call forms x output masks: the three general routines with all 64
masks and the six overloads; two positions on one line object) and checks the model invariants (extent <= 180, east-going tie,
exchange of the end points, reversal, pole folding, direct o inverse; an output is written iff requested, an overload is the
general call with its documented mask and wraps lon2, LONG_UNROLL adds no output; a line has no history).
M2: every vector is executed on the real Rhumb / RhumbLine, series and exact, on the lattice sphere and (where the rectifying
latitude stays on the lattice) on oblate / prolate ellipsoids.
M3: Trace_Rhumb validates the lattice observations against RhumbLattice and the laws of the property on seeded random records:
the defining expressions (meridian arc over cos azimuth, tan azimuth times isometric-latitude difference, parallel-circle
length, area under the course) evaluated in long double by the driver as end-point misses, shortest/east-going course,
direct o inverse, exchange antisymmetry, additivity along a line, RhumbLine::Position == Rhumb::Direct bit for bit, LONG_UNROLL,
pole crossing -> documented latitude with NaN longitude and area, series == exact for |f| <= 0.01, cross-class agreement with
Ellipsoid (MeridianDistance, IsometricLatitude, CircleRadius, Area) and Geodesic::EllipsoidArea; every call form of every
problem (general routines with a mask that cycles through all 64, all overloads) against the general routine with ALL, the
default constructor argument and the WGS84 singleton against the three-argument constructor, line inspectors, line re-use."""
import collections
import json

import vlib

LEVEL = 'model_checking'
LEVEL_TEXT = ('Exact integer TLA+ model of rhumb lines on a sphere lattice (meridians, equator, parallels +-30/+-60, courses into, '
              'through and out of the poles, longitude ties at 0/180 degrees one ulp either side, LONG_UNROLL), model-checked by TLC; '
              'every lattice vector is replayed on the real Rhumb/RhumbLine (series and exact, sphere and ellipsoids) and validated by '
              'TLC; the laws of the property (defining expressions as end-point misses, shortest east-going course, direct o inverse, '
              'exchange, additivity, line == direct, pole NaN contract, series == exact, cross-class, all call forms and masks == general call, '
              'constructor family incl. the WGS84 singleton) are validated by TLC on seeded '
              'random records over 24 ellipsoid configurations (b/a from 1/90 to 90) with the documented round-off-level bound (15 nm at WGS84 scale plus 8 ulp of the '
              'length of the course; areas: 1e-14 of the authalic radius squared per 180 degrees of longitude).')
DESIGN_REF = 'DESIGN.md section 4, C09'
LEVEL_NOTE = ('Trusted: TLC, RhumbLattice.tla, the long-double textbook formulas and adaptive Gauss-Legendre quadrature of drv_rhumb.cpp '
              '(meridian arc, isometric latitude, authalic latitude). Off the lattice the spec is relational: a change below (15 nm x '
              'max(a,b)/a_WGS84 + 8 ulp of the course length) x max(a/b,b/a) (x4 for the series variant at 1/150 < |f| <= 0.01, which the documentation only calls '
              '"close to full accuracy") is not a violation. Two accuracy defects of the exact variant found on the unchanged tree are '
              'matched structurally as known findings (prolate ellipsoids within 10 degrees of the equator; f >= 0.9), as is the '
              'west-going tie for lon2 - lon1 = -180; see notes/C09.md.')
TECHNIQUE = 'TLA+ lattice model + TLC enumeration, spec-to-code replay, TLC trace validation'

# Known findings of C09 live in /verif/known_findings.json (matched on law-name prefix + input-class field 'reg' / 'tie').


def to_rows(dense):
    def conv(vals):
        return [list(v) + [1 if dense else 0] for v in vals]
    return conv


def run(ctx):
    dense = not ctx.quick
    base = ('INIT Init\nNEXT Next\nCONSTANTS Part = "%s" NChunks = 32 Dense = %s\n'
            'INVARIANTS LiInv LdInv LpInv MaskInv Emit\nCHECK_DEADLOCK FALSE\n')
    parts = [(p, base % (p, 'TRUE' if dense else 'FALSE')) for p in ('li', 'ld', 'lp', 'lm', 'im')]
    nrec = 30000 if ctx.quick else 800000
    rows, traces = vlib.lattice_pipeline(ctx, 'MC_Rhumb', parts, to_rows(dense), 'drv_rhumb', ['replay'],
                                         ['record', ctx.seed, nrec], 'Trace_Rhumb',
                                         flavour_record=None if ctx.quick else 'san', min_vectors=1000)
    # evidence only: how many lines of each kind / generator / guard were seen (vacuity is visible)
    kinds = collections.Counter()
    for tf in traces:
        with open(tf) as f:
            for ln in f:
                try:
                    r = json.loads(ln)
                except ValueError:
                    continue
                e = r['e']
                kinds[e] += 1
                if e in ('inv', 'dir'):
                    kinds['%s.g%d' % (e, r['g'])] += 1
                    kinds['%s.fc%d.%s' % (e, r['fc'], 'exact' if r['ex'] else 'series')] += 1
                    if r['reg'] != 'none':
                        kinds['%s.region.%s' % (e, r['reg'])] += 1
                    if r['qe'] > 1000:
                        kinds[e + '.guard.quadrature'] += 1
                if e == 'inv':
                    kinds['inv.rk%d' % r['rk']] += 1
                    if r['tie'] != 'none':
                        kinds['inv.tie.' + r['tie']] += 1
                if e == 'dir':
                    kinds['dir.' + ('polestart' if r['pst'] else 'cross' if r['cn'] == 1 else 'edge/nonfinite' if r['cn'] else 'regular')] += 1
                    if r['cn'] == 0 and (r['cr'] < 0 or r['cr'] > 20000000):
                        kinds['dir.guard.polar-cap'] += 1
                    if r['cn'] == 0 and not (0 <= r['lq'] < 2000000000):
                        kinds['dir.guard.turns-clipped'] += 1
                if e == 'li' and r['tie'] != 'none':
                    kinds['li.tie.' + r['tie']] += 1
                if e in ('li', 'ld') and r['ci'] >= 16:
                    kinds['%s.extreme.ci%d' % (e, r['ci'])] += 1
                if e == 'ld' and 'hist' in r:
                    kinds['ld.line-history'] += 1
                if e in ('lm', 'im'):
                    kinds['%s.%s' % (e, r['form'])] += 1
                if e in ('inv', 'dir'):
                    kinds['%s.mask.m%02d' % (e, r['mm'])] += 1
                    if r['kf'] != 'none':
                        kinds['%s.kf.%s' % (e, r['kf'])] += 1
                    if r['dfl'] >= 0:
                        kinds[e + '.ctor.default-argument'] += 1
                    if r['wg'] >= 0:
                        kinds[e + '.ctor.wgs84-singleton'] += 1
    ctx.cov['laws'] = dict(sorted(kinds.items()))
    ctx.cov['exhaustive'] = dense
    return ctx.finish(RULE, TRUSTED)


RULE = ('vectors enumerated by TLC from MC_Rhumb: inverse problems between 11 latitudes (poles, +-89, +-60, +-30, +-1, 0) x start '
        'longitudes x longitude differences (0, +-1, +-50, +-90, +-179, +-180, +-181, 360, +-540, 720) with -1/0/+1 ulp at the 0 and 180 '
        'degree ties; direct problems from the same latitudes x lattice azimuths x integer distances of either sign up to 720 degrees '
        '(through both poles); each replayed on 4 (quick) or 7 (thorough) ellipsoid configurations, start longitude 0 also on f = 0.98 '
        'and f = -49 (thorough: b/a = 1/10, 10, 1/90, 90); direct and inverse problems x 9 call forms x 64 output masks; pairs of '
        'positions on one line object; plus seeded random inverse and '
        'direct records (10 generators each: uniform, nearly east-west, exactly east-west, nearly meridional, nearby points 1 nm..1 km, '
        'near the poles, pole end points, ties, latitudes 1-3 ulp apart, integer degrees; cardinal azimuths, tiny distances, beyond the '
        'pole, just short of / beyond the pole, pole starts, several turns), each with every call form (mask = problem index mod 64). distinct_nontrivial = distinct lattice vectors.')
TRUSTED = ['TLC', 'RhumbLattice.tla',
           'drv_rhumb.cpp (long-double defining expressions: adaptive 16-point Gauss-Legendre quadrature of rho, rho/R and '
           'sin(xi) rho/R in colatitude from the nearer pole; closed forms for parallels and pole end points; quantisation)']


def replay(ctx, path):
    raise vlib.FrameworkError('replay: re-run ./check C09; replay files list the offending trace lines')
