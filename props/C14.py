"""C14 - shared immutable objects are safe to use from many threads."""
import concurrent.futures as cf
import glob
import json
import os
import re
import shutil
import subprocess
import vlib

LEVEL = 'model_checking'
LEVEL_TEXT = ('Threads.tla models every const entry point as an access program over location classes (constructor-written members, C++11 magic '
              'statics with their guard protocol, coefficient caches) and TLC explores ALL interleavings of 3 threads for every configuration of two '
              'programs, cold and warm, checking NoRace and Progress (and, as a negative control, that the pre-fix lazy cache protocol violates NoRace). '
              'Every configuration is then executed on the real library under ThreadSanitizer; TLC validates that the implementation shows no race and '
              'that each concurrent call returns bit-for-bit what it returns alone.')
DESIGN_REF = 'DESIGN.md section 4, C14'
LEVEL_NOTE = ('Trusted: TLC, ThreadSanitizer\'s happens-before analysis of the executed pairs (a conflicting pair is reported whatever the actual timing), '
              'the access-program table in Threads.tla (read from the code; its "static" steps are checked against the accessor calls observed at link '
              'time, and MC_Threads ASSUMEs that every singleton accessor declared in the headers has a program), the choice of inputs of each program '
              '(one lattice of branch classes per solver; not measured against branch coverage). A violation without a data race (a lock-protected '
              'check-then-act) is only seen by the value law, i.e. when a collision actually happens in the 8000 calls per thread of the geoid programs. '
              'GravityModel/MagneticModel and their circles are driven on synthetic model files; Intersect counters, '
              'NearestNeighbor statistics and root-table growth are excluded by the property.')
TECHNIQUE = 'TLA+ interleaving model (TLC) + execution of every model configuration under ThreadSanitizer + TLC trace validation'

CFG = ('INIT Init\nNEXT Next\nCONSTANTS NThreads = 3 Protocol = "%s" PairMode = "%s" HeaderAccessors = {%s}\n'
       'INVARIANTS NoRace Progress%s\nCHECK_DEADLOCK FALSE\n')


def header_accessors():
    """The singleton accessors of the public API, 'static const X& Name();', read from the headers of the tree under
    test.  MC_Threads ASSUMEs that each is a static of the model used by some access program; the driver is linked with
    --wrap for each, so that it can log which of them main() and the threads called (an accessor the driver does not
    know is a link error, i.e. a framework error)."""
    acc = []
    for h in sorted(glob.glob(os.path.join(vlib.REPO, 'include', 'GeographicLib', '*.hpp'))):
        cls = os.path.basename(h)[:-4]
        for m in re.finditer(r'static\s+const\s+\w+&\s+(\w+)\s*\(\s*\)\s*;', open(h, errors='replace').read()):
            acc.append((cls, m.group(1)))
    if not acc:
        raise vlib.FrameworkError('no singleton accessors found in the headers')
    return acc


def mangled(cls, fn):
    return '_ZN13GeographicLib%d%s%d%sEv' % (len(cls), cls, len(fn), fn)


def run(ctx):
    mode = 'cover' if ctx.quick else 'all'
    acc = header_accessors()
    accset = ', '.join('"%s::%s"' % a for a in acc)
    ctx.cov['models']['header_accessors'] = len(acc)
    # M1: all interleavings, protocol as implemented
    cfg = ctx.cfg('MC_Threads_eager', CFG % ('eager', mode, accset, ' Emit'))
    vals = [v for v in ctx.generate('MC_Threads', cfg, workers=vlib.NCPU, timeout=3000) if v[0] == 'cfg']
    # negative control: the lazy cache protocol must violate NoRace in the model (the model is not vacuous)
    ncfg = ctx.cfg('MC_Threads_lazy', CFG % ('lazy', 'cover', accset, ''))
    res = vlib.tlc('MC_Threads', ncfg, workers=4, timeout=600)
    if 'Invariant NoRace is violated' not in res.out:
        raise vlib.FrameworkError('negative control failed: lazy protocol did not violate NoRace in the model')
    ctx.cov['models']['negative_control_lazy'] = 'NoRace violated as expected'
    wrap = ['-Wl,--wrap=' + mangled(c, f) for c, f in acc] + ['-Wl,--wrap=' + mangled('OSGB', 'computenorthoffset')]
    exe = vlib.build_driver('drv_threads', 'tsan', extra_flags=wrap)
    tmp = ctx.path('data')
    os.makedirs(tmp, exist_ok=True)
    env = dict(os.environ, TSAN_OPTIONS='halt_on_error=0 exitcode=66 second_deadlock_stack=1 report_signal_unsafe=0')

    def one(iv):
        i, v = iv
        a, b, cold = v[1], v[2], v[3]
        rec, p, err = None, None, ''
        for attempt in range(3):
            d = os.path.join(tmp, '%d-%d' % (i, attempt))      # a scratch directory of its own for every run
            started = False
            try:
                p = subprocess.run(['timeout', '120', exe, a, b, '1' if cold else '0', '3', d, str(ctx.seed)], stdout=subprocess.PIPE,
                                   stderr=subprocess.PIPE, env=env, universal_newlines=True, errors='replace')
                for ln in p.stdout.splitlines():
                    if ln.startswith('{'):
                        r = json.loads(ln)
                        if r.get('e') == 'start':
                            started = True
                        else:
                            rec = r
                err = 'rc=%d %s' % (p.returncode, p.stderr[-600:])
            except Exception as e:          # noqa
                err = str(e)
            shutil.rmtree(d, ignore_errors=True)
            if started:
                break
            # the driver died while building its objects and data files, before any thread was started: not an
            # observation of the property; try again, then give up as a framework error
        if not started:
            raise vlib.FrameworkError('drv_threads %s %s %s failed during set-up three times: %s' % (a, b, cold, err))
        if rec is None:                     # started, but no record: the run itself crashed or timed out
            rec = dict(e='conc', a=a, b=b, cold=cold, known=True, same=False)
        race = 'ThreadSanitizer: data race' in p.stderr
        loc = ''
        if race:
            m = re.search(r'(Write|Read) of size \d+ at .*?\n((?:\s+#\d.*\n){1,4})', p.stderr)
            loc = ' | '.join(x.strip() for x in (m.group(2).splitlines() if m else [])[:3])[:400]
        elif p.returncode not in (0, 66):
            loc = p.stderr[-300:]
        rc = p.returncode if p.returncode not in (0, 66) else 0
        rec.update(race=race, rc=rc, loc=loc)
        return rec
    with cf.ThreadPoolExecutor(vlib.NCPU) as ex:
        recs = list(ex.map(one, list(enumerate(vals))))
    trace = ctx.path('trace.ndjson')
    with open(trace, 'w') as f:
        for r in recs:
            f.write(json.dumps(r) + '\n')
    ctx.cov['behaviours_replayed'] = len(recs)
    n, rej = ctx.validate('Trace_Threads', 'Trace_Threads', trace, shards=1)
    ctx.cov['traces_validated_against_impl'] += 1
    ctx.report_rejects(rej, trace)
    for r in recs[:3]:
        ctx.sample(json.dumps(r))
    ctx.cov['distinct_nontrivial'] = len(recs)
    ctx.cov['exhaustive'] = not ctx.quick
    return ctx.finish(RULE, TRUSTED)


RULE = ('TLC enumerates configurations <<program A, program B, cold/warm>> over 59 access programs (quick: every program with itself and with three '
        'others; thorough: all unordered pairs) and all interleavings of 3 threads for each; every configuration is executed on the real library '
        'built with -fsanitize=thread (3 threads, barrier start, 8 iterations - 24 for the DST, 8000 for the thread-safe geoids -, every thread '
        'with its own inputs, every solver program over a lattice of branch classes). The singleton accessors declared in the headers are '
        'intercepted at link time: TLC checks that a cold configuration was cold and that the statics touched are those of the access programs. '
        'distinct_nontrivial = configurations executed.')
TRUSTED = ['TLC', 'ThreadSanitizer', 'Threads.tla access-program table']


def replay(ctx, path):
    raise vlib.FrameworkError('replay: re-run ./check C14; replay files name the configuration')
