"""C14 - shared immutable objects are safe to use from many threads."""
import concurrent.futures as cf
import json
import os
import re
import subprocess
import vlib

LEVEL = 'model_checking'
LEVEL_TEXT = ('Threads.tla models every const entry point as an access program over location classes (constructor-written members, C++11 magic '
              'statics with their guard protocol, coefficient caches) and TLC explores ALL interleavings of 3 threads for every configuration of two '
              'programs, cold and warm, checking NoRace and Progress (and, as a negative control, that the pre-fix lazy cache protocol violates NoRace). '
              'Every configuration is then executed on the real library under ThreadSanitizer; TLC validates that the implementation shows no race and '
              'that each concurrent call returns bit-for-bit what it returns alone.')
DESIGN_REF = 'DESIGN.md section 4, C14'
LEVEL_NOTE = ('Trusted: TLC, ThreadSanitizer\'s happens-before analysis of the executed pairs (a conflicting pair is reported whatever the actual timing), '
              'the access-program table in Threads.tla (read from the code). GravityModel/MagneticModel and their circles are driven on synthetic model files; Intersect counters, '
              'NearestNeighbor statistics and root-table growth are excluded by the property.')
TECHNIQUE = 'TLA+ interleaving model (TLC) + execution of every model configuration under ThreadSanitizer + TLC trace validation'

CFG = 'INIT Init\nNEXT Next\nCONSTANTS NThreads = 3 Protocol = "%s" PairMode = "%s"\nINVARIANTS NoRace Progress%s\nCHECK_DEADLOCK FALSE\n'


def run(ctx):
    mode = 'cover' if ctx.quick else 'all'
    # M1: all interleavings, protocol as implemented
    cfg = ctx.cfg('MC_Threads_eager', CFG % ('eager', mode, ' Emit'))
    vals = [v for v in ctx.generate('MC_Threads', cfg, workers=vlib.NCPU, timeout=3000) if v[0] == 'cfg']
    # negative control: the lazy cache protocol must violate NoRace in the model (the model is not vacuous)
    ncfg = ctx.cfg('MC_Threads_lazy', CFG % ('lazy', 'cover', ''))
    res = vlib.tlc('MC_Threads', ncfg, workers=4, timeout=600)
    if 'Invariant NoRace is violated' not in res.out:
        raise vlib.FrameworkError('negative control failed: lazy protocol did not violate NoRace in the model')
    ctx.cov['models']['negative_control_lazy'] = 'NoRace violated as expected'
    exe = vlib.build_driver('drv_threads', 'tsan')
    tmp = ctx.path('data')
    os.makedirs(tmp, exist_ok=True)
    env = dict(os.environ, TSAN_OPTIONS='halt_on_error=0 exitcode=66 second_deadlock_stack=1 report_signal_unsafe=0')

    def one(iv):
        i, v = iv
        a, b, cold = v[1], v[2], v[3]
        d = os.path.join(tmp, str(i % 64))          # no two concurrent runs share a scratch directory
        try:
            p = subprocess.run(['timeout', '120', exe, a, b, '1' if cold else '0', '3', d], stdout=subprocess.PIPE,
                               stderr=subprocess.PIPE, env=env, universal_newlines=True, errors='replace')
        except Exception as e:          # noqa
            return dict(e='conc', a=a, b=b, cold=cold, known=True, same=False, race=False, rc=99, loc=str(e))
        rec = None
        for ln in p.stdout.splitlines():
            if ln.startswith('{'):
                rec = json.loads(ln)
        if rec is None:
            rec = dict(e='conc', a=a, b=b, cold=cold, known=True, same=False)
        race = 'ThreadSanitizer: data race' in p.stderr
        loc = ''
        if race:
            m = re.search(r'(Write|Read) of size \d+ at .*?\n((?:\s+#\d.*\n){1,4})', p.stderr)
            loc = ' | '.join(x.strip() for x in (m.group(2).splitlines() if m else [])[:3])[:400]
        rc = p.returncode if p.returncode not in (0, 66) else 0
        rec.update(race=race, rc=rc, loc=loc)
        return rec
    with cf.ThreadPoolExecutor(vlib.NCPU) as ex:
        recs = list(ex.map(one, list(enumerate(vals))))
    trace = ctx.path('trace.ndjson')
    with open(trace, 'w') as f:
        for r in recs:
            f.write(json.dumps(r) + '\n')
    ctx.cov['behaviours_replayed'] = len(recs)
    n, rej = ctx.validate('Trace_Threads', 'Trace_Threads', trace, shards=1)
    ctx.cov['traces_validated_against_impl'] += 1
    ctx.report_rejects(rej, trace)
    for r in recs[:3]:
        ctx.sample(json.dumps(r))
    ctx.cov['distinct_nontrivial'] = len(recs)
    ctx.cov['exhaustive'] = not ctx.quick
    return ctx.finish(RULE, TRUSTED)


RULE = ('TLC enumerates configurations <<program A, program B, cold/warm>> over 53 access programs (quick: every program with itself and with three '
        'others; thorough: all unordered pairs) and all interleavings of 3 threads for each; every configuration is executed on the real library '
        'built with -fsanitize=thread (3 threads, barrier start, 3 iterations). distinct_nontrivial = configurations executed.')
TRUSTED = ['TLC', 'ThreadSanitizer', 'Threads.tla access-program table']


def replay(ctx, path):
    raise vlib.FrameworkError('replay: re-run ./check C14; replay files name the configuration')
