"""C04 - UTM/UPS: zone rules, legal rectangles, closure, zone strings, EPSG.

M1: MC_UTMUPS enumerates (lat, lon, setzone) on the degree lattice with +-1 ulp at every zone/band/exception
edge, the grid rectangles on a 50 km lattice +-1 ulp, zone strings (every one- and two-digit zone number) and EPSG codes, and Transfer requests (point x input zone x
output zone spec x hemispheres), checking model invariants.
M2: every vector is executed on the real UTMUPS, through every overload and with the optional arguments omitted as well.  M3: Trace_UTMUPS validates lattice observations exactly and
seeded random round-trip / plumbing / transfer / NaN laws with the documented 5 nm tolerance."""
import vlib

LEVEL = 'model_checking'
LEVEL_TEXT = ('Exact integer TLA+ model of zone selection (Norway/Svalbard, UPS limits), closed coordinate rectangles, zone-string '
              'and EPSG codecs, the output zone of Transfer (MATCH/UTM/STANDARD), the documented central scale factors; TLC enumerates the edge lattice, checks invariants on the model and every vector is replayed on '
              'the real code with TLC validating each observation; projection plumbing, closure (5 nm), Transfer and NaN laws '
              'are validated on seeded random samples.')
DESIGN_REF = 'DESIGN.md section 4, C04'
LEVEL_NOTE = ('Trusted: TLC, UTMUPS.tla (from UTMUPS.hpp and the NGA zone rules). The transverse Mercator / polar stereographic '
              'values themselves are the business of C06/C11; here only plumbing (false origins, central meridian, limits) is checked.')
TECHNIQUE = 'TLA+ lattice model + TLC enumeration, spec-to-code replay, TLC trace validation'


def to_rows(vals):
    rows = []
    for v in vals:
        k = v[0]
        if k == 'zs':
            rows.append(['zs'] + list(v[1]))
        else:
            rows.append([k] + [(1 if x else 0) if isinstance(x, bool) else x for x in v[1:]])
    return rows


def run(ctx):
    stride = 3 if ctx.quick else 1
    base = 'INIT Init\nNEXT Next\nCONSTANTS Stride = %d Part = "%s" NChunks = 64\nINVARIANTS SZInv StrInv RevInv TrInv Emit\nCHECK_DEADLOCK FALSE\n'
    parts = [(p, base % (stride, p)) for p in ('sz', 'fwd', 'rev')]
    nrec = 60000 if ctx.quick else 1500000
    vlib.lattice_pipeline(ctx, 'MC_UTMUPS', parts, to_rows, 'drv_utm', ['replay'], ['record', ctx.seed, nrec],
                          'Trace_UTMUPS', flavour_record=None if ctx.quick else 'san')
    ctx.cov['exhaustive'] = not ctx.quick
    return ctx.finish(RULE, TRUSTED)


RULE = ('vectors enumerated by TLC from MC_UTMUPS: (lat, lon, setzone) on the integer-degree lattice with -1/0/+1 ulp at every zone, '
        'band, Norway/Svalbard and UPS edge; grid points on a 50 km lattice +-1 ulp around every rectangle edge for both mgrslimits; '
        'zone strings (every 0-2 digit number and malformed variants x hemisphere words), EncodeZone output decoded again by the library; '
        'all EPSG integers 32000..33000; Transfer lattice (21 latitudes x 16 longitudes x input zone in {standard-1, standard, standard+1, UPS} x '
        'zoneout in {-5, INVALID, MATCH, UTM, STANDARD, UPS, zin, zin+-1, 61} x both hemisphere conventions in and out); every Forward/Reverse/'
        'StandardZone/EncodeZone vector also executed through the short overloads and with optional arguments omitted; plus seeded random records. '
        'distinct_nontrivial = distinct lattice vectors.')
TRUSTED = ['TLC', 'UTMUPS.tla', 'drv_utm.cpp (nanometre quantisation, local metric for the geographic closure distance)']


def replay(ctx, path):
    raise vlib.FrameworkError('replay: re-run ./check C04; replay files list the offending trace lines')
