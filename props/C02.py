"""C02 - inverse geodesic problem."""
import geod_common
import vlib

LEVEL = 'model_checking'
LEVEL_TEXT = ('SphereLattice.tla gives the exact integer answer of the inverse problem between lattice points (equator, meridians incl. over-the-pole '
              'pairs, oblique nodes/vertices, poles with arbitrary nominal longitude under the documented pole-azimuth convention, coincident and '
              'antipodal pairs with relaxed azimuths); GeodSym.tla models the symmetry group (exchange, two reflections, longitude shifts) with the '
              'documented output maps and TLC checks the homomorphism property on its Cayley graph.  Lattice vectors are replayed on GenInverse and '
              'InverseLine of the three solver kinds; on the ellipsoid family closure through the direct problem, shortest-path bounds, solver '
              'agreement and every group element are validated on seeded samples of every regime of the inverse problem.  The lattice is replayed '
              'on two sphere radii and has the pairs lat2 = +-lat1 = +-45, lon12 = +-90 (a12 = 60 / 120, azimuths +-atan(sqrt 2)); closure is also '
              'taken through the returned arc length and through InverseLine; all seven Inverse overloads of the three classes must write what '
              'GenInverse writes (GeodOverloads.tla); the exact solver is judged by itself on b/a = 2^-6..2^6.')
DESIGN_REF = 'DESIGN.md section 4, C02'
LEVEL_NOTE = ('Trusted: TLC, SphereLattice.tla, GeodSym.tla. Azimuth laws are not stated for (nearly) coincident, antipodal and both-polar pairs, where '
              'the documentation lists the non-uniqueness; distance laws are stated everywhere.')
TECHNIQUE = 'TLA+ lattice model + symmetry-group model + TLC enumeration, spec-to-code replay, TLC trace validation of laws'
RULE = ('lattice inverse problems enumerated by TLC (sphere radius rk in {1, 2}), each replayed on 6 solver/interface configurations; seeded random '
        'inverse problems in 13 regimes (generic, meridional, equatorial, short 1e-15..1e-5 deg, nearly antipodal, polar, both poles, antipodal, '
        'coincident, unreduced longitudes, near-polar short, mm..m) x 9 flattenings (il) and in the regimes same parallel, mirror parallels, '
        'equatorial and nearly equatorial around the break-away longitude, plus all regimes on |f| = 0.05, 0.1 and b/a = 2^k (ix), each with the '
        '8 group elements from GeodSym. distinct_nontrivial = lattice vectors.')
TRUSTED = ['TLC', 'SphereLattice.tla', 'GeodSym.tla', 'GeodOverloads.tla', 'drv_geod.cpp']


def run(ctx):
    geod_common.run(ctx, 'C02', ['inv'], [('il', 12000, 400000), ('ix', 6000, 100000), ('iy', 15000, 120000)])
    return ctx.finish(RULE, TRUSTED)


def replay(ctx, path):
    raise vlib.FrameworkError('replay: re-run ./check C02; replay files list the offending trace lines')
