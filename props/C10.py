"""C10 - text formatting and parsing of angles and positions (DMS, Utility::val/str, GeoCoords strings, tool line protocol).

M1: MC_DMS enumerates the decoder on every short string over the abstract alphabet, grammar products, every alternative
    spelling of every symbol, the LatLon/Angle/Azimuth token lattice, the encoder carry lattice, the number lattice and the
    GeoCoords token-dispatch / UTM-UPS string lattice, checking closure and normalisation invariants on the model;
    MC_LineTool explores the line protocol state machine (and the polygon protocol of Planimeter); MC_ToolLines classifies
    a lattice of input lines per tool, mode and option set.
M2: every vector is executed on the real library (drv_dms replay, each item crash-isolated); every line sequence is fed to
    the real GeoConvert / GeodSolve / RhumbSolve / TransverseMercatorProj / ConicProj / GeodesicProj / CartConvert /
    IntersectTool / Planimeter processes.
M3: Trace_DMS decides every observation exactly (lattice and generated/mutated strings) and validates the seeded
    round-trip laws (half a unit of the last digit + 4 ulp); Trace_LineTool validates the tools' stdout and exit status."""
import concurrent.futures as cf
import json
import os
import subprocess
import time

import vlib

LEVEL = 'model_checking'
LEVEL_TEXT = ('Exact TLA+ model of the DMS decoder (symbol table, piece splitting, d/\'/"/: state machine, range rules, nan/inf, '
              'LatLon/Angle/Azimuth), of the encoder (carry, zero fill, hemisphere, azimuth reduction), of number text and of the '
              'GeoCoords token dispatch; TLC enumerates the string / carry lattices, checks closure (Decode o Encode = id) and '
              'normalisation on the model, every vector is replayed on the real code and every observation (including seeded '
              'generated and mutated strings) is decided exactly by TLC; round-trip laws at all precisions and the line protocol '
              'of GeoConvert/GeodSolve and of seven more tools (ERROR lines, exit status, output items, comments, forward/reverse '
              'round trips, polygon counts) are validated on traces.')
DESIGN_REF = 'DESIGN.md section 4, C10'
LEVEL_NOTE = ('Trusted: TLC, DMS.tla/NumText.tla/GeoCoordsText.tla (written from DMS.hpp, Utility.hpp, GeoCoords.hpp, the man pages), '
              'the driver quantisation. Not decided: values of strings with more than 8 digits of degrees (class only); MGRS strings '
              'other than the documented examples and projection values (C04/C05); hexadecimal / locale dependent number forms.')
TECHNIQUE = 'TLA+ lattice model + TLC enumeration, spec-to-code replay, TLC trace validation'

STR_POS = {'ll': (1, 2)}


def to_rows(vals):
    rows = []
    for v in vals:
        k = v[0]
        sp = STR_POS.get(k, (1,))
        if k in ('enc', 'ench', 'encp', 'str', 'us', 'dn', 'sp', 'uso', 'gn'):
            sp = ()
        row = [k]
        for i, x in enumerate(v[1:], 1):
            if i in sp:
                row.append(len(x))
                row.extend(x)
            elif isinstance(x, list):
                row.extend(x)
            else:
                row.append(x)
        if k in ('gs', 'gcz'):
            continue                # classified lines for the tool stage only
        if k == 'gc':
            row = row[:-1]          # the spec's class of the line is for the tool stage only
        rows.append(row)
    return rows


def GC(mode, prec, w=False, c=True, cd=0, z=0, zn='', istr=0, l=False):
    """One GeoConvert configuration = the Reset record of its runs (LineText.tla, GCLine).  istr: the lines are given with
    --input-string, separated by this byte (59: the default separator, otherwise --line-separator is passed too)."""
    return dict(e='Reset', tool='GeoConvert', mode=mode, prec=prec, w=w, c=c, dms=0, cd=cd, z=z, zn=zn, istr=istr, l=l, full=False)


GC_MODES = [GC('g', 0), GC('g', 2), GC('g', -3), GC('d', 0), GC('d', 2), GC(':', -1), GC(':', 3), GC('u', 0), GC('u', 3), GC('m', 0),
            GC('m', -3), GC('g', 1, w=True), GC('d', 1, w=True), GC('u', 0, c=False)]
# options that the first version did not exercise: --comment-delimiter, --input-string / --line-separator, -z zone[hemisphere]
GC_MORE = [GC('g', 0, cd=35), GC(':', 1, w=True, cd=35), GC('u', 1, cd=35),
           GC('g', 0, istr=59), GC('d', 0, istr=124), GC('u', 0, istr=37, cd=35),
           GC('u', 2, z=32, zn='n'), GC('u', 0, z=31), GC('u', 1, z=32, zn='s', l=True), GC('g', 1, z=32), GC('m', 0, z=31), GC('u', 1, l=True)]


def GS(mode, dms=0, prec=2, w=False, cd=0, arc=False, full=False):
    """One GeodSolve configuration (LineText.tla, GSLine); mode 'line' is -L 10 20 30."""
    return dict(e='Reset', tool='GeodSolve', mode=mode, prec=prec, w=w, c=True, dms=dms, cd=cd, arc=arc, z=0, zn='', istr=0, l=False, full=full,
                lat1=[49, 48], lon1=[50, 48], azi1=[51, 48])


GS_MODES = [GS('dir'), GS('dir', 100), GS('dir', 58), GS('inv')]
GS_MORE = [GS('dir', w=True), GS('inv', 100, w=True), GS('dir', arc=True), GS('dir', 58, arc=True, cd=35), GS('line'), GS('line', 100, arc=True),
           GS('inv', cd=35), GS('dir', prec=0, cd=35), GS('inv', prec=1, full=True), GS('dir', 100, prec=0, full=True, w=True), GS('dir', 58, full=True, arc=True), GS('inv', 58, arc=True)]


def old_tool_args(c):
    """Command line of a GeoConvert / GeodSolve run."""
    a = []
    if c['tool'] == 'GeoConvert':
        a += ['-' + c['mode'], '-p', str(c['prec'])] + (['-w'] if c['w'] else []) + ([] if c['c'] else ['-n']) + (['-l'] if c['l'] else [])
        if c['z']:
            a += ['-z', str(c['z']) + c['zn']]
    else:
        a += (['-w'] if c['w'] else [])       # before -L: the position of the line is read with the order in force
        a += {'dir': [], 'inv': ['-i'], 'line': ['-L', '10', '20', '30']}[c['mode']]
        a += ['-p', str(c['prec'])] + {0: [], 100: ['-d'], 58: ['-:']}[c['dms']] + (['-a'] if c['arc'] else []) + (['-f'] if c['full'] else [])
    if c['cd']:
        a += ['--comment-delimiter', chr(c['cd'])]
    return a


COMMENTS = [b'# c', b'#', b'#  two  words ', b'# 1 2 3', b'#x#y']


def with_comments(rng, lines, cd):
    """Appends comments to about half of the lines (the class of a line does not depend on the comment: LineText.tla, Body)."""
    out = []
    for ln in lines:
        if bytes([cd]) not in ln and rng.random() < 0.5:
            ln = ln + rng.choice([b' ', b'', b'\t']) + rng.choice(COMMENTS)
        out.append(ln)
    return out


def run_tool(exe, args, lines, istr=0):
    """Feed the lines to the tool (on standard input, or as --input-string with the separator istr); returns (list of output
    lines, exit status, signal)."""
    data = b''.join(l + b'\n' for l in lines)
    if istr:
        args = args + ['--input-string', bytes([istr]).join(lines)] + ([] if istr == 59 else ['--line-separator', chr(istr)])
        data = b''
    try:
        p = subprocess.run(['timeout', '20', exe] + args, input=data, stdout=subprocess.PIPE, stderr=subprocess.PIPE)
    except OSError as e:
        raise vlib.FrameworkError('cannot run %s: %s' % (exe, e))
    if p.returncode == 124:
        raise vlib.FrameworkError('tool timeout: %s %s' % (exe, args))
    out = p.stdout.split(b'\n')
    if out and out[-1] == b'':
        out.pop()
    rc = p.returncode
    return out, (rc if rc >= 0 else 128 - rc), (-rc if rc < 0 else 0)


TM, CP, GP, CC, IT, RS, PL = 'TransverseMercatorProj', 'ConicProj', 'GeodesicProj', 'CartConvert', 'IntersectTool', 'RhumbSolve', 'Planimeter'


def R(tool, mode, prec=3, proj='', w=False, cd=0, dms=0, c1=0, c2=0, l0=0, rt=False, fprec=0):
    """Options of one run = the Reset record of its trace (ToolText.tla reads it)."""
    return dict(e='Reset', tool=tool, mode=mode, proj=proj, prec=prec, w=w, cd=cd, dms=dms, c1=c1, c2=c2, l0=l0, rt=rt, fprec=fprec)


NEW_RUNS = [
    R(RS, 'dir'), R(RS, 'dir', 0, dms=100), R(RS, 'dir', 2, dms=58, w=True), R(RS, 'dir', 3, cd=35), R(RS, 'dir', 1, proj='E'),
    R(RS, 'inv'), R(RS, 'inv', 1, dms=100, cd=35), R(RS, 'inv', 0, w=True), R(RS, 'line', 3, w=True, c1=10, c2=20), R(RS, 'line', 1, dms=58, cd=35, c1=10, c2=20),
    R(TM, 'fwd'), R(TM, 'fwd', 0, proj='s', w=True), R(TM, 'fwd', 6, proj='t', cd=35, l0=9), R(TM, 'rev'), R(TM, 'rev', 0, proj='s', cd=35),
    R(TM, 'rev', 2, w=True),
    R(CP, 'fwd', 3, proj='c', c1=40, c2=60), R(CP, 'fwd', 2, proj='a', c1=40, c2=60, w=True, l0=-10), R(CP, 'fwd', 1, proj='c', c1=-30, c2=-30, cd=35),
    R(CP, 'rev', 3, proj='c', c1=40, c2=60), R(CP, 'rev', 1, proj='a', c1=40, c2=60, cd=35), R(CP, 'rev', 0, proj='a', c1=20, c2=50, w=True),
    R(GP, 'fwd', 3, proj='z', c1=45, c2=10), R(GP, 'fwd', 1, proj='c', c1=45, c2=10, cd=35), R(GP, 'fwd', 2, proj='g', c1=30, c2=0, w=True),
    R(GP, 'rev', 3, proj='z', c1=45, c2=10), R(GP, 'rev', 0, proj='c', c1=45, c2=10, w=True), R(GP, 'rev', 2, proj='g', c1=30, c2=0, cd=35),
    R(CC, 'fwd'), R(CC, 'fwd', 2, proj='l', c1=33, c2=44, w=True), R(CC, 'fwd', 0, cd=35), R(CC, 'rev'), R(CC, 'rev', 1, proj='l', c1=33, c2=44, cd=35),
    R(CC, 'rev', 0, w=True),
    R(IT, 'c'), R(IT, 'c', 0, w=True), R(IT, 'c', 2, cd=35), R(IT, 'n'), R(IT, 'n', 1, cd=35), R(IT, 'i'), R(IT, 'i', 0, w=True), R(IT, 'i', 2, cd=35),
    R(IT, 'o', 2), R(IT, 'o', 3, cd=35),
    R(PL, 'poly', 6), R(PL, 'poly', 3, w=True), R(PL, 'poly', 6, cd=35), R(PL, 'line', 6), R(PL, 'poly', 5, proj='R'), R(PL, 'line', 2, proj='Q', cd=35),
]
# round trips: forward at -p 6, its x y (z) given to the reverse projection at -p 0
RT_RUNS = [R(TM, 'fwd', 6), R(TM, 'fwd', 6, proj='s', l0=9, w=True), R(CP, 'fwd', 6, proj='c', c1=40, c2=60), R(CP, 'fwd', 6, proj='a', c1=20, c2=50, l0=-10),
           R(GP, 'fwd', 6, proj='z', c1=45, c2=10), R(GP, 'fwd', 6, proj='c', c1=30, c2=0, w=True), R(GP, 'fwd', 6, proj='g', c1=30, c2=-10),
           R(CC, 'fwd', 6), R(CC, 'fwd', 6, proj='l', c1=33, c2=44, w=True)]


def tool_args(c):
    """Command line of a run (the options as the man pages name them)."""
    t, a = c['tool'], []
    if t == RS:
        a += (['-i'] if c['mode'] == 'inv' else []) + (['-E'] if c['proj'] == 'E' else [])
        a += ['-L', str(c['c1']), str(c['c2']), '30'] if c['mode'] == 'line' else []      # -w comes later: the position is read latitude first
    elif t == TM:
        a += (['-' + c['proj']] if c['proj'] else []) + ['-l', str(c['l0'])]
    elif t == CP:
        a += ['-' + c['proj'], str(c['c1']), str(c['c2']), '-l', str(c['l0'])]
    elif t == GP:
        a += ['-' + c['proj'], str(c['c1']), str(c['c2'])]
    elif t == CC:
        a += ['-l', str(c['c1']), str(c['c2']), '20'] if c['proj'] == 'l' else []
    elif t == IT:
        a += ['-' + c['mode']]
    elif t == PL:
        a += (['-l'] if c['mode'] == 'line' else []) + (['-' + c['proj']] if c['proj'] else [])
    if c['mode'] == 'rev':
        a += ['-r']
    a += ['-p', str(c['prec'])] + {0: [], 100: ['-d'], 58: ['-:']}[c['dms']] + (['-w'] if c['w'] else [])
    if c['cd']:
        a += ['--comment-delimiter', chr(c['cd'])]
    return a


def more_tool_jobs(ctx, seqs, pseqs, tlvals):
    """Runs of RhumbSolve, TransverseMercatorProj, ConicProj, GeodesicProj, CartConvert, IntersectTool and Planimeter: every
    good/bad pattern of MC_LineTool realised with lines that MC_ToolLines classified under the options of the run."""
    import random
    rng = random.Random(1000003 * int(ctx.seed) + 10)
    quick = ctx.quick
    pools = {}
    for v in tlvals:
        if v[0] == 'tl' and 10 not in v[5]:
            pools.setdefault((v[1], v[2], v[3], v[4], v[6]), []).append(bytes(v[5]))
    exes = {t: vlib.build_tool(t) for t in (TM, CP, GP, CC, IT, RS, PL)}
    nmix = 2 if quick else 12

    def pool(c, cls, mode=None):
        m = mode or c['mode']
        k = (c['tool'], 'poly' if c['tool'] == PL else m, c['w'], c['cd'], cls)
        if len(pools.get(k, [])) < (1 if cls == 'any' else 5):
            raise vlib.FrameworkError('tool stage: line pool too small: %s %d' % (k, len(pools.get(k, []))))
        return pools[k]

    def mixes(c, pbad, pany):
        good, bad, anyl = pool(c, 'good'), pool(c, 'bad'), pool(c, 'any')
        res = []
        for m in range(nmix):
            # Planimeter: a line of class any makes the counts of the whole run undecided, so only the first mix has such lines
            pa = 0 if c['tool'] == PL and m > 0 else pany
            res.append([rng.choice(anyl) if rng.random() < pa else rng.choice(bad) if rng.random() < pbad else rng.choice(good) for _ in range(40)])
        return res
    jobs = []
    for c in NEW_RUNS:
        good, bad = pool(c, 'good'), pool(c, 'bad')
        pats = pseqs if c['tool'] == PL else seqs
        if quick:               # a seeded sample of the patterns per configuration (every pattern is used by several configurations)
            pats = rng.sample(pats, 12)
        for pat in pats:
            if c['tool'] == PL:     # "a blank line" is the first terminator the man page names: four in ten terminators are blank
                lines = [(b'' if rng.random() < 0.4 else rng.choice(bad)) if b else rng.choice(good) for b in pat]
            else:
                lines = [rng.choice(bad if b else good) for b in pat]
            jobs.append((c, exes[c['tool']], tool_args(c), lines, None))
        for lines in mixes(c, 0.3, 0.1):
            jobs.append((c, exes[c['tool']], tool_args(c), lines, None))
    for c in RT_RUNS:
        good, bad = pool(c, 'good'), pool(c, 'bad')
        back = dict(c, mode='rev', prec=0, rt=True, fprec=c['prec'])
        chain = (back, tool_args(back), 3 if c['tool'] == CC else 2)
        for pat in [p for p in seqs if len(p) <= 2]:
            jobs.append((c, exes[c['tool']], tool_args(c), [rng.choice(bad if b else good) for b in pat], chain))
        for lines in mixes(c, 0.1, 0.05):
            jobs.append((c, exes[c['tool']], tool_args(c), lines, chain))
    return jobs


def tool_models(ctx):
    """M1 of the tool stage (independent of the text lattices, so it is started first): MC_LineTool for the ERROR protocol and
    for the polygon protocol of Planimeter, MC_ToolLines for the classified line pools.  Returns (seqs, pseqs, tlvals)."""
    quick = ctx.quick
    maxlines = 4 if quick else 7

    def gen_seqs(kind):
        cfg = ctx.cfg('MC_LineTool' if kind == 'line' else 'MC_LineTool_poly',
                      'INIT Init\nNEXT Next\nCONSTANTS MaxLines = %d Kind = "%s"\nINVARIANTS ProtoInv PolyInv Emit\nCHECK_DEADLOCK FALSE\n' % (maxlines, kind))
        tag = 'seq' if kind == 'line' else 'pseq'
        res = [v[1] for v in ctx.generate('MC_LineTool', cfg, workers=2, timeout=600, heap='1g') if v and v[0] == tag]
        if len(res) < 2 ** maxlines:
            raise vlib.FrameworkError('MC_LineTool (%s) emitted %d sequences' % (kind, len(res)))
        return res

    def gen_pools():
        cfg = ctx.cfg('MC_ToolLines', 'INIT Init\nNEXT Next\nCONSTANTS NChunks = 16 Thin = %d\nINVARIANTS ClassInv Emit\nCHECK_DEADLOCK FALSE\n' % (4 if quick else 1))
        return ctx.generate('MC_ToolLines', cfg, workers=4 if quick else 8, timeout=1200, heap='2g')
    with cf.ThreadPoolExecutor(3) as ex:
        fseq, fpseq, fpool = ex.submit(gen_seqs, 'line'), ex.submit(gen_seqs, 'poly'), ex.submit(gen_pools)
        return fseq.result(), fpseq.result(), fpool.result()


def tool_stage(ctx, vals, models):
    """M1: MC_LineTool (all good/bad sequences), MC_ToolLines; M2: the sequences realised with spec-classified lines are fed to
    the real tools; M3: Trace_LineTool validates every line and the exit status."""
    quick = ctx.quick
    seqs, pseqs, tlvals = models
    pools = {}
    for v in vals:
        if v[0] == 'gc' and 10 not in v[1] and v[2] is True and v[3] is False:
            pools.setdefault(('gc', v[4]), []).append(bytes(v[1]))
        elif v[0] == 'gcz' and 10 not in v[1]:
            pools.setdefault(('gcz', v[2], v[3]), []).append(bytes(v[1]))
        elif v[0] == 'gs' and 10 not in v[1]:
            pools.setdefault(('gs', v[2], v[3], v[4], v[5]), []).append(bytes(v[1]))      # mode, w, arc, class
    gc_good = {'g': pools.get(('gc', 'geo'), []) + pools.get(('gc', 'utm'), []) + pools.get(('gc', 'mgrs'), []),
               'm': pools.get(('gc', 'geo'), []) + pools.get(('gc', 'mgrs'), [])}
    gc_bad = pools.get(('gc', 'throw'), [])
    need = [gc_good['g'], gc_good['m'], gc_bad] + [pools.get(('gcz', z, k), []) for z in (31, 32) for k in ('good', 'bad')]
    need += [pools.get(('gs', c['mode'], c['w'], False if c['mode'] == 'inv' else c['arc'], k), []) for c in GS_MODES + GS_MORE for k in ('good', 'bad')]
    if min(len(x) for x in need) < 5:
        raise vlib.FrameworkError('tool stage: line pools too small: %s' % {k: len(v) for k, v in pools.items()})
    rng = ctx.rng
    geoconvert = vlib.build_tool('GeoConvert')
    geodsolve = vlib.build_tool('GeodSolve')
    jobs = []          # (header record, exe, args, lines)
    extra = [[rng.random() < 0.3 for _ in range(40)] for _ in range(2 if quick else 20)]

    def patterns(first):
        """Every pattern for the configurations of the first version; for the added ones a seeded sample in the quick tier."""
        return seqs + extra if first or not quick else rng.sample(seqs, 10) + extra[:1]

    def realise(c, pat, good, bad):
        lines = [rng.choice(bad if b else good) for b in pat]
        if c['istr']:       # --input-string: the lines are the non-empty pieces between separators
            lines = [ln for ln in lines if ln.strip(b' \t\r\f\v') and bytes([c['istr']]) not in ln and 0 not in ln]
        if c['cd']:
            lines = with_comments(rng, lines, c['cd'])
        return lines
    for c in GC_MODES + GC_MORE:
        if c['z']:
            good, bad = pools[('gcz', c['z'], 'good')], pools[('gcz', c['z'], 'bad')] + gc_bad
        else:
            good, bad = gc_good['m' if c['mode'] == 'm' else 'g'], gc_bad
        for pat in patterns(c in GC_MODES):
            lines = realise(c, pat, good, bad)
            if c['istr'] and not lines:
                continue
            jobs.append((c, geoconvert, old_tool_args(c), lines, None))
    for c in GS_MODES + GS_MORE:
        pk = ('gs', c['mode'], c['w'], False if c['mode'] == 'inv' else c['arc'])
        good, bad = pools[pk + ('good',)], pools[pk + ('bad',)]
        for pat in patterns(c in GS_MODES):
            jobs.append((c, geodsolve, old_tool_args(c), realise(c, pat, good, bad), None))
    jobs += more_tool_jobs(ctx, seqs, pseqs, tlvals)

    def one(job):
        hdr, exe, args, lines, chain = job
        out, status, sig = run_tool(exe, args, lines, hdr.get('istr', 0))
        recs = [hdr]
        if hdr['tool'] == 'Planimeter':
            recs += [dict(e='vtx', inp=list(ln)) for ln in lines]
            recs.append(dict(e='pend', status=status, nin=len(lines), outs=[list(o) for o in out], signal=sig))
            return recs
        for i, ln in enumerate(lines):
            has = i < len(out)
            recs.append(dict(e='line', inp=list(ln), has=has, out=list(out[i]) if has else []))
        recs.append(dict(e='end', status=status, nin=len(lines), nout=len(out), signal=sig))
        if chain:
            # second half of a round trip: the leading items of every output line go to the reverse run
            hdr2, args2, nitems = chain
            lines2 = [b' '.join(o.split()[:nitems]) for o in out]
            out2, status2, sig2 = run_tool(exe, args2, lines2)
            recs.append(hdr2)
            for i, ln in enumerate(lines2):
                has = i < len(out2)
                recs.append(dict(e='line', inp=list(ln), has=has, out=list(out2[i]) if has else [], src=list(lines[i]), fout=list(out[i])))
            recs.append(dict(e='end', status=status2, nin=len(lines2), nout=len(out2), signal=sig2))
        return recs
    t0 = time.time()
    with cf.ThreadPoolExecutor(12) as ex:
        allrecs = list(ex.map(one, jobs))
    vlib.log('tool stage: %d runs in %.1fs' % (len(jobs), time.time() - t0))
    tf = ctx.path('trace-tools.ndjson')
    nlines = 0
    with open(tf, 'w') as f:
        for recs in allrecs:
            for r in recs:
                f.write(json.dumps(r, separators=(',', ':')) + '\n')
                nlines += r['e'] in ('line', 'vtx')
    ctx.cov['behaviours_replayed'] += len(jobs)
    ctx.cov['distinct_nontrivial'] += nlines
    n, rej = ctx.validate('Trace_LineTool', 'Trace_LineTool', tf, shards=12 if quick else vlib.NCPU, group_key='Reset')
    ctx.cov['traces_validated_against_impl'] += 1
    ctx.report_rejects(rej, tf)
    ctx.law('tool-runs', len(jobs))
    ctx.law('tool-lines', nlines)
    with open(tf) as f:
        for i, ln in enumerate(f):
            if i in (0, 1, 2):
                ctx.sample(ln.strip()[:300])


def mc_cfg(part, quick):
    if quick:
        c = dict(da=(3, 4, 5, 5), db=(0, 0, 0, 90), uni=(0, 0, 0, 4), enc=(0, 0, 0, 30), num=(0, 0, 0, 5), gc=(0, 0, 0, 3))[part]
    else:
        c = dict(da=(4, 5, 6, 1), db=(0, 0, 0, 3), uni=(0, 0, 0, 1), enc=(0, 0, 0, 1), num=(0, 0, 0, 1), gc=(0, 0, 0, 1))[part]
    return ('INIT Init\nNEXT Next\nCONSTANTS Part = "%s" NChunks = 64 LenA = %d LenB = %d LenC = %d Thin = %d\n'
            'INVARIANTS DecInv LLInv EncInv NumInv GcInv OvlInv GcvInv Emit\nCHECK_DEADLOCK FALSE\n' % ((part,) + c))


PARTS = ['da', 'db', 'uni', 'enc', 'num', 'gc']


def calendar_stage(ctx):
    """Growth item (not part of the statement of C10, reported separately in the evidence): Utility's calendar functions.
    M1: MC_Calendar checks that day / date are mutually inverse bijections on the model and enumerates dates, day numbers and
    date strings; M2: drv_cal executes them; M3: Trace_Calendar decides every observation exactly against Calendar.tla."""
    dense = 'FALSE' if ctx.quick else 'TRUE'
    cfg = ctx.cfg('MC_Calendar', 'INIT Init\nNEXT Next\nCONSTANTS NChunks = 16 Dense = %s\nINVARIANTS DayInv DateInv StrInv Emit\nCHECK_DEADLOCK FALSE\n' % dense)
    vals = ctx.generate('MC_Calendar', cfg, workers=8, timeout=3000, heap='2g')
    rows = []
    for v in vals:
        if v[0] in ('day', 'date'):
            rows.append(v)
        elif v[0] == 'str':
            rows.append(['str'] + list(v[1]))
    if len(rows) < 5000:
        raise vlib.FrameworkError('MC_Calendar emitted %d vectors' % len(rows))
    vin = ctx.path('cal-vectors.txt')
    vlib.write_lines(vin, rows)
    exe = vlib.build_driver('drv_cal', 'plain' if ctx.quick else 'san')
    trace = ctx.path('trace-cal.ndjson')
    rc, err = ctx.drive(exe, ['replay'], infile=vin, outfile=trace)
    if rc != 0:
        ctx.violation('calendar driver failed (rc=%d): %s' % (rc, err[-600:]), [{'e': 'ReplayHeader', 'property': ctx.pid, 'law': 'no-crash', 'vectors': vin}])
        return
    n, rej = ctx.validate('Trace_Calendar', 'Trace_Calendar', trace, shards=8, group_key=None)
    ctx.cov['traces_validated_against_impl'] += 1
    ctx.cov['behaviours_replayed'] += len(rows)
    ctx.cov['laws']['calendar'] = {'vectors': len(rows), 'lines': n}
    ctx.report_rejects(rej, trace)


def run(ctx):
    quick = ctx.quick
    exe = vlib.build_driver('drv_dms', 'plain')
    exe_san = None if quick else vlib.build_driver('drv_dms', 'san')

    mex = cf.ThreadPoolExecutor(1)
    fmodels = mex.submit(tool_models, ctx)

    def gen(part):
        cfg = ctx.cfg('MC_DMS_' + part, mc_cfg(part, quick))
        return ctx.generate('MC_DMS', cfg, workers=3 if quick else 8, timeout=3000, heap='4g')
    with cf.ThreadPoolExecutor(len(PARTS) if quick else 2) as ex:
        allv = list(ex.map(gen, PARTS))
    vals = [v for part in allv for v in part]
    if len(vals) < 1000:
        raise vlib.FrameworkError('too few vectors emitted: %d' % len(vals))
    rows = to_rows(vals)
    vin = ctx.path('vectors.txt')
    vlib.write_lines(vin, rows)
    ctx.cov['behaviours_replayed'] += len(rows)
    ctx.cov['distinct_nontrivial'] += len(rows)

    traces = []
    trace = ctx.path('trace.ndjson')
    rc, err = ctx.drive(exe_san or exe, ['replay'], infile=vin, outfile=trace)
    if rc != 0:
        ctx.violation('driver failed replaying lattice vectors (rc=%d): %s' % (rc, err[-600:]),
                      [{'e': 'ReplayHeader', 'property': ctx.pid, 'law': 'no-crash', 'vectors': vin}])
        return ctx.finish(RULE, TRUSTED)
    traces.append(trace)
    nrec = 40000 if quick else 1000000
    rt = ctx.path('trace-rt.ndjson')
    rc, err = ctx.drive(exe_san or exe, ['record', ctx.seed, nrec], outfile=rt)
    if rc != 0:
        ctx.violation('driver failed on seeded random records (rc=%d): %s' % (rc, err[-600:]),
                      [{'e': 'ReplayHeader', 'property': ctx.pid, 'law': 'no-crash', 'seed': ctx.seed}])
        return ctx.finish(RULE, TRUSTED)
    traces.append(rt)
    def validate(tf):
        return tf, ctx.validate('Trace_DMS', 'Trace_DMS', tf, shards=8 if quick else vlib.NCPU, group_key=None)
    with cf.ThreadPoolExecutor(3) as ex:
        ftool = ex.submit(tool_stage, ctx, vals, fmodels.result())
        fcal = ex.submit(calendar_stage, ctx)
        results = list(ex.map(validate, traces))
        ftool.result()
        fcal.result()
    for tf, (n, rej) in results:
        ctx.cov['traces_validated_against_impl'] += 1
        ctx.report_rejects(rej, tf)
        kinds = {}
        with open(tf) as f:
            lines = f.readlines()
        for ln in lines:
            k = ln[6:ln.find('"', 6)]
            kinds[k] = kinds.get(k, 0) + 1
        for k, c in kinds.items():
            ctx.law('text-' + k, c)
        step = max(1, len(lines) // 5)
        for i in range(0, len(lines), step):
            ctx.sample(lines[i].strip()[:400])
    ctx.cov['exhaustive'] = not quick
    return ctx.finish(RULE, TRUSTED)


RULE = ('vectors enumerated by TLC from MC_DMS: every string of length <= 3 (quick; 4 thorough) over 19 symbols, length 4 over 12, '
        'length 5 over 8; grammar products of degrees/minutes/seconds numbers and indicators with signs and hemisphere designators; '
        'sums of pieces; every alternative UTF-8 spelling of every symbol in 10 contexts, every pair of minute symbols, removable spaces '
        'at every position; LatLon/Angle/Azimuth token lattice; encoder lattice (degrees x carry points x precision 0..4 x flag x '
        'separator x -1/0/+1 ulp, half units, precision clamp); number lattice (val, str, fract, nummatch, ParseLine, lookup, trim); '
        'GeoCoords token dispatch and UTM/UPS strings on a quarter-unit lattice at precisions -5..3; all good/bad line sequences up to '
        'length 4 (quick) for GeoConvert/GeodSolve under each output mode; the same patterns (quick: 12 of the 31 per configuration) '
        'for 48 configurations of RhumbSolve, TransverseMercatorProj, ConicProj, GeodesicProj, CartConvert, IntersectTool and '
        'Planimeter, realised with lines from the field / token-count / separator / comment lattice of MC_ToolLines, and 9 '
        'forward -> reverse round trips; plus seeded random records. distinct_nontrivial = distinct lattice vectors + tool lines.')
TRUSTED = ['TLC', 'DMS.tla, NumText.tla, GeoCoordsText.tla, LineText.tla, ToolText.tla, LineTool.tla (written from the headers and man pages)',
           'drv_dms.cpp (quantisation of angles to 1e-5 arc second units, residuals in long double)', 'props/C10.py tool_stage (builds the command lines, runs the tools, logs lines, cuts the leading items of a forward output line for the reverse run)']


def replay(ctx, path):
    raise vlib.FrameworkError('replay: re-run ./check C10; replay files list the offending trace lines')
