"""C03 - reduced length, geodesic scales and area under a geodesic."""
import geod_common
import vlib

LEVEL = 'model_checking'
LEVEL_TEXT = ('On the sphere lattice m12 = R sin(a12), M12 = M21 = cos(a12) and S12 = (azimuth difference) U are exact rational/integer values '
              'in SphereLattice.tla; TLC enumerates the lattice and the direct, inverse and line interfaces of all three solver kinds are replayed '
              'and validated.  On the ellipsoid family TLC validates interface agreement, reversal (M12/M21 exchanged, S12 negated), the published '
              'addition rules at random split points, polygon closure modulo the ellipsoid area, series = exact, the symmetry group (GeodSym.tla) '
              'and the closed-form ellipsoid area for Geodesic, GeodesicExact, Rhumb and Ellipsoid.  S12 of the exact solver is compared with its '
              'definition (quadrature of q(phi) dlambda along the line, closed-form q) on the base family, on b/a = 2^k and on the walk over 393 '
              'ellipsoids n = j/200; exact=true must reproduce the exact solver bit for bit in every output; every overload returning m12, M12, M21 '
              'or S12 must write what the general call writes (GeodOverloads.tla); short lines carry the area obligation without the m12 term.')
DESIGN_REF = 'DESIGN.md section 4, C03'
LEVEL_NOTE = ('Trusted: TLC, SphereLattice.tla, GeodSym.tla, GeodOverloads.tla, the closed form q(phi) and the Gauss-Legendre rule in the driver. The area clause '
              'is judged at the documented position accuracy including its conditioning (1/cos(lat) on the base family, q/(N cos(lat)) elsewhere); '
              'series-vs-exact area agreement is stated only for |f| <= 0.01, where the series accuracy is documented; m12 / M12 / M21 on the '
              'eccentric ellipsoids are judged through bit-for-bit identities and m12 laws conditioned by max(|M12|, |M21|).')
TECHNIQUE = 'TLA+ lattice model + TLC enumeration, spec-to-code replay, TLC trace validation of laws'
RULE = ('lattice direct and inverse problems (m12, M12, M21, S12 fields) replayed on all solver/interface configurations; seeded random direct, '
        'inverse (all regimes, 8 symmetry group elements each) and three-point addition-rule records. distinct_nontrivial = lattice vectors.')
TRUSTED = ['TLC', 'SphereLattice.tla', 'GeodSym.tla', 'GeodOverloads.tla', 'drv_geod.cpp (closed-form area integrand, 8-point Gauss-Legendre rule)']


def run(ctx):
    geod_common.run(ctx, 'C03', ['dir', 'inv', 'ell'], [('dl', 8000, 250000), ('dx', 3000, 60000), ('il', 6000, 200000), ('ix', 3000, 60000), ('al', 10000, 300000), ('ax', 3000, 60000)])
    return ctx.finish(RULE, TRUSTED)


def replay(ctx, path):
    raise vlib.FrameworkError('replay: re-run ./check C03; replay files list the offending trace lines')
