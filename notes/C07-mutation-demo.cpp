// Concrete inputs exposing the MISSED mutants of the C07 mutation campaign (notes/C07-mutation.md).
// Build against a tree (see C07-mutation-rundemo.sh); the unchanged tree prints "ok" on every line.
#include <GeographicLib/Geocentric.hpp>
#include <GeographicLib/LocalCartesian.hpp>
#include <cstdio>
#include <cmath>
using namespace GeographicLib;
static void line(const char* id, bool ok, const char* what) { printf("%-7s %-4s %s\n", id, ok ? "ok" : "BAD", what); }
int main() {
  Geocentric g(6378137.0, 1 / 298.257223563);
  char b[400];
  { // C07-25: LocalCartesian::Forward with a vector of length 10 must leave it alone
    LocalCartesian L(48, 11, 500, g); std::vector<double> M10(10, -7.0); double x, y, z;
    L.Forward(48.5, 11.5, 600, x, y, z, M10);
    bool untouched = true; for (double m : M10) untouched = untouched && m == -7.0;
    snprintf(b, sizeof b, "LocalCartesian::Forward(.., M) with M.size() = 10: M[0] = %g, M[8] = %g", M10[0], M10[8]);
    line("C07-25", untouched, b); }
  { // C07-26: LocalCartesian::Reverse with a vector of length 8 must still compute lat, lon, h
    LocalCartesian L(48, 11, 500, g); std::vector<double> M8(8, -7.0); double lat = -999, lon = -999, h = -999, lat2, lon2, h2;
    L.Reverse(1000, 2000, 30, lat, lon, h, M8); L.Reverse(1000, 2000, 30, lat2, lon2, h2);
    snprintf(b, sizeof b, "LocalCartesian::Reverse(1000, 2000, 30, .., M) with M.size() = 8: lat lon h = %.10g %.10g %.10g (without M %.10g %.10g %.10g)",
             lat, lon, h, lat2, lon2, h2);
    line("C07-26", lat == lat2 && lon == lon2 && h == h2, b); }
  { // C07-27: LocalCartesian(earth) (origin 0, 0, 0) on a non-WGS84 ellipsoid
    Geocentric s(4194304.0, 1.0 / 128); LocalCartesian L(s); double x, y, z; L.Forward(0, 90, 0, x, y, z);
    snprintf(b, sizeof b, "LocalCartesian(Geocentric(2^22, 1/128)).Forward(0, 90, 0) = %.3f %.3f %.3f (expected 4194304 0 -4194304); Flattening() = %.10g",
             x, y, z, L.Flattening());
    line("C07-27", x == 4194304.0 && y == 0 && z == -4194304.0, b); }
  { // C07-32: the WGS84 singleton against an explicitly constructed WGS84 ellipsoid
    double X, Y, Z, X2, Y2, Z2; Geocentric::WGS84().Forward(45, 0, 0, X, Y, Z); g.Forward(45, 0, 0, X2, Y2, Z2);
    snprintf(b, sizeof b, "Geocentric::WGS84().Forward(45, 0, 0) - Geocentric(6378137, 1/298.257223563).Forward(45, 0, 0): dX = %.3g m, dZ = %.3g m",
             X - X2, Z - Z2);
    line("C07-32", X == X2 && Z == Z2, b); }
  { // C07-36: Geocentric::Reverse with a vector of length 10 must leave it alone
    std::vector<double> M10(10, -7.0); double lat, lon, h; g.Reverse(4.0e6, 1.0e6, 4.8e6, lat, lon, h, M10);
    bool untouched = true; for (double m : M10) untouched = untouched && m == -7.0;
    snprintf(b, sizeof b, "Geocentric::Reverse(.., M) with M.size() = 10: M[0] = %g, M[8] = %g", M10[0], M10[8]);
    line("C07-36", untouched, b); }
  { // C07-13 (caught, but only by 2-7 random lines): a lattice point that hits r = 0, S = 0 exactly
    Geocentric p(4194304.0, -1.0 / 128); double lat, lon, h; p.Reverse(65792.0, 0, 0, lat, lon, h);
    snprintf(b, sizeof b, "Geocentric(2^22, -1/128).Reverse(65792, 0, 0) = %.10g %.10g %.10g (expected 0 0 -4128512)", lat, lon, h);
    line("C07-13", lat == 0 && lon == 0 && h == -4128512.0, b); }
  return 0;
}
