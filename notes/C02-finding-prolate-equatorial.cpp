// Finding (C02): GeodesicExact::Inverse on prolate ellipsoids (f <= -0.25, inside the documented range b/a <= 100) returns a
// geodesic that does not join the two points when both lie within about 1e-4 degree of (not exactly on) the equator and the
// longitude difference exceeds about 110 degrees.  About 1.5 % of such pairs fail; the error reaches hundreds of km.
// Build: g++ -std=c++17 -I/repo/include -I<build>/include C02-finding-prolate-equatorial.cpp <libGeographicLib> && ./a.out
#include <GeographicLib/GeodesicExact.hpp>
#include <cstdio>
using namespace GeographicLib;
int main() {
  GeodesicExact g(6378137, -1);                                   // b/a = 2
  double lat1 = 1.96e-13, lon1 = 0, lat2 = 1.88e-13, lon2 = 171.511014, s12, azi1, azi2;
  g.Inverse(lat1, lon1, lat2, lon2, s12, azi1, azi2);
  double la, lo; g.Direct(lat1, lon1, azi1, s12, la, lo);
  double se; g.Inverse(0, lon1, 0, lon2, se);                     // the same pair moved onto the equator (20 pm away)
  printf("Inverse: s12 = %.3f azi1 = %.9f azi2 = %.9f\n", s12, azi1, azi2);
  printf("Direct(azi1, s12) arrives at lat %.3g lon %.9f, point 2 is at lon %.9f\n", la, lo, lon2);
  printf("distance along the equator = %.3f (an upper bound for s12)\n", se);
  // observed: s12 = 19504137.837, azi1 = azi2 = 90, arrives at lon 175.208651229 (412 km past point 2); equator 19092518.744
  bool bad = s12 > se + 1e-3 || !(lo > lon2 - 1e-7 && lo < lon2 + 1e-7);
  printf(bad ? "FAIL\n" : "PASS\n"); return bad;
}
