#!/bin/bash
# Helper of the C01 mutation campaign (notes/C01-mutation.md).  Expects a scratch worktree of /repo in /tmp/mw-C01, Config.h in
# /tmp/C01-demo/inc/GeographicLib (text = vlib.CONFIG_H) and notes/C01-mutation-demo.cpp copied to /tmp/C01-demo/demo.cpp.  Never touches /repo.
# usage: build.sh <n|base>   -> /tmp/C01-demo/demo-<n>   (plain flavour flags of tools/vlib.py)
n=$1; W=/tmp/mw-C01; D=/tmp/C01-demo
FL="-O2 -std=c++17 -fno-fast-math -ffp-contract=off -DGEOGRAPHICLIB_VERIF -I$D/inc -I$W/include -I$W/src"
FILES="Geodesic GeodesicLine GeodesicExact GeodesicLineExact EllipticFunction Math DST"
cd $W && git checkout -q -- . || exit 2
if [ "$n" = base ]; then
  for f in $FILES; do g++ $FL -c src/$f.cpp -o $D/base/$f.o || exit 2; done
  g++ $FL $D/demo.cpp $D/base/*.o -o $D/demo-base || exit 2
  exit 0
fi
git apply /verif/mutants/C01-$n.patch || exit 2
mkdir -p $D/m$n
for f in $FILES; do g++ $FL -c src/$f.cpp -o $D/m$n/$f.o || exit 2; done
g++ $FL $D/demo.cpp $D/m$n/*.o -o $D/demo-$n || exit 2
git checkout -q -- .
