// Demonstrations for missed C19 mutants.  usage: demo <case> <scratchdir>
#include <GeographicLib/SphericalHarmonic.hpp>
#include <GeographicLib/SphericalHarmonic1.hpp>
#include <GeographicLib/SphericalHarmonic2.hpp>
#include <GeographicLib/MagneticModel.hpp>
#include <GeographicLib/MagneticCircle.hpp>
#include <GeographicLib/GravityModel.hpp>
#include <GeographicLib/GravityCircle.hpp>
#include <GeographicLib/NormalGravity.hpp>
#include <GeographicLib/Geocentric.hpp>
#include <cstdio>
#include <cmath>
#include <cstdint>
#include <cstring>
#include <fstream>
#include <string>
#include <vector>
using namespace GeographicLib;
using namespace std;
typedef vector<double> vec;

static int csize(int N, int M) { return (M + 1) * (2 * N - M + 2) / 2; }
static void put_i32(ofstream& f, int v) { f.write((char*) &v, 4); }
static void put_f64(ofstream& f, double v) { f.write((char*) &v, 8); }
static void put_set(ofstream& f, int N, int M, const vec& C, const vec& S) { put_i32(f, N); put_i32(f, M); for (double v : C) put_f64(f, v); for (double v : S) put_f64(f, v); }
static double rnd() { static uint64_t s = 88172645463325252ULL; s = s * 6364136223846793005ULL + 1442695040888963407ULL; return ((s >> 11) * (1.0 / 9007199254740992.0)) * 2 - 1; }
static void fill(int N, int M, vec& C, vec& S, double amp) { C.assign(csize(N, M), 0); S.assign(csize(N, M) - (N + 1), 0); for (auto& v : C) v = amp * rnd(); for (auto& v : S) v = amp * rnd(); }

int main(int argc, char** argv) {
  string c = argc > 1 ? argv[1] : "", dir = argc > 2 ? argv[2] : "/tmp";
  try {
  if (c == "sh1" || c == "sh2") {
    // simple constructors (N, N1[, N2]) against the general constructors with nmx = mmx = N
    int N = 3, N1 = 2, N2 = 1; vec C, S, C1, S1, C2, S2;
    fill(N, N, C, S, 1); fill(N1, N1, C1, S1, 1); fill(N2, N2, C2, S2, 1);
    double x = 1.2, y = -0.7, z = 0.9, t1 = 0.5, t2 = -1.5;
    if (c == "sh1") {
      SphericalHarmonic1 g(C, S, N, N, N, C1, S1, N1, N1, N1, 1.0, SphericalHarmonic1::SCHMIDT);
      printf("general ctor: %.15g\n", g(t1, x, y, z));
      SphericalHarmonic1 s(C, S, N, C1, S1, N1, 1.0, SphericalHarmonic1::SCHMIDT);
      printf("simple  ctor: %.15g\n", s(t1, x, y, z));
    } else {
      SphericalHarmonic2 g(C, S, N, N, N, C1, S1, N1, N1, N1, C2, S2, N2, N2, N2, 1.0, SphericalHarmonic2::SCHMIDT);
      printf("general ctor: %.15g\n", g(t1, t2, x, y, z));
      SphericalHarmonic2 s(C, S, N, C1, S1, N1, C2, S2, N2, 1.0, SphericalHarmonic2::SCHMIDT);
      printf("simple  ctor: %.15g\n", s(t1, t2, x, y, z));
    }
  } else if (c == "magnorm") {
    // metadata without a Normalization line (documented default: schmidt) against the same file with the line
    vec C, S; fill(3, 3, C, S, 30000); C[0] = 0; vec Cr, Sr; fill(3, 3, Cr, Sr, 50); Cr[0] = 0;
    for (int k = 0; k < 2; ++k) {
      string name = k ? "dnorm1" : "dnorm0";
      ofstream m((dir + "/" + name + ".wmm").c_str());
      m << "WMMF-2\nName " << name << "\nDescription x\nReleaseDate 2026-01-01\nRadius 6371200\nNumModels 1\nEpoch 2020\nDeltaEpoch 5\n"
        << "MinTime 2020\nMaxTime 2025\nMinHeight -1000\nMaxHeight 600000\n" << (k ? "Normalization schmidt\n" : "") << "Type linear\nByteOrder little\nID DEMOMAG1\n";
      m.close();
      ofstream f((dir + "/" + name + ".wmm.cof").c_str(), ios::binary); f.write("DEMOMAG1", 8); put_set(f, 3, 3, C, S); put_set(f, 3, 3, Cr, Sr); f.close();
      MagneticModel mm(name, dir);
      double Bx, By, Bz; mm(2022.5, 27, 88, 1000, Bx, By, Bz);
      printf("%s: B = %.10g %.10g %.10g\n", k ? "with 'Normalization schmidt'" : "no Normalization line      ", Bx, By, Bz);
    }
  } else if (c == "grvmmax") {
    // GravityModel(name, dir, Nmax = -1, Mmax = 2): order truncated to 2, degree untouched
    int N = 6; vec C, S; fill(N, N, C, S, 1e-6); C[0] = 0; C[2] = -4.84e-4 ;
    string name = "dgrv";
    ofstream m((dir + "/" + name + ".egm").c_str());
    m << "EGMF-1\nName dgrv\nDescription x\nReleaseDate 2026-01-01\nModelRadius 6378136.3\nModelMass 3986004.415e8\nAngularVelocity 7292115e-11\n"
      << "ReferenceRadius 6378137\nReferenceMass 3986004.418e8\nFlattening 1/298.257223563\nHeightOffset 0\nCorrectionMultiplier 1\nNormalization full\nByteOrder little\nID DEMOGRV1\n";
    m.close();
    ofstream f((dir + "/" + name + ".egm.cof").c_str(), ios::binary); f.write("DEMOGRV1", 8); put_set(f, N, N, C, S); put_i32(f, -1); put_i32(f, -1); f.close();
    GravityModel g(name, dir, -1, 2);
    double X = 4e6, Y = 3e6, Z = 4.5e6, gx, gy, gz;
    vec C1 = C; C1[0] = 1;
    SphericalHarmonic ref(C1, S, N, N, 2, 6378136.3, SphericalHarmonic::FULL);
    printf("Degree() = %d Order() = %d (expected 6 2)\n", g.Degree(), g.Order());
    printf("V = %.15g   file coefficients cut at order 2 only: %.15g\n", g.V(X, Y, Z, gx, gy, gz), 3986004.415e8 / 6378136.3 * ref(X, Y, Z));
  } else if (c == "j0") {
    printf("WGS84 DynamicalFormFactor(0) = %g (zonal series V0 = -GM/r sum J_n (a/r)^n P_n needs J0 = -1)\n", NormalGravity::WGS84().DynamicalFormFactor(0));
  } else if (c == "lowdeg") {
    // degree-4 model whose even zonals are exactly those of the reference ellipsoid: T and the geoid height should vanish
    // up to the normal terms of degree > 4 (known finding grv-lowdeg-zonal: a few m^2/s^2)
    int N = 4; vec C(csize(N, N), 0.0), S(csize(N, N) - (N + 1), 0.0);
    const NormalGravity& w = NormalGravity::WGS84();
    C[2] = -w.DynamicalFormFactor(2) / sqrt(5.0); C[4] = -w.DynamicalFormFactor(4) / 3.0;
    string name = "dlow";
    ofstream m((dir + "/" + name + ".egm").c_str());
    m.precision(17);
    m << "EGMF-1\nName dlow\nDescription x\nReleaseDate 2026-01-01\nModelRadius 6378137\nModelMass 3986004.418e8\nAngularVelocity 7292115e-11\n"
      << "ReferenceRadius 6378137\nReferenceMass 3986004.418e8\nFlattening " << w.Flattening() << "\nHeightOffset 0\nCorrectionMultiplier 1\nNormalization full\nByteOrder little\nID DEMOGRV1\n";
    m.close();
    ofstream f((dir + "/" + name + ".egm.cof").c_str(), ios::binary); f.write("DEMOGRV1", 8); put_set(f, N, N, C, S); put_i32(f, -1); put_i32(f, -1); f.close();
    GravityModel g(name, dir);
    double X = 4e6, Y = 3e6, Z = 4.5e6, a1, a2, a3;
    printf("W - U = %.9g   T = %.9g   GeoidHeight(30, 40) = %.9g m\n", g.W(X, Y, Z, a1, a2, a3) - g.U(X, Y, Z, a1, a2, a3), g.T(X, Y, Z), g.GeoidHeight(30, 40));
  } else if (c == "capdist") {
    // GravityCircle with caps = DISTURBANCE only against the direct evaluation
    int N = 6; vec C, S; fill(N, N, C, S, 1e-6); C[0] = 0; C[2] = -4.84e-4 ;
    string name = "dcap";
    ofstream m((dir + "/" + name + ".egm").c_str());
    m << "EGMF-1\nName dcap\nDescription x\nReleaseDate 2026-01-01\nModelRadius 6378136.3\nModelMass 3986004.415e8\nAngularVelocity 7292115e-11\n"
      << "ReferenceRadius 6378137\nReferenceMass 3986004.418e8\nFlattening 1/298.257223563\nHeightOffset 0\nCorrectionMultiplier 1\nNormalization full\nByteOrder little\nID DEMOGRV1\n";
    m.close();
    ofstream f((dir + "/" + name + ".egm.cof").c_str(), ios::binary); f.write("DEMOGRV1", 8); put_set(f, N, N, C, S); put_i32(f, -1); put_i32(f, -1); f.close();
    GravityModel g(name, dir);
    double dx, dy, dz, T = g.Disturbance(33, 20, 1000, dx, dy, dz);
    printf("direct                  : T = %.12g delta = %.12g %.12g %.12g\n", T, dx, dy, dz);
    for (unsigned caps : {unsigned(GravityModel::DISTURBANCE), unsigned(GravityModel::GRAVITY | GravityModel::DISTURBANCE), unsigned(GravityModel::ALL)}) {
      GravityCircle gc = g.Circle(33, 1000, caps);
      double ex = 1, ey = 2, ez = 3, Tc = gc.Disturbance(20, ex, ey, ez);
      printf("circle caps = 0x%02x      : T = %.12g delta = %.12g %.12g %.12g\n", caps, Tc, ex, ey, ez);
    }
  } else { fprintf(stderr, "unknown case\n"); return 2; }
  } catch (const std::exception& e) { printf("EXCEPTION: %s\n", e.what()); return 1; }
  return 0;
}
