#!/usr/bin/env python3
"""cmp.py base.txt mut.txt : max position difference (nm, great-circle approx on a = 6378137) per (f, solver, mode) and the worst input"""
import sys, math
def rd(p):
    return [l.split() for l in open(p)]
A, B = rd(sys.argv[1]), rd(sys.argv[2])
worst = {}
for x, y in zip(A, B):
    key = (x[0], 'series' if x[2] == '0' else 'exact', 'arc' if x[3] == '1' else 'dist')
    la1, lo1, la2, lo2 = float(x[8]), float(x[9]), float(y[8]), float(y[9])
    if any(math.isnan(v) for v in (la2, lo2)):
        d = float('inf')
    else:
        dlo = math.remainder(lo2 - lo1, 360)
        d = 6378137e9 * math.hypot(math.radians(la2 - la1), math.radians(dlo) * math.cos(math.radians(la1)))
    ds = abs(float(y[11]) - float(x[11])) * 1e9
    daz = abs(math.remainder(float(y[10]) - float(x[10]), 360))
    w = worst.get(key, (-1, None, 0, 0))
    worst[key] = (max(w[0], d), x[4:8] if d > w[0] else w[1], max(w[2], ds), max(w[3], daz))
for k in sorted(worst):
    w = worst[k]
    print('f=%-8s %-6s %-4s max dpos = %12.1f nm   max ds12 = %10.1f nm  max dazi = %.3e deg  worst input lat1,lon1,azi1,s/a = %s' % (k + (w[0], w[2], w[3], ' '.join(w[1]))))
