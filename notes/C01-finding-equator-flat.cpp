// Finding (C01): GeodesicExact::Direct along the equator of a very oblate ellipsoid (b/a <= 1/32, inside the documented range
// b/a >= 0.01) misses lon2 = lon1 + s12/a by 3 um .. 58 um, 13 .. 150 times the "approximate maximum error" table of
// GeodesicExact.hpp (269 nm at b/a = 1/32, 345 nm at 1/64, 387 nm at 1/128 for a quarter meridian of 10 000 km; here the
// quarter meridian is only 6 400 km).  The meridional anchors (quarter meridian to the pole) are good to 8 nm on the same ellipsoids.
#include <GeographicLib/GeodesicExact.hpp>
#include <cstdio>
#include <cmath>
using namespace GeographicLib;
int main() {
  const long double pi = 3.14159265358979323846264338327950288L; const double a = 6378137; int bad = 0;
  const int K[3] = {5, 6, 7}, D[3] = {175, 179, 178}; const double doc[3] = {269, 345, 387};
  for (int i = 0; i < 3; ++i) {
    GeodesicExact g(a, 1 - std::ldexp(1.0, -K[i])); double lat2, lon2;
    g.Direct(0, 0, 90, double(a * pi * D[i] / 180), lat2, lon2);                 // D degrees of longitude along the equator
    double err = std::fabs(double((lon2 - (long double) D[i]) * pi / 180 * a)) * 1e9;
    printf("b/a = 1/%d: lon2 = %.15f, expected %d: error %.0f nm (documented about %.0f nm)\n", 1 << K[i], lon2, D[i], err, doc[i]);
    bad += err > 4 * doc[i];
  }
  // observed: 3442 nm, 8100 nm, 58317 nm
  printf(bad ? "FAIL\n" : "PASS\n"); return bad != 0;
}
