#!/bin/sh
# Run notes/C07-mutation-demo.cpp against the unchanged tree and against each missed mutant (scratch worktree, never /repo).
set -e
W=/tmp/mw-C07-demo; B=/tmp/c07-demo; mkdir -p $B/inc/GeographicLib
python3 - <<'PY'
import re
s = open('/verif/tools/vlib.py').read()
open('/tmp/c07-demo/inc/GeographicLib/Config.h', 'w').write(re.search(r'CONFIG_H = """(.*?)"""', s, re.S).group(1))
PY
git -C /repo worktree add -q --detach $W HEAD
build() { g++ -O2 -std=c++17 -ffp-contract=off -I$B/inc -I$W/include /verif/notes/C07-mutation-demo.cpp \
          $W/src/Geocentric.cpp $W/src/LocalCartesian.cpp $W/src/Math.cpp -o $B/demo; }
echo "== unchanged tree"; build; $B/demo
for n in 25 26 27 32 36 13; do
  git -C $W checkout -q -- .; git -C $W apply /verif/mutants/C07-$n.patch; build
  echo "== mutant C07-$n"; $B/demo | grep BAD || true
done
git -C /repo worktree remove --force $W; rm -rf $B
