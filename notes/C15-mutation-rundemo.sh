#!/bin/bash
# Helper used for the C15 mutation campaign (notes/C15-mutation.md).  Never touches /repo (copies the sources it needs).
# usage: C15-mutation-rundemo.sh <patchno|base> <case>...
# Builds notes/C15-mutation-demo.cpp against a private copy of the auxiliary-latitude / ellipsoid / elliptic-function
# sources (optionally with mutants/C15-<n>.patch applied) in /tmp/C15-demo/<n> and runs the named cases.
set -e
n=$1; shift; D=/tmp/C15-demo/$n; V=$(cd "$(dirname "$0")/.." && pwd)
rm -rf $D; mkdir -p $D/src $D/include/GeographicLib
for f in AuxLatitude DAuxLatitude AuxAngle Ellipsoid EllipticFunction Math; do cp /repo/src/$f.cpp $D/src/; done
cp /repo/include/GeographicLib/*.hpp $D/include/GeographicLib/
cat > $D/include/GeographicLib/Config.h <<'EOC'
#define GEOGRAPHICLIB_VERSION_STRING "2.5"
#define GEOGRAPHICLIB_VERSION_MAJOR 2
#define GEOGRAPHICLIB_VERSION_MINOR 5
#define GEOGRAPHICLIB_VERSION_PATCH 0
#define GEOGRAPHICLIB_DATA "/usr/local/share/GeographicLib"
#define GEOGRAPHICLIB_HAVE_LONG_DOUBLE 1
#define GEOGRAPHICLIB_WORDS_BIGENDIAN 0
#define GEOGRAPHICLIB_PRECISION 2
#if !defined(GEOGRAPHICLIB_SHARED_LIB)
#define GEOGRAPHICLIB_SHARED_LIB 0
#endif
EOC
if [ "$n" != base ]; then (cd $D && grep -v '^#' $V/mutants/C15-$n.patch | patch -p1 -s); fi
g++ -O2 -std=c++17 -fno-fast-math -ffp-contract=off -I$D/include $V/notes/C15-mutation-demo.cpp $D/src/*.cpp -o $D/demo
for c in "$@"; do $D/demo $c; done
