// Demonstration inputs for the missed C03 mutants.  Build with build.sh against the unchanged and the mutated sources.
#include <GeographicLib/Geodesic.hpp>
#include <GeographicLib/GeodesicLine.hpp>
#include <GeographicLib/GeodesicExact.hpp>
#include <GeographicLib/GeodesicLineExact.hpp>
#include <cstdio>
#include <cmath>
#include <string>
using namespace GeographicLib;
typedef long double LD;
static const LD PIL = 3.14159265358979323846264338327950288L;

// area between the geodesic segment and the equator from its definition: S12 = int q(phi) dlambda along the line,
// q(phi) = area between the equator and latitude phi per radian of longitude (closed form), dlambda = sin(alpha) ds / (nu cos(phi));
// composite Simpson rule over n intervals in s on positions / azimuths of GeodesicLineExact (no DST, no C4 involved)
static LD q_of(LD a, LD f, LD phi) {
  LD e2 = f * (2 - f), b = a * (1 - f), s = sinl(phi);
  LD t;
  if (e2 == 0) t = 2 * s;
  else if (e2 > 0) { LD e = sqrtl(e2); t = s / (1 - e2 * s * s) + atanhl(e * s) / e; }
  else { LD e = sqrtl(-e2); t = s / (1 - e2 * s * s) + atanl(e * s) / e; }
  return b * b / 2 * t;
}
static LD area_def(double a, double f, double lat1, double lon1, double azi1, double s12, int n) {
  GeodesicExact g(a, f); GeodesicLineExact l = g.Line(lat1, lon1, azi1, GeodesicExact::ALL);
  LD sum = 0, h = (LD)s12 / n, e2 = (LD)f * (2 - (LD)f);
  for (int i = 0; i <= n; ++i) {
    double la, lo, az; l.Position(double(h * i), la, lo, az);
    LD phi = la * PIL / 180, al = az * PIL / 180;
    LD nu = (LD)a / sqrtl(1 - e2 * sinl(phi) * sinl(phi));
    LD v = q_of(a, f, phi) * sinl(al) / (nu * cosl(phi));
    sum += v * (i == 0 || i == n ? 1 : (i % 2 ? 4 : 2));
  }
  return sum * h / 3;
}

int main(int argc, char** argv) {
  std::string w = argc > 1 ? argv[1] : "";
  if (w == "short") {                       // C03-7
    double a = 6378137, f = 1 / 298.257223563;
    Geodesic g(a, f); GeodesicExact e(a, f);
    double lat1 = 60, lon1 = 10, lat2 = 60.0000004, lon2 = 10.000001;
    double s12, z1, z2, m12, M12, M21, S12, Se, t;
    g.GenInverse(lat1, lon1, lat2, lon2, Geodesic::ALL, s12, z1, z2, m12, M12, M21, S12);
    e.GenInverse(lat1, lon1, lat2, lon2, GeodesicExact::ALL, t, t, t, t, t, t, Se);
    double la, lo, az, dS; g.GenDirect(lat1, lon1, z1, false, s12, Geodesic::ALL, la, lo, az, t, t, t, t, dS);
    LD ref = area_def(a, f, lat1, lon1, z1, s12, 64);
    printf("short: s12=%.6f m  S12(Geodesic::Inverse)=%.4f  S12(GeodesicExact::Inverse)=%.4f  S12(Geodesic::Direct along azi1)=%.4f  definition=%.4Lf m^2\n", s12, S12, Se, dS, ref);
    printf("       Inverse - Direct = %.4f m^2   Inverse - definition = %.4Lf m^2\n", S12 - dS, (LD)S12 - ref);
  } else if (w == "f002" || w == "n05" || w == "f") {   // C03-21, C03-22; "f <value>": any flattening
    double a = 6378137, f = w == "f002" ? 0.02 : (w == "f" ? atof(argv[2]) : 2.0 / 3);
    GeodesicExact e(a, f);
    double lat1 = 10, lon1 = 0, azi1 = 50, s12 = 4e6;
    double la, lo, az, t, S12d, S12i;
    e.GenDirect(lat1, lon1, azi1, false, s12, GeodesicExact::ALL, la, lo, az, t, t, t, t, S12d);
    e.GenInverse(lat1, lon1, la, lo, GeodesicExact::ALL, t, t, t, t, t, t, S12i);
    LD r1 = area_def(a, f, lat1, lon1, azi1, s12, 2048), r2 = area_def(a, f, lat1, lon1, azi1, s12, 4096);
    printf("%s: f=%.6f  S12(direct)=%.4f  S12(inverse)=%.4f  definition (Simpson 2048/4096)=%.4Lf / %.4Lf m^2\n", w.c_str(), f, S12d, S12i, r1, r2);
    printf("       direct - definition = %.4Lf m^2   inverse - definition = %.4Lf m^2\n", (LD)S12d - r2, (LD)S12i - r2);
    if (w == "f002") { Geodesic g(a, f); double Sg; g.GenDirect(lat1, lon1, azi1, false, s12, Geodesic::ALL, la, lo, az, t, t, t, t, Sg);
      printf("       series (order 6, truncation ~1e-3 m^2 here) S12=%.4f   exact - series = %.4f m^2\n", Sg, S12d - Sg); }
  } else if (w == "ovl") {                  // C03-30, 31, 32
    double a = 6378137, f = 1 / 298.257223563; Geodesic g(a, f); GeodesicExact e(a, f);
    double lat1 = 20, lon1 = 5, lat2 = 55, lon2 = 80, t;
    double s12, z1, z2, m12, M12, M21, S12; e.GenInverse(lat1, lon1, lat2, lon2, GeodesicExact::ALL, s12, z1, z2, m12, M12, M21, S12);
    double o_m, o_M12, o_M21; e.Inverse(lat1, lon1, lat2, lon2, t, t, t, o_m, o_M12, o_M21);
    printf("GeodesicExact::Inverse(...,m12,M12,M21): M12=%.15f M21=%.15f ; GenInverse(ALL): M12=%.15f M21=%.15f  -> %s\n", o_M12, o_M21, M12, M21,
           (o_M12 == M12 && o_M21 == M21) ? "PASS" : "FAIL");
    GeodesicLineExact le = e.Line(lat1, lon1, z1); double pm = -12345, la, lo, az, fm, fM12, fM21, fS;
    le.GenPosition(false, s12, GeodesicLineExact::ALL, la, lo, az, t, fm, fM12, fM21, fS);
    le.Position(s12, la, lo, az, pm);
    printf("GeodesicLineExact::Position(s12,lat2,lon2,azi2,m12): m12=%.6f (sentinel -12345) ; GenPosition(ALL): m12=%.6f  -> %s\n", pm, fm, pm == fm ? "PASS" : "FAIL");
    double gz1, gm, gM12, gM21, gS, dm, dM12, dM21, dS; g.GenInverse(lat1, lon1, lat2, lon2, Geodesic::ALL, s12, gz1, t, t, t, t, t);
    g.GenDirect(lat1, lon1, gz1, false, s12, Geodesic::ALL, la, lo, az, t, gm, gM12, gM21, gS);
    g.Direct(lat1, lon1, gz1, s12, la, lo, az, dm, dM12, dM21, dS);
    printf("Geodesic::Direct(...,m12,M12,M21,S12): M12=%.15f M21=%.15f ; GenDirect(ALL): M12=%.15f M21=%.15f  -> %s\n", dM12, dM21, gM12, gM21,
           (dM12 == gM12 && dM21 == gM21 && dm == gm && dS == gS) ? "PASS" : "FAIL");
  } else if (w == "xflag") {                // C03-37, C03-38: Geodesic(a, f, exact = true) against GeodesicExact
    double a = 6378137, f = 1 / 298.257223563; Geodesic gx(a, f, true); GeodesicExact e(a, f);
    double lat1 = 20, lon1 = 5, lat2 = 55, lon2 = 80, t;
    double s12, z1, z2, m12, M12, M21, S12; e.GenInverse(lat1, lon1, lat2, lon2, GeodesicExact::ALL, s12, z1, z2, m12, M12, M21, S12);
    double xM12, xM21; gx.GenInverse(lat1, lon1, lat2, lon2, Geodesic::ALL, t, t, t, t, xM12, xM21, t);
    printf("Geodesic(exact=true)::GenInverse: M12=%.15f M21=%.15f ; GeodesicExact: M12=%.15f M21=%.15f  -> %s\n", xM12, xM21, M12, M21, (xM12 == M12 && xM21 == M21) ? "PASS" : "FAIL");
    GeodesicLine lx = gx.Line(lat1, lon1, z1); double la, lo, az, lM12, lM21; lx.GenPosition(false, s12, GeodesicLine::ALL, la, lo, az, t, t, lM12, lM21, t);
    double pM12, pM21; lx.Position(s12, la, lo, az, pM12, pM21);
    printf("Geodesic(exact=true).Line().GenPosition: M12=%.15f M21=%.15f ; Position(...,M12,M21): M12=%.15f M21=%.15f -> %s\n", lM12, lM21, pM12, pM21,
           (std::fabs(lM12 - M12) < 1e-13 && std::fabs(lM21 - M21) < 1e-13 && pM12 == lM12 && pM21 == lM21) ? "PASS" : "FAIL");
  }
  return 0;
}
