// Accumulator::remainder(y) is documented "Reduce accumulator to the range [-y/2, y/2]" (Accumulator.hpp) but reduces
// only the high word _s: whenever the low word _t is not zero the result can lie outside the range.
// Build: g++ -std=c++17 -I/repo/include -I<dir with GeographicLib/Config.h> C16-remainder-repro.cpp /repo/src/Math.cpp -o repro
#include <GeographicLib/Accumulator.hpp>
#include <cstdio>
using GeographicLib::Accumulator;
int main() {
  int bad = 0;
  { Accumulator<double> a(3.0); a += -67108863.0 * 1073741824.0;      // sum = 3 - 67108863 * 2^30 = 0 (mod 3)
    a.remainder(3.0);                                                  // documented: in [-1.5, 1.5] -> must be 0
    std::printf("remainder(3)   -> %.17g  (expected 0, documented range [-1.5, 1.5])\n", a());
    bad += !(a() >= -1.5 && a() <= 1.5); }
  { Accumulator<double> a; a += 1e20; a += 300.0;                      // sum = 1e20 + 300, = 220 (mod 360)
    a.remainder(360.0);
    std::printf("remainder(360) -> %.17g  (documented range [-180, 180])\n", a());
    bad += !(a() >= -180 && a() <= 180); }
  { Accumulator<float> a(3.0f); a += -4095.0f * 32768.0f;              // float: sum = 3 - 4095 * 2^15 = 0 (mod 3)
    a.remainder(3.0f);
    std::printf("float remainder(3) -> %.9g  (expected 0)\n", double(a()));
    bad += !(a() >= -1.5f && a() <= 1.5f); }
  std::printf(bad ? "OUT OF DOCUMENTED RANGE: %d of 3\n" : "ok\n", bad);
  return bad ? 1 : 0;
}
// After the repair 2e10a15 (both words reduced) one edge remains: the high word lands exactly on -+y/2 and a low word of
// the same sign survives:  Accumulator<double> a; a += 540.0; a += -ldexp(1.0, -60); a.remainder(360.0);
// holds -180 - 2^-60 (hi = -180, lo = -8.67e-19), outside [-180, 180]; the exact answer is 180 - 2^-60.
