// Demonstrations for the C01 mutation campaign (notes/C01-mutation.md): each case prints the values of two documented-equal
// computations and PASS/FAIL.  usage: demo <case>
#include <GeographicLib/Geodesic.hpp>
#include <GeographicLib/GeodesicLine.hpp>
#include <GeographicLib/GeodesicExact.hpp>
#include <GeographicLib/GeodesicLineExact.hpp>
#include <cstdio>
#include <cmath>
#include <string>
using namespace GeographicLib;
using namespace std;

static int verdict(const char* what, double a, double b, double tol) {
  bool ok = fabs(a - b) <= tol;
  printf("  %-28s %.12f vs %.12f  |diff| = %.3e  %s\n", what, a, b, fabs(a - b), ok ? "ok" : "DIFFERS");
  return ok ? 0 : 1;
}

int main(int argc, char** argv) {
  string c = argc > 1 ? argv[1] : "";
  const Geodesic& g = Geodesic::WGS84();
  const GeodesicExact& e = GeodesicExact::WGS84();
  int bad = 0;
  if (c == "arcdirectline") {        // Geodesic::ArcDirectLine(40, 10, 30, a12 = 60): the line's point 3 is the ArcDirect end point
    double lat2, lon2, azi2, s12, la, lo;
    g.ArcDirect(40, 10, 30, 60, lat2, lon2, azi2, s12);
    GeodesicLine l = g.ArcDirectLine(40, 10, 30, 60);
    l.Position(l.Distance(), la, lo);
    bad += verdict("Arc()", l.Arc(), 60, 1e-12);
    bad += verdict("Distance() vs ArcDirect s12", l.Distance(), s12, 1e-8);
    bad += verdict("lat at Distance()", la, lat2, 1e-12);
    bad += verdict("lon at Distance()", lo, lon2, 1e-12);
  } else if (c == "exactdirectline") { // GeodesicExact::DirectLine / ArcDirectLine (40, 10, 30, 1000 km): point 3 is the Direct end point
    double lat2, lon2, la, lo, az;
    e.Direct(40, 10, 30, 1e6, lat2, lon2);
    GeodesicLineExact l = e.DirectLine(40, 10, 30, 1e6);
    l.Position(l.Distance(), la, lo);
    bad += verdict("lat at Distance()", la, lat2, 1e-12);
    bad += verdict("lon at Distance()", lo, lon2, 1e-12);
    GeodesicLineExact l2 = e.ArcDirectLine(40, 10, 30, 9);
    e.ArcDirect(40, 10, 30, 9, lat2, lon2); l2.ArcPosition(9, la, lo);
    bad += verdict("ArcDirectLine lat", la, lat2, 1e-12);
    bad += verdict("ArcDirectLine lon", lo, lon2, 1e-12);
    l.Position(0, la, lo, az);
    bad += verdict("azimuth at s = 0", az, 30, 1e-12);
  } else if (c == "exactarcdirect2") { // GeodesicExact::ArcDirect(…, lat2, lon2) overload against the full overload
    double lat2, lon2, la, lo, az, s12;
    e.ArcDirect(40, 10, 30, 60, la, lo);
    e.ArcDirect(40, 10, 30, 60, lat2, lon2, az, s12);
    bad += verdict("lat2", la, lat2, 1e-12);
    bad += verdict("lon2", lo, lon2, 1e-12);
  } else if (c == "lineposition2") {   // GeodesicLine::Position(s12, lat2, lon2) overload against Position(s12, lat2, lon2, azi2)
    double lat2, lon2, la, lo, az;
    GeodesicLine l = g.Line(40, 10, 30);
    l.Position(1e6, la, lo);
    l.Position(1e6, lat2, lon2, az);
    bad += verdict("lat2", la, lat2, 1e-12);
    bad += verdict("lon2", lo, lon2, 1e-12);
  } else if (c == "exacttrueline") {   // Geodesic(a, f, exact = true).Line(40, 10, 30).ArcPosition(60) against ArcDirect of the same object
    Geodesic gx(Constants::WGS84_a(), Constants::WGS84_f(), true);
    double lat2, lon2, azi2, s12, la, lo, az, s;
    gx.ArcDirect(40, 10, 30, 60, lat2, lon2, azi2, s12);
    GeodesicLine l = gx.Line(40, 10, 30);
    l.ArcPosition(60, la, lo, az, s);
    bad += verdict("lat2", la, lat2, 1e-12);
    bad += verdict("lon2", lo, lon2, 1e-12);
    bad += verdict("azi2", az, azi2, 1e-12);
    bad += verdict("s12", s, s12, 1e-8);
  } else if (c == "einvcap") {         // exact solver, distance -> arc -> distance round trip (s12 given, a12 returned, ArcDirect(a12) returns s12 again)
    unsigned long long st = 777;
    auto rnd = [&]() { st = st * 6364136223846793005ULL + 1442695040888963407ULL; return double(st >> 11) / 9007199254740992.0; };
    double fs[] = {1 / 298.257223563, 0.02, -0.02, 0.1, 0.3, 0.5, -0.5, -1.0};
    for (double f : fs) {
      GeodesicExact ge(6378137, f); double worst = 0, w[4] = {0, 0, 0, 0};
      for (int k = 0; k < 2000; ++k) {
        double lat1 = -90 + 180 * rnd(), azi1 = -180 + 360 * rnd(), s = (2 * rnd() - 1) * 4e7, la, lo, az, s2, t;
        double a12 = ge.Direct(lat1, 0, azi1, s, la, lo);
        ge.ArcDirect(lat1, 0, azi1, a12, la, lo, az, s2);
        double d = fabs(s2 - s) * 1e9; if (d > worst) { worst = d; w[0] = lat1; w[1] = azi1; w[2] = s; w[3] = s2; } (void) t;
      }
      printf("  f = %-10g b/a = %-6g max |s12(ArcDirect(a12(Direct(s12)))) - s12| = %12.1f nm  at lat1 = %.10f azi1 = %.10f s12 = %.6f (returned %.6f)\n", f, 1 - f, worst, w[0], w[1], w[2], w[3]);
      if (worst > 1000) ++bad;
    }
  } else if (c == "dump") {           // dump fs... : fixed pseudo-random direct problems, all digits (compare base vs mutant with cmp.py)
    unsigned long long st = 12345;
    auto rnd = [&]() { st = st * 6364136223846793005ULL + 1442695040888963407ULL; return double(st >> 11) / 9007199254740992.0; };
    for (int i = 2; i < argc; ++i) {
      double f = atof(argv[i]); Geodesic gs(6378137, f); GeodesicExact ge(6378137, f);
      for (int k = 0; k < 400; ++k) {
        double lat1 = -90 + 180 * rnd(), lon1 = -180 + 360 * rnd(), azi1 = -180 + 360 * rnd(), s = (2 * rnd() - 1) * 4e7, a = s / 111e3;
        if (k % 10 == 0) lat1 = k % 20 ? 90 : -90; if (k % 10 == 1) azi1 = 90 * (k % 4); if (k % 10 == 2) { lat1 = 0; azi1 = k % 20 == 2 ? 90 : -90; }
        for (int sol = 0; sol < 2; ++sol) for (int arc = 0; arc < 2; ++arc) {
          double lat2, lon2, azi2, s12, m, M1, M2, S, a12;
          if (sol == 0) a12 = gs.GenDirect(lat1, lon1, azi1, arc, arc ? a : s, Geodesic::ALL, lat2, lon2, azi2, s12, m, M1, M2, S);
          else a12 = ge.GenDirect(lat1, lon1, azi1, arc, arc ? a : s, GeodesicExact::ALL, lat2, lon2, azi2, s12, m, M1, M2, S);
          printf("%g %d %d %d %.17g %.17g %.17g %.17g %.17g %.17g %.17g %.17g %.17g\n", f, k, sol, arc, lat1, lon1, azi1, arc ? a : s, lat2, lon2, azi2, s12, a12);
        }
      }
    }
    return 0;
  } else { fprintf(stderr, "unknown case\n"); return 2; }
  printf("%s %s\n", c.c_str(), bad ? "FAIL" : "PASS");
  return bad ? 1 : 0;
}
