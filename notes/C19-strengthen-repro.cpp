// Reproducer for the known finding sh-general-layout-n1-gt-n (C19 strengthening pass).
// SphericalHarmonic1.hpp / SphericalHarmonic2.hpp, general constructor: "@exception GeographicErr if the parameters do not satisfy
// N >= nmx >= mmx >= -1; N1 >= nmx1 >= mmx1 >= -1; N >= N1; nmx >= nmx1; mmx >= mmx1" - N >= N1 is not checked.
// Build: g++ -I/repo/include -I<dir with GeographicLib/Config.h> C19-strengthen-repro.cpp libgeo.a
// Output on the unchanged tree:  general ctor N=1 N1=4 nmx1=1: accepted, value 1.3691964232045255
//                                simple ctor N=1 N1=4: GeographicErr N1 cannot be larger that N
#include <GeographicLib/SphericalHarmonic1.hpp>
#include <GeographicLib/SphericalHarmonic2.hpp>
#include <cstdio>
using namespace GeographicLib; using namespace std;
int main() {
  vector<double> C(3, 1.0), S(1, 1.0);            // N = 1 full triangle: C00 C10 C11, S11
  vector<double> C1(15, 0.5), S1(10, 0.5);        // N1 = 4 full triangle
  try { SphericalHarmonic1 h(C, S, 1, 1, 1, C1, S1, 4, 1, 1, 1.0, SphericalHarmonic1::SCHMIDT);
        printf("general ctor N=1 N1=4 nmx1=1: accepted, value %.17g\n", h(1.0, 1.2, -0.7, 0.9)); }
  catch (const GeographicErr& e) { printf("general ctor N=1 N1=4: GeographicErr %s\n", e.what()); }
  try { SphericalHarmonic1 h(C, S, 1, C1, S1, 4, 1.0); printf("simple ctor accepted\n"); }
  catch (const GeographicErr& e) { printf("simple ctor N=1 N1=4: GeographicErr %s\n", e.what()); }
}
