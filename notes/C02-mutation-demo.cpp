// demo: concrete failing inputs for the missed C02 mutants (prints PASS on the unchanged sources)
#include <GeographicLib/Geodesic.hpp>
#include <GeographicLib/GeodesicLine.hpp>
#include <GeographicLib/GeodesicExact.hpp>
#include <GeographicLib/GeodesicLineExact.hpp>
#include <cstdio>
#include <cmath>
using namespace GeographicLib;
static int fails = 0;
static void chk(const char* what, bool ok) { printf("%-74s %s\n", what, ok ? "PASS" : "FAIL"); if (!ok) ++fails; }
static double dz(double a, double b) { double d = fabs(remainder(a - b, 360.0)); return d; }
int main() {
  const Geodesic& g = Geodesic::WGS84(); GeodesicExact e(Constants::WGS84_a(), Constants::WGS84_f());
  // (A) InverseLine on an ellipsoid: Distance() = s12, Arc() = a12, Position(Distance()) = point 2
  { double lat1 = 40.64, lon1 = -73.78, lat2 = 1.36, lon2 = 103.99, s12, a1, a2;
    double a12 = g.Inverse(lat1, lon1, lat2, lon2, s12, a1, a2);
    GeodesicLine l = g.InverseLine(lat1, lon1, lat2, lon2); double la, lo; l.Position(l.Distance(), la, lo);
    printf("   series InverseLine: Distance %.6f (s12 %.6f)  Arc %.12f (a12 %.12f)  end (%.9f, %.9f)\n", l.Distance(), s12, l.Arc(), a12, la, lo);
    chk("A1 Geodesic::InverseLine Distance() == s12", fabs(l.Distance() - s12) < 1e-6);
    chk("A2 Geodesic::InverseLine Arc() == a12", fabs(l.Arc() - a12) < 1e-11);
    chk("A3 Geodesic::InverseLine Position(Distance()) == point 2", fabs(la - lat2) < 1e-9 && dz(lo, lon2) < 1e-9);
    GeodesicLineExact le = e.InverseLine(lat1, lon1, lat2, lon2); double s12e, a1e, a2e; e.Inverse(lat1, lon1, lat2, lon2, s12e, a1e, a2e); le.Position(le.Distance(), la, lo);
    chk("A4 GeodesicExact::InverseLine Distance()/end point/azimuth", fabs(le.Distance() - s12e) < 1e-6 && fabs(la - lat2) < 1e-9 && dz(lo, lon2) < 1e-9 && dz(le.Azimuth(), a1e) < 1e-9); }
  // (B) overloads
  { double lat1 = 10, lon1 = 20, lat2 = -35, lon2 = 140, s12, a1, a2, b1, b2, s;
    g.Inverse(lat1, lon1, lat2, lon2, s12, a1, a2); g.Inverse(lat1, lon1, lat2, lon2, b1, b2);
    printf("   Geodesic::Inverse(...,azi1,azi2) = (%.9f, %.9f), full call (%.9f, %.9f)\n", b1, b2, a1, a2);
    chk("B1 Geodesic::Inverse(lat1,lon1,lat2,lon2,azi1,azi2) == full call", b1 == a1 && b2 == a2);
    double se; e.Inverse(lat1, lon1, lat2, lon2, se, a1, a2); s = -12345; e.Inverse(lat1, lon1, lat2, lon2, s);
    printf("   GeodesicExact::Inverse(...,s12) = %.6f, full call %.6f\n", s, se);
    chk("B2 GeodesicExact::Inverse(lat1,lon1,lat2,lon2,s12) == full call", s == se);
    g.Inverse(lat1, lon1, lat2, lon2, s12, a1, a2); s = -12345; g.Inverse(lat1, lon1, lat2, lon2, s);
    chk("B3 Geodesic::Inverse(lat1,lon1,lat2,lon2,s12) == full call", s == s12);
    e.Inverse(lat1, lon1, lat2, lon2, se, a1, a2); e.Inverse(lat1, lon1, lat2, lon2, b1, b2);
    chk("B4 GeodesicExact::Inverse(lat1,lon1,lat2,lon2,azi1,azi2) == full call", b1 == a1 && b2 == a2); }
  // (C) GeodesicExact on a very eccentric ellipsoid (documented range f in [-99, 0.99]): closure through the direct problem
  { const double fs[] = {0.5, -1, 0.75, -3, 0.9}; double worst = 0;
    const double P[][4] = {{51.465522389825594, -101.22433320965841, 65.578348211230178, 155.37691066560626}, {0, -80.892622743396061, 0, -37.364397165019653}, {-30, 0, 29.5, 179.5}, {20, 10, -19, -168}};
    for (double f : fs) for (auto& p : P) { GeodesicExact x(6378137.0, f); double s12, a1, a2, la, lo;
      x.Inverse(p[0], p[1], p[2], p[3], s12, a1, a2); x.Direct(p[0], p[1], a1, s12, la, lo);
      double d = hypot(la - p[2], dz(lo, p[3]) * cos(p[2] * Math::degree())); if (!(d <= worst)) worst = d;
      if (!(d < 1e-8)) printf("   f=%g (%g,%g)->(%g,%g): s12=%.3f azi1=%.9f, Direct lands %.3g deg away\n", f, p[0], p[1], p[2], p[3], s12, a1, d); }
    chk("C1 GeodesicExact inverse closes through direct for f in {0.5,-1,0.75,-3,0.9}", worst < 1e-8); }
  // (D) end points on the same parallel / mirror parallels (lat2 = +-lat1), generic longitude difference
  { double worst = 0;
    const double P[][4] = {{15.37991645330294, -178.91348436645538, 15.37991645330294, -175.75298598834939}, {-86.162339554418224, 81.579315939922708, 86.162339554418224, -52.033356111894847}, {40, 0, 40, 60}, {-33, 10, 33, 100}};
    for (int k = 0; k < 2; ++k) for (auto& p : P) { double s12, a1, a2, la, lo, az;
      if (k == 0) { g.Inverse(p[0], p[1], p[2], p[3], s12, a1, a2); g.Direct(p[0], p[1], a1, s12, la, lo, az); }
      else { e.Inverse(p[0], p[1], p[2], p[3], s12, a1, a2); e.Direct(p[0], p[1], a1, s12, la, lo, az); }
      double d = fmax(hypot(la - p[2], dz(lo, p[3]) * cos(p[2] * Math::degree())), dz(az, a2)); if (!(d <= worst)) worst = d;
      if (!(d < 1e-8)) printf("   %s (%g,%g)->(%g,%g): azi2=%.9f but the direct problem arrives with azimuth %.9f\n", k ? "exact" : "series", p[0], p[1], p[2], p[3], a2, az); }
    chk("D1 lat2 = +-lat1: returned azi2 is the forward azimuth at point 2", worst < 1e-8); }
  printf(fails ? "%d FAIL\n" : "ALL PASS\n", fails);
  return fails ? 1 : 0;
}
