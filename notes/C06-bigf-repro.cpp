// C06 strengthening pass: TransverseMercatorExact::Reverse does not converge for f = 0.1 on a band of the grid plane
// (1.25 < x / (k0 a (K(1-e^2) - E(1-e^2))) <= 1.262, 0.61 <= y / (k0 a E(e^2)) <= 0.94); f <= 0.09 is not affected.
// g++ -std=c++17 -I/repo/include -I<dir with GeographicLib/Config.h> C06-bigf-repro.cpp libgeo.a
#include <GeographicLib/TransverseMercatorExact.hpp>
#include <cstdio>
#include <cmath>
using namespace GeographicLib;
int main() {
  const TransverseMercatorExact T(6378137, 0.1, 1);
  const double x = 8885000, y = 6600000;          // metres; eta / B = 1.2552, xi / E = 0.6920
  double lat, lon, g, k, x2, y2, lat3, lon3;
  T.Reverse(0, x, y, lat, lon, g, k);
  T.Forward(0, lat, lon, x2, y2, g, k);
  T.Reverse(0, x2, y2, lat3, lon3, g, k);
  std::printf("Reverse(%.0f, %.0f) = lat %.12f lon %.12f\n", x, y, lat, lon);
  std::printf("Forward of that     = %.6f %.6f   (misses the grid point by %.6f m; documented: about 8 nm)\n", x2, y2, std::hypot(x2 - x, y2 - y));
  std::printf("Reverse of that     = lat %.12f lon %.12f\n", lat3, lon3);
  const TransverseMercatorExact U(6378137, 0.09, 1);   // same grid point, f = 0.09: closes to nanometres
  U.Reverse(0, x, y, lat, lon, g, k); U.Forward(0, lat, lon, x2, y2, g, k);
  std::printf("f = 0.09: Forward(Reverse) misses by %.3g m\n", std::hypot(x2 - x, y2 - y));
  return 0;
}
