// Demonstration inputs for the MISSED mutants of the C11 mutation campaign (notes/C11-mutation.md).
// Built by notes/C11-mutation-rundemo.sh against a private copy of the sources (optionally patched); never touches /repo.
// Every line prints what the documentation requires ("want") next to what the library returns.
#include <GeographicLib/PolarStereographic.hpp>
#include <GeographicLib/LambertConformalConic.hpp>
#include <GeographicLib/AlbersEqualArea.hpp>
#include <cstdio>
#include <cmath>
#include <limits>
#include <string>
using namespace GeographicLib;
using namespace std;
template<class F> static const char* guarded(F f) { try { f(); return "ok"; } catch (const GeographicErr&) { return "throw"; } }
int main() {
  const double a = Constants::WGS84_a(), f = Constants::WGS84_f(), inf = numeric_limits<double>::infinity(), nan = Math::NaN();
  { // 15: PS Reverse at the pole returns the central scale
    PolarStereographic P(a, f, 0.994); double lat, lon, g, k; P.Reverse(true, 0, 0, lat, lon, g, k);
    printf("15 PS(k0=0.994).Reverse(north,0,0): lat=%.17g k=%.17g want k=0.994\n", lat, k);
    double x, y, g1, k1; P.Forward(false, -90, 33, x, y, g1, k1); P.Reverse(false, x, y, lat, lon, g, k);
    printf("15 PS(k0=0.994) south pole round trip: Forward k=%.17g Reverse k=%.17g want equal\n", k1, k); }
  { // 16: Albers azimuthal limit, Reverse at the pole
    AlbersEqualArea A(a, f, 90.0, 2.0); double x, y, g, k, lat, lon, g2, k2; A.Forward(10, 90, 40, x, y, g, k); A.Reverse(10, x, y, lat, lon, g2, k2);
    printf("16 Albers(stdlat=90,k0=2): Forward(90) x=%.3g y=%.3g k=%.17g; Reverse lat=%.17g k=%.17g want k=2\n", x, y, k, lat, k2);
    AlbersEqualArea B(a, f, -1.0, 0.0, -1.0, 0.0, 0.5); B.Forward(0, -90, 0, x, y, g, k); B.Reverse(0, x, y, lat, lon, g2, k2);
    printf("16 Albers(sin=-1,cos=0,k0=0.5): Forward(-90) k=%.17g; Reverse lat=%.17g k=%.17g want k=0.5\n", k, lat, k2); }
  { // 17: LCC short Reverse == long Reverse
    LambertConformalConic L(a, f, 40.0, 1.0); double x, y, lat, lon, lat2, lon2, g, k; L.Forward(-100, 35, -80, x, y);
    L.Reverse(-100, x, y, lat, lon, g, k); L.Reverse(-100, x, y, lat2, lon2);
    printf("17 LCC(40).Reverse long: lat=%.15g lon=%.15g  short: lat=%.15g lon=%.15g want equal (35, -80)\n", lat, lon, lat2, lon2); }
  { // 18: Albers short Forward == long Forward
    AlbersEqualArea A(a, f, 40.0, 1.0); double x, y, x2, y2, g, k; A.Forward(-100, 35, -80, x, y, g, k); A.Forward(-100, 35, -80, x2, y2);
    printf("18 Albers(40).Forward(lon0=-100,35,-80) long: x=%.10g y=%.10g  short: x=%.10g y=%.10g want equal\n", x, y, x2, y2); }
  // 19..21, 39: documented exceptions
  printf("19 LCC(a,f,30,40,k1=inf): %s want throw\n", guarded([&] { LambertConformalConic L(a, f, 30.0, 40.0, inf); }));
  printf("19 LCC(a,f,30,k0=inf): %s want throw (one-parallel form, control)\n", guarded([&] { LambertConformalConic L(a, f, 30.0, inf); }));
  printf("20 Albers(a,f=1,sin30,cos30,sin40,cos40,1): %s want throw\n", guarded([&] { AlbersEqualArea A(a, 1.0, 0.5, sqrt(0.75), sin(40 * Math::degree()), cos(40 * Math::degree()), 1.0); }));
  printf("20 Albers(a,f=1,30,1): %s want throw (one-parallel form, control)\n", guarded([&] { AlbersEqualArea A(a, 1.0, 30.0, 1.0); }));
  { double l0 = 0, c0 = 0; const char* r = guarded([&] { LambertConformalConic L(a, f, nan, 1.0); l0 = L.OriginLatitude(); c0 = L.CentralScale(); });
    printf("21 LCC(a,f,stdlat=NaN,1): %s (OriginLatitude=%g CentralScale=%g) want throw\n", r, l0, c0); }
  printf("21 LCC(a,f,NaN,NaN,1): %s want throw (two-parallel form, control)\n", guarded([&] { LambertConformalConic L(a, f, nan, nan, 1.0); }));
  { double l0 = 0; const char* r = guarded([&] { AlbersEqualArea A(a, f, 0.5, sqrt(0.75), 0.5, nan, 1.0); l0 = A.OriginLatitude(); });
    printf("39 Albers(a,f,0.5,0.866,sin=0.5,cos=NaN,1): %s (OriginLatitude=%g) want throw\n", r, l0); }
  printf("39 Albers(a,f,sin=0.5,cos=NaN,0.5,0.866,1): %s want throw (first pair, control)\n", guarded([&] { AlbersEqualArea A(a, f, 0.5, nan, 0.5, sqrt(0.75), 1.0); }));
  { // 23: a SetScale call that throws leaves the object unchanged
    PolarStereographic P(a, f, 0.994); const char* r = guarded([&] { P.SetScale(-90, 1.0); });
    printf("23 PS(k0=0.994).SetScale(-90,1): %s, CentralScale afterwards=%.17g want throw, 0.994\n", r, P.CentralScale());
    PolarStereographic Q(a, f, 0.994); r = guarded([&] { Q.SetScale(60, -1.0); });
    printf("23 PS(k0=0.994).SetScale(60,-1): %s, CentralScale afterwards=%.17g want throw, 0.994\n", r, Q.CentralScale()); }
  return 0;
}
