// Demonstrations for the MISSED mutants of the C14 mutation campaign.
// usage: demo <case>     (built with -fsanitize=thread; a data race is reported by TSan on stderr)
// Each case runs one const entry point from NT threads that start together, first touch inside the threads,
// every thread with its own inputs, and afterwards compares every result with the same call executed alone.
#include <GeographicLib/Geodesic.hpp>
#include <GeographicLib/DST.hpp>
#include <GeographicLib/AlbersEqualArea.hpp>
#include <GeographicLib/Geocentric.hpp>
#include <GeographicLib/LocalCartesian.hpp>
#include <GeographicLib/NormalGravity.hpp>
#include <GeographicLib/AuxLatitude.hpp>
#include <GeographicLib/MagneticModel.hpp>
#include <GeographicLib/MagneticCircle.hpp>
#include <GeographicLib/SphericalHarmonic.hpp>
#include <GeographicLib/Geoid.hpp>
#include <GeographicLib/UTMUPS.hpp>
#include <GeographicLib/DMS.hpp>
#include <GeographicLib/OSGB.hpp>
#include <GeographicLib/GARS.hpp>
#include <GeographicLib/Georef.hpp>
#include <GeographicLib/EllipticFunction.hpp>
#include <atomic>
#include <cmath>
#include <cstring>
#include <cstdio>
#include <fstream>
#include <functional>
#include <memory>
#include <string>
#include <thread>
#include <vector>
#include <sys/stat.h>
using namespace GeographicLib; using namespace std;
typedef vector<double> V;

static bool same(const V& a, const V& b) {
  if (a.size() != b.size()) return false;
  for (size_t i = 0; i < a.size(); ++i) if (memcmp(&a[i], &b[i], 8) != 0 && !(std::isnan(a[i]) && std::isnan(b[i]))) return false;
  return true;
}
static int run(const function<V(int, int)>& f, int nt = 4, int iters = 300) {
  vector<vector<V>> res(nt, vector<V>(iters)); atomic<int> ready(0); vector<thread> th;
  for (int t = 0; t < nt; ++t) th.emplace_back([&, t] { ready.fetch_add(1); while (ready.load() < nt) { } for (int i = 0; i < iters; ++i) res[t][i] = f(t, i); });
  for (auto& x : th) x.join();
  int bad = 0; for (int t = 0; t < nt; ++t) for (int i = 0; i < iters; ++i) if (!same(res[t][i], f(t, i))) { if (!bad) printf("first mismatch: thread %d iteration %d: concurrent %.17g alone %.17g\n", t, i, res[t][i][0], f(t, i)[0]); ++bad; }
  printf("mismatches=%d of %d\n", bad, nt * iters); return bad;
}
static void put_i32(string& f, int v) { for (int i = 0; i < 4; ++i) f.push_back(char(((unsigned) v) >> (8 * i))); }
static void put_f64(string& f, double v) { unsigned long long u; memcpy(&u, &v, 8); for (int i = 0; i < 8; ++i) f.push_back(char(u >> (8 * i))); }
static unsigned long long lcg = 12345;
static double uni() { lcg = lcg * 6364136223846793005ULL + 1442695040888963407ULL; return double(lcg >> 11) / 9007199254740992.0 * 2 - 1; }
static void put_set(string& f, int N, int M, double scale) {
  put_i32(f, N); put_i32(f, M); int cs = (M + 1) * (2 * N - M + 2) / 2, ss = cs - (N + 1);
  for (int i = 0; i < cs; ++i) put_f64(f, i == 0 ? 0.0 : uni() * scale);
  for (int i = 0; i < ss; ++i) put_f64(f, uni() * scale);
}

int main(int argc, char** argv) {
  string c = argc > 1 ? argv[1] : ""; string dir = "/tmp/C14-demo/data"; mkdir(dir.c_str(), 0755);
  if (c == "3")        // Geodesic::WGS84() first touched concurrently
    return run([](int t, int i) { double s; Geodesic::WGS84().Inverse(10.0 + t, 20.0, -30.0 + i * 0.01, 140.0, s); return V{s}; }, 4, 20);
  if (c == "4")        // nearly antipodal inverse problems on a shared Geodesic (InverseStart -> Astroid)
    { Geodesic g(6378137.0, 1 / 298.257223563); return run([&](int t, int i) { double s, a1, a2; g.Inverse(-1.0 - 0.1 * t, 0.0, 1.3 + 0.001 * i, 179.6 - 0.05 * t, s, a1, a2); return V{s, a1, a2}; }); }
  if (c == "8")        // DST::refine on a shared DST
    { DST d(48); return run([&](int t, int i) { vector<double> F(96); auto f = [=](double x) { return sin(x) + 0.01 * (t + 1) * sin(3 * x) + 0.001 * i * sin(5 * x); }; d.transform(f, F.data()); d.refine(f, F.data()); return V{F[0], F[1], F[2], F[50], F[95]}; }); }
  if (c == "16")       // AlbersEqualArea::AzimuthalEqualAreaNorth() first touched concurrently
    return run([](int t, int i) { double x, y; AlbersEqualArea::AzimuthalEqualAreaNorth().Forward(0.0, 60.0 + t, 10.0 + 0.1 * i, x, y); return V{x, y}; }, 4, 20);
  if (c == "17")       // Geocentric::WGS84() first touched concurrently
    return run([](int t, int i) { double X, Y, Z; Geocentric::WGS84().Forward(40.0 + t, 20.0 + 0.1 * i, 1000.0, X, Y, Z); return V{X, Y, Z}; }, 4, 20);
  if (c == "18")       // NormalGravity::GRS80() first touched concurrently
    return run([](int t, int i) { return V{NormalGravity::GRS80().SurfaceGravity(30.0 + t + 0.1 * i)}; }, 4, 20);
  if (c == "21")       // LocalCartesian::Forward / Reverse overloads returning the rotation matrix
    { LocalCartesian l(48.0, 2.0, 100.0, Geocentric(6378137.0, 1 / 298.257223563)); return run([&](int t, int i) { double x, y, z, la, lo, h; vector<double> M(9), N(9); l.Forward(48.5 + 0.1 * t, 2.5 + 0.01 * i, 200.0, x, y, z, M); l.Reverse(x, y, z, la, lo, h, N); return V{x, y, z, M[0], M[4], M[8], N[1], N[5], la}; }); }
  if (c == "23")       // AuxLatitude::axes(a, b): series conversions on a shared object, first use concurrent
    { AuxLatitude aux(AuxLatitude::axes(6378137.0, 6356752.314245)); return run([&](int t, int i) { V r; for (int a = 0; a < 6; ++a) for (int b = 0; b < 6; ++b) r.push_back(aux.Convert(a, b, 10.0 + t + 0.1 * i, false)); return r; }, 4, 20); }
  if (c == "26" || c == "27") {      // MagneticCircle::FieldGeocentric(lon, ...) on a shared circle / SphericalHarmonic::Circle on a shared harmonic sum
    { ofstream m((dir + "/tsm.wmm").c_str()); m << "WMMF-2\nName tsm\nDescription synthetic\nReleaseDate 2026-01-01\nRadius 6371200\nNumModels 2\nNumConstants 1\nEpoch 2000\nDeltaEpoch 5\n"
        "MinTime 1990\nMaxTime 2030\nMinHeight -1000\nMaxHeight 600000\nNormalization schmidt\nType linear\nByteOrder little\nID THREADSM\n";
      string s = "THREADSM"; put_set(s, 6, 6, 1000); put_set(s, 6, 6, 900); put_set(s, 4, 4, 10); put_set(s, 2, 2, 5);
      ofstream f((dir + "/tsm.wmm.cof").c_str(), ios::binary); f.write(s.data(), streamsize(s.size())); }
    MagneticModel mm("tsm", dir); MagneticCircle mc(mm.Circle(2003.0, 30.0, 1000.0));
    if (c == "26") return run([&](int t, int i) { double bx, by, bz, bxt, byt, bzt; mc.FieldGeocentric(25.0 * t + 0.1 * i, bx, by, bz, bxt, byt, bzt); return V{bx, by, bz, bxt, byt, bzt}; });
    int N = 8; vector<double> C, S; for (int i = 0; i < (N + 1) * (N + 2) / 2; ++i) C.push_back(uni()); for (int i = 0; i < N * (N + 1) / 2; ++i) S.push_back(uni());
    SphericalHarmonic sh(C, S, N, 6378137.0);
    return run([&](int t, int i) { CircularEngine ce = sh.Circle(7.0e6 + 1000.0 * t, 2.0e6 + 100.0 * i, true); double gx, gy, gz; double v = ce(33.0, gx, gy, gz); return V{v, gx, gy, gz}; });
  }
  if (c == "30") {     // thread-safe cubic Geoid: every thread walks its own sequence of cells, revisiting each cell twice
    { ofstream f((dir + "/tsgeoid.pgm").c_str(), ios::binary); f << "P5\n# Offset -108\n# Scale 0.25\n36 19\n65535\n";
      for (int i = 0; i < 36 * 19; ++i) { unsigned v = unsigned((i * 7919) % 5000); f.put(char(v >> 8)); f.put(char(v & 255)); } }
    Geoid g("tsgeoid", dir, true, true);
    return run([&](int t, int i) { double la = -80.0 + ((i / 2) * 7 + t * 3) % 160, lo = ((i / 2) * 13 + t * 50) % 360; return V{g(la + 1.0, lo + 1.0), g(la + 2.0, lo + 3.0)}; }, 4, 20000);
  }
  if (c == "32")       // UTMUPS::EncodeZone
    return run([](int t, int i) { string s = UTMUPS::EncodeZone(1 + (t * 13 + i) % 60, (i + t) % 2 == 0, i % 3 == 0); double h = 0; for (char ch : s) h = h * 131 + ch; return V{h, double(s.size())}; });
  if (c == "35")       // DMS::DecodeLatLon
    return run([](int t, int i) { double la, lo; DMS::DecodeLatLon(to_string(10 + t) + "d" + to_string(i % 60) + "'N", to_string(20 + 2 * t) + "d" + to_string((i * 7) % 60) + "'W", la, lo); return V{la, lo}; });
  if (c == "36")       // OSGB::GridReference(string) (parsing)
    return run([](int t, int i) { char b[32]; snprintf(b, sizeof b, "S%c%03d%03d", "UVWXYZ"[t % 6], (i * 37) % 1000, (i * 91 + t) % 1000); double x, y; int pr; OSGB::GridReference(string(b), x, y, pr); return V{x, y, double(pr)}; });
  if (c == "37")       // GARS::Reverse / Georef::Reverse
    return run([](int t, int i) { string g, r; GARS::Forward(40.0 + t, 10.0 + 0.3 * i, 2, g); Georef::Forward(40.0 + t, 10.0 + 0.3 * i, 4, r); double la, lo, la2, lo2; int p1, p2; GARS::Reverse(g, la, lo, p1); Georef::Reverse(r, la2, lo2, p2); return V{la, lo, la2, lo2}; });
  if (c == "kiss")     // UNCHANGED TREE: DST whose size has a prime factor > 5 -> kissfft::kf_bfly_generic -> shared mutable _scratchbuf
    { DST d(14); return run([&](int t, int i) { vector<double> F(14); auto f = [=](double x) { return sin(x) + 0.01 * (t + 1) * sin(3 * x) + 0.001 * i * sin(5 * x); }; d.transform(f, F.data()); return V{F[0], F[1], F[2], F[13]}; }); }
  fprintf(stderr, "unknown case\n"); return 2;
}
