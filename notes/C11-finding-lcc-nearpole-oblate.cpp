// LambertConformalConic, two distinct standard parallels in degrees, one within 1e-12 degree of a pole (admissible: only an exact
// pole is disallowed), very oblate ellipsoid f >= 1/2: the constructor succeeds but CentralScale() is NaN and Forward returns NaN.
// For f <= 0.45 the same calls give finite values.  Input class "lcc-2par-within-1e-12deg-of-pole-f-ge-half".
#include <GeographicLib/LambertConformalConic.hpp>
#include <cstdio>
#include <cmath>
using namespace GeographicLib;
int main() {
  double ulp_s = std::nextafter(-90.0, 0.0), ulp_n = std::nextafter(90.0, 0.0);
  struct { double f, p1, p2; } C[] = {{0.5, -45, ulp_s}, {0.5, 45, ulp_n}, {0.6, -45, ulp_s}, {0.9, 0, -90 + 1e-12}, {0.45, -45, ulp_s}};
  for (auto& c : C) {
    LambertConformalConic L(6378137, c.f, c.p1, c.p2, 1);
    double x, y, g, k; L.Forward(0, 10, 20, x, y, g, k);
    printf("LCC(6378137, %g, %.17g, %.17g, 1): OriginLatitude %.17g CentralScale %.17g | Forward(0, 10, 20): x = %g y = %g k = %g\n",
           c.f, c.p1, c.p2, L.OriginLatitude(), L.CentralScale(), x, y, k);
  }
}
