#!/bin/bash
# Confirms that a C10 mutant really violates the documented behaviour.
#   notes/C10-mutation-rundemo.sh <n> <test-name>        library mutants: builds notes/C10-mutation-demo.cpp against the mutated
#                                                        DMS.cpp / Utility.cpp / GeoCoords.cpp + headers and runs one test
#   notes/C10-mutation-rundemo.sh <n> tool <Tool> -- <shell command using $TOOL>   tool mutants: builds the mutated tool
# Everything happens in a scratch worktree of /repo under /tmp, removed at the end.  Needs a static library of the
# unchanged sources in $BASE (default /tmp/md-C10/libbase.a, built with: g++ -O1 -c /repo/src/*.cpp; ar rcs) and a Config.h
# directory in $CFG (default /tmp/mb-C10/include, any cmake build of /repo).
set -e
n=$1; shift
BASE=${BASE:-/tmp/md-C10/libbase.a}; CFG=${CFG:-/tmp/mb-C10/include}
W=$(mktemp -d /tmp/mwd-C10-XXXX); rmdir $W
git -C /repo worktree add -q --detach $W HEAD
trap 'git -C /repo worktree remove --force $W; rm -rf $W-bin' EXIT
mkdir -p $W-bin
if [ "$n" != "0" ]; then git -C $W apply /verif/mutants/C10-$n.patch; fi
if [ "$1" = "tool" ]; then
  tool=$2; shift 3
  g++ -O1 -std=c++14 -I$CFG -I$W/include -I/tmp/mb-C10/man $W/tools/$tool.cpp $W/src/DMS.cpp $W/src/Utility.cpp $W/src/GeoCoords.cpp $BASE -o $W-bin/$tool
  TOOL=$W-bin/$tool bash -c "$*"
else
  g++ -O1 -std=c++14 -I$CFG -I$W/include /verif/notes/C10-mutation-demo.cpp $W/src/DMS.cpp $W/src/Utility.cpp $W/src/GeoCoords.cpp $BASE -o $W-bin/demo
  $W-bin/demo "$@"
fi
