#!/bin/bash
# Helper used for the C02 mutation campaign (notes/C02-mutation.md).  Never touches /repo (copies the sources it needs).
# usage: C02-mutation-rundemo.sh <patchno|base>
# Builds notes/C02-mutation-demo.cpp against a private copy of the geodesic sources (optionally with mutants/C02-<n>.patch
# applied) in /tmp/C02-demo/<n> and runs it.  The demo prints PASS for every item on the unchanged sources.
set -e
n=$1; D=/tmp/C02-demo/$n; V=$(cd "$(dirname "$0")/.." && pwd)
rm -rf $D; mkdir -p $D/src $D/include/GeographicLib
for f in Geodesic GeodesicExact GeodesicLine GeodesicLineExact Math EllipticFunction DST; do cp /repo/src/$f.cpp $D/src/; done
cp /repo/src/kissfft.hh $D/src/; cp /repo/include/GeographicLib/*.hpp $D/include/GeographicLib/
cat > $D/include/GeographicLib/Config.h <<'EOC'
#define GEOGRAPHICLIB_VERSION_STRING "2.5"
#define GEOGRAPHICLIB_VERSION_MAJOR 2
#define GEOGRAPHICLIB_VERSION_MINOR 5
#define GEOGRAPHICLIB_VERSION_PATCH 0
#define GEOGRAPHICLIB_DATA "/usr/local/share/GeographicLib"
#define GEOGRAPHICLIB_HAVE_LONG_DOUBLE 1
#define GEOGRAPHICLIB_WORDS_BIGENDIAN 0
#define GEOGRAPHICLIB_PRECISION 2
#if !defined(GEOGRAPHICLIB_SHARED_LIB)
#define GEOGRAPHICLIB_SHARED_LIB 0
#endif
EOC
if [ "$n" != base ]; then (cd $D && grep -v '^#' $V/mutants/C02-$n.patch | patch -p1 -s); fi
g++ -O2 -std=c++17 -fno-fast-math -ffp-contract=off -DGEOGRAPHICLIB_VERIF -I$D/include -I$D/src $V/notes/C02-mutation-demo.cpp $D/src/*.cpp -o $D/demo
$D/demo
