// Demonstration inputs for the MISSED mutants of the C06 mutation campaign (notes/C06-mutation.md).
// Build against a patched scratch tree with notes/C06-mutation-rundemo.sh <patchno|base>.  Never touches /repo.
#include <GeographicLib/TransverseMercator.hpp>
#include <GeographicLib/TransverseMercatorExact.hpp>
#include <cstdio>
#include <cmath>
using namespace GeographicLib;
int main() {
  const double a = Constants::WGS84_a(), f = Constants::WGS84_f(), k0 = Constants::UTM_k0();
  const TransverseMercatorExact& E = TransverseMercatorExact::UTM();
  double e = std::sqrt(f * (2 - f)), lb = 90 * (1 - e);          // the same double as Math::qd * (1 - _e) in the library
  double x, y, g, k, la, lo, g2, k2;
  // C06-21: Forward at the branch point (lat = 0, lon - lon0 = 90 (1 - e)); correct x = 18380953.132139046
  E.Forward(0, 0, lb, x, y, g, k);
  printf("[21] TMExact::UTM().Forward(0, 0, %.17g): x=%.9f y=%.9f\n", lb, x, y);
  // C06-22: Reverse at the image of the branch point; correct lon = 82.636272824164067
  E.Reverse(0, 18380953.132139046, 0, la, lo, g2, k2);
  printf("[22] TMExact::UTM().Reverse(0, 18380953.132139046, 0): lat=%.12g lon=%.15g\n", la, lo);
  // C06-29 / C06-30: the overloads without gamma and k
  TransverseMercator::UTM().Forward(9, 48, 11, x, y, g, k);
  TransverseMercator::UTM().Reverse(9, x, y, la, lo);
  printf("[29] TM::UTM() 5-arg Reverse of Forward(9, 48, 11): lat=%.12f lon=%.12f\n", la, lo);
  E.Forward(9, 48, 11, x, y);
  printf("[30] TMExact::UTM() 5-arg Forward(9, 48, 11): x=%.6f y=%.6f (correct 149187.874961 5318235.613882)\n", x, y);
  // C06-36: lower extended region (extendp = true); correct x=22920868.802955408 y=-48741200.481297269
  TransverseMercatorExact X(a, f, k0, true);
  X.Forward(0, -9, 83, x, y, g, k);
  printf("[36] TMExact(extendp).Forward(0, -9, 83): x=%.6f y=%.6f k=%.9g\n", x, y, k);
  // C06-38: Reverse in the far east, KE < eta <= 1.25 KE, xi >= 0.25 E (image of lat 0.05..0.48, lon 85.45..86.14)
  E.Forward(0, 0.2, 85.8, x, y, g, k);
  E.Reverse(0, x, y, la, lo, g2, k2);
  printf("[38] TMExact::UTM(): Forward(0, 0.2, 85.8) = (%.6f, %.6f); Reverse of it: lat=%.12g lon=%.12g\n", x, y, la, lo);
  int bad = 0, n = 0;
  for (int i = 0; i <= 200; ++i) for (int j = 0; j <= 200; ++j) {
    double lat = i / 200.0, lon = 84 + 4 * j / 200.0;
    E.Forward(0, lat, lon, x, y, g, k); E.Reverse(0, x, y, la, lo, g2, k2); ++n;
    if (std::hypot((la - lat) * 111e3, (lo - lon) * 111e3) > 16e-9) ++bad;
  }
  printf("[38] closure > 16 nm at %d of %d grid points of lat 0..1, lon 84..88\n", bad, n);
}
