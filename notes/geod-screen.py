#!/usr/bin/env python3
"""Development aid for C01-C03 (NOT the official test, which is tools/seedtest.py): screens a library patch quickly.
   notes/geod-screen.py C01 mutants/C01-19.patch [more patches ...]
The obligations of Trace_Geod are stateless (one per trace line), so a trace line that is byte-identical to the line the
unchanged tree produces is accepted exactly when the unchanged line is.  The tool therefore
  1. takes vectors.txt / sym.txt / ovl.txt of the last `./check <prop> --tier quick` run on the unchanged tree (out/<prop>-quick),
  2. builds drv_geod against a scratch worktree of /repo with the patch applied (the kit's content-addressed build),
  3. produces every trace of the property with both drivers and validates ONLY the lines that differ, with the real spec.
Output per patch: identical | missed (n lines changed, 0 rejected) | caught (n rejected, first law)."""
import json, os, re, subprocess, sys, tempfile, shutil
V = os.path.dirname(os.path.dirname(os.path.abspath(__file__)))
sys.path.insert(0, os.path.join(V, 'tools'))
LAWS = {'C01': [('dl', 20000), ('dx', 5000)], 'C02': [('il', 12000), ('ix', 6000)],
        'C03': [('dl', 8000), ('dx', 3000), ('il', 6000), ('ix', 3000), ('al', 10000), ('ax', 3000)]}
prop = sys.argv[1]
base = os.path.join(os.environ.get('VERIF_OUT', os.path.join(V, 'out')), prop + '-quick')
work = '/tmp/geod-screen-%s' % prop
os.makedirs(work, exist_ok=True)


def build(repo):
    code = ("import sys; sys.path.insert(0, %r); import vlib; print(vlib.build_driver('drv_geod', 'plain'))" % os.path.join(V, 'tools'))
    p = subprocess.run([sys.executable, '-c', code], env=dict(os.environ, VERIF_REPO=repo), stdout=subprocess.PIPE, stderr=subprocess.PIPE, universal_newlines=True)
    if p.returncode != 0:
        raise SystemExit('build failed: ' + p.stderr[-2000:])
    return p.stdout.strip().splitlines()[-1]


def traces(exe, tag):
    out = []
    f = os.path.join(work, 'trace-%s.nd' % tag)
    with open(os.path.join(base, 'vectors.txt'), 'rb') as fi, open(f, 'wb') as fo:
        rc = subprocess.run([exe, 'replay', os.path.join(base, 'ovl.txt')], stdin=fi, stdout=fo).returncode
    out.append((f, rc))
    for kind, n in LAWS[prop]:
        f = os.path.join(work, 'trace-%s-%s.nd' % (kind, tag))
        with open(f, 'wb') as fo:
            rc = subprocess.run([exe, 'record', '1', str(n), os.path.join(base, 'sym.txt'), kind, os.path.join(base, 'ovl.txt')], stdout=fo).returncode
        out.append((f, rc))
    return out


import vlib
KNOWN = vlib.load_known()
base_exe = build('/repo')
stamp = os.path.join(work, 'base.stamp')
if os.path.exists(stamp) and open(stamp).read() == base_exe and all(os.path.exists(os.path.join(work, 'trace-%s-base.nd' % k)) for k, n in LAWS[prop]):
    base_tr = [(os.path.join(work, 'trace-base.nd'), 0)] + [(os.path.join(work, 'trace-%s-base.nd' % k), 0) for k, n in LAWS[prop]]
else:
    base_tr = traces(base_exe, 'base')
    open(stamp, 'w').write(base_exe)
cfg = os.path.join(work, 'trace.cfg')
open(cfg, 'w').write('INIT Init\nNEXT Next\nCONSTANTS Prop = "%s"\nPOSTCONDITION Summary\nCHECK_DEADLOCK FALSE\n' % prop)
for patch in sys.argv[2:]:
    patch = os.path.abspath(patch)
    wt = tempfile.mkdtemp(prefix='gs-', dir='/tmp'); os.rmdir(wt)
    subprocess.run(['git', '-C', '/repo', 'worktree', 'add', '-q', '--detach', wt, 'HEAD'], check=True)
    try:
        if subprocess.run(['git', '-C', wt, 'apply', patch]).returncode != 0:
            print('%s: PATCH DOES NOT APPLY' % os.path.basename(patch)); continue
        exe = build(wt)
        mt = traces(exe, 'mut')
        changed = []
        crashed = [os.path.basename(f) for f, rc in mt if rc != 0]
        for (fb, _), (fm, _) in zip(base_tr, mt):
            lb = open(fb, 'rb').read().split(b'\n'); lm = open(fm, 'rb').read().split(b'\n')
            for i, x in enumerate(lm):
                if x and (i >= len(lb) or lb[i] != x):
                    changed.append(x)
        name = os.path.basename(patch)
        if crashed:
            print('%s: caught (driver crashed on %s)' % (name, crashed)); continue
        if not changed:
            print('%s: identical traces (missed)' % name); continue
        cf_ = os.path.join(work, 'changed.nd')
        rej = []
        # validate in chunks of 4000 lines; stop after the first chunk with a reject
        for k in range(0, len(changed), 4000):
            open(cf_, 'wb').write(b'\n'.join(changed[k:k + 4000]) + b'\n')
            res = vlib.tlc('Trace_Geod', cfg, workers=1, env={'TRACE': cf_}, timeout=3000)
            if not re.search(r'"SUMMARY"', res.out):
                print('%s: TLC failed\n%s' % (name, res.out[-1500:])); break
            for rj in vlib.parse_rejects(res.out, k):
                try:
                    rec = json.loads(changed[rj['line'] - 1])
                except Exception:
                    rec = {}
                if not vlib.match_known(KNOWN, prop, rj, rec):       # rejects of a registered known finding do not count
                    rej.append(rj)
            if len(rej) > 0 and k + 4000 < len(changed):
                break            # enough
        if rej:
            first = rej[0]
            print('%s: caught (%d rejected among the first lines of %d changed; first: %s %s)' % (name, len(rej), len(changed), first['law'], changed[first['line'] - 1][:400].decode()))
        else:
            print('%s: missed (%d lines changed, 0 rejected)' % (name, len(changed)))
        sys.stdout.flush()
    finally:
        subprocess.run(['git', '-C', '/repo', 'worktree', 'remove', '--force', wt])
