#!/bin/bash
# Helper used for the C14 mutation campaign (notes/C14-mutation.md).  Expects: a scratch worktree of /repo in /tmp/mw-C14,
# baseline ThreadSanitizer objects of src/*.cpp in /tmp/C14-demo/base, Config.h in /tmp/C14-demo/inc/GeographicLib, and
# notes/C14-mutation-demo.cpp copied to /tmp/C14-demo/demo.cpp.  Never touches /repo.
# usage: rundemo.sh <patchno|base> <case>
# builds demo against baseline objects, with the .cpp files touched by the patch recompiled from the patched tree
n=$1; c=$2; W=/tmp/mw-C14; D=/tmp/C14-demo
cd $W && git checkout -q -- . || exit 2
objs=""
FL="-O1 -g -std=c++17 -fsanitize=thread -ffp-contract=off -DGEOGRAPHICLIB_VERIF -I$D/inc -I$W/include"
if [ "$n" != base ]; then
  git apply /verif/mutants/C14-$n.patch || exit 2
  mkdir -p $D/m$n
  if git diff --name-only | grep -q '^include/\|kissfft'; then files=$(ls src/*.cpp); else files=$(git diff --name-only | grep '^src/.*cpp$'); fi
  for f in $files; do clang++ $FL -c $f -o $D/m$n/$(basename $f .cpp).o || exit 2; done
fi
for o in $D/base/*.o; do b=$(basename $o); if [ -f $D/m$n/$b ]; then objs="$objs $D/m$n/$b"; else objs="$objs $o"; fi; done
clang++ $FL $D/demo.cpp $objs -lpthread -o $D/demo-$n || exit 2
git checkout -q -- .
TSAN_OPTIONS='halt_on_error=0 exitcode=66' $D/demo-$n $c > $D/out-$n-$c.txt 2> $D/err-$n-$c.txt; rc=$?
echo "patch=$n case=$c rc=$rc races=$(grep -c 'WARNING: ThreadSanitizer: data race' $D/err-$n-$c.txt) $(grep mismatches= $D/out-$n-$c.txt)"
grep -m1 -A3 'WARNING: ThreadSanitizer: data race' $D/err-$n-$c.txt | grep '#0' | head -2
