#!/bin/bash
# Helper of the C06 mutation campaign (notes/C06-mutation.md).  usage: C06-mutation-rundemo.sh <patchno|base>
# Needs a scratch worktree of /repo (git -C /repo worktree add --detach /tmp/mw-C06 HEAD); never touches /repo.
n=$1; W=/tmp/mw-C06; D=/tmp/C06-demo; V=$(cd "$(dirname "$0")/.." && pwd)
mkdir -p $D/inc/GeographicLib
python3 -c "import sys; sys.path.insert(0,'$V/tools'); import vlib; open('$D/inc/GeographicLib/Config.h','w').write(vlib.CONFIG_H)"
cd $W && git checkout -q -- . || exit 2
if [ "$n" != base ]; then git apply $V/mutants/C06-$n.patch || exit 2; fi
g++ -O2 -std=c++17 -fno-fast-math -ffp-contract=off -DGEOGRAPHICLIB_VERIF -I$D/inc -I$W/include $V/notes/C06-mutation-demo.cpp \
  $W/src/TransverseMercator.cpp $W/src/TransverseMercatorExact.cpp $W/src/EllipticFunction.cpp $W/src/Math.cpp -o $D/mdemo-$n
rc=$?; git checkout -q -- .; [ $rc = 0 ] || exit 2
$D/mdemo-$n
