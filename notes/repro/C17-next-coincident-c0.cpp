// Intersect::Next on ONE geodesic taken twice, antiparallel, started at a vertex (azimuth -90 / +90), exact solver:
// the answer lies on the coincidence line y = -x (X(x) and Y(y) are the same point, headings exactly opposite) but the
// coincidence indicator is 0 instead of -1, and All() with a radius covering it does not list it.
// g++ -I/repo/include repro.cpp libgeo.a
#include <GeographicLib/Intersect.hpp>
#include <cstdio>
using namespace GeographicLib;
int main() {
  Geodesic g(6378137, -0.1, true); Intersect I(g);
  double lat = 10.194748100004022, lon = -62.952507641020816;
  int c = 9; Intersect::Point p = I.Next(lat, lon, -90, 90, &c);
  GeodesicLine X = g.Line(lat, lon, -90, Intersect::LineCaps), Y = g.Line(lat, lon, 90, Intersect::LineCaps);
  double la, lo, az, lb, lob, azb; X.Position(p.first, la, lo, az); Y.Position(p.second, lb, lob, azb);
  printf("Next -> x = %.6f y = %.6f (x + y = %.3g) c = %d   expected c = -1\n", p.first, p.second, p.first + p.second, c);
  printf("X(x) = (%.12f, %.12f) azi %.12f\nY(y) = (%.12f, %.12f) azi %.12f\n", la, lo, az, lb, lob, azb);
  std::vector<int> cs; auto all = I.All(X, Y, Intersect::Dist(p) + 1000, cs);
  for (size_t i = 0; i < all.size(); ++i) printf("All[%zu] = (%.6f, %.6f) c = %d\n", i, all[i].first, all[i].second, cs[i]);
  int c2 = 9; Intersect::Point q = I.Next(lat + 1e-9, lon, -90, 90, &c2);       // a neighbouring input
  printf("neighbouring latitude: Next -> x = %.6f y = %.6f c = %d\n", q.first, q.second, c2);
}
