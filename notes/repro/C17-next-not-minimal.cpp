// Intersect::Next on ONE geodesic taken twice (parallel), started at a vertex, most prolate validated ellipsoid (f = -1/4, exact
// solver): the returned transversal self-crossing is 1615 km (L1) farther than the closest one, which All() lists.
// The outcome depends on the longitude of the starting point (round-off): lon = 0 gives the right answer.
// g++ -I/repo/include repro.cpp libgeo.a
#include <GeographicLib/Intersect.hpp>
#include <cstdio>
using namespace GeographicLib;
int main() {
  Geodesic g(6378137, -0.25, true); Intersect I(g);
  double lat = -62.327110861535616;
  for (double lon : {-108.53958520173137, 0.0}) {
    int c = 9; Intersect::Point p = I.Next(lat, lon, -90, -90, &c);
    printf("lon = %.14f: Next -> (%.6f, %.6f) c = %d Dist = %.3f\n", lon, p.first, p.second, c, Intersect::Dist(p));
    std::vector<int> cs; auto all = I.All(lat, lon, -90, lat, lon, -90, Intersect::Dist(p) + 1000, cs);
    for (size_t i = 0; i < all.size(); ++i) if (cs[i] == 0 && Intersect::Dist(all[i]) < Intersect::Dist(p) - 1)
      printf("   All lists the closer transversal intersection (%.6f, %.6f) c = 0 Dist = %.3f\n", all[i].first, all[i].second, Intersect::Dist(all[i]));
  }
}
