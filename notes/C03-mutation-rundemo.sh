#!/bin/bash
# C03-mutation-rundemo.sh <tag> [patch] : builds the geodesic classes of /repo (read only, copied) + optional patch in /tmp/demo-C03/<tag>, links C03-mutation-demo.cpp; then run /tmp/demo-C03/<tag>/demo short|f002|n05|ovl|xflag|f <flattening>
set -e
tag=$1; patch=$2
d=/tmp/demo-C03/$tag   # scratch directory (never /repo)
rm -rf $d; mkdir -p $d/src $d/include/GeographicLib
cp /repo/src/{Geodesic,GeodesicLine,GeodesicExact,GeodesicLineExact,DST,EllipticFunction,Math}.cpp /repo/src/kissfft.hh $d/src/
cp /repo/include/GeographicLib/*.hpp $d/include/GeographicLib/
cat > $d/include/GeographicLib/Config.h <<'EOC'
#define GEOGRAPHICLIB_VERSION_STRING "2.5"
#define GEOGRAPHICLIB_VERSION_MAJOR 2
#define GEOGRAPHICLIB_VERSION_MINOR 5
#define GEOGRAPHICLIB_VERSION_PATCH 0
#define GEOGRAPHICLIB_DATA "/usr/local/share/GeographicLib"
#define GEOGRAPHICLIB_HAVE_LONG_DOUBLE 1
#define GEOGRAPHICLIB_WORDS_BIGENDIAN 0
#define GEOGRAPHICLIB_PRECISION 2
#if !defined(GEOGRAPHICLIB_SHARED_LIB)
#define GEOGRAPHICLIB_SHARED_LIB 0
#endif
EOC
if [ -n "$patch" ]; then (cd $d && patch -p1 -s < $patch); fi
g++ -O2 -std=c++17 -fno-fast-math -ffp-contract=off -I$d/include -I$d/src $(dirname $0)/C03-mutation-demo.cpp $d/src/*.cpp -o $d/demo
echo built $d/demo
