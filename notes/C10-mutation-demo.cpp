// Reproducers for the C10 mutation campaign: each test states a documented behaviour of the text subsystem
// (DMS.hpp, Utility.hpp, GeoCoords.hpp) and fails on the mutant it was written for.  Built against a scratch
// build of the mutated sources by notes/C10-mutation-rundemo.sh; on the unchanged tree every test passes.
//   usage: demo <test-name>|all      exit 0 = all selected tests pass, 1 = some documented behaviour violated
#include <GeographicLib/DMS.hpp>
#include <GeographicLib/Utility.hpp>
#include <GeographicLib/GeoCoords.hpp>
#include <GeographicLib/UTMUPS.hpp>
#include <cmath>
#include <cstdio>
#include <functional>
#include <map>
#include <string>
using namespace GeographicLib;
using namespace std;

static int fails = 0;
#define EXPECT(c, ...) do { if (!(c)) { ++fails; printf("  FAIL %s:%d: ", __func__, __LINE__); printf(__VA_ARGS__); printf("\n"); } } while (0)

// DMS.hpp "Convert DMS to an angle": Decode(d, m, s) = d + m/60 + s/3600
static void dms_numeric_decode() {
  double v = DMS::Decode(20.0, 30.0, 40.5);
  EXPECT(fabs(v - 20.51125) < 1e-12, "Decode(20,30,40.5) = %.10f, documented 20d30'40.5\" = 20.51125", v);
  EXPECT(DMS::Decode(3.0, 20.0) == 3.0 + 20.0 / 60, "Decode(3, 20) = %.10f", DMS::Decode(3.0, 20.0));
}
// DMS.hpp "Split angle into degrees and minutes and seconds": the parts recombine to the angle, m integer, 0 <= s < 60
static void dms_numeric_split() {
  double d, m, s; DMS::Encode(20.51125, d, m, s);
  EXPECT(d == 20 && m == 30 && fabs(s - 40.5) < 1e-9, "Encode(20.51125) -> %g %g %.9f, expected 20 30 40.5", d, m, s);
  EXPECT(fabs(DMS::Decode(d, m, s) - 20.51125) < 1e-12, "split does not recombine: %.12f", DMS::Decode(d, m, s));
  double d2, m2; DMS::Encode(-3.5, d2, m2);
  EXPECT(d2 == -3 && m2 == -30, "Encode(-3.5) -> %g %g, expected -3 -30", d2, m2);
}
// Utility.hpp val<bool>: "false", "f", "nil", "no", "n", "off", "" meaning false; "true", "t", "yes", "y", "on" meaning true; case ignored
static void val_bool_words() {
  const char* F[] = {"false", "f", "nil", "no", "n", "off", "", "0", "FALSE", "Nil", " off "};
  const char* T[] = {"true", "t", "yes", "y", "on", "1", "TRUE", "Yes", " on\t"};
  for (auto w : F) { bool r = true; try { r = Utility::val<bool>(w); } catch (const exception& e) { EXPECT(false, "val<bool>(\"%s\") threw: %s", w, e.what()); continue; } EXPECT(!r, "val<bool>(\"%s\") = true, documented false", w); }
  for (auto w : T) { bool r = false; try { r = Utility::val<bool>(w); } catch (const exception& e) { EXPECT(false, "val<bool>(\"%s\") threw: %s", w, e.what()); continue; } EXPECT(r, "val<bool>(\"%s\") = false, documented true", w); }
  for (auto w : {"2", "maybe", "ye", "1x", "o", "nul"}) { bool threw = false; try { Utility::val<bool>(w); } catch (const GeographicErr&) { threw = true; } EXPECT(threw, "val<bool>(\"%s\") accepted", w); }
}
// Utility.hpp val<std::string>: "s is returned (with the white space at the beginning and end removed)"
static void val_string_trim() {
  string r = Utility::val<string>("  ab c\t\n");
  EXPECT(r == "ab c", "val<string>(\"  ab c\\t\\n\") = \"%s\", documented \"ab c\"", r.c_str());
}
// Utility.hpp val<T>: white space at the beginning and end is ignored (also for integers); junk rejected
static void val_int() {
  int r = 0; try { r = Utility::val<int>(" 42 "); } catch (const exception& e) { EXPECT(false, "val<int>(\" 42 \") threw: %s", e.what()); }
  EXPECT(r == 42, "val<int>(\" 42 \") = %d", r);
  bool threw = false; try { Utility::val<int>("4x"); } catch (const GeographicErr&) { threw = true; } EXPECT(threw, "val<int>(\"4x\") accepted");
  threw = false; try { Utility::val<int>("nan"); } catch (const GeographicErr&) { threw = true; } EXPECT(threw, "val<int>(\"nan\") accepted");
}
// GeoCoords.hpp: AltUTMUPSRepresentation gives the position in the alternate zone: it reads back as the same point
static void alt_utmups() {
  GeoCoords p(51.5, 5.9);                       // zone 31, close to the boundary with zone 32
  p.SetAltZone(32);
  for (int prec : {0, 3}) {
    string s = p.AltUTMUPSRepresentation(prec);
    GeoCoords q; string err; try { q.Reset(s); } catch (const exception& e) { err = e.what(); }
    EXPECT(err.empty(), "AltUTMUPSRepresentation \"%s\" rejected: %s", s.c_str(), err.c_str());
    if (err.empty()) EXPECT(q.Zone() == 32 && fabs(q.Latitude() - 51.5) < 1e-4 && fabs(q.Longitude() - 5.9) < 1e-4,
                            "\"%s\" reads back as zone %d lat %.6f lon %.6f, expected zone 32 51.5 5.9", s.c_str(), q.Zone(), q.Latitude(), q.Longitude());
  }
}
static void alt_mgrs() {
  GeoCoords p(51.5, 5.9); p.SetAltZone(32);
  string s; string err; try { s = p.AltMGRSRepresentation(0); } catch (const exception& e) { err = e.what(); }
  EXPECT(err.empty(), "AltMGRSRepresentation threw: %s", err.c_str());
  if (err.empty()) { GeoCoords q(s); EXPECT(q.Zone() == 32 && fabs(q.Latitude() - 51.5) < 1e-4 && fabs(q.Longitude() - 5.9) < 1e-4,
                            "\"%s\" reads back as zone %d lat %.6f lon %.6f, expected zone 32 51.5 5.9", s.c_str(), q.Zone(), q.Latitude(), q.Longitude()); }
}
// GeoCoords.hpp UTMUPSRepresentation(northp, ...): "UTM/UPS string with hemisphere override": the same point in the other convention
static void northp_override(bool alt) {
  GeoCoords p(-33.3, 42.5);                     // southern hemisphere, zone 38
  if (alt) p.SetAltZone(37);
  for (bool np : {true, false}) {
    string s = alt ? p.AltUTMUPSRepresentation(np, 2) : p.UTMUPSRepresentation(np, 2);
    bool hn = s.find('n') != string::npos;
    EXPECT(hn == np, "%sUTMUPSRepresentation(northp=%d) = \"%s\": hemisphere letter", alt ? "Alt" : "", int(np), s.c_str());
    GeoCoords q; string err; try { q.Reset(s); } catch (const exception& e) { err = e.what(); }
    EXPECT(err.empty(), "\"%s\" rejected: %s", s.c_str(), err.c_str());
    if (err.empty()) EXPECT(fabs(q.Latitude() + 33.3) < 1e-6 && fabs(q.Longitude() - 42.5) < 1e-6,
                            "\"%s\" reads back as lat %.7f lon %.7f, expected -33.3 42.5", s.c_str(), q.Latitude(), q.Longitude());
  }
}
static void northp_override_main() { northp_override(false); }
static void northp_override_alt() { northp_override(true); }
// GeoCoords.hpp: the string constructor is Reset(s, centerp, longfirst); longfirst "assume longitude is given before latitude"
static void ctor_string() {
  GeoCoords a("10 20", true, true);             // longfirst: lon 10, lat 20
  EXPECT(a.Latitude() == 20 && a.Longitude() == 10, "GeoCoords(\"10 20\", true, longfirst=true): lat %g lon %g, expected 20 10", a.Latitude(), a.Longitude());
  GeoCoords b("38SMB4484", false, false);       // corner of the square
  EXPECT(b.Easting() == 444000 && b.Northing() == 3684000, "GeoCoords(\"38SMB4484\", centerp=false): %.1f %.1f, expected 444000 3684000", b.Easting(), b.Northing());
  GeoCoords c("38SMB4484");                     // default: centre
  EXPECT(c.Easting() == 444500 && c.Northing() == 3684500, "GeoCoords(\"38SMB4484\"): %.1f %.1f, expected 444500 3684500 (centerp default true)", c.Easting(), c.Northing());
}
// GeoCoords.hpp Reset(s): centerp default = true, longfirst default = false
static void reset_defaults() {
  GeoCoords c; c.Reset("38SMB4484");
  EXPECT(c.Easting() == 444500 && c.Northing() == 3684500, "Reset(\"38SMB4484\"): %.1f %.1f, expected the centre 444500 3684500", c.Easting(), c.Northing());
  c.Reset("10 20"); EXPECT(c.Latitude() == 10 && c.Longitude() == 20, "Reset(\"10 20\"): lat %g lon %g", c.Latitude(), c.Longitude());
}
// GeoCoords.hpp: "Internally longitudes are reduced to the range [-180, 180]"; the printed longitude is in that range
static void lon_reduced() {
  GeoCoords p(10, 200);
  EXPECT(p.Longitude() == -160, "GeoCoords(10, 200).Longitude() = %g, documented reduction gives -160", p.Longitude());
  string s = p.GeoRepresentation(0);
  EXPECT(s == "10.00000 -160.00000", "GeoRepresentation = \"%s\"", s.c_str());
  GeoCoords q; q.Reset(10, 540, UTMUPS::STANDARD); EXPECT(fabs(q.Longitude()) == 180, "Reset(10, 540): lon %g", q.Longitude());
}

int main(int argc, char** argv) {
  map<string, function<void()>> T = {
    {"dms_numeric_decode", dms_numeric_decode}, {"dms_numeric_split", dms_numeric_split}, {"val_bool_words", val_bool_words},
    {"val_string_trim", val_string_trim}, {"val_int", val_int}, {"alt_utmups", alt_utmups}, {"alt_mgrs", alt_mgrs},
    {"northp_override_main", northp_override_main}, {"northp_override_alt", northp_override_alt}, {"ctor_string", ctor_string},
    {"reset_defaults", reset_defaults}, {"lon_reduced", lon_reduced}};
  string w = argc > 1 ? argv[1] : "all";
  for (auto& t : T) if (w == "all" || w == t.first) { int f0 = fails; try { t.second(); } catch (const exception& e) { ++fails; printf("  FAIL %s: exception %s\n", t.first.c_str(), e.what()); }
    printf("%s %s\n", fails == f0 ? "pass" : "FAIL", t.first.c_str()); }
  return fails ? 1 : 0;
}
