// AlbersEqualArea, two distinct standard parallels, exactly one of them a pole: Reverse of the image of that pole returns a
// meaningless azimuthal scale k (0, negative, 1e15, 1e23) although the scale there is finite (= CentralScale(); the origin IS
// that pole) and Forward at the pole returns it correctly on the sphere.  Input class "alb-2par-pole-std-at-pole" (already a known
// finding for Forward on ellipsoids); one step away from the pole Reverse returns the right k.
#include <GeographicLib/AlbersEqualArea.hpp>
#include <cstdio>
using namespace GeographicLib;
int main() {
  struct { double a, f, p1, p2, k1; } C[] = {{1, 0, 90, 0, 0.5}, {1, 0, 0, 90, 1}, {6378137, 0, 90, 0, 1}, {6378137, 1 / 298.257223563, 60, 90, 1}};
  for (auto& c : C) {
    AlbersEqualArea A(c.a, c.f, c.p1, c.p2, c.k1);
    double x, y, g, k, lat, lon, g2, k2;
    A.Forward(0, 90, 30, x, y, g, k); A.Reverse(0, x, y, lat, lon, g2, k2);
    printf("Albers(%g, %g, %g, %g, %g): OriginLatitude %g CentralScale %.17g | Forward(0, 90, 30): k = %.17g | Reverse(0, %g, %g): lat = %g, k = %.17g (expected %.17g)\n",
           c.a, c.f, c.p1, c.p2, c.k1, A.OriginLatitude(), A.CentralScale(), k, x, y, lat, k2, A.CentralScale());
  }
}
