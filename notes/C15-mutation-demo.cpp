// Demonstrations for the C15 mutation campaign (missed mutants and reachability probes).  usage: demo <case>
#include <GeographicLib/AuxLatitude.hpp>
#include <GeographicLib/DAuxLatitude.hpp>
#include <GeographicLib/AuxAngle.hpp>
#include <GeographicLib/Ellipsoid.hpp>
#include <GeographicLib/EllipticFunction.hpp>
#include <cstdio>
#include <cmath>
#include <limits>
#include <string>
using namespace GeographicLib;
using namespace std;

int main(int argc, char** argv) {
  string c = argc > 1 ? argv[1] : "";
  const double inf = numeric_limits<double>::infinity();
  try {
  if (c == "axes") {          // 13: AuxLatitude::axes(a, b) against AuxLatitude(a, f)
    double a = 6378137, f = 1 / 298.257223563, b = a * (1 - f);
    AuxLatitude A(a, f), B(AuxLatitude::axes(a, b));
    for (int k = 1; k <= 5; ++k) {
      AuxAngle z(1.0, 1.0);
      printf("PHI->%d at 45 deg: (a,f) %.17g   axes(a,b) %.17g\n", k, A.Convert(0, k, z, true).tan(), B.Convert(0, k, z, true).tan());
    }
    AuxLatitude C(AuxLatitude::axes(1, 0.25)), D(1, 0.75);
    printf("b/a = 1/4: PHI->MU at 45 deg: (a,f) %.17g   axes(a,b) %.17g\n", D.Convert(0, 3, AuxAngle(1.0, 1.0), true).tan(),
           C.Convert(0, 3, AuxAngle(1.0, 1.0), true).tan());
  } else if (c == "wgs84aux") {   // 14
    const AuxLatitude& W = AuxLatitude::WGS84(); AuxLatitude R(Constants::WGS84_a(), Constants::WGS84_f());
    printf("AuxLatitude::WGS84(): a = %.17g f = %.17g (1/f = %.9f); documented: a = %.17g 1/f = %.9f\n", W.EquatorialRadius(), W.Flattening(),
           1 / W.Flattening(), Constants::WGS84_a(), 1 / Constants::WGS84_f());
    printf("PHI->CHI at 45 deg: singleton %.17g  AuxLatitude(WGS84_a, WGS84_f) %.17g\n", W.Convert(0, 4, 45.0, true), R.Convert(0, 4, 45.0, true));
  } else if (c == "diffpole") {   // 15, 16: derivative d tan(eta) / d tan(phi) at the pole = limit of the finite values
    for (double f : {1 / 298.257223563, 0.5, -0.5, -3.0}) {
      AuxLatitude A(1, f);
      for (int k = 1; k <= 5; ++k) {
        double dp = -1, dl = -1, dl2 = -1; A.ToAuxiliary(k, AuxAngle(1.0, 0.0), &dp); A.ToAuxiliary(k, AuxAngle(1e12, 1.0), &dl);
        A.ToAuxiliary(k, AuxAngle(inf, 1.0), &dl2);
        printf("f = %-8.4g eta = %d: diff at the pole (1,0) = %.15g, at (inf,1) = %.15g, at tan(phi) = 1e12 = %.15g\n", f, k, dp, dl2, dl);
      }
    }
  } else if (c == "norm") {       // 22: AuxAngle(-inf, 1).normalized()
    AuxAngle p(inf, 1.0), m(-inf, 1.0), q(-inf, -3.0);
    printf("(inf,1) -> (%g,%g); (-inf,1) -> (%g,%g); (-inf,-3) -> (%g,%g)\n", p.normalized().y(), p.normalized().x(),
           m.normalized().y(), m.normalized().x(), q.normalized().y(), q.normalized().x());
    AuxLatitude A(6378137, 1 / 298.257223563);
    printf("series PHI->MU of (-inf, 1): %.17g deg; exact: %.17g deg\n", A.Convert(0, 3, m, false).degrees(), A.Convert(0, 3, m, true).degrees());
  } else if (c == "lam") {        // 23: AuxAngle::lam(psi) = angle with tangent sinh(psi)
    printf("AuxAngle::lam(1).tan() = %.17g, sinh(1) = %.17g; lam(1).lam() = %.17g; lamd(30).lamd() = %.17g\n", AuxAngle::lam(1.0).tan(), sinh(1.0),
           AuxAngle::lam(1.0).lam(), AuxAngle::lamd(30.0).lamd());
  } else if (c == "wgs84ell") {   // 24
    const Ellipsoid& W = Ellipsoid::WGS84(); Ellipsoid R(Constants::WGS84_a(), Constants::WGS84_f());
    printf("Ellipsoid::WGS84(): a = %.17g 1/f = %.9f b = %.9f; documented 1/f = %.9f b = %.9f\n", W.EquatorialRadius(), 1 / W.Flattening(), W.PolarRadius(),
           1 / Constants::WGS84_f(), R.PolarRadius());
    printf("QuarterMeridian: singleton %.9f  Ellipsoid(WGS84_a, WGS84_f) %.9f\n", W.QuarterMeridian(), R.QuarterMeridian());
  } else if (c == "drectpole") {  // 28: DRectifying(pole, pole) = d mu / d phi at the pole
    for (double f : {1 / 298.257223563, 0.1, -0.1}) {
      DAuxLatitude A(1, f); AuxAngle p(1.0, 0.0), q(1e9, 1.0), s(-1.0, 0.0);
      printf("f = %-8.4g DRectifying(pole, pole) = %.15g, (-pole, -pole) = %.15g, near the pole (tan = 1e9 twice) = %.15g; DParametric(pole,pole) = %.15g near %.15g; "
             "DIsometric(pole,pole) = %g\n", f, A.DRectifying(p, p), A.DRectifying(s, s), A.DRectifying(q, q), A.DParametric(p, p), A.DParametric(q, q), A.DIsometric(p, p));
    }
  } else if (c == "dparrecip") {  // 29: adjacent tangents > 1 whose reciprocals coincide
    DAuxLatitude A(1, 0.1); int n = 0;
    for (double t = 1.5; t < 40 && n < 4; t *= 1.37) {
      double u = nextafter(t, inf);
      if (1 / t != 1 / u) continue;
      ++n;
      double v = t * (1 + 1e-9);
      printf("f = 0.1 tan(phi1) = %.17g, tan(phi2) = next double: DParametric = %.15g; with tan(phi2) = tan(phi1)(1 + 1e-9): %.15g; with phi2 = phi1: %.15g\n", t,
             A.DParametric(AuxAngle(t, 1.0), AuxAngle(u, 1.0)), A.DParametric(AuxAngle(t, 1.0), AuxAngle(v, 1.0)), A.DParametric(AuxAngle(t, 1.0), AuxAngle(t, 1.0)));
    }
  } else if (c == "reset2") {     // 33: two-argument constructor / Reset against the four-argument form
    EllipticFunction e2(0.5, 0.3), e4(0.5, 0.3, 0.5, 0.7), r(0.1, 0.2); r.Reset(0.5, 0.3);
    printf("k2 = 0.5 alpha2 = 0.3: alphap2(): 2-arg ctor %.17g, Reset(k2, alpha2) %.17g, 4-arg %.17g\n", e2.alphap2(), r.alphap2(), e4.alphap2());
    printf("  Pi()  %.17g %.17g %.17g\n  G()   %.17g %.17g %.17g\n  H()   %.17g %.17g %.17g\n  Pi(1) %.17g %.17g %.17g\n  H(1)  %.17g %.17g %.17g\n",
           e2.Pi(), r.Pi(), e4.Pi(), e2.G(), r.G(), e4.G(), e2.H(), r.H(), e4.H(), e2.Pi(1.0), r.Pi(1.0), e4.Pi(1.0), e2.H(1.0), r.H(1.0), e4.H(1.0));
    EllipticFunction d;   // default: k2 = alpha2 = 0
    printf("default ctor: K = %.17g E = %.17g Pi = %.17g H = %.17g (pi/2 = %.17g, pi/4 = %.17g)\n", d.K(), d.E(), d.Pi(), d.H(), Math::pi() / 2, Math::pi() / 4);
  } else if (c == "am4") {        // 34: am(x, sn, cn, dn) for k2 = 1
    EllipticFunction e(1, 0, 0, 1); double sn, cn, dn, s2, c2, d2, x = 0.75;
    double phi = e.am(x, sn, cn, dn); e.sncndn(x, s2, c2, d2);
    printf("k2 = 1, x = 0.75: am = %.17g (gd(x) = %.17g); am's sn cn dn = %.17g %.17g %.17g; sncndn = %.17g %.17g %.17g; tanh, sech = %.17g %.17g\n", phi,
           atan(sinh(x)), sn, cn, dn, s2, c2, d2, tanh(x), 1 / cosh(x));
  } else if (c == "sncndn0") {    // 35: sncndn at x = 0 (and at multiples of 2K, where sin(x c) is exactly 0 only for x = 0)
    for (double k2 : {0.5, 0.99, 0.0}) {
      EllipticFunction e(k2); double sn, cn, dn; e.sncndn(0.0, sn, cn, dn);
      printf("k2 = %g: sncndn(0) = %g %g %g", k2, sn, cn, dn); e.sncndn(-0.0, sn, cn, dn); printf("; sncndn(-0) = %g %g %g\n", sn, cn, dn);
    }
  } else if (c == "cn0") {        // 36: the (sn, cn, dn) interface at cn = 0 (phi = pi/2 exactly): the complete integrals
    EllipticFunction e(0.5, 0.3); double dn = e.Delta(1.0, 0.0);
    printf("k2 = 0.5 alpha2 = 0.3, (sn, cn) = (1, 0): F %.17g K %.17g | E %.17g E %.17g | D %.17g D %.17g | Pi %.17g Pi %.17g | G %.17g G %.17g | H %.17g H %.17g\n",
           e.F(1, 0, dn), e.K(), e.E(1, 0, dn), e.E(), e.D(1, 0, dn), e.D(), e.Pi(1, 0, dn), e.Pi(), e.G(1, 0, dn), e.G(), e.H(1, 0, dn), e.H());
    printf("  (sn, cn) = (-1, 0): Pi %.17g; deltaPi(1, 0, dn) = %.17g (0 expected)\n", e.Pi(-1, 0, dn), e.deltaPi(1, 0, dn));
  } else if (c == "dq0") {        // 18: authalic latitude for tan(phi) beyond 2^537 (d underflows to 0 in Dq)
    for (double f : {1 / 298.257223563, 0.5, -1.0}) {
      AuxLatitude A(1, f);
      for (int e : {500, 530, 540, 600, 900})
        printf("f = %-8.4g tan(phi) = 2^%d: tan(xi)/tan(phi) = %.17g; back XI->PHI ratio %.17g\n", f, e, A.Convert(0, 5, AuxAngle(ldexp(1.0, e), 1.0), true).tan() / ldexp(1.0, e),
               A.Convert(5, 0, A.Convert(0, 5, AuxAngle(ldexp(1.0, e), 1.0), true), true).tan() / ldexp(1.0, e));
    }
  } else if (c == "bisect") {     // 21: is the bisection safeguard of FromAuxiliary ever taken?  (count iterations as a proxy)
    int worst = 0; double wf = 0, wt = 0; int wk = 0; long bad = 0, tot = 0;
    for (double ba : {0.01, 0.02, 0.05, 0.1, 0.3, 0.9, 1.1, 3.0, 10.0, 30.0, 64.0, 100.0}) {
      AuxLatitude A(1, 1 - ba);
      for (int k = 3; k <= 5; ++k)
        for (int e = -1020; e <= 1000; e += 1) {
          int nit = 0; double t = ldexp(1.3, e); AuxAngle z(t, 1.0), p = A.FromAuxiliary(k, z, &nit);
          ++tot;
          AuxAngle back = A.ToAuxiliary(k, p);
          double err = fabs(back.tan() / t - 1);
          if (!(err < 1e-9)) { ++bad; if (bad < 12) printf("  b/a = %g aux %d tan = 2^%d*1.3: phi tan = %g, back/zeta - 1 = %g, niter = %d\n", ba, k, e, p.tan(), err, nit); }
          if (nit > worst) { worst = nit; wf = ba; wt = e; wk = k; }
        }
    }
    printf("FromAuxiliary sweep: %ld calls, %ld inaccurate or NaN, most iterations %d (b/a = %g, aux %d, tan = 1.3 * 2^%g)\n", tot, bad, worst, wf, wk, wt);
  } else if (c == "start" || c == "startmu") {      // 46, 47: Newton start value of FromAuxiliary: NaN regions at the two ends of the tangent range
    int ax = c == "start" ? 4 : 3;
    for (double ba : {0.01, 0.1, 0.5, 2.0, 10.0, 100.0}) {
      AuxLatitude A(1, 1 - ba); int lo = 0, hi = 0, lofirst = -9999, hifirst = 9999; double worst = 0;
      for (int e = -1074; e <= 1023; ++e) {
        AuxAngle p = A.Convert(ax, 0, AuxAngle(ldexp(1.0, e), 1.0), true);
        if (std::isnan(p.tan())) { if (e < 0) { ++lo; lofirst = e; } else { ++hi; if (hifirst == 9999) hifirst = e; } continue; }
        if (e > -1000 && e < 700) { double t = A.Convert(0, ax, p, true).tan(); worst = fmax(worst, fabs(t / ldexp(1.0, e) - 1)); }
      }
      printf("b/a = %-5g %s->PHI exact: NaN for %d tangents 2^-1074..2^%d and %d tangents 2^%d..2^1023; worst round trip error for 2^-1000..2^700: %.3g\n", ba, ax == 4 ? "CHI" : "MU", lo,
             lofirst, hi, hifirst, worst);
    }
  } else if (c == "halfturn") {   // finding of the strengthening pass: a += (0, x < 0) (an angle of 180 degrees) is ignored
    AuxAngle a(2.0, 0.0), b(0.0, -1.0), c(AuxAngle::degrees(30.0)); AuxAngle a0(a), c0(c);
    a += b; c += AuxAngle::degrees(180.0);
    printf("(2, 0) [90 deg] += (0, -1) [180 deg]: (%g, %g) = %.17g deg (expected -90)\n", a.y(), a.x(), a.degrees());
    printf("degrees(30) += degrees(180): %.17g deg (expected -150); += degrees(179.999999): ", c.degrees());
    c0 += AuxAngle::degrees(179.999999); printf("%.17g deg\n", c0.degrees());
  } else { fprintf(stderr, "unknown case %s\n", c.c_str()); return 2; }
  } catch (const std::exception& e) { printf("exception: %s\n", e.what()); }
  return 0;
}
