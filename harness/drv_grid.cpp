// Driver for GridCodes (C18): executes Geohash/GARS/Georef/OSGB calls chosen by TLC
// (lattice vectors) or by a seeded sampler (round-trip law records) and logs observations.
#include "trace.hpp"
#include <GeographicLib/Geohash.hpp>
#include <GeographicLib/GARS.hpp>
#include <GeographicLib/Georef.hpp>
#include <GeographicLib/OSGB.hpp>
#include <GeographicLib/Math.hpp>
#include <fstream>

using namespace GeographicLib;
using namespace std;
using vt::Rec;

static int NB = 8;
static const char* UNCH = "~unchanged~";

static double nudge(double v, int d) {
  return d == 0 ? v : (d > 0 ? nextafter(v, INFINITY) : nextafter(v, -INFINITY));
}
// Eps number <<k, d>> in the scheme's lattice unit -> the double the library is called with
static double realise(const string& s, long long k, int d) {
  if (s == "geohash") return nudge(double(k) * ldexp(360.0, -NB), d);   // exact product
  if (s == "gars") return nudge(double(k) / 12.0, d);                    // double nearest to k/12
  if (s == "georef") return nudge(double(k) / 60.0, d);                  // double nearest to k/60
  return nudge(double(k), d);                                            // osgb metres
}

static void forward(const string& s, double a, double b, int prec, string& out) {
  if (s == "geohash") Geohash::Forward(a, b, prec, out);
  else if (s == "gars") GARS::Forward(a, b, prec, out);
  else if (s == "georef") Georef::Forward(a, b, prec, out);
  else OSGB::GridReference(b, a, prec, out);   // (a, b) = (y, x)
}
static void reverse(const string& s, const string& code, double& a, double& b, int& prec, bool c) {
  if (s == "geohash") Geohash::Reverse(code, a, b, prec, c);
  else if (s == "gars") GARS::Reverse(code, a, b, prec, c);
  else if (s == "georef") Georef::Reverse(code, a, b, prec, c);
  else OSGB::GridReference(code, b, a, prec, c);
}

// outcome of a guarded call
template<class F> static string guarded(F f) {
  try { f(); return "ok"; }
  catch (const GeographicErr&) { return "throw"; }
  catch (const std::bad_alloc&) { return "badalloc"; }
  catch (const std::exception&) { return "other"; }
  catch (...) { return "other"; }
}

// fine-unit quantisation of a decoded coordinate -> [hi, lo]; grid=false when not near an integer
static vector<long long> fine(const string& s, bool islon, double v, bool& grid) {
  long double X;
  long long base = 1000000000LL;
  if (s == "geohash") {
    long double org = islon ? 180.0L : 90.0L;
    X = (((long double)v + org) * 35184372088832.0L) / org;   // 2^45
    base = 1LL << 23;
  } else if (s == "gars") X = ((long double)v + (islon ? 180.0L : 90.0L)) * 24.0L;
  else if (s == "georef") X = ((long double)v + (islon ? 180.0L : 90.0L)) * 120.0e9L;
  else X = ((long double)v + (islon ? 1000000.0L : 500000.0L)) * 2.0e6L;
  long double r = nearbyintl(X);
  if (!(fabsl(X - r) < 0.05L) || !(r >= 0) || !(r < 9.0e18L)) { grid = false; return {0, 0}; }
  long long n = (long long) r;
  return { n / base, n % base };
}

static void do_enc(const vector<string>& t) {
  // enc scheme ak ad bk bd prec
  const string& s = t[1];
  long long ak = atoll(t[2].c_str()), bk = atoll(t[4].c_str());
  int ad = atoi(t[3].c_str()), bd = atoi(t[5].c_str()), prec = atoi(t[6].c_str());
  double a = realise(s, ak, ad), b = realise(s, bk, bd);
  string out = UNCH;
  string res = guarded([&] { forward(s, a, b, prec, out); });
  Rec r; r.str("e", "enc").str("s", s).li("a", {ak, ad}).li("b", {bk, bd}).i("p", prec).str("out", res);
  r.li("code", res == "ok" ? vt::codes(out) : vector<long long>{});
  r.b("untouched", out == UNCH);
  r.emit();
}

static string from_codes(const vector<string>& t, size_t from) {
  string c;
  for (size_t i = from; i < t.size(); ++i) c.push_back(char(atoi(t[i].c_str())));
  return c;
}

static void do_dec(const vector<string>& t) {
  // dec scheme centerp c1 c2 ...
  const string& s = t[1];
  bool centerp = atoi(t[2].c_str()) != 0;
  string code = from_codes(t, 3);
  double a = vt::sentinel(1), b = vt::sentinel(2); int prec = -77;
  string res = guarded([&] { reverse(s, code, a, b, prec, centerp); });
  bool untouched = vt::is_sentinel(a, 1) && vt::is_sentinel(b, 2) && prec == -77;
  Rec r; r.str("e", "dec").str("s", s).li("code", vt::codes(code)).b("c", centerp);
  bool grid = true; vector<long long> x{0, 0}, y{0, 0};
  if (res == "ok") {
    if (std::isnan(a) && std::isnan(b) && !vt::is_sentinel(a, 1) && !vt::is_sentinel(b, 2)) res = "nan";
    else if (std::isnan(a) || std::isnan(b)) res = "other";
    else { y = fine(s, false, a, grid); x = fine(s, true, b, grid); }
  }
  r.str("out", res).i("p", prec).li("x", x).li("y", y).b("grid", grid).b("untouched", untouched);
  r.emit();
}

// ---------------------------------------------------------------- random round-trip records
static double resolution(const string& s, bool islon, int p) {
  if (s == "geohash") return islon ? Geohash::LongitudeResolution(p) : Geohash::LatitudeResolution(p);
  if (s == "gars") return GARS::Resolution(p);
  if (s == "georef") return Georef::Resolution(p);
  return pow(10.0, 5 - p);
}
static long long excess(double p, double c, double res, bool wrap) {
  long double d = (long double)p - (long double)c;
  if (wrap) { d = remainderl(d, 360.0L); }
  long double u = max(fabs(p), fabs(c)); double ul = nextafter((double)u, INFINITY) - (double)u;
  if (ul < 1e-300) ul = 1e-300;
  long double ex = (fabsl(d) - (long double)res / 2) / ul;
  if (!(ex <= 1e6)) return 1000000; /* NaN counts as outside */ if (ex < -1e6) return -1000000;
  return (long long) ceill(ex);
}
static string lowers(string c) { for (auto& ch : c) ch = char(tolower(ch)); return c; }
static string uppers(string c) { for (auto& ch : c) ch = char(toupper(ch)); return c; }

static void do_rt(uint64_t seed, long long n) {
  vt::Rng g(seed);
  const char* schemes[4] = {"geohash", "gars", "georef", "osgb"};
  for (long long it = 0; it < n; ++it) {
    string s = schemes[it % 4];
    int pmin = s == "georef" ? -1 : 0, pmax = s == "geohash" ? 18 : s == "gars" ? 2 : 11;
    int p = int(g.range(pmin, pmax)); if (s == "georef" && p == 1) p = 2;
    double a, b;
    if (s == "osgb") { a = g.uni(-500000, 2000000); b = g.uni(-1000000, 1500000); if (g.range(0, 9) == 0) { a = floor(a); b = floor(b / 1000) * 1000; } }
    else {
      a = g.uni(-90, 90); b = g.uni(-540, 540);
      int k = int(g.range(0, 9));
      if (k == 0) a = (g.coin() ? 90 : -90);
      if (k == 1) { a = floor(a * 12) / 12; b = floor(b * 60) / 60; }
      if (k == 2) b = (g.coin() ? 180 : -180) + 360 * g.range(-1, 1);
      if (k == 3) { a = floor(a); b = floor(b); }
    }
    Rec r; r.str("e", "rt").str("s", s).i("p", p);
    string code, res;
    res = guarded([&] { forward(s, a, b, p, code); });
    r.str("out", res).li("code", vt::codes(code));
    // lower precisions
    string low = "[";
    for (int q = pmin; q < p; ++q) {
      if (s == "georef" && q == 1) continue;
      string cq; guarded([&] { forward(s, a, b, q, cq); });
      if (low.size() > 1) low += ",";
      low += "[";
      for (size_t i = 0; i < cq.size(); ++i) { if (i) low += ","; low += to_string((unsigned char)cq[i]); }
      low += "]";
    }
    low += "]";
    r.raw("lower", low);
    double ac = 0, bc = 0; int dp = -77;
    string dres = guarded([&] { reverse(s, code, ac, bc, dp, true); });
    r.str("dout", dres).i("dp", dp);
    string recode;
    guarded([&] { forward(s, ac, bc, p, recode); });
    r.li("recode", vt::codes(recode));
    double a0 = a, b0 = b;
    r.li("ex", { excess(a0, ac, resolution(s, false, p), false), excess(b0, bc, resolution(s, true, p), s != "osgb") });
    // SW corner is inside the closed cell too: excess measured from the corner must be <= res (+ulps)
    double as = 0, bs = 0; int sp = 0;
    guarded([&] { reverse(s, code, as, bs, sp, false); });
    r.li("exsw", { excess(a0, as + resolution(s, false, p) / 2, resolution(s, false, p), false),
                   excess(b0, bs + resolution(s, true, p) / 2, resolution(s, true, p), s != "osgb") });
    double a1 = 1, b1 = 2, a2 = 3, b2 = 4; int p1 = -1, p2 = -2;
    string r1 = guarded([&] { reverse(s, lowers(code), a1, b1, p1, true); });
    string r2 = guarded([&] { reverse(s, uppers(code), a2, b2, p2, true); });
    r.b("caseeq", r1 == r2 && vt::bits(a1) == vt::bits(a2) && vt::bits(b1) == vt::bits(b2) && p1 == p2 &&
                  vt::bits(a1) == vt::bits(ac) && vt::bits(b1) == vt::bits(bc));
    r.emit();
  }
  // NaN records
  for (int k = 0; k < 4; ++k) {
    string s = schemes[k];
    for (int which = 0; which < 3; ++which) {
      double a = which != 1 ? Math::NaN() : 10.0, b = which != 0 ? Math::NaN() : 20.0;
      if (s == "osgb") { if (which != 1) a = Math::NaN(); else a = 1000; if (which != 0) b = Math::NaN(); else b = 2000; }
      string code; string res = guarded([&] { forward(s, a, b, 2, code); });
      double ac = 1, bc = 2; int dp = -77;
      string dres = guarded([&] { reverse(s, code, ac, bc, dp, true); });
      Rec r; r.str("e", "nan").str("s", s).str("out", res).li("code", vt::codes(code)).str("dout", dres)
        .b("isnan", std::isnan(ac) && std::isnan(bc)).i("dp", dp);
      r.emit();
    }
  }
}

int main(int argc, char** argv) {
  vt::install_terminate();
  if (argc >= 3 && string(argv[1]) == "replay") {
    NB = atoi(argv[2]);
    string line;
    while (getline(cin, line)) {
      auto t = vt::split(line);
      if (t.empty()) continue;
      if (t[0] == "enc") do_enc(t);
      else if (t[0] == "dec") do_dec(t);
    }
    return 0;
  }
  if (argc >= 4 && string(argv[1]) == "record") {
    do_rt(strtoull(argv[2], 0, 10), atoll(argv[3]));
    return 0;
  }
  fprintf(stderr, "usage: drv_grid replay NB < vectors | record seed n\n");
  return 2;
}
