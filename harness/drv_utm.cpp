// Driver for UTMUPS (C04): lattice replays chosen by TLC and seeded random law records.
#include "trace.hpp"
#include <GeographicLib/UTMUPS.hpp>
#include <GeographicLib/MGRS.hpp>
#include <GeographicLib/TransverseMercator.hpp>
#include <GeographicLib/PolarStereographic.hpp>
#include <GeographicLib/Math.hpp>

using namespace GeographicLib;
using namespace std;
using vt::Rec;

template<class F> static string guarded(F f) {
  try { f(); return "ok"; }
  catch (const GeographicErr&) { return "throw"; }
  catch (const std::bad_alloc&) { return "badalloc"; }
  catch (const std::exception&) { return "other"; }
  catch (...) { return "other"; }
}

// metres -> <<floor(metres), nanometres in [0,1e9)>>
static vector<long long> nm(double v) {
  if (!std::isfinite(v) || fabs(v) > 2.0e9) return {2000000000LL, 0};
  long double f = floorl((long double)v);
  long long lo = (long long) floorl(((long double)v - f) * 1.0e9L);
  if (lo >= 1000000000LL) lo = 999999999LL;
  return {(long long) f, lo};
}
static long long clipq(long double v, long double unit) { return vt::q1(v, unit); }

static double grid(long long k, int d) { return vt::eps(k, d, 50000.0); }

static string from_codes(const vector<string>& t, size_t from) {
  string c; for (size_t i = from; i < t.size(); ++i) c.push_back(char(atoi(t[i].c_str()))); return c;
}

// direct projection with the spec-side zone (plumbing check): raw x, y without false origin
static void direct(int zone, bool northp, double lat, double lon, double& x, double& y, double& g, double& k) {
  if (zone > 0) TransverseMercator::UTM().Forward(double(6 * zone - 183), lat, lon, x, y, g, k);
  else PolarStereographic::UPS().Forward(northp, lat, lon, x, y, g, k);
}

// bit-equal, or both NaN written by the library (not the sentinel)
static bool eqd(double a, double b) {
  if (vt::bits(a) == vt::bits(b)) return true;
  bool sa = false, sb = false; for (unsigned j = 1; j <= 4; ++j) { sa = sa || vt::is_sentinel(a, j); sb = sb || vt::is_sentinel(b, j); }
  return std::isnan(a) && std::isnan(b) && !sa && !sb;
}

// one observation of a Forward overload: outputs start as sentinels; when the call throws it is repeated with the
// other initial value of northp (northp may have been "written" with the value it already had)
struct FwdObs { string res; int zone; bool northp; double x, y, g, k; bool untouched; };
template<class F> static FwdObs obs_fwd(F call) {
  FwdObs o; o.zone = -99; o.northp = true; o.x = vt::sentinel(1); o.y = vt::sentinel(2); o.g = vt::sentinel(3); o.k = vt::sentinel(4);
  o.res = guarded([&] { call(o.zone, o.northp, o.x, o.y, o.g, o.k); });
  o.untouched = o.zone == -99 && o.northp && vt::is_sentinel(o.x, 1) && vt::is_sentinel(o.y, 2) && vt::is_sentinel(o.g, 3) && vt::is_sentinel(o.k, 4);
  if (o.res == "throw") {
    int z2 = -99; bool n2 = false; double x2 = vt::sentinel(1), y2 = vt::sentinel(2), g2 = vt::sentinel(3), k2 = vt::sentinel(4);
    guarded([&] { call(z2, n2, x2, y2, g2, k2); });
    o.untouched = o.untouched && z2 == -99 && !n2 && vt::is_sentinel(x2, 1) && vt::is_sentinel(y2, 2);
  }
  return o;
}
// same outcome of two Forward observations (gk: compare convergence and scale as well)
static bool same_fwd(const FwdObs& p, const FwdObs& q, bool gk) {
  return p.res == q.res && p.zone == q.zone && p.northp == q.northp && eqd(p.x, q.x) && eqd(p.y, q.y) && p.untouched == q.untouched
    && (!gk || (eqd(p.g, q.g) && eqd(p.k, q.k)));
}

struct RevObs { string res; double lat, lon, g, k; bool untouched; };
template<class F> static RevObs obs_rev(F call) {
  RevObs o; o.lat = vt::sentinel(1); o.lon = vt::sentinel(2); o.g = vt::sentinel(3); o.k = vt::sentinel(4);
  o.res = guarded([&] { call(o.lat, o.lon, o.g, o.k); });
  o.untouched = vt::is_sentinel(o.lat, 1) && vt::is_sentinel(o.lon, 2) && vt::is_sentinel(o.g, 3) && vt::is_sentinel(o.k, 4);
  return o;
}
static bool same_rev(const RevObs& p, const RevObs& q, bool gk) {   // outputs start from the same sentinels: bit equality covers "untouched"
  return p.res == q.res && eqd(p.lat, q.lat) && eqd(p.lon, q.lon) && (!gk || (eqd(p.g, q.g) && eqd(p.k, q.k)));
}
// outcome class of a Reverse observation: "nan" = returned normally with every output NaN
static string rev_class(const RevObs& o, bool gk) {
  if (o.res == "ok" && std::isnan(o.lat) && std::isnan(o.lon) && (!gk || (std::isnan(o.g) && std::isnan(o.k)))
      && !vt::is_sentinel(o.lat, 1) && !vt::is_sentinel(o.lon, 2)) return "nan";
  return o.res;
}

static void do_sz(const vector<string>& t) {
  long long a = atoll(t[1].c_str()), b = atoll(t[3].c_str()); int da = atoi(t[2].c_str()), db = atoi(t[4].c_str());
  int s = atoi(t[5].c_str()); int zone = -99;
  string res = guarded([&] { zone = UTMUPS::StandardZone(vt::eps(a, da), vt::eps(b, db), s); });
  // the same point with setzone omitted ("if omitted, use the standard rules")
  int dzone = -99; string dres = guarded([&] { dzone = UTMUPS::StandardZone(vt::eps(a, da), vt::eps(b, db)); });
  Rec r; r.str("e", "sz").li("lat", {a, da}).li("lon", {b, db}).i("s", s).str("out", res).i("zone", zone)
    .str("dout", dres).i("dzone", dzone); r.emit();
}

static void do_fwd(const vector<string>& t) {
  long long a = atoll(t[1].c_str()), b = atoll(t[3].c_str()); int da = atoi(t[2].c_str()), db = atoi(t[4].c_str());
  int s = atoi(t[5].c_str()); bool m = atoi(t[6].c_str()) != 0;
  double lat = vt::eps(a, da), lon = vt::eps(b, db);
  FwdObs o = obs_fwd([&](int& z, bool& n, double& x, double& y, double& g, double& k) { UTMUPS::Forward(lat, lon, z, n, x, y, g, k, s, m); });
  const string& res = o.res; int zone = o.zone; bool northp = o.northp; double x = o.x, y = o.y, g = o.g, k = o.k;
  Rec r; r.str("e", "fwd").li("lat", {a, da}).li("lon", {b, db}).i("s", s).b("m", m).str("out", res)
    .i("zone", zone).b("northp", northp).b("untouched", o.untouched);
  // direct projection for the zone the specification expects (sent back so that the spec can classify the rectangle)
  int ez = -99; guarded([&] { ez = UTMUPS::StandardZone(lat, lon, s); });
  bool np = !signbit(lat);
  double x1 = 0, y1 = 0, g1 = 0, k1 = 0; bool havedirect = false;
  if (fabs(lat) <= 90 && ez >= 0) { direct(ez, np, lat, lon, x1, y1, g1, k1); havedirect = true; }
  r.b("hd", havedirect).li("tx", nm(x1)).li("ty", nm(y1));
  r.li("x", res == "ok" ? nm(x) : vector<long long>{0, 0}).li("y", res == "ok" ? nm(y) : vector<long long>{0, 0});
  r.b("gkeq", res == "ok" && vt::bits(g) == vt::bits(g1) && vt::bits(k) == vt::bits(k1));
  // reported scale in units of 1e-9 (the spec knows the documented central scale factors)
  r.i("kq", res == "ok" && std::isfinite(k) ? clipq(k, 1e-9L) : -1);
  // the overload without gamma, k, same (setzone, mgrslimits): "UTMUPS::Forward without returning convergence and scale"
  FwdObs o6 = obs_fwd([&](int& z, bool& n, double& x, double& y, double&, double&) { UTMUPS::Forward(lat, lon, z, n, x, y, s, m); });
  r.b("ov", same_fwd(o6, o, false));
  // omitted arguments: mgrslimits omitted == false; setzone omitted == STANDARD (both overloads)
  FwdObs es = m ? obs_fwd([&](int& z, bool& n, double& x, double& y, double& g, double& k) { UTMUPS::Forward(lat, lon, z, n, x, y, g, k, s, false); }) : o;
  FwdObs dm8 = obs_fwd([&](int& z, bool& n, double& x, double& y, double& g, double& k) { UTMUPS::Forward(lat, lon, z, n, x, y, g, k, s); });
  FwdObs dm6 = obs_fwd([&](int& z, bool& n, double& x, double& y, double&, double&) { UTMUPS::Forward(lat, lon, z, n, x, y, s); });
  FwdObs e8 = obs_fwd([&](int& z, bool& n, double& x, double& y, double& g, double& k) { UTMUPS::Forward(lat, lon, z, n, x, y, g, k, UTMUPS::STANDARD, false); });
  FwdObs d8 = obs_fwd([&](int& z, bool& n, double& x, double& y, double& g, double& k) { UTMUPS::Forward(lat, lon, z, n, x, y, g, k); });
  FwdObs d6 = obs_fwd([&](int& z, bool& n, double& x, double& y, double&, double&) { UTMUPS::Forward(lat, lon, z, n, x, y); });
  r.b("dflt", same_fwd(dm8, es, true) && same_fwd(dm6, es, false) && same_fwd(d8, e8, true) && same_fwd(d6, e8, false));
  r.str("dout", d8.res).i("dzone", d8.zone);
  r.emit();
}

static void do_rev(const vector<string>& t) {
  int z = atoi(t[1].c_str()); bool n = atoi(t[2].c_str()) != 0;
  long long xk = atoll(t[3].c_str()), yk = atoll(t[5].c_str()); int dx = atoi(t[4].c_str()), dy = atoi(t[6].c_str());
  bool m = atoi(t[7].c_str()) != 0;
  double X = grid(xk, dx), Y = grid(yk, dy);
  RevObs o = obs_rev([&](double& la, double& lo, double& g, double& k) { UTMUPS::Reverse(z, n, X, Y, la, lo, g, k, m); });
  string res = rev_class(o, true);
  double lat = o.lat, lon = o.lon, g = o.g, k = o.k;
  bool range = res == "ok" && fabs(lat) <= 90 && fabs(lon) <= 180 && std::isfinite(g) && k > 0;
  Rec r; r.str("e", "rev").i("z", z).b("n", n).li("x", {xk, dx}).li("y", {yk, dy}).b("m", m).str("out", res)
    .b("untouched", o.untouched).b("range", range);
  // the overload without gamma, k, same mgrslimits
  RevObs o6 = obs_rev([&](double& la, double& lo, double&, double&) { UTMUPS::Reverse(z, n, X, Y, la, lo, m); });
  r.b("ov", same_rev(o6, o, false));
  // mgrslimits omitted == false (both overloads)
  RevObs e8 = m ? obs_rev([&](double& la, double& lo, double& g, double& k) { UTMUPS::Reverse(z, n, X, Y, la, lo, g, k, false); }) : o;
  RevObs d8 = obs_rev([&](double& la, double& lo, double& g, double& k) { UTMUPS::Reverse(z, n, X, Y, la, lo, g, k); });
  RevObs d6 = obs_rev([&](double& la, double& lo, double&, double&) { UTMUPS::Reverse(z, n, X, Y, la, lo); });
  r.b("dflt", same_rev(d8, e8, true) && same_rev(d6, e8, false)).str("dout", rev_class(d8, true));
  r.emit();
}

// lattice Transfer: the point (lat, lon) expressed in zone sin (optionally in the other hemisphere's convention),
// transferred to (zout, nout).  ez: the zone the specification expects (-99: several admissible, on a zone edge).
static void do_trl(const vector<string>& t) {
  long long a = atoll(t[1].c_str()), b = atoll(t[3].c_str()); int da = atoi(t[2].c_str());
  int sin = atoi(t[4].c_str()); bool flip = atoi(t[5].c_str()) != 0; int zout = atoi(t[6].c_str());
  bool nout = atoi(t[7].c_str()) != 0; int ez = atoi(t[8].c_str());
  double lat = vt::eps(a, da), lon = vt::eps(b, 0);
  int zin = -99; bool nin = false; double x = 0, y = 0;
  string f0 = guarded([&] { UTMUPS::Forward(lat, lon, zin, nin, x, y, sin); });
  bool flipped = false;
  const double shift = 1.0e7;   // UTMShift() as documented (10^7 m); not taken from the library
  if (f0 == "ok" && flip && zin > 0) { y += (nin ? 1 : -1) * shift; nin = !nin; flipped = true; }
  Rec r; r.str("e", "trl").li("lat", {a, da}).li("lon", {b, 0}).i("sin", sin).i("zin", zin).b("nin", nin).b("flipped", flipped)
    .i("zout", zout).b("nout", nout).i("ez", ez).str("f0", f0);
  double xo = vt::sentinel(1), yo = vt::sentinel(2); int zo = -99; string tres = "none";
  if (f0 == "ok") tres = guarded([&] { UTMUPS::Transfer(zin, nin, x, y, zout, nout, xo, yo, zo); });
  r.str("out", tres).i("zo", zo).b("untouched", vt::is_sentinel(xo, 1) && vt::is_sentinel(yo, 2) && zo == -99);
  // reference through geographic coordinates, in the zone the specification expects (or, on an edge, the zone returned)
  string rres = "none"; bool hm = false; long long err = -1; int zr = -99;
  int zt = ez != -99 ? ez : (tres == "ok" ? zo : -99);
  if (f0 == "ok" && zt >= 0) {
    double la = 0, lo = 0, xr = 0, yr = 0; bool nr = false;
    rres = guarded([&] { UTMUPS::Reverse(zin, nin, x, y, la, lo); UTMUPS::Forward(la, lo, zr, nr, xr, yr, zt); });
    if (rres == "ok") {
      hm = zr == 0 && nr != nout;                       // UPS point in the other hemisphere
      if (zr > 0 && nr != nout) yr += (nout ? -1 : 1) * shift;
      if (tres == "ok") { long double d = hypotl((long double)xo - xr, (long double)yo - yr) * 1e9L; err = !(d <= 2e9L) ? 2000000000LL : (long long) ceill(d); }
    }
  }
  r.str("ref", rres).b("hm", hm).i("zr", zr).i("err", err);
  r.emit();
}

static void do_zs(const vector<string>& t) {
  string s = from_codes(t, 1); int zone = -99; bool n1 = true, n2 = false;
  string res = guarded([&] { UTMUPS::DecodeZone(s, zone, n1); });
  int z2 = -99; guarded([&] { UTMUPS::DecodeZone(s, z2, n2); });
  Rec r; r.str("e", "zs").li("code", vt::codes(s)).str("out", res).i("zone", zone).b("northp", n1)
    .b("untouched", zone == -99 && n1 && !n2 && z2 == -99); r.emit();
}
static void do_ze(const vector<string>& t) {
  int z = atoi(t[1].c_str()); bool n = atoi(t[2].c_str()) != 0, a = atoi(t[3].c_str()) != 0; string out;
  string res = guarded([&] { out = UTMUPS::EncodeZone(z, n, a); });
  Rec r; r.str("e", "ze").i("z", z).b("n", n).b("a", a).str("out", res).li("code", vt::codes(out));
  // "This reverses UTMUPS::DecodeZone": feed the library's own string back into the library
  int z2 = -99; bool n2 = !n; string res2 = "none";
  if (res == "ok") res2 = guarded([&] { UTMUPS::DecodeZone(out, z2, n2); });
  r.str("out2", res2).i("z2", z2).b("n2", n2);
  // abbrev omitted == true
  string dcode; string dres = guarded([&] { dcode = UTMUPS::EncodeZone(z, n); });
  r.str("dout", dres).li("dcode", vt::codes(dcode));
  r.emit();
}
static void do_epsgd(const vector<string>& t) {
  int e = atoi(t[1].c_str()); int z = -99; bool n = true; string res = guarded([&] { UTMUPS::DecodeEPSG(e, z, n); });
  Rec r; r.str("e", "epsgd").i("epsg", e).str("out", res).i("zone", z).b("northp", n); r.emit();
}
static void do_epsge(const vector<string>& t) {
  int z = atoi(t[1].c_str()); bool n = atoi(t[2].c_str()) != 0; int e = -99; string res = guarded([&] { e = UTMUPS::EncodeEPSG(z, n); });
  Rec r; r.str("e", "epsge").i("z", z).b("n", n).str("out", res).i("epsg", e); r.emit();
}

// ------------------------------------------------------------------ random law records
static long long dist_nm(double lat1, double lon1, double lat2, double lon2) {
  long double dlat = ((long double)lat2 - lat1), dlon = remainderl((long double)lon2 - lon1, 360.0L);
  long double c = cosl((long double)lat1 * 3.14159265358979323846L / 180);
  long double m = 111319.49L; // metres per degree (scale only; tolerance law)
  long double d = hypotl(dlat * m, dlon * m * c) * 1e9L;
  return !(d <= 2e9L) ? 2000000000LL : (long long) ceill(d);
}
static long long dnm(double a, double b) { long double d = fabsl((long double)a - b) * 1e9L; return !(d <= 2e9L) ? 2000000000LL : (long long) ceill(d); }

static void do_record(uint64_t seed, long long n) {
  vt::Rng g(seed);
  for (long long it = 0; it < n; ++it) {
    int kind = int(it % 4);
    if (kind == 0 || kind == 1) {  // geographic point -> forward -> reverse
      double lat = g.uni(-90, 90), lon = g.uni(-540, 540);
      int w = int(g.range(0, 11));
      if (w == 0) lat = g.coin() ? 84 : -80; if (w == 1) lat = g.coin() ? 90 : -90;
      if (w == 2) lon = 6 * double(g.range(-30, 30)); if (w == 3) lat = g.uni(83.9, 84.1); if (w == 4) lat = g.uni(-80.1, -79.9);
      if (w == 5) { lat = g.uni(56, 64); lon = g.uni(0, 12); } if (w == 6) { lat = g.uni(72, 84); lon = g.uni(0, 42); }
      int setzone = kind == 0 ? UTMUPS::STANDARD : int(g.range(-3, 60));
      int zone = -99; bool northp = false; double x = 0, y = 0, gam = 0, k = 0;
      string res = guarded([&] { UTMUPS::Forward(lat, lon, zone, northp, x, y, gam, k, setzone); });
      Rec r; r.str("e", "rt").i("s", setzone).str("out", res).i("zone", zone).b("northp", northp).b("north", !signbit(lat));
      r.i("latq", clipq(lat, 1e-6L)).i("lonq", clipq(remainder(lon, 360.0), 1e-6L));
      long long back = -1, dgam = -1, dk = -1, plx = -1, ply = -1; string rres = "none"; int ez = -99;
      guarded([&] { ez = UTMUPS::StandardZone(lat, lon, setzone); });
      if (res == "ok") {
        double lat2, lon2, g2, k2;
        rres = guarded([&] { UTMUPS::Reverse(zone, northp, x, y, lat2, lon2, g2, k2); });
        if (rres == "ok") { back = dist_nm(lat, lon, lat2, lon2); dgam = clipq(fabsl((long double)remainder(gam - g2, 360.0)), 1e-12L); dk = clipq(fabsl((long double)k - k2), 1e-15L); }
        double x1, y1, g1, k1; direct(zone, northp, lat, lon, x1, y1, g1, k1);
        bool utmp = zone > 0;
        double fe = utmp ? 500000.0 : 2000000.0, fn = utmp ? (northp ? 0.0 : 10000000.0) : 2000000.0;
        plx = dnm(x, x1 + fe); ply = dnm(y, y1 + fn);
        r.b("gkeq", vt::bits(gam) == vt::bits(g1) && vt::bits(k) == vt::bits(k1));
      } else r.b("gkeq", false);
      r.i("ez", ez).str("rout", rres).i("back", back).i("dgam", dgam).i("dk", dk).i("plx", plx).i("ply", ply);
      r.emit();
    } else if (kind == 2) {        // grid point -> reverse -> forward (same zone)
      int zone = int(g.range(0, 60)); bool northp = g.coin(); bool mg = g.coin();
      double x, y;
      if (zone == 0) { double lo = northp ? 1200e3 : 700e3, hi = northp ? 2800e3 : 3300e3; x = g.uni(lo, hi); y = g.uni(lo, hi); }
      else { x = g.uni(0, 1000e3); y = northp ? g.uni(-9100e3, 9600e3) : g.uni(900e3, 19600e3); }
      if (g.range(0, 5) == 0) { x = floor(x / 100e3) * 100e3; } if (g.range(0, 5) == 0) { y = floor(y / 100e3) * 100e3; }
      double lat = 0, lon = 0, gam = 0, k = 0;
      string res = guarded([&] { UTMUPS::Reverse(zone, northp, x, y, lat, lon, gam, k, mg); });
      Rec r; r.str("e", "gr").i("z", zone).b("n", northp).b("m", mg).li("x", nm(x)).li("y", nm(y)).str("out", res);
      long long err = -1; string fres = "none"; int z2 = -99; bool n2 = northp;
      if (res == "ok") {
        double x2, y2, g2, k2;
        fres = guarded([&] { UTMUPS::Forward(lat, lon, z2, n2, x2, y2, g2, k2, zone); });
        if (fres == "ok") {
          if (zone > 0 && n2 != northp) y2 += (northp ? -1 : 1) * UTMUPS::UTMShift();   // continued across the equator
          long double d = hypotl((long double)x2 - x, (long double)y2 - y) * 1e9L; err = !(d <= 2e9L) ? 2000000000LL : (long long) ceill(d);
        }
      }
      r.b("latok", res != "ok" || (fabs(lat) <= 90 && fabs(lon) <= 180));
      r.str("fout", fres).i("z2", z2).i("err", err);
      // distance of the point from the rectangle edge (nm, clipped) so that the spec can excuse re-encoding failures at the edge
      r.emit();
    } else {                       // transfer law
      double lat = g.uni(-85, 88), lon = g.uni(-180, 180);
      int zin = -99; bool nin = false; double x = 0, y = 0;
      string f0 = guarded([&] { UTMUPS::Forward(lat, lon, zin, nin, x, y, UTMUPS::STANDARD); });
      // one time in three express the point in a neighbouring zone (where that is in range), so that zonein is not the standard zone
      if (f0 == "ok" && zin > 0 && g.range(0, 2) == 0) {
        int zs = zin + (g.coin() ? 1 : -1); zs = zs < 1 ? 60 : zs > 60 ? 1 : zs;
        int z1 = -99; bool n1 = false; double x1 = 0, y1 = 0;
        if (guarded([&] { UTMUPS::Forward(lat, lon, z1, n1, x1, y1, zs); }) == "ok") { zin = z1; nin = n1; x = x1; y = y1; }
      }
      // one time in three give the UTM input in the other hemisphere's convention (false northing shifted by 10000 km), where that is in range
      bool flipped = false;
      if (f0 == "ok" && zin > 0 && g.range(0, 2) == 0) {
        double y2 = y + (nin ? 1 : -1) * UTMUPS::UTMShift();
        if (nin ? (y2 >= 900e3 && y2 <= 19600e3) : (y2 >= -9100e3 && y2 <= 9600e3)) { y = y2; nin = !nin; flipped = true; }
      }
      int zout = int(g.range(-3, 60)); if (g.coin() && zin > 0) zout = max(1, min(60, zin + int(g.range(-1, 1))));
      bool nout = g.range(0, 3) == 0 ? !nin : nin;
      // one time in eight: a transfer within one zone (or by MATCH) whose input must be refused (coordinates outside the documented
      // ranges, zone number out of range or a pseudo-zone); the reference below goes through Reverse, which refuses it
      if (f0 == "ok" && g.range(0, 7) == 0) {
        int w = int(g.range(0, 5));
        if (w == 0) x = zin > 0 ? 5.0e6 : 9.0e6; else if (w == 1) y = nin ? 9.7e6 : 19.7e6; else if (w == 2) y = nin ? -9.2e6 : 0.8e6;
        else if (w == 3) zin = 61; else if (w == 4) zin = -int(g.range(1, 4)); else x = -1.0;
        zout = g.coin() ? zin : int(UTMUPS::MATCH); nout = g.coin() ? nin : !nin;
      }
      double xo = vt::sentinel(1), yo = vt::sentinel(2); int zo = -99;
      string tres = guarded([&] { UTMUPS::Transfer(zin, nin, x, y, zout, nout, xo, yo, zo); });
      // reference: through geographic coordinates
      double la, lo; int zr = -99; bool nr = false; double xr = 0, yr = 0;
      string rres = guarded([&] {
        UTMUPS::Reverse(zin, nin, x, y, la, lo);
        UTMUPS::Forward(la, lo, zr, nr, xr, yr, zout == UTMUPS::MATCH ? zin : zout);
        if (zr == 0 && nr != nout) throw GeographicErr("hemisphere");
        if (nr != nout) yr += (nout ? -1 : 1) * UTMUPS::UTMShift();
      });
      Rec r; r.str("e", "tr").i("zin", zin).b("nin", nin).i("zout", zout).b("nout", nout).str("f0", f0).str("out", tres).str("ref", rres);
      long long err = -1;
      if (tres == "ok" && rres == "ok") {
        // NaN coordinates (the INVALID zone) agree with NaN coordinates only; a NaN distance must not reach the integer conversion
        bool nx = std::isnan(xo) || std::isnan(xr), ny = std::isnan(yo) || std::isnan(yr);
        long double dx = nx ? ((std::isnan(xo) && std::isnan(xr)) ? 0.0L : 10.0L) : (long double)xo - xr;
        long double dy = ny ? ((std::isnan(yo) && std::isnan(yr)) ? 0.0L : 10.0L) : (long double)yo - yr;
        long double d = hypotl(dx, dy) * 1e9L; err = !(d <= 2e9L) ? 2000000000LL : (long long) ceill(d); }
      r.i("zo", zo).i("zr", zr).i("err", err).b("untouched", vt::is_sentinel(xo, 1) && vt::is_sentinel(yo, 2) && zo == -99).b("flipped", flipped);
      r.emit();
    }
  }
  // NaN contract
  for (int w = 0; w < 4; ++w) {
    double lat = (w & 1) ? Math::NaN() : 10.0, lon = (w & 2) ? Math::NaN() : 20.0;
    int zone = -99; bool northp = false; double x = 1, y = 2, gam = 3, k = 4;
    string res = guarded([&] { UTMUPS::Forward(lat, lon, zone, northp, x, y, gam, k); });
    Rec r; r.str("e", "nanf").i("w", w).str("out", res).i("zone", zone)
      .b("allnan", std::isnan(x) && std::isnan(y) && std::isnan(gam) && std::isnan(k)); r.emit();
    // the same with every kind of requested zone: "calling the class functions with NaNs as arguments is not an error; NaNs are
    // returned" (sz = 0, UPS, is given a latitude that is legal there)
    if (w) for (int sz : {-4, -3, -2, -1, 0, 1, 31, 32, 60}) {
      double la2 = (w & 1) ? Math::NaN() : (sz == 0 ? 85.0 : 10.0); zone = -99; northp = false; x = 1; y = 2; gam = 3; k = 4;
      string res2 = guarded([&] { UTMUPS::Forward(la2, lon, zone, northp, x, y, gam, k, sz); });
      Rec r2; r2.str("e", "nanz").i("w", w).i("sz", sz).str("out", res2).i("zone", zone).b("has", true)
        .b("xn", std::isnan(x)).b("yn", std::isnan(y)).b("gn", std::isnan(gam)).b("kn", std::isnan(k)); r2.emit();
      double x2 = 1, y2 = 2; zone = -99;
      res2 = guarded([&] { UTMUPS::Forward(la2, lon, zone, northp, x2, y2, sz); });
      Rec r3; r3.str("e", "nanz").i("w", w).i("sz", sz).str("out", res2).i("zone", zone).b("has", false)
        .b("xn", std::isnan(x2)).b("yn", std::isnan(y2)).b("gn", true).b("kn", true); r3.emit();
    }
    double la = 1, lo = 2; x = (w & 1) ? Math::NaN() : 500000.0; y = (w & 2) ? Math::NaN() : 1000000.0;
    res = guarded([&] { UTMUPS::Reverse(w == 0 ? UTMUPS::INVALID : 31, true, x, y, la, lo, gam, k); });
    Rec q; q.str("e", "nanr").i("w", w).str("out", res).b("allnan", std::isnan(la) && std::isnan(lo) && std::isnan(gam) && std::isnan(k)); q.emit();
  }
}

int main(int argc, char** argv) {
  vt::install_terminate();
  if (argc >= 2 && string(argv[1]) == "replay") {
    string line;
    while (getline(cin, line)) {
      auto t = vt::split(line); if (t.empty()) continue;
      if (t[0] == "sz") do_sz(t); else if (t[0] == "fwd") do_fwd(t); else if (t[0] == "rev") do_rev(t);
      else if (t[0] == "zs") do_zs(t); else if (t[0] == "ze") do_ze(t); else if (t[0] == "epsgd") do_epsgd(t);
      else if (t[0] == "epsge") do_epsge(t); else if (t[0] == "trl") do_trl(t);
    }
    return 0;
  }
  if (argc >= 4 && string(argv[1]) == "record") { do_record(strtoull(argv[2], 0, 10), atoll(argv[3])); return 0; }
  fprintf(stderr, "usage: drv_utm replay < vectors | record seed n\n"); return 2;
}
