// Driver for PolygonArea (C08): replays TLC-chosen edit histories on the lattice sphere for the five
// back ends (Geodesic, GeodesicExact, Geodesic(exact), Rhumb, Rhumb(exact)) and logs the object's observable state after every step; `record` mode logs residuals of
// the history laws on seeded random polygons over WGS84 / oblate / prolate ellipsoids.
#include "trace.hpp"
#include <GeographicLib/PolygonArea.hpp>
#include <GeographicLib/Geodesic.hpp>
#include <GeographicLib/GeodesicExact.hpp>
#include <GeographicLib/Rhumb.hpp>
#include <GeographicLib/Math.hpp>
#include <memory>
#include <algorithm>

using namespace GeographicLib;
using namespace std;
using vt::Rec;

// ---- a uniform interface over the three instantiations -----------------------------------
struct IPoly {
  virtual ~IPoly() {}
  virtual void Clear() = 0; virtual void AddPoint(double, double) = 0; virtual void AddEdge(double, double) = 0;
  virtual unsigned Compute(bool, bool, double&, double&) const = 0;
  virtual unsigned TestPoint(double, double, bool, bool, double&, double&) const = 0;
  virtual unsigned TestEdge(double, double, bool, bool, double&, double&) const = 0;
  virtual unsigned Num() const = 0; virtual void Cur(double&, double&) const = 0; virtual bool Polyline() const = 0;
  virtual void Inv(double, double, double, double, double&, double&) const = 0;   // the back end's own inverse problem: s12, azi1
};
static void inv_of(const Geodesic& g, double a1, double o1, double a2, double o2, double& s, double& az) { double z; g.Inverse(a1, o1, a2, o2, s, az, z); }
static void inv_of(const GeodesicExact& g, double a1, double o1, double a2, double o2, double& s, double& az) { double z; g.Inverse(a1, o1, a2, o2, s, az, z); }
static void inv_of(const Rhumb& g, double a1, double o1, double a2, double o2, double& s, double& az) { g.Inverse(a1, o1, a2, o2, s, az); }
template<class P, class G> struct PolyT : IPoly {
  G g; P p;
  PolyT(const G& gg, bool polyline) : g(gg), p(g, polyline) {}
  void Clear() { p.Clear(); } void AddPoint(double a, double b) { p.AddPoint(a, b); } void AddEdge(double a, double s) { p.AddEdge(a, s); }
  unsigned Compute(bool r, bool s, double& pe, double& ar) const { return p.Compute(r, s, pe, ar); }
  unsigned TestPoint(double a, double b, bool r, bool s, double& pe, double& ar) const { return p.TestPoint(a, b, r, s, pe, ar); }
  unsigned TestEdge(double a, double d, bool r, bool s, double& pe, double& ar) const { return p.TestEdge(a, d, r, s, pe, ar); }
  unsigned Num() const { return p.NumberPoints(); } void Cur(double& a, double& b) const { p.CurrentPoint(a, b); }
  bool Polyline() const { return p.Polyline(); }
  void Inv(double a1, double o1, double a2, double o2, double& s12, double& az) const { inv_of(g, a1, o1, a2, o2, s12, az); }
};
static IPoly* make(int backend, double a, double f, bool polyline) {
  switch (backend) {
  case 0: return new PolyT<PolygonArea, Geodesic>(Geodesic(a, f), polyline);
  case 1: return new PolyT<PolygonAreaExact, GeodesicExact>(GeodesicExact(a, f), polyline);
  case 2: return new PolyT<PolygonArea, Geodesic>(Geodesic(a, f, true), polyline);
  case 3: return new PolyT<PolygonAreaRhumb, Rhumb>(Rhumb(a, f), polyline);
  default: return new PolyT<PolygonAreaRhumb, Rhumb>(Rhumb(a, f, true), polyline);   // 4: the exact option of the rhumb back end
  }
}

// ---- lattice --------------------------------------------------------------------------------
static const double RA = 180.0 / 3.14159265358979323846264338327950288;   // sphere radius: 1 degree = 1 metre
static const long double PIL = 3.14159265358979323846264338327950288L;
static const double UNT = 2000000002.0;        // marker: output argument left untouched
struct TV { const char* kind; long long lon; };
static const TV TESTV[7] = {{"N", 30}, {"S", -45}, {"E", 0}, {"E", 180}, {"E", -91}, {"E", 200}, {"S", 720}};
static const long long TESTE[3][2] = {{1, 90}, {-1, 181}, {1, 359}};
static const bool FLAGS[4][2] = {{false, false}, {false, true}, {true, false}, {true, true}};
static const bool TFLAGS[2][2] = {{false, false}, {true, true}};

static double lat_of(const string& k) { return k == "N" ? 90.0 : k == "S" ? -90.0 : 0.0; }
static long long qper(double p) { return vt::q1(p, 1e-6L); }                       // micrometres
static long long qarea(double a) { return a == UNT ? 2000000002LL : vt::q1((long double)a * PIL / 180.0L, 1e-6L); }  // micro-U
static string pairs(const vector<vector<long long>>& v) {
  string s = "[";
  for (size_t i = 0; i < v.size(); ++i) { if (i) s += ","; s += "[";
    for (size_t j = 0; j < v[i].size(); ++j) { if (j) s += ","; s += to_string(v[i][j]); } s += "]"; }
  return s + "]";
}

static unique_ptr<IPoly> P;
static int g_backend = 0;

static void observe(Rec& r) {
  double la = 7, lo = 7; P->Cur(la, lo);
  r.i("num", P->Num()).li("cur", {vt::q1(la, 1e-6L), vt::q1(lo, 1e-6L)});
  vector<vector<long long>> comp, tp, te;
  for (auto& f : FLAGS) { double pe = UNT, ar = UNT; unsigned n = P->Compute(f[0], f[1], pe, ar); comp.push_back({(long long) n, qper(pe), qarea(ar)}); }
  for (auto& t : TESTV) for (auto& f : TFLAGS) { double pe = UNT, ar = UNT;
    unsigned n = P->TestPoint(lat_of(t.kind), double(t.lon), f[0], f[1], pe, ar); tp.push_back({(long long) n, qper(pe), qarea(ar)}); }
  for (auto& e : TESTE) for (auto& f : TFLAGS) { double pe = UNT, ar = UNT;
    unsigned n = P->TestEdge(e[0] > 0 ? 90.0 : -90.0, double(e[1]), f[0], f[1], pe, ar); te.push_back({(long long) n, qper(pe), qarea(ar)}); }
  // the tentative queries must not have changed anything
  double la2 = 8, lo2 = 8; P->Cur(la2, lo2); double pe = UNT, ar = UNT; unsigned n2 = P->Compute(false, false, pe, ar);
  bool same = P->Num() == (unsigned) comp[0][0] && n2 == (unsigned) comp[0][0] && qper(pe) == comp[0][1] && qarea(ar) == comp[0][2] &&
    (vt::bits(la) == vt::bits(la2) || (std::isnan(la) && std::isnan(la2))) && (vt::bits(lo) == vt::bits(lo2) || (std::isnan(lo) && std::isnan(lo2)));
  r.raw("comp", pairs(comp)).raw("tp", pairs(tp)).raw("te", pairs(te)).b("same", same);
}

static void replay() {
  string line;
  while (getline(cin, line)) {
    auto t = vt::split(line); if (t.empty()) continue;
    if (t[0] == "new") {
      g_backend = atoi(t[1].c_str()); bool pl = atoi(t[2].c_str()) != 0;
      P.reset(make(g_backend, RA, 0.0, pl));
      Rec r; r.str("e", "Reset").i("backend", g_backend).b("polyline", pl).b("plflag", P->Polyline()); observe(r); r.emit();
    } else if (!P) continue;
    else if (t[0] == "pt") { P->AddPoint(lat_of(t[1]), atof(t[2].c_str()));
      Rec r; r.str("e", "pt").str("k", t[1]).i("lon", atoll(t[2].c_str())); observe(r); r.emit(); }
    else if (t[0] == "ed") { long long d = atoll(t[1].c_str()), s = atoll(t[2].c_str()); P->AddEdge(d > 0 ? 90.0 : -90.0, double(s));
      Rec r; r.str("e", "ed").i("dir", d).i("s", s); observe(r); r.emit(); }
    else if (t[0] == "clear") { P->Clear(); Rec r; r.str("e", "clear"); observe(r); r.emit(); }
  }
}

// ------------------------------------------------------------------ random law records
struct Pt { double lat, lon; };
static void area_of(int backend, double a, double f, const vector<Pt>& v, bool rev, bool sgn, double& per, double& area, bool polyline = false) {
  unique_ptr<IPoly> p(make(backend, a, f, polyline));
  for (auto& q : v) p->AddPoint(q.lat, q.lon);
  per = 0; area = 0; p->Compute(rev, sgn, per, area);
}
static long long q4(long double x) { return vt::q1(fabsl(x), 1e-4L); }     // 1e-4 m^2
static long long qn(long double x) { return vt::q1(fabsl(x), 1e-9L); }     // nm


// ------------------------------------------------------------------ textbook references (long double)
// Used by the absolute rhumb law `ra`.  Documentation (Rhumb.hpp, doc "The area under a rhumb line"): the area under a rhumb
// line is S12 = int c^2 sin(xi) dlambda with lambda linear in the isometric latitude psi, i.e. S12 = lon12 * <c^2 sin xi>
// (mean over psi), and c^2 sin(xi) = b^2/2 * [sin(phi)/(1 - e^2 sin^2 phi) + atanh(e sin phi)/e] (the area of the ellipsoid
// between the equator and latitude phi per radian of longitude).  The length of a rhumb line is
// hypot(psi12, lon12) * (m12/psi12) with m the meridian distance.  All three integrals over phi
//   m12 = int a(1-e^2)/(1-e^2 sin^2 phi)^(3/2) dphi,  psi12 = int (1-e^2)/((1-e^2 sin^2 phi) cos phi) dphi,
//   int [c^2 sin xi] dpsi
// are evaluated by 16-point Gauss-Legendre quadrature on panels of at most 2.5 degrees (|phi| <= 85 degrees).
typedef long double LD;
static const int NGL = 16;
static LD GLX[NGL], GLW[NGL];
static void gl_init() {
  for (int i = 0; i < NGL; ++i) {
    LD x = cosl(PIL * (i + 0.75L) / (NGL + 0.5L)), dp = 1;
    for (int it = 0; it < 100; ++it) {
      LD p0 = 1, p1 = x;
      for (int k = 2; k <= NGL; ++k) { LD p2 = ((2 * k - 1) * x * p1 - (k - 1) * p0) / k; p0 = p1; p1 = p2; }
      dp = NGL * (x * p1 - p0) / (x * x - 1);
      LD dx = p1 / dp; x -= dx;
      if (fabsl(dx) < 1e-21L) break;
    }
    LD p0 = 1, p1 = x;
    for (int k = 2; k <= NGL; ++k) { LD p2 = ((2 * k - 1) * x * p1 - (k - 1) * p0) / k; p0 = p1; p1 = p2; }
    dp = NGL * (x * p1 - p0) / (x * x - 1);
    GLX[i] = x; GLW[i] = 2 / ((1 - x * x) * dp * dp);
  }
}
struct Ell {
  LD a, e2, b;
  Ell(double aa, double f) : a(aa), e2((LD) f * (2 - (LD) f)), b((LD) aa * (1 - (LD) f)) {}
  LD band(LD sphi) const {                       // c^2 sin(xi): ellipsoid area between the equator and phi per radian of longitude
    LD u = sphi;
    if (e2 > 0) { LD e = sqrtl(e2); u = atanhl(e * sphi) / e; }
    else if (e2 < 0) { LD e = sqrtl(-e2); u = atanl(e * sphi) / e; }
    return b * b / 2 * (sphi / (1 - e2 * sphi * sphi) + u);
  }
  // one rhumb leg between latitudes p1, p2 (degrees) with longitude difference l12 (degrees): length and area under it
  void leg(LD p1, LD p2, LD l12, LD& len, LD& S) const {
    LD lam = l12 * PIL / 180;
    if (p1 == p2) { LD sp = sinl(p1 * PIL / 180), cp = cosl(p1 * PIL / 180);
      len = fabsl(lam) * a * cp / sqrtl(1 - e2 * sp * sp); S = lam * band(sp); return; }
    int np = int(ceill(fabsl(p2 - p1) / 2.5L)); if (np < 1) np = 1;
    LD h = (p2 - p1) / np * PIL / 180, im = 0, ip = 0, ia = 0;
    for (int k = 0; k < np; ++k) {
      LD c0 = p1 * PIL / 180 + h * (k + 0.5L);
      for (int i = 0; i < NGL; ++i) {
        LD ph = c0 + h / 2 * GLX[i], sp = sinl(ph), cp = cosl(ph), w = 1 - e2 * sp * sp;
        LD dm = a * (1 - e2) / (w * sqrtl(w)), dpsi = (1 - e2) / (w * cp);
        im += GLW[i] * dm; ip += GLW[i] * dpsi; ia += GLW[i] * dpsi * band(sp);
      }
    }
    im *= h / 2; ip *= h / 2; ia *= h / 2;       // m12, psi12, int c^2 sin(xi) dpsi (all carry the sign of p2 - p1)
    len = hypotl(ip, lam) * (im / ip); S = lam * (ia / ip);
  }
  // point on the ellipsoid (height 0) in cartesian coordinates
  void xyz(LD lat, LD lon, LD r[3]) const {
    LD sp = sinl(lat * PIL / 180), cp = cosl(lat * PIL / 180), N = a / sqrtl(1 - e2 * sp * sp);
    if (fabsl(lat) == 90) cp = 0;
    r[0] = N * cp * cosl(lon * PIL / 180); r[1] = N * cp * sinl(lon * PIL / 180); r[2] = N * (1 - e2) * sp;
  }
  LD chord(LD la1, LD lo1, LD la2, LD lo2) const { LD p[3], q[3]; xyz(la1, lo1, p); xyz(la2, lo2, q);
    return sqrtl((p[0] - q[0]) * (p[0] - q[0]) + (p[1] - q[1]) * (p[1] - q[1]) + (p[2] - q[2]) * (p[2] - q[2])); }
};

// smallest |latitude| reached by the sides of a polygon (micro-degrees, rounded down; 0 if a side crosses the equator): input
// class of the known finding "pro-exact-eq" of C09 (Rhumb(a, f < 0, exact = true) near the equator), used as a guard by the spec
static long long eqdist(const vector<Pt>& v) {
  double m = 90; int n = int(v.size());
  for (int i = 0; i < n; ++i) { m = min(m, fabs(v[i].lat)); if (v[i].lat * v[(i + 1) % n].lat < 0) m = 0; }
  return (long long) floor(m * 1e6);
}

static void record(uint64_t seed, long long n) {
  vt::Rng g(seed);
  vt::Rng g2(seed ^ 0x5DEECE66DULL);        // separate stream for the laws ev / ra (the polygons of the older laws stay as they were)
  gl_init();
  const double fs[] = {0, 1 / 298.257223563, -1 / 298.257223563, 1 / 150.0, -1 / 150.0, 0.01};
  for (long long it = 0; it < n; ++it) {
    double a = g.coin() ? 6378137.0 : 6.4e6, f = fs[g.range(0, 5)];
    if (g.range(0, 3) == 0) { a = 6378137.0; f = 1 / 298.257223563; }
    int backend = int(g.range(0, 4)); if (backend == 3 && fabs(f) > 0.011) backend = 0;
    int nv = int(g.range(3, g.coin() ? 8 : 40));
    vector<Pt> v;
    int shape = int(g.range(0, 5));
    double clat = g.uni(-89, 89), clon = g.uni(-180, 180), rad = pow(10.0, g.uni(-4, 1.6));  // degrees
    if (shape == 0) { clat = g.coin() ? 88 : -88; rad = g.uni(3, 20); }      // encloses a pole
    if (shape == 1) { clon = g.coin() ? 179.5 : 0.2; }                      // straddles 180 / 0
    double th0 = g.uni(0, 360);
    for (int i = 0; i < nv; ++i) {
      double th = th0 + (shape == 2 ? -1 : 1) * 360.0 * i / nv, rr = rad * g.uni(0.7, 1.0);
      double lat = clat + rr * (double) cosl(th * PIL / 180), lon = clon + rr * (double) sinl(th * PIL / 180) / max(0.02, (double) cosl(clat * PIL / 180));
      if (shape == 0) { lat = clat > 0 ? 90 - rr : -90 + rr; lon = th; }
      lat = max(-89.9, min(89.9, lat));     // no accidental pole vertices (pole-to-pole edges are not unique)
      v.push_back({lat, lon});
    }
    if (shape == 3 && nv > 4) { v[1] = v[0]; }                              // zero-length edge
    if (shape == 4) { v[nv / 2].lat = g.coin() ? 90 : -90; }                // a vertex at a pole
    double area0; { unique_ptr<IPoly> dummy; Geodesic gd(a, f); area0 = gd.EllipsoidArea(); }
    double P0, A0, Ps, As;
    area_of(backend, a, f, v, false, false, P0, A0); area_of(backend, a, f, v, false, true, Ps, As);
    Rec r; r.str("e", "rl").i("backend", backend).i("nv", nv).i("shape", shape).i("fq", vt::q1(f, 1e-6L));
    r.i("eq", eqdist(v));
    // rotation of the start vertex
    { vector<Pt> w = v; rotate(w.begin(), w.begin() + g.range(1, nv - 1), w.end()); double p, ar; area_of(backend, a, f, w, false, true, p, ar);
      r.li("rot", {q4(remainderl((long double)ar - As, area0)), qn(p - P0)}); }
    // reversal: complement / negation, and the reverse flag
    { vector<Pt> w(v.rbegin(), v.rend()); double p, ar, p2, ar2, p3, ar3;
      area_of(backend, a, f, w, false, false, p, ar); area_of(backend, a, f, w, false, true, p2, ar2); area_of(backend, a, f, v, true, true, p3, ar3);
      r.li("rev", {q4(remainderl((long double)ar + A0 - area0, area0)), q4(remainderl((long double)ar2 + As, area0)), q4(remainderl((long double)ar3 + As, area0)), qn(p - P0)}); }
    // longitude shifts
    { vector<Pt> w = v; double sh = g.uni(-400, 400); for (auto& q : w) q.lon += sh; double p, ar; area_of(backend, a, f, w, false, true, p, ar);
      vector<Pt> u = v; u[g.range(0, nv - 1)].lon += 360.0 * double(g.range(-2, 2)); double p2, ar2; area_of(backend, a, f, u, false, true, p2, ar2);
      r.li("shift", {q4(remainderl((long double)ar - As, area0)), qn(p - P0), q4(remainderl((long double)ar2 - As, area0)), qn(p2 - P0)}); }
    // cut along the diagonal v0 - vj
    { int j = int(g.range(2, nv - 2 > 2 ? nv - 2 : 2)); if (nv == 3) j = 1;
      if (nv > 3) { vector<Pt> w1(v.begin(), v.begin() + j + 1), w2; w2.push_back(v[0]); for (int i = j; i < nv; ++i) w2.push_back(v[i]);
        double p1, a1, p2, a2; area_of(backend, a, f, w1, false, true, p1, a1); area_of(backend, a, f, w2, false, true, p2, a2);
        vector<Pt> d{v[0], v[j]}; double pd, ad; area_of(backend, a, f, d, false, true, pd, ad, true);
        r.li("diag", {q4(remainderl((long double)a1 + a2 - As, area0)), qn((long double)p1 + p2 - P0 - 2 * (long double)pd)}); }
      else r.li("diag", {0, 0}); }
    // TestPoint / TestEdge == Add + Compute, and they leave the polygon unchanged
    { unique_ptr<IPoly> p(make(backend, a, f, false)); for (int i = 0; i + 1 < nv; ++i) p->AddPoint(v[i].lat, v[i].lon);
      double pt, at; unsigned nn = p->TestPoint(v[nv - 1].lat, v[nv - 1].lon, false, true, pt, at);
      double pc, ac; unsigned n1 = p->Compute(false, true, pc, ac);
      double azi = g.uni(-180, 180), s = g.uni(1, 2e6);
      if (backend >= 3) {   // a rhumb course must not reach a pole (longitude and area are then NaN by definition)
        double room = (90 - fabs(v[nv - 2].lat)) * 1.0e5; if (s * fabs(cos(azi * PIL / 180)) > 0.8 * room) azi = g.coin() ? 90 : -90; }
      double pe = 0, ae = 0, pf = 0, af = 0;
      // (a rhumb course leaving a pole has no defined longitude: not part of the property)
      if (!(backend >= 3 && fabs(v[nv - 2].lat) == 90)) {
        p->TestEdge(azi, s, false, true, pe, ae);
        p->AddEdge(azi, s); p->Compute(false, true, pf, af); }
      // test[6]: one unit in the last place of a double at the size of the largest partial area sum the tentative edge can involve
      // (units of 1e-4 m^2, rounded up), from the inputs only: TestEdge is documented to agree "to within ordinary round-off of the
      // accumulated sums", and the area under a rhumb edge that winds w times around a pole is about w times the ellipsoid's area
      // (bound: (nv + 2) area0 / 2 for the sides plus c2 |dlambda|, |dlambda| <= s |sin azi| / (b' cos(phi')) for a rhumb edge, phi' the
      // highest latitude it can reach, b' the smaller semi-axis; <= 2 pi for a geodesic edge of at most 2000 km)
      long double bmin = fminl((long double)a, (long double)a * (1 - (long double)f)), dlam = 2 * PIL;
      if (backend >= 3) {
        long double phi = fabsl((long double)v[nv - 2].lat) * PIL / 180, reach = fabsl(cosl(azi * PIL / 180)) * s / bmin * 1.01L + 1e-9L;
        long double phif = fminl(phi + reach, PIL / 2 * (1 - 1e-9L));
        dlam = fmaxl(dlam, s * fabsl(sinl(azi * PIL / 180)) / (bmin * cosl(phif))); }
      long double bound = (nv + 2) * (long double)area0 / 2 + (long double)area0 / (4 * PIL) * dlam;
      r.li("test", {q4(remainderl((long double)at - As, area0)), qn(pt - P0), (long long)(nn == (unsigned) nv && n1 == (unsigned)(nv - 1)),
                    q4(remainderl((long double)ae - af, area0)), qn(pe - pf), vt::q1(bound * 0x1p-52L * 1e4L + 0.5L, 1.0L)}); }
    // the other geodesic back end gives the same polygon; the two rhumb back ends (series / exact option) likewise
    { int b2 = backend == 3 ? 4 : backend == 4 ? 3 : (backend + 1) % 3; double p, ar; area_of(b2, a, f, v, false, true, p, ar);
      r.li("xb", {q4(remainderl((long double)ar - As, area0)), qn(p - P0)}); }
    // ev - "edge versus vertex": the same polygon with a random subset of its vertices entered as edges (AddEdge with the
    // azimuth and length of the back end's own inverse problem from the current point to the vertex).  Logged: area and
    // perimeter against the all-AddPoint polygon; the largest distance (3-D chord) between CurrentPoint after such an edge and
    // the vertex it stands for; whether an AddEdge issued on the still empty object left it empty (NumberPoints 0, CurrentPoint
    // NaN) and the final count is right; the number of vertices entered as edges; and, FROM THE INPUTS, the longest side of the
    // polygon as an arc on the sphere (micro-degrees) and the largest |latitude| - the trace spec uses them as the conditioning
    // guard (moving a vertex by d changes the area by about d R tan(arc/2) per adjacent side: unbounded for nearly antipodal
    // vertices; for rhumb lines the factor grows like sec(latitude)).
    // (A rhumb course into or out of a pole has no defined longitude: rhumb legs touching a pole are entered as points.)
    { Ell E(a, f); unique_ptr<IPoly> p(make(backend, a, f, false));
      p->AddEdge(g2.uni(-180, 180), g2.uni(1, 2e6)); bool noop = p->Num() == 0; { double la, lo; p->Cur(la, lo); noop = noop && std::isnan(la) && std::isnan(lo); }
      p->AddPoint(v[0].lat, v[0].lon);
      long long ne = 0; LD dmax = 0, arcmax = 0, latmax = 0;
      for (int i = 0; i < nv; ++i) { const Pt& p1 = v[i]; const Pt& p2 = v[(i + 1) % nv];
        LD f1 = p1.lat * PIL / 180, f2 = p2.lat * PIL / 180, dl = ((LD) p2.lon - (LD) p1.lon) * PIL / 180;
        LD hv = sinl((f2 - f1) / 2) * sinl((f2 - f1) / 2) + cosl(f1) * cosl(f2) * sinl(dl / 2) * sinl(dl / 2);
        LD arc = 2 * asinl(sqrtl(fminl(1.0L, hv))) * 180 / PIL; arcmax = max(arcmax, arc); latmax = max(latmax, fabsl((LD) p1.lat)); }
      for (int i = 1; i < nv; ++i) {
        bool edge = g2.range(0, 2) != 0;
        if (backend >= 3 && (fabs(v[i - 1].lat) == 90 || fabs(v[i].lat) == 90)) edge = false;
        if (!edge) { p->AddPoint(v[i].lat, v[i].lon); continue; }
        double la0, lo0, s12, azi; p->Cur(la0, lo0); p->Inv(la0, lo0, v[i].lat, v[i].lon, s12, azi);
        p->AddEdge(azi, s12); ++ne;
        double la1, lo1; p->Cur(la1, lo1); LD d = E.chord(la1, lo1, v[i].lat, v[i].lon); if (!(d <= dmax)) dmax = d;
      }
      double pe = 0, ae = 0; unsigned nn = p->Compute(false, true, pe, ae);
      r.li("ev", {q4(remainderl((long double)ae - As, area0)), qn(pe - P0), qn(dmax), (long long)(noop && nn == (unsigned) nv), ne,
                  (long long) ceill(arcmax * 1e6L), (long long) ceill(latmax * 1e6L)}); }
    // ra - absolute reference for the rhumb back ends: a polygon with all vertices within |lat| <= 85 and within a longitude
    // band narrower than 180 degrees (so that it cannot enclose a pole and every shortest rhumb leg stays inside the band),
    // some vertices sharing a latitude (legs along parallels) or a longitude (meridian legs), graticule cells among them,
    // random longitudes written with an extra multiple of 360.  Reference: area = - sum of the areas under the legs,
    // perimeter = sum of the leg lengths, from the textbook integrals above.
    if (backend >= 3) {
      Ell E(a, f);
      int kind = int(g2.range(0, 3)), m = int(g2.range(3, 10));
      double c0 = g2.uni(-180, 180), hw = g2.coin() ? g2.uni(0.01, 5) : g2.uni(5, 80);
      double la = g2.uni(-85, 85), lb = g2.uni(-85, 85); if (g2.coin()) { lb = la + g2.uni(-1, 1) * pow(10.0, g2.uni(-6, 0.5)); lb = max(-85.0, min(85.0, lb)); }
      vector<Pt> w;                       // unwrapped longitudes
      if (kind == 0) {                    // graticule cell (two parallels, two meridians) with intermediate vertices
        double lo1 = c0 - hw, lo2 = c0 + hw, s1 = min(la, lb), s2 = max(la, lb); int k1 = int(g2.range(0, 3)), k2 = int(g2.range(0, 3));
        for (int i = 0; i <= k1; ++i) w.push_back({s1, lo1 + (lo2 - lo1) * i / (k1 + 1)});
        w.push_back({s1, lo2}); w.push_back({s2, lo2});
        for (int i = 1; i <= k2; ++i) w.push_back({s2, lo2 + (lo1 - lo2) * i / (k2 + 1)});
        w.push_back({s2, lo1});
        if (g2.coin()) reverse(w.begin(), w.end());
      } else {
        for (int i = 0; i < m; ++i) {
          double lat = g2.coin() ? g2.uni(min(la, lb), max(la, lb)) : g2.uni(-85, 85), lon = c0 + g2.uni(-hw, hw);
          if (kind == 2 && i > 0 && g2.range(0, 2) == 0) lat = w[i - 1].lat;                 // leg along a parallel
          else if (kind == 2 && i > 0 && g2.range(0, 2) == 0) lon = w[i - 1].lon;            // meridian leg
          else if (kind == 3 && i > 0 && g2.coin()) lat = max(-85.0, min(85.0, w[i - 1].lat + g2.uni(-1, 1) * pow(10.0, g2.uni(-12, -3))));  // nearly along a parallel
          w.push_back({lat, lon});
        }
      }
      for (auto& q : w) q.lon = nearbyint(q.lon * 1073741824.0) / 1073741824.0;     // multiples of 2^-30 degree, so that adding 360 k is exact
      int mv = int(w.size()); LD per = 0, sum = 0, lomin = w[0].lon, lomax = w[0].lon, amax = 0;
      for (int i = 0; i < mv; ++i) { const Pt& p1 = w[i]; const Pt& p2 = w[(i + 1) % mv]; LD len, S;
        E.leg(p1.lat, p2.lat, (LD) p2.lon - (LD) p1.lon, len, S); per += len; sum += S;
        lomin = min(lomin, (LD) p1.lon); lomax = max(lomax, (LD) p1.lon); amax = max(amax, fabsl((LD) p1.lat)); }
      vector<Pt> u = w; for (auto& q : u) if (g2.range(0, 3) == 0) q.lon += 360.0 * double(g2.range(-2, 2));   // exact: longitudes are multiples of 2^-30
      double pr, ar; area_of(backend, a, f, u, false, true, pr, ar);
      r.li("ra", {q4(remainderl((long double) ar + sum, area0)), qn((long double) pr - per), mv, (long long) ceill((lomax - lomin) * 1e6L), (long long) ceill(amax * 1e6L), kind, eqdist(w)}); }
    // polyline: perimeter only, area argument untouched
    { unique_ptr<IPoly> p(make(backend, a, f, true)); for (auto& q : v) p->AddPoint(q.lat, q.lon); double pp = 0, ar = UNT; p->Compute(false, true, pp, ar);
      vector<Pt> w = v; double pc, ac; area_of(backend, a, f, w, false, true, pc, ac);
      unique_ptr<IPoly> e(make(backend, a, f, false)); e->AddPoint(v[nv - 1].lat, v[nv - 1].lon); e->AddPoint(v[0].lat, v[0].lon); double pl, al; e->Compute(false, true, pl, al);
      r.li("pl", {(long long)(ar == UNT), qn((long double)pp + pl / 2 - P0)}); }
    // ranges
    r.li("rng", {(long long)(A0 >= 0 && A0 <= area0), (long long)(As > -area0 / 2 - 1e-3 && As <= area0 / 2 + 1e-3)});
    r.emit();
  }
}

int main(int argc, char** argv) {
  vt::install_terminate();
  if (argc >= 2 && string(argv[1]) == "replay") { replay(); return 0; }
  if (argc >= 4 && string(argv[1]) == "record") { record(strtoull(argv[2], 0, 10), atoll(argv[3])); return 0; }
  fprintf(stderr, "usage: drv_poly replay < ops | record seed n\n"); return 2;
}
