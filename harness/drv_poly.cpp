// Driver for PolygonArea (C08): replays TLC-chosen edit histories on the lattice sphere for the four
// back ends and logs the object's observable state after every step; `record` mode logs residuals of
// the history laws on seeded random polygons over WGS84 / oblate / prolate ellipsoids.
#include "trace.hpp"
#include <GeographicLib/PolygonArea.hpp>
#include <GeographicLib/Geodesic.hpp>
#include <GeographicLib/GeodesicExact.hpp>
#include <GeographicLib/Rhumb.hpp>
#include <GeographicLib/Math.hpp>
#include <memory>
#include <algorithm>

using namespace GeographicLib;
using namespace std;
using vt::Rec;

// ---- a uniform interface over the three instantiations -----------------------------------
struct IPoly {
  virtual ~IPoly() {}
  virtual void Clear() = 0; virtual void AddPoint(double, double) = 0; virtual void AddEdge(double, double) = 0;
  virtual unsigned Compute(bool, bool, double&, double&) const = 0;
  virtual unsigned TestPoint(double, double, bool, bool, double&, double&) const = 0;
  virtual unsigned TestEdge(double, double, bool, bool, double&, double&) const = 0;
  virtual unsigned Num() const = 0; virtual void Cur(double&, double&) const = 0; virtual bool Polyline() const = 0;
};
template<class P, class G> struct PolyT : IPoly {
  G g; P p;
  PolyT(const G& gg, bool polyline) : g(gg), p(g, polyline) {}
  void Clear() { p.Clear(); } void AddPoint(double a, double b) { p.AddPoint(a, b); } void AddEdge(double a, double s) { p.AddEdge(a, s); }
  unsigned Compute(bool r, bool s, double& pe, double& ar) const { return p.Compute(r, s, pe, ar); }
  unsigned TestPoint(double a, double b, bool r, bool s, double& pe, double& ar) const { return p.TestPoint(a, b, r, s, pe, ar); }
  unsigned TestEdge(double a, double d, bool r, bool s, double& pe, double& ar) const { return p.TestEdge(a, d, r, s, pe, ar); }
  unsigned Num() const { return p.NumberPoints(); } void Cur(double& a, double& b) const { p.CurrentPoint(a, b); }
  bool Polyline() const { return p.Polyline(); }
};
static IPoly* make(int backend, double a, double f, bool polyline) {
  switch (backend) {
  case 0: return new PolyT<PolygonArea, Geodesic>(Geodesic(a, f), polyline);
  case 1: return new PolyT<PolygonAreaExact, GeodesicExact>(GeodesicExact(a, f), polyline);
  case 2: return new PolyT<PolygonArea, Geodesic>(Geodesic(a, f, true), polyline);
  default: return new PolyT<PolygonAreaRhumb, Rhumb>(Rhumb(a, f), polyline);
  }
}

// ---- lattice --------------------------------------------------------------------------------
static const double RA = 180.0 / 3.14159265358979323846264338327950288;   // sphere radius: 1 degree = 1 metre
static const long double PIL = 3.14159265358979323846264338327950288L;
static const double UNT = 2000000002.0;        // marker: output argument left untouched
struct TV { const char* kind; long long lon; };
static const TV TESTV[6] = {{"N", 30}, {"S", -45}, {"E", 0}, {"E", 180}, {"E", -91}, {"E", 200}};
static const long long TESTE[3][2] = {{1, 90}, {-1, 181}, {1, 359}};
static const bool FLAGS[4][2] = {{false, false}, {false, true}, {true, false}, {true, true}};
static const bool TFLAGS[2][2] = {{false, false}, {true, true}};

static double lat_of(const string& k) { return k == "N" ? 90.0 : k == "S" ? -90.0 : 0.0; }
static long long qper(double p) { return vt::q1(p, 1e-6L); }                       // micrometres
static long long qarea(double a) { return a == UNT ? 2000000002LL : vt::q1((long double)a * PIL / 180.0L, 1e-6L); }  // micro-U
static string pairs(const vector<vector<long long>>& v) {
  string s = "[";
  for (size_t i = 0; i < v.size(); ++i) { if (i) s += ","; s += "[";
    for (size_t j = 0; j < v[i].size(); ++j) { if (j) s += ","; s += to_string(v[i][j]); } s += "]"; }
  return s + "]";
}

static unique_ptr<IPoly> P;
static int g_backend = 0;

static void observe(Rec& r) {
  double la = 7, lo = 7; P->Cur(la, lo);
  r.i("num", P->Num()).li("cur", {vt::q1(la, 1e-6L), vt::q1(lo, 1e-6L)});
  vector<vector<long long>> comp, tp, te;
  for (auto& f : FLAGS) { double pe = UNT, ar = UNT; unsigned n = P->Compute(f[0], f[1], pe, ar); comp.push_back({(long long) n, qper(pe), qarea(ar)}); }
  for (auto& t : TESTV) for (auto& f : TFLAGS) { double pe = UNT, ar = UNT;
    unsigned n = P->TestPoint(lat_of(t.kind), double(t.lon), f[0], f[1], pe, ar); tp.push_back({(long long) n, qper(pe), qarea(ar)}); }
  for (auto& e : TESTE) for (auto& f : TFLAGS) { double pe = UNT, ar = UNT;
    unsigned n = P->TestEdge(e[0] > 0 ? 90.0 : -90.0, double(e[1]), f[0], f[1], pe, ar); te.push_back({(long long) n, qper(pe), qarea(ar)}); }
  // the tentative queries must not have changed anything
  double la2 = 8, lo2 = 8; P->Cur(la2, lo2); double pe = UNT, ar = UNT; unsigned n2 = P->Compute(false, false, pe, ar);
  bool same = P->Num() == (unsigned) comp[0][0] && n2 == (unsigned) comp[0][0] && qper(pe) == comp[0][1] && qarea(ar) == comp[0][2] &&
    (vt::bits(la) == vt::bits(la2) || (std::isnan(la) && std::isnan(la2))) && (vt::bits(lo) == vt::bits(lo2) || (std::isnan(lo) && std::isnan(lo2)));
  r.raw("comp", pairs(comp)).raw("tp", pairs(tp)).raw("te", pairs(te)).b("same", same);
}

static void replay() {
  string line;
  while (getline(cin, line)) {
    auto t = vt::split(line); if (t.empty()) continue;
    if (t[0] == "new") {
      g_backend = atoi(t[1].c_str()); bool pl = atoi(t[2].c_str()) != 0;
      P.reset(make(g_backend, RA, 0.0, pl));
      Rec r; r.str("e", "Reset").i("backend", g_backend).b("polyline", pl).b("plflag", P->Polyline()); observe(r); r.emit();
    } else if (!P) continue;
    else if (t[0] == "pt") { P->AddPoint(lat_of(t[1]), atof(t[2].c_str()));
      Rec r; r.str("e", "pt").str("k", t[1]).i("lon", atoll(t[2].c_str())); observe(r); r.emit(); }
    else if (t[0] == "ed") { long long d = atoll(t[1].c_str()), s = atoll(t[2].c_str()); P->AddEdge(d > 0 ? 90.0 : -90.0, double(s));
      Rec r; r.str("e", "ed").i("dir", d).i("s", s); observe(r); r.emit(); }
    else if (t[0] == "clear") { P->Clear(); Rec r; r.str("e", "clear"); observe(r); r.emit(); }
  }
}

// ------------------------------------------------------------------ random law records
struct Pt { double lat, lon; };
static void area_of(int backend, double a, double f, const vector<Pt>& v, bool rev, bool sgn, double& per, double& area, bool polyline = false) {
  unique_ptr<IPoly> p(make(backend, a, f, polyline));
  for (auto& q : v) p->AddPoint(q.lat, q.lon);
  per = 0; area = 0; p->Compute(rev, sgn, per, area);
}
static long long q4(long double x) { return vt::q1(fabsl(x), 1e-4L); }     // 1e-4 m^2
static long long qn(long double x) { return vt::q1(fabsl(x), 1e-9L); }     // nm

static void record(uint64_t seed, long long n) {
  vt::Rng g(seed);
  const double fs[] = {0, 1 / 298.257223563, -1 / 298.257223563, 1 / 150.0, -1 / 150.0, 0.01};
  for (long long it = 0; it < n; ++it) {
    double a = g.coin() ? 6378137.0 : 6.4e6, f = fs[g.range(0, 5)];
    if (g.range(0, 3) == 0) { a = 6378137.0; f = 1 / 298.257223563; }
    int backend = int(g.range(0, 3)); if (backend == 3 && fabs(f) > 0.011) backend = 0;
    int nv = int(g.range(3, g.coin() ? 8 : 40));
    vector<Pt> v;
    int shape = int(g.range(0, 5));
    double clat = g.uni(-89, 89), clon = g.uni(-180, 180), rad = pow(10.0, g.uni(-4, 1.6));  // degrees
    if (shape == 0) { clat = g.coin() ? 88 : -88; rad = g.uni(3, 20); }      // encloses a pole
    if (shape == 1) { clon = g.coin() ? 179.5 : 0.2; }                      // straddles 180 / 0
    double th0 = g.uni(0, 360);
    for (int i = 0; i < nv; ++i) {
      double th = th0 + (shape == 2 ? -1 : 1) * 360.0 * i / nv, rr = rad * g.uni(0.7, 1.0);
      double lat = clat + rr * (double) cosl(th * PIL / 180), lon = clon + rr * (double) sinl(th * PIL / 180) / max(0.02, (double) cosl(clat * PIL / 180));
      if (shape == 0) { lat = clat > 0 ? 90 - rr : -90 + rr; lon = th; }
      lat = max(-89.9, min(89.9, lat));     // no accidental pole vertices (pole-to-pole edges are not unique)
      v.push_back({lat, lon});
    }
    if (shape == 3 && nv > 4) { v[1] = v[0]; }                              // zero-length edge
    if (shape == 4) { v[nv / 2].lat = g.coin() ? 90 : -90; }                // a vertex at a pole
    double area0; { unique_ptr<IPoly> dummy; Geodesic gd(a, f); area0 = gd.EllipsoidArea(); }
    double P0, A0, Ps, As;
    area_of(backend, a, f, v, false, false, P0, A0); area_of(backend, a, f, v, false, true, Ps, As);
    Rec r; r.str("e", "rl").i("backend", backend).i("nv", nv).i("shape", shape).i("fq", vt::q1(f, 1e-6L));
    // rotation of the start vertex
    { vector<Pt> w = v; rotate(w.begin(), w.begin() + g.range(1, nv - 1), w.end()); double p, ar; area_of(backend, a, f, w, false, true, p, ar);
      r.li("rot", {q4(remainderl((long double)ar - As, area0)), qn(p - P0)}); }
    // reversal: complement / negation, and the reverse flag
    { vector<Pt> w(v.rbegin(), v.rend()); double p, ar, p2, ar2, p3, ar3;
      area_of(backend, a, f, w, false, false, p, ar); area_of(backend, a, f, w, false, true, p2, ar2); area_of(backend, a, f, v, true, true, p3, ar3);
      r.li("rev", {q4(remainderl((long double)ar + A0 - area0, area0)), q4(remainderl((long double)ar2 + As, area0)), q4(remainderl((long double)ar3 + As, area0)), qn(p - P0)}); }
    // longitude shifts
    { vector<Pt> w = v; double sh = g.uni(-400, 400); for (auto& q : w) q.lon += sh; double p, ar; area_of(backend, a, f, w, false, true, p, ar);
      vector<Pt> u = v; u[g.range(0, nv - 1)].lon += 360.0 * double(g.range(-2, 2)); double p2, ar2; area_of(backend, a, f, u, false, true, p2, ar2);
      r.li("shift", {q4(remainderl((long double)ar - As, area0)), qn(p - P0), q4(remainderl((long double)ar2 - As, area0)), qn(p2 - P0)}); }
    // cut along the diagonal v0 - vj
    { int j = int(g.range(2, nv - 2 > 2 ? nv - 2 : 2)); if (nv == 3) j = 1;
      if (nv > 3) { vector<Pt> w1(v.begin(), v.begin() + j + 1), w2; w2.push_back(v[0]); for (int i = j; i < nv; ++i) w2.push_back(v[i]);
        double p1, a1, p2, a2; area_of(backend, a, f, w1, false, true, p1, a1); area_of(backend, a, f, w2, false, true, p2, a2);
        vector<Pt> d{v[0], v[j]}; double pd, ad; area_of(backend, a, f, d, false, true, pd, ad, true);
        r.li("diag", {q4(remainderl((long double)a1 + a2 - As, area0)), qn((long double)p1 + p2 - P0 - 2 * (long double)pd)}); }
      else r.li("diag", {0, 0}); }
    // TestPoint / TestEdge == Add + Compute, and they leave the polygon unchanged
    { unique_ptr<IPoly> p(make(backend, a, f, false)); for (int i = 0; i + 1 < nv; ++i) p->AddPoint(v[i].lat, v[i].lon);
      double pt, at; unsigned nn = p->TestPoint(v[nv - 1].lat, v[nv - 1].lon, false, true, pt, at);
      double pc, ac; unsigned n1 = p->Compute(false, true, pc, ac);
      double azi = g.uni(-180, 180), s = g.uni(1, 2e6);
      if (backend == 3) {   // a rhumb course must not reach a pole (longitude and area are then NaN by definition)
        double room = (90 - fabs(v[nv - 2].lat)) * 1.0e5; if (s * fabs(cos(azi * PIL / 180)) > 0.8 * room) azi = g.coin() ? 90 : -90; }
      double pe = 0, ae = 0, pf = 0, af = 0;
      // (a rhumb course leaving a pole has no defined longitude: not part of the property)
      if (!(backend == 3 && fabs(v[nv - 2].lat) == 90)) {
        p->TestEdge(azi, s, false, true, pe, ae);
        p->AddEdge(azi, s); p->Compute(false, true, pf, af); }
      r.li("test", {q4(remainderl((long double)at - As, area0)), qn(pt - P0), (long long)(nn == (unsigned) nv && n1 == (unsigned)(nv - 1)),
                    q4(remainderl((long double)ae - af, area0)), qn(pe - pf)}); }
    // the other geodesic back end gives the same polygon
    { int b2 = backend == 3 ? 3 : (backend + 1) % 3; double p, ar; area_of(b2, a, f, v, false, true, p, ar);
      r.li("xb", {q4(remainderl((long double)ar - As, area0)), qn(p - P0)}); }
    // polyline: perimeter only, area argument untouched
    { unique_ptr<IPoly> p(make(backend, a, f, true)); for (auto& q : v) p->AddPoint(q.lat, q.lon); double pp = 0, ar = UNT; p->Compute(false, true, pp, ar);
      vector<Pt> w = v; double pc, ac; area_of(backend, a, f, w, false, true, pc, ac);
      unique_ptr<IPoly> e(make(backend, a, f, false)); e->AddPoint(v[nv - 1].lat, v[nv - 1].lon); e->AddPoint(v[0].lat, v[0].lon); double pl, al; e->Compute(false, true, pl, al);
      r.li("pl", {(long long)(ar == UNT), qn((long double)pp + pl / 2 - P0)}); }
    // ranges
    r.li("rng", {(long long)(A0 >= 0 && A0 <= area0), (long long)(As > -area0 / 2 - 1e-3 && As <= area0 / 2 + 1e-3)});
    r.emit();
  }
}

int main(int argc, char** argv) {
  vt::install_terminate();
  if (argc >= 2 && string(argv[1]) == "replay") { replay(); return 0; }
  if (argc >= 4 && string(argv[1]) == "record") { record(strtoull(argv[2], 0, 10), atoll(argv[3])); return 0; }
  fprintf(stderr, "usage: drv_poly replay < ops | record seed n\n"); return 2;
}
