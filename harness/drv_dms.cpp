// Driver for the text subsystem (C10): DMS, Utility::val/str/fract/nummatch/trim/lookup/ParseLine, GeoCoords strings.
// replay: executes TLC-emitted vectors; record: seeded random law records.  Only executes and logs.
// Every item runs in a forked child so that a crash (signal, sanitizer abort) becomes an observation
// (out = "crash") of that item instead of losing the run.
#include "trace.hpp"
#include <GeographicLib/DMS.hpp>
#include <GeographicLib/Utility.hpp>
#include <GeographicLib/GeoCoords.hpp>
#include <GeographicLib/UTMUPS.hpp>
#include <GeographicLib/MGRS.hpp>
#include <GeographicLib/Math.hpp>
#include <functional>
#include <sys/mman.h>
#include <sys/wait.h>

using namespace GeographicLib;
using namespace std;
using vt::Rec;

template<class F> static string guarded(F f) {
  try { f(); return "ok"; }
  catch (const GeographicErr&) { return "throw"; }
  catch (const std::bad_alloc&) { return "badalloc"; }
  catch (const std::exception&) { return "other"; }
  catch (...) { return "other"; }
}

static const long long CLIP = 2000000000LL;
static const long double UNITS = 360000000.0L;      // units per degree (1e-5 arc second)

static double ulp_of(double a) {
  a = fabs(a);
  if (!std::isfinite(a)) return numeric_limits<double>::infinity();
  return nextafter(a, numeric_limits<double>::infinity()) - a;
}
static long long clipll(long double q) { return std::isnan(q) ? CLIP + 1 : q > (long double)CLIP ? CLIP : q < -(long double)CLIP ? -CLIP : (long long) q; }

// A decoded angle as the spec sees it: class, sign bit, <<D, R>> = magnitude rounded to units, and the distance
// of the double from that rounded value in units of 2^-60 degree (clipped).
struct Q { int cls; bool neg; long long D, R, res; };
static Q quant(double v) {
  Q q; q.cls = vt::cls(v); q.neg = std::signbit(v); q.D = CLIP; q.R = 0; q.res = 0;
  if (q.cls != 0) return q;
  long double a = fabsl((long double) v);
  if (a >= 2.0e9L) return q;
  long double d = floorl(a), r = nearbyintl((a - d) * UNITS);
  if (r >= UNITS) { d += 1; r = 0; }
  q.D = (long long) d; q.R = (long long) r;
  long double back = d + r / UNITS;
  q.res = clipll(ceill(fabsl(a - back) * 1152921504606846976.0L));   // 2^60
  return q;
}
static void put(Rec& r, const char* pfx, const Q& q) {
  string p(pfx);
  r.i((p + "c").c_str(), q.cls).b((p + "n").c_str(), q.neg).li((p + "q").c_str(), {q.D, q.R}).i((p + "r").c_str(), q.res);
}

// excess of |y - x| over half a unit of the last printed digit, in ulps of the larger operand (0 if within)
static long long excess(long double e, long double unit, double x, double y) {
  long double h = unit / 2, u = ulp_of(max(fabs(x), fabs(y)));
  if (!(e > h)) return 0;
  return clipll(ceill((e - h) / u));
}

static string from_codes(const vector<string>& t, size_t from, size_t n) {
  string c; for (size_t i = from; i < from + n && i < t.size(); ++i) c.push_back(char(atoi(t[i].c_str()))); return c;
}
// rows carry strings as: length c1 c2 ...
static string take(const vector<string>& t, size_t& pos) {
  size_t n = pos < t.size() ? size_t(atoll(t[pos].c_str())) : 0; string s = from_codes(t, pos + 1, n); pos += 1 + n; return s;
}

// ------------------------------------------------------------------ lattice replays
static void rec_dec(const string& s, const char* e = "dec") {
  DMS::flag ind = DMS::flag(7); double v = vt::sentinel(1);
  string res = guarded([&] { v = DMS::Decode(s, ind); });
  Rec r; r.str("e", e).li("s", vt::codes(s)).str("out", res).str("kf", "none");
  put(r, "v", quant(res == "ok" ? v : 0.0)); r.i("ind", int(ind)).b("untouched", vt::is_sentinel(v, 1) && int(ind) == 7); r.emit();
}
static void do_dec(const vector<string>& t) { size_t p = 1; rec_dec(take(t, p)); }

static void do_ll(const vector<string>& t) {
  size_t p = 1; string a = take(t, p), b = take(t, p); bool w = atoi(t[p].c_str()) != 0;
  double lat = vt::sentinel(1), lon = vt::sentinel(2);
  string res = guarded([&] { DMS::DecodeLatLon(a, b, lat, lon, w); });
  Rec r; r.str("e", "ll").li("a", vt::codes(a)).li("b", vt::codes(b)).b("w", w).str("out", res).str("kf", "none");
  put(r, "lat", quant(res == "ok" ? lat : 0.0)); put(r, "lon", quant(res == "ok" ? lon : 0.0));
  r.b("untouched", vt::is_sentinel(lat, 1) && vt::is_sentinel(lon, 2)); r.emit();
}
static void do_ang(const vector<string>& t, bool azi) {
  size_t p = 1; string a = take(t, p); double v = 0;
  string res = guarded([&] { v = azi ? DMS::DecodeAzimuth(a) : DMS::DecodeAngle(a); });
  Rec r; r.str("e", azi ? "azi" : "ang").li("s", vt::codes(a)).str("out", res).str("kf", "none"); put(r, "v", quant(res == "ok" ? v : 0.0)); r.emit();
}

static long double scale_of(int t) { return t == 0 ? 1.0L : t == 1 ? 60.0L : 3600.0L; }
static long double pow10l_(int p) { long double r = 1; for (int i = 0; i < p; ++i) r *= 10; return r; }

// decode an encoder output again and log the closure observations
static void back(Rec& r, const string& code, double x, long double unit, int ind) {
  DMS::flag i2 = DMS::flag(7); double y = 0;
  string res = guarded([&] { y = DMS::Decode(code, i2); });
  r.str("dout", res).i("dind", int(i2)).i("dcls", res == "ok" ? vt::cls(y) : -1).b("dneg", std::signbit(y));
  long long ex = -1, bk = -1;
  if (res == "ok" && std::isfinite(y) && std::isfinite(x)) {
    long double e = ind == DMS::AZIMUTH ? fabsl(remainderl((long double) y - x, 360.0L)) : fabsl((long double) y - x);
    ex = excess(e, unit, x, ind == DMS::AZIMUTH ? max(fabs(y), 360.0) : y);
    bk = clipll(ceill(e / ulp_of(max(max(fabs(x), fabs(y)), ind == DMS::AZIMUTH ? 360.0 : 0.0))));
  }
  r.i("ex", ex).i("back", bk);
}

static void do_enc(const vector<string>& t, bool half) {
  // enc neg D n d t prec ind sep   |  ench neg D n t prec ind sep
  size_t p = 1; bool neg = atoi(t[p++].c_str()) != 0; long long D = atoll(t[p++].c_str()), n = atoll(t[p++].c_str());
  int d = half ? 0 : atoi(t[p++].c_str()); int tr = atoi(t[p++].c_str()), prec = atoi(t[p++].c_str()), ind = atoi(t[p++].c_str()), sep = atoi(t[p++].c_str());
  long double P = scale_of(tr) * pow10l_(prec);
  double mag = double((long double) D + ((long double) n + (half ? 0.5L : 0.0L)) / P);
  if (d > 0) mag = nextafter(mag, numeric_limits<double>::infinity());
  if (d < 0) mag = nextafter(mag, -numeric_limits<double>::infinity());
  double x = neg ? -mag : mag; string code;
  string res = guarded([&] { code = DMS::Encode(x, DMS::component(tr), unsigned(prec), DMS::flag(ind), char(sep)); });
  Rec r; r.str("e", half ? "ench" : "enc").b("neg", neg).i("D", D).i("n", n).i("d", d).i("t", tr).i("prec", prec).i("ind", ind).i("sep", sep)
    .str("out", res).li("code", vt::codes(code)).str("x", vt::hexf(x)).str("kf", "none");
  back(r, code, x, 1 / P, ind); r.emit();
}
static void do_encp(const vector<string>& t) {
  long long D = atoll(t[1].c_str()); int tr = atoi(t[2].c_str()), prec = atoi(t[3].c_str()), ind = atoi(t[4].c_str());
  double x = double(D) + 0.123456789012345678; string code;
  string res = guarded([&] { code = DMS::Encode(x, DMS::component(tr), unsigned(prec), DMS::flag(ind)); });
  Rec r; r.str("e", "encp").i("D", D).i("t", tr).i("prec", prec).i("ind", ind).str("out", res).li("code", vt::codes(code)).str("kf", "none");
  int pe = min(prec, 15 - 2 * tr);
  back(r, code, x, 1 / (scale_of(tr) * pow10l_(pe)), ind); r.emit();
}

// residual of y against M * 10^E (long double), in eighths of an ulp of y
static long long res_me(double y, bool neg, long long M, int E) {
  long double ref = (long double) M; for (int i = 0; i < E; ++i) ref *= 10; for (int i = 0; i < -E; ++i) ref /= 10;
  if (neg) ref = -ref;
  if (!std::isfinite(y)) return CLIP;
  long double u = ulp_of(y == 0 ? double(ref) : y);
  return clipll(ceill(8 * fabsl((long double) y - ref) / u));
}
static void do_val(const vector<string>& t) {
  size_t p = 1; string s = take(t, p); int has = atoi(t[p].c_str()); bool neg = atoi(t[p + 1].c_str()) != 0; long long M = atoll(t[p + 2].c_str()); int E = atoi(t[p + 3].c_str());
  double y = 0; string res = guarded([&] { y = Utility::val<double>(s); });
  Rec r; r.str("e", "val").li("s", vt::codes(s)).li("echo", {has, neg, M, E}).str("out", res).i("cls", res == "ok" ? vt::cls(y) : -1).b("neg", std::signbit(y))
    .i("res", res == "ok" && has && abs(E) <= 40 ? res_me(y, neg, M, E) : -1).b("zero", y == 0).str("kf", "none"); r.emit();
}
static void do_nm(const vector<string>& t) {
  size_t p = 1; string s = take(t, p); double y = 0; string res = guarded([&] { y = Utility::nummatch<double>(s); });
  Rec r; r.str("e", "nm").li("s", vt::codes(s)).str("out", res).i("cls", y == 0 ? 0 : std::isfinite(y) ? 9 : vt::cls(y)); r.emit();
}
static void do_fr(const vector<string>& t) {
  size_t p = 1; string s = take(t, p); vector<long long> echo; for (size_t i = p; i < t.size(); ++i) echo.push_back(atoll(t[i].c_str()));
  while (echo.size() < 7) echo.push_back(0);
  double y = 0; string res = guarded([&] { y = Utility::fract<double>(s); });
  long long rs = -1;
  if (res == "ok" && echo[0] >= 1 && std::isfinite(y)) {
    auto me = [](bool neg, long long M, int E) { long double ref = (long double) M; for (int i = 0; i < E; ++i) ref *= 10; for (int i = 0; i < -E; ++i) ref /= 10; return neg ? -ref : ref; };
    long double a = me(echo[1], echo[2], int(echo[3])), b = me(echo[4], echo[5], int(echo[6]));
    if (b != 0) { long double ref = (long double) double(a) / (long double) double(b); rs = clipll(ceill(8 * fabsl((long double) y - ref) / ulp_of(y == 0 ? double(ref) : y))); }
  }
  Rec r; r.str("e", "fr").li("s", vt::codes(s)).li("echo", echo).str("out", res).i("cls", res == "ok" ? vt::cls(y) : -1).b("neg", std::signbit(y)).i("res", rs); r.emit();
}
static void do_str(const vector<string>& t) {
  bool neg = atoi(t[1].c_str()) != 0; long long I = atoll(t[2].c_str()), F = atoll(t[3].c_str()); int p = atoi(t[4].c_str()), d = atoi(t[5].c_str());
  double mag = double((long double) I + (long double) F / pow10l_(p));
  if (d > 0) mag = nextafter(mag, numeric_limits<double>::infinity()); if (d < 0) mag = nextafter(mag, -numeric_limits<double>::infinity());
  double x = neg ? -mag : mag; string code;
  string res = guarded([&] { code = Utility::str(x, p); });
  double y = 0; string vres = guarded([&] { y = Utility::val<double>(code); });
  Rec r; r.str("e", "str").b("neg", neg).i("I", I).i("F", F).i("p", p).i("d", d).str("out", res).li("code", vt::codes(code)).str("vout", vres)
    .i("back", vres == "ok" && std::isfinite(y) ? clipll(ceill(fabsl((long double) y - x) / ulp_of(max(fabs(x), fabs(y))))) : -1).b("vneg", std::signbit(y)); r.emit();
}
static void do_pl(const vector<string>& t) {
  size_t p = 1; string s = take(t, p); int eq = atoi(t[p].c_str()), cm = atoi(t[p + 1].c_str()); string key = "?", val = "?"; bool found = false;
  string res = guarded([&] { found = Utility::ParseLine(s, key, val, char(eq), char(cm)); });
  Rec r; r.str("e", "pl").li("s", vt::codes(s)).i("eq", eq).i("cm", cm).str("out", res).b("found", found).li("key", vt::codes(key)).li("val", vt::codes(val)); r.emit();
}
static void do_lk(const vector<string>& t) {
  size_t p = 1; string tb = take(t, p); int c = atoi(t[p].c_str()); int a = -9, b = -9;
  string res = guarded([&] { a = Utility::lookup(tb.c_str(), char(c)); b = Utility::lookup(tb, char(c)); });
  Rec r; r.str("e", "lk").li("t", vt::codes(tb)).i("c", c).str("out", res).i("a", a).i("b", b); r.emit();
}
static void do_trim(const vector<string>& t) {
  size_t p = 1; string s = take(t, p), o; string res = guarded([&] { o = Utility::trim(s); });
  Rec r; r.str("e", "trim").li("s", vt::codes(s)).str("out", res).li("o", vt::codes(o)); r.emit();
}

// the other specialisations of val<T>
static void do_vb(const vector<string>& t) {
  size_t p = 1; string s = take(t, p); bool y = false; string res = guarded([&] { y = Utility::val<bool>(s); });
  Rec r; r.str("e", "vb").li("s", vt::codes(s)).str("out", res).b("val", y); r.emit();
}
static void do_vi(const vector<string>& t) {
  size_t p = 1; string s = take(t, p); int y = 0; string res = guarded([&] { y = Utility::val<int>(s); });
  Rec r; r.str("e", "vi").li("s", vt::codes(s)).str("out", res).b("neg", y < 0).i("mag", y < 0 ? -(long long) y : (long long) y); r.emit();
}
static void do_vs(const vector<string>& t) {
  size_t p = 1; string s = take(t, p), o; string res = guarded([&] { o = Utility::val<string>(s); });
  Rec r; r.str("e", "vs").li("s", vt::codes(s)).str("out", res).li("o", vt::codes(o)); r.emit();
}
// numeric overloads of DMS: Decode(d [, m [, s]]) and the splits Encode(ang, d, m [, s])
static void do_dn(const vector<string>& t) {
  int nargs = atoi(t[1].c_str()); bool dneg = atoi(t[2].c_str()) != 0; long long D = atoll(t[3].c_str()); bool mneg = atoi(t[4].c_str()) != 0; long long M = atoll(t[5].c_str());
  bool sneg = atoi(t[6].c_str()) != 0; long long S = atoll(t[7].c_str());
  double d = dneg ? -double(D) : double(D), m = mneg ? -double(M) : double(M), sc = double((long double) S / 100.0L); if (sneg) sc = -sc;
  double v = 0; string res = guarded([&] { v = nargs == 1 ? DMS::Decode(d) : nargs == 2 ? DMS::Decode(d, m) : DMS::Decode(d, m, sc); });
  Rec r; r.str("e", "dn").i("nargs", nargs).b("dneg", dneg).i("D", D).b("mneg", mneg).i("M", M).b("sneg", sneg).i("S", S).str("out", res); put(r, "v", quant(v)); r.emit();
}
static void do_sp(const vector<string>& t) {
  int form = atoi(t[1].c_str()); bool neg = atoi(t[2].c_str()) != 0; long long D = atoll(t[3].c_str()), M = atoll(t[4].c_str()), S = atoll(t[5].c_str());
  double ang = double((long double) D + (long double) M / 60.0L + (long double) S / 360000.0L); if (neg) ang = -ang;
  double d = vt::sentinel(1), m = vt::sentinel(2), sc = 0;
  string res = guarded([&] { if (form == 2) DMS::Encode(ang, d, m); else DMS::Encode(ang, d, m, sc); });
  bool fin = std::isfinite(d) && std::isfinite(m) && std::isfinite(sc) && fabs(d) < 1e9 && fabs(m) < 1e9 && fabs(sc) < 1e4;
  long long da = fin ? (long long) fabs(d) : -1, ma = fin ? (long long) floor(fabs(m)) : -1, rest = -1; bool mint = true, sn = false;
  if (fin && form == 2) { rest = (long long) nearbyintl(((long double) fabs(m) - (long double) ma) * 6000000.0L); sn = std::signbit(m); }
  if (fin && form == 3) { mint = m == trunc(m); rest = (long long) nearbyintl((long double) fabs(sc) * 100000.0L); sn = std::signbit(sc); }
  Rec r; r.str("e", "sp").i("form", form).b("neg", neg).i("D", D).i("M", M).i("S", S).str("out", res).b("fin", fin)
    .i("d", da).b("dint", fin && d == trunc(d)).b("dn", std::signbit(d)).i("m", ma).b("mint", mint).b("mn", std::signbit(m)).i("rest", rest).b("sn", sn); r.emit();
}

// GeoCoords::Reset(string): outcome and the position held
static void nm_limbs(Rec& r, const char* k, double v) {
  if (!std::isfinite(v) || fabs(v) > 2.0e9) { r.li(k, {CLIP, 0}); return; }
  long double f = floorl((long double) v); long long lo = (long long) floorl(((long double) v - f) * 1.0e9L); if (lo >= 1000000000LL) lo = 999999999LL;
  r.li(k, {(long long) f, lo});
}
// label computed from the input only: two tokens whose longitude token (the one with E/W, or the one opposite an N/S
// token, else by position) starts - after a hemisphere letter - with a number exceeding 180 in magnitude
static string kf_gc(const string& s, bool longfirst) {
  vector<string> tk; string cur;
  for (char c : s) { if (c && strchr(" \t\n\v\f\r,", c)) { if (!cur.empty()) tk.push_back(cur); cur.clear(); } else cur.push_back(c); }
  if (!cur.empty()) tk.push_back(cur);
  if (tk.size() != 2) return "none";
  auto hemi = [](const string& t) { string h; for (char c : {t.front(), t.back()}) { char u = char(toupper(c)); if (u == 'N' || u == 'S') h += 'a'; if (u == 'E' || u == 'W') h += 'o'; } return h; };
  string h0 = hemi(tk[0]), h1 = hemi(tk[1]);
  int lon = longfirst ? 0 : 1;
  if (h0.find('o') != string::npos || h1.find('a') != string::npos) lon = 0;
  if (h1.find('o') != string::npos || h0.find('a') != string::npos) lon = 1;
  string t = tk[size_t(lon)];
  if (!t.empty() && strchr("NSEWnsew", t[0])) t = t.substr(1);
  char* e = nullptr; double v = strtod(t.c_str(), &e);
  if (e == t.c_str()) return "none";
  return std::isfinite(v) && fabs(v) > 180 ? "lonwrap" : "none";
}
// via: the member of the family of equivalent calls that is used (GeoCoordsText.tla, ViaOK)
static void do_gc(const vector<string>& t) {
  size_t p = 1; string s = take(t, p); bool centerp = atoi(t[p].c_str()) != 0, longfirst = atoi(t[p + 1].c_str()) != 0;
  int via = t[0] == "gcv" && p + 2 < t.size() ? atoi(t[p + 2].c_str()) : 0;
  GeoCoords g; string res = guarded([&] {
    switch (via) {
    case 1: g.Reset(s, centerp); break;
    case 2: g.Reset(s); break;
    case 3: g = GeoCoords(s, centerp, longfirst); break;
    case 4: g = GeoCoords(s, centerp); break;
    case 5: g = GeoCoords(s); break;
    default: g.Reset(s, centerp, longfirst); break;
    }
  });
  Rec r; r.str("e", "gc").li("s", vt::codes(s)).b("c", centerp).b("w", longfirst).i("via", via).str("out", res).str("kf", kf_gc(s, longfirst));
  bool ok = res == "ok";
  put(r, "lat", quant(ok ? g.Latitude() : 0.0)); put(r, "lon", quant(ok ? g.Longitude() : 0.0));
  r.i("zone", ok ? g.Zone() : -99).b("northp", ok && g.Northp()); nm_limbs(r, "x", ok ? g.Easting() : 0.0); nm_limbs(r, "y", ok ? g.Northing() : 0.0);
  r.b("altsame", ok && g.AltZone() == g.Zone() && (vt::bits(g.AltEasting()) == vt::bits(g.Easting())) && (vt::bits(g.AltNorthing()) == vt::bits(g.Northing())));
  r.b("isnan", ok && std::isnan(g.Latitude()));
  r.emit();
}

static long long exm(double y, double x, long double unit);
static long long exms(double y, double x, long double unit, bool shifted);
static void do_us(const vector<string>& t) {
  int zone = atoi(t[1].c_str()); bool northp = atoi(t[2].c_str()) != 0; long long E4 = atoll(t[3].c_str()), N4 = atoll(t[4].c_str());
  int prec = atoi(t[5].c_str()); bool abbrev = atoi(t[6].c_str()) != 0;
  long double u = prec >= 0 ? 1 / pow10l_(prec) : pow10l_(-prec);
  double e = double((long double) E4 / 4 * u), n = double((long double) N4 / 4 * u);
  int via = t.size() > 7 ? atoi(t[7].c_str()) : 0;
  GeoCoords g; string code, acode; string res = guarded([&] { if (via) g = GeoCoords(zone, northp, e, n); else g.Reset(zone, northp, e, n);
                                                                 code = g.UTMUPSRepresentation(prec, abbrev); acode = g.AltUTMUPSRepresentation(prec, abbrev); });
  GeoCoords q; string qres = guarded([&] { q.Reset(code); });
  bool ok = res == "ok" && qres == "ok";
  double qy = ok ? q.Northing() : 0; if (ok && q.Zone() > 0 && q.Northp() != northp) qy += (northp ? -1 : 1) * UTMUPS::UTMShift();
  Rec r; r.str("e", "us").i("zone", zone).b("northp", northp).i("E4", E4).i("N4", N4).i("prec", prec).b("abbrev", abbrev).str("out", res)
    .li("code", vt::codes(code)).li("acode", vt::codes(acode)).i("via", via).str("qout", qres).i("qzone", ok ? q.Zone() : -99).b("qnorthp", ok && q.Northp())
    .b("onequator", res == "ok" && g.Latitude() == 0).i("exx", ok ? exm(q.Easting(), e, u) : -1).i("exy", ok ? exm(qy, n, u) : -1).str("kf", "none"); r.emit();
}
// UTM/UPS string with hemisphere override
static void do_uso(const vector<string>& t) {
  int zone = atoi(t[1].c_str()); bool northp = atoi(t[2].c_str()) != 0; long long E4 = atoll(t[3].c_str()), N4 = atoll(t[4].c_str());
  int prec = atoi(t[5].c_str()); bool abbrev = atoi(t[6].c_str()) != 0, np2 = atoi(t[7].c_str()) != 0, alt = atoi(t[8].c_str()) != 0;
  long double u = prec >= 0 ? 1 / pow10l_(prec) : pow10l_(-prec);
  double e = double((long double) E4 / 4 * u), n = double((long double) N4 / 4 * u);
  GeoCoords g; string code; string res = guarded([&] { g.Reset(zone, northp, e, n); code = alt ? g.AltUTMUPSRepresentation(np2, prec, abbrev) : g.UTMUPSRepresentation(np2, prec, abbrev); });
  GeoCoords q; string qres = guarded([&] { q.Reset(code); });
  bool ok = res == "ok" && qres == "ok";
  double qy = ok ? q.Northing() : 0; if (ok && q.Zone() > 0 && q.Northp() != northp) qy += (northp ? -1 : 1) * UTMUPS::UTMShift();
  Rec r; r.str("e", "uso").i("zone", zone).b("northp", northp).i("E4", E4).i("N4", N4).i("prec", prec).b("abbrev", abbrev).b("np2", np2).b("alt", alt).str("out", res)
    .li("code", vt::codes(code)).str("qout", qres).i("qzone", ok ? q.Zone() : -99).b("qnorthp", ok && q.Northp())
    .i("exx", ok ? exm(q.Easting(), e, u) : -1).i("exy", ok ? exms(qy, n, u, np2 != northp || (ok && q.Northp() != northp)) : -1).str("kf", "none"); r.emit();
}

// the undefined position and its representations
static void do_gn(const vector<string>& t) {
  int how = atoi(t[1].c_str()), rep = atoi(t[2].c_str()), prec = atoi(t[3].c_str());
  GeoCoords g; string code; string res = guarded([&] {
    if (how == 1) g.Reset(Math::NaN(), Math::NaN());
    switch (rep) {
    case 0: code = g.GeoRepresentation(prec); break;
    case 1: code = g.DMSRepresentation(prec); break;
    case 2: code = g.UTMUPSRepresentation(prec); break;
    case 3: code = g.UTMUPSRepresentation(prec, false); break;
    case 4: code = g.MGRSRepresentation(prec); break;
    case 5: code = g.AltUTMUPSRepresentation(prec); break;
    case 6: code = g.AltMGRSRepresentation(prec); break;
    default: code = g.UTMUPSRepresentation(true, prec); break;
    }
  });
  GeoCoords q(0.0, 0.0); string qres = guarded([&] { q.Reset(code); });
  Rec r; r.str("e", "gn").i("how", how).i("rep", rep).i("prec", prec).str("rout", res).li("code", vt::codes(code)).str("qout", qres)
    .b("qnan", qres == "ok" && std::isnan(q.Latitude()) && std::isnan(q.Longitude()) && std::isnan(q.Easting()) && std::isnan(q.Northing())).i("qzone", qres == "ok" ? q.Zone() : -99); r.emit();
}

static void replay_item(const string& line) {
  auto t = vt::split(line); if (t.empty()) return;
  const string& k = t[0];
  if (k == "dec") do_dec(t); else if (k == "ll") do_ll(t); else if (k == "ang") do_ang(t, false); else if (k == "azi") do_ang(t, true);
  else if (k == "enc") do_enc(t, false); else if (k == "ench") do_enc(t, true); else if (k == "encp") do_encp(t);
  else if (k == "val") do_val(t); else if (k == "nm") do_nm(t); else if (k == "fr") do_fr(t); else if (k == "str") do_str(t);
  else if (k == "pl") do_pl(t); else if (k == "lk") do_lk(t); else if (k == "trim") do_trim(t); else if (k == "gc" || k == "gcv") do_gc(t); else if (k == "us") do_us(t);
  else if (k == "vb") do_vb(t); else if (k == "vi") do_vi(t); else if (k == "vs") do_vs(t); else if (k == "dn") do_dn(t); else if (k == "sp") do_sp(t); else if (k == "uso") do_uso(t); else if (k == "gn") do_gn(t);
  else { Rec r; r.str("e", "unknown").str("k", k); r.emit(); }
}

// ------------------------------------------------------------------ seeded random law records
static const vector<string> DEGS = {"d", "D", "\xc2\xb0", "\xc2\xba", "\xe2\x81\xb0", "\xcb\x9a", "\xe2\x88\x98", "*", "\xb0", "\xba"};
static const vector<string> MINS = {"'", "`", "\xe2\x80\xb2", "\xe2\x80\xb5", "\xc2\xb4", "\xe2\x80\x98", "\xe2\x80\x99", "\xe2\x80\x9b", "\xca\xb9", "\xcb\x8a", "\xcb\x8b", "\xb4"};
static const vector<string> SECS = {"\"", "\xe2\x80\xb3", "\xe2\x80\xb6", "\xcb\x9d", "\xe2\x80\x9c", "\xe2\x80\x9d", "\xe2\x80\x9f", "\xca\xba"};
static const vector<string> MINUSES = {"-", "\xe2\x80\x90", "\xe2\x80\x91", "\xe2\x80\x93", "\xe2\x80\x94", "\xe2\x88\x92", "\xe2\x9e\x96"};
static const vector<string> PLUSES = {"+", "\xe2\x9e\x95", "\xe2\x81\xa4"};
static const vector<string> SPACES = {"\xc2\xa0", "\xe2\x80\x87", "\xe2\x80\x89", "\xe2\x80\x8a", "\xe2\x80\x8b", "\xe2\x80\xaf", "\xe2\x81\xa3", "\xa0"};

static double rand_angle(vt::Rng& g) {
  int w = int(g.range(0, 13));
  double x;
  switch (w) {
  case 0: x = double(g.range(-720, 720)); break;
  case 1: x = double(g.range(-360, 360)) + double(g.range(0, 59)) / 60; break;
  case 2: x = double(g.range(-360, 360)) + double(g.range(0, 3599)) / 3600; break;
  case 3: x = g.uni(-1, 1) * pow(10.0, -double(g.range(1, 20))); break;
  case 4: x = g.uni(-1, 1) * pow(10.0, double(g.range(3, 14))); break;
  case 5: x = g.coin() ? 0.0 : -0.0; break;
  case 6: x = double(g.range(-360, 360)) + double(g.range(1, 9999)) / 10000; break;
  case 7: x = g.uni(-90, 90); break;
  case 8: x = g.uni(-180, 180); break;
  default: x = g.uni(-360, 360); break;
  }
  int k = int(g.range(-3, 3));          // a few ulps around special values (carry 59.99.. -> 60)
  if (w <= 2 || w == 6) for (int i = 0; i < abs(k); ++i) x = nextafter(x, k > 0 ? 1e300 : -1e300);
  return x;
}

static void rec_rt(vt::Rng& g) {
  double x = rand_angle(g);
  int sp = int(g.range(0, 60)); if (sp == 0) x = Math::NaN(); if (sp == 1) x = Math::infinity(); if (sp == 2) x = -Math::infinity();
  int form = int(g.range(0, 3));        // 0..2: Encode(angle, trailing, prec, ind, sep); 3: Encode(angle, prec, ind, sep)
  int ind = int(g.range(0, form == 3 ? 4 : 3)); int sep = g.range(0, 2) == 0 ? ':' : 0;
  int tr, prec, precarg; string code;
  if (form == 3) {
    precarg = int(g.range(0, 18));
    tr = precarg < 2 ? 0 : precarg < 4 ? 1 : 2; prec = precarg < 2 ? precarg : precarg < 4 ? precarg - 2 : precarg - 4;
  } else { tr = int(g.range(0, 2)); prec = precarg = int(g.range(0, 17)); }
  if (ind == DMS::LATITUDE && std::isfinite(x)) x = remainder(x, 180.0) / 2 * (g.coin() ? 1 : 2);   // keep most latitudes plausible; range is not checked by Encode
  string res = guarded([&] { code = form == 3 ? DMS::Encode(x, unsigned(precarg), DMS::flag(ind), char(sep)) : DMS::Encode(x, DMS::component(tr), unsigned(prec), DMS::flag(ind), char(sep)); });
  int pe = ind == DMS::NUMBER ? precarg : min(prec, 15 - 2 * tr);
  long double unit = ind == DMS::NUMBER ? 1 / pow10l_(precarg) : 1 / (scale_of(tr) * pow10l_(pe));
  Rec r; r.str("e", "rt").i("form", form).i("t", tr).i("prec", prec).i("ind", ind).i("sep", sep).i("xcls", vt::cls(x)).b("xneg", std::signbit(x))
    .str("x", vt::hexf(x)).str("out", res).li("code", vt::codes(code)).str("kf", "none");
  // the angle class the spec needs for the azimuth clause: |x| magnitude class (whole degrees clipped)
  r.i("xdeg", std::isfinite(x) ? clipll(floorl(fabsl((long double) x))) : -1);
  back(r, code, x, unit, ind); r.emit();
}

static void rec_rtn(vt::Rng& g) {
  double x; int w = int(g.range(0, 9));
  switch (w) {
  case 0: x = double(g.range(-1000000, 1000000)); break;
  case 1: x = g.uni(-1, 1) * pow(10.0, double(g.range(-20, 15))); break;
  case 2: x = g.coin() ? 0.0 : -0.0; break;
  case 3: x = double(g.range(-100000, 100000)) / 1000.0; break;
  case 4: x = g.range(0, 2) == 0 ? Math::NaN() : g.coin() ? Math::infinity() : -Math::infinity(); break;
  case 5: x = double(g.range(0, 20000000)) + g.u01(); break;     // UTM-like
  default: x = g.uni(-1000, 1000); break;
  }
  int p = int(g.range(-1, 18)); string code;
  string res = guarded([&] { code = Utility::str(x, p); });
  double y = 0; string vres = guarded([&] { y = Utility::val<double>(code); });
  long long ex = -1; int sig = -1;
  if (vres == "ok" && std::isfinite(x) && std::isfinite(y)) {
    // p < 0: the stream default of 6 significant digits
    long double unit = p >= 0 ? 1 / pow10l_(p) : (x == 0 ? 0.0L : powl(10.0L, floorl(log10l(fabsl((long double) x))) - 5));
    ex = excess(fabsl((long double) y - x), unit, x, y);
  }
  Rec r; r.str("e", "rtn").i("p", p).i("xcls", vt::cls(x)).b("xneg", std::signbit(x)).str("x", vt::hexf(x)).str("out", res).li("code", vt::codes(code))
    .str("vout", vres).i("ycls", vres == "ok" ? vt::cls(y) : -1).b("yneg", std::signbit(y)).i("ex", ex).i("sig", sig); r.emit();
}

// fuzz: strings near the grammar, offered to Decode; logged as ordinary "dec" observations (the spec decides each exactly)
static string num_str(vt::Rng& g, bool frac) {
  static const vector<string> ints = {"0", "4", "04", "9", "30", "59", "60", "61", "89", "90", "180", "359", "360", "00", "007", "1234", ""};
  string s = g.pick(ints);
  if (frac && g.range(0, 2) == 0) { s += "."; int n = int(g.range(0, 8)); for (int i = 0; i < n; ++i) s.push_back(char('0' + (g.range(0, 3) == 0 ? g.range(0, 9) : 0 + (i == n - 1 ? g.range(0, 9) : g.range(0, 9))))); }
  return s;
}
static string gen_dms(vt::Rng& g, bool unicode) {
  string s; int style = int(g.range(0, 3));   // 0 letters, 1 colons, 2 decimal degrees, 3 mixed
  int ncomp = style == 2 ? 1 : int(g.range(1, 3));
  for (int c = 0; c < ncomp; ++c) {
    s += num_str(g, c == ncomp - 1);
    bool lastc = c == ncomp - 1;
    bool colon = style == 1 || (style == 3 && g.coin());
    if (colon) { if (!lastc) s += ":"; }
    else if (!lastc || g.coin()) s += c == 0 ? (unicode ? g.pick(DEGS) : string("d")) : c == 1 ? (unicode ? g.pick(MINS) : string("'")) : (unicode ? g.pick(SECS) : (g.coin() ? string("\"") : string("''")));
  }
  return s;
}
static string gen_piece(vt::Rng& g, bool first, bool unicode) {
  static const char* H = "NSEWnsew";
  string s; int hp = int(g.range(0, 5));
  if (hp == 0 && (first || g.range(0, 3) == 0)) s.push_back(H[g.range(0, 7)]);
  int sg = int(g.range(0, first ? 3 : 1));
  if (!first) s = (sg ? (unicode ? g.pick(MINUSES) : string("-")) : (unicode ? g.pick(PLUSES) : string("+"))) + s;
  else if (sg == 1) s += unicode ? g.pick(MINUSES) : string("-"); else if (sg == 2) s += unicode ? g.pick(PLUSES) : string("+");
  s += gen_dms(g, unicode);
  if (hp == 1 || (hp == 0 && g.range(0, 9) == 0)) s.push_back(H[g.range(0, 7)]);
  return s;
}
static string gen_string(vt::Rng& g) {
  bool unicode = g.range(0, 2) == 0;
  string s = gen_piece(g, true, unicode);
  int extra = g.range(0, 3) == 0 ? int(g.range(1, 2)) : 0;
  for (int i = 0; i < extra; ++i) s += gen_piece(g, false, unicode);
  if (unicode && g.coin()) { size_t pos = size_t(g.range(0, (long long) s.size())); string sp = g.pick(SPACES); if (g.range(0, 3) == 0) sp += sp; s.insert(pos, sp); }
  if (g.range(0, 4) == 0) s = (g.coin() ? " " : "\t ") + s + (g.coin() ? " " : "\n");
  return s;
}
static string mutate(vt::Rng& g, string s) {
  static const char poolc[] = "0123456789.:d'\"+-NSEW ex*`\0\xc2\xb0\xe2\x80\xb2\xb3";
  static const string pool(poolc, sizeof(poolc) - 1), hot = "0569.:d'\"+-NSEW";
  int nmut = int(g.range(1, 3));
  for (int m = 0; m < nmut; ++m) {
    int op = int(g.range(0, 4)); size_t n = s.size(); size_t pos = n ? size_t(g.range(0, (long long) n - 1)) : 0;
    char c = g.coin() ? hot[g.range(0, (long long) hot.size() - 1)] : (g.range(0, 5) == 0 ? char(g.range(0, 255)) : pool[g.range(0, (long long) pool.size() - 1)]);
    if (op == 0 && n) s[pos] = c; else if (op == 1) s.insert(pos, 1, c); else if (op == 2 && n) s.erase(pos, 1);
    else if (op == 3 && n > 1) swap(s[pos], s[(pos + 1) % n]); else if (op == 4 && n) s.insert(pos, s.substr(pos, size_t(g.range(1, 3))));
  }
  return s;
}
static void rec_fz(vt::Rng& g) {
  int w = int(g.range(0, 9)); string s;
  if (w <= 3) s = gen_string(g);
  else if (w <= 6) s = mutate(g, gen_string(g));
  else if (w == 7) {      // mutated encoder output
    double x = rand_angle(g); int tr = int(g.range(0, 2)), prec = int(g.range(0, 6)), ind = int(g.range(0, 3));
    guarded([&] { s = DMS::Encode(x, DMS::component(tr), unsigned(prec), DMS::flag(ind), g.coin() ? ':' : char(0)); }); if (g.coin()) s = mutate(g, s);
  } else { int n = int(g.range(0, 12)); static const string hot = "0569.:d'\"+-NSEW "; for (int i = 0; i < n; ++i) s.push_back(g.range(0, 9) == 0 ? char(g.range(0, 255)) : hot[g.range(0, (long long) hot.size() - 1)]); }
  rec_dec(s, "dec");
}

// GeoCoords: position -> every representation -> Reset -> position
static long long exm(double y, double x, long double unit) { return std::isfinite(y) && std::isfinite(x) ? excess(fabsl((long double) y - x), unit, x, y) : -1; }
// the same when the printed number was x shifted by the false northing: round-off is that of the larger, printed magnitude
static long long exms(double y, double x, long double unit, bool shifted) {
  if (!shifted) return exm(y, x, unit);
  return std::isfinite(y) && std::isfinite(x) ? excess(fabsl((long double) y - x), unit, max(fabs(x), double(UTMUPS::UTMShift())), y) : -1;
}
static void rec_geo(vt::Rng& g) {
  double lat = g.uni(-90, 90), lon = g.uni(-540, 540);
  int w = int(g.range(0, 11));
  if (w == 0) lat = g.coin() ? 90 : -90; if (w == 1) lat = g.coin() ? 84 : -80; if (w == 2) lat = g.uni(83.5, 84.5); if (w == 3) lat = g.uni(-80.5, -79.5);
  if (w == 4) lat = g.uni(-0.01, 0.01); if (w == 5) lon = 6 * double(g.range(-30, 30)) + g.uni(-0.001, 0.001); if (w == 6) lat = g.uni(84, 90) * (g.coin() ? 1 : -1);
  if (w == 7) { lat = double(g.range(-89, 89)); lon = double(g.range(-180, 180)); }
  // the position is set by one of the calls that GeoCoords.hpp declares equivalent
  int pvia = int(g.range(0, 3));
  GeoCoords p; string r0 = guarded([&] {
    switch (pvia) { case 1: p.Reset(lat, lon, UTMUPS::STANDARD); break; case 2: p = GeoCoords(lat, lon); break; case 3: p = GeoCoords(lat, lon, UTMUPS::STANDARD); break; default: p.Reset(lat, lon); break; } });
  int kind = int(g.range(0, 4));      // 0 geo, 1 dms, 2 utm, 3 mgrs, 4 utm with the other token order / long form
  int prec = kind == 0 ? int(g.range(-6, 10)) : kind == 1 ? int(g.range(-6, 11)) : kind == 3 ? int(g.range(-7, 7)) : int(g.range(-6, 10));
  bool longfirst = g.coin(), abbrev = g.coin(), centerp = g.coin(); int sep = g.coin() ? ':' : 0;
  string s; string rres = guarded([&] {
    switch (kind) {
    case 0: s = p.GeoRepresentation(prec, longfirst); break;
    case 1: s = p.DMSRepresentation(prec, longfirst, char(sep)); break;
    case 3: s = p.MGRSRepresentation(prec); break;
    default: s = p.UTMUPSRepresentation(prec, abbrev); break;
    }
  });
  if (kind == 4 && rres == "ok") {     // "Easting Northing Zone" order, commas and tabs as separators
    auto t = vt::split(s); if (t.size() == 3) s = t[1] + (g.coin() ? "," : "\t ") + t[2] + (g.coin() ? ", " : " ") + t[0];
  }
  GeoCoords q; string qres = guarded([&] { q.Reset(s, centerp, longfirst); });
  Rec r; r.str("e", "geo").i("kind", kind).i("prec", prec).b("w", longfirst).b("abbrev", abbrev).b("c", centerp).i("sep", sep)
    .str("lat", vt::hexf(lat)).str("lon", vt::hexf(lon)).str("r0", r0).str("rout", rres).li("code", vt::codes(s)).str("qout", qres).str("kf", "none");
  bool ok = r0 == "ok" && rres == "ok" && qres == "ok";
  r.i("zone", r0 == "ok" ? p.Zone() : -99).b("northp", r0 == "ok" && p.Northp()).i("qzone", ok ? q.Zone() : -99).b("qnorthp", ok && q.Northp());
  r.i("latm", clipll(nearbyintl((long double) lat * 1e6L)));      // latitude in micro-degrees, for the equator / pole clauses
  // the longitude held ("internally longitudes are reduced to [-180, 180]"): its value and its distance from lon modulo 360 in ulps of 360
  r.i("pvia", pvia); put(r, "pl", quant(r0 == "ok" ? p.Longitude() : 0.0));
  r.i("plex", r0 == "ok" ? clipll(ceill(fabsl(remainderl((long double) p.Longitude() - lon, 360.0L)) / ulp_of(max(fabs(lon), 360.0)))) : -1);
  long long exlat = -1, exlon = -1, exx = -1, exy = -1, lox = -1, loy = -1;
  if (ok) {
    int pe = kind == 0 ? max(0, min(9, prec) + 5) : max(0, min(10, prec) + 5);
    if (kind == 0) { long double u = 1 / pow10l_(pe); exlat = exm(q.Latitude(), lat, u); exlon = excess(fabsl(remainderl((long double) q.Longitude() - lon, 360.0L)), u, max(fabs(lon), 360.0), 360.0); }
    if (kind == 1) {
      int tr = pe < 2 ? 0 : pe < 4 ? 1 : 2, pr = pe < 2 ? pe : pe < 4 ? pe - 2 : pe - 4; long double u = 1 / (scale_of(tr) * pow10l_(pr));
      exlat = exm(q.Latitude(), lat, u); exlon = excess(fabsl(remainderl((long double) q.Longitude() - lon, 360.0L)), u, max(fabs(lon), 360.0), 360.0);
    }
    if (kind == 2 || kind == 4) {
      int pc = max(-5, min(9, prec)); long double u = pc >= 0 ? 1 / pow10l_(pc) : pow10l_(-pc);
      double qy = q.Northing(); if (q.Zone() > 0 && q.Northp() != p.Northp()) qy += (p.Northp() ? -1 : 1) * UTMUPS::UTMShift();
      exx = exm(q.Easting(), p.Easting(), u); exy = exm(qy, p.Northing(), u);
    }
    if (kind == 3) {
      int pm = max(-1, min(6, prec) + 5);          // digits per coordinate; -1 = grid zone only
      if (pm >= 0) {
        long double cell = pow10l_(5 - min(pm, 5)) / pow10l_(max(0, pm - 5));
        double qy = q.Northing(); if (q.Zone() > 0 && q.Northp() != p.Northp()) qy += (p.Northp() ? -1 : 1) * UTMUPS::UTMShift();
        long double dx = (long double) p.Easting() - q.Easting(), dy = (long double) p.Northing() - qy;   // original minus decoded
        if (centerp) { exx = exm(q.Easting(), p.Easting(), cell); exy = exm(qy, p.Northing(), cell); }
        // corner mode: 0 <= original - corner < cell, logged in thousandths of a cell
        lox = clipll(floorl(dx / cell * 1000)); loy = clipll(floorl(dy / cell * 1000));
      }
      r.i("pm", pm);
    }
  }
  r.i("exlat", exlat).i("exlon", exlon).i("exx", exx).i("exy", exy).i("lox", lox).i("loy", loy); r.emit();
}

// GeoCoords with an alternate zone / a hemisphere override: every Alt*Representation and UTMUPSRepresentation(northp, ...) -> Reset
static void rec_alt(vt::Rng& g) {
  // a point within half a degree of the boundary between two standard UTM zones, away from the exceptions of Norway and Svalbard
  int kb = int(g.range(-29, 29)); double off = g.uni(-0.5, 0.5); if (off == 0) off = 0.25;
  double lat = g.uni(-60, 55), lon = 6.0 * kb + off; if (g.range(0, 9) == 0) lat = g.uni(-0.01, 0.01);
  GeoCoords p; string r0 = guarded([&] { p.Reset(lat, lon); });
  int zone = r0 == "ok" ? p.Zone() : -99;
  int how = int(g.range(0, 5));       // 0..2 the neighbouring zone, 3 the same zone, 4 STANDARD, 5 MATCH
  int req = how <= 2 ? (off >= 0 ? zone - 1 : zone + 1) : how == 3 ? zone : how == 4 ? UTMUPS::STANDARD : UTMUPS::MATCH;
  int kind = int(g.range(0, 3));      // 0 AltUTMUPS(prec, abbrev), 1 AltUTMUPS(northp, prec, abbrev), 2 AltMGRS(prec), 3 UTMUPS(northp, prec, abbrev)
  int prec = kind == 2 ? int(g.range(-6, 6)) : int(g.range(-6, 9)); bool abbrev = g.coin(), np2 = g.coin();
  string s; string rres = guarded([&] {
    p.SetAltZone(req);
    switch (kind) {
    case 0: s = p.AltUTMUPSRepresentation(prec, abbrev); break;
    case 1: s = p.AltUTMUPSRepresentation(np2, prec, abbrev); break;
    case 2: s = p.AltMGRSRepresentation(prec); break;
    default: s = p.UTMUPSRepresentation(np2, prec, abbrev); break;
    }
  });
  GeoCoords q; string qres = guarded([&] { q.Reset(s, true, false); });
  bool ok = r0 == "ok" && rres == "ok" && qres == "ok";
  Rec r; r.str("e", "alt").i("kind", kind).i("how", how).i("req", req).i("prec", prec).b("abbrev", abbrev).b("np2", np2)
    .str("lat", vt::hexf(lat)).str("lon", vt::hexf(lon)).str("r0", r0).str("rout", rres).li("code", vt::codes(s)).str("qout", qres).str("kf", "none");
  r.i("zone", zone).i("altzone", r0 == "ok" && rres == "ok" ? p.AltZone() : -99).b("northp", r0 == "ok" && p.Northp()).i("qzone", ok ? q.Zone() : -99).b("qnorthp", ok && q.Northp());
  r.i("latm", clipll(nearbyintl((long double) lat * 1e6L)));
  long long exx = -1, exy = -1; int pm = -2;
  if (ok) {
    double pe = kind == 3 ? p.Easting() : p.AltEasting(), pn = kind == 3 ? p.Northing() : p.AltNorthing();
    double qy = q.Northing(); if (q.Zone() > 0 && q.Northp() != p.Northp()) qy += (p.Northp() ? -1 : 1) * UTMUPS::UTMShift();
    if (kind == 2) {
      pm = max(-1, min(6, prec) + 5);
      if (pm >= 0) { long double cell = pow10l_(5 - min(pm, 5)) / pow10l_(max(0, pm - 5)); exx = exm(q.Easting(), pe, cell); exy = exm(qy, pn, cell); }
    } else {
      int pc = max(-5, min(9, prec)); long double u = pc >= 0 ? 1 / pow10l_(pc) : pow10l_(-pc);
      exx = exm(q.Easting(), pe, u); exy = exms(qy, pn, u, ((kind == 1 || kind == 3) && np2 != p.Northp()) || q.Northp() != p.Northp());
    }
  }
  r.i("pm", pm).i("exx", exx).i("exy", exy); r.emit();
}

// DecodeLatLon on a pair of encoder outputs in either order
static void rec_llr(vt::Rng& g) {
  double lat = g.uni(-90, 90), lon = g.uni(-180, 180); if (g.range(0, 9) == 0) lat = double(g.range(-90, 90)); if (g.range(0, 9) == 0) lon = double(g.range(-180, 180));
  int tr = int(g.range(0, 2)), prec = int(g.range(0, 9)), sep = g.coin() ? ':' : 0; bool hemi = g.range(0, 2) != 0, swapped = g.coin(), longfirst = g.coin();
  string a, b; guarded([&] { a = DMS::Encode(lat, DMS::component(tr), unsigned(prec), hemi ? DMS::LATITUDE : DMS::NONE, char(sep));
                             b = DMS::Encode(lon, DMS::component(tr), unsigned(prec), hemi ? DMS::LONGITUDE : DMS::NONE, char(sep)); });
  bool lonfirst_in = hemi ? swapped : longfirst;      // without designators the order must follow longfirst
  double la = vt::sentinel(1), lo = vt::sentinel(2);
  string res = guarded([&] { DMS::DecodeLatLon(lonfirst_in ? b : a, lonfirst_in ? a : b, la, lo, longfirst); });
  long double u = 1 / (scale_of(tr) * pow10l_(min(prec, 15 - 2 * tr)));
  Rec r; r.str("e", "llr").b("hemi", hemi).b("swapped", swapped).b("w", longfirst).str("out", res).li("a", vt::codes(a)).li("b", vt::codes(b))
    .i("exlat", res == "ok" ? exm(la, lat, u) : -1).i("exlon", res == "ok" ? exm(lo, lon, u) : -1).str("kf", "none"); r.emit();
}

static void record_item(uint64_t seed, long long it) {
  vt::Rng g(seed * 0x9E3779B97F4A7C15ULL + uint64_t(it) * 0xD1B54A32D192ED03ULL + 12345);
  switch (it % 10) {
  case 0: case 1: case 2: rec_rt(g); break;
  case 3: rec_rtn(g); break;
  case 4: case 5: case 6: rec_fz(g); break;
  case 7: rec_geo(g); break;
  case 8: if ((it / 10) % 2) rec_alt(g); else rec_geo(g); break;
  default: rec_llr(g); break;
  }
}

// ------------------------------------------------------------------ crash isolation
struct Shared { volatile long long cur; };
static int isolated(long long n, const function<void(long long)>& item, const function<void(long long)>& crashed) {
  Shared* sh = (Shared*) mmap(nullptr, sizeof(Shared), PROT_READ | PROT_WRITE, MAP_SHARED | MAP_ANONYMOUS, -1, 0);
  if (sh == MAP_FAILED) { perror("mmap"); return 2; }
  long long start = 0; int crashes = 0;
  while (start < n) {
    fflush(stdout);
    pid_t pid = fork();
    if (pid < 0) { perror("fork"); return 2; }
    if (pid == 0) {
      for (long long i = start; i < n; ++i) { sh->cur = i; item(i); fflush(stdout); }
      fflush(stdout); _exit(0);
    }
    int st = 0; waitpid(pid, &st, 0);
    if (WIFEXITED(st) && WEXITSTATUS(st) == 0) break;
    long long at = sh->cur; ++crashes;
    fprintf(stderr, "item %lld crashed (status 0x%x)\n", at, st);
    crashed(at); fflush(stdout);
    start = at + 1;
    if (crashes > 200) { fprintf(stderr, "too many crashes\n"); return 4; }
  }
  return 0;
}

int main(int argc, char** argv) {
  vt::install_terminate();
  if (argc >= 2 && string(argv[1]) == "replay") {
    vector<string> lines; string line; while (getline(cin, line)) lines.push_back(line);
    return isolated((long long) lines.size(), [&](long long i) { replay_item(lines[size_t(i)]); },
                    [&](long long i) { Rec r; r.str("e", "crash").str("row", lines[size_t(i)].substr(0, 400)).str("kf", "none"); r.emit(); });
  }
  if (argc >= 4 && string(argv[1]) == "record") {
    uint64_t seed = strtoull(argv[2], 0, 10); long long n = atoll(argv[3]);
    return isolated(n, [&](long long i) { record_item(seed, i); },
                    [&](long long i) { Rec r; r.str("e", "crash").i("item", i).i("seed", (long long) seed).str("kf", "none"); r.emit(); });
  }
  fprintf(stderr, "usage: drv_dms replay < vectors | record seed n\n"); return 2;
}
