// Driver for Geocentric / LocalCartesian (C07): lattice replays chosen by TLC, regime boxes chosen by TLC,
// and seeded random law records.  The driver executes the library and reduces each law to an integer residual
// in a declared unit (fixed textbook formulas in long double); every tolerance, guard and decision is in
// spec/Trace_Geocentric.tla.
//
// Units:  "rel"  = dimensionless residual in units of 1e-18, clipped to +-2e9 (vt::q1)
//         "ppm"  = dimensionless quantity in units of 1e-6, clipped
//         lattice lengths: limbs [floor(metres), nanometres]
#include "trace.hpp"
#include <GeographicLib/Geocentric.hpp>
#include <GeographicLib/LocalCartesian.hpp>
#include <GeographicLib/Ellipsoid.hpp>
#include <GeographicLib/Math.hpp>
#include <memory>

using namespace GeographicLib;
using namespace std;
using vt::Rec;
typedef long double LD;

static const LD PIL = 3.14159265358979323846264338327950288L;
static const LD DEGL = PIL / 180;

// ------------------------------------------------------------------ ellipsoid family (index known to the spec)
struct Fam { double a, f; };
static const double A22 = 4194304.0;   // 2^22
static const vector<Fam>& family() {
  static const vector<Fam> F = {
    {A22, 0.0}, {A22, 1.0 / 128}, {A22, -1.0 / 128},                        // 0..2 lattice ellipsoids
    {6378137.0, 1 / 298.257223563}, {6378137.0, -1 / 298.257223563},        // 3,4
    {1.0, 1.0 / 150}, {57.29577951308232, -1.0 / 150},                      // 5,6
    {6.4e6, 0.01}, {6.4e6, -0.01}, {1.0e7, 0.02}, {1.0e7, -0.02},           // 7..10
    {6378137.0, 0.05}, {6378137.0, -0.05}, {6378137.0, 0.1}, {6378137.0, -0.1},   // 11..14
    {6378137.0, 0.2}, {6378137.0, -0.2},                                    // 15,16
    {1.0, 0.0}, {6371000.0, 0.0},                                           // 17,18 spheres
    {6378137.0, 0.5}, {6378137.0, -1.0}, {6378137.0, 0.9}, {1000.0, -9.0}   // 19..22 "wide" (e > 1/sqrt 2 or b >= 2a)
  };
  return F;
}
static const Geocentric& geoc(int fi) {
  static vector<unique_ptr<Geocentric>> G;
  if (G.empty()) for (auto& m : family()) G.emplace_back(new Geocentric(m.a, m.f));
  return *G[fi];
}
static const Ellipsoid* ellip(int fi) {
  static vector<unique_ptr<Ellipsoid>> E;
  if (E.empty()) for (auto& m : family()) { try { E.emplace_back(new Ellipsoid(m.a, m.f)); } catch (...) { E.emplace_back(nullptr); } }
  return E[fi].get();
}

// ------------------------------------------------------------------ textbook formulas in long double
static void sincosdL(LD x, LD& s, LD& c) {
  int q = 0; LD r = remquol(x, 90.0L, &q); r *= DEGL;
  LD ss = sinl(r), cc = cosl(r);
  switch (unsigned(q) & 3U) {
    case 0U: s = ss; c = cc; break;
    case 1U: s = cc; c = -ss; break;
    case 2U: s = -ss; c = -cc; break;
    default: s = -cc; c = ss; break;
  }
}
struct V3 { LD x, y, z; };
static LD norm(const V3& v) { return hypotl(hypotl(v.x, v.y), v.z); }
static V3 sub(const V3& a, const V3& b) { return {a.x - b.x, a.y - b.y, a.z - b.z}; }
static LD maxl3(LD a, LD b, LD c) { return fmaxl(a, fmaxl(b, c)); }

struct Ell {
  LD a, f, e2, e2m, b;
  explicit Ell(const Fam& m) : a(m.a), f(m.f) { e2 = f * (2 - f); e2m = (1 - f) * (1 - f); b = a * (1 - f); }
  LD nu(LD sphi) const { return a / sqrtl(1 - e2 * sphi * sphi); }
  LD size() const { return fmaxl(a, b); }                                   // largest semi-axis: the scale of round-off
  LD sing() const { return fmaxl(fabsl(a * a - b * b) / a, fabsl(a * a - b * b) / b); }   // radius of the ball holding evolute + singular set
  // closed-form geodetic -> geocentric
  V3 fwd(double lat, double lon, double h) const {
    LD sp, cp, sl, cl; sincosdL(lat, sp, cp); sincosdL(lon, sl, cl);
    LD n = nu(sp);
    return {(n + h) * cp * cl, (n + h) * cp * sl, (e2m * n + h) * sp};
  }
  // distance on the surface corresponding to small latitude / longitude differences at lat0
  LD ds(double lat0, double lon0, double lat1, double lon1) const {
    LD sp, cp; sincosdL(lat0, sp, cp);
    LD w = 1 - e2 * sp * sp, rho = a * e2m / (w * sqrtl(w)), n = a / sqrtl(w);
    LD dphi = ((LD)lat1 - (LD)lat0) * DEGL, dlam = remainderl((LD)lon1 - (LD)lon0, 360.0L) * DEGL;
    return hypotl(rho * dphi, n * cp * dlam);
  }
  // least distance from the meridian-plane point (R >= 0, Z) to the whole meridian ellipse (both sides): best two of N
  // samples in parametric latitude, each refined by golden-section search.  Any value returned is the distance to an
  // actual surface point, so it can only over-estimate the true minimum.
  LD mindist(LD R, LD Z) const {
    const int N = 128; static LD CS[N], SN[N]; static bool init = false;
    if (!init) { for (int i = 0; i < N; ++i) { LD be = -PIL + 2 * PIL * (i + 0.5L) / N; CS[i] = cosl(be); SN[i] = sinl(be); } init = true; }
    auto d = [&](LD beta) { return hypotl(R - a * cosl(beta), Z - b * sinl(beta)); };
    LD v1 = -1, v2 = -1; int i1 = 0, i2 = 0;
    for (int i = 0; i < N; ++i) {
      LD v = hypotl(R - a * CS[i], Z - b * SN[i]);
      if (v1 < 0 || v < v1) { v2 = v1; i2 = i1; v1 = v; i1 = i; } else if (v2 < 0 || v < v2) { v2 = v; i2 = i; }
    }
    LD best = v1;
    for (int c = 0; c < 2; ++c) {
      int ii = c == 0 ? i1 : i2; if (c == 1 && abs(i1 - i2) <= 1) break;
      // grid zoom (robust when the bracket holds two wells, as it does just inside the cusps of the evolute)
      LD mid = -PIL + 2 * PIL * (ii + 0.5L) / N, half = 2 * PIL / N;
      for (int lev = 0; lev < 20; ++lev) {
        LD bv = -1, bx = mid;
        for (int j = -8; j <= 8; ++j) { LD x = mid + half * j / 8; LD v = d(x); if (bv < 0 || v < bv) { bv = v; bx = x; } }
        best = fminl(best, bv); mid = bx; half = half / 4;
      }
    }
    return best;
  }
  // position relative to the evolute of the meridian ellipse: value of (R/Rc)^(2/3) + (Z/Zc)^(2/3) (1 on the evolute)
  LD evol(LD R, LD Z) const {
    LD Rc = fabsl(a * a - b * b) / a, Zc = fabsl(a * a - b * b) / b;
    if (Rc == 0) return 1e30L;
    return cbrtl((R / Rc) * (R / Rc)) + cbrtl((Z / Zc) * (Z / Zc));
  }
};
// east-north-up frame at (lat, lon), row-major 3x3 (columns east, north, up)
static void enu(double lat, double lon, LD M[9]) {
  LD sp, cp, sl, cl; sincosdL(lat, sp, cp); sincosdL(lon, sl, cl);
  M[0] = -sl; M[3] = cl;  M[6] = 0;
  M[1] = -cl * sp; M[4] = -sl * sp; M[7] = cp;
  M[2] = cl * cp;  M[5] = sl * cp;  M[8] = sp;
}
static LD mat_orth(const vector<double>& M) {     // max |M M^T - I|
  LD w = 0;
  for (int i = 0; i < 3; ++i) for (int j = 0; j < 3; ++j) {
    LD s = 0; for (int k = 0; k < 3; ++k) s += (LD)M[3 * i + k] * (LD)M[3 * j + k];
    w = fmaxl(w, fabsl(s - (i == j ? 1 : 0)));
  }
  return w;
}
static LD mat_det(const vector<double>& M) {
  LD a = M[0], b = M[1], c = M[2], d = M[3], e = M[4], f = M[5], g = M[6], h = M[7], i = M[8];
  return a * (e * i - f * h) - b * (d * i - f * g) + c * (d * h - e * g);
}
static LD mat_dev(const vector<double>& M, const LD T[9]) { LD w = 0; for (int i = 0; i < 9; ++i) w = fmaxl(w, fabsl((LD)M[i] - T[i])); return w; }

static string hx(std::initializer_list<double> v) { string s; for (double d : v) { if (!s.empty()) s += " "; s += vt::hexf(d); } return s; }
static long long rel(LD v) { return vt::q1(v, 1e-18L); }
static long long ppm(LD v) { return vt::q1(v, 1e-6L); }
static bool same(double a, double b) { return vt::bits(a) == vt::bits(b) || (std::isnan(a) && std::isnan(b)); }
static bool fin3(double a, double b, double c) { return std::isfinite(a) && std::isfinite(b) && std::isfinite(c); }

// metres -> <<floor(metres), nanometres in [0,1e9)>>
static vector<long long> nm(double v) {
  if (!std::isfinite(v) || fabs(v) > 2.0e9) return {2000000000LL, 0};
  LD f = floorl((LD)v); long long lo = (long long) floorl(((LD)v - f) * 1.0e9L);
  if (lo >= 1000000000LL) lo = 999999999LL;
  return {(long long) f, lo};
}
// matrix entries in units of 1e-9 (exact for 0, +-1)
static vector<long long> mq(const vector<double>& M) { vector<long long> r; for (double m : M) r.push_back(vt::q1(m, 1e-9L)); return r; }
static bool mexact(const vector<double>& M) { for (double m : M) if (!(m == 0 || m == 1 || m == -1)) return false; return true; }
// angle in degrees -> units of 1e-7 degree (180 degrees = 1.8e9 fits a 32-bit int)
static long long d7(double v) { return vt::q1(v, 1e-7L); }

// ------------------------------------------------------------------ lattice replays
static void do_gf(const vector<string>& t) {
  int fi = atoi(t[1].c_str()); long long lat = atoll(t[2].c_str()), lon = atoll(t[3].c_str()), h = atoll(t[4].c_str());
  const Geocentric& g = geoc(fi);
  double X, Y, Z, X2, Y2, Z2; vector<double> M(9, vt::sentinel(1));
  g.Forward(double(lat), double(lon), double(h), X, Y, Z, M);
  g.Forward(double(lat), double(lon), double(h), X2, Y2, Z2);
  Rec r; r.str("e", "gf").i("fi", fi).i("lat", lat).i("lon", lon).i("h", h)
    .li("X", nm(X)).li("Y", nm(Y)).li("Z", nm(Z)).li("M", mq(M)).b("mex", mexact(M))
    .b("same", same(X, X2) && same(Y, Y2) && same(Z, Z2));
  r.emit();
}
static void rev_fields(Rec& r, double lat, double lon, double h, const vector<double>& M) {
  r.i("lat", d7(lat)).i("lon", d7(lon)).b("latex", lat == floor(lat)).b("lonex", lon == floor(lon))
    .i("slat", lat > 0 ? 1 : lat < 0 ? -1 : 0)
    .li("h", nm(h)).li("M", mq(M)).b("mex", mexact(M));
}
static void do_gr(const vector<string>& t) {
  int fi = atoi(t[1].c_str()); long long X = atoll(t[2].c_str()), Y = atoll(t[3].c_str()), Z = atoll(t[4].c_str());
  const Geocentric& g = geoc(fi);
  double lat, lon, h, lat2, lon2, h2; vector<double> M(9, vt::sentinel(1));
  g.Reverse(double(X), double(Y), double(Z), lat, lon, h, M);
  g.Reverse(double(X), double(Y), double(Z), lat2, lon2, h2);
  Ell E(family()[fi]);
  V3 P = E.fwd(lat, lon, h);
  LD e3 = norm(sub(P, V3{(LD)X, (LD)Y, (LD)Z})) / fmaxl(norm(V3{(LD)X, (LD)Y, (LD)Z}), E.size());
  LD T[9]; enu(lat, lon, T);
  Rec r; r.str("e", "gr").i("fi", fi).i("X", X).i("Y", Y).i("Z", Z);
  rev_fields(r, lat, lon, h, M);
  r.i("e3", rel(e3)).i("mo", rel(mat_dev(M, T))).b("same", same(lat, lat2) && same(lon, lon2) && same(h, h2));
  r.emit();
}
static void do_lf(const vector<string>& t) {
  int fi = atoi(t[1].c_str());
  long long lat0 = atoll(t[2].c_str()), lon0 = atoll(t[3].c_str()), h0 = atoll(t[4].c_str());
  long long lat = atoll(t[5].c_str()), lon = atoll(t[6].c_str()), h = atoll(t[7].c_str());
  LocalCartesian L(double(lat0), double(lon0), double(h0), geoc(fi));
  double x, y, z, x2, y2, z2; vector<double> M(9, vt::sentinel(1));
  L.Forward(double(lat), double(lon), double(h), x, y, z, M);
  L.Forward(double(lat), double(lon), double(h), x2, y2, z2);
  Rec r; r.str("e", "lf").i("fi", fi).i("lat0", lat0).i("lon0", lon0).i("h0", h0).i("lat", lat).i("lon", lon).i("h", h)
    .li("x", nm(x)).li("y", nm(y)).li("z", nm(z)).li("M", mq(M)).b("mex", mexact(M))
    .b("same", same(x, x2) && same(y, y2) && same(z, z2))
    .b("org", L.LatitudeOrigin() == double(lat0) && L.HeightOrigin() == double(h0)
              && remainder(L.LongitudeOrigin() - double(lon0), 360.0) == 0);
  r.emit();
}
static void do_lr(const vector<string>& t) {
  int fi = atoi(t[1].c_str());
  long long lat0 = atoll(t[2].c_str()), lon0 = atoll(t[3].c_str()), h0 = atoll(t[4].c_str());
  long long x = atoll(t[5].c_str()), y = atoll(t[6].c_str()), z = atoll(t[7].c_str());
  LocalCartesian L(double(lat0), double(lon0), double(h0), geoc(fi));
  double lat, lon, h; vector<double> M(9, vt::sentinel(1));
  L.Reverse(double(x), double(y), double(z), lat, lon, h, M);
  Ell E(family()[fi]);
  LD T0[9], T[9]; enu(double(lat0), double(lon0), T0); enu(lat, lon, T);
  V3 P0 = E.fwd(double(lat0), double(lon0), double(h0));
  V3 Pg = {P0.x + T0[0] * x + T0[1] * y + T0[2] * z, P0.y + T0[3] * x + T0[4] * y + T0[5] * z, P0.z + T0[6] * x + T0[7] * y + T0[8] * z};
  LD e3 = norm(sub(E.fwd(lat, lon, h), Pg)) / maxl3(norm(Pg), norm(P0), E.size());
  LD w = 0;
  for (int i = 0; i < 3; ++i) for (int j = 0; j < 3; ++j) {
    LD q = 0; for (int k = 0; k < 3; ++k) q += T0[3 * k + i] * T[3 * k + j];
    w = fmaxl(w, fabsl(q - (LD)M[3 * i + j]));
  }
  Rec r; r.str("e", "lr").i("fi", fi).i("lat0", lat0).i("lon0", lon0).i("h0", h0).i("x", x).i("y", y).i("z", z);
  rev_fields(r, lat, lon, h, M);
  r.i("e3", rel(e3)).i("mo", rel(w));
  r.emit();
}

// ------------------------------------------------------------------ law records
// Forward = closed form; rotation matrix = ENU frame; optional M; cross-class circle radius/height
static void rec_fw(int fi, double lat, double lon, double h) {
  const Geocentric& g = geoc(fi); Ell E(family()[fi]);
  double X, Y, Z, X2, Y2, Z2, X3, Y3, Z3; vector<double> M(9, vt::sentinel(1)), M8(8, vt::sentinel(2)), M10(10, vt::sentinel(3));
  g.Forward(lat, lon, h, X, Y, Z);
  g.Forward(lat, lon, h, X2, Y2, Z2, M);
  g.Forward(lat, lon, h, X3, Y3, Z3, M8); g.Forward(lat, lon, h, X3, Y3, Z3, M10);
  bool wrong = true; for (double m : M8) wrong = wrong && vt::is_sentinel(m, 2); for (double m : M10) wrong = wrong && vt::is_sentinel(m, 3);
  V3 P = E.fwd(lat, lon, h);
  LD sc = fmaxl(norm(P), E.size());
  LD T[9]; enu(lat, lon, T);
  Rec r; r.str("e", "fw").i("fi", fi).str("in", hx({lat, lon, h})).i("hq", ppm((LD)h / E.size()))
    .b("fin", fin3(X, Y, Z)).i("dF", rel(norm(sub(V3{X, Y, Z}, P)) / sc))
    .i("mo", rel(mat_dev(M, T))).i("mort", rel(mat_orth(M))).i("mdet", rel(fabsl(mat_det(M) - 1)))
    .b("msame", same(X, X2) && same(Y, Y2) && same(Z, Z2) && same(X, X3) && same(Y, Y3) && same(Z, Z3) && wrong);
  // up column = direction of increasing h (Forward is affine in h): finite difference over d = scale/4
  {
    double d = double(sc / 4), Xd, Yd, Zd; g.Forward(lat, lon, h + d, Xd, Yd, Zd);
    LD dd = (LD)(h + d) - (LD)h;
    LD w = maxl3(fabsl(((LD)Xd - X) / dd - M[2]), fabsl(((LD)Yd - Y) / dd - M[5]), fabsl(((LD)Zd - Z) / dd - M[8]));
    r.i("mup", rel(w));
  }
  const Ellipsoid* el = ellip(fi);
  if (el && fabs(lat) <= 90) {
    double X0, Y0, Z0; g.Forward(lat, lon, 0.0, X0, Y0, Z0);
    r.i("dcr", rel(fabsl(hypotl(X0, Y0) - (LD)el->CircleRadius(lat)) / E.size()))
     .i("dch", rel(fabsl((LD)Z0 - (LD)el->CircleHeight(lat)) / E.size()));
  } else r.i("dcr", -1).i("dch", -1);
  r.emit();
}

// Reverse o Forward (library forward, library reverse), compared as in the documentation's error analysis
static void rec_rt(int fi, double lat, double lon, double h) {
  const Geocentric& g = geoc(fi); Ell E(family()[fi]);
  double X, Y, Z, lat1, lon1, h1;
  g.Forward(lat, lon, h, X, Y, Z);
  g.Reverse(X, Y, Z, lat1, lon1, h1);
  LD sp, cp; sincosdL(lat, sp, cp);
  // margins (h - hmin) for the two candidate principal-domain bounds: the normal reaches the equatorial plane at
  // h = -(1-e^2) nu (cut locus of an oblate ellipsoid) and the axis at h = -nu (cut locus of a prolate one)
  LD hm1 = (LD)h + E.e2m * E.nu(sp), hm2 = (LD)h + E.nu(sp);
  LD ds = E.ds(lat, lon, lat1, lon1), dh = fabsl((LD)h1 - (LD)h);
  V3 P0 = E.fwd(lat, lon, h), P1 = E.fwd(lat1, lon1, h1);
  Rec r; r.str("e", "rt").i("fi", fi).str("in", hx({lat, lon, h})).i("hq", ppm((LD)h / E.size())).i("hm1", ppm(hm1 / E.size())).i("hm2", ppm(hm2 / E.size()))
    .i("cen", ppm(norm(P0) / E.size())).i("sing", ppm(E.sing() / E.size()))
    .b("fin", fin3(lat1, lon1, h1)).b("rng", fabs(lat1) <= 90 && fabs(lon1) <= 180)
    .i("err", rel(hypotl(ds, dh) / E.size())).i("ds", rel(ds / E.size()))
    .i("eh", rel(dh / fmaxl(1.0L, (LD)h / E.size()) / E.size()))
    .i("ein", rel(norm(sub(P1, P0)) / E.size()));
  r.emit();
}

// Forward o Reverse for an arbitrary finite point, least |h|, ranges, rotation matrix at the returned position
static void rec_rv(int fi, double X, double Y, double Z, const char* reg, int k) {
  const Geocentric& g = geoc(fi); Ell E(family()[fi]);
  double lat, lon, h, lat2, lon2, h2; vector<double> M(9, vt::sentinel(1)), M8(8, vt::sentinel(2));
  g.Reverse(X, Y, Z, lat, lon, h);
  g.Reverse(X, Y, Z, lat2, lon2, h2, M);
  double lat3, lon3, h3; g.Reverse(X, Y, Z, lat3, lon3, h3, M8);
  bool wrong = true; for (double m : M8) wrong = wrong && vt::is_sentinel(m, 2);
  LD R = hypotl(X, Y), PP = hypotl(R, Z), sc = fmaxl(PP, E.size());
  V3 P = E.fwd(lat, lon, h);
  LD sp, cp; sincosdL(lat, sp, cp);
  LD T[9]; enu(lat, lon, T);
  int ex = 0; frexpl(PP / E.a, &ex); if (PP == 0) ex = -100000;
  LD ev = E.evol(R, fabsl((LD)Z));
  Rec r; r.str("e", "rv").i("fi", fi).str("in", hx({X, Y, Z})).str("reg", reg).i("k", k)
    .i("sx", X > 0 ? 1 : X < 0 ? -1 : 0).i("sy", Y > 0 ? 1 : Y < 0 ? -1 : 0).i("sz", Z > 0 ? 1 : Z < 0 ? -1 : 0)
    .i("ex", ex)                                  // |P|/a in [2^(ex-1), 2^ex)
    .i("ev", ev < 0.99L ? -1 : ev > 1.01L ? 1 : 0)   // inside / outside the evolute of the meridian ellipse (0: within 1%)
    .b("fin", fin3(lat, lon, h)).b("rng", fabs(lat) <= 90 && fabs(lon) <= 180)
    .i("slat", lat > 0 ? 1 : lat < 0 ? -1 : 0).b("lon0", lon == 0).b("hneg", h < 0)
    .i("e3", rel(norm(sub(P, V3{X, Y, Z})) / sc))
    .i("hb", rel(((LD)h + E.e2m * E.nu(sp)) / sc)).i("hb2", rel(((LD)h + E.nu(sp)) / sc))
    .i("lm", rel((E.mindist(R, Z) - fabsl((LD)h)) / sc))
    .i("mo", rel(mat_dev(M, T))).i("mort", rel(mat_orth(M))).i("mdet", rel(fabsl(mat_det(M) - 1)))
    .b("msame", same(lat, lat2) && same(lon, lon2) && same(h, h2) && same(lat, lat3) && same(lon, lon3) && same(h, h3) && wrong);
  r.emit();
}

// LocalCartesian laws for one origin and two points
static void rec_lc(int fi, double lat0, double lon0, double h0, double lat, double lon, double h,
                   double latb, double lonb, double hb, double d) {
  const Geocentric& g = geoc(fi); Ell E(family()[fi]);
  LocalCartesian L(lat0, lon0, h0, g);
  V3 P0 = E.fwd(lat0, lon0, h0), P = E.fwd(lat, lon, h), Pb = E.fwd(latb, lonb, hb);
  LD sc = maxl3(fmaxl(norm(P), norm(Pb)), norm(P0), E.size()), sco = fmaxl(norm(P0), E.size()), scd = fmaxl(sco, fabsl((LD)d));
  double x, y, z, xb, yb, zb, xo, yo, zo, xu, yu, zu; vector<double> M(9, vt::sentinel(1)), Mg(9), Mr(9, vt::sentinel(1));
  L.Forward(lat0, lon0, h0, xo, yo, zo);
  L.Forward(lat0, lon0, h0 + d, xu, yu, zu);
  LD du = (LD)(h0 + d) - (LD)h0;
  L.Forward(lat, lon, h, x, y, z, M);
  L.Forward(latb, lonb, hb, xb, yb, zb);
  double x2, y2, z2; L.Forward(lat, lon, h, x2, y2, z2);
  // axes: textbook R0^T (P - P0)
  LD T0[9]; enu(lat0, lon0, T0);
  auto tolocal = [&](const V3& Q) { V3 dq = sub(Q, P0);
    return V3{T0[0] * dq.x + T0[3] * dq.y + T0[6] * dq.z, T0[1] * dq.x + T0[4] * dq.y + T0[7] * dq.z, T0[2] * dq.x + T0[5] * dq.y + T0[8] * dq.z}; };
  V3 lt = tolocal(P);
  // rigid motion: local distance vs geocentric distance (library Geocentric::Forward)
  double GX, GY, GZ, GXb, GYb, GZb; g.Forward(lat, lon, h, GX, GY, GZ, Mg); g.Forward(latb, lonb, hb, GXb, GYb, GZb);
  LD dl = norm(V3{(LD)x - xb, (LD)y - yb, (LD)z - zb}), dg = norm(V3{(LD)GX - GXb, (LD)GY - GYb, (LD)GZ - GZb});
  // inverse pairs
  double lat1, lon1, h1; L.Reverse(x, y, z, lat1, lon1, h1, Mr);
  V3 P1 = E.fwd(lat1, lon1, h1);
  double lat4, lon4, h4; L.Reverse(x, y, z, lat4, lon4, h4);
  double x3, y3, z3; L.Forward(lat1, lon1, h1, x3, y3, z3);
  // M_local = R0^T M_geocentric (textbook ENU at origin, library M at the point)
  LD w = 0;
  for (int i = 0; i < 3; ++i) for (int j = 0; j < 3; ++j) {
    LD s = 0; for (int k = 0; k < 3; ++k) s += T0[3 * k + i] * (LD)Mg[3 * k + j];
    w = fmaxl(w, fabsl(s - (LD)M[3 * i + j]));
  }
  LD Tr[9]; enu(lat1, lon1, Tr); LD wr = 0;
  for (int i = 0; i < 3; ++i) for (int j = 0; j < 3; ++j) {
    LD s = 0; for (int k = 0; k < 3; ++k) s += T0[3 * k + i] * Tr[3 * k + j];
    wr = fmaxl(wr, fabsl(s - (LD)Mr[3 * i + j]));
  }
  Rec r; r.str("e", "lc").i("fi", fi).str("in", hx({lat0, lon0, h0, lat, lon, h, latb, lonb, hb, d}))
    .b("fin", fin3(x, y, z) && fin3(lat1, lon1, h1)).b("rng", fabs(lat1) <= 90 && fabs(lon1) <= 180)
    .i("o0", rel(norm(V3{xo, yo, zo}) / sco))
    .i("up", rel(norm(V3{(LD)xu, (LD)yu, (LD)zu - du}) / scd))
    .i("ax", rel(norm(sub(V3{x, y, z}, lt)) / sc))
    .i("rig", rel(fabsl(dl - dg) / sc))
    .i("inv1", rel(norm(V3{(LD)x3 - x, (LD)y3 - y, (LD)z3 - z}) / sc))
    .i("inv2", rel(norm(sub(P1, P)) / sc))
    .i("mrel", rel(w)).i("mrev", rel(wr)).i("mort", rel(fmaxl(mat_orth(M), mat_orth(Mr))))
    .i("mdet", rel(fmaxl(fabsl(mat_det(M) - 1), fabsl(mat_det(Mr) - 1))))
    .b("msame", same(x, x2) && same(y, y2) && same(z, z2) && same(lat1, lat4) && same(lon1, lon4) && same(h1, h4))
    .b("org", same(L.LatitudeOrigin(), lat0) && same(L.HeightOrigin(), h0)
              && remainder(L.LongitudeOrigin() - lon0, 360.0) == 0);
  r.emit();
}

// ------------------------------------------------------------------ samplers
static double logscale(vt::Rng& g, int lo, int hi) { return ldexp(g.uni(1.0, 2.0), int(g.range(lo, hi))); }
static double rlat(vt::Rng& g) {
  int w = int(g.range(0, 9));
  if (w == 0) return g.coin() ? 90.0 : -90.0;
  if (w == 1) return 0.0;
  if (w == 2) { double v = 90 - ldexp(g.u01(), -int(g.range(0, 50))); return g.coin() ? v : -v; }
  if (w == 3) { double v = ldexp(g.u01(), -int(g.range(0, 60))); return g.coin() ? v : -v; }
  double s = g.uni(-1, 1); return asin(s) / M_PI * 180;      // area-uniform
}
static double rlon(vt::Rng& g) {
  int w = int(g.range(0, 9));
  if (w == 0) return 90.0 * double(g.range(-8, 8));
  if (w == 1) return vt::eps(90 * g.range(-4, 4), int(g.range(-1, 1)));
  if (w == 2) return g.uni(-720, 720);
  return g.uni(-180, 180);
}
static double rh(vt::Rng& g, double a) {
  int w = int(g.range(0, 9));
  if (w <= 2) return g.uni(-1.5e-3, 1.5e-2) * a;               // geophysical: -10 km .. 100 km on the earth
  if (w <= 5) return g.uni(-0.78, 0.78) * a;                   // within 5000 km of the surface (WGS84 scale)
  if (w == 6) return -a * g.u01();                             // down to -a
  if (w == 7) return 0.0;
  return logscale(g, -3, 66) * a;                              // up to ~1e20 a
}
static int rfam(vt::Rng& g) { int n = int(family().size()); return int(g.range(0, n - 1)); }

// a point of the requested regime in the first octant, then signed; k selects the scale inside the regime
static void box_point(vt::Rng& g, const string& reg, int fi, int sx, int sy, int sz, int k, double& X, double& Y, double& Z) {
  Ell E(family()[fi]);
  LD Rc = fabsl(E.a * E.a - E.b * E.b) / E.a, Zc = fabsl(E.a * E.a - E.b * E.b) / E.b;
  LD R = 0, ZZ = 0;
  LD t = g.uni(0.02, 1.55);
  if (sz == 0) t = 0; else if (sx == 0 && sy == 0) t = PIL / 2;     // on the equatorial plane / on the axis
  if (reg == "far")          { LD s = E.a * ldexpl(g.uni(1.0, 2.0), 54 + k); R = s * cosl(t); ZZ = s * sinl(t); }       // |P| >= 2^(54+k) a
  else if (reg == "sphere")  { LD s = E.a * ldexpl(g.uni(1.0, 2.0), k); R = s * cosl(t); ZZ = s * sinl(t); }            // |P| in 2^k a [1,2)
  else if (reg == "outside") { LD s = 1.02L + ldexpl(g.u01(), k); R = s * Rc * powl(cosl(t), 3); ZZ = s * Zc * powl(sinl(t), 3); }   // (1.02 + 2^k u) x evolute point
  else                       { LD s = 0.98L * ldexpl(g.uni(0.5, 1.0), -k); R = s * Rc * powl(cosl(t), 3); ZZ = s * Zc * powl(sinl(t), 3); }  // inside / cutlocus: 0.98 2^-k [.5,1) x evolute point
  double r = double(R); double th = g.uni(0.02, 1.55);
  X = r * cos(th); Y = r * sin(th); Z = double(ZZ);
  if (sx == 0) { X = 0; Y = r; } if (sy == 0) { Y = 0; if (sx != 0) X = r; }
  X *= sx; Y *= sy; Z *= sz;
}
static void do_box(const vector<string>& t) {
  string reg = t[1]; int fi = atoi(t[2].c_str()), sx = atoi(t[3].c_str()), sy = atoi(t[4].c_str()), sz = atoi(t[5].c_str()), k = atoi(t[6].c_str());
  int n = t.size() > 7 ? atoi(t[7].c_str()) : 4;
  uint64_t seed = 1469598103934665603ULL; for (auto& w : t) for (unsigned char c : w) seed = (seed ^ c) * 1099511628211ULL;
  vt::Rng g(seed);
  for (int i = 0; i < n; ++i) { double X, Y, Z; box_point(g, reg, fi, sx, sy, sz, k, X, Y, Z); rec_rv(fi, X, Y, Z, reg.c_str(), k); }
}

static void do_record(uint64_t seed, long long n) {
  vt::Rng g(seed);
  for (long long it = 0; it < n; ++it) {
    int kind = int(it % 8);
    int fi = rfam(g); double a = family()[fi].a; Ell E(family()[fi]);
    if (kind == 0) rec_fw(fi, rlat(g), rlon(g), rh(g, a));
    else if (kind == 1 || kind == 2) rec_rt(fi, rlat(g), rlon(g), rh(g, a));
    else if (kind <= 5) {
      // arbitrary finite point: 40 decades around a, dense on the singular sets
      int w = int(g.range(0, 15)); double X, Y, Z;
      double s = a * logscale(g, -67, 67);
      double u = g.uni(-1, 1), ph = g.uni(-M_PI, M_PI), c = sqrt(1 - u * u);
      X = s * c * cos(ph); Y = s * c * sin(ph); Z = s * u;
      LD Rc = fabsl(E.a * E.a - E.b * E.b) / E.a, Zc = fabsl(E.a * E.a - E.b * E.b) / E.b;
      if (w == 0) { X = 0; Y = 0; }                                   // rotation axis
      else if (w == 1) Z = 0;                                         // equatorial plane
      else if (w == 2) { double r = double(Rc) * g.u01(); X = r * cos(ph); Y = r * sin(ph); Z = 0; }          // singular disc (oblate)
      else if (w == 3) { X = 0; Y = 0; Z = double(Zc) * g.uni(-1, 1); }                                       // singular segment (prolate)
      else if (w == 4) { LD tt = g.uni(0, 1.5707); LD sc = g.coin() ? g.uni(0, 1) : 1 + ldexp(g.uni(-1, 1), -int(g.range(1, 40)));
                         double r = double(sc * Rc * powl(cosl(tt), 3)); X = r * cos(ph); Y = r * sin(ph);
                         Z = double(sc * Zc * powl(sinl(tt), 3)) * (g.coin() ? 1 : -1); }                     // inside / on the evolute
      else if (w == 5) { double r = double(Rc) * (1 + ldexp(g.uni(-1, 1), -int(g.range(1, 50)))); X = r * cos(ph); Y = r * sin(ph);
                         Z = g.coin() ? 0.0 : ldexp(g.uni(-1, 1), -int(g.range(0, 60))) * a; }                // cusp circle R = a e^2 (doc: worst case)
      else if (w == 6) { double r = a * ldexp(g.uni(1.99, 2.01), 52); X = r * c * cos(ph); Y = r * c * sin(ph); Z = r * u; }   // far-field threshold 2a/eps
      else if (w == 7) { double r = a * logscale(g, 53, 900); X = r * c * cos(ph); Y = r * c * sin(ph); Z = r * u; }           // astronomically far
      else if (w == 8) { double r = a * logscale(g, -900, -60); X = r * c * cos(ph); Y = r * c * sin(ph); Z = r * u; }         // extremely close to the centre
      else if (w == 9) { X = 0; Y = 0; Z = 0; }
      else if (w == 10) { Z = ldexp(Z, -int(g.range(20, 300))); }                                             // tiny |Z|
      else if (w == 11) { X = ldexp(X, -int(g.range(20, 300))); Y = ldexp(Y, -int(g.range(20, 300))); }       // tiny R
      else if (w == 12) { double r = a * g.uni(0.2, 3); X = r * c * cos(ph); Y = r * c * sin(ph); Z = r * u; } // near the surface
      rec_rv(fi, X, Y, Z, "rand", 0);
    } else {
      double lat0 = rlat(g), lon0 = rlon(g), h0 = g.range(0, 3) ? g.uni(-1e-3, 2e-3) * a : rh(g, a);
      double d = (g.coin() ? 1 : -1) * logscale(g, -30, 30) * a;
      int w = int(g.range(0, 3));
      double lat = rlat(g), lon = rlon(g), h = rh(g, a), latb = rlat(g), lonb = rlon(g), hb = rh(g, a);
      if (w == 0) { // points near the origin (typical use)
        lat = max(-90.0, min(90.0, lat0 + g.uni(-1, 1))); lon = lon0 + g.uni(-1, 1); h = h0 + g.uni(-1e-3, 1e-3) * a;
        latb = max(-90.0, min(90.0, lat0 + g.uni(-1, 1))); lonb = lon0 + g.uni(-1, 1); hb = h0 + g.uni(-1e-3, 1e-3) * a;
      }
      rec_lc(fi, lat0, lon0, h0, lat, lon, h, latb, lonb, hb, d);
    }
  }
}

int main(int argc, char** argv) {
  vt::install_terminate();
  if (argc >= 2 && string(argv[1]) == "replay") {
    string line;
    while (getline(cin, line)) {
      auto t = vt::split(line); if (t.empty()) continue;
      if (t[0] == "gf") do_gf(t); else if (t[0] == "gr") do_gr(t); else if (t[0] == "lf") do_lf(t);
      else if (t[0] == "lr") do_lr(t); else if (t[0] == "box") do_box(t);
    }
    return 0;
  }
  if (argc >= 4 && string(argv[1]) == "record") { do_record(strtoull(argv[2], 0, 10), atoll(argv[3])); return 0; }
  fprintf(stderr, "usage: drv_geoc replay < vectors | record seed n\n"); return 2;
}
