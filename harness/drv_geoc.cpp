// Driver for Geocentric / LocalCartesian (C07): lattice replays chosen by TLC, regime boxes chosen by TLC,
// and seeded random law records.  The driver executes the library and reduces each law to an integer residual
// in a declared unit (fixed textbook formulas in long double); every tolerance, guard and decision is in
// spec/Trace_Geocentric.tla.
//
// Units:  "rel"  = dimensionless residual in units of 1e-18, clipped to +-2e9 (vt::q1)
//         "ppm"  = dimensionless quantity in units of 1e-6, clipped
//         lattice lengths: limbs [floor(metres), nanometres]
#include "trace.hpp"
#include <GeographicLib/Geocentric.hpp>
#include <GeographicLib/LocalCartesian.hpp>
#include <GeographicLib/Ellipsoid.hpp>
#include <GeographicLib/Math.hpp>
#include <memory>

using namespace GeographicLib;
using namespace std;
using vt::Rec;
typedef long double LD;

static const LD PIL = 3.14159265358979323846264338327950288L;
static const LD DEGL = PIL / 180;

// ------------------------------------------------------------------ ellipsoid family (index known to the spec)
struct Fam { double a, f; };
static const double A22 = 4194304.0;   // 2^22
static const vector<Fam>& family() {
  static const vector<Fam> F = {
    {A22, 0.0}, {A22, 1.0 / 128}, {A22, -1.0 / 128},                        // 0..2 lattice ellipsoids
    {6378137.0, 1 / 298.257223563}, {6378137.0, -1 / 298.257223563},        // 3,4
    {1.0, 1.0 / 150}, {57.29577951308232, -1.0 / 150},                      // 5,6
    {6.4e6, 0.01}, {6.4e6, -0.01}, {1.0e7, 0.02}, {1.0e7, -0.02},           // 7..10
    {6378137.0, 0.05}, {6378137.0, -0.05}, {6378137.0, 0.1}, {6378137.0, -0.1},   // 11..14
    {6378137.0, 0.2}, {6378137.0, -0.2},                                    // 15,16
    {1.0, 0.0}, {6371000.0, 0.0},                                           // 17,18 spheres
    {6378137.0, 0.5}, {6378137.0, -1.0}, {6378137.0, 0.9}, {1000.0, -9.0}   // 19..22 "wide" (e > 1/sqrt 2 or b >= 2a)
  };
  return F;
}
static const int WGS = 3;              // family index of WGS84 (Geocentric.tla: WGS)
// The object the laws are run on.  Member WGS is (a copy of) the library's singleton Geocentric::WGS84(), while the
// textbook side (Ell(family()[WGS])) uses the documented literals 6378137, 1/298.257223563: every law of member WGS
// therefore binds the singleton - what each default `earth` argument resolves to - to the documented ellipsoid.
static const Geocentric& geoc(int fi) {
  static vector<unique_ptr<Geocentric>> G;
  if (G.empty()) for (size_t i = 0; i < family().size(); ++i)
    G.emplace_back(int(i) == WGS ? new Geocentric(Geocentric::WGS84()) : new Geocentric(family()[i].a, family()[i].f));
  return *G[fi];
}
// a freshly built object from the family's literals (never the singleton)
static Geocentric fresh_geoc(int fi) { return Geocentric(family()[fi].a, family()[fi].f); }
static const Ellipsoid* ellip(int fi) {
  static vector<unique_ptr<Ellipsoid>> E;
  if (E.empty()) for (auto& m : family()) { try { E.emplace_back(new Ellipsoid(m.a, m.f)); } catch (...) { E.emplace_back(nullptr); } }
  return E[fi].get();
}

// ------------------------------------------------------------------ textbook formulas in long double
static void sincosdL(LD x, LD& s, LD& c) {
  int q = 0; LD r = remquol(x, 90.0L, &q); r *= DEGL;
  LD ss = sinl(r), cc = cosl(r);
  switch (unsigned(q) & 3U) {
    case 0U: s = ss; c = cc; break;
    case 1U: s = cc; c = -ss; break;
    case 2U: s = -ss; c = -cc; break;
    default: s = -cc; c = ss; break;
  }
}
struct V3 { LD x, y, z; };
static LD norm(const V3& v) { return hypotl(hypotl(v.x, v.y), v.z); }
static V3 sub(const V3& a, const V3& b) { return {a.x - b.x, a.y - b.y, a.z - b.z}; }
static LD maxl3(LD a, LD b, LD c) { return fmaxl(a, fmaxl(b, c)); }

struct Ell {
  LD a, f, e2, e2m, b;
  explicit Ell(const Fam& m) : a(m.a), f(m.f) { e2 = f * (2 - f); e2m = (1 - f) * (1 - f); b = a * (1 - f); }
  LD nu(LD sphi) const { return a / sqrtl(1 - e2 * sphi * sphi); }
  LD size() const { return fmaxl(a, b); }                                   // largest semi-axis: the scale of round-off
  LD sing() const { return fmaxl(fabsl(a * a - b * b) / a, fabsl(a * a - b * b) / b); }   // radius of the ball holding evolute + singular set
  // closed-form geodetic -> geocentric
  V3 fwd(double lat, double lon, double h) const {
    LD sp, cp, sl, cl; sincosdL(lat, sp, cp); sincosdL(lon, sl, cl);
    LD n = nu(sp);
    return {(n + h) * cp * cl, (n + h) * cp * sl, (e2m * n + h) * sp};
  }
  // distance on the surface corresponding to small latitude / longitude differences at lat0
  LD ds(double lat0, double lon0, double lat1, double lon1) const {
    LD sp, cp; sincosdL(lat0, sp, cp);
    LD w = 1 - e2 * sp * sp, rho = a * e2m / (w * sqrtl(w)), n = a / sqrtl(w);
    LD dphi = ((LD)lat1 - (LD)lat0) * DEGL, dlam = remainderl((LD)lon1 - (LD)lon0, 360.0L) * DEGL;
    return hypotl(rho * dphi, n * cp * dlam);
  }
  // least distance from the meridian-plane point (R >= 0, Z) to the whole meridian ellipse (both sides): best two of N
  // samples in parametric latitude, each refined by golden-section search.  Any value returned is the distance to an
  // actual surface point, so it can only over-estimate the true minimum.
  LD mindist(LD R, LD Z) const {
    const int N = 128; static LD CS[N], SN[N]; static bool init = false;
    if (!init) { for (int i = 0; i < N; ++i) { LD be = -PIL + 2 * PIL * (i + 0.5L) / N; CS[i] = cosl(be); SN[i] = sinl(be); } init = true; }
    auto d = [&](LD beta) { return hypotl(R - a * cosl(beta), Z - b * sinl(beta)); };
    LD v1 = -1, v2 = -1; int i1 = 0, i2 = 0;
    for (int i = 0; i < N; ++i) {
      LD v = hypotl(R - a * CS[i], Z - b * SN[i]);
      if (v1 < 0 || v < v1) { v2 = v1; i2 = i1; v1 = v; i1 = i; } else if (v2 < 0 || v < v2) { v2 = v; i2 = i; }
    }
    LD best = v1;
    for (int c = 0; c < 2; ++c) {
      int ii = c == 0 ? i1 : i2; if (c == 1 && abs(i1 - i2) <= 1) break;
      // grid zoom (robust when the bracket holds two wells, as it does just inside the cusps of the evolute)
      LD mid = -PIL + 2 * PIL * (ii + 0.5L) / N, half = 2 * PIL / N;
      for (int lev = 0; lev < 20; ++lev) {
        LD bv = -1, bx = mid;
        for (int j = -8; j <= 8; ++j) { LD x = mid + half * j / 8; LD v = d(x); if (bv < 0 || v < bv) { bv = v; bx = x; } }
        best = fminl(best, bv); mid = bx; half = half / 4;
      }
    }
    return best;
  }
  // position relative to the evolute of the meridian ellipse: value of (R/Rc)^(2/3) + (Z/Zc)^(2/3) (1 on the evolute)
  LD evol(LD R, LD Z) const {
    LD Rc = fabsl(a * a - b * b) / a, Zc = fabsl(a * a - b * b) / b;
    if (Rc == 0) return 1e30L;
    return cbrtl((R / Rc) * (R / Rc)) + cbrtl((Z / Zc) * (Z / Zc));
  }
};
// east-north-up frame at (lat, lon), row-major 3x3 (columns east, north, up)
static void enu(double lat, double lon, LD M[9]) {
  LD sp, cp, sl, cl; sincosdL(lat, sp, cp); sincosdL(lon, sl, cl);
  M[0] = -sl; M[3] = cl;  M[6] = 0;
  M[1] = -cl * sp; M[4] = -sl * sp; M[7] = cp;
  M[2] = cl * cp;  M[5] = sl * cp;  M[8] = sp;
}
static LD mat_orth(const vector<double>& M) {     // max |M M^T - I|
  LD w = 0;
  for (int i = 0; i < 3; ++i) for (int j = 0; j < 3; ++j) {
    LD s = 0; for (int k = 0; k < 3; ++k) s += (LD)M[3 * i + k] * (LD)M[3 * j + k];
    w = fmaxl(w, fabsl(s - (i == j ? 1 : 0)));
  }
  return w;
}
static LD mat_det(const vector<double>& M) {
  LD a = M[0], b = M[1], c = M[2], d = M[3], e = M[4], f = M[5], g = M[6], h = M[7], i = M[8];
  return a * (e * i - f * h) - b * (d * i - f * g) + c * (d * h - e * g);
}
static LD mat_dev(const vector<double>& M, const LD T[9]) { LD w = 0; for (int i = 0; i < 9; ++i) w = fmaxl(w, fabsl((LD)M[i] - T[i])); return w; }

static string hx(std::initializer_list<double> v) { string s; for (double d : v) { if (!s.empty()) s += " "; s += vt::hexf(d); } return s; }
static long long rel(LD v) { return vt::q1(v, 1e-18L); }
static long long ppm(LD v) { return vt::q1(v, 1e-6L); }
static bool same(double a, double b) { return vt::bits(a) == vt::bits(b) || (std::isnan(a) && std::isnan(b)); }
static bool fin3(double a, double b, double c) { return std::isfinite(a) && std::isfinite(b) && std::isfinite(c); }

static bool same3(const double a[3], const double b[3]) { return same(a[0], b[0]) && same(a[1], b[1]) && same(a[2], b[2]); }

// The M overloads (Geocentric.tla: MSizes / MCallOK).  `call(M, out)` executes one overload with the vector M and writes
// its three scalar outputs to out.  For every length n the vector is pre-filled with sentinels and the outputs are preset
// to sentinels; logged per call: [n, number of entries written, outputs written and bitwise those of the overload without
// M (ref) - and for n = 9 the matrix bitwise the record's main matrix M9].
static const int MSIZES[] = {0, 8, 9, 10, 18};
template <class F> static string mfamily(F call, const double ref[3], const vector<double>* M9) {
  string s = "[";
  for (int n : MSIZES) {
    vector<double> M(size_t(n), vt::sentinel(2)); double out[3] = {vt::sentinel(4), vt::sentinel(4), vt::sentinel(4)};
    call(M, out);
    int w = 0; for (double m : M) if (!vt::is_sentinel(m, 2)) ++w;
    bool ok = int(M.size()) == n && same3(out, ref) && !vt::is_sentinel(out[0], 4) && !vt::is_sentinel(out[1], 4) && !vt::is_sentinel(out[2], 4);
    if (n == 9 && M9) for (int i = 0; i < 9; ++i) ok = ok && same(M[i], (*M9)[i]);
    if (s.size() > 1) s += ",";
    s += "[" + to_string(n) + "," + to_string(w) + "," + (ok ? "true" : "false") + "]";
  }
  return s + "]";
}
static string mv_gf(const Geocentric& g, double lat, double lon, double h, const double ref[3], const vector<double>* M9) {
  return mfamily([&](vector<double>& M, double* o) { g.Forward(lat, lon, h, o[0], o[1], o[2], M); }, ref, M9); }
static string mv_gr(const Geocentric& g, double X, double Y, double Z, const double ref[3], const vector<double>* M9) {
  return mfamily([&](vector<double>& M, double* o) { g.Reverse(X, Y, Z, o[0], o[1], o[2], M); }, ref, M9); }
static string mv_lf(const LocalCartesian& L, double lat, double lon, double h, const double ref[3], const vector<double>* M9) {
  return mfamily([&](vector<double>& M, double* o) { L.Forward(lat, lon, h, o[0], o[1], o[2], M); }, ref, M9); }
static string mv_lr(const LocalCartesian& L, double x, double y, double z, const double ref[3], const vector<double>* M9) {
  return mfamily([&](vector<double>& M, double* o) { L.Reverse(x, y, z, o[0], o[1], o[2], M); }, ref, M9); }

// metres -> <<floor(metres), nanometres in [0,1e9)>>
static vector<long long> nm(double v) {
  if (!std::isfinite(v) || fabs(v) > 2.0e9) return {2000000000LL, 0};
  LD f = floorl((LD)v); long long lo = (long long) floorl(((LD)v - f) * 1.0e9L);
  if (lo >= 1000000000LL) lo = 999999999LL;
  return {(long long) f, lo};
}
// matrix entries in units of 1e-9 (exact for 0, +-1)
static vector<long long> mq(const vector<double>& M) { vector<long long> r; for (double m : M) r.push_back(vt::q1(m, 1e-9L)); return r; }
static bool mexact(const vector<double>& M) { for (double m : M) if (!(m == 0 || m == 1 || m == -1)) return false; return true; }
// angle in degrees -> units of 1e-7 degree (180 degrees = 1.8e9 fits a 32-bit int)
static long long d7(double v) { return vt::q1(v, 1e-7L); }

// ------------------------------------------------------------------ lattice replays
static void do_gf(const vector<string>& t) {
  int fi = atoi(t[1].c_str()); long long lat = atoll(t[2].c_str()), lon = atoll(t[3].c_str()), h = atoll(t[4].c_str());
  const Geocentric& g = geoc(fi);
  double X, Y, Z, X2, Y2, Z2; vector<double> M(9, vt::sentinel(1));
  g.Forward(double(lat), double(lon), double(h), X, Y, Z, M);
  g.Forward(double(lat), double(lon), double(h), X2, Y2, Z2);
  Rec r; r.str("e", "gf").i("fi", fi).i("lat", lat).i("lon", lon).i("h", h)
    .li("X", nm(X)).li("Y", nm(Y)).li("Z", nm(Z)).li("M", mq(M)).b("mex", mexact(M))
    .b("same", same(X, X2) && same(Y, Y2) && same(Z, Z2));
  { double ref[3] = {X2, Y2, Z2}; r.raw("mv", mv_gf(g, double(lat), double(lon), double(h), ref, &M)); }
  r.emit();
}
static void rev_fields(Rec& r, double lat, double lon, double h, const vector<double>& M) {
  r.i("lat", d7(lat)).i("lon", d7(lon)).b("latex", lat == floor(lat)).b("lonex", lon == floor(lon))
    .i("slat", lat > 0 ? 1 : lat < 0 ? -1 : 0)
    .li("h", nm(h)).li("M", mq(M)).b("mex", mexact(M));
}
static void do_gr(const vector<string>& t) {
  int fi = atoi(t[1].c_str()); long long X = atoll(t[2].c_str()), Y = atoll(t[3].c_str()), Z = atoll(t[4].c_str());
  const Geocentric& g = geoc(fi);
  double lat, lon, h, lat2, lon2, h2; vector<double> M(9, vt::sentinel(1));
  g.Reverse(double(X), double(Y), double(Z), lat, lon, h, M);
  g.Reverse(double(X), double(Y), double(Z), lat2, lon2, h2);
  Ell E(family()[fi]);
  V3 P = E.fwd(lat, lon, h);
  LD e3 = norm(sub(P, V3{(LD)X, (LD)Y, (LD)Z})) / fmaxl(norm(V3{(LD)X, (LD)Y, (LD)Z}), E.size());
  LD T[9]; enu(lat, lon, T);
  Rec r; r.str("e", "gr").i("fi", fi).i("X", X).i("Y", Y).i("Z", Z);
  rev_fields(r, lat, lon, h, M);
  r.i("e3", rel(e3)).i("mo", rel(mat_dev(M, T))).b("same", same(lat, lat2) && same(lon, lon2) && same(h, h2));
  { double ref[3] = {lat2, lon2, h2}; r.raw("mv", mv_gr(g, double(X), double(Y), double(Z), ref, &M)); }
  r.emit();
}
// Forward / Reverse of a LocalCartesian object at a lattice point: the observation fields shared by the lf / lr vectors
// (object built on the spot) and the lq queries of an object history (live object).  (fi, lat0, lon0, h0) is only used
// for the textbook residuals of Reverse.
static void lf_fields(Rec& r, const LocalCartesian& L, long long lat, long long lon, long long h) {
  double x, y, z, x2, y2, z2; vector<double> M(9, vt::sentinel(1));
  L.Forward(double(lat), double(lon), double(h), x, y, z, M);
  L.Forward(double(lat), double(lon), double(h), x2, y2, z2);
  r.li("x", nm(x)).li("y", nm(y)).li("z", nm(z)).li("M", mq(M)).b("mex", mexact(M))
    .b("same", same(x, x2) && same(y, y2) && same(z, z2));
  double ref[3] = {x2, y2, z2}; r.raw("mv", mv_lf(L, double(lat), double(lon), double(h), ref, &M));
}
static void lr_fields(Rec& r, const LocalCartesian& L, int fi, long long lat0, long long lon0, long long h0, long long x, long long y, long long z) {
  double lat, lon, h, lat2, lon2, h2; vector<double> M(9, vt::sentinel(1));
  L.Reverse(double(x), double(y), double(z), lat, lon, h, M);
  L.Reverse(double(x), double(y), double(z), lat2, lon2, h2);
  Ell E(family()[fi]);
  LD T0[9], T[9]; enu(double(lat0), double(lon0), T0); enu(lat, lon, T);
  V3 P0 = E.fwd(double(lat0), double(lon0), double(h0));
  V3 Pg = {P0.x + T0[0] * x + T0[1] * y + T0[2] * z, P0.y + T0[3] * x + T0[4] * y + T0[5] * z, P0.z + T0[6] * x + T0[7] * y + T0[8] * z};
  LD e3 = norm(sub(E.fwd(lat, lon, h), Pg)) / maxl3(norm(Pg), norm(P0), E.size());
  LD w = 0;
  for (int i = 0; i < 3; ++i) for (int j = 0; j < 3; ++j) {
    LD q = 0; for (int k = 0; k < 3; ++k) q += T0[3 * k + i] * T[3 * k + j];
    w = fmaxl(w, fabsl(q - (LD)M[3 * i + j]));
  }
  rev_fields(r, lat, lon, h, M);
  r.i("e3", rel(e3)).i("mo", rel(w)).b("same", same(lat, lat2) && same(lon, lon2) && same(h, h2));
  double ref[3] = {lat2, lon2, h2}; r.raw("mv", mv_lr(L, double(x), double(y), double(z), ref, &M));
}
static void do_lf(const vector<string>& t) {
  int fi = atoi(t[1].c_str());
  long long lat0 = atoll(t[2].c_str()), lon0 = atoll(t[3].c_str()), h0 = atoll(t[4].c_str());
  long long lat = atoll(t[5].c_str()), lon = atoll(t[6].c_str()), h = atoll(t[7].c_str());
  LocalCartesian L(double(lat0), double(lon0), double(h0), geoc(fi));
  Rec r; r.str("e", "lf").i("fi", fi).i("lat0", lat0).i("lon0", lon0).i("h0", h0).i("lat", lat).i("lon", lon).i("h", h);
  lf_fields(r, L, lat, lon, h);
  r.b("org", L.LatitudeOrigin() == double(lat0) && L.HeightOrigin() == double(h0)
              && remainder(L.LongitudeOrigin() - double(lon0), 360.0) == 0);
  r.emit();
}
static void do_lr(const vector<string>& t) {
  int fi = atoi(t[1].c_str());
  long long lat0 = atoll(t[2].c_str()), lon0 = atoll(t[3].c_str()), h0 = atoll(t[4].c_str());
  long long x = atoll(t[5].c_str()), y = atoll(t[6].c_str()), z = atoll(t[7].c_str());
  LocalCartesian L(double(lat0), double(lon0), double(h0), geoc(fi));
  Rec r; r.str("e", "lr").i("fi", fi).i("lat0", lat0).i("lon0", lon0).i("h0", h0).i("x", x).i("y", y).i("z", z);
  lr_fields(r, L, fi, lat0, lon0, h0, x, y, z);
  r.emit();
}

// one call of an M overload chosen by TLC: entry point x length of the vector (vector "mv ent n fi lat lon h")
static void do_mv(const vector<string>& t) {
  string ent = t[1]; int n = atoi(t[2].c_str()), fi = atoi(t[3].c_str());
  double lat = atof(t[4].c_str()), lon = atof(t[5].c_str()), h = atof(t[6].c_str());
  const Geocentric& g = geoc(fi); LocalCartesian L(lat, lon, h, g);
  vector<double> M(size_t(n), vt::sentinel(2)); double o[3] = {vt::sentinel(4), vt::sentinel(4), vt::sentinel(4)}, ref[3];
  if (ent == "GF") { g.Forward(lat, lon, h, ref[0], ref[1], ref[2]); g.Forward(lat, lon, h, o[0], o[1], o[2], M); }
  else if (ent == "GR") { double X, Y, Z; g.Forward(lat, lon, h, X, Y, Z); g.Reverse(X, Y, Z, ref[0], ref[1], ref[2]); g.Reverse(X, Y, Z, o[0], o[1], o[2], M); }
  else if (ent == "LF") { L.Forward(0.0, 90.0, 1000.0, ref[0], ref[1], ref[2]); L.Forward(0.0, 90.0, 1000.0, o[0], o[1], o[2], M); }
  else { L.Reverse(3.0, -4.0, 7.0, ref[0], ref[1], ref[2]); L.Reverse(3.0, -4.0, 7.0, o[0], o[1], o[2], M); }
  int w = 0; for (double m : M) if (!vt::is_sentinel(m, 2)) ++w;
  bool ok = int(M.size()) == n && same3(o, ref) && !vt::is_sentinel(o[0], 4) && !vt::is_sentinel(o[1], 4) && !vt::is_sentinel(o[2], 4);
  Rec r; r.str("e", "mv").str("ent", ent).i("n", n).i("fi", fi).i("lat", (long long)lat).i("lon", (long long)lon).i("h", (long long)h)
    .raw("m", "[" + to_string(n) + "," + to_string(w) + "," + (ok ? "true" : "false") + "]");
  r.emit();
}

// ------------------------------------------------------------------ objects
// bitwise comparison of two objects on a probe set; returns the number of comparisons, clears eq on a difference
static int probe_geoc(const Geocentric& g1, const Geocentric& g2, vt::Rng& g, bool& eq) {
  int n = 0; double a = g2.EquatorialRadius();
  for (int i = 0; i < 6; ++i) {
    double lat = i == 0 ? 90.0 : i == 1 ? 0.0 : g.uni(-90, 90), lon = i == 1 ? 180.0 : g.uni(-200, 200), h = i < 2 ? 0.0 : g.uni(-0.5, 2) * a;
    double u[3], v[3]; vector<double> M1(9, vt::sentinel(1)), M2(9, vt::sentinel(1));
    g1.Forward(lat, lon, h, u[0], u[1], u[2], M1); g2.Forward(lat, lon, h, v[0], v[1], v[2], M2);
    eq = eq && same3(u, v); for (int k = 0; k < 9; ++k) eq = eq && same(M1[k], M2[k]); ++n;
    double X = u[0] * g.uni(0.5, 1.5), Y = u[1] + g.uni(-1, 1) * a, Z = i == 2 ? 0.0 : u[2];
    if (i == 3) { X = 0; Y = 0; } if (i == 4) { X = 0; Y = 0; Z = 0; }
    g1.Reverse(X, Y, Z, u[0], u[1], u[2], M1); g2.Reverse(X, Y, Z, v[0], v[1], v[2], M2);
    eq = eq && same3(u, v); for (int k = 0; k < 9; ++k) eq = eq && same(M1[k], M2[k]); ++n;
  }
  return n;
}
static int probe_local(const LocalCartesian& L1, const LocalCartesian& L2, vt::Rng& g, bool& eq) {
  int n = 0; double a = L2.EquatorialRadius();
  for (int i = 0; i < 8; ++i) {
    double lat = i == 0 ? L2.LatitudeOrigin() : i == 1 ? 90.0 : i == 2 ? 0.0 : g.uni(-90, 90);
    double lon = i == 0 ? L2.LongitudeOrigin() : g.uni(-200, 200), h = i == 0 ? L2.HeightOrigin() : i < 3 ? 0.0 : g.uni(-0.5, 2) * a;
    double u[3], v[3]; vector<double> M1(9, vt::sentinel(1)), M2(9, vt::sentinel(1));
    L1.Forward(lat, lon, h, u[0], u[1], u[2], M1); L2.Forward(lat, lon, h, v[0], v[1], v[2], M2);
    eq = eq && same3(u, v); for (int k = 0; k < 9; ++k) eq = eq && same(M1[k], M2[k]); ++n;
    double x = i == 1 ? 0.0 : u[0] + g.uni(-1, 1) * 1e-3 * a, y = i == 1 ? 0.0 : u[1] * g.uni(0.5, 1.5), z = i == 1 ? 0.0 : i == 2 ? 7.0 : u[2];
    L1.Reverse(x, y, z, u[0], u[1], u[2], M1); L2.Reverse(x, y, z, v[0], v[1], v[2], M2);
    eq = eq && same3(u, v); for (int k = 0; k < 9; ++k) eq = eq && same(M1[k], M2[k]); ++n;
  }
  eq = eq && same(L1.LatitudeOrigin(), L2.LatitudeOrigin()) && same(L1.LongitudeOrigin(), L2.LongitudeOrigin())
          && same(L1.HeightOrigin(), L2.HeightOrigin()) && same(L1.EquatorialRadius(), L2.EquatorialRadius())
          && same(L1.Flattening(), L2.Flattening());
  return n + 5;
}
// inspectors of the ellipsoid: bit patterns of what the object reports (ia, if) and of the family's literals (ea, ef);
// for the spec's WGS84 law also a as an integer and 1/f in units of 1e-9 (limbs base 1e9)
static void ellipsoid_fields(Rec& r, double ia, double iff, int fi) {
  r.li("ia", vt::bits3(ia)).li("if", vt::bits3(iff));
  if (fi >= 0) r.li("ea", vt::bits3(family()[fi].a)).li("ef", vt::bits3(family()[fi].f)); else r.li("ea", {}).li("ef", {});
  long long hi = 0, lo = 0; if (iff != 0 && std::isfinite(iff)) vt::limbs(1 / (LD)iff, 1e-9L, hi, lo);
  r.i("iaq", vt::q1(ia, 1)).b("iaex", ia == floor(ia)).li("irf", {hi, lo});
}
// a Geocentric object built in one of the documented ways (vector "go form fi")
static void do_go(const vector<string>& t) {
  string form = t[1]; int fi = atoi(t[2].c_str());
  unique_ptr<Geocentric> G;
  if (form == "ctor") G.reset(new Geocentric(family()[fi].a, family()[fi].f));
  else if (form == "copy") { Geocentric tmp(family()[fi].a, family()[fi].f); G.reset(new Geocentric(tmp)); }
  else if (form == "assign") { G.reset(new Geocentric(1.0, 0.5)); Geocentric tmp(family()[fi].a, family()[fi].f); *G = tmp; }
  else if (form == "wgs84") G.reset(new Geocentric(Geocentric::WGS84()));
  else G.reset(new Geocentric());
  Rec r; r.str("e", "go").str("form", form).i("fi", fi).b("init", G->Init());
  bool eq = true; int n = 0;
  if (fi >= 0 && G->Init()) { vt::Rng g(977 + fi); Geocentric F = fresh_geoc(fi); n = probe_geoc(*G, F, g, eq);
                              if (form == "wgs84") { n += probe_geoc(Geocentric::WGS84(), F, g, eq); } }
  r.b("eq", eq).i("neq", n);
  ellipsoid_fields(r, G->EquatorialRadius(), G->Flattening(), fi);
  r.emit();
}

// A LocalCartesian object with a history.  Each row "op fi a1 a2 a3 | sfi slat0 slon0 sh0" is one operation chosen by TLC
// together with the model state after it; the driver applies the operation to the live object, builds the fresh object
// LocalCartesian(slat0, slon0, sh0, Geocentric(a, f) of member sfi) by the general constructor and logs whether the two
// agree bit for bit on a probe set, plus the inspectors of the live object.  `mode` "lat": integers, "rnd": bit patterns.
struct Live {
  unique_ptr<LocalCartesian> L; uint64_t nops = 0;
  void header(const char* mode) { L.reset(); Rec r; r.str("e", "Reset").str("mode", mode); r.emit(); }
  // returns false when the operation cannot be executed (no object / unknown op): logged with eq = false
  bool apply(const string& op, int fi, double a1, double a2, double a3) {
    if (op == "c4") L.reset(new LocalCartesian(a1, a2, a3, geoc(fi)));
    else if (op == "c3") L.reset(new LocalCartesian(a1, a2, a3));
    else if (op == "c2") L.reset(new LocalCartesian(a1, a2));
    else if (op == "c1") L.reset(new LocalCartesian(geoc(fi)));
    else if (op == "c0") L.reset(new LocalCartesian());
    else if (!L) return false;
    else if (op == "r3") L->Reset(a1, a2, a3);
    else if (op == "r2") L->Reset(a1, a2);
    else if (op == "cp") { unique_ptr<LocalCartesian> C(new LocalCartesian(*L)); L.swap(C); }      // continue with the copy
    else if (op == "as") { unique_ptr<LocalCartesian> C(new LocalCartesian(-33.0, 151.0, 99.0, Geocentric(1.0, 0.25))); *C = *L; L.swap(C); }
    else return false;
    return true;
  }
};
static string b3s(double v) { auto b = vt::bits3(v); return "[" + to_string(b[0]) + "," + to_string(b[1]) + "," + to_string(b[2]) + "]"; }
static string num(bool lat, double v) {       // lattice mode: the integer (2000000001 if not one); random mode: the bit pattern
  if (!lat) return b3s(v);
  return (v == floor(v) && fabs(v) < 2.0e9) ? to_string((long long)v) : string("2000000001");
}
static void lo_record(Live& lv, bool latmode, const string& op, int fi, double a1, double a2, double a3,
                      int sfi, double s1, double s2, double s3) {
  bool done = lv.apply(op, fi, a1, a2, a3); ++lv.nops;
  Rec r; r.str("e", "lo").str("mode", latmode ? "lat" : "rnd").str("op", op).i("fi", fi)
    .raw("a", "[" + num(latmode, a1) + "," + num(latmode, a2) + "," + num(latmode, a3) + "]")
    .raw("st", "[" + to_string(sfi) + "," + num(latmode, s1) + "," + num(latmode, s2) + "," + num(latmode, s3) + "]");
  bool eq = done; int n = 0;
  if (done && sfi >= 0 && sfi < int(family().size())) {
    LocalCartesian F(s1, s2, s3, fresh_geoc(sfi)); vt::Rng g(31 * lv.nops + 7);
    n = probe_local(*lv.L, F, g, eq);
  } else eq = false;
  r.b("eq", eq).i("neq", n);
  if (lv.L) {
    const LocalCartesian& L = *lv.L; double il = L.LongitudeOrigin();
    r.raw("ilat", num(latmode, L.LatitudeOrigin())).raw("ih", num(latmode, L.HeightOrigin()))
     .i("ilonr", rel(fabsl(remainderl((LD)il - (LD)s2, 360.0L)))).b("ilonrng", fabs(il) <= 180);
    ellipsoid_fields(r, L.EquatorialRadius(), L.Flattening(), sfi >= 0 && sfi < int(family().size()) ? sfi : -1);
  } else { r.raw("ilat", "2000000001").raw("ih", "2000000001").i("ilonr", 2000000001).b("ilonrng", false); ellipsoid_fields(r, Math::NaN(), Math::NaN(), -1); }
  r.emit();
}
static void lq_record(Live& lv, const string& op, long long a1, long long a2, long long a3, int sfi, long long s1, long long s2, long long s3) {
  Rec r; r.str("e", "lq").str("mode", "lat").str("op", op).li("a", {a1, a2, a3}).li("st", {sfi, s1, s2, s3});
  if (!lv.L || sfi < 0 || sfi >= int(family().size())) { r.b("eq", false); r.emit(); return; }
  LocalCartesian F(double(s1), double(s2), double(s3), fresh_geoc(sfi));
  bool eq = true; double u[3], v[3];
  if (op == "fw") { lv.L->Forward(double(a1), double(a2), double(a3), u[0], u[1], u[2]); F.Forward(double(a1), double(a2), double(a3), v[0], v[1], v[2]); eq = same3(u, v); lf_fields(r, *lv.L, a1, a2, a3); }
  else { lv.L->Reverse(double(a1), double(a2), double(a3), u[0], u[1], u[2]); F.Reverse(double(a1), double(a2), double(a3), v[0], v[1], v[2]); eq = same3(u, v);
         lr_fields(r, *lv.L, sfi, s1, s2, s3, a1, a2, a3); }
  r.b("eq", eq);
  r.emit();
}
static Live g_live;
static void do_o(const vector<string>& t) {       // "o op fi a1 a2 a3 sfi s1 s2 s3"
  string op = t[1]; int fi = atoi(t[2].c_str()), sfi = atoi(t[6].c_str());
  long long a1 = atoll(t[3].c_str()), a2 = atoll(t[4].c_str()), a3 = atoll(t[5].c_str());
  long long s1 = atoll(t[7].c_str()), s2 = atoll(t[8].c_str()), s3 = atoll(t[9].c_str());
  if (op == "fw" || op == "rv") lq_record(g_live, op, a1, a2, a3, sfi, s1, s2, s3);
  else lo_record(g_live, true, op, fi, double(a1), double(a2), double(a3), sfi, double(s1), double(s2), double(s3));
}

// ------------------------------------------------------------------ law records
// Forward = closed form; rotation matrix = ENU frame; optional M; cross-class circle radius/height
static void rec_fw(int fi, double lat, double lon, double h) {
  const Geocentric& g = geoc(fi); Ell E(family()[fi]);
  double X, Y, Z, X2, Y2, Z2, X3, Y3, Z3; vector<double> M(9, vt::sentinel(1)), M8(8, vt::sentinel(2)), M10(10, vt::sentinel(3));
  g.Forward(lat, lon, h, X, Y, Z);
  g.Forward(lat, lon, h, X2, Y2, Z2, M);
  g.Forward(lat, lon, h, X3, Y3, Z3, M8); g.Forward(lat, lon, h, X3, Y3, Z3, M10);
  bool wrong = true; for (double m : M8) wrong = wrong && vt::is_sentinel(m, 2); for (double m : M10) wrong = wrong && vt::is_sentinel(m, 3);
  V3 P = E.fwd(lat, lon, h);
  LD sc = fmaxl(norm(P), E.size());
  LD T[9]; enu(lat, lon, T);
  Rec r; r.str("e", "fw").i("fi", fi).str("in", hx({lat, lon, h})).i("hq", ppm((LD)h / E.size()))
    .b("fin", fin3(X, Y, Z)).i("dF", rel(norm(sub(V3{X, Y, Z}, P)) / sc))
    .i("mo", rel(mat_dev(M, T))).i("mort", rel(mat_orth(M))).i("mdet", rel(fabsl(mat_det(M) - 1)))
    .b("msame", same(X, X2) && same(Y, Y2) && same(Z, Z2) && same(X, X3) && same(Y, Y3) && same(Z, Z3) && wrong);
  { double ref[3] = {X, Y, Z}; r.raw("mv", mv_gf(g, lat, lon, h, ref, &M)); }
  // up column = direction of increasing h (Forward is affine in h): finite difference over d = scale/4
  {
    double d = double(sc / 4), Xd, Yd, Zd; g.Forward(lat, lon, h + d, Xd, Yd, Zd);
    LD dd = (LD)(h + d) - (LD)h;
    LD w = maxl3(fabsl(((LD)Xd - X) / dd - M[2]), fabsl(((LD)Yd - Y) / dd - M[5]), fabsl(((LD)Zd - Z) / dd - M[8]));
    r.i("mup", rel(w));
  }
  const Ellipsoid* el = ellip(fi);
  if (el && fabs(lat) <= 90) {
    double X0, Y0, Z0; g.Forward(lat, lon, 0.0, X0, Y0, Z0);
    r.i("dcr", rel(fabsl(hypotl(X0, Y0) - (LD)el->CircleRadius(lat)) / E.size()))
     .i("dch", rel(fabsl((LD)Z0 - (LD)el->CircleHeight(lat)) / E.size()));
  } else r.i("dcr", -1).i("dch", -1);
  r.emit();
}

// Reverse o Forward (library forward, library reverse), compared as in the documentation's error analysis
static void rec_rt(int fi, double lat, double lon, double h) {
  const Geocentric& g = geoc(fi); Ell E(family()[fi]);
  double X, Y, Z, lat1, lon1, h1;
  g.Forward(lat, lon, h, X, Y, Z);
  g.Reverse(X, Y, Z, lat1, lon1, h1);
  LD sp, cp; sincosdL(lat, sp, cp);
  // margins (h - hmin) for the two candidate principal-domain bounds: the normal reaches the equatorial plane at
  // h = -(1-e^2) nu (cut locus of an oblate ellipsoid) and the axis at h = -nu (cut locus of a prolate one)
  LD hm1 = (LD)h + E.e2m * E.nu(sp), hm2 = (LD)h + E.nu(sp);
  LD ds = E.ds(lat, lon, lat1, lon1), dh = fabsl((LD)h1 - (LD)h);
  V3 P0 = E.fwd(lat, lon, h), P1 = E.fwd(lat1, lon1, h1);
  Rec r; r.str("e", "rt").i("fi", fi).str("in", hx({lat, lon, h})).i("hq", ppm((LD)h / E.size())).i("hm1", ppm(hm1 / E.size())).i("hm2", ppm(hm2 / E.size()))
    .i("cen", ppm(norm(P0) / E.size())).i("sing", ppm(E.sing() / E.size()))
    .b("fin", fin3(lat1, lon1, h1)).b("rng", fabs(lat1) <= 90 && fabs(lon1) <= 180)
    .i("err", rel(hypotl(ds, dh) / E.size())).i("ds", rel(ds / E.size()))
    .i("eh", rel(dh / fmaxl(1.0L, (LD)h / E.size()) / E.size()))
    .i("ein", rel(norm(sub(P1, P0)) / E.size()));
  r.emit();
}

// Forward o Reverse for an arbitrary finite point, least |h|, ranges, rotation matrix at the returned position
static void rec_rv(int fi, double X, double Y, double Z, const char* reg, int k) {
  const Geocentric& g = geoc(fi); Ell E(family()[fi]);
  double lat, lon, h, lat2, lon2, h2; vector<double> M(9, vt::sentinel(1)), M8(8, vt::sentinel(2));
  g.Reverse(X, Y, Z, lat, lon, h);
  g.Reverse(X, Y, Z, lat2, lon2, h2, M);
  double lat3, lon3, h3; g.Reverse(X, Y, Z, lat3, lon3, h3, M8);
  bool wrong = true; for (double m : M8) wrong = wrong && vt::is_sentinel(m, 2);
  LD R = hypotl(X, Y), PP = hypotl(R, Z), sc = fmaxl(PP, E.size());
  V3 P = E.fwd(lat, lon, h);
  LD sp, cp; sincosdL(lat, sp, cp);
  LD T[9]; enu(lat, lon, T);
  int ex = 0; frexpl(PP / E.a, &ex); if (PP == 0) ex = -100000;
  LD ev = E.evol(R, fabsl((LD)Z));
  Rec r; r.str("e", "rv").i("fi", fi).str("in", hx({X, Y, Z})).str("reg", reg).i("k", k)
    .i("sx", X > 0 ? 1 : X < 0 ? -1 : 0).i("sy", Y > 0 ? 1 : Y < 0 ? -1 : 0).i("sz", Z > 0 ? 1 : Z < 0 ? -1 : 0)
    .i("ex", ex)                                  // |P|/a in [2^(ex-1), 2^ex)
    .i("ev", ev < 0.99L ? -1 : ev > 1.01L ? 1 : 0)   // inside / outside the evolute of the meridian ellipse (0: within 1%)
    .b("fin", fin3(lat, lon, h)).b("rng", fabs(lat) <= 90 && fabs(lon) <= 180)
    .i("slat", lat > 0 ? 1 : lat < 0 ? -1 : 0).b("lon0", lon == 0).b("hneg", h < 0)
    .i("e3", rel(norm(sub(P, V3{X, Y, Z})) / sc))
    .i("hb", rel(((LD)h + E.e2m * E.nu(sp)) / sc)).i("hb2", rel(((LD)h + E.nu(sp)) / sc))
    .i("lm", rel((E.mindist(R, Z) - fabsl((LD)h)) / sc))
    .i("mo", rel(mat_dev(M, T))).i("mort", rel(mat_orth(M))).i("mdet", rel(fabsl(mat_det(M) - 1)))
    .b("msame", same(lat, lat2) && same(lon, lon2) && same(h, h2) && same(lat, lat3) && same(lon, lon3) && same(h, h3) && wrong);
  { double ref[3] = {lat, lon, h}; r.raw("mv", mv_gr(g, X, Y, Z, ref, &M)); }
  r.emit();
}

// LocalCartesian laws for one origin and two points
static void rec_lc(int fi, double lat0, double lon0, double h0, double lat, double lon, double h,
                   double latb, double lonb, double hb, double d) {
  const Geocentric& g = geoc(fi); Ell E(family()[fi]);
  LocalCartesian L(lat0, lon0, h0, g);
  V3 P0 = E.fwd(lat0, lon0, h0), P = E.fwd(lat, lon, h), Pb = E.fwd(latb, lonb, hb);
  LD sc = maxl3(fmaxl(norm(P), norm(Pb)), norm(P0), E.size()), sco = fmaxl(norm(P0), E.size()), scd = fmaxl(sco, fabsl((LD)d));
  double x, y, z, xb, yb, zb, xo, yo, zo, xu, yu, zu; vector<double> M(9, vt::sentinel(1)), Mg(9), Mr(9, vt::sentinel(1));
  L.Forward(lat0, lon0, h0, xo, yo, zo);
  L.Forward(lat0, lon0, h0 + d, xu, yu, zu);
  LD du = (LD)(h0 + d) - (LD)h0;
  L.Forward(lat, lon, h, x, y, z, M);
  L.Forward(latb, lonb, hb, xb, yb, zb);
  double x2, y2, z2; L.Forward(lat, lon, h, x2, y2, z2);
  // axes: textbook R0^T (P - P0)
  LD T0[9]; enu(lat0, lon0, T0);
  auto tolocal = [&](const V3& Q) { V3 dq = sub(Q, P0);
    return V3{T0[0] * dq.x + T0[3] * dq.y + T0[6] * dq.z, T0[1] * dq.x + T0[4] * dq.y + T0[7] * dq.z, T0[2] * dq.x + T0[5] * dq.y + T0[8] * dq.z}; };
  V3 lt = tolocal(P);
  // rigid motion: local distance vs geocentric distance (library Geocentric::Forward)
  double GX, GY, GZ, GXb, GYb, GZb; g.Forward(lat, lon, h, GX, GY, GZ, Mg); g.Forward(latb, lonb, hb, GXb, GYb, GZb);
  LD dl = norm(V3{(LD)x - xb, (LD)y - yb, (LD)z - zb}), dg = norm(V3{(LD)GX - GXb, (LD)GY - GYb, (LD)GZ - GZb});
  // inverse pairs
  double lat1, lon1, h1; L.Reverse(x, y, z, lat1, lon1, h1, Mr);
  V3 P1 = E.fwd(lat1, lon1, h1);
  double lat4, lon4, h4; L.Reverse(x, y, z, lat4, lon4, h4);
  double x3, y3, z3; L.Forward(lat1, lon1, h1, x3, y3, z3);
  // M_local = R0^T M_geocentric (textbook ENU at origin, library M at the point)
  LD w = 0;
  for (int i = 0; i < 3; ++i) for (int j = 0; j < 3; ++j) {
    LD s = 0; for (int k = 0; k < 3; ++k) s += T0[3 * k + i] * (LD)Mg[3 * k + j];
    w = fmaxl(w, fabsl(s - (LD)M[3 * i + j]));
  }
  LD Tr[9]; enu(lat1, lon1, Tr); LD wr = 0;
  for (int i = 0; i < 3; ++i) for (int j = 0; j < 3; ++j) {
    LD s = 0; for (int k = 0; k < 3; ++k) s += T0[3 * k + i] * Tr[3 * k + j];
    wr = fmaxl(wr, fabsl(s - (LD)Mr[3 * i + j]));
  }
  Rec r; r.str("e", "lc").i("fi", fi).str("in", hx({lat0, lon0, h0, lat, lon, h, latb, lonb, hb, d}))
    .b("fin", fin3(x, y, z) && fin3(lat1, lon1, h1)).b("rng", fabs(lat1) <= 90 && fabs(lon1) <= 180)
    .i("o0", rel(norm(V3{xo, yo, zo}) / sco))
    .i("up", rel(norm(V3{(LD)xu, (LD)yu, (LD)zu - du}) / scd))
    .i("ax", rel(norm(sub(V3{x, y, z}, lt)) / sc))
    .i("rig", rel(fabsl(dl - dg) / sc))
    .i("inv1", rel(norm(V3{(LD)x3 - x, (LD)y3 - y, (LD)z3 - z}) / sc))
    .i("inv2", rel(norm(sub(P1, P)) / sc))
    .i("mrel", rel(w)).i("mrev", rel(wr)).i("mort", rel(fmaxl(mat_orth(M), mat_orth(Mr))))
    .i("mdet", rel(fmaxl(fabsl(mat_det(M) - 1), fabsl(mat_det(Mr) - 1))))
    .b("msame", same(x, x2) && same(y, y2) && same(z, z2) && same(lat1, lat4) && same(lon1, lon4) && same(h1, h4))
    .b("org", same(L.LatitudeOrigin(), lat0) && same(L.HeightOrigin(), h0)
              && remainder(L.LongitudeOrigin() - lon0, 360.0) == 0);
  { double ref[3] = {x2, y2, z2}; r.raw("mvf", mv_lf(L, lat, lon, h, ref, &M)); }
  { double ref[3] = {lat4, lon4, h4}; r.raw("mvr", mv_lr(L, x, y, z, ref, &Mr)); }
  r.emit();
}

// ------------------------------------------------------------------ samplers
static double logscale(vt::Rng& g, int lo, int hi) { return ldexp(g.uni(1.0, 2.0), int(g.range(lo, hi))); }
static double rlat(vt::Rng& g) {
  int w = int(g.range(0, 9));
  if (w == 0) return g.coin() ? 90.0 : -90.0;
  if (w == 1) return 0.0;
  if (w == 2) { double v = 90 - ldexp(g.u01(), -int(g.range(0, 50))); return g.coin() ? v : -v; }
  if (w == 3) { double v = ldexp(g.u01(), -int(g.range(0, 60))); return g.coin() ? v : -v; }
  double s = g.uni(-1, 1); return asin(s) / M_PI * 180;      // area-uniform
}
static double rlon(vt::Rng& g) {
  int w = int(g.range(0, 9));
  if (w == 0) return 90.0 * double(g.range(-8, 8));
  if (w == 1) return vt::eps(90 * g.range(-4, 4), int(g.range(-1, 1)));
  if (w == 2) return g.uni(-720, 720);
  return g.uni(-180, 180);
}
static double rh(vt::Rng& g, double a) {
  int w = int(g.range(0, 9));
  if (w <= 2) return g.uni(-1.5e-3, 1.5e-2) * a;               // geophysical: -10 km .. 100 km on the earth
  if (w <= 5) return g.uni(-0.78, 0.78) * a;                   // within 5000 km of the surface (WGS84 scale)
  if (w == 6) return -a * g.u01();                             // down to -a
  if (w == 7) return 0.0;
  return logscale(g, -3, 66) * a;                              // up to ~1e20 a
}
static int rfam(vt::Rng& g) { int n = int(family().size()); return int(g.range(0, n - 1)); }

// a point of the requested regime in the first octant, then signed; k selects the scale inside the regime
static void box_point(vt::Rng& g, const string& reg, int fi, int sx, int sy, int sz, int k, double& X, double& Y, double& Z) {
  Ell E(family()[fi]);
  LD Rc = fabsl(E.a * E.a - E.b * E.b) / E.a, Zc = fabsl(E.a * E.a - E.b * E.b) / E.b;
  LD R = 0, ZZ = 0;
  LD t = g.uni(0.02, 1.55);
  if (sz == 0) t = 0; else if (sx == 0 && sy == 0) t = PIL / 2;     // on the equatorial plane / on the axis
  if (reg == "far")          { LD s = E.a * ldexpl(g.uni(1.0, 2.0), 54 + k); R = s * cosl(t); ZZ = s * sinl(t); }       // |P| >= 2^(54+k) a
  else if (reg == "sphere")  { LD s = E.a * ldexpl(g.uni(1.0, 2.0), k); R = s * cosl(t); ZZ = s * sinl(t); }            // |P| in 2^k a [1,2)
  else if (reg == "outside") { LD s = 1.02L + ldexpl(g.u01(), k); R = s * Rc * powl(cosl(t), 3); ZZ = s * Zc * powl(sinl(t), 3); }   // (1.02 + 2^k u) x evolute point
  else                       { LD s = 0.98L * ldexpl(g.uni(0.5, 1.0), -k); R = s * Rc * powl(cosl(t), 3); ZZ = s * Zc * powl(sinl(t), 3); }  // inside / cutlocus: 0.98 2^-k [.5,1) x evolute point
  double r = double(R); double th = g.uni(0.02, 1.55);
  X = r * cos(th); Y = r * sin(th); Z = double(ZZ);
  if (sx == 0) { X = 0; Y = r; } if (sy == 0) { Y = 0; if (sx != 0) X = r; }
  X *= sx; Y *= sy; Z *= sz;
}
static void do_box(const vector<string>& t) {
  string reg = t[1]; int fi = atoi(t[2].c_str()), sx = atoi(t[3].c_str()), sy = atoi(t[4].c_str()), sz = atoi(t[5].c_str()), k = atoi(t[6].c_str());
  int n = t.size() > 7 ? atoi(t[7].c_str()) : 4;
  uint64_t seed = 1469598103934665603ULL; for (auto& w : t) for (unsigned char c : w) seed = (seed ^ c) * 1099511628211ULL;
  vt::Rng g(seed);
  for (int i = 0; i < n; ++i) { double X, Y, Z; box_point(g, reg, fi, sx, sy, sz, k, X, Y, Z); rec_rv(fi, X, Y, Z, reg.c_str(), k); }
}

static void do_record(uint64_t seed, long long n) {
  vt::Rng g(seed);
  for (long long it = 0; it < n; ++it) {
    int kind = int(it % 8);
    int fi = rfam(g); double a = family()[fi].a; Ell E(family()[fi]);
    if (kind == 0) rec_fw(fi, rlat(g), rlon(g), rh(g, a));
    else if (kind == 1 || kind == 2) rec_rt(fi, rlat(g), rlon(g), rh(g, a));
    else if (kind <= 5) {
      // arbitrary finite point: 40 decades around a, dense on the singular sets
      int w = int(g.range(0, 15)); double X, Y, Z;
      double s = a * logscale(g, -67, 67);
      double u = g.uni(-1, 1), ph = g.uni(-M_PI, M_PI), c = sqrt(1 - u * u);
      X = s * c * cos(ph); Y = s * c * sin(ph); Z = s * u;
      LD Rc = fabsl(E.a * E.a - E.b * E.b) / E.a, Zc = fabsl(E.a * E.a - E.b * E.b) / E.b;
      if (w == 0) { X = 0; Y = 0; }                                   // rotation axis
      else if (w == 1) Z = 0;                                         // equatorial plane
      else if (w == 2) { double r = double(Rc) * g.u01(); X = r * cos(ph); Y = r * sin(ph); Z = 0; }          // singular disc (oblate)
      else if (w == 3) { X = 0; Y = 0; Z = double(Zc) * g.uni(-1, 1); }                                       // singular segment (prolate)
      else if (w == 4) { LD tt = g.uni(0, 1.5707); LD sc = g.coin() ? g.uni(0, 1) : 1 + ldexp(g.uni(-1, 1), -int(g.range(1, 40)));
                         double r = double(sc * Rc * powl(cosl(tt), 3)); X = r * cos(ph); Y = r * sin(ph);
                         Z = double(sc * Zc * powl(sinl(tt), 3)) * (g.coin() ? 1 : -1); }                     // inside / on the evolute
      else if (w == 5) { double r = double(Rc) * (1 + ldexp(g.uni(-1, 1), -int(g.range(1, 50)))); X = r * cos(ph); Y = r * sin(ph);
                         Z = g.coin() ? 0.0 : ldexp(g.uni(-1, 1), -int(g.range(0, 60))) * a; }                // cusp circle R = a e^2 (doc: worst case)
      else if (w == 6) { double r = a * ldexp(g.uni(1.99, 2.01), 52); X = r * c * cos(ph); Y = r * c * sin(ph); Z = r * u; }   // far-field threshold 2a/eps
      else if (w == 7) { double r = a * logscale(g, 53, 900); X = r * c * cos(ph); Y = r * c * sin(ph); Z = r * u; }           // astronomically far
      else if (w == 8) { double r = a * logscale(g, -900, -60); X = r * c * cos(ph); Y = r * c * sin(ph); Z = r * u; }         // extremely close to the centre
      else if (w == 9) { X = 0; Y = 0; Z = 0; }
      else if (w == 10) { Z = ldexp(Z, -int(g.range(20, 300))); }                                             // tiny |Z|
      else if (w == 11) { X = ldexp(X, -int(g.range(20, 300))); Y = ldexp(Y, -int(g.range(20, 300))); }       // tiny R
      else if (w == 12) { double r = a * g.uni(0.2, 3); X = r * c * cos(ph); Y = r * c * sin(ph); Z = r * u; } // near the surface
      rec_rv(fi, X, Y, Z, "rand", 0);
    } else {
      double lat0 = rlat(g), lon0 = rlon(g), h0 = g.range(0, 3) ? g.uni(-1e-3, 2e-3) * a : rh(g, a);
      double d = (g.coin() ? 1 : -1) * logscale(g, -30, 30) * a;
      int w = int(g.range(0, 3));
      double lat = rlat(g), lon = rlon(g), h = rh(g, a), latb = rlat(g), lonb = rlon(g), hb = rh(g, a);
      if (w == 0) { // points near the origin (typical use)
        lat = max(-90.0, min(90.0, lat0 + g.uni(-1, 1))); lon = lon0 + g.uni(-1, 1); h = h0 + g.uni(-1e-3, 1e-3) * a;
        latb = max(-90.0, min(90.0, lat0 + g.uni(-1, 1))); lonb = lon0 + g.uni(-1, 1); hb = h0 + g.uni(-1e-3, 1e-3) * a;
      }
      rec_lc(fi, lat0, lon0, h0, lat, lon, h, latb, lonb, hb, d);
    }
  }
}

// seeded random object histories (random origins and ellipsoids; arguments and states logged as bit patterns).  The
// driver keeps the state the documentation says the object is in (last origin, constructor's ellipsoid, defaults WGS84
// and 0) only to build the fresh object it compares with; Trace_Geocentric recomputes that state itself and rejects a
// line whose "st" differs.
static void do_hist(uint64_t seed, long long n) {
  vt::Rng g(seed ^ 0x5bd1e995ULL);
  Live lv;
  for (long long it = 0; it < n; ++it) {
    lv.header("rnd");
    int sfi = -1; double s1 = 0, s2 = 0, s3 = 0;
    int len = 1 + int(g.range(0, 3));
    for (int k = 0; k < len; ++k) {
      static const char* C[] = {"c4", "c3", "c2", "c1", "c0"}; static const char* S[] = {"r3", "r3", "r2", "cp", "as"};
      string op = k == 0 ? C[g.range(0, 4)] : S[g.range(0, 4)];
      int fi = rfam(g); double a = family()[op == "c4" || op == "c1" ? fi : k == 0 ? WGS : sfi].a;
      double a1 = rlat(g), a2 = rlon(g), a3 = g.range(0, 3) ? g.uni(-1e-3, 2e-3) * a : rh(g, a);
      if (op == "c4") { sfi = fi; s1 = a1; s2 = a2; s3 = a3; }
      else if (op == "c3") { sfi = WGS; s1 = a1; s2 = a2; s3 = a3; fi = -1; }
      else if (op == "c2") { sfi = WGS; s1 = a1; s2 = a2; s3 = 0; fi = -1; a3 = 0; }
      else if (op == "c1") { sfi = fi; s1 = s2 = s3 = 0; a1 = a2 = a3 = 0; }
      else if (op == "c0") { sfi = WGS; s1 = s2 = s3 = 0; fi = -1; a1 = a2 = a3 = 0; }
      else if (op == "r3") { s1 = a1; s2 = a2; s3 = a3; fi = -1; }
      else if (op == "r2") { s1 = a1; s2 = a2; s3 = 0; fi = -1; a3 = 0; }
      else { fi = -1; a1 = a2 = a3 = 0; }
      lo_record(lv, false, op, fi, a1, a2, a3, sfi, s1, s2, s3);
    }
  }
}

int main(int argc, char** argv) {
  vt::install_terminate();
  if (argc >= 2 && string(argv[1]) == "replay") {
    string line;
    while (getline(cin, line)) {
      auto t = vt::split(line); if (t.empty()) continue;
      if (t[0] == "gf") do_gf(t); else if (t[0] == "gr") do_gr(t); else if (t[0] == "lf") do_lf(t);
      else if (t[0] == "lr") do_lr(t); else if (t[0] == "box") do_box(t);
      else if (t[0] == "mv") do_mv(t); else if (t[0] == "go") do_go(t);
      else if (t[0] == "obj") g_live.header("lat"); else if (t[0] == "o") do_o(t);
    }
    return 0;
  }
  if (argc >= 4 && string(argv[1]) == "record") { do_record(strtoull(argv[2], 0, 10), atoll(argv[3])); return 0; }
  if (argc >= 4 && string(argv[1]) == "hist") { do_hist(strtoull(argv[2], 0, 10), atoll(argv[3])); return 0; }
  fprintf(stderr, "usage: drv_geoc replay < vectors | record seed n | hist seed n\n"); return 2;
}
