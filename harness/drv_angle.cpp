// Driver for C16 (Math angle arithmetic, error-free sum, conformal tangent maps, Accumulator).
// It only executes the library and logs observations.  Exact references (MPFR, GMP underneath) are used to
// reduce a law to an integer residual in a declared unit; every tolerance, guard and decision is in
// spec/Trace_AngleArith.tla.
//   replay            : executes vectors emitted by TLC from MC_AngleArith (stdin)
//   record seed n     : seeded random law records for float / double / long double
//   calib seed n      : prints the maxima of the residuals (calibration aid, not used by the check)
#include "trace.hpp"
#include <GeographicLib/Math.hpp>
#include <GeographicLib/Accumulator.hpp>
#include <mpfr.h>
#include <algorithm>
#include <map>
#include <memory>

using namespace GeographicLib;
using namespace std;
using vt::Rec;

static const long long CLIP = 2000000000LL;
static const mpfr_prec_t BIG = 2400, MID = 320;

struct M {
  mpfr_t v;
  explicit M(mpfr_prec_t p = MID) { mpfr_init2(v, p); }
  ~M() { mpfr_clear(v); }
  M(const M&) = delete; M& operator=(const M&) = delete;
  operator mpfr_ptr() { return v; }
};

template<class T> struct FT;
template<> struct FT<float> { static const char tag = 'f'; static const int P = 24; static const int EMIN = -125; };
template<> struct FT<double> { static const char tag = 'd'; static const int P = 53; static const int EMIN = -1021; };
template<> struct FT<long double> { static const char tag = 'l'; static const int P = 64; static const int EMIN = -16381; };

static void mset(mpfr_ptr r, float v) { mpfr_set_flt(r, v, MPFR_RNDN); }
static void mset(mpfr_ptr r, double v) { mpfr_set_d(r, v, MPFR_RNDN); }
static void mset(mpfr_ptr r, long double v) { mpfr_set_ld(r, v, MPFR_RNDN); }
template<class T> static T mget(mpfr_ptr r);
template<> float mget<float>(mpfr_ptr r) { return mpfr_get_flt(r, MPFR_RNDN); }
template<> double mget<double>(mpfr_ptr r) { return mpfr_get_d(r, MPFR_RNDN); }
template<> long double mget<long double>(mpfr_ptr r) { return mpfr_get_ld(r, MPFR_RNDN); }

// class of a value: 0 finite non-zero, 1 +0, 2 -0, 3 +inf, 4 -inf, 5 nan
template<class T> static int ncls(T v) {
  if (std::isnan(v)) return 5;
  if (std::isinf(v)) return v > 0 ? 3 : 4;
  if (v == 0) return std::signbit(v) ? 2 : 1;
  return 0;
}
// binary32: [c, m, e] with value m * 2^e, m odd (canonical); exact
static string numj(float v) {
  int c = ncls(v);
  if (c) return "[" + to_string(c) + ",0,0]";
  int e; float f = frexpf(v, &e);
  long long m = (long long) ldexpf(f, 24); e -= 24;
  while (m % 2 == 0) { m /= 2; ++e; }
  return "[0," + to_string(m) + "," + to_string(e) + "]";
}
// binary64: [c, s, b1, b2, b3] sign and the 63 magnitude bits in 21-bit limbs; nan -> zeros
static string numj(double v) {
  int c = ncls(v);
  if (c == 5) return "[5,0,0,0,0]";
  uint64_t u; memcpy(&u, &v, 8); int s = int(u >> 63); u &= 0x7fffffffffffffffULL;
  return "[" + to_string(c) + "," + to_string(s) + "," + to_string(u >> 42) + "," + to_string((u >> 21) & 0x1fffff) + "," +
         to_string(u & 0x1fffff) + "]";
}
// x87 extended: [c, s, exp, m1, m2, m3]
static string numj(long double v) {
  int c = ncls(v);
  if (c == 5) return "[5,0,0,0,0,0]";
  unsigned char b[16]; memset(b, 0, 16); memcpy(b, &v, 10);
  uint64_t m; uint16_t se; memcpy(&m, b, 8); memcpy(&se, b + 8, 2);
  return "[" + to_string(c) + "," + to_string(se >> 15) + "," + to_string(se & 0x7fff) + "," + to_string(m >> 44) + "," +
         to_string((m >> 22) & 0x3fffff) + "," + to_string(m & 0x3fffff) + "]";
}
template<class T> static int cmp3(T a, T b) { return a < b ? -1 : a > b ? 1 : 0; }
static int msgn(mpfr_ptr a) { return mpfr_zero_p(a) ? 0 : mpfr_sgn(a) > 0 ? 1 : -1; }

// value kind of a result: 0 other finite, 1 zero, 2 +-1/2, 3 +-1, 4 +-1/eps^2, 5 nan, 6 inf
template<class T> static int vkind(T v) {
  if (std::isnan(v)) return 5;
  if (std::isinf(v)) return 6;
  T a = fabs(v);
  if (a == 0) return 1;
  if (a == T(0.5)) return 2;
  if (a == T(1)) return 3;
  if (a == ldexp(T(1), 2 * (FT<T>::P - 1))) return 4;
  return 0;
}

// |got - exact| in 1/1000 ulp of the exact value (ulp = spacing of T at the exact value), rounded up, clipped
template<class T> static long long mulp(T got, mpfr_ptr ex) {
  if (mpfr_nan_p(ex)) return std::isnan(got) ? 0 : CLIP;
  if (std::isnan(got)) return CLIP;
  if (mpfr_inf_p(ex)) return (std::isinf(got) && (got > 0) == (mpfr_sgn(ex) > 0)) ? 0 : CLIP;
  if (std::isinf(got)) return CLIP;
  if (mpfr_zero_p(ex)) return got == 0 ? 0 : CLIP;
  M g(MID), d(MID);
  mset(g, got); mpfr_sub(d, g, ex, MPFR_RNDN); mpfr_abs(d, d, MPFR_RNDN);
  long e = mpfr_get_exp(ex);
  long ue = max<long>(e - FT<T>::P, FT<T>::EMIN - FT<T>::P);
  mpfr_mul_2si(d, d, -ue, MPFR_RNDN); mpfr_mul_ui(d, d, 1000, MPFR_RNDN);
  if (mpfr_cmp_d(d, 1.9e9) >= 0) return CLIP;
  return (long long) ceil(mpfr_get_d(d, MPFR_RNDU));
}
// number of representable values between got and the correctly rounded exact value (0 = correctly rounded)
template<class T> static long long ucr(T got, mpfr_ptr ex) {
  T ref = mget<T>(ex);
  if (std::isnan(got) || std::isnan(ref)) return (std::isnan(got) && std::isnan(ref)) ? 0 : CLIP;
  if (got == ref) return 0;
  T a = got;
  for (int i = 1; i <= 64; ++i) { a = nextafter(a, ref); if (a == ref) return i; }
  return CLIP;
}
// -1 when |v| is so small that an intermediate 64 times smaller is subnormal in T (relative accuracy is then not expected)
template<class T> static int subn(mpfr_ptr v) {
  if (!mpfr_number_p(v) || mpfr_zero_p(v)) return 1;
  return mpfr_get_exp(v) < FT<T>::EMIN + 7 ? -1 : 1;
}
// 0 iff v is an exact multiple of 360 (v exact in BIG precision), else >= 1 (|remainder| in 2^-60 deg, clipped)
static long long res360(mpfr_ptr v) {
  if (!mpfr_number_p(v)) return CLIP;
  M r(BIG), m(16); mpfr_set_ui(m, 360, MPFR_RNDN);
  mpfr_remainder(r, v, m, MPFR_RNDN);
  if (mpfr_zero_p(r)) return 0;
  mpfr_abs(r, r, MPFR_RNDN); mpfr_mul_2si(r, r, 60, MPFR_RNDN);
  if (mpfr_cmp_d(r, 1.9e9) >= 0) return CLIP;
  return max<long long>(1, (long long) ceil(mpfr_get_d(r, MPFR_RNDU)));
}

// ------------------------------------------------------------------ trig reference (exact reduction + MPFR)
struct TrigRef { M s, c, t, r; int q4 = 0, rc = 0; bool fin = false; TrigRef() : r(BIG) {} };
static M& pi180() { static M p(MID); static bool done = false;
  if (!done) { mpfr_const_pi(p, MPFR_RNDN); mpfr_div_ui(p, p, 180, MPFR_RNDN); done = true; } return p; }
static void trigref_m(mpfr_ptr mx, TrigRef& R) {
  R.fin = mpfr_number_p(mx) != 0;
  if (!R.fin) { mpfr_set_nan(R.s); mpfr_set_nan(R.c); mpfr_set_nan(R.t); mpfr_set_nan(R.r); R.q4 = 0; R.rc = 0; return; }
  M n90(16), rad(MID), sr(MID), cr(MID), tr(MID);
  mpfr_set_ui(n90, 90, MPFR_RNDN);
  long q = 0; mpfr_remquo(R.r, &q, mx, n90, MPFR_RNDN);        // exact: |r| <= 45, r a multiple of ulp(x)
  R.q4 = int(((q % 4) + 4) % 4);
  R.rc = mpfr_zero_p(R.r) ? 1 : mpfr_cmpabs_ui(R.r, 30) == 0 ? 30 : mpfr_cmpabs_ui(R.r, 45) == 0 ? 45 : 0;
  mpfr_mul(rad, R.r, pi180(), MPFR_RNDN);
  mpfr_sin_cos(sr, cr, rad, MPFR_RNDN); mpfr_tan(tr, rad, MPFR_RNDN);
  switch (R.q4) {
  case 0: mpfr_set(R.s, sr, MPFR_RNDN); mpfr_set(R.c, cr, MPFR_RNDN); mpfr_set(R.t, tr, MPFR_RNDN); break;
  case 1: mpfr_set(R.s, cr, MPFR_RNDN); mpfr_neg(R.c, sr, MPFR_RNDN); mpfr_si_div(R.t, -1, tr, MPFR_RNDN); break;
  case 2: mpfr_neg(R.s, sr, MPFR_RNDN); mpfr_neg(R.c, cr, MPFR_RNDN); mpfr_set(R.t, tr, MPFR_RNDN); break;
  default: mpfr_neg(R.s, cr, MPFR_RNDN); mpfr_set(R.c, sr, MPFR_RNDN); mpfr_si_div(R.t, -1, tr, MPFR_RNDN); break;
  }
}
template<class T> static void trigref(T x, TrigRef& R) {
  M mx(128);
  if (std::isfinite(x)) mset(mx, x); else mpfr_set_nan(mx);
  trigref_m(mx, R);
}
static M& deg() { static M p(MID); static bool done = false;
  if (!done) { mpfr_const_pi(p, MPFR_RNDN); mpfr_ui_div(p, 180, p, MPFR_RNDN); done = true; } return p; }

template<class T> static T nextup(T x) { return nextafter(x, numeric_limits<T>::infinity()); }

// ------------------------------------------------------------------ one-argument functions at x
template<class T> static void do_one(T x, const char* src) {
  typedef FT<T> F;
  Rec r; r.str("e", "one").str("ty", string(1, F::tag)).str("src", src).raw("x", numj(x));
  // AngNormalize
  T n = Math::AngNormalize(x);
  long long nk = CLIP;
  if (std::isfinite(x) && std::isfinite(n)) { M a(BIG), b(BIG); mset(a, x); mset(b, n); mpfr_sub(a, a, b, MPFR_RNDN); nk = res360(a); }
  r.raw("nrm", numj(n)).i("nk", nk).i("n180", std::isnan(n) ? 2 : cmp3<T>(fabs(n), T(180)));
  // LatFix
  r.raw("lat", numj(Math::LatFix(x))).i("l90", std::isnan(x) ? 2 : cmp3<T>(fabs(x), T(90)));
  // AngRound
  T ar = Math::AngRound(x);
  { int sh = 4 + F::P; long long rmul = CLIP, rdev = CLIP; int mono = 2;
    if (std::isfinite(x) && std::isfinite(ar)) {
      T sc = ldexp(ar, sh); rmul = (sc == floor(sc)) ? 0 : 1;
      M a(BIG), b(BIG); mset(a, x); mset(b, ar); mpfr_sub(a, a, b, MPFR_RNDN); mpfr_abs(a, a, MPFR_RNDN);
      mpfr_mul_2si(a, a, sh + 2, MPFR_RNDN);                       // unit: gap/4, gap = 2^-(4+P)
      rdev = mpfr_cmp_d(a, 1.9e9) >= 0 ? CLIP : (long long) ceil(mpfr_get_d(a, MPFR_RNDU));
      T x2 = nextup(x); if (std::isfinite(x2)) mono = cmp3<T>(Math::AngRound(x2), ar);
    }
    r.raw("rnd", numj(ar)).i("r16", std::isnan(x) ? 2 : cmp3<T>(fabs(x), T(1) / 16)).i("rmul", rmul).i("rdev", rdev).i("rmono", mono);
  }
  // sincosd, sind, cosd, tand
  T s, c; Math::sincosd(x, s, c);
  T sd = Math::sind(x), cd = Math::cosd(x), td = Math::tand(x);
  TrigRef R; trigref(x, R);
  r.raw("s", numj(s)).raw("c", numj(c)).raw("sd", numj(sd)).raw("cd", numj(cd)).raw("td", numj(td));
  r.i("q", R.q4).i("rc", R.rc).b("rs", R.fin && (mpfr_zero_p(R.r) ? bool(std::signbit(x)) : mpfr_signbit(R.r) != 0)).i("sk", vkind(s)).i("ck", vkind(c)).i("tk", vkind(td));
  r.i("es", mulp(s, R.s)).i("ec", mulp(c, R.c)).i("et", mulp(td, R.t)).i("us", ucr(s, R.s)).i("uc", ucr(c, R.c));
  // sincosde(x, 0) for x in [-180, 180]
  if (fabs(x) <= T(180)) {
    T es, ec; Math::sincosde(x, T(0), es, ec);
    T rr = mget<T>(R.r);
    r.raw("de", "[" + numj(es) + "," + numj(ec) + "]").i("d16", cmp3<T>(fabs(rr), T(1) / 16));
  }
  // atand
  { T a = Math::atand(x); M mx(128), one(16), at(MID); mset(mx, x); mpfr_set_ui(one, 1, MPFR_RNDN);
    mpfr_atan2(at, mx, one, MPFR_RNDN); mpfr_mul(at, at, deg(), MPFR_RNDN);
    r.raw("at", numj(a)).i("eat", mulp(a, at)).i("atsub", subn<T>(at)); }
  r.emit();
}

// ------------------------------------------------------------------ two-argument functions at (a, b)
template<class T> static void do_two(T a, T b, const char* src) {
  typedef FT<T> F;
  Rec r; r.str("e", "two").str("ty", string(1, F::tag)).str("src", src).raw("a", numj(a)).raw("b", numj(b));
  bool fin = std::isfinite(a) && std::isfinite(b);
  M ma(BIG), mb(BIG), w(BIG), z(BIG);
  mset(ma, a); mset(mb, b);
  // sum(a, b) -> s, t
  { T t = vt::sentinel(7); T s = Math::sum(a, b, t);
    long long sk = CLIP; T sref = s;
    if (fin) { mpfr_add(w, ma, mb, MPFR_RNDN); sref = mget<T>(w);                 // w = a + b exactly
      if (std::isfinite(s) && std::isfinite(t)) { M st(BIG); mset(st, s); mset(z, t); mpfr_add(st, st, z, MPFR_RNDN);
        mpfr_sub(st, st, w, MPFR_RNDN); sk = mpfr_zero_p(st) ? 0 : 1; } }
    r.raw("s", numj(s)).raw("t", numj(t)).raw("sref", numj(sref)).i("sk", sk); }
  // AngDiff(a, b) -> d, e      (b - a)
  { T e = vt::sentinel(8); T d = Math::AngDiff(a, b, e); T d1 = Math::AngDiff(a, b);
    long long dk = CLIP; int de180 = 2, dh = 2, e26 = 2, dez = 2;
    if (fin && std::isfinite(d) && std::isfinite(e)) {
      M md(BIG), me(BIG); mset(md, d); mset(me, e);
      mpfr_add(z, md, me, MPFR_RNDN);                                               // z = d + e exactly
      mpfr_sub(w, mb, ma, MPFR_RNDN); mpfr_sub(w, z, w, MPFR_RNDN); dk = res360(w);  // (d + e) - (b - a)
      de180 = mpfr_cmpabs_ui(z, 180) < 0 ? -1 : mpfr_cmpabs_ui(z, 180) > 0 ? 1 : 0;
      dez = mpfr_zero_p(z) ? 0 : 1;
      // nearest: 2|e| <= gap between d and its neighbour on the side of e
      T nb = e > 0 ? nextafter(d, numeric_limits<T>::infinity()) : nextafter(d, -numeric_limits<T>::infinity());
      M g(BIG); mset(g, nb); mpfr_sub(g, g, md, MPFR_RNDN); mpfr_abs(g, g, MPFR_RNDN);
      M e2(BIG); mpfr_abs(e2, me, MPFR_RNDN); mpfr_mul_2si(e2, e2, 1, MPFR_RNDN);
      dh = e == 0 ? -1 : mpfr_cmp(e2, g) < 0 ? -1 : mpfr_cmp(e2, g) > 0 ? 1 : 0;
      e26 = cmp3<T>(fabs(e), ldexp(T(1), -26));
    }
    // sincosde(d, e): sine and cosine of the exact difference z = d + e
    { long long dse = CLIP, dce = CLIP; int dg = 2;
      if (fin && std::isfinite(d) && std::isfinite(e)) {
        T ss, cc; Math::sincosde(d, e, ss, cc);
        TrigRef R; trigref_m(z, R);
        M lim(16); mpfr_set_ui(lim, 1, MPFR_RNDN); mpfr_mul_2si(lim, lim, -3, MPFR_RNDN);
        dg = mpfr_cmpabs(R.r, lim) < 0 ? -1 : mpfr_cmpabs(R.r, lim) > 0 ? 1 : 0;
        dse = mulp(ss, R.s); dce = mulp(cc, R.c);
      }
      r.i("dse", dse).i("dce", dce).i("dg", dg); }
    volatile T yx = b - a;
    r.raw("d", numj(d)).raw("de", numj(e)).raw("d1", numj(d1)).i("dk", dk)
      .i("d180", std::isnan(d) ? 2 : cmp3<T>(fabs(d), T(180))).i("de180", de180).i("dh", dh).i("e26", e26).i("dez", dez)
      .b("syx", std::signbit(T(yx))).i("ez", std::isnan(e) ? 2 : e == 0 ? 0 : 1); }
  // atan2d(y = a, x = b)
  { T at = Math::atan2d(a, b); M ref(MID);
    mpfr_atan2(ref, ma, mb, MPFR_RNDN); mpfr_mul(ref, ref, deg(), MPFR_RNDN);
    long long k = 999; if (std::isfinite(at) && at == floor(at) && fabs(at) <= 180) k = (long long) fabs(at);
    r.raw("at", numj(at)).i("ea", mulp(at, ref)).i("asub", subn<T>(ref)).i("ak", k).i("aeq", (std::isfinite(a) && std::isfinite(b)) ? cmp3<T>(fabs(a), fabs(b)) : 2); }
  r.emit();
}

// ------------------------------------------------------------------ relation between sincosd(x) and sincosd(x2)
template<class T> static void do_trp(T x, T x2, const char* src) {
  typedef FT<T> F;
  T s1, c1, s2, c2; Math::sincosd(x, s1, c1); Math::sincosd(x2, s2, c2);
  Rec r; r.str("e", "trp").str("ty", string(1, F::tag)).str("src", src).raw("x", numj(x)).raw("x2", numj(x2))
    .raw("s1", numj(s1)).raw("c1", numj(c1)).raw("s2", numj(s2)).raw("c2", numj(c2));
  // exact relation x2 = sg * x + 90 * dq (dq mod 4), established with exact arithmetic; dq = -1: none
  int sg = 0, dq = -1;
  if (std::isfinite(x) && std::isfinite(x2)) {
    M a(BIG), b(BIG), w(BIG), n90(16), q(BIG); mset(a, x); mset(b, x2); mpfr_set_ui(n90, 90, MPFR_RNDN);
    for (int s = 1; s >= -1 && dq < 0; s -= 2) {
      if (s > 0) mpfr_sub(w, b, a, MPFR_RNDN); else mpfr_add(w, b, a, MPFR_RNDN);
      mpfr_div(q, w, n90, MPFR_RNDN);
      if (mpfr_integer_p(q)) { M m4(16), rq(BIG); mpfr_set_ui(m4, 4, MPFR_RNDN); mpfr_fmod(rq, q, m4, MPFR_RNDN);
        M chk(BIG); mpfr_mul(chk, q, n90, MPFR_RNDN);
        if (mpfr_equal_p(chk, w)) { long v = mpfr_get_si(rq, MPFR_RNDN); dq = int(((v % 4) + 4) % 4); sg = s; } }
    }
  }
  r.i("sg", sg).i("dq", dq).i("z1", (s1 == 0) + 2 * (c1 == 0)).i("z2", (s2 == 0) + 2 * (c2 == 0));
  r.emit();
}

// ------------------------------------------------------------------ conformal tangent maps
template<class T> static void do_tau(T tau, T es, const char* src) {
  typedef FT<T> F;
  T tp = Math::taupf(tau, es), back = Math::tauf(tp, es), ea = Math::eatanhe(tau / hypot(T(1), tau), es);
  Rec r; r.str("e", "tau").str("ty", string(1, F::tag)).str("src", src).raw("tau", numj(tau)).raw("es", numj(es))
    .raw("tp", numj(tp)).raw("back", numj(back));
  r.str("reg", es == 0 ? "sphere" : es < 0 ? "prolate" : "oblate");
  long long rel = CLIP, etp = CLIP, eea = CLIP, amp = 1;
  if (std::isfinite(tau) && tau != 0 && std::isfinite(es)) {
    // reference (Karney 2011, eqs 7-9) evaluated in MID precision with e^2 = sign(es) es^2
    M t(MID), e(MID), x(MID), sg(MID), t1(MID), u(MID), v(MID);
    mset(t, tau); mset(e, es); mpfr_abs(e, e, MPFR_RNDN);
    mpfr_sqr(t1, t, MPFR_RNDN); mpfr_add_ui(t1, t1, 1, MPFR_RNDN); mpfr_sqrt(t1, t1, MPFR_RNDN);     // sqrt(1 + tau^2)
    mpfr_div(x, t, t1, MPFR_RNDN); mpfr_mul(x, x, e, MPFR_RNDN);                                       // e sin(phi)
    if (es >= 0) mpfr_atanh(x, x, MPFR_RNDN); else { mpfr_atan(x, x, MPFR_RNDN); mpfr_neg(x, x, MPFR_RNDN); }
    mpfr_mul(x, x, e, MPFR_RNDN);                                                                      // e atanh(e sin phi)  (real form)
    { T xr = tau / hypot(T(1), tau); M xx(MID), ee(MID); mset(xx, xr); mset(ee, es); mpfr_abs(ee, ee, MPFR_RNDN);
      mpfr_mul(xx, xx, ee, MPFR_RNDN); if (es >= 0) mpfr_atanh(xx, xx, MPFR_RNDN); else { mpfr_atan(xx, xx, MPFR_RNDN); mpfr_neg(xx, xx, MPFR_RNDN); }
      mpfr_mul(xx, xx, ee, MPFR_RNDN); eea = mulp(ea, xx); }
    mpfr_sinh(sg, x, MPFR_RNDN);
    mpfr_sqr(u, sg, MPFR_RNDN); mpfr_add_ui(u, u, 1, MPFR_RNDN); mpfr_sqrt(u, u, MPFR_RNDN); mpfr_mul(u, u, t, MPFR_RNDN);
    mpfr_mul(v, sg, t1, MPFR_RNDN); mpfr_sub(u, u, v, MPFR_RNDN);                                      // tau'
    etp = mulp(tp, u);
    if (std::isfinite(back)) { M b(MID); mset(b, back); mpfr_sub(b, b, t, MPFR_RNDN); mpfr_div(b, b, t, MPFR_RNDN); mpfr_abs(b, b, MPFR_RNDN);
      mpfr_mul_2si(b, b, F::P - 1, MPFR_RNDN); mpfr_mul_ui(b, b, 1000, MPFR_RNDN);                     // unit: eps / 1000
      rel = mpfr_cmp_d(b, 1.9e9) >= 0 ? CLIP : (long long) ceil(mpfr_get_d(b, MPFR_RNDU)); }
    if (es > 0) { long double el = fabsl((long double) es); amp = (long long) ceill(powl((1 + el) / (1 - el), el)); if (amp < 1 || amp > 100000) amp = 100000; }
  }
  r.i("rel", rel).i("etp", etp).i("eea", eea).i("amp", amp).i("e2q", vt::q1((long double) es * fabsl((long double) es), 1e-6L));
  r.emit();
}

// ------------------------------------------------------------------ Accumulator
// value held by the accumulator, obtained through the public interface only: repeatedly read a() and subtract it
template<class T> static bool peel(const Accumulator<T>& acc, mpfr_ptr held) {
  Accumulator<T> b(acc); mpfr_set_zero(held, 1);
  M m(BIG);
  for (int i = 0; i < 10; ++i) {
    T v = b();
    if (v == 0) return true;
    if (!std::isfinite(v)) return false;
    mset(m, v); mpfr_add(held, held, m, MPFR_RNDN);
    b -= v;
  }
  return false;
}
// exact integer -> limbs [l0, l1, top] in base 2^bb (l0, l1 in [0, 2^bb), top signed); ok=false if not an integer / too big
static vector<long long> limbs3(mpfr_ptr v, int bb, bool& ok) {
  ok = false; vector<long long> out = {0, 0, 0};
  if (!mpfr_number_p(v) || !mpfr_integer_p(v)) return out;
  M a(BIG), q(BIG), l(BIG); mpfr_set(a, v, MPFR_RNDN);
  for (int i = 0; i < 2; ++i) {
    mpfr_mul_2si(q, a, -bb, MPFR_RNDN); mpfr_floor(q, q);
    mpfr_mul_2si(l, q, bb, MPFR_RNDN); mpfr_sub(l, a, l, MPFR_RNDN);
    out[i] = mpfr_get_si(l, MPFR_RNDN); mpfr_set(a, q, MPFR_RNDN);
  }
  if (mpfr_cmpabs_ui(a, 1000000000UL) > 0) return out;
  out[2] = mpfr_get_si(a, MPFR_RNDN); ok = true; return out;
}
// three-way comparison of the reported value a() with y and the six comparison operators of the class:
// "[c,eq,ne,lt,le,gt,ge]" (c = 2 when unordered)
template<class T> static string cmp_family(const Accumulator<T>& acc, T y) {
  T v = acc(); int c = v < y ? -1 : v > y ? 1 : v == y ? 0 : 2;
  auto B = [](bool x) { return x ? ",true" : ",false"; };
  return "[" + to_string(c) + B(acc == y) + B(acc != y) + B(acc < y) + B(acc <= y) + B(acc > y) + B(acc >= y) + "]";
}
// low word of the accumulator, read through the public interface (copy, subtract the reported value, read again)
template<class T> static T lowword(const Accumulator<T>& acc) { Accumulator<T> c(acc); T s = c(); if (!std::isfinite(s)) return T(0); c -= s; return c(); }
// remainder(y) on a copy of acc: one "rem" record that holds only what the documented range ("Reduce accumulator to the
// range [-y/2, y/2]") needs: exact comparison rh = cmp(|held after|, y/2), the limbs before / after when they are lattice
// integers, and tl = 1 when the low word before the call is non-zero.  kf names that input class (the library reduces
// only the high word).  Congruence modulo y is judged in the acc / accr record.
template<class T> static void rem_record(const Accumulator<T>& acc, T y, const char* src, int bb, const string& hist, const char* kfclass = nullptr, const string& in = "") {
  typedef FT<T> F;
  M before(BIG), after(BIG), half(BIG);
  bool okb = peel(acc, before);
  T tlw = lowword(acc);
  Accumulator<T> c(acc); c.remainder(y);
  bool oka = peel(c, after);
  mset(half, y); mpfr_div_2ui(half, half, 1, MPFR_RNDN); mpfr_abs(half, half, MPFR_RNDN);
  int rh = 2; if (oka) { int k = mpfr_cmpabs(after, half); rh = k < 0 ? -1 : k > 0 ? 1 : 0; }
  bool lb = false, la = false; vector<long long> Lb = limbs3(before, bb, lb), La = limbs3(after, bb, la);
  bool yint = y == floor(y) && fabs(y) < T(32768);
  Rec r; r.str("e", "rem").str("ty", string(1, F::tag)).str("src", src).str("in", in).i("bb", bb).raw("ops", hist)
    .i("lat", okb && oka && lb && la && yint ? 1 : 0).i("b", yint ? (long long) y : 0).raw("y", numj(y))
    .li("before", Lb).li("after", La).i("rh", rh).i("tl", tlw != 0 ? 1 : 0)
    .str("kf", kfclass ? kfclass : tlw != 0 ? "acc-remainder-lowword" : "");      // information only: no law looks at it
  r.emit();
}
// the edge of the documented range: sum = (k + 1/2) y exactly, plus or minus a term far below the last place of the high
// word (so that it lives in the low word); the reduced value must still be in [-y/2, y/2]
template<class T> static void do_rem_edge(vt::Rng& g) {
  typedef FT<T> F;
  T y = g.coin() ? T(360) * ldexp(T(1), int(g.range(-3, 3))) : ldexp(T(2 * g.range(1, 2000)), int(g.range(-20, 20)));
  int k = int(g.range(-4, 3));
  T edge = (T(2 * k + 1) * y) / 2;                                 // exact: y has few bits
  T tiny = ldexp(y, -int(g.range(F::P + 2, F::P + 40))) * (g.coin() ? 1 : -1);
  Accumulator<T> acc;
  if (g.coin()) { acc += edge; acc += tiny; } else { acc = edge; acc -= -tiny; }
  char buf[160]; snprintf(buf, sizeof buf, "sum = %La + %La; remainder(%La)", (long double) edge, (long double) tiny, (long double) y);
  rem_record(acc, y, "edge", F::P == 24 ? 15 : 30, "[]", "acc-remainder-edge", buf);
}
// history on the limb lattice, operations (k, a, b) with y = b*B^a (kinds: spec/Accumulator.tla):
// 0 += y; 1 negate; 2 *= int b; 3 *= T(b); 4 probe a(y); 5 a = y; 6 -= y; 7 compare with y; 8 remainder(y) (terminal);
// 9 copy construction; 10 assignment over an unrelated accumulator; 11 a = Accumulator(y);
// first operation: 12 Accumulator a(y); 13 Accumulator a = y; 14 Accumulator a
template<class T> static void do_acc(const vector<long long>& ops, const char* src) {
  typedef FT<T> F;
  int bb = F::P == 24 ? 15 : 30;
  unique_ptr<Accumulator<T>> pa;
  string hist = "[", obs = "[";
  M held(BIG), h2(BIG), pr(BIG);
  for (size_t i = 0; i + 2 < ops.size(); i += 3) {
    long long k = ops[i], a = ops[i + 1], b = ops[i + 2];
    T y = ldexp(T(b), int(bb * a));
    int pk = 0, peq = 0; string extra;
    if (hist.size() > 1) hist += ",";
    hist += "[" + to_string(k) + "," + to_string(a) + "," + to_string(b) + "]";
    if (k == 12) pa.reset(new Accumulator<T>(y));
    else if (k == 13) { Accumulator<T> t = y; pa.reset(new Accumulator<T>(t)); }
    else if (k == 14) pa.reset(new Accumulator<T>);
    else if (!pa) pa.reset(new Accumulator<T>(numeric_limits<T>::quiet_NaN()));       // malformed history: visible as NaN
    Accumulator<T>& acc = *pa;
    switch (k) {
    case 0: acc += y; break;
    case 1: acc *= -1; break;
    case 2: acc *= int(b); break;
    case 3: acc *= T(b); break;
    case 4: { T v = acc(y); Accumulator<T> cpy(acc); cpy += y; peq = (numj(v) == numj(T(cpy()))) ? 0 : 1; } break;
    case 5: acc = y; break;
    case 6: acc -= y; break;
    case 7: extra = "," + cmp_family(acc, y); break;
    case 8: rem_record(acc, y, src, bb, hist + "]"); acc.remainder(y); extra = "," + to_string(lowword(acc) != 0 ? 1 : 0); break;
    case 9: { unique_ptr<Accumulator<T>> c(new Accumulator<T>(acc)); pa.swap(c); } break;
    case 10: { unique_ptr<Accumulator<T>> c(new Accumulator<T>(T(77))); *c += T(0.001); *c = acc; pa.swap(c); } break;
    case 11: acc = Accumulator<T>(y); break;
    default: break;
    }
    Accumulator<T>& cur = *pa;
    bool ok = peel(cur, held); bool lok = false;
    vector<long long> L = limbs3(held, bb, lok);
    // a(0) against the correctly rounded held value
    T a0 = cur(T(0)); long long a0d = ok ? ucr(a0, held) : CLIP;
    if (obs.size() > 1) obs += ",";
    obs += "[" + to_string(ok && lok ? 1 : 0) + "," + to_string(L[0]) + "," + to_string(L[1]) + "," + to_string(L[2]) + "," +
           to_string(a0d) + "," + to_string(peq) + "," + to_string(pk) + extra + "]";
  }
  Rec r; r.str("e", "acc").str("ty", string(1, F::tag)).str("src", src).i("bb", bb).raw("ops", hist + "]").raw("obs", obs + "]");
  r.emit();
}

// random history: exact value tracked with MPFR; residual |held - exact| in units of 2^(2-2P) * (largest magnitude seen).
// The history starts from one of the constructor forms (default / from a value), may restart with a = y, copies itself,
// and is compared with numbers; `oneword` histories add integers of one binade only, so that the low word stays zero.
template<class T> static void do_acc_random(vt::Rng& g, const char* src) {
  typedef FT<T> F;
  M ex(BIG), held(BIG), my(BIG), mx(BIG), d(BIG), before(BIG);
  mpfr_set_zero(ex, 1); mpfr_set_zero(mx, 1);
  bool oneword = g.range(0, 2) == 0;
  int n = int(g.range(2, 24)), nmul = 0, nerr = 0; int e0 = F::P == 24 ? int(g.range(-25, 25)) : int(g.range(-60, 60)), spread = int(g.range(0, 3)) * (F::P == 24 ? 15 : 40);
  if (oneword) { spread = 0; n = int(g.range(2, 12)); }
  string obs = "[", cmps = "[";
  auto rnd = [&]() { T v = T(g.uni(-1, 1)); int e = e0 + int(g.range(-spread, spread)); v = ldexp(v, e);
                     if (g.range(0, 7) == 0) v = ldexp(T(g.range(-8, 8)), e);
                     if (oneword) v = ldexp(T(g.range(-100000, 100000)), e0);
                     return v; };
  // constructor form
  unique_ptr<Accumulator<T>> pa; int cform = int(g.range(0, 2));
  if (cform == 0) pa.reset(new Accumulator<T>);
  else { T y0 = rnd(); if (cform == 1) pa.reset(new Accumulator<T>(y0)); else { Accumulator<T> t = y0; pa.reset(new Accumulator<T>(t)); }
         mset(ex, y0); mpfr_abs(mx, ex, MPFR_RNDN); }
  for (int i = 0; i < n; ++i) {
    Accumulator<T>& acc = *pa;
    int k = int(g.range(0, 13)); int kind; long long pk = 0, peq = 0;
    T y = rnd();
    if (k <= 5) { kind = 0; if (g.range(0, 5) == 0) { acc -= y; y = -y; } else acc += y; mset(my, y); mpfr_add(ex, ex, my, MPFR_RNDN); ++nerr; }
    else if (k == 6) { kind = 1; acc *= -1; mpfr_neg(ex, ex, MPFR_RNDN); y = 0; }
    else if (k == 7) { kind = 2; int m = g.coin() ? 2 : -4; if (oneword) m = -1; acc *= m; mpfr_mul_si(ex, ex, m, MPFR_RNDN); y = 0; }
    else if (k == 8 && nmul < 3) { kind = 3; y = oneword ? T(3) : T(g.uni(-3, 3)); acc *= y; mset(my, y); mpfr_mul(ex, ex, my, MPFR_RNDN); ++nmul; ++nerr; y = 0; }
    else if (k == 9) { kind = 5; if (g.coin()) acc = y; else acc = Accumulator<T>(y); mset(ex, y); nerr = 0; mpfr_set_zero(mx, 1); }   // restart: set sum = y
    else if (k == 10) { kind = 9; if (g.coin()) { unique_ptr<Accumulator<T>> c(new Accumulator<T>(acc)); pa.swap(c); }
                        else { unique_ptr<Accumulator<T>> c(new Accumulator<T>(T(77))); *c += T(0.001); *c = acc; pa.swap(c); } y = 0; }
    else if (k == 11) { kind = 7; int w = int(g.range(0, 4)); T v = acc();
                        T yc = w == 0 ? T(0) : w == 1 ? v : w == 2 ? nextafter(v, T(1e30)) : w == 3 ? nextafter(v, T(-1e30)) : y;
                        if (cmps.size() > 1) cmps += ","; cmps += cmp_family(acc, yc); y = 0; }
    else { kind = 4; peel(acc, before); T v = acc(y); Accumulator<T> cpy(acc); cpy += y; peq = (numj(v) == numj(T(cpy()))) ? 0 : 1;
           peel(acc, held); pk = mpfr_equal_p(before, held) ? 0 : 1; }
    Accumulator<T>& cur = *pa;
    mset(my, y); if (mpfr_cmpabs(my, mx) > 0) mpfr_abs(mx, my, MPFR_RNDN);
    if (mpfr_cmpabs(ex, mx) > 0) mpfr_abs(mx, ex, MPFR_RNDN);
    bool ok = peel(cur, held);
    long long err = CLIP;
    if (ok) { mpfr_sub(d, held, ex, MPFR_RNDN); mpfr_abs(d, d, MPFR_RNDN);
      if (mpfr_zero_p(d)) err = 0;
      else if (!mpfr_zero_p(mx)) { mpfr_div(d, d, mx, MPFR_RNDN); mpfr_mul_2si(d, d, 2 * F::P - 2, MPFR_RNDN);
        err = mpfr_cmp_d(d, 1.9e9) >= 0 ? CLIP : (long long) ceil(mpfr_get_d(d, MPFR_RNDU)); } }
    T a0 = cur(T(0)); long long a0d = ok ? ucr(a0, held) : CLIP;
    if (i) obs += ",";
    obs += "[" + to_string(kind) + "," + to_string(ok ? 1 : 0) + "," + to_string(err) + "," + to_string(nerr) + "," + to_string(a0d) + "," +
           to_string(peq) + "," + to_string(pk) + "]";
  }
  Accumulator<T>& acc = *pa;
  // remainder(y): held' == held (mod y) exactly (here); the documented range is judged on the separate "rem" record
  T ym = T(360) * ldexp(T(1), int(g.range(-3, 3)));
  if (oneword) ym = ldexp(T(g.range(1, 4000)), e0);
  rem_record(acc, ym, src, F::P == 24 ? 15 : 30, "[]");
  peel(acc, before); acc.remainder(ym); bool ok = peel(acc, held);
  long long rk = CLIP; int rr = 2;
  if (ok) { M q(BIG), m(BIG); mset(m, ym); mpfr_sub(d, held, before, MPFR_RNDN); mpfr_div(q, d, m, MPFR_RNDN);
    rk = mpfr_integer_p(q) ? 0 : 1;
    T lim = nextup(ym / 2); rr = cmp3<T>(fabs(acc()), lim); }
  Rec r; r.str("e", "accr").str("ty", string(1, F::tag)).str("src", src).i("cform", cform).i("ow", oneword ? 1 : 0)
    .raw("obs", obs + "]").raw("cmps", cmps + "]").i("rk", rk).i("rr", rr);
  r.emit();
}

// ------------------------------------------------------------------ helpers (polyval, sq, norm, hypot3, swab, NaN, infinity)
template<class T> static void do_pv(const vector<long long>& p, long long x) {
  typedef FT<T> F;
  vector<T> c; for (long long a : p) c.push_back(T(a));
  T dummy = 0; const T* pp = c.empty() ? &dummy : c.data();
  T v = Math::polyval(int(c.size()) - 1, pp, T(x));
  bool n0nan = true, n0inf = true;          // N = 0: p_0 "even if x is infinite or a nan"
  if (!c.empty()) { T a = Math::polyval(0, pp, numeric_limits<T>::quiet_NaN()), b = Math::polyval(0, pp, -numeric_limits<T>::infinity());
                    n0nan = a == c[0]; n0inf = b == c[0]; }
  string ps = "["; for (size_t i = 0; i < p.size(); ++i) { if (i) ps += ","; ps += to_string(p[i]); } ps += "]";
  Rec r; r.str("e", "msc").str("k", "pv").str("ty", string(1, F::tag)).raw("p", ps).i("x", x)
    .i("v", std::isfinite(v) && fabs(v) < T(2e9) ? (long long) v : CLIP).b("ex", std::isfinite(v) && v == floor(v)).b("n0nan", n0nan).b("n0inf", n0inf);
  r.emit();
}
template<class T> static void do_sq(long long m, int e) {
  typedef FT<T> F;
  T x = ldexp(T(m), e), y = Math::sq(x);
  M ex(BIG); mset(ex, x); mpfr_mul(ex, ex, ex, MPFR_RNDN);
  Rec r; r.str("e", "msc").str("k", "sq").str("ty", string(1, F::tag)).i("xm", m).i("xe", e).raw("y", numj(y)).i("u", ucr(y, ex));
  r.emit();
}
template<class T> static void do_nrm(long long a, long long b, long long h, int k) {
  typedef FT<T> F;
  T x = ldexp(T(a), k), y = ldexp(T(b), k); Math::norm(x, y);
  M ex(BIG), hh(BIG); mpfr_set_si(hh, h, MPFR_RNDN);
  mpfr_set_si(ex, a, MPFR_RNDN); mpfr_div(ex, ex, hh, MPFR_RNDN); long long ux = ucr(x, ex);
  mpfr_set_si(ex, b, MPFR_RNDN); mpfr_div(ex, ex, hh, MPFR_RNDN); long long uy = ucr(y, ex);
  Rec r; r.str("e", "msc").str("k", "nrm").str("ty", string(1, F::tag)).i("a", a).i("b", b).i("h", h).i("sc", k).i("ux", ux).i("uy", uy);
  r.emit();
}
template<class T> static void do_h3(int n, long long m, int e) {
  typedef FT<T> F;
  T x = ldexp(T(m), e), z = 0, nz = -z;
  T v = n == 1 ? Math::hypot3(x, z, nz) : n == 2 ? Math::hypot3(nz, x, z) : Math::hypot3(z, nz, x);
  Rec r; r.str("e", "msc").str("k", "h3").str("ty", string(1, F::tag)).i("n", n).i("xm", m).i("xe", e).b("same", numj(v) == numj(T(fabs(x))));
  r.emit();
}
template<class U> static void do_swab(U x, const char* ty) {
  U y = Math::swab<U>(x), z = Math::swab<U>(y);
  unsigned char a[sizeof(U)], b[sizeof(U)]; memcpy(a, &x, sizeof(U)); memcpy(b, &y, sizeof(U));
  bool rev = true; for (size_t i = 0; i < sizeof(U); ++i) rev = rev && a[i] == b[sizeof(U) - 1 - i];
  Rec r; r.str("e", "msc").str("k", "swab").str("ty", ty).i("n", (long long) sizeof(U)).b("rev", rev).b("inv", memcmp(&x, &z, sizeof(U)) == 0);
  r.emit();
}
template<class T> static void do_const() {
  typedef FT<T> F; T n = Math::NaN<T>(), i = Math::infinity<T>();
  Rec r; r.str("e", "msc").str("k", "const").str("ty", string(1, F::tag)).b("nan", std::isnan(n)).b("pinf", std::isinf(i) && i > 0);
  r.emit();
}
static void do_msc_fixed(vt::Rng& g) {
  for (int i = 0; i < 40; ++i) { uint64_t u = g.next();
    do_swab<uint64_t>(u, "u64"); do_swab<uint32_t>(uint32_t(u), "u32"); do_swab<uint16_t>(uint16_t(u), "u16"); do_swab<unsigned char>((unsigned char) u, "u8");
    double d; memcpy(&d, &u, 8); do_swab<double>(d, "d"); float f; uint32_t w = uint32_t(u >> 7); memcpy(&f, &w, 4); do_swab<float>(f, "f"); }
  do_const<float>(); do_const<double>(); do_const<long double>();
}

// ------------------------------------------------------------------ inputs
static float mkf(const vector<string>& t, size_t i) {
  int c = atoi(t[i].c_str()); long long m = atoll(t[i + 1].c_str()); int e = atoi(t[i + 2].c_str());
  switch (c) { case 1: return 0.0f; case 2: return -0.0f; case 3: return numeric_limits<float>::infinity();
    case 4: return -numeric_limits<float>::infinity(); case 5: return numeric_limits<float>::quiet_NaN(); default: break; }
  return ldexpf(float(m), e);
}

template<class T> static T rnd_angle(vt::Rng& g) {
  int k = int(g.range(0, 15)); T v;
  switch (k) {
  case 0: v = T(g.uni(-360, 360)); break;
  case 1: v = T(g.uni(-45, 45)); break;
  case 2: v = T(g.uni(-1e6, 1e6)); break;
  case 3: v = ldexp(T(g.uni(-1, 1)), int(g.range(0, FT<T>::P == 24 ? 120 : 900))); break;           // huge
  case 4: v = T(90 * g.range(-9, 9)) + T(g.uni(-1e-3, 1e-3)); break;
  case 5: v = ldexp(T(g.uni(-1, 1)), -int(g.range(0, FT<T>::P == 24 ? 140 : 1000))); break;         // tiny, subnormal
  case 6: v = T(15 * g.range(-48, 48)); break;                                                       // multiples of 15
  case 7: { v = T(45 * g.range(-16, 16)); int n = int(g.range(-3, 3)); for (int i = 0; i < abs(n); ++i) v = nextafter(v, n > 0 ? T(1e9) : T(-1e9)); } break;
  case 8: v = T(g.range(-720, 720)) + T(g.range(0, 64)) / 64; break;
  case 9: v = T(360) * ldexp(T(g.range(-5, 5)), int(g.range(0, 60))) + T(g.range(-90, 90)); break;
  case 10: v = T(g.uni(-1, 1)) / 16; break;
  case 11: { v = T(1) / 16; int n = int(g.range(-4, 4)); for (int i = 0; i < abs(n); ++i) v = nextafter(v, n > 0 ? T(1) : T(0)); if (g.coin()) v = -v; } break;
  case 12: v = T(g.uni(-180, 180)); break;
  case 13: v = T(30 * g.range(-12, 12)) * ldexp(T(1), int(g.range(0, 30))); break;
  case 14: v = T(g.uni(-90.5, 90.5)); break;
  default: { static const double sp[] = {0.0, -0.0, 90, -90, 180, -180, 360, 1e300, -1e300}; v = T(sp[g.range(0, 8)]);
             int w = int(g.range(0, 11)); if (w == 0) v = numeric_limits<T>::infinity(); if (w == 1) v = -numeric_limits<T>::infinity(); if (w == 2) v = numeric_limits<T>::quiet_NaN(); } break;
  }
  return v;
}

template<class T> static void record_group(vt::Rng& g, long long it) {
  int kind = int(it % 8);
  if (kind <= 1) do_one<T>(rnd_angle<T>(g), "rnd");
  else if (kind <= 3) {
    T a = rnd_angle<T>(g), b = rnd_angle<T>(g);
    int w = int(g.range(0, 9));
    if (w == 0) b = a + T(180); if (w == 1) b = a - T(180) + T(g.uni(-1e-9, 1e-9)); if (w == 2) b = a + T(360 * g.range(-2, 2));
    if (w == 3) { a = T(g.uni(-180, 180)); b = T(g.uni(-180, 180)); } if (w == 4) b = -a; if (w == 5) b = ldexp(a, -FT<T>::P + int(g.range(-3, 3)));
    if (w == 6) { a = ldexp(T(g.uni(-1, 1)), int(g.range(-40, 40))); b = ldexp(T(g.uni(-1, 1)), int(g.range(-40, 40))); }
    if (w == 7) { a = T(g.uni(-2, 2)); b = a * (1 + T(g.uni(-1e-6, 1e-6))) * (g.coin() ? 1 : -1); }
    do_two<T>(a, b, "rnd");
  } else if (kind == 4) {
    T x = rnd_angle<T>(g), x2; int w = int(g.range(0, 5));
    if (!std::isfinite(x)) x = T(33);
    if (fabs(x) > T(1e6)) x = T(g.uni(-720, 720));
    x = T(round(double(x) * 1024) / 1024);                    // dyadic with few bits so that the shifts below are exact
    switch (w) { case 0: x2 = -x; break; case 1: x2 = x + T(360 * g.range(-20, 20)); break; case 2: x2 = T(90) - x; break;
      case 3: x2 = x + T(90 * g.range(-9, 9)); break; case 4: x2 = T(180) - x; break; default: x2 = T(90 * g.range(-7, 7)) - x; break; }
    do_trp<T>(x, x2, "rnd");
  } else if (kind == 5 || kind == 6) {
    long double e2; int w = int(g.range(0, 19));
    if (w == 0) e2 = 0; else if (w == 1) e2 = -g.uni(0, 10); else if (w == 2) e2 = 0.0066943799901413165L; else if (w <= 4) e2 = g.uni(0.9, 0.98); else e2 = g.uni(0, 0.9);
    T es = T(e2 < 0 ? -sqrtl(-e2) : sqrtl(e2));
    T tau = ldexp(T(g.uni(-1, 1)), int(g.range(-40, 40)));
    int v = int(g.range(0, 29)); if (v == 0) tau = numeric_limits<T>::infinity(); if (v == 1) tau = -numeric_limits<T>::infinity();
    if (v == 2) tau = numeric_limits<T>::quiet_NaN(); if (v == 3) tau = g.coin() ? T(0) : -T(0); if (v == 4) tau = T(g.uni(-3, 3));
    do_tau<T>(tau, es, "rnd");
  } else {
    if (FT<T>::P == 64) do_one<T>(rnd_angle<T>(g), "rnd");
    else if (g.range(0, 7) == 0) do_rem_edge<T>(g);
    else do_acc_random<T>(g, "rnd");
  }
}

// stratified sweep over all 2^32 binary32 bit patterns (thorough tier: relational obligations on a 1-in-stride sample)
static void sweep(uint64_t seed, uint64_t stride) {
  vt::Rng g(seed);
  for (uint64_t base = 0; base < (1ULL << 32); base += stride) {
    uint32_t u = uint32_t(base + g.next() % stride); float x; memcpy(&x, &u, 4);
    do_one<float>(x, "sweep");
  }
}

// ------------------------------------------------------------------ calibration aid
static void calib(const char* file) {
  // reads a trace on stdin-like file and prints maxima of residual fields per (kind, T)
  (void) file;
}

int main(int argc, char** argv) {
  vt::install_terminate();
  if (argc >= 2 && string(argv[1]) == "replay") {
    bool dbl = argc >= 3 && string(argv[2]).find('d') != string::npos;
    string line;
    while (getline(cin, line)) {
      auto t = vt::split(line); if (t.empty()) continue;
      if (t[0] == "one" && t.size() >= 4) { float x = mkf(t, 1); do_one<float>(x, "lat"); if (dbl) do_one<double>(double(x), "lat"); }
      else if (t[0] == "two" && t.size() >= 7) { float a = mkf(t, 1), b = mkf(t, 4); do_two<float>(a, b, "lat"); if (dbl) do_two<double>(double(a), double(b), "lat"); }
      else if (t[0] == "trp" && t.size() >= 7) { float a = mkf(t, 1), b = mkf(t, 4); do_trp<float>(a, b, "lat"); if (dbl) do_trp<double>(double(a), double(b), "lat"); }
      else if (t[0] == "pv" && t.size() >= 3) { long long n = atoll(t[1].c_str()); vector<long long> p; for (long long i = 0; i < n; ++i) p.push_back(atoll(t[2 + i].c_str()));
        long long x = atoll(t[2 + n].c_str()); do_pv<float>(p, x); if (dbl) { do_pv<double>(p, x); do_pv<long double>(p, x); } }
      else if (t[0] == "sq" && t.size() >= 3) { do_sq<float>(atoll(t[1].c_str()), atoi(t[2].c_str())); if (dbl) do_sq<double>(atoll(t[1].c_str()), atoi(t[2].c_str())); }
      else if (t[0] == "nrm" && t.size() >= 5) { long long a = atoll(t[1].c_str()), b = atoll(t[2].c_str()), h = atoll(t[3].c_str()); int k = atoi(t[4].c_str());
        do_nrm<float>(a, b, h, k); if (dbl) { do_nrm<double>(a, b, h, k); do_nrm<long double>(a, b, h, k); } }
      else if (t[0] == "h3" && t.size() >= 4) { int n = atoi(t[1].c_str()); long long m = atoll(t[2].c_str()); int e = atoi(t[3].c_str());
        do_h3<float>(n, m, e); if (dbl) { do_h3<double>(n, m, e); do_h3<long double>(n, m, e); } }
      else if (t[0] == "acc" && t.size() >= 2) {
        vector<long long> ops; for (size_t i = 2; i < t.size(); ++i) ops.push_back(atoll(t[i].c_str()));
        if (t[1] == "f") do_acc<float>(ops, "lat"); else do_acc<double>(ops, "lat");
      }
    }
    return 0;
  }
  if (argc >= 4 && string(argv[1]) == "record") {
    uint64_t seed = strtoull(argv[2], 0, 10); long long n = atoll(argv[3]);
    vt::Rng g(seed);
    do_msc_fixed(g);
    for (long long it = 0; it < n; ++it) {
      int ty = int((it / 8) % 3);
      if (ty == 0) record_group<double>(g, it); else if (ty == 1) record_group<float>(g, it); else record_group<long double>(g, it);
    }
    if (argc >= 5) { uint64_t stride = strtoull(argv[4], 0, 10); if (stride > 0) sweep(seed, stride); }
    return 0;
  }
  fprintf(stderr, "usage: drv_angle replay [fd] < vectors | record seed n [sweep-stride]\n"); return 2;
}
