// Driver for output masks / line objects (C12).
#include "trace.hpp"
#include <GeographicLib/Geodesic.hpp>
#include <GeographicLib/GeodesicLine.hpp>
#include <GeographicLib/GeodesicExact.hpp>
#include <GeographicLib/GeodesicLineExact.hpp>
#include <GeographicLib/Rhumb.hpp>
#include <GeographicLib/Math.hpp>

using namespace GeographicLib;
using namespace std;
using vt::Rec;

// mask sets <-> library constants.  bit i of m: 0 LAT 1 LON 2 AZI 3 DIST 4 DIST_IN 5 REDLEN 6 SCALE 7 AREA 8 UNROLL
template<class M> static unsigned tomask(int m) {
  unsigned r = 0;
  if (m & 1) r |= M::LATITUDE; if (m & 2) r |= M::LONGITUDE; if (m & 4) r |= M::AZIMUTH; if (m & 8) r |= M::DISTANCE;
  if (m & 16) r |= M::DISTANCE_IN; if (m & 32) r |= M::REDUCEDLENGTH; if (m & 64) r |= M::GEODESICSCALE; if (m & 128) r |= M::AREA;
  if (m & 256) r |= M::LONG_UNROLL;
  return r;
}
static unsigned rmask(int m) {
  unsigned r = 0;
  if (m & 1) r |= Rhumb::LATITUDE; if (m & 2) r |= Rhumb::LONGITUDE; if (m & 4) r |= Rhumb::AZIMUTH; if (m & 8) r |= Rhumb::DISTANCE;
  if (m & 128) r |= Rhumb::AREA; if (m & 256) r |= Rhumb::LONG_UNROLL;
  return r;
}
static int outbits(unsigned caps) { return int((caps >> 7) & 511u); }

struct Geo { double a, f, lat1, lon1, azi1, lat2, lon2; };
static const Geo GEOS[3] = {
  {6378137.0, 1 / 298.257223563, 40.64, -73.78, 53.5, 1.36, 103.99},      // generic WGS84
  {6378137.0, 1 / 298.257223563, -30.0, 20.0, 0.0, 85.0, -160.0},          // meridional, through the pole
  {6.4e6, -0.01, 0.0, 10.0, 90.0, 0.0, 150.0},                             // equatorial on a prolate ellipsoid
};

struct Out { double v[8]; };   // lat2 lon2 azi2 s12 m12 M12 M21 S12
static Out sentinels() { Out o; for (int i = 0; i < 8; ++i) o.v[i] = vt::sentinel(10 + i); return o; }
// written set as mask bits; pairok=false when M12/M21 disagree
static int written(const Out& o, bool& pairok) {
  int w = 0; static const int bit[8] = {1, 2, 4, 8, 32, 64, 64, 128};
  bool m12 = !vt::is_sentinel(o.v[5], 15), m21 = !vt::is_sentinel(o.v[6], 16);
  pairok = m12 == m21;
  for (int i = 0; i < 8; ++i) if (!vt::is_sentinel(o.v[i], 10 + i)) w |= bit[i];
  return w;
}

template<class G, class L> static void pos_t(const G& g, const Geo& q, const vector<string>& t, int kind) {
  string ctor = t[2]; int caps = atoi(t[3].c_str()); string so = t[4]; bool am = atoi(t[5].c_str()) != 0; int om = atoi(t[6].c_str());
  unsigned c = tomask<G>(caps);
  L line = ctor == "line" ? g.Line(q.lat1, q.lon1, q.azi1, c)
         : ctor == "direct" ? g.DirectLine(q.lat1, q.lon1, q.azi1, 1.0e6, c)
         : ctor == "arcdirect" ? g.ArcDirectLine(q.lat1, q.lon1, q.azi1, 9.0, c)
         : g.InverseLine(q.lat1, q.lon1, q.lat2, q.lon2, c);
  { size_t k = 0; while (k < so.size()) { size_t e = so.find('+', k); string op = so.substr(k, e == string::npos ? string::npos : e - k); k = e == string::npos ? so.size() : e + 1;
      if (op == "setdist") line.SetDistance(2.0e6); else if (op == "setarc") line.SetArc(20.0);
      else if (op == "gsetdist") line.GenSetDistance(false, 2.5e6); else if (op == "gsetarc") line.GenSetDistance(true, 25.0); } }
  Out o = sentinels();
  double ret = line.GenPosition(am, am ? 15.0 : 1.5e6, tomask<G>(om), o.v[0], o.v[1], o.v[2], o.v[3], o.v[4], o.v[5], o.v[6], o.v[7]);
  bool pairok; int w = written(o, pairok);
  Rec r; r.str("e", "pos").i("kind", kind).str("ctor", ctor).i("caps", caps).str("so", so).b("am", am).i("om", om)
    .i("capsobs", outbits(line.Capabilities())).b("dnum", !std::isnan(line.Distance())).b("anum", !std::isnan(line.Arc()))
    .b("ret", !std::isnan(ret)).i("w", w).b("pairok", pairok).b("init", line.Init());
  r.emit();
}

template<class G> static void gd_t(const G& g, const Geo& q, int kind, bool am, int om) {
  Out o = sentinels();
  double ret = g.GenDirect(q.lat1, q.lon1, q.azi1, am, am ? 15.0 : 1.5e6, tomask<G>(om), o.v[0], o.v[1], o.v[2], o.v[3], o.v[4], o.v[5], o.v[6], o.v[7]);
  bool pairok; int w = written(o, pairok);
  Rec r; r.str("e", "gd").i("kind", kind).b("am", am).i("om", om).b("ret", !std::isnan(ret)).i("w", w).b("pairok", pairok); r.emit();
}
// value residuals |v - ref| in units of 1e-16 of scale (NaN against NaN is 0, NaN against a number is "huge")
static long long rel(double v, double ref, double scale) {
  if (std::isnan(v) || std::isnan(ref)) return std::isnan(v) && std::isnan(ref) ? 0 : 2000000001LL;
  return vt::q1(fabsl((long double)v - ref) / scale, 1e-16L);
}
static long long angrel(double v, double ref) { return vt::q1(fabsl(remainderl((long double)v - ref, 360.0L)), 1e-16L * 360); }   // NaN -> "huge"
// the same where NaN is a documented result (rhumb line over a pole): NaN against NaN is 0
static long long angrelN(double v, double ref) { return std::isnan(v) && std::isnan(ref) ? 0 : angrel(v, ref); }
static const double PI_ = 3.14159265358979323846;
// the inputs of a record as text (for replay by hand; the trace spec does not read it)
static string inputs(std::initializer_list<double> v) { string s; char b[40]; for (double x : v) { snprintf(b, 40, "%.17g", x); if (!s.empty()) s += ' '; s += b; } return s; }

// GenInverse with mask om into sentinels: written set, and the residual of every written value against the call with mask ALL
// d = [s12, azi1, azi2, m12, M12, M21, S12]
template<class G> static void inv_fill(const G& g, double a, double lat1, double lon1, double lat2, double lon2, int om, Rec& r) {
  double s12 = vt::sentinel(13), a1 = vt::sentinel(12), a2 = vt::sentinel(22), m12 = vt::sentinel(14), M12 = vt::sentinel(15), M21 = vt::sentinel(16), S12 = vt::sentinel(17);
  double ret = g.GenInverse(lat1, lon1, lat2, lon2, tomask<G>(om), s12, a1, a2, m12, M12, M21, S12);
  int w = 0; bool pa = !vt::is_sentinel(a1, 12), pb = !vt::is_sentinel(a2, 22), pm = !vt::is_sentinel(M12, 15), pn = !vt::is_sentinel(M21, 16);
  bool ps = !vt::is_sentinel(s12, 13), pr = !vt::is_sentinel(m12, 14), pS = !vt::is_sentinel(S12, 17);
  if (pa) w |= 4; if (ps) w |= 8; if (pr) w |= 32; if (pm) w |= 64; if (pS) w |= 128;
  double R[7]; double rret = g.GenInverse(lat1, lon1, lat2, lon2, G::ALL, R[0], R[1], R[2], R[3], R[4], R[5], R[6]);
  double area = 4 * PI_ * a * a;
  vector<long long> d(7, 0);
  if (ps) d[0] = rel(s12, R[0], a); if (pa) d[1] = angrel(a1, R[1]); if (pb) d[2] = angrel(a2, R[2]); if (pr) d[3] = rel(m12, R[3], a);
  if (pm) d[4] = rel(M12, R[4], 1); if (pn) d[5] = rel(M21, R[5], 1); if (pS) d[6] = rel(S12, R[6], area);
  r.i("om", om).b("ret", !std::isnan(ret)).i("w", w).b("pairok", pa == pb && pm == pn).li("d", d).i("dret", rel(ret, rret, 360));
}
template<class G> static void gi_t(const G& g, const Geo& q, int kind, int om, const string& cls = "") {
  Rec r; r.str("e", "gi").i("kind", kind); if (!cls.empty()) r.str("cls", cls);
  inv_fill(g, q.a, q.lat1, q.lon1, q.lat2, q.lon2, om, r); r.emit();
}

// one fixed input per end-point class of the inverse problem (the classes are enumerated by MC_GeodLine)
static const double WA = 6378137.0, WF = 1 / 298.257223563;
static bool gi_class(const string& c, Geo& q) {
  static const struct { const char* n; Geo q; } tab[] = {
    {"generic", {WA, WF, 40.64, -73.78, 0, 1.36, 103.99}},
    {"generic-swapped", {WA, WF, 1.36, 103.99, 0, 40.64, -73.78}},
    {"coincident", {WA, WF, 40.64, -73.78, 0, 40.64, -73.78}},
    {"short", {WA, WF, 40.64, -73.78, 0, 40.6400005, -73.7800005}},            // about 0.07 m
    {"short-swapped", {WA, WF, 40.6400005, -73.7800005, 0, 40.64, -73.78}},
    {"merid", {WA, WF, 10.0, 20.0, 0, 40.0, 20.0}},
    {"merid-long", {WA, WF, -30.0, 20.0, 0, 80.0, 20.0}},
    {"merid-pole", {WA, WF, -30.0, 20.0, 0, 85.0, -160.0}},
    {"equatorial", {WA, WF, 0.0, 10.0, 0, 0.0, 150.0}},
    {"equatorial-far", {WA, WF, 0.0, 10.0, 0, 0.0, -170.5}},                   // both on the equator, the geodesic is not equatorial
    {"equatorial-prolate", {6.4e6, -0.01, 0.0, 10.0, 0, 0.0, 150.0}},
    {"antipodal", {WA, WF, 30.0, 0.0, 0, -29.9, 179.8}},
    {"antipodal-exact", {WA, WF, 30.0, 0.0, 0, -30.0, 180.0}},
    {"pole-pole", {WA, WF, 90.0, 0.0, 0, -90.0, 50.0}},
    {"prolate-merid", {6.4e6, -0.01, -30.0, 20.0, 0, 85.0, -160.0}},
    {"prolate-antipodal", {6.4e6, -0.01, 30.0, 0.0, 0, -30.0, 179.9}},
    {"sphere", {6.4e6, 0.0, 40.64, -73.78, 0, 1.36, 103.99}},
  };
  for (auto& t : tab) if (c == t.n) { q = t.q; return true; }
  return false;
}

// Rhumb::GenInverse with mask om: written set and residuals [s12, azi12, S12] against mask ALL
static void rinv_fill(const Rhumb& rh, double lat1, double lon1, double lat2, double lon2, int om, Rec& r, const char* wk, const char* dk) {
  double s12 = vt::sentinel(13), azi = vt::sentinel(12), S12 = vt::sentinel(17);
  rh.GenInverse(lat1, lon1, lat2, lon2, rmask(om), s12, azi, S12);
  double Rs, Ra, RS; rh.GenInverse(lat1, lon1, lat2, lon2, Rhumb::ALL, Rs, Ra, RS);
  double a = rh.EquatorialRadius(), area = 4 * PI_ * a * a;
  int w = 0; vector<long long> d(3, 0);
  if (!vt::is_sentinel(s12, 13)) { w |= 8; d[0] = rel(s12, Rs, a); } if (!vt::is_sentinel(azi, 12)) { w |= 4; d[1] = angrelN(azi, Ra); }   // pole to the same pole: NaN
  if (!vt::is_sentinel(S12, 17)) { w |= 128; d[2] = rel(S12, RS, area); }
  r.i(wk, w).li(dk, d);
}
static void ri_class(const string& c, int ex, int om) {
  static const struct { const char* n; double p[4]; } tab[] = {
    {"generic", {40, -70, 50, 30}}, {"north", {40, -70, 90, 30}}, {"south", {-90, -70, 50, 30}}, {"poles", {-90, 10, 90, 60}},
    {"meridian", {40, -70, 50, -70}}, {"parallel", {40, -70, 40, 30}}, {"coincident", {40, -70, 40, -70}}, {"antimeridian", {40, -70, 50, 110}},
    {"pole-coincident", {90, 10, 90, 60}},
  };
  for (auto& t : tab) if (c == t.n) {
    Rhumb rr(WA, WF, ex == 1);
    Rec r; r.str("e", "ri").str("cls", c).b("exact", ex == 1).i("om", om);
    rinv_fill(rr, t.p[0], t.p[1], t.p[2], t.p[3], om, r, "w", "d"); r.emit(); return;
  }
  Rec r; r.str("e", "ri-unknown-class").str("cls", c); r.emit();
}

// ------------------------------------------------------------------ inline overloads
// calls overload (fam, n) with sentinel-filled arguments; o.v = lat2 lon2 azi2 s12 m12 M12 M21 S12, a1 = azi1 of the inverse problem
template<class G> static double ov_solver(const G& g, const Geo& q, const string& fam, int n, Out& o, double& a1, bool& known) {
  double* v = o.v; const double s = 1.5e6, arc = 15.0; known = true;
  if (fam == "Direct") switch (n) {
    case 2: return g.Direct(q.lat1, q.lon1, q.azi1, s, v[0], v[1]);
    case 3: return g.Direct(q.lat1, q.lon1, q.azi1, s, v[0], v[1], v[2]);
    case 4: return g.Direct(q.lat1, q.lon1, q.azi1, s, v[0], v[1], v[2], v[4]);
    case 5: return g.Direct(q.lat1, q.lon1, q.azi1, s, v[0], v[1], v[2], v[5], v[6]);
    case 6: return g.Direct(q.lat1, q.lon1, q.azi1, s, v[0], v[1], v[2], v[4], v[5], v[6]);
    case 7: return g.Direct(q.lat1, q.lon1, q.azi1, s, v[0], v[1], v[2], v[4], v[5], v[6], v[7]);
  }
  if (fam == "ArcDirect") switch (n) {
    case 2: g.ArcDirect(q.lat1, q.lon1, q.azi1, arc, v[0], v[1]); return 0;
    case 3: g.ArcDirect(q.lat1, q.lon1, q.azi1, arc, v[0], v[1], v[2]); return 0;
    case 4: g.ArcDirect(q.lat1, q.lon1, q.azi1, arc, v[0], v[1], v[2], v[3]); return 0;
    case 5: g.ArcDirect(q.lat1, q.lon1, q.azi1, arc, v[0], v[1], v[2], v[3], v[4]); return 0;
    case 6: g.ArcDirect(q.lat1, q.lon1, q.azi1, arc, v[0], v[1], v[2], v[3], v[5], v[6]); return 0;
    case 7: g.ArcDirect(q.lat1, q.lon1, q.azi1, arc, v[0], v[1], v[2], v[3], v[4], v[5], v[6]); return 0;
    case 8: g.ArcDirect(q.lat1, q.lon1, q.azi1, arc, v[0], v[1], v[2], v[3], v[4], v[5], v[6], v[7]); return 0;
  }
  if (fam == "Inverse") switch (n) {
    case 1: return g.Inverse(q.lat1, q.lon1, q.lat2, q.lon2, v[3]);
    case 2: return g.Inverse(q.lat1, q.lon1, q.lat2, q.lon2, a1, v[2]);
    case 3: return g.Inverse(q.lat1, q.lon1, q.lat2, q.lon2, v[3], a1, v[2]);
    case 4: return g.Inverse(q.lat1, q.lon1, q.lat2, q.lon2, v[3], a1, v[2], v[4]);
    case 5: return g.Inverse(q.lat1, q.lon1, q.lat2, q.lon2, v[3], a1, v[2], v[5], v[6]);
    case 6: return g.Inverse(q.lat1, q.lon1, q.lat2, q.lon2, v[3], a1, v[2], v[4], v[5], v[6]);
    case 7: return g.Inverse(q.lat1, q.lon1, q.lat2, q.lon2, v[3], a1, v[2], v[4], v[5], v[6], v[7]);
  }
  known = false; return 0;
}
template<class L> static double ov_line(const L& l, const string& fam, int n, Out& o, bool& known) {
  double* v = o.v; const double s = 1.5e6, arc = 15.0; known = true;
  if (fam == "Position") switch (n) {
    case 2: return l.Position(s, v[0], v[1]);
    case 3: return l.Position(s, v[0], v[1], v[2]);
    case 4: return l.Position(s, v[0], v[1], v[2], v[4]);
    case 5: return l.Position(s, v[0], v[1], v[2], v[5], v[6]);
    case 6: return l.Position(s, v[0], v[1], v[2], v[4], v[5], v[6]);
    case 7: return l.Position(s, v[0], v[1], v[2], v[4], v[5], v[6], v[7]);
  }
  if (fam == "ArcPosition") switch (n) {
    case 2: l.ArcPosition(arc, v[0], v[1]); return 0;
    case 3: l.ArcPosition(arc, v[0], v[1], v[2]); return 0;
    case 4: l.ArcPosition(arc, v[0], v[1], v[2], v[3]); return 0;
    case 5: l.ArcPosition(arc, v[0], v[1], v[2], v[3], v[4]); return 0;
    case 6: l.ArcPosition(arc, v[0], v[1], v[2], v[3], v[5], v[6]); return 0;
    case 7: l.ArcPosition(arc, v[0], v[1], v[2], v[3], v[4], v[5], v[6]); return 0;
    case 8: l.ArcPosition(arc, v[0], v[1], v[2], v[3], v[4], v[5], v[6], v[7]); return 0;
  }
  known = false; return 0;
}
template<class G, class L> static void ov_t(const G& g, const Geo& q, const string& fam, int n, int kind, int caps) {
  Out o = sentinels(), R; double a1 = vt::sentinel(22), ret, rref, Ra1 = 0; bool known;
  bool am = fam == "ArcDirect" || fam == "ArcPosition", inv = fam == "Inverse", line = fam == "Position" || fam == "ArcPosition";
  if (line) { L l = g.Line(q.lat1, q.lon1, q.azi1, tomask<G>(caps)); ret = ov_line(l, fam, n, o, known); }
  else ret = ov_solver(g, q, fam, n, o, a1, known);
  // reference: the general routine with mask ALL (for the line families on a line with all capabilities)
  if (inv) { R.v[0] = R.v[1] = 0; rref = g.GenInverse(q.lat1, q.lon1, q.lat2, q.lon2, G::ALL, R.v[3], Ra1, R.v[2], R.v[4], R.v[5], R.v[6], R.v[7]); }
  else rref = g.GenDirect(q.lat1, q.lon1, q.azi1, am, am ? 15.0 : 1.5e6, G::ALL, R.v[0], R.v[1], R.v[2], R.v[3], R.v[4], R.v[5], R.v[6], R.v[7]);
  bool pk; int w = written(o, pk); bool pa = !vt::is_sentinel(a1, 22);
  if (inv) pk = pk && pa == ((w & 4) != 0);
  const double area = 4 * PI_ * q.a * q.a; const double sc[8] = {1, 1, 1, q.a, q.a, 1, 1, area};
  vector<long long> d(8, 0);
  for (int i = 0; i < 8; ++i) if (!vt::is_sentinel(o.v[i], 10 + i)) d[i] = i <= 2 ? angrel(o.v[i], R.v[i]) : rel(o.v[i], R.v[i], sc[i]);
  Rec r; r.str("e", "ov").str("fam", fam).i("n", n).i("kind", kind).i("caps", caps).b("known", known)
    .b("ret", am ? true : !std::isnan(ret)).i("w", w).b("pairok", pk).li("d", d).i("da", pa ? angrel(a1, Ra1) : 0)
    .i("dret", am || std::isnan(ret) ? 0 : rel(ret, rref, 360));
  r.emit();
}
static void ov_rhumb(const Geo& q, const string& fam, int n, int kind, int caps) {
  Rhumb rh(q.a, q.f, kind == 1); Out o = sentinels(), R; bool known = n == 2 || n == 3; double* v = o.v; double a1 = vt::sentinel(22), Ra1 = 0;
  const double s = 1.5e6; for (int i = 0; i < 8; ++i) R.v[i] = 0;
  if (fam == "RDirect") { if (n == 2) rh.Direct(q.lat1, q.lon1, q.azi1, s, v[0], v[1]); else if (n == 3) rh.Direct(q.lat1, q.lon1, q.azi1, s, v[0], v[1], v[7]);
    rh.GenDirect(q.lat1, q.lon1, q.azi1, s, Rhumb::ALL, R.v[0], R.v[1], R.v[7]); }
  else if (fam == "RPosition") { RhumbLine l = rh.Line(q.lat1, q.lon1, q.azi1); if (n == 2) l.Position(s, v[0], v[1]); else if (n == 3) l.Position(s, v[0], v[1], v[7]);
    rh.GenDirect(q.lat1, q.lon1, q.azi1, s, Rhumb::ALL, R.v[0], R.v[1], R.v[7]); }
  else if (fam == "RInverse") { if (n == 2) rh.Inverse(q.lat1, q.lon1, q.lat2, q.lon2, v[3], a1); else if (n == 3) rh.Inverse(q.lat1, q.lon1, q.lat2, q.lon2, v[3], a1, v[7]);
    rh.GenInverse(q.lat1, q.lon1, q.lat2, q.lon2, Rhumb::ALL, R.v[3], Ra1, R.v[7]); }
  else known = false;
  bool pk; int w = written(o, pk); bool pa = !vt::is_sentinel(a1, 22); if (pa) w |= 4;
  const double area = 4 * PI_ * q.a * q.a; const double sc[8] = {1, 1, 1, q.a, q.a, 1, 1, area};
  vector<long long> d(8, 0);
  for (int i = 0; i < 8; ++i) if (!vt::is_sentinel(o.v[i], 10 + i)) d[i] = i <= 2 ? angrel(o.v[i], R.v[i]) : rel(o.v[i], R.v[i], sc[i]);
  Rec r; r.str("e", "ov").str("fam", fam).i("n", n).i("kind", kind).i("caps", caps).b("known", known)
    .b("ret", true).i("w", w).b("pairok", pk).li("d", d).i("da", pa ? angrel(a1, Ra1) : 0).i("dret", 0);
  r.emit();
}

static void rhumb_ops(const string& op, int om) {
  const Rhumb& rh = Rhumb::WGS84();
  if (op == "rd") { double lat2 = vt::sentinel(10), lon2 = vt::sentinel(11), S12 = vt::sentinel(17);
    rh.GenDirect(40.0, -70.0, 60.0, 2.0e6, rmask(om), lat2, lon2, S12);
    int w = 0; if (!vt::is_sentinel(lat2, 10)) w |= 1; if (!vt::is_sentinel(lon2, 11)) w |= 2; if (!vt::is_sentinel(S12, 17)) w |= 128;
    Rec r; r.str("e", "rd").i("om", om).i("w", w); r.emit(); }
  else if (op == "ri") { Rec r; r.str("e", "ri").i("om", om); rinv_fill(rh, 40.0, -70.0, 50.0, 30.0, om, r, "w", "d"); r.emit(); }
  else if (op == "rdp" || op == "rlp") {   // the course runs over the pole: latitude defined, longitude and area NaN - but only requested outputs are written
    for (int ex = 0; ex < 2; ++ex) { Rhumb rr(6378137.0, 1 / 298.257223563, ex == 1); double lat2 = vt::sentinel(10), lon2 = vt::sentinel(11), S12 = vt::sentinel(17);
      if (op == "rdp") rr.GenDirect(60.0, 10.0, 20.0, 8.0e6, rmask(om), lat2, lon2, S12); else { RhumbLine l = rr.Line(0.0, 10.0, 0.0); l.GenPosition(10001966.0, rmask(om), lat2, lon2, S12); }
      int w = 0; if (!vt::is_sentinel(lat2, 10)) w |= 1; if (!vt::is_sentinel(lon2, 11)) w |= 2; if (!vt::is_sentinel(S12, 17)) w |= 128;
      Rec r; r.str("e", op == "rdp" ? "rd" : "rl").i("om", om).i("w", w).b("pole", true).b("exact", ex == 1); r.emit(); } }
  else { RhumbLine l = rh.Line(40.0, -70.0, 60.0); double lat2 = vt::sentinel(10), lon2 = vt::sentinel(11), S12 = vt::sentinel(17);
    l.GenPosition(2.0e6, rmask(om), lat2, lon2, S12);
    int w = 0; if (!vt::is_sentinel(lat2, 10)) w |= 1; if (!vt::is_sentinel(lon2, 11)) w |= 2; if (!vt::is_sentinel(S12, 17)) w |= 128;
    Rec r; r.str("e", "rl").i("om", om).i("w", w); r.emit(); }
}

static void replay() {
  string line;
  while (getline(cin, line)) {
    auto t = vt::split(line); if (t.empty()) continue;
    if (t[0] == "pos") {
      int kind = atoi(t[1].c_str()); int gi = (atoi(t[3].c_str()) + atoi(t[6].c_str())) % 3; const Geo& q = GEOS[gi];
      if (kind == 0) pos_t<Geodesic, GeodesicLine>(Geodesic(q.a, q.f), q, t, 0);
      else if (kind == 1) pos_t<GeodesicExact, GeodesicLineExact>(GeodesicExact(q.a, q.f), q, t, 1);
      else pos_t<Geodesic, GeodesicLine>(Geodesic(q.a, q.f, true), q, t, 2);
    } else if (t[0] == "gd" || t[0] == "gi") {
      int kind = atoi(t[1].c_str()); bool am = atoi(t[2].c_str()) != 0; int om = atoi(t[3].c_str()); const Geo& q = GEOS[om % 3];
      if (t[0] == "gd") { if (kind == 0) gd_t(Geodesic(q.a, q.f), q, 0, am, om); else if (kind == 1) gd_t(GeodesicExact(q.a, q.f), q, 1, am, om); else gd_t(Geodesic(q.a, q.f, true), q, 2, am, om); }
      else { if (kind == 0) gi_t(Geodesic(q.a, q.f), q, 0, om); else if (kind == 1) gi_t(GeodesicExact(q.a, q.f), q, 1, om); else gi_t(Geodesic(q.a, q.f, true), q, 2, om); }
    } else if (t[0] == "gic") {   // gic class kind om
      Geo q; int kind = atoi(t[2].c_str()), om = atoi(t[3].c_str());
      if (!gi_class(t[1], q)) { Rec r; r.str("e", "gi-unknown-class").str("cls", t[1]); r.emit(); continue; }
      if (kind == 0) gi_t(Geodesic(q.a, q.f), q, 0, om, t[1]); else if (kind == 1) gi_t(GeodesicExact(q.a, q.f), q, 1, om, t[1]); else gi_t(Geodesic(q.a, q.f, true), q, 2, om, t[1]);
    } else if (t[0] == "ric") ri_class(t[1], atoi(t[2].c_str()), atoi(t[3].c_str()));
    else if (t[0] == "ov") {      // ov family n kind caps
      string fam = t[1]; int n = atoi(t[2].c_str()), kind = atoi(t[3].c_str()), caps = atoi(t[4].c_str()); const Geo& q = GEOS[(caps + n + kind) % 3];
      if (fam[0] == 'R') ov_rhumb(q, fam, n, kind, caps);
      else if (kind == 0) ov_t<Geodesic, GeodesicLine>(Geodesic(q.a, q.f), q, fam, n, 0, caps);
      else if (kind == 1) ov_t<GeodesicExact, GeodesicLineExact>(GeodesicExact(q.a, q.f), q, fam, n, 1, caps);
      else ov_t<Geodesic, GeodesicLine>(Geodesic(q.a, q.f, true), q, fam, n, 2, caps);
    } else if (t[0] == "rd" || t[0] == "ri" || t[0] == "rl" || t[0] == "rdp" || t[0] == "rlp") rhumb_ops(t[0], atoi(t[1].c_str()));
    else if (t[0] == "uninit") {
      GeodesicLine l0; GeodesicLineExact l1; Out o = sentinels();
      double r0 = l0.GenPosition(true, 10.0, Geodesic::ALL, o.v[0], o.v[1], o.v[2], o.v[3], o.v[4], o.v[5], o.v[6], o.v[7]); bool pk; int w0 = written(o, pk);
      o = sentinels(); double r1 = l1.GenPosition(true, 10.0, GeodesicExact::ALL, o.v[0], o.v[1], o.v[2], o.v[3], o.v[4], o.v[5], o.v[6], o.v[7]); int w1 = written(o, pk);
      Rec r; r.str("e", "uninit").b("ret0", !std::isnan(r0)).i("w0", w0).b("ret1", !std::isnan(r1)).i("w1", w1).b("init", l0.Init() || l1.Init()); r.emit();
    }
  }
}

// ------------------------------------------------------------------ value laws
template<class G, class L> static void laws_t(const G& g, vt::Rng& rg, int kind, double a) {
  double lat1 = rg.uni(-90, 90), lon1 = rg.uni(-180, 180), azi1 = rg.uni(-180, 180);
  int w = int(rg.range(0, 7)); if (w == 0) azi1 = 90.0 * double(rg.range(-2, 2)); if (w == 1) lat1 = rg.coin() ? 90 : -90; if (w == 2) lat1 = 0;
  bool am = rg.coin(); double sa = am ? rg.uni(-400, 400) : rg.uni(-4e7, 4e7) * a / 6378137.0;
  if (rg.range(0, 5) == 0) sa = am ? rg.uni(-1e-6, 1e-6) : rg.uni(-1, 1);
  int caps = int(rg.range(0, 511)), om = int(rg.range(0, 511));
  // reference: all capabilities, all outputs
  L ref = g.Line(lat1, lon1, azi1, G::ALL | G::LONG_UNROLL);
  Out R; double rref = ref.GenPosition(am, sa, G::ALL | (om & 256 ? unsigned(G::LONG_UNROLL) : 0u), R.v[0], R.v[1], R.v[2], R.v[3], R.v[4], R.v[5], R.v[6], R.v[7]);
  L line = g.Line(lat1, lon1, azi1, tomask<G>(caps));
  Out o = sentinels();
  double ret = line.GenPosition(am, sa, tomask<G>(om), o.v[0], o.v[1], o.v[2], o.v[3], o.v[4], o.v[5], o.v[6], o.v[7]);
  bool pk; int wr = written(o, pk);
  double b = a;  // length scale
  double area = 4 * 3.14159265358979 * a * a;
  vector<long long> d(8, 0);
  const double sc[8] = {1, 1, 1, b, b, 1, 1, area};
  for (int i = 0; i < 8; ++i) if (!vt::is_sentinel(o.v[i], 10 + i)) d[i] = (i <= 2 ? (i == 1 && (om & 256) ? rel(o.v[i], R.v[i], 360) : angrel(o.v[i], R.v[i])) : rel(o.v[i], R.v[i], sc[i]));
  Rec r; r.str("e", "val").i("kind", kind).i("caps", caps).i("om", om).b("am", am).b("ret", !std::isnan(ret)).i("w", wr).b("pairok", pk).li("d", d);
  r.i("dret", std::isnan(ret) ? 0 : rel(ret, rref, 360));
  // the same through the solver object (GenDirect) with the same outmask
  { Out q = sentinels(); double r2 = g.GenDirect(lat1, lon1, azi1, am, sa, tomask<G>(om), q.v[0], q.v[1], q.v[2], q.v[3], q.v[4], q.v[5], q.v[6], q.v[7]);
    vector<long long> e(8, 0); for (int i = 0; i < 8; ++i) if (!vt::is_sentinel(q.v[i], 10 + i)) e[i] = (i <= 2 ? (i == 1 && (om & 256) ? rel(q.v[i], R.v[i], 360) : angrel(q.v[i], R.v[i])) : rel(q.v[i], R.v[i], sc[i]));
    bool pk2; r.li("g", e).i("gw", written(q, pk2)).i("gret", rel(r2, rref, 360)); }
  // arc <-> distance: the position at arc a12 equals the position at the corresponding distance
  { double lat2, lon2, azi2, s12, t; double a12 = am ? sa : rref; ref.GenPosition(true, a12, G::ALL, lat2, lon2, azi2, s12, t, t, t, t);
    double la, lo, az, ss; double a12b = ref.GenPosition(false, s12, G::ALL, la, lo, az, ss, t, t, t, t);
    double c = cos(lat2 * 3.14159265358979 / 180); double coslat = c < 1e-9 ? 0 : c;
    r.li("ad", {rel(la, lat2, 1), vt::q1(fabsl(remainderl((long double)lo - lon2, 360.0L)) * coslat, 1e-16L * 360), rel(a12b, a12, 360)});
  }
  // LONG_UNROLL: the unrolled longitude wraps to the longitude returned without LONG_UNROLL (the reference Rn is computed WITHOUT the
  // bit, by the other formula), and lon2 - lon1 is the accumulated change of longitude along the geodesic (sub-steps of <= 30 degrees
  // of arc on the reference line, each longitude taken without LONG_UNROLL).  u = [line mod 360, GenDirect mod 360, line turns, GenDirect turns]
  { Out Rn; ref.GenPosition(am, sa, G::ALL, Rn.v[0], Rn.v[1], Rn.v[2], Rn.v[3], Rn.v[4], Rn.v[5], Rn.v[6], Rn.v[7]);
    vector<long long> u(4, 0);
    Out q = sentinels(); g.GenDirect(lat1, lon1, azi1, am, sa, tomask<G>(om), q.v[0], q.v[1], q.v[2], q.v[3], q.v[4], q.v[5], q.v[6], q.v[7]);
    if (om & 256) {
      double a12t = am ? sa : rref; int k = int(ceil(fabs(a12t) / 30.0)); if (k < 1) k = 1;
      long double acc = 0; double prev = lon1;
      for (int j = 1; j <= k; ++j) { double la, lo, t; ref.GenPosition(true, a12t * j / k, G::LATITUDE | G::LONGITUDE, la, lo, t, t, t, t, t, t);
        acc += remainderl((long double)lo - prev, 360.0L); prev = lo; }
      if (!vt::is_sentinel(o.v[1], 11)) { u[0] = angrel(o.v[1], Rn.v[1]); u[2] = vt::q1(fabsl((long double)o.v[1] - lon1 - acc), 1e-9L); }
      if (!vt::is_sentinel(q.v[1], 11)) { u[1] = angrel(q.v[1], Rn.v[1]); u[3] = vt::q1(fabsl((long double)q.v[1] - lon1 - acc), 1e-9L); }
    }
    // guards (from the inputs / the reference point): Clairaut constant |sin azi1| cos lat1 (how close the geodesic comes to a pole), cos lat2
    r.li("u", u).i("cl", vt::q1(fabs(sin(azi1 * PI_ / 180)) * cos(lat1 * PI_ / 180), 1e-9L)).i("c2", vt::q1(cos(Rn.v[0] * PI_ / 180), 1e-9L));
  }
  // third point: a line made by DirectLine / ArcDirectLine / InverseLine reproduces the point that defined it
  { double lat2, lon2, azi2, s12, t; ref.GenPosition(am, sa, G::ALL, lat2, lon2, azi2, s12, t, t, t, t);
    double sdist = am ? s12 : sa;
    L dl = am ? g.ArcDirectLine(lat1, lon1, azi1, sa) : g.DirectLine(lat1, lon1, azi1, sa);
    double la, lo; dl.Position(dl.Distance(), la, lo); double la2, lo2; dl.ArcPosition(dl.Arc(), la2, lo2);
    double c = cos(lat2 * 3.14159265358979 / 180); double coslat = c < 1e-9 ? 0 : c;
    r.li("tp", {rel(la, lat2, 1), vt::q1(fabsl(remainderl((long double)lo - lon2, 360.0L)) * coslat, 1e-16L * 360),
                rel(la2, lat2, 1), vt::q1(fabsl(remainderl((long double)lo2 - lon2, 360.0L)) * coslat, 1e-16L * 360),
                rel(dl.Distance(), sdist, b)});
    // InverseLine through the same two points: Position(Distance()) and ArcPosition(Arc()) give point 2; Distance(), Arc(), Azimuth()
    // are s12, a12, azi1 of the inverse problem
    double s12i, azi1i, azi2i; double a12i = g.Inverse(lat1, lon1, lat2, lon2, s12i, azi1i, azi2i);
    L il = g.InverseLine(lat1, lon1, lat2, lon2);
    double lb, lob; il.Position(il.Distance(), lb, lob); double lb2, lob2; il.ArcPosition(il.Arc(), lb2, lob2);
    r.li("tpi", {rel(lb, lat2, 1), vt::q1(fabsl(remainderl((long double)lob - lon2, 360.0L)) * coslat, 1e-16L * 360),
                 rel(lb2, lat2, 1), vt::q1(fabsl(remainderl((long double)lob2 - lon2, 360.0L)) * coslat, 1e-16L * 360),
                 rel(il.Distance(), s12i, b), rel(il.Arc(), a12i, 360), angrel(il.Azimuth(), azi1i)});
    // the constructors echo point 1
    r.li("echo", {rel(dl.Latitude(), lat1, 1), angrel(dl.Longitude(), lon1), angrel(dl.Azimuth(), azi1),
                  rel(il.Latitude(), lat1, 1), angrel(il.Longitude(), lon1), rel(line.Latitude(), lat1, 1), angrel(line.Longitude(), lon1), angrel(line.Azimuth(), azi1)});
  }
  r.emit();
}

// inverse problem: written set and values for a random mask against mask ALL
template<class G> static void inv_t(const G& g, vt::Rng& rg, int kind, double a) {
  double lat1 = rg.uni(-90, 90), lon1 = rg.uni(-180, 180), lat2 = rg.uni(-90, 90), lon2 = rg.uni(-180, 180);
  int cls = int(rg.range(0, 9));
  if (cls == 1) lon2 = rg.coin() ? lon1 : lon1 + 180;                                   // meridional
  else if (cls == 2) { lat1 = 0; lat2 = 0; }                                           // both on the equator
  else if (cls == 3) { lat2 = -lat1 + rg.uni(-0.5, 0.5); lon2 = lon1 + 180 + rg.uni(-1, 1); }   // nearly antipodal
  else if (cls == 4) { lat2 = lat1 + rg.uni(-1e-6, 1e-6); lon2 = lon1 + rg.uni(-1e-6, 1e-6); }  // short (down to the short-line exit)
  else if (cls == 5) { if (rg.coin()) lat1 = rg.coin() ? 90 : -90; else lat2 = rg.coin() ? 90 : -90; }
  else if (cls == 6) { lat2 = lat1; lon2 = lon1; }                                      // coincident
  else if (cls == 7) { lat2 = -lat1; lon2 = lon1 + 180; }                               // antipodal
  if (lat2 > 90) lat2 = 90; if (lat2 < -90) lat2 = -90;
  int om = int(rg.range(0, 511));
  Rec r; r.str("e", "inv").i("kind", kind).i("cls", cls).str("in", inputs({a, g.Flattening(), lat1, lon1, lat2, lon2}));
  inv_fill(g, a, lat1, lon1, lat2, lon2, om, r);
  r.emit();
}

// rhumb lines: written sets and values of Rhumb::GenDirect, RhumbLine::GenPosition, Rhumb::GenInverse for a random mask against ALL
static void rval_t(vt::Rng& rg) {
  bool ex = rg.coin();
  double a = rg.coin() ? 6378137.0 : 6.4e6, f = rg.pick(vector<double>{0, 1 / 298.257223563, -1 / 298.257223563, 0.005, -0.005});
  Rhumb rh(a, f, ex);
  double lat1 = rg.uni(-90, 90), lon1 = rg.uni(-180, 180), azi = rg.uni(-180, 180), s12 = rg.uni(-2e7, 2e7);
  int w = int(rg.range(0, 9));
  if (w == 0) azi = 90.0 * double(rg.range(-2, 2)); if (w == 1) lat1 = rg.coin() ? 90 : -90; if (w == 2) lat1 = 0;
  if (w == 3) lon1 = (rg.coin() ? 180 : -180) + rg.uni(-1, 1); if (w == 4) lon1 = rg.uni(-540, 540); if (w == 5) s12 = rg.uni(-1, 1);
  if (w == 6) { azi = (rg.coin() ? 90 : -90) + rg.uni(-2, 2); s12 = rg.uni(-1e8, 1e8); }   // many turns
  int om = int(rg.range(0, 511));
  const double area = 4 * PI_ * a * a;
  double Rlat, Rlon, RS; rh.GenDirect(lat1, lon1, azi, s12, Rhumb::ALL, Rlat, Rlon, RS);
  double Ulat, Ulon, US; rh.GenDirect(lat1, lon1, azi, s12, Rhumb::ALL | Rhumb::LONG_UNROLL, Ulat, Ulon, US);
  Rec r; r.str("e", "rval").b("exact", ex).i("om", om).i("cls", w);
  // the unrolled and the wrapped reference; turns = size of the unrolled longitude in circles (round-off scale of lon2)
  r.i("turns", std::isnan(Ulon) ? 1 : (long long)fmin(1e6, ceil(fabs(Ulon) / 360) + 1)).b("over", std::isnan(Rlon)).b("ps", fabs(lat1) == 90);
  r.li("ru", {rel(Ulat, Rlat, 1), angrelN(Ulon, Rlon), rel(US, RS, area)});
  { double lat2 = vt::sentinel(10), lon2 = vt::sentinel(11), S12 = vt::sentinel(17);
    rh.GenDirect(lat1, lon1, azi, s12, rmask(om), lat2, lon2, S12);
    int wd = 0; vector<long long> d(3, 0);
    if (!vt::is_sentinel(lat2, 10)) { wd |= 1; d[0] = rel(lat2, Rlat, 1); } if (!vt::is_sentinel(lon2, 11)) { wd |= 2; d[1] = angrelN(lon2, Rlon); }
    if (!vt::is_sentinel(S12, 17)) { wd |= 128; d[2] = rel(S12, RS, area); }
    r.i("wd", wd).li("dd", d); }
  { RhumbLine l = rh.Line(lat1, lon1, azi); double lat2 = vt::sentinel(10), lon2 = vt::sentinel(11), S12 = vt::sentinel(17);
    l.GenPosition(s12, rmask(om), lat2, lon2, S12);
    int wl = 0; vector<long long> d(3, 0);
    if (!vt::is_sentinel(lat2, 10)) { wl |= 1; d[0] = rel(lat2, Rlat, 1); } if (!vt::is_sentinel(lon2, 11)) { wl |= 2; d[1] = angrelN(lon2, Rlon); }
    if (!vt::is_sentinel(S12, 17)) { wl |= 128; d[2] = rel(S12, RS, area); }
    r.i("wl", wl).li("dl", d); }
  { double lat2 = Rlat, lon2 = Rlon; if (std::isnan(lat2) || std::isnan(lon2) || rg.range(0, 3) == 0) { lat2 = rg.uni(-90, 90); lon2 = rg.uni(-180, 180); if (rg.range(0, 5) == 0) lat2 = rg.coin() ? 90 : -90; }
    rinv_fill(rh, lat1, lon1, lat2, lon2, om, r, "wi", "di"); r.str("in", inputs({a, f, lat1, lon1, azi, s12, lat2, lon2})); }
  r.emit();
}

static void record(uint64_t seed, long long n) {
  vt::Rng rg(seed), rgi(seed ^ 0x5bd1e995f00dULL), rgr(seed ^ 0x27d4eb2f1657ULL);   // separate streams: the val records do not depend on the others
  for (long long it = 0; it < n; ++it) {
    int kind = int(it % 3);
    double a = rg.coin() ? 6378137.0 : 6.4e6, f = rg.pick(vector<double>{0, 1 / 298.257223563, -1 / 298.257223563, 0.01, -0.01});
    if (kind == 0) laws_t<Geodesic, GeodesicLine>(Geodesic(a, f), rg, 0, a);
    else if (kind == 1) laws_t<GeodesicExact, GeodesicLineExact>(GeodesicExact(a, f), rg, 1, a);
    else laws_t<Geodesic, GeodesicLine>(Geodesic(a, f, true), rg, 2, a);
    if (it % 2 == 0) {   // inverse problem, the solver kinds in turn
      int k2 = int((it / 2) % 3);
      double a2 = rgi.coin() ? 6378137.0 : 6.4e6, f2 = rgi.pick(vector<double>{0, 1 / 298.257223563, -1 / 298.257223563, 0.01, -0.01});
      if (k2 == 0) inv_t(Geodesic(a2, f2), rgi, 0, a2); else if (k2 == 1) inv_t(GeodesicExact(a2, f2), rgi, 1, a2); else inv_t(Geodesic(a2, f2, true), rgi, 2, a2);
    }
    if (it % 4 == 1) rval_t(rgr);
  }
}

int main(int argc, char** argv) {
  vt::install_terminate();
  if (argc >= 2 && string(argv[1]) == "replay") { replay(); return 0; }
  if (argc >= 4 && string(argv[1]) == "record") { record(strtoull(argv[2], 0, 10), atoll(argv[3])); return 0; }
  fprintf(stderr, "usage: drv_line replay < ops | record seed n\n"); return 2;
}
