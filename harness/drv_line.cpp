// Driver for output masks / line objects (C12).
#include "trace.hpp"
#include <GeographicLib/Geodesic.hpp>
#include <GeographicLib/GeodesicLine.hpp>
#include <GeographicLib/GeodesicExact.hpp>
#include <GeographicLib/GeodesicLineExact.hpp>
#include <GeographicLib/Rhumb.hpp>
#include <GeographicLib/Math.hpp>

using namespace GeographicLib;
using namespace std;
using vt::Rec;

// mask sets <-> library constants.  bit i of m: 0 LAT 1 LON 2 AZI 3 DIST 4 DIST_IN 5 REDLEN 6 SCALE 7 AREA 8 UNROLL
template<class M> static unsigned tomask(int m) {
  unsigned r = 0;
  if (m & 1) r |= M::LATITUDE; if (m & 2) r |= M::LONGITUDE; if (m & 4) r |= M::AZIMUTH; if (m & 8) r |= M::DISTANCE;
  if (m & 16) r |= M::DISTANCE_IN; if (m & 32) r |= M::REDUCEDLENGTH; if (m & 64) r |= M::GEODESICSCALE; if (m & 128) r |= M::AREA;
  if (m & 256) r |= M::LONG_UNROLL;
  return r;
}
static unsigned rmask(int m) {
  unsigned r = 0;
  if (m & 1) r |= Rhumb::LATITUDE; if (m & 2) r |= Rhumb::LONGITUDE; if (m & 4) r |= Rhumb::AZIMUTH; if (m & 8) r |= Rhumb::DISTANCE;
  if (m & 128) r |= Rhumb::AREA; if (m & 256) r |= Rhumb::LONG_UNROLL;
  return r;
}
static int outbits(unsigned caps) { return int((caps >> 7) & 511u); }

struct Geo { double a, f, lat1, lon1, azi1, lat2, lon2; };
static const Geo GEOS[3] = {
  {6378137.0, 1 / 298.257223563, 40.64, -73.78, 53.5, 1.36, 103.99},      // generic WGS84
  {6378137.0, 1 / 298.257223563, -30.0, 20.0, 0.0, 85.0, -160.0},          // meridional, through the pole
  {6.4e6, -0.01, 0.0, 10.0, 90.0, 0.0, 150.0},                             // equatorial on a prolate ellipsoid
};

struct Out { double v[8]; };   // lat2 lon2 azi2 s12 m12 M12 M21 S12
static Out sentinels() { Out o; for (int i = 0; i < 8; ++i) o.v[i] = vt::sentinel(10 + i); return o; }
// written set as mask bits; pairok=false when M12/M21 disagree
static int written(const Out& o, bool& pairok) {
  int w = 0; static const int bit[8] = {1, 2, 4, 8, 32, 64, 64, 128};
  bool m12 = !vt::is_sentinel(o.v[5], 15), m21 = !vt::is_sentinel(o.v[6], 16);
  pairok = m12 == m21;
  for (int i = 0; i < 8; ++i) if (!vt::is_sentinel(o.v[i], 10 + i)) w |= bit[i];
  return w;
}

template<class G, class L> static void pos_t(const G& g, const Geo& q, const vector<string>& t, int kind) {
  string ctor = t[2]; int caps = atoi(t[3].c_str()); string so = t[4]; bool am = atoi(t[5].c_str()) != 0; int om = atoi(t[6].c_str());
  unsigned c = tomask<G>(caps);
  L line = ctor == "line" ? g.Line(q.lat1, q.lon1, q.azi1, c)
         : ctor == "direct" ? g.DirectLine(q.lat1, q.lon1, q.azi1, 1.0e6, c)
         : ctor == "arcdirect" ? g.ArcDirectLine(q.lat1, q.lon1, q.azi1, 9.0, c)
         : g.InverseLine(q.lat1, q.lon1, q.lat2, q.lon2, c);
  { size_t k = 0; while (k < so.size()) { size_t e = so.find('+', k); string op = so.substr(k, e == string::npos ? string::npos : e - k); k = e == string::npos ? so.size() : e + 1;
      if (op == "setdist") line.SetDistance(2.0e6); else if (op == "setarc") line.SetArc(20.0);
      else if (op == "gsetdist") line.GenSetDistance(false, 2.5e6); else if (op == "gsetarc") line.GenSetDistance(true, 25.0); } }
  Out o = sentinels();
  double ret = line.GenPosition(am, am ? 15.0 : 1.5e6, tomask<G>(om), o.v[0], o.v[1], o.v[2], o.v[3], o.v[4], o.v[5], o.v[6], o.v[7]);
  bool pairok; int w = written(o, pairok);
  Rec r; r.str("e", "pos").i("kind", kind).str("ctor", ctor).i("caps", caps).str("so", so).b("am", am).i("om", om)
    .i("capsobs", outbits(line.Capabilities())).b("dnum", !std::isnan(line.Distance())).b("anum", !std::isnan(line.Arc()))
    .b("ret", !std::isnan(ret)).i("w", w).b("pairok", pairok).b("init", line.Init());
  r.emit();
}

template<class G> static void gd_t(const G& g, const Geo& q, int kind, bool am, int om) {
  Out o = sentinels();
  double ret = g.GenDirect(q.lat1, q.lon1, q.azi1, am, am ? 15.0 : 1.5e6, tomask<G>(om), o.v[0], o.v[1], o.v[2], o.v[3], o.v[4], o.v[5], o.v[6], o.v[7]);
  bool pairok; int w = written(o, pairok);
  Rec r; r.str("e", "gd").i("kind", kind).b("am", am).i("om", om).b("ret", !std::isnan(ret)).i("w", w).b("pairok", pairok); r.emit();
}
template<class G> static void gi_t(const G& g, const Geo& q, int kind, int om) {
  double s12 = vt::sentinel(13), a1 = vt::sentinel(12), a2 = vt::sentinel(22), m12 = vt::sentinel(14), M12 = vt::sentinel(15), M21 = vt::sentinel(16), S12 = vt::sentinel(17);
  double ret = g.GenInverse(q.lat1, q.lon1, q.lat2, q.lon2, tomask<G>(om), s12, a1, a2, m12, M12, M21, S12);
  int w = 0; bool pa = !vt::is_sentinel(a1, 12), pb = !vt::is_sentinel(a2, 22), pm = !vt::is_sentinel(M12, 15), pn = !vt::is_sentinel(M21, 16);
  if (pa) w |= 4; if (!vt::is_sentinel(s12, 13)) w |= 8; if (!vt::is_sentinel(m12, 14)) w |= 32; if (pm) w |= 64; if (!vt::is_sentinel(S12, 17)) w |= 128;
  Rec r; r.str("e", "gi").i("kind", kind).i("om", om).b("ret", !std::isnan(ret)).i("w", w).b("pairok", pa == pb && pm == pn); r.emit();
}

static void rhumb_ops(const string& op, int om) {
  const Rhumb& rh = Rhumb::WGS84();
  if (op == "rd") { double lat2 = vt::sentinel(10), lon2 = vt::sentinel(11), S12 = vt::sentinel(17);
    rh.GenDirect(40.0, -70.0, 60.0, 2.0e6, rmask(om), lat2, lon2, S12);
    int w = 0; if (!vt::is_sentinel(lat2, 10)) w |= 1; if (!vt::is_sentinel(lon2, 11)) w |= 2; if (!vt::is_sentinel(S12, 17)) w |= 128;
    Rec r; r.str("e", "rd").i("om", om).i("w", w); r.emit(); }
  else if (op == "ri") { double s12 = vt::sentinel(13), azi = vt::sentinel(12), S12 = vt::sentinel(17);
    rh.GenInverse(40.0, -70.0, 50.0, 30.0, rmask(om), s12, azi, S12);
    int w = 0; if (!vt::is_sentinel(azi, 12)) w |= 4; if (!vt::is_sentinel(s12, 13)) w |= 8; if (!vt::is_sentinel(S12, 17)) w |= 128;
    Rec r; r.str("e", "ri").i("om", om).i("w", w); r.emit(); }
  else if (op == "rdp" || op == "rlp") {   // the course runs over the pole: latitude defined, longitude and area NaN - but only requested outputs are written
    for (int ex = 0; ex < 2; ++ex) { Rhumb rr(6378137.0, 1 / 298.257223563, ex == 1); double lat2 = vt::sentinel(10), lon2 = vt::sentinel(11), S12 = vt::sentinel(17);
      if (op == "rdp") rr.GenDirect(60.0, 10.0, 20.0, 8.0e6, rmask(om), lat2, lon2, S12); else { RhumbLine l = rr.Line(0.0, 10.0, 0.0); l.GenPosition(10001966.0, rmask(om), lat2, lon2, S12); }
      int w = 0; if (!vt::is_sentinel(lat2, 10)) w |= 1; if (!vt::is_sentinel(lon2, 11)) w |= 2; if (!vt::is_sentinel(S12, 17)) w |= 128;
      Rec r; r.str("e", op == "rdp" ? "rd" : "rl").i("om", om).i("w", w).b("pole", true).b("exact", ex == 1); r.emit(); } }
  else { RhumbLine l = rh.Line(40.0, -70.0, 60.0); double lat2 = vt::sentinel(10), lon2 = vt::sentinel(11), S12 = vt::sentinel(17);
    l.GenPosition(2.0e6, rmask(om), lat2, lon2, S12);
    int w = 0; if (!vt::is_sentinel(lat2, 10)) w |= 1; if (!vt::is_sentinel(lon2, 11)) w |= 2; if (!vt::is_sentinel(S12, 17)) w |= 128;
    Rec r; r.str("e", "rl").i("om", om).i("w", w); r.emit(); }
}

static void replay() {
  string line;
  while (getline(cin, line)) {
    auto t = vt::split(line); if (t.empty()) continue;
    if (t[0] == "pos") {
      int kind = atoi(t[1].c_str()); int gi = (atoi(t[3].c_str()) + atoi(t[6].c_str())) % 3; const Geo& q = GEOS[gi];
      if (kind == 0) pos_t<Geodesic, GeodesicLine>(Geodesic(q.a, q.f), q, t, 0);
      else if (kind == 1) pos_t<GeodesicExact, GeodesicLineExact>(GeodesicExact(q.a, q.f), q, t, 1);
      else pos_t<Geodesic, GeodesicLine>(Geodesic(q.a, q.f, true), q, t, 2);
    } else if (t[0] == "gd" || t[0] == "gi") {
      int kind = atoi(t[1].c_str()); bool am = atoi(t[2].c_str()) != 0; int om = atoi(t[3].c_str()); const Geo& q = GEOS[om % 3];
      if (t[0] == "gd") { if (kind == 0) gd_t(Geodesic(q.a, q.f), q, 0, am, om); else if (kind == 1) gd_t(GeodesicExact(q.a, q.f), q, 1, am, om); else gd_t(Geodesic(q.a, q.f, true), q, 2, am, om); }
      else { if (kind == 0) gi_t(Geodesic(q.a, q.f), q, 0, om); else if (kind == 1) gi_t(GeodesicExact(q.a, q.f), q, 1, om); else gi_t(Geodesic(q.a, q.f, true), q, 2, om); }
    } else if (t[0] == "rd" || t[0] == "ri" || t[0] == "rl" || t[0] == "rdp" || t[0] == "rlp") rhumb_ops(t[0], atoi(t[1].c_str()));
    else if (t[0] == "uninit") {
      GeodesicLine l0; GeodesicLineExact l1; Out o = sentinels();
      double r0 = l0.GenPosition(true, 10.0, Geodesic::ALL, o.v[0], o.v[1], o.v[2], o.v[3], o.v[4], o.v[5], o.v[6], o.v[7]); bool pk; int w0 = written(o, pk);
      o = sentinels(); double r1 = l1.GenPosition(true, 10.0, GeodesicExact::ALL, o.v[0], o.v[1], o.v[2], o.v[3], o.v[4], o.v[5], o.v[6], o.v[7]); int w1 = written(o, pk);
      Rec r; r.str("e", "uninit").b("ret0", !std::isnan(r0)).i("w0", w0).b("ret1", !std::isnan(r1)).i("w1", w1).b("init", l0.Init() || l1.Init()); r.emit();
    }
  }
}

// ------------------------------------------------------------------ value laws
static long long rel(double v, double ref, double scale) {   // |v - ref| / scale in units of 1e-16
  if (std::isnan(v) || std::isnan(ref)) return std::isnan(v) && std::isnan(ref) ? 0 : 2000000001LL;
  return vt::q1(fabsl((long double)v - ref) / scale, 1e-16L);
}
static long long angrel(double v, double ref) { return vt::q1(fabsl(remainderl((long double)v - ref, 360.0L)), 1e-16L * 360); }

template<class G, class L> static void laws_t(const G& g, vt::Rng& rg, int kind, double a) {
  double lat1 = rg.uni(-90, 90), lon1 = rg.uni(-180, 180), azi1 = rg.uni(-180, 180);
  int w = int(rg.range(0, 7)); if (w == 0) azi1 = 90.0 * double(rg.range(-2, 2)); if (w == 1) lat1 = rg.coin() ? 90 : -90; if (w == 2) lat1 = 0;
  bool am = rg.coin(); double sa = am ? rg.uni(-400, 400) : rg.uni(-4e7, 4e7) * a / 6378137.0;
  if (rg.range(0, 5) == 0) sa = am ? rg.uni(-1e-6, 1e-6) : rg.uni(-1, 1);
  int caps = int(rg.range(0, 511)), om = int(rg.range(0, 511));
  // reference: all capabilities, all outputs
  L ref = g.Line(lat1, lon1, azi1, G::ALL | G::LONG_UNROLL);
  Out R; double rref = ref.GenPosition(am, sa, G::ALL | (om & 256 ? unsigned(G::LONG_UNROLL) : 0u), R.v[0], R.v[1], R.v[2], R.v[3], R.v[4], R.v[5], R.v[6], R.v[7]);
  L line = g.Line(lat1, lon1, azi1, tomask<G>(caps));
  Out o = sentinels();
  double ret = line.GenPosition(am, sa, tomask<G>(om), o.v[0], o.v[1], o.v[2], o.v[3], o.v[4], o.v[5], o.v[6], o.v[7]);
  bool pk; int wr = written(o, pk);
  double b = a;  // length scale
  double area = 4 * 3.14159265358979 * a * a;
  vector<long long> d(8, 0);
  const double sc[8] = {1, 1, 1, b, b, 1, 1, area};
  for (int i = 0; i < 8; ++i) if (!vt::is_sentinel(o.v[i], 10 + i)) d[i] = (i <= 2 ? (i == 1 && (om & 256) ? rel(o.v[i], R.v[i], 360) : angrel(o.v[i], R.v[i])) : rel(o.v[i], R.v[i], sc[i]));
  Rec r; r.str("e", "val").i("kind", kind).i("caps", caps).i("om", om).b("am", am).b("ret", !std::isnan(ret)).i("w", wr).b("pairok", pk).li("d", d);
  r.i("dret", std::isnan(ret) ? 0 : rel(ret, rref, 360));
  // the same through the solver object (GenDirect) with the same outmask
  { Out q = sentinels(); double r2 = g.GenDirect(lat1, lon1, azi1, am, sa, tomask<G>(om), q.v[0], q.v[1], q.v[2], q.v[3], q.v[4], q.v[5], q.v[6], q.v[7]);
    vector<long long> e(8, 0); for (int i = 0; i < 8; ++i) if (!vt::is_sentinel(q.v[i], 10 + i)) e[i] = (i <= 2 ? (i == 1 && (om & 256) ? rel(q.v[i], R.v[i], 360) : angrel(q.v[i], R.v[i])) : rel(q.v[i], R.v[i], sc[i]));
    bool pk2; r.li("g", e).i("gw", written(q, pk2)).i("gret", rel(r2, rref, 360)); }
  // arc <-> distance: the position at arc a12 equals the position at the corresponding distance
  { double lat2, lon2, azi2, s12, t; double a12 = am ? sa : rref; ref.GenPosition(true, a12, G::ALL, lat2, lon2, azi2, s12, t, t, t, t);
    double la, lo, az, ss; double a12b = ref.GenPosition(false, s12, G::ALL, la, lo, az, ss, t, t, t, t);
    double c = cos(lat2 * 3.14159265358979 / 180); double coslat = c < 1e-9 ? 0 : c;
    r.li("ad", {rel(la, lat2, 1), vt::q1(fabsl(remainderl((long double)lo - lon2, 360.0L)) * coslat, 1e-16L * 360), rel(a12b, a12, 360)});
  }
  // third point: a line made by DirectLine / ArcDirectLine / InverseLine reproduces the point that defined it
  { double lat2, lon2, azi2, s12, t; ref.GenPosition(am, sa, G::ALL, lat2, lon2, azi2, s12, t, t, t, t);
    double sdist = am ? s12 : sa;
    L dl = am ? g.ArcDirectLine(lat1, lon1, azi1, sa) : g.DirectLine(lat1, lon1, azi1, sa);
    double la, lo; dl.Position(dl.Distance(), la, lo); double la2, lo2; dl.ArcPosition(dl.Arc(), la2, lo2);
    double c = cos(lat2 * 3.14159265358979 / 180); double coslat = c < 1e-9 ? 0 : c;
    r.li("tp", {rel(la, lat2, 1), vt::q1(fabsl(remainderl((long double)lo - lon2, 360.0L)) * coslat, 1e-16L * 360),
                rel(la2, lat2, 1), vt::q1(fabsl(remainderl((long double)lo2 - lon2, 360.0L)) * coslat, 1e-16L * 360),
                rel(dl.Distance(), sdist, b)});
  }
  r.emit();
}

static void record(uint64_t seed, long long n) {
  vt::Rng rg(seed);
  for (long long it = 0; it < n; ++it) {
    int kind = int(it % 3);
    double a = rg.coin() ? 6378137.0 : 6.4e6, f = rg.pick(vector<double>{0, 1 / 298.257223563, -1 / 298.257223563, 0.01, -0.01});
    if (kind == 0) laws_t<Geodesic, GeodesicLine>(Geodesic(a, f), rg, 0, a);
    else if (kind == 1) laws_t<GeodesicExact, GeodesicLineExact>(GeodesicExact(a, f), rg, 1, a);
    else laws_t<Geodesic, GeodesicLine>(Geodesic(a, f, true), rg, 2, a);
  }
}

int main(int argc, char** argv) {
  vt::install_terminate();
  if (argc >= 2 && string(argv[1]) == "replay") { replay(); return 0; }
  if (argc >= 4 && string(argv[1]) == "record") { record(strtoull(argv[2], 0, 10), atoll(argv[3])); return 0; }
  fprintf(stderr, "usage: drv_line replay < ops | record seed n\n"); return 2;
}
