// Driver for PolarStereographic / LambertConformalConic / AlbersEqualArea (C11).
//   replay           : executes the vectors enumerated by TLC from MC_ConicSym (stdin), one ndjson record per vector
//   record seed n    : seeded random law records (n objects; each object yields one "ob" line and several "pt" lines,
//                      plus "lim", "ss", "sg" lines)
// The driver executes the library and reduces each law to an integer residual in a declared unit, using the
// textbook closed forms (Snyder, USGS PP 1395: polar stereographic 21-33.., Lambert conformal conic 15-7..15-11,
// Albers 14-1..14-21, Mercator 7-6.., cylindrical / azimuthal equal area) evaluated in long double.  Every
// tolerance, applicability guard and accept/reject decision is in spec/Trace_ConicSym.tla.
//
// Units:  "rel"  = length / a (or a dimensionless ratio) in units of 1e-18, clipped to +-2e9 (vt::q1); NaN -> 2000000001
//         "fd"   = dimensionless finite-difference residual in units of 1e-12, clipped
//         "udeg" = angle in 1e-6 degree;  "fdeg" = angle in 1e-15 degree, clipped
#include "trace.hpp"
#include <GeographicLib/PolarStereographic.hpp>
#include <GeographicLib/LambertConformalConic.hpp>
#include <GeographicLib/AlbersEqualArea.hpp>
#include <GeographicLib/Ellipsoid.hpp>
#include <GeographicLib/Constants.hpp>
#include <GeographicLib/Math.hpp>
#include <memory>

using namespace GeographicLib;
using namespace std;
using vt::Rec;
typedef long double LD;

static const LD PIL = 3.14159265358979323846264338327950288L;
static const LD DEGL = PIL / 180;
enum { PS = 0, LCC = 1, ALB = 2 };
static const char* FAMN[] = {"ps", "lcc", "alb"};

template<class F> static string guarded(F f) {
  try { f(); return "ok"; }
  catch (const GeographicErr&) { return "throw"; }
  catch (const std::bad_alloc&) { return "badalloc"; }
  catch (const std::exception&) { return "other"; }
  catch (...) { return "other"; }
}

// ------------------------------------------------------------------ ellipsoid family (index known to the spec)
struct Fam { double a, f; };
static const vector<Fam>& family() {
  static const vector<Fam> F = {
    {6378137.0, 1 / 298.257223563}, {6378137.0, -1 / 298.257223563},        // 0,1 WGS84 and its prolate mirror
    {6378137.0, 0.0}, {1.0, 0.0}, {57.29577951308232, 0.0},                 // 2,3,4 spheres
    {1.0, 1.0 / 150}, {4194304.0, -1.0 / 150},                              // 5,6
    {6.4e6, 0.01}, {6.4e6, -0.01}, {1.0e7, 0.02}, {1.0e7, -0.02},           // 7..10
    {6378137.0, 0.05}, {6378137.0, -0.05}, {6378137.0, 0.1}, {6378137.0, -0.1},   // 11..14
    {6378137.0, 0.2}, {6378137.0, -0.25}                                    // 15,16
  };
  return F;
}

// ------------------------------------------------------------------ textbook formulas in long double
static void sincosdL(LD x, LD& s, LD& c) {
  int q = 0; LD r = remquol(x, 90.0L, &q); r *= DEGL;
  LD ss = sinl(r), cc = cosl(r);
  switch (unsigned(q) & 3U) {
    case 0U: s = ss; c = cc; break;
    case 1U: s = cc; c = -ss; break;
    case 2U: s = -ss; c = -cc; break;
    default: s = -cc; c = ss; break;
  }
  s += 0.0L; c += 0.0L;
}
// e atanh(e x) (oblate), -|e| atan(|e| x) (prolate): Snyder's (e/2) ln((1 + e sin phi)/(1 - e sin phi))
static LD eatanheL(LD x, LD e2) {
  if (e2 > 0) { LD e = sqrtl(e2); return e * atanhl(e * x); }
  if (e2 < 0) { LD e = sqrtl(-e2); return -e * atanl(e * x); }
  return 0;
}
// atanh(e x)/e
static LD atanheeL(LD x, LD e2) {
  if (e2 > 0) { LD e = sqrtl(e2); return atanhl(e * x) / e; }
  if (e2 < 0) { LD e = sqrtl(-e2); return atanl(e * x) / e; }
  return x;
}
static LD sincL(LD u) { return u == 0 ? 1 : sinl(u) / u; }
static LD E1L(LD u) { return u == 0 ? 1 : -expm1l(-u) / u; }      // (1 - exp(-u))/u

struct EllL {
  LD a, f, e2;
  EllL() : a(1), f(0), e2(0) {}
  explicit EllL(const Fam& m) : a(m.a), f(m.f) { e2 = f * (2 - f); }
  LD m(LD s, LD c) const { return c / sqrtl(1 - e2 * s * s); }                       // Snyder 14-15
  LD psi(LD s, LD c) const { return asinhl(s / c) - eatanheL(s, e2); }               // isometric latitude, t = exp(-psi) (15-9)
  LD q(LD s) const { return (1 - e2) * (s / (1 - e2 * s * s) + atanheeL(s, e2)); }   // Snyder 3-12
  // metres of true distance per radian of latitude / longitude at the latitude with sine s, cosine c
  LD Mrad(LD s) const { LD w = sqrtl(1 - e2 * s * s); return a * (1 - e2) / (w * w * w); }
  LD Nrad(LD s, LD c) const { return a * c / sqrtl(1 - e2 * s * s); }
  // true distance (metres) between two nearby geographic points
  LD dist(double lat1, double lon1, double lat2, double lon2) const {
    LD s, c; sincosdL(lat1, s, c);
    LD dphi = ((LD)lat2 - lat1) * DEGL, dlam = remainderl((LD)lon2 - lon1, 360.0L) * DEGL;
    return hypotl(Mrad(s) * dphi, Nrad(s, c) * dlam);
  }
};

// a parallel as the constructor sees it: sine and cosine (normalised)
struct Par { LD s, c; };
static Par par_deg(double lat) { Par p; sincosdL(lat, p.s, p.c); return p; }
static Par par_sc(double s, double c) { LD r = hypotl((LD)s, (LD)c); return {(LD)s / r, (LD)c / r}; }

// The closed-form projection ("oracle").  Evaluated in a form that is stable for every cone constant n (including
// n = 0 and n = +-1):  sin(theta)/n = dlam sinc(theta),  (1 - cos theta)/n = dlam sin(theta/2) sinc(theta/2),
// (1 - (t/t0)^n)/n = d E1(n d) with d = psi - psi0;  these are Snyder's formulas, rearranged only.
struct Oracle {
  int fam = LCC; EllL E; LD k1 = 1;
  bool polar = false, northp = true, valid = true, twopar = false;
  LD n = 0;
  LD dn = 0;     // bound on the round-off error of n as evaluated here in long double (two-parallel forms)
  // lcc
  LD A0 = 0, psi0 = 0, psi1 = 0, m1 = 0;
  // alb
  LD m12 = 0, q1 = 0, q0 = 0, R0 = 0, s0 = 0, c0 = 1;
  // ps
  LD cc = 1;

  static Oracle ps(const Fam& el, LD k0, bool northp) {
    Oracle o; o.fam = PS; o.E = EllL(el); o.k1 = k0; o.northp = northp; o.polar = true; o.n = northp ? 1 : -1;
    o.cc = (1 - o.E.f) * expl(eatanheL(1, o.E.e2));          // sqrt((1+e)^(1+e) (1-e)^(1-e)), Snyder 21-33
    return o;
  }
  static Oracle lcc(const Fam& el, Par p1, Par p2, LD k1) {
    EllL E(el);
    bool same = p1.s == p2.s && p1.c == p2.c;
    if (same && p1.c == 0) { Oracle o = ps(el, k1, p1.s > 0); o.fam = LCC; return o; }
    Oracle o; o.fam = LCC; o.E = E; o.k1 = k1; o.twopar = !same;
    o.m1 = E.m(p1.s, p1.c); o.psi1 = E.psi(p1.s, p1.c);
    if (same) { o.n = p1.s; o.psi0 = o.psi1; o.s0 = p1.s; o.c0 = p1.c; }
    else {
      LD m2 = E.m(p2.s, p2.c), psi2 = E.psi(p2.s, p2.c);
      o.n = logl(o.m1 / m2) / (psi2 - o.psi1);                // Snyder 15-8 with ln t = -psi
      o.dn = ldexpl(1.0L, -63) * ((fabsl(logl(o.m1)) + fabsl(logl(m2)) + 1) + fabsl(o.n) * (fabsl(o.psi1) + fabsl(psi2))) / fabsl(psi2 - o.psi1);
      o.s0 = o.n; o.c0 = sqrtl((1 - o.n) * (1 + o.n));        // latitude of tangency / minimum scale: sin phi0 = n
      o.psi0 = E.psi(o.s0, o.c0);
      if (!(fabsl(o.n) < 1)) o.valid = false;
    }
    o.A0 = E.a * k1 * o.m1 * expl(-o.n * (o.psi0 - o.psi1));   // n rho0 = a k1 m1 (t0/t1)^n
    return o;
  }
  static Oracle alb(const Fam& el, Par p1, Par p2, LD k1) {
    EllL E(el);
    Oracle o; o.fam = ALB; o.E = E; o.k1 = k1;
    bool same = p1.s == p2.s && p1.c == p2.c;
    o.twopar = !same;
    o.m12 = p1.c * p1.c / (1 - E.e2 * p1.s * p1.s); o.q1 = E.q(p1.s);
    if (same) { o.n = p1.s; o.s0 = p1.s; o.c0 = p1.c; o.polar = p1.c == 0; }
    else {
      LD m22 = p2.c * p2.c / (1 - E.e2 * p2.s * p2.s), q2 = E.q(p2.s);
      o.n = (o.m12 - m22) / (q2 - o.q1);                      // Snyder 14-14
      o.dn = ldexpl(1.0L, -63) * ((o.m12 + m22) + fabsl(o.n) * (fabsl(o.q1) + fabsl(q2))) / fabsl(q2 - o.q1);
      if (o.n == 0) { o.s0 = 0; o.c0 = 1; }
      else {
        // origin = tangency latitude of the equivalent one-parallel projection: (m0^2 + s0 q0)/s0 = C/n with
        // C = m1^2 + n q1 (14-13); bisection on the latitude between the two parallels
        LD lo = atan2l(p1.s, p1.c) / DEGL, hi = atan2l(p2.s, p2.c) / DEGL;
        if (lo > hi) std::swap(lo, hi);
        auto h = [&](LD phi) { LD s, c; sincosdL(phi, s, c); return c * c / (1 - E.e2 * s * s) + s * (E.q(s) - o.q1) - s * o.m12 / o.n; };
        LD hl = h(lo), hh = h(hi);
        if (!((hl <= 0 && hh >= 0) || (hl >= 0 && hh <= 0))) o.valid = false;
        for (int i = 0; i < 100 && o.valid; ++i) {
          LD mid = (lo + hi) / 2, hm = h(mid);
          if ((hm <= 0) == (hl <= 0)) { lo = mid; hl = hm; } else { hi = mid; }
        }
        sincosdL((lo + hi) / 2, o.s0, o.c0);
      }
    }
    o.q0 = E.q(o.s0);
    o.R0 = sqrtl(fmaxl(o.R2(o.q0), 0.0L));
    return o;
  }
  // (rho n / a)^2 = C - n q = m1^2 + n (q1 - q)   (Snyder 14-12, 14-13)
  LD R2(LD q) const { return m12 + n * (q1 - q); }
  LD lat0() const { return atan2l(s0, c0) / DEGL; }
  // The origin of y is a convention (the library uses its OriginLatitude).  For two distinct parallels the tangency
  // latitude is ill conditioned towards the poles (slope ~ cos^3), so the closed form is evaluated with the origin
  // reported by the library; the origin itself is judged separately (ob.dl0, ob.y0, ob.eq1).
  void origin(double lat0deg) {
    if (polar || fam == PS) return;
    sincosdL(lat0deg, s0, c0);
    if (fam == LCC) { psi0 = E.psi(s0, c0); A0 = E.a * k1 * m1 * expl(-n * (psi0 - psi1)); }
    else { q0 = E.q(s0); R0 = sqrtl(fmaxl(R2(q0), 0.0L)); }
  }

  // lat, dlam in degrees.  Returns false where the closed form is infinite (far pole).
  bool fwd(LD lat, LD dlam, LD& x, LD& y, LD& gam, LD& k) const {
    if (!valid) return false;
    LD s, c;
    if (fam == PS || (fam == LCC && polar)) {
      sincosdL(northp ? lat : -lat, s, c);
      LD colat = 90.0L - (northp ? lat : -lat);
      if (colat >= 180) return false;
      LD t = tanl(colat / 2 * DEGL) * expl(eatanheL(s, E.e2));              // Snyder 15-9
      LD rho = 2 * E.a * k1 * t / cc;                                       // 21-33
      LD sl, cl; sincosdL(dlam, sl, cl);
      x = rho * sl; y = northp ? -rho * cl : rho * cl;
      k = c == 0 ? k1 : rho / (E.a * E.m(s, c));                            // 21-32
      gam = remainderl(northp ? dlam : -dlam, 360.0L);
      return true;
    }
    sincosdL(lat, s, c);
    LD lam = dlam * DEGL;
    if (fam == LCC) {
      LD ps = E.psi(s, c), d = ps - psi0;
      if (std::isinf(d) && n * d < 0) return false;                        // far pole: rho infinite
      if (n == 0 && std::isinf(d)) return false;
      LD theta = n * lam;
      LD r = expl(-n * d);
      x = A0 * r * lam * sincL(theta);
      y = (std::isinf(d) ? A0 / n : A0 * d * E1L(n * d)) + A0 * r * lam * sinl(theta / 2) * sincL(theta / 2);
      k = c == 0 ? INFINITY : k1 * (m1 / E.m(s, c)) * expl(-n * (ps - psi1));   // k = rho n / (a m): infinite at a pole (|n| < 1)
      gam = n * dlam;
      return true;
    }
    // Albers with azimuthal scale k1 on the parallels: rho -> rho / k1, theta -> k1^2 n dlam
    LD q = E.q(s), R = sqrtl(fmaxl(R2(q), 0.0L));
    LD theta = k1 * k1 * n * lam;
    LD t1 = (R0 + R == 0) ? 0 : E.a * (q - q0) / (R0 + R);
    x = E.a * k1 * R * lam * sincL(theta);
    y = (t1 + E.a * R * k1 * k1 * lam * sinl(theta / 2) * sincL(theta / 2)) / k1;
    LD m = E.m(s, c);
    k = m == 0 ? (R == 0 ? k1 : INFINITY) : k1 * R / m;
    gam = k1 * k1 * n * dlam;
    return true;
  }
};

// ------------------------------------------------------------------ the object under test
struct Obj {
  int fam = LCC; bool northp = true;
  unique_ptr<PolarStereographic> ps; unique_ptr<LambertConformalConic> lcc; unique_ptr<AlbersEqualArea> alb;
  void fwd(double lon0, double lat, double lon, double& x, double& y, double& g, double& k) const {
    if (fam == PS) ps->Forward(northp, lat, Math::AngDiff(lon0, lon), x, y, g, k);
    else if (fam == LCC) lcc->Forward(lon0, lat, lon, x, y, g, k);
    else alb->Forward(lon0, lat, lon, x, y, g, k);
  }
  void rev(double lon0, double x, double y, double& lat, double& lon, double& g, double& k) const {
    if (fam == PS) { ps->Reverse(northp, x, y, lat, lon, g, k); lon = Math::AngNormalize(lon + Math::AngNormalize(lon0)); }
    else if (fam == LCC) lcc->Reverse(lon0, x, y, lat, lon, g, k);
    else alb->Reverse(lon0, x, y, lat, lon, g, k);
  }
  // the overloads "without returning the convergence and scale" (documented as the same functions)
  void fwd5(double lon0, double lat, double lon, double& x, double& y) const {
    if (fam == PS) ps->Forward(northp, lat, Math::AngDiff(lon0, lon), x, y);
    else if (fam == LCC) lcc->Forward(lon0, lat, lon, x, y);
    else alb->Forward(lon0, lat, lon, x, y);
  }
  void rev5(double lon0, double x, double y, double& lat, double& lon) const {
    if (fam == PS) { ps->Reverse(northp, x, y, lat, lon); lon = Math::AngNormalize(lon + Math::AngNormalize(lon0)); }
    else if (fam == LCC) lcc->Reverse(lon0, x, y, lat, lon);
    else alb->Reverse(lon0, x, y, lat, lon);
  }
  void setscale(double lat, double k) { if (fam == PS) ps->SetScale(lat, k); else if (fam == LCC) lcc->SetScale(lat, k); else alb->SetScale(lat, k); }
  void setscale(double lat) { if (fam == PS) ps->SetScale(lat); else if (fam == LCC) lcc->SetScale(lat); else alb->SetScale(lat); }   // default argument
  double lat0() const { return fam == PS ? (northp ? 90.0 : -90.0) : fam == LCC ? lcc->OriginLatitude() : alb->OriginLatitude(); }
  double k0() const { return fam == PS ? ps->CentralScale() : fam == LCC ? lcc->CentralScale() : alb->CentralScale(); }
  double a() const { return fam == PS ? ps->EquatorialRadius() : fam == LCC ? lcc->EquatorialRadius() : alb->EquatorialRadius(); }
  double f() const { return fam == PS ? ps->Flattening() : fam == LCC ? lcc->Flattening() : alb->Flattening(); }
};
static double kval(int c);
static double latcode(long long p, int d);
static string call_setscale(Obj& o, double lat, int kc);
// Everything the public interface shows of an object, as bit patterns: the inspectors, Forward at two points (one per
// hemisphere, different central meridians) and Reverse at two points of the plane.
static vector<uint64_t> observable(const Obj& o) {
  vector<uint64_t> v;
  auto put = [&](double d) { v.push_back(vt::bits(d)); };
  put(o.a()); put(o.f()); put(o.k0()); put(o.lat0());
  double x, y, g, k, la, lo;
  o.fwd(0, 33, 44, x, y, g, k); put(x); put(y); put(g); put(k);
  o.fwd(7, -20, -100, x, y, g, k); put(x); put(y); put(g); put(k);
  const double a = o.a();
  o.rev(0, 0.3 * a, -0.4 * a, la, lo, g, k); put(la); put(lo); put(g); put(k);
  o.rev(-50, -0.05 * a, 0.6 * a, la, lo, g, k); put(la); put(lo); put(g); put(k);
  return v;
}
// ct: 1 one parallel (degrees), 2 two parallels (degrees), 3 sines and cosines
static Obj make(int fam, int ct, const Fam& el, double p1, double p2, double s1, double c1, double s2, double c2, double k1, bool northp = true) {
  Obj o; o.fam = fam; o.northp = northp;
  if (fam == PS) o.ps.reset(new PolarStereographic(el.a, el.f, k1));
  else if (fam == LCC) {
    if (ct == 1) o.lcc.reset(new LambertConformalConic(el.a, el.f, p1, k1));
    else if (ct == 2) o.lcc.reset(new LambertConformalConic(el.a, el.f, p1, p2, k1));
    else o.lcc.reset(new LambertConformalConic(el.a, el.f, s1, c1, s2, c2, k1));
  } else {
    if (ct == 1) o.alb.reset(new AlbersEqualArea(el.a, el.f, p1, k1));
    else if (ct == 2) o.alb.reset(new AlbersEqualArea(el.a, el.f, p1, p2, k1));
    else o.alb.reset(new AlbersEqualArea(el.a, el.f, s1, c1, s2, c2, k1));
  }
  return o;
}

static long long relq(LD v) { return vt::q1(v, 1e-18L); }
static long long fdq(LD v) { return vt::q1(v, 1e-12L); }
static long long udeg(LD v) { return vt::q1(v, 1e-6L); }
static long long fdeg(LD v) { return vt::q1(v, 1e-15L); }
static bool fin4(double a, double b, double c, double d) { return std::isfinite(a) && std::isfinite(b) && std::isfinite(c) && std::isfinite(d); }
static bool same4(double a, double b, double c, double d, double a2, double b2, double c2, double d2) {
  return vt::bits(a) == vt::bits(a2) && vt::bits(b) == vt::bits(b2) && vt::bits(c) == vt::bits(c2) && vt::bits(d) == vt::bits(d2);
}

// true distance (metres) represented by the map displacement (dx, dy) at a point with scale k and convergence gam:
// conformal: |d| / k;  Albers: the E-W component is stretched by k, the N-S component by 1/k.
static LD truedist(int fam, LD dx, LD dy, LD k, LD gamdeg) {
  if (fam != ALB) return hypotl(dx, dy) / k;
  LD sg, cg; sincosdL(gamdeg, sg, cg);
  LD de = dx * cg + dy * sg, dn = -dx * sg + dy * cg;     // east = (cos g, sin g), north = (-sin g, cos g)
  return hypotl(de / k, dn * k);
}

// ------------------------------------------------------------------ point laws
// Emits one "pt" line: all outputs of Forward at (lat, lon), Reverse of the image, Forward again, the closed form,
// and finite differences of Forward, reduced to residuals.
struct PtIn { int fi; double lat, lon, lon0; };
static void pt_fields(Rec& r, const Obj& o, const Oracle& orc, const Fam& el, const PtIn& p, bool dofd) {
  EllL E(el);
  double x, y, g, k;
  o.fwd(p.lon0, p.lat, p.lon, x, y, g, k);
  bool fin = fin4(x, y, g, k);
  LD s, c; sincosdL(p.lat, s, c);
  double e1 = 0, dl = Math::AngDiff(p.lon0, p.lon, e1);
  LD dlam = (LD)dl + e1;
  r.i("latq", udeg(p.lat)).i("dlq", udeg(dlam)).i("cosq", vt::q1(c, 1e-9L));
  r.b("fin", fin);
  // representability: x and y are rounded to doubles; the inverse scales amplify that into true distance
  LD kk = fabsl((LD)k);
  LD amp = ldexpl(fmaxl(fabsl((LD)x), fabsl((LD)y)), -52) * (o.fam == ALB ? fmaxl(kk, 1 / kk) : 1 / kk);
  r.i("amp", relq(amp / E.a));
  // conditioning of the equal-area inverse towards a pole: q_p - q ~ cos^2 phi, so one ulp of q moves phi by eps / cos phi
  r.i("cnd", relq(ldexpl(1.0L, -52) / c));
  r.i("kq", vt::q1(log10l(kk), 1e-6L));
  r.i("gq", udeg(fabsl((LD)g)));                              // |gamma|: the cone angle theta (the map wraps at 180)                       // log10 k in 1e-6 (for guards)
  // --- Reverse o Forward (true distance on the ellipsoid), and the returned gamma, k of Reverse
  double lat2 = 0, lon2 = 0, g2 = 0, k2 = 0;
  o.rev(p.lon0, x, y, lat2, lon2, g2, k2);
  r.b("rfin", fin4(lat2, lon2, g2, k2)).b("rng", fabs(lat2) <= 90 && fabs(lon2) <= 180);
  r.i("rt", relq(E.dist(p.lat, p.lon, lat2, lon2) / E.a));
  r.i("rtg", relq(fabsl(remainderl((LD)g2 - g, 360.0L)) * DEGL * c));
  r.i("rtk", relq(fabsl((LD)k2 - k) / kk * c));
  r.i("rtk0", relq(fabsl((LD)k2 - k) / kk));                  // the same without the weight cos(lat) (used where the weight vanishes)
  // --- the overloads without gamma, k: the same x, y / lat, lon bit for bit
  { double xo = 0, yo = 0, lao = 0, loo = 0; o.fwd5(p.lon0, p.lat, p.lon, xo, yo); o.rev5(p.lon0, x, y, lao, loo);
    r.b("ovf", vt::bits(xo) == vt::bits(x) && vt::bits(yo) == vt::bits(y)).b("ovr", vt::bits(lao) == vt::bits(lat2) && vt::bits(loo) == vt::bits(lon2)); }
  // --- Forward o Reverse on the image point
  double x3, y3, g3, k3;
  o.fwd(p.lon0, lat2, lon2, x3, y3, g3, k3);
  r.i("tr", relq(truedist(o.fam, (LD)x3 - x, (LD)y3 - y, k, g) / E.a));
  // gamma, k returned by Reverse against gamma, k returned by Forward for the point that Reverse returned (at a pole the
  // longitude is the one Reverse chose): weighted by cos(lat2), and unweighted
  { LD s2, c2; sincosdL(lat2, s2, c2); LD k3a = fabsl((LD)k3);
    LD dg = fabsl(remainderl((LD)g3 - g2, 360.0L)) * DEGL, dk = fabsl((LD)k3 - k2) / k3a;
    r.i("cosq2", vt::q1(c2, 1e-9L)).i("lat2q", udeg(lat2)).i("kq3", vt::q1(log10l(k3a), 1e-6L));
    r.i("trg", relq(dg * c2)).i("trk", relq(dk * c2)).i("trg0", relq(dg)).i("trk0", relq(dk));
    r.i("gul3", relq(ldexpl(fmaxl(fabsl((LD)g3), fabsl((LD)g2)), -52) * DEGL));
    // CentralScale is "the scale on the latitude of origin" / "the scale at the pole": Reverse landing exactly on it
    r.i("rk0", vt::bits(lat2) == vt::bits(o.lat0()) ? relq(fabsl((LD)k2 - o.k0()) / o.k0()) : -1); }
  // --- the closed form
  LD X, Y, G, K;
  bool ev = orc.fwd(p.lat, dlam, X, Y, G, K);
  r.i("lul", relq(ldexpl(fabsl(dlam) * DEGL, -52) * c));        // one ulp of lon - lon0 in true distance / a
  r.b("ev", ev).i("ocn", relq(orc.dn)).i("gul", relq(ldexpl(fabsl((LD)g), -52) * DEGL * c));
  if (ev) {
    r.i("df", relq(truedist(o.fam, (LD)x - X, (LD)y - Y, K, G) / E.a));
    r.i("dg", relq(fabsl(remainderl((LD)g - G, 360.0L)) * DEGL * c));
    r.i("dk", std::isfinite((double)K) ? relq(fabsl((LD)k - K) / K * c) : -1);
  } else r.i("df", -1).i("dg", -1).i("dk", -1);
  // --- finite differences: the Jacobian against the returned k, gamma
  if (dofd) {
    const double h = 1.0 / 4096;
    double xa, ya, xb, yb, gg, kq;
    o.fwd(p.lon0, p.lat + h, p.lon, xa, ya, gg, kq); o.fwd(p.lon0, p.lat - h, p.lon, xb, yb, gg, kq);
    LD hr = 2 * (LD)h * DEGL;
    LD jnx = ((LD)xa - xb) / (hr * E.Mrad(s)), jny = ((LD)ya - yb) / (hr * E.Mrad(s));
    o.fwd(p.lon0, p.lat, p.lon + h, xa, ya, gg, kq); o.fwd(p.lon0, p.lat, p.lon - h, xb, yb, gg, kq);
    LD jex = ((LD)xa - xb) / (hr * E.Nrad(s, c)), jey = ((LD)ya - yb) / (hr * E.Nrad(s, c));
    LD sg, cg; sincosdL(g, sg, cg);
    LD kn = o.fam == ALB ? 1 / kk : kk;                      // north stretch
    r.i("cfn", fdq(hypotl(jnx - kn * (-sg), jny - kn * cg) / kn));
    r.i("cfe", fdq(hypotl(jex - kk * cg, jey - kk * sg) / kk));
    r.i("det", fdq(fabsl(jex * jny - jey * jnx - (o.fam == ALB ? 1 : kk * kk)) / (o.fam == ALB ? 1 : kk * kk)));
  } else r.i("cfn", -1).i("cfe", -1).i("det", -1);
}

// ------------------------------------------------------------------ random object specification
struct Spec {
  int fam, ct, fi; double p1, p2, s1, c1, s2, c2, k1; bool northp;
  Par P1, P2;
};
static const vector<double>& stdspecial() {
  static const vector<double> v = {0, 1e-9, -1e-9, 30, -30, 45, 89.999, -89.999, 90, -90, 60, -60, 1e-3, 89.999999, -89.999999};
  return v;
}
static double pickstd(vt::Rng& g) { return g.range(0, 2) == 0 ? g.pick(stdspecial()) : (g.coin() ? g.uni(-90, 90) : double(g.range(-89, 89))); }
static double pickk(vt::Rng& g) {
  static const vector<double> v = {0.5, 0.994, 0.9996, 1, 1, 2};
  return g.range(0, 3) == 0 ? exp(g.uni(log(0.25), log(4.0))) : g.pick(v);
}
static Spec random_spec(vt::Rng& g, int fam) {
  Spec s; s.fam = fam; s.fi = int(g.range(0, (long long)family().size() - 1)); s.northp = g.coin();
  s.k1 = pickk(g); s.ct = 1; s.p1 = s.p2 = 0; s.s1 = s.s2 = 0; s.c1 = s.c2 = 1;
  if (fam == PS) { s.p1 = s.p2 = s.northp ? 90 : -90; s.P1 = s.P2 = par_deg(s.p1); return s; }
  int w = int(g.range(0, 9));
  double a = pickstd(g), b;
  if (w <= 2) { s.ct = 1; b = a; }
  else {
    s.ct = g.coin() ? 2 : 3;
    if (w == 3) b = a;                                                         // equal parallels through the 2-parallel ctor
    else if (w <= 6) { b = a + (g.coin() ? 1 : -1) * pow(10.0, -double(g.range(1, 12))); }   // nearly equal
    else if (w == 7) b = -a;                                                   // symmetric: cylinder
    else b = pickstd(g);
    if (b > 90) b = a - (b - a); if (b < -90) b = a - (b - a);
    if (fabs(b) > 90) b = a;
    // inadmissible combinations are the business of the lattice part; here: repair
    if (fam == LCC && (fabs(a) == 90 || fabs(b) == 90) && a != b) { if (fabs(a) == 90) a = b; else b = a; }
    if (fam == ALB && fabs(a) == 90 && fabs(b) == 90 && a != b) b = a;
  }
  s.p1 = a; s.p2 = b;
  if (s.ct == 3) {
    Math::sincosd(a, s.s1, s.c1); Math::sincosd(b, s.s2, s.c2);
    // un-normalised input is accepted (|sin| <= 1, cos <= 1); exact scaling; not for a pole (the pole test compares raw values)
    if (g.range(0, 3) == 0 && s.c1 != 0 && s.c2 != 0) { double m = g.coin() ? 0.5 : 0.25; s.s1 *= m; s.c1 *= m; }
    if (g.range(0, 3) == 0 && s.c1 != 0 && s.c2 != 0) { double m = g.coin() ? 0.5 : 0.125; s.s2 *= m; s.c2 *= m; }
    s.P1 = par_sc(s.s1, s.c1); s.P2 = par_sc(s.s2, s.c2);
  } else { s.P1 = par_deg(a); s.P2 = par_deg(b); }
  return s;
}
static Obj make(const Spec& s) { return make(s.fam, s.ct, family()[s.fi], s.p1, s.p2, s.s1, s.c1, s.s2, s.c2, s.k1, s.northp); }
static Oracle oracle(const Spec& s) {
  const Fam& el = family()[s.fi];
  if (s.fam == PS) return Oracle::ps(el, s.k1, s.northp);
  if (s.fam == LCC) return Oracle::lcc(el, s.P1, s.P2, s.k1);
  return Oracle::alb(el, s.P1, s.P2, s.k1);
}
static void spec_fields(Rec& r, const Spec& s) {
  r.str("fam", FAMN[s.fam]).i("ct", s.ct).i("fi", s.fi).b("np", s.northp);
  // the parallels as the constructor sees them; separation in 1e-9 degree (clipped at 2e9 = 2 degrees) and in 1e-6 degree
  LD sep = fabsl(atan2l(s.P1.s * s.P2.c - s.P1.c * s.P2.s, s.P1.c * s.P2.c + s.P1.s * s.P2.s)) / DEGL;
  r.i("p1q", udeg(atan2l(s.P1.s, s.P1.c) / DEGL)).i("p2q", udeg(atan2l(s.P2.s, s.P2.c) / DEGL));
  r.i("dpq", vt::q1(sep, 1e-9L)).i("sepq", udeg(sep)).i("k1q", vt::q1(s.k1, 1e-6L));
  r.i("sgn", s.fam == PS ? (s.northp ? 1 : -1) : (s.P1.s + s.P2.s >= 0 ? 1 : -1));
  r.b("pol", s.fam == PS || (s.P1.c == 0 && s.P2.c == 0));
  r.b("same", s.P1.s == s.P2.s && s.P1.c == s.P2.c);
}
static string hexin(std::initializer_list<double> v) { string o; for (double d : v) { if (!o.empty()) o += ' '; o += vt::hexf(d); } return o; }
static double picklat(vt::Rng& g, const Spec& s, const Obj& o) {
  int w = int(g.range(0, 15));
  switch (w) {
    case 0: return 90; case 1: return -90; case 2: return 0; case 3: return s.p1; case 4: return s.p2;
    case 5: return o.lat0();
    case 6: return (g.coin() ? 1 : -1) * (90 - pow(10.0, -double(g.range(1, 13))));
    case 7: return double(g.range(-90, 90));
    default: return g.uni(-90, 90);
  }
}

// known-finding input classes (see notes/C11.md): identified from the INPUTS only
static string kfclass(const Spec& s, double evlat) {
  if (s.fam != ALB) return "none";
  bool same = s.P1.s == s.P2.s && s.P1.c == s.P2.c;
  if (fabs(evlat) != 90) return "none";
  if (same) { LD a0 = atan2l(s.P1.s, s.P1.c) / DEGL; return (fabsl(a0) >= 89.99999L && s.P1.c != 0 && a0 * evlat > 0) ? "alb-nearpole-std-at-pole" : "none"; }
  LD a1 = atan2l(s.P1.s, s.P1.c) / DEGL, a2 = atan2l(s.P2.s, s.P2.c) / DEGL;
  LD lim = 89.99999L;
  if (fabsl(a1) >= lim && fabsl(a2) >= lim && a1 * a2 > 0 && a1 * evlat > 0) return "alb-2par-nearpole-at-pole";
  if ((fabsl(a1) >= lim && s.P1.c != 0 && a1 * evlat > 0) || (fabsl(a2) >= lim && s.P2.c != 0 && a2 * evlat > 0)) return "alb-nearpole-std-at-pole";
  bool pole1 = s.P1.c == 0, pole2 = s.P2.c == 0;
  if (pole1 != pole2) { LD ap = pole1 ? a1 : a2; if (ap * evlat > 0) return "alb-2par-pole-std-at-pole"; }
  return "none";
}

// ------------------------------------------------------------------ object laws ("ob")
static void ob_record(vt::Rng& g, const Spec& s, const Obj& o, const Oracle& orc, LD orclat0, const string& cres) {
  const Fam& el = family()[s.fi]; EllL E(el);
  Rec r; r.str("e", "ob"); spec_fields(r, s); r.str("out", cres);
  if (cres != "ok") { r.str("kf", "none"); r.emit(); return; }
  double lat0 = o.lat0(), k0 = o.k0();
  r.str("kf", kfclass(s, lat0));
  r.b("insp", vt::bits(o.a()) == vt::bits(el.a) && vt::bits(o.f()) == vt::bits(el.f));
  // scale on the standard parallels (zl: a polar parallel of a two-parallel form has zero length)
  double x, y, gm, k;
  double q1 = s.fam == PS ? (s.northp ? 90.0 : -90.0) : (double)(atan2l(s.P1.s, s.P1.c) / DEGL);
  double q2 = s.fam == PS ? q1 : (double)(atan2l(s.P2.s, s.P2.c) / DEGL);
  if (s.fam != PS && s.ct != 3) { q1 = s.p1; q2 = s.ct == 1 ? s.p1 : s.p2; }
  bool two = orc.twopar;
  // weighted by cos(parallel): "errors in ... scale are consistent with" a position error (d ln k / d lat ~ 1 / cos lat)
  LD cq1, cq2, sq_; sincosdL(q1, sq_, cq1); sincosdL(q2, sq_, cq2);
  o.fwd(0, q1, 0, x, y, gm, k); r.i("ks1", relq(fabsl((LD)k - s.k1) / s.k1 * cq1)).b("zl1", two && s.P1.c == 0).i("kcn1", relq(ldexpl(1.0L, -52) / cq1));
  o.fwd(0, q2, 0, x, y, gm, k); r.i("ks2", relq(fabsl((LD)k - s.k1) / s.k1 * cq2)).b("zl2", two && s.P2.c == 0).i("kcn2", relq(ldexpl(1.0L, -52) / cq2));
  // origin: between the parallels, scale there = CentralScale, not larger than the scale on the parallels, image (0, 0)
  LD lo = fminl((LD)q1, (LD)q2), hi = fmaxl((LD)q1, (LD)q2);
  r.i("blo", fdeg((LD)lat0 - lo)).i("bhi", fdeg(hi - (LD)lat0));
  o.fwd(0, lat0, 0, x, y, gm, k);
  r.i("kc", relq(fabsl((LD)k - k0) / k0)).i("kmin", relq(((LD)k0 - s.k1) / s.k1));
  r.i("y0", relq(truedist(s.fam, x, y, k0, gm) / E.a));
  // origin latitude against the closed form (1e-15 degree); c0q = cos(lat0) in 1e-9 (conditioning of the closed form)
  { LD so, co; sincosdL(lat0, so, co); r.b("oev", orc.valid).i("dl0", orc.valid ? fdeg(fabsl((LD)lat0 - orclat0)) : -1).i("c0q", vt::q1(co, 1e-9L)); }
  // the one-parallel object with (OriginLatitude, CentralScale) describes the same projection
  long long eq1 = -1, eqd = -1;
  LD wamp = 0, wcnd = 0;
  auto note = [&](double lat, double xx, double yy, double kk0) {
    LD sl, cl; sincosdL(lat, sl, cl); LD kk = fabsl((LD)kk0);
    wamp = fmaxl(wamp, ldexpl(fmaxl(fabsl((LD)xx), fabsl((LD)yy)), -52) * (s.fam == ALB ? fmaxl(kk, 1 / kk) : 1 / kk) / E.a);
    wcnd = fmaxl(wcnd, ldexpl(1.0L, -52) / cl);
  };
  if (s.fam != PS) {
    Obj o1; string r1 = guarded([&] { o1 = make(s.fam, 1, el, lat0, lat0, 0, 1, 0, 1, k0); });
    if (r1 == "ok") {
      LD worst = 0, wd = 0;
      for (int j = 0; j < 3; ++j) {
        double lat = (j == 0 && fabs(lat0) < 89) ? lat0 : g.uni(-80, 80), lon = g.uni(-170, 170);
        double x1, y1, g1, k1v; o.fwd(0, lat, lon, x, y, gm, k); o1.fwd(0, lat, lon, x1, y1, g1, k1v);
        if (fabs(gm) > 170) continue;
        note(lat, x, y, k);
        worst = fmaxl(worst, truedist(s.fam, (LD)x1 - x, (LD)y1 - y, k, gm) / E.a);
        wd = fmaxl(wd, fmaxl(truedist(s.fam, x, y, k, gm) / E.a, fabsl((LD)lat - lat0) * DEGL));   // reach of a relative scale error
      }
      eq1 = relq(worst); eqd = vt::q1(wd, 1e-6L);
    }
  }
  r.i("eq1", eq1).i("eqd", eqd);
  // argument order and the sin/cos form denote the same projection
  long long swd = -1, scd = -1; bool swb = true;
  if (s.fam != PS && s.ct == 2) {
    Obj o2, o3; double s1, c1, s2, c2; Math::sincosd(s.p1, s1, c1); Math::sincosd(s.p2, s2, c2);
    string r2 = guarded([&] { o2 = make(s.fam, 2, el, s.p2, s.p1, 0, 1, 0, 1, s.k1); });
    string r3 = guarded([&] { o3 = make(s.fam, 3, el, 0, 0, s1, c1, s2, c2, s.k1); });
    double lat = g.uni(-80, 80), lon = g.uni(-170, 170), x1, y1, g1, k1v;
    o.fwd(3, lat, lon, x, y, gm, k); note(lat, x, y, k);
    if (r2 == "ok") {
      o2.fwd(3, lat, lon, x1, y1, g1, k1v);
      swd = relq(fmaxl(truedist(s.fam, (LD)x1 - x, (LD)y1 - y, k, gm) / E.a, fmaxl(fabsl((LD)o2.k0() - k0) / k0, fabsl((LD)o2.lat0() - lat0) * DEGL)));
      swb = same4(x, y, gm, k, x1, y1, g1, k1v);
    } else swd = 2000000001LL;
    if (r3 == "ok") {
      o3.fwd(3, lat, lon, x1, y1, g1, k1v);
      scd = relq(fmaxl(truedist(s.fam, (LD)x1 - x, (LD)y1 - y, k, gm) / E.a, fmaxl(fabsl((LD)o3.k0() - k0) / k0, fabsl((LD)o3.lat0() - lat0) * DEGL)));
    } else scd = 2000000001LL;
  }
  r.i("swd", swd).i("scd", scd).b("swb", swb).i("amp", relq(wamp)).i("cnd", relq(wcnd));
  r.str("in", hexin({el.a, el.f, s.p1, s.p2, s.s1, s.c1, s.s2, s.c2, s.k1}));
  r.emit();
}

// ------------------------------------------------------------------ cross-class limits ("lim")
// ps  : LambertConformalConic(stdlat = +-90) against PolarStereographic
// merc: LambertConformalConic(stdlat = 0) against a k0 psi with psi = Ellipsoid::IsometricLatitude
// cea : AlbersEqualArea(stdlat = 0) against Ellipsoid::AuthalicLatitude / Area:  y = R_q^2 sin(xi) / (a k0)
// az  : AlbersEqualArea(stdlat = +-90) against rho = R_q sqrt(2 (1 -+ sin xi)) / k0, theta = k0^2 dlam
static void lim_record(vt::Rng& g) {
  int fi = int(g.range(0, (long long)family().size() - 1)); const Fam& el = family()[fi]; EllL E(el);
  double k0 = pickk(g);
  int kind = int(g.range(0, 3));
  static const char* KN[] = {"ps", "merc", "cea", "az"};
  double lat = g.range(0, 7) == 0 ? double(g.range(-90, 90)) : g.uni(-90, 90);
  if (g.range(0, 9) == 0) lat = (g.coin() ? 1 : -1) * (90 - pow(10.0, -double(g.range(1, 10))));
  double lon0 = g.range(0, 2) == 0 ? 0 : g.uni(-540, 540), lon = lon0 + g.uni(-179.5, 179.5);
  bool north = g.coin();
  Rec r; r.str("e", "lim").str("lk", KN[kind]).i("fi", fi).i("k1q", vt::q1(k0, 1e-6L)).b("np", north).i("latq", udeg(lat));
  double e1 = 0, dl = Math::AngDiff(lon0, lon, e1); LD dlam = (LD)dl + e1;
  LD s, c; sincosdL(lat, s, c);
  r.i("dlq", udeg(dlam)).i("cosq", vt::q1(c, 1e-9L)).i("cnd", relq(ldexpl(1.0L, -52) / c));
  double x, y, gm, k; long long d = -1, dk = -1, dg = -1, dr = -1, drk = -1, drk0 = -1, drg = -1; bool fin = false; LD kk = 1;
  try {
    if (kind == 0) {
      LambertConformalConic L(el.a, el.f, north ? 90.0 : -90.0, k0); PolarStereographic P(el.a, el.f, k0);
      L.Forward(lon0, lat, lon, x, y, gm, k); fin = fin4(x, y, gm, k); kk = k;
      double x2, y2, g2, k2; P.Forward(north, lat, dl, x2, y2, g2, k2);
      d = relq(hypotl((LD)x - x2, (LD)y - y2) / k2 / E.a); dk = relq(fabsl((LD)k - k2) / k2 * c); dg = relq(fabsl(remainderl((LD)gm - g2, 360.0L)) * DEGL * c);
      double la, lo, la2, lo2; L.Reverse(lon0, x2, y2, la, lo, gm, k); P.Reverse(north, x2, y2, la2, lo2, g2, k2);
      lo2 = Math::AngNormalize(lo2 + Math::AngNormalize(lon0));
      dr = relq(E.dist(la2, lo2, la, lo) / E.a);
      // gamma, k returned by the two Reverse calls for the same point of the plane
      drk0 = relq(fabsl((LD)k - k2) / k2); drk = relq(fabsl((LD)k - k2) / k2 * c); drg = relq(fabsl(remainderl((LD)gm - g2, 360.0L)) * DEGL * c);
    } else if (kind == 1) {
      LambertConformalConic L(el.a, el.f, 0.0, k0); Ellipsoid EL(el.a, el.f);
      L.Forward(lon0, lat, lon, x, y, gm, k); fin = fin4(x, y, gm, k); kk = k;
      LD psi = (LD)EL.IsometricLatitude(lat) * DEGL;
      LD K = k0 * sqrtl(1 - E.e2 * s * s) / c;                       // Snyder 7-8
      d = relq(hypotl((LD)x - E.a * k0 * dlam * DEGL, (LD)y - E.a * k0 * psi) / K / E.a); dk = relq(fabsl((LD)k - K) / K * c); dg = relq(fabsl((LD)gm) * DEGL * c);
      dr = 0;
    } else {
      Ellipsoid EL(el.a, el.f);
      LD Rq2 = (LD)EL.Area() / (4 * PIL);
      LD xi = (LD)EL.AuthalicLatitude(lat), sx, cx; sincosdL(xi, sx, cx);
      LD X, Y, K, G;
      if (kind == 2) {
        AlbersEqualArea A(el.a, el.f, 0.0, k0); A.Forward(lon0, lat, lon, x, y, gm, k);
        X = E.a * k0 * dlam * DEGL; Y = Rq2 * sx / (E.a * k0); K = k0 * sqrtl(1 - E.e2 * s * s) / c; G = 0;
      } else {
        AlbersEqualArea A(el.a, el.f, north ? 90.0 : -90.0, k0); A.Forward(lon0, lat, lon, x, y, gm, k);
        LD sg = north ? 1 : -1;
        LD colat = 90.0L - sg * xi, rho = 2 * sqrtl(Rq2) * sinl(colat / 2 * DEGL) / k0, th = (LD)k0 * k0 * dlam;   // sqrt(2 (1 - sin xi)) = 2 sin(colat/2)
        LD st, ct; sincosdL(th, st, ct);
        X = rho * st; Y = -sg * rho * ct; G = sg * th;
        K = c == 0 ? (sg * lat > 0 ? (LD)k0 : INFINITY) : k0 * rho * k0 / (E.a * E.m(s, c));
      }
      fin = fin4(x, y, gm, k); kk = k;
      d = relq(truedist(ALB, (LD)x - X, (LD)y - Y, K, G) / E.a);
      dk = std::isfinite((double)K) ? relq(fabsl((LD)k - K) / K * c) : -1;
      dg = relq(fabsl((LD)gm - G) * DEGL * c);
      dr = 0;
    }
  } catch (const std::exception&) { fin = false; }
  LD amp = ldexpl(fmaxl(fabsl((LD)x), fabsl((LD)y)), -52) * (kind >= 2 ? fmaxl(fabsl(kk), 1 / fabsl(kk)) : 1 / fabsl(kk));
  r.b("fin", fin).i("amp", relq(amp / E.a)).i("gul", relq(ldexpl(fabsl((LD)gm), -52) * DEGL * c));
  r.i("d", d).i("dk", dk).i("dg", dg).i("dr", dr).i("drk", drk).i("drk0", drk0).i("drg", drg);
  r.str("in", hexin({el.a, el.f, k0, lon0, lat, lon}));
  r.emit();
}

// ------------------------------------------------------------------ SetScale ("ss")
static void ss_record(vt::Rng& g) {
  int fam = int(g.range(0, 2));
  Spec s = random_spec(g, fam);
  const Fam& el = family()[s.fi]; EllL E(el);
  double lats = g.range(0, 3) == 0 ? double(g.range(-89, 89)) : g.uni(-89.9, 89.9), ks = pickk(g);
  Rec r; r.str("e", "ss"); spec_fields(r, s); r.i("lsq", udeg(lats)).i("ksq", vt::q1(ks, 1e-6L));
  Obj o; string cres = guarded([&] { o = make(s); });
  if (cres != "ok") { r.str("out", "ctor-throw"); r.emit(); return; }
  double lat0 = o.lat0(), k0old = o.k0();
  // first a call from the classes the headers declare inadmissible (a pole, a latitude outside [-90, 90] or NaN, a scale that is
  // not positive), as lattice codes <<p, d>>, kc so that the specification computes the outcome for this object
  {
    static const long long BAD[10][3] = {{-90, 0, 2}, {90, 0, 2}, {91, 0, 2}, {-91, 0, 2}, {999, 0, 2}, {30, 0, 0}, {30, 0, -1}, {30, 0, 8}, {30, 0, 9}, {90, 1, 3}};
    const long long* bc = BAD[g.range(0, 9)];
    vector<uint64_t> before = observable(o);
    string bres = call_setscale(o, latcode(bc[0], int(bc[1])), int(bc[2]));
    vector<uint64_t> after = observable(o);
    r.li("bcall", {bc[0], bc[1], bc[2]}).str("bres", bres).b("bunch", before == after);
  }
  string sres = guarded([&] { if (fam == PS) o.ps->SetScale(lats, ks); else if (fam == LCC) o.lcc->SetScale(lats, ks); else o.alb->SetScale(lats, ks); });
  r.str("out", sres);
  if (sres == "ok") {
    double x, y, gm, k;
    // the scale at lats is ks (PS: SetScale refers to northp = true)
    if (fam == PS) o.ps->Forward(true, lats, 0, x, y, gm, k); else o.fwd(0, lats, 0, x, y, gm, k);
    r.i("ksr", relq(fabsl((LD)k - ks) / ks));
    r.b("lat0b", vt::bits(o.lat0()) == vt::bits(lat0));
    // "SetScale(lat, k) == constructing with the scale it implies": same constructor, k1' = k1 CentralScale'/CentralScale
    double k1n = s.k1 * (o.k0() / k0old);
    Obj b; string bres = guarded([&] { b = make(s.fam, s.ct, el, s.p1, s.p2, s.s1, s.c1, s.s2, s.c2, k1n, s.northp); });
    long long eqf = 2000000001LL, eqr = 2000000001LL, eqk = 2000000001LL, ampm = 0, cndm = 0;
    if (bres == "ok") {
      LD wf = 0, wr = 0, wk = fabsl((LD)b.k0() - o.k0()) / o.k0(), wa = 0, wc = 0;
      for (int j = 0; j < 3; ++j) {
        double lat = g.uni(-85, 85), lon0 = j == 0 ? 0 : g.uni(-180, 180), lon = lon0 + g.uni(-170, 170);
        double x1, y1, g1, k1v; o.fwd(lon0, lat, lon, x, y, gm, k); b.fwd(lon0, lat, lon, x1, y1, g1, k1v);
        if (fabs(gm) > 170) continue;
        wf = fmaxl(wf, truedist(fam, (LD)x1 - x, (LD)y1 - y, k, gm) / E.a);
        wk = fmaxl(wk, fabsl((LD)k1v - k) / k);
        double la, lo, la1, lo1; o.rev(lon0, x, y, la, lo, g1, k1v); b.rev(lon0, x, y, la1, lo1, g1, k1v);
        wr = fmaxl(wr, E.dist(la, lo, la1, lo1) / E.a);
        LD kk = fabsl((LD)k), sl, cl; sincosdL(lat, sl, cl);
        wa = fmaxl(wa, ldexpl(fmaxl(fabsl((LD)x), fabsl((LD)y)), -52) * (fam == ALB ? fmaxl(kk, 1 / kk) : 1 / kk) / E.a);
        wc = fmaxl(wc, ldexpl(1.0L, -52) / cl);
      }
      eqf = relq(wf); eqr = relq(wr); eqk = relq(wk); ampm = relq(wa); cndm = relq(wc);
    }
    r.str("bout", bres).i("eqf", eqf).i("eqr", eqr).i("eqk", eqk).i("amp", ampm).i("cnd", cndm);
  }
  r.str("in", hexin({el.a, el.f, s.p1, s.p2, s.s1, s.c1, s.s2, s.c2, s.k1, lats, ks}));
  r.emit();
}

// ------------------------------------------------------------------ static singletons ("sg")
static void sg_records(vt::Rng& g) {
  const double a = Constants::WGS84_a(), f = Constants::WGS84_f();
  for (int w = 0; w < 5; ++w) {
    static const char* WN[] = {"UPS", "Mercator", "CylindricalEqualArea", "AzimuthalEqualAreaNorth", "AzimuthalEqualAreaSouth"};
    bool same = true, insp = true, ovl = true;
    for (int j = 0; j < 8 && same; ++j) {
      double lat = j == 0 ? 90 : j == 1 ? -90 : j == 2 ? 0 : g.uni(-90, 90), lon = g.uni(-180, 180), lon0 = g.uni(-180, 180);
      double x, y, gm, k, x1, y1, g1, k1, la, lo, la1, lo1;
      if (w == 0) {
        PolarStereographic P(a, f, Constants::UPS_k0()); const PolarStereographic& S = PolarStereographic::UPS();
        bool np = g.coin(); S.Forward(np, lat, lon, x, y, gm, k); P.Forward(np, lat, lon, x1, y1, g1, k1); same = same && same4(x, y, gm, k, x1, y1, g1, k1);
        S.Reverse(np, x, y, la, lo, gm, k); P.Reverse(np, x, y, la1, lo1, g1, k1); same = same && same4(la, lo, gm, k, la1, lo1, g1, k1);
        { double xo, yo, lao, loo; S.Forward(np, lat, lon, xo, yo); S.Reverse(np, x, y, lao, loo); ovl = ovl && same4(xo, yo, lao, loo, x, y, la, lo); }
        insp = vt::bits(S.EquatorialRadius()) == vt::bits(a) && vt::bits(S.Flattening()) == vt::bits(f) && vt::bits(S.CentralScale()) == vt::bits(0.994);
      } else if (w == 1) {
        LambertConformalConic P(a, f, 0.0, 1.0); const LambertConformalConic& S = LambertConformalConic::Mercator();
        S.Forward(lon0, lat, lon, x, y, gm, k); P.Forward(lon0, lat, lon, x1, y1, g1, k1); same = same && same4(x, y, gm, k, x1, y1, g1, k1);
        S.Reverse(lon0, x, y, la, lo, gm, k); P.Reverse(lon0, x, y, la1, lo1, g1, k1); same = same && same4(la, lo, gm, k, la1, lo1, g1, k1);
        { double xo, yo, lao, loo; S.Forward(lon0, lat, lon, xo, yo); S.Reverse(lon0, x, y, lao, loo); ovl = ovl && same4(xo, yo, lao, loo, x, y, la, lo); }
        insp = vt::bits(S.EquatorialRadius()) == vt::bits(a) && vt::bits(S.Flattening()) == vt::bits(f) && S.OriginLatitude() == 0 && S.CentralScale() == 1;
      } else {
        double sl = w == 2 ? 0.0 : w == 3 ? 90.0 : -90.0;
        AlbersEqualArea P(a, f, sl, 1.0);
        const AlbersEqualArea& S = w == 2 ? AlbersEqualArea::CylindricalEqualArea() : w == 3 ? AlbersEqualArea::AzimuthalEqualAreaNorth() : AlbersEqualArea::AzimuthalEqualAreaSouth();
        S.Forward(lon0, lat, lon, x, y, gm, k); P.Forward(lon0, lat, lon, x1, y1, g1, k1); same = same && same4(x, y, gm, k, x1, y1, g1, k1);
        S.Reverse(lon0, x, y, la, lo, gm, k); P.Reverse(lon0, x, y, la1, lo1, g1, k1); same = same && same4(la, lo, gm, k, la1, lo1, g1, k1);
        { double xo, yo, lao, loo; S.Forward(lon0, lat, lon, xo, yo); S.Reverse(lon0, x, y, lao, loo); ovl = ovl && same4(xo, yo, lao, loo, x, y, la, lo); }
        insp = vt::bits(S.EquatorialRadius()) == vt::bits(a) && vt::bits(S.Flattening()) == vt::bits(f) && S.OriginLatitude() == sl && S.CentralScale() == 1;
      }
    }
    Rec r; r.str("e", "sg").str("which", WN[w]).b("same", same).b("insp", insp).b("ovl", ovl); r.emit();
  }
}

// vt::Rng(seed) starts the same splitmix64 counter sequence at offset seed, so consecutive seeds give the same stream shifted
// by one draw; hash the seed so that different seeds give unrelated samples.
static uint64_t mix64(uint64_t z) {
  z += 0x9E3779B97F4A7C15ULL; z = (z ^ (z >> 30)) * 0xBF58476D1CE4E5B9ULL; z = (z ^ (z >> 27)) * 0x94D049BB133111EBULL; return z ^ (z >> 31);
}
static void do_record(uint64_t seed, long long nobj) {
  vt::Rng g(mix64(seed));
  for (long long it = 0; it < nobj; ++it) {
    int fam = int(it % 3);
    Spec s = random_spec(g, fam);
    const Fam& el = family()[s.fi];
    Obj o; string cres = guarded([&] { o = make(s); });
    Oracle orc = oracle(s);
    LD orclat0 = orc.lat0();
    if (cres == "ok" && orc.twopar) orc.origin(o.lat0());
    ob_record(g, s, o, orc, orclat0, cres);
    if (cres != "ok") continue;
    for (int j = 0; j < 4; ++j) {
      PtIn p; p.fi = s.fi; p.lat = picklat(g, s, o);
      int w = int(g.range(0, 7));
      p.lon0 = w == 0 ? 0 : w == 1 ? double(g.range(-6, 6)) * 90 : g.uni(-540, 540);
      p.lon = w == 2 ? p.lon0 : w == 3 ? p.lon0 + double(g.range(-1, 1)) * 90 : w == 4 ? g.uni(-540, 540) : p.lon0 + g.uni(-179.5, 179.5);
      if (s.fam == PS && g.coin()) p.lon0 = 0;
      Rec r; r.str("e", "pt"); spec_fields(r, s); r.str("kf", kfclass(s, p.lat));
      pt_fields(r, o, orc, el, p, true);
      r.str("in", hexin({el.a, el.f, s.p1, s.p2, s.s1, s.c1, s.s2, s.c2, s.k1, p.lon0, p.lat, p.lon}));
      r.emit();
    }
    if (it % 4 == 0) lim_record(g);
    if (it % 4 == 1) ss_record(g);
  }
  sg_records(g);
}

// ------------------------------------------------------------------ replay of TLC vectors
static double kval(int c) { switch (c) { case 1: return 0.5; case 2: return 1; case 3: return 2; case 4: return 0.994; case 7: return 1; case 0: return 0; case -1: return -1; case 8: return INFINITY; default: return Math::NaN(); } }
static double fval(int c) { switch (c) { case 0: return 0; case 1: return 1 / 298.257223563; case 2: return -1.0 / 150; case 3: return 0.5; case 5: return 1; case 6: return 1.5; case 7: return -INFINITY; case 8: return INFINITY; default: return Math::NaN(); } }
static double aval(int c) { switch (c) { case 0: return 6378137; case 1: return 1; case 5: return 0; case 6: return -1; case 8: return INFINITY; default: return Math::NaN(); } }
static void sccode(int c, int ct, double& s, double& cs) {
  if (c >= -90 && c <= 90) Math::sincosd(double(c), s, cs);
  else switch (c) {
    case 100: s = 0; cs = 0; break; case 101: s = 0.5; cs = -0.5; break; case 102: s = 1.5; cs = 0; break;
    case 103: s = 0; cs = 1.5; break; case 104: s = 0.3; cs = 0.4; break;
    case 106: s = 0.5; cs = Math::NaN(); break; case 107: s = Math::NaN(); cs = Math::NaN(); break;
    case 108: s = INFINITY; cs = 0.5; break; case 109: s = 0.5; cs = INFINITY; break;
    case 110: s = -1.5; cs = 0; break; case 111: s = 0.5; cs = -INFINITY; break;
    default: s = Math::NaN(); cs = 1; break;      // 105
  }
  if (ct == 4 && ((c >= -90 && c <= 90) || c == 104)) { s *= 0.5; cs *= 0.5; }
}
static long long I(const string& t) { return atoll(t.c_str()); }
// a latitude of the lattice: Eps number <<p, d>> in degrees; p = 999 -> NaN, 998 -> +inf, -998 -> -inf
static double latcode(long long p, int d) { return p == 999 ? Math::NaN() : p == 998 ? INFINITY : p == -998 ? -INFINITY : vt::eps(p, d); }

static void do_ctor(const vector<string>& t) {
  string fam = t[1]; int ct = int(I(t[2])); long long p1 = I(t[3]), p2 = I(t[5]); int d1 = int(I(t[4])), d2 = int(I(t[6]));
  int kc = int(I(t[7])), fc = int(I(t[8])), ac = int(I(t[9]));
  Fam el{aval(ac), fval(fc)}; double k = kval(kc);
  int f = fam == "ps" ? PS : fam == "lcc" ? LCC : ALB;
  double s1 = 0, c1 = 1, s2 = 0, c2 = 1;
  if (ct >= 3) { sccode(int(p1), ct, s1, c1); sccode(int(p2), ct, s2, c2); }
  Obj o; string res = guarded([&] { o = make(f, ct >= 3 ? 3 : ct, el, latcode(p1, d1), latcode(p2, d2), s1, c1, s2, c2, k); });
  Rec r; r.str("e", "ctor").str("fam", fam).i("ct", ct).li("P1", {p1, d1}).li("P2", {p2, d2}).i("kc", kc).i("fc", fc).i("ac", ac).str("out", res);
  // known-finding input class (from the inputs only): LCC, two distinct parallels in degrees, one of them within 1e-12 degree of a
  // pole (not at it), f >= 1/2
  { double l1 = latcode(p1, d1), l2 = latcode(p2, d2), m = fmin(90 - fabs(l1), 90 - fabs(l2));
    r.str("kf", f == LCC && ct == 2 && el.f >= 0.5 && el.f < 1 && l1 != l2 && m > 0 && m <= 1e-12 ? "lcc-2par-within-1e-12deg-of-pole-f-ge-half" : "none"); }
  bool fin = false, insp = false;
  if (res == "ok") {
    double x, y, g, kk; o.fwd(0, 10, 20, x, y, g, kk); fin = fin4(x, y, g, kk) && kk > 0;
    insp = vt::bits(o.a()) == vt::bits(el.a) && vt::bits(o.f()) == vt::bits(el.f) && fabs(o.lat0()) <= 90 && o.k0() > 0;
  }
  r.b("fin", fin).b("insp", insp); r.emit();
}

// The objects that SetScale is called on in the lattice parts: WGS84, polar north / polar south / stdlat = 40,
// built with the scale kval(k0c) (0.5 or 0.994: values that no SetScale call of the lattice writes).
static Obj sets_object(int f, const string& pol, int k0c) {
  Fam el{6378137, 1 / 298.257223563};
  double sl = pol == "np" ? 90 : pol == "sp" ? -90 : 40;
  return make(f, 1, el, sl, sl, 0, 1, 0, 1, kval(k0c), true);
}
// one call; kc = 7: the scale argument is omitted (default argument)
static string call_setscale(Obj& o, double lat, int kc) {
  return guarded([&] { if (kc == 7) o.setscale(lat); else o.setscale(lat, kval(kc)); });
}
// relative error of the scale at lat against k (PS: SetScale refers to northp = true)
static long long scale_resid(const Obj& o, double lat, double k) {
  double x, y, g, kk; if (o.fam == PS) o.ps->Forward(true, lat, 0, x, y, g, kk); else o.fwd(0, lat, 0, x, y, g, kk);
  return relq(fabsl((LD)kk - k) / k);
}

// CentralScale is "the scale on the latitude of origin" / "at the pole" - also after SetScale: relative difference between
// k returned by Forward at OriginLatitude and CentralScale()
static long long central_resid(const Obj& o) {
  double x, y, g, kk; if (o.fam == PS) o.ps->Forward(true, 90, 0, x, y, g, kk); else o.fwd(0, o.lat0(), 0, x, y, g, kk);
  return relq(fabsl((LD)kk - o.k0()) / o.k0());
}

static void do_sets(const vector<string>& t) {
  string fam = t[1], pol = t[2]; long long p = I(t[3]); int d = int(I(t[4])), kc = int(I(t[5])), k0c = int(I(t[6]));
  int f = fam == "ps" ? PS : fam == "lcc" ? LCC : ALB;
  Obj o = sets_object(f, pol, k0c);
  double lat = latcode(p, d);
  vector<uint64_t> before = observable(o);
  string res = call_setscale(o, lat, kc);
  vector<uint64_t> after = observable(o);
  Rec r; r.str("e", "sets").str("fam", fam).str("pol", pol).li("lat", {p, d}).i("kc", kc).i("k0c", k0c).str("out", res);
  r.b("unch", before == after).b("lat0b", before[3] == after[3]);
  r.i("ksr", res == "ok" ? scale_resid(o, lat, kval(kc)) : -1).i("kcr", central_resid(o)); r.emit();
}

// A path of SetScale calls on one object: seq fam pol k0c mode n (p d kc ep ed ekc) x n.  After every call: the outcome, whether
// the observable state is bit for bit what it was before the call, whether the origin latitude is, and the residual of
// the scale the MODEL says is in force (ep ed ekc; 0 0 0 = the constructor's: compared bit for bit with a fresh object).
static void do_seq(const vector<string>& t) {
  string fam = t[1], pol = t[2]; int k0c = int(I(t[3])), mode = int(I(t[4])), n = int(I(t[5]));
  int f = fam == "ps" ? PS : fam == "lcc" ? LCC : ALB;
  Obj o = sets_object(f, pol, k0c);
  const vector<uint64_t> fresh = observable(o);
  vector<long long> outs, unch, lat0b, efr, kcr;
  string calls = "[", effs = "[";
  for (int j = 0; j < n; ++j) {
    long long p = I(t[6 + 6 * j]); int d = int(I(t[7 + 6 * j])), kc = int(I(t[8 + 6 * j]));
    long long ep = I(t[9 + 6 * j]); int ed = int(I(t[10 + 6 * j])), ekc = int(I(t[11 + 6 * j]));
    vector<uint64_t> before = observable(o);
    string res = call_setscale(o, latcode(p, d), kc);
    vector<uint64_t> after = observable(o);
    outs.push_back(res == "ok" ? 1 : res == "throw" ? 0 : 2);
    unch.push_back(before == after ? 1 : 0); lat0b.push_back(before[3] == after[3] ? 1 : 0);
    efr.push_back(ekc == 0 ? (after == fresh ? 0 : 2000000001LL) : scale_resid(o, latcode(ep, ed), kval(ekc)));
    kcr.push_back(central_resid(o));
    calls += string(j ? "," : "") + "[" + to_string(p) + "," + to_string(d) + "," + to_string(kc) + "]";
    effs += string(j ? "," : "") + "[" + to_string(ep) + "," + to_string(ed) + "," + to_string(ekc) + "]";
  }
  Rec r; r.str("e", "seq").str("fam", fam).str("pol", pol).i("k0c", k0c).i("mode", mode).raw("calls", calls + "]").raw("eff", effs + "]");
  r.li("out", outs).li("unch", unch).li("lat0b", lat0b).li("efr", efr).li("kcr", kcr); r.emit();
}

static Obj make_desc(const string& fam, int ct, long long p1, long long p2, int kc, const Fam& el) {
  int f = fam == "ps" ? PS : fam == "lcc" ? LCC : ALB;
  double s1 = 0, c1 = 1, s2 = 0, c2 = 1;
  if (ct >= 3) { sccode(int(p1), ct, s1, c1); sccode(int(p2), ct, s2, c2); }
  return make(f, ct >= 3 ? 3 : (ct == 0 ? 1 : ct), el, double(p1), double(p2), s1, c1, s2, c2, kval(kc), p1 > 0);
}

static void do_sym(const vector<string>& t) {
  // sym fam s m e u v kc p1 p2 lat lon lon0 p1' p2' s' lat' lon' lon0' a b c d sg rq
  string fam = t[1]; long long s = I(t[2]); vector<long long> g = {I(t[3]), I(t[4]), I(t[5]), I(t[6])}; int kc = int(I(t[7]));
  vector<long long> bin = {I(t[8]), I(t[9]), I(t[10]), I(t[11]), I(t[12])}, tin = {I(t[13]), I(t[14]), I(t[15]), I(t[16]), I(t[17]), I(t[18])};
  vector<long long> rep = {I(t[19]), I(t[20]), I(t[21]), I(t[22]), I(t[23]), I(t[24])};
  static const int FIS[] = {0, 8};
  for (int fi : FIS) {
    const Fam& el = family()[fi]; EllL E(el);
    Rec r; r.str("e", "sym").str("fam", fam).i("s", s).li("g", g).i("kc", kc).li("bin", bin).li("tin", tin).li("rep", rep).i("fi", fi);
    double x, y, gm, k, x2, y2, g2, k2, la = 0, lo = 0, gr = 0, kr = 0; bool ok = true;
    string res = guarded([&] {
      Obj a = make_desc(fam, fam == "ps" ? 0 : (bin[0] == bin[1] ? 1 : 2), fam == "ps" ? 90 * s : bin[0], fam == "ps" ? 90 * s : bin[1], kc, el);
      Obj b = make_desc(fam, fam == "ps" ? 0 : (tin[0] == tin[1] ? 1 : 2), fam == "ps" ? 90 * tin[2] : tin[0], fam == "ps" ? 90 * tin[2] : tin[1], kc, el);
      a.fwd(double(bin[4]), double(bin[2]), double(bin[3]), x, y, gm, k);
      b.fwd(double(tin[5]), double(tin[3]), double(tin[4]), x2, y2, g2, k2);
      // the inverse mapping under the same group element: the transformed object's Reverse of the transformed image (a signed
      // permutation of x, y: exact) is the transformed point, with the transformed gamma and the same k
      b.rev(double(tin[5]), double(rep[0] * x + rep[1] * y), double(rep[2] * x + rep[3] * y), la, lo, gr, kr);
    });
    ok = res == "ok" && fin4(x, y, gm, k) && fin4(x2, y2, g2, k2);
    LD xp = rep[0] * (LD)x + rep[1] * (LD)y, yp = rep[2] * (LD)x + rep[3] * (LD)y, gp = rep[4] * (LD)gm + 90.0L * rep[5];
    LD sl, cl; sincosdL(double(bin[2]), sl, cl);
    int f = fam == "ps" ? PS : fam == "lcc" ? LCC : ALB;
    LD kk = fabsl((LD)k2);
    r.str("out", res).b("fin", ok);
    r.i("d", ok ? relq(truedist(f, (LD)x2 - xp, (LD)y2 - yp, k2, g2) / E.a) : -1);
    r.i("dgm", ok ? relq(fabsl(remainderl((LD)g2 - gp, 360.0L)) * DEGL * cl) : -1);
    r.i("dkk", ok ? relq(fabsl((LD)k2 - k) / kk * cl) : -1);
    r.i("amp", ok ? relq(ldexpl(fmaxl(fabsl((LD)x2), fabsl((LD)y2)), -52) * (f == ALB ? fmaxl(kk, 1 / kk) : 1 / kk) / E.a) : 0);
    r.i("cnd", relq(ldexpl(1.0L, -52) / cl));
    bool rok = ok && fin4(la, lo, gr, kr);
    r.b("rfin", rok);
    r.i("rd", rok ? relq(E.dist(double(tin[3]), double(tin[4]), la, lo) / E.a) : -1);
    r.i("rdg", rok ? relq(fabsl(remainderl((LD)gr - gp, 360.0L)) * DEGL * cl) : -1);
    r.i("rdk", rok ? relq(fabsl((LD)kr - k) / fabsl((LD)k) * cl) : -1);
    r.emit();
  }
}

static void do_anc(const vector<string>& t) {
  // anc fam ct p1 p2 kc fi lat lon0 dl qty num den unit
  string fam = t[1]; int ct = int(I(t[2])); long long p1 = I(t[3]), p2 = I(t[4]); int kc = int(I(t[5])), fi = int(I(t[6]));
  long long lat = I(t[7]), lon0 = I(t[8]), dl = I(t[9]); string qty = t[10]; long long num = I(t[11]), den = I(t[12]); string unit = t[13];
  const Fam& el = family()[fi]; EllL E(el);
  double x = 0, y = 0, g = 0, k = 0, la2 = 0, lo2 = 0, g2 = 0, k2 = 0; bool ovl = false;
  string res = guarded([&] {
    Obj o = make_desc(fam, ct, p1, p2, kc, el); o.fwd(double(lon0), double(lat), double(lon0 + dl), x, y, g, k);
    o.rev(double(lon0), x, y, la2, lo2, g2, k2);                 // Reverse of the image: its k and gamma are held to the same anchor
    double xo, yo, lao, loo; o.fwd5(double(lon0), double(lat), double(lon0 + dl), xo, yo); o.rev5(double(lon0), x, y, lao, loo);
    ovl = vt::bits(xo) == vt::bits(x) && vt::bits(yo) == vt::bits(y) && vt::bits(lao) == vt::bits(la2) && vt::bits(loo) == vt::bits(lo2);
  });
  LD u = unit == "a" ? E.a : unit == "arc" ? E.a * DEGL : 1.0L;
  LD want = (LD)num / (LD)den, val = 0, resid = 0;
  long long rres = -1;
  if (qty == "k") rres = relq(fabsl((LD)k2 - want)); else if (qty == "kk") rres = relq(fabsl((LD)k2 * k2 - want));
  else if (qty == "g") rres = relq(fabsl(remainderl((LD)g2 - want, 360.0L)) * DEGL);
  if (qty == "x") val = x / u; else if (qty == "y") val = y / u; else if (qty == "xx") val = ((LD)x / E.a) * ((LD)x / E.a);
  else if (qty == "k") val = k; else if (qty == "kk") val = (LD)k * k; else val = g;
  resid = qty == "g" ? fabsl(remainderl(val - want, 360.0L)) * DEGL : fabsl(val - want);
  Rec r; r.str("e", "anc").str("fam", fam).i("ct", ct).i("p1", p1).i("p2", p2).i("kc", kc).i("fi", fi).i("lat", lat).i("lon0", lon0).i("dl", dl)
    .str("qty", qty).i("num", num).i("den", den).str("unit", unit).str("out", res).b("fin", fin4(x, y, g, k)).i("res", relq(resid));
  r.b("rfin", fin4(la2, lo2, g2, k2)).i("rres", rres).b("ovl", ovl);
  // known-finding input class (the same function of the inputs as for the random points)
  { Spec sp; sp.fam = fam == "ps" ? PS : fam == "lcc" ? LCC : ALB; sp.P1 = par_deg(double(p1)); sp.P2 = par_deg(double(ct == 1 ? p1 : p2)); r.str("kf", kfclass(sp, double(lat))); }
  r.emit();
}

static void do_eqv(const vector<string>& t) {
  // eqv famA ctA a1 a2 famB ctB b1 b2 kc
  string fa = t[1], fb = t[5]; int cta = int(I(t[2])), ctb = int(I(t[6])); long long a1 = I(t[3]), a2 = I(t[4]), b1 = I(t[7]), b2 = I(t[8]); int kc = int(I(t[9]));
  static const int FIS[] = {0, 8};
  static const double PTS[3][3] = {{17, 25, 3}, {-60, 100, 0}, {80, -140, 10}};
  for (int fi : FIS) {
    const Fam& el = family()[fi]; EllL E(el);
    LD wd = 0, wk = 0, wg = 0, wa = 0, wc = 0, wr = 0, wrk = 0, wrg = 0; long long dl0 = -1, dk0 = -1; bool fin = true;
    string res = guarded([&] {
      Obj A = make_desc(fa, cta, a1, a2, kc, el), B = make_desc(fb, ctb, b1, b2, kc, el);
      int f = A.fam;
      dl0 = fdeg(fabsl((LD)A.lat0() - B.lat0())); dk0 = relq(fabsl((LD)A.k0() - B.k0()) / A.k0());
      for (auto& P : PTS) {
        double x, y, g, k, x2, y2, g2, k2; A.fwd(P[2], P[0], P[1], x, y, g, k); B.fwd(P[2], P[0], P[1], x2, y2, g2, k2);
        fin = fin && fin4(x, y, g, k) && fin4(x2, y2, g2, k2);
        LD sl, cl; sincosdL(P[0], sl, cl); LD kk = fabsl((LD)k);
        wd = fmaxl(wd, truedist(f, (LD)x2 - x, (LD)y2 - y, k, g) / E.a);
        wk = fmaxl(wk, fabsl((LD)k2 - k) / kk * cl); wg = fmaxl(wg, fabsl(remainderl((LD)g2 - g, 360.0L)) * DEGL * cl);
        wa = fmaxl(wa, ldexpl(fmaxl(fabsl((LD)x), fabsl((LD)y)), -52) * (f == ALB ? fmaxl(kk, 1 / kk) : 1 / kk) / E.a);
        wc = fmaxl(wc, ldexpl(1.0L, -52) / cl);
        // Reverse of the same point of the plane by the two objects: position, gamma, k
        double la, lo, ga, ka, lb, lob, gb, kb; A.rev(P[2], x, y, la, lo, ga, ka); B.rev(P[2], x, y, lb, lob, gb, kb);
        fin = fin && fin4(la, lo, ga, ka) && fin4(lb, lob, gb, kb);
        wr = fmaxl(wr, E.dist(la, lo, lb, lob) / E.a);
        wrk = fmaxl(wrk, fabsl((LD)kb - ka) / fabsl((LD)ka) * cl); wrg = fmaxl(wrg, fabsl(remainderl((LD)gb - ga, 360.0L)) * DEGL * cl);
      }
    });
    Rec r; r.str("e", "eqv").str("fa", fa).i("cta", cta).i("a1", a1).i("a2", a2).str("fb", fb).i("ctb", ctb).i("b1", b1).i("b2", b2).i("kc", kc).i("fi", fi);
    r.str("out", res).b("fin", fin && res == "ok").i("d", relq(wd)).i("dk", relq(wk)).i("dg", relq(wg)).i("dl0", dl0).i("dk0", dk0).i("amp", relq(wa)).i("cnd", relq(wc));
    r.i("dr", relq(wr)).i("drk", relq(wrk)).i("drg", relq(wrg));
    r.emit();
  }
}

int main(int argc, char** argv) {
  vt::install_terminate();
  if (argc >= 2 && string(argv[1]) == "replay") {
    string line;
    while (getline(cin, line)) {
      auto t = vt::split(line); if (t.empty()) continue;
      if (t[0] == "ctor") do_ctor(t); else if (t[0] == "sets") do_sets(t); else if (t[0] == "sym") do_sym(t);
      else if (t[0] == "anc") do_anc(t); else if (t[0] == "eqv") do_eqv(t); else if (t[0] == "seq") do_seq(t);
    }
    return 0;
  }
  if (argc >= 4 && string(argv[1]) == "record") { do_record(strtoull(argv[2], 0, 10), atoll(argv[3])); return 0; }
  if (argc >= 16 && string(argv[1]) == "dbg") {   // dbg fam ct a f p1 p2 s1 c1 s2 c2 k1 lon0 lat lon np : library and closed form side by side
    Spec sp; sp.fam = atoi(argv[2]); sp.ct = atoi(argv[3]); Fam el{strtod(argv[4], 0), strtod(argv[5], 0)};
    sp.p1 = strtod(argv[6], 0); sp.p2 = strtod(argv[7], 0); sp.s1 = strtod(argv[8], 0); sp.c1 = strtod(argv[9], 0);
    sp.s2 = strtod(argv[10], 0); sp.c2 = strtod(argv[11], 0); sp.k1 = strtod(argv[12], 0);
    double lon0 = strtod(argv[13], 0), lat = strtod(argv[14], 0), lon = strtod(argv[15], 0); sp.northp = argc > 16 ? atoi(argv[16]) != 0 : true;
    if (sp.ct == 3) { sp.P1 = par_sc(sp.s1, sp.c1); sp.P2 = par_sc(sp.s2, sp.c2); } else { sp.P1 = par_deg(sp.p1); sp.P2 = par_deg(sp.p2); }
    Obj o = make(sp.fam, sp.ct, el, sp.p1, sp.p2, sp.s1, sp.c1, sp.s2, sp.c2, sp.k1, sp.northp);
    Oracle orc = sp.fam == PS ? Oracle::ps(el, sp.k1, sp.northp) : sp.fam == LCC ? Oracle::lcc(el, sp.P1, sp.P2, sp.k1) : Oracle::alb(el, sp.P1, sp.P2, sp.k1);
    double x, y, g, k; o.fwd(lon0, lat, lon, x, y, g, k);
    double e1 = 0, dl = Math::AngDiff(lon0, lon, e1); LD X, Y, G, K; bool ev = orc.fwd(lat, (LD)dl + e1, X, Y, G, K);
    printf("lib  x=%.17g y=%.17g g=%.17g k=%.17g lat0=%.17g k0=%.17g\n", x, y, g, k, o.lat0(), o.k0());
    printf("orc  x=%.21Lg y=%.21Lg g=%.21Lg k=%.21Lg lat0=%.21Lg n=%.21Lg ev=%d valid=%d\n", X, Y, G, K, orc.lat0(), orc.n, int(ev), int(orc.valid));
    return 0;
  }
  fprintf(stderr, "usage: drv_conic replay < vectors | record seed n\n"); return 2;
}
