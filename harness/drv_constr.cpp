// Driver for the constructions built on geodesics (C17): AzimuthalEquidistant, Gnomonic, CassiniSoldner,
// Intersect, NearestNeighbor.
//   replay          : executes vectors chosen by TLC (MC_GeodConstr): NearestNeighbor<int,int,metric> instances with the
//                     model's integer metrics, Intersect on the unit-degree sphere for lattice great circles
//   record S N      : seeded random law records (projections, intersections on ellipsoids, nearest neighbour with the
//                     geodesic metric and with integer-valued metrics)
// The driver only executes library calls and quantises residuals of fixed textbook constructions; every tolerance,
// applicability guard and accept/reject decision is in spec/Trace_GeodConstr.tla.
#include "trace.hpp"
#include <GeographicLib/AzimuthalEquidistant.hpp>
#include <GeographicLib/Gnomonic.hpp>
#include <GeographicLib/CassiniSoldner.hpp>
#include <GeographicLib/Intersect.hpp>
#include <GeographicLib/NearestNeighbor.hpp>
#include <GeographicLib/Geodesic.hpp>
#include <GeographicLib/GeodesicLine.hpp>
#include <GeographicLib/Ellipsoid.hpp>
#include <GeographicLib/Math.hpp>
#include <algorithm>
#include <map>
#include <sstream>

using namespace GeographicLib;
using namespace std;
using vt::Rec;
typedef long double LD;
typedef long long ll;
static const LD PIL = 3.14159265358979323846264338327950288L;
static const double RA = double(180.0L / PIL);
static const double AW = 6378137.0;

static ll g_dbg = -1;      // record id whose raw inputs / outputs are printed to stderr (debugging aid: drv_constr record S N ID)
#define DBG(id, ...) do { if ((id) == g_dbg) fprintf(stderr, __VA_ARGS__); } while (0)

template<class F> static string guarded(F f) {
  try { f(); return "ok"; }
  catch (const GeographicErr&) { return "throw"; }
  catch (const std::bad_alloc&) { return "badalloc"; }
  catch (const std::exception&) { return "other"; }
  catch (...) { return "other"; }
}

// ------------------------------------------------------------------ quantisation
// |v| / unit rounded up, clipped to 2e9; NaN -> 2000000001
static ll uq(LD v, LD unit) {
  if (std::isnan((double) v)) return 2000000001LL;
  LD q = ceill(fabsl(v) / unit); return q > 2.0e9L ? 2000000000LL : (ll) q;
}
// sign preserving, rounded away from zero (so that a tiny negative value stays negative)
static ll sq(LD v, LD unit) {
  if (std::isnan((double) v)) return 2000000001LL;
  LD q = ceill(fabsl(v) / unit); if (q > 2.0e9L) q = 2.0e9L;
  return v < 0 ? -(ll) q : (ll) q;
}
static int sgn(double v) { return v > 0 ? 1 : v < 0 ? -1 : 0; }
static string jl(const vector<ll>& v) { string s = "["; for (size_t i = 0; i < v.size(); ++i) { if (i) s += ","; s += to_string(v[i]); } return s + "]"; }
static string jll(const vector<vector<ll> >& v) { string s = "["; for (size_t i = 0; i < v.size(); ++i) { if (i) s += ","; s += jl(v[i]); } return s + "]"; }

struct V3 { LD x, y, z; };
static V3 cart(double a, double f, double lat, double lon) {     // closed-form geodetic -> cartesian on the ellipsoid (h = 0)
  LD e2 = (LD)f * (2 - (LD)f), sl = sinl(lat * PIL / 180), cl = cosl(lat * PIL / 180);
  if (fabs(lat) == 90) cl = 0;
  LD n = (LD)a / sqrtl(1 - e2 * sl * sl);
  return { n * cl * cosl(lon * PIL / 180), n * cl * sinl(lon * PIL / 180), n * (1 - e2) * sl };
}
static LD chord(const V3& p, const V3& q) { return sqrtl((p.x - q.x) * (p.x - q.x) + (p.y - q.y) * (p.y - q.y) + (p.z - q.z) * (p.z - q.z)); }
static LD chordll(double a, double f, double lat1, double lon1, double lat2, double lon2) { return chord(cart(a, f, lat1, lon1), cart(a, f, lat2, lon2)); }
// unit vector of the heading azi at (lat, lon): east-north frame of the geodetic normal
static V3 tangent(double lat, double lon, double azi) {
  LD sl = sinl(lat * PIL / 180), cl = cosl(lat * PIL / 180), so = sinl(lon * PIL / 180), co = cosl(lon * PIL / 180), sa = sinl(azi * PIL / 180), ca = cosl(azi * PIL / 180);
  if (fabs(lat) == 90) cl = 0;
  V3 e = {-so, co, 0}, n = {-sl * co, -sl * so, cl};
  return { sa * e.x + ca * n.x, sa * e.y + ca * n.y, sa * e.z + ca * n.z };
}
static LD sind_(LD x) { return sinl(x * PIL / 180); }
static LD cosd_(LD x) { return cosl(x * PIL / 180); }
static double angdiff(double a, double b) { return Math::AngDiff(a, b); }

// ------------------------------------------------------------------ ellipsoid family (series solver at full accuracy)
static const double FS[] = {0, 1 / 298.257223563, -1 / 298.257223563, 1 / 150.0, -1 / 150.0, 0.01, -0.01, 0.02, -0.02};
static const int NF = 9;
static const double AS[] = {AW, 6.4e6, 1.0, RA};
static const int NA = 4;

struct Earth {
  int fi, ai; double a, f, b, sc, minr; Geodesic g; Ellipsoid ell;
  Earth(int fi_, int ai_) : fi(fi_), ai(ai_), a(AS[ai_]), f(FS[fi_]), b(a * (1 - f)), sc(AW / a), minr(min(a, b)), g(a, f), ell(a, f) {}
};

// a random point with over-sampled special latitudes / longitudes
static void rpoint(vt::Rng& g, double& lat, double& lon) {
  lat = asin(g.uni(-1, 1)) * 180 / double(PIL); lon = g.uni(-180, 180);
  int w = int(g.range(0, 19));
  if (w == 0) lat = g.coin() ? 90 : -90; if (w == 1) lat = 0; if (w == 2) lon = 90.0 * double(g.range(-2, 2));
  if (w == 3) lat = g.uni(-90, 90); if (w == 4) { lat = (g.coin() ? 1 : -1) * (90 - pow(10.0, g.uni(-12, 0))); }
  if (w == 5) lon = g.uni(-540, 540); if (w == 6) lat = double(g.range(-90, 90));
}

// ================================================================== projections
// Observations common to the three projections:
//   Forward(point)            -> (x, y, azi, rk)        compared with the geodesic quantities the class documentation names
//   Reverse(x, y) of that     -> closure on the ellipsoid (chord, nm at WGS84 scale)
//   Reverse(xi, yi) independent, compared with the documented construction, then Forward -> closure in the plane
// Lengths are nm at WGS84 scale (multiplied by 6378137 / a); azimuth differences 1e-12 degree; scale differences 1e-15.
static ll poleq(double lat) { return uq(90 - fabs(lat), 1e-9L); }
// bit-for-bit equality of output tuples (NaN payloads included)
static bool sameb(std::initializer_list<double> a, std::initializer_list<double> b) {
  if (a.size() != b.size()) return false;
  auto i = a.begin(), j = b.begin(); for (; i != a.end(); ++i, ++j) if (vt::bits(*i) != vt::bits(*j)) return false;
  return true;
}
// Agreement laws over the whole family of entry points of one projection class.  For one set of inputs every member of the family
// is executed: the overloads without azi / rk, an object that has served other centres before (kept alive across records), and
// - when the ellipsoid is WGS84 - the object made by the default constructor argument.  Logged: whether each reproduces the general
// call on a fresh object bit for bit.
template<class P> struct Family {
  map<pair<int, int>, P*> lived; P dflt;
  P& old(const Earth& E) { auto k = make_pair(E.fi, E.ai); auto it = lived.find(k); if (it == lived.end()) it = lived.insert(make_pair(k, new P(E.g))).first; return *it->second; }
};
template<class P> static void family_fwd(Family<P>& F, const Earth& E, const P& fresh, double lat0, double lon0, double lat, double lon,
                                         double x, double y, double azi, double rk, const string& out, bool& ov, bool& lived, bool& dflt) {
  double xs = vt::sentinel(1), ys = vt::sentinel(2);
  string o1 = guarded([&] { fresh.Forward(lat0, lon0, lat, lon, xs, ys); });
  ov = o1 == out && sameb({x, y}, {xs, ys});
  double a = vt::sentinel(1), b = vt::sentinel(2), c = vt::sentinel(3), d = vt::sentinel(4);
  string o2 = guarded([&] { F.old(E).Forward(lat0, lon0, lat, lon, a, b, c, d); });
  lived = o2 == out && sameb({x, y, azi, rk}, {a, b, c, d});
  a = vt::sentinel(1); b = vt::sentinel(2); c = vt::sentinel(3); d = vt::sentinel(4);
  string o3 = guarded([&] { F.dflt.Forward(lat0, lon0, lat, lon, a, b, c, d); });
  dflt = o3 == out && sameb({x, y, azi, rk}, {a, b, c, d});
}
template<class P> static void family_rev(Family<P>& F, const Earth& E, const P& fresh, double lat0, double lon0, double x, double y,
                                         double lat, double lon, double azi, double rk, const string& out, bool& ov, bool& lived, bool& dflt) {
  double ls = 0, os = 0;
  string o1 = guarded([&] { fresh.Reverse(lat0, lon0, x, y, ls, os); });
  ov = o1 == out && sameb({lat, lon}, {ls, os});
  double a = 0, b = 0, c = 0, d = 0;
  string o2 = guarded([&] { F.old(E).Reverse(lat0, lon0, x, y, a, b, c, d); });
  lived = o2 == out && sameb({lat, lon, azi, rk}, {a, b, c, d});
  a = b = c = d = 0;
  string o3 = guarded([&] { F.dflt.Reverse(lat0, lon0, x, y, a, b, c, d); });
  dflt = o3 == out && sameb({lat, lon, azi, rk}, {a, b, c, d});
}

// AzimuthalEquidistant
static void rec_az(vt::Rng& g, ll id) {
  Earth E(int(g.range(0, NF - 1)), int(g.range(0, NA - 1)));
  AzimuthalEquidistant P(E.g);
  double lat0, lon0, lat, lon; rpoint(g, lat0, lon0); rpoint(g, lat, lon);
  int w = int(g.range(0, 11));
  if (w == 0) { lat = lat0; lon = lon0; }                                               // the centre itself
  if (w == 1) { lat = -lat0 + g.uni(-1, 1) * pow(10.0, g.uni(-9, 0)); lon = lon0 + 180 + g.uni(-1, 1) * pow(10.0, g.uni(-9, 0)); }   // near the antipode
  if (w == 2) { lat = lat0 + g.uni(-1, 1) * pow(10.0, g.uni(-9, -1)); lon = lon0 + g.uni(-1, 1) * pow(10.0, g.uni(-9, -1)); } // very close
  if (w == 3) { lon = lon0; } if (w == 4) { lat0 = 0; lat = 0; }
  if (fabs(lat) > 90) lat = lat > 0 ? 90 : -90;
  bool centre = lat == Math::LatFix(lat0) && angdiff(lon0, lon) == 0;
  double x = vt::sentinel(1), y = vt::sentinel(2), azi = vt::sentinel(3), rk = vt::sentinel(4);
  string out = guarded([&] { P.Forward(lat0, lon0, lat, lon, x, y, azi, rk); });
  static Family<AzimuthalEquidistant> FAM; bool ov[3], lv[3], df[3];
  family_fwd(FAM, E, P, lat0, lon0, lat, lon, x, y, azi, rk, out, ov[0], lv[0], df[0]);
  double s12, a1, a2, m12, M12, M21, S12;
  E.g.GenInverse(lat0, lon0, lat, lon, Geodesic::ALL, s12, a1, a2, m12, M12, M21, S12);
  LD half = PIL * E.minr;
  Rec r; r.str("e", "az").i("id", id).i("fi", E.fi).i("ai", E.ai).str("out", out).i("pl0", poleq(lat0)).i("pl", poleq(lat));
  r.i("sr", uq(s12 / half, 1e-6L));                            // distance / (pi min(a,b)) in ppm
  r.i("dpos", uq(hypotl((LD)x - (LD)s12 * sind_(a1), (LD)y - (LD)s12 * cosd_(a1)) * E.sc, 1e-9L));
  r.i("dhyp", uq((hypotl((LD)x, (LD)y) - (LD)s12) * E.sc, 1e-9L));
  r.i("ddir", uq((LD)s12 * sind_(angdiff(Math::atan2d(x, y), a1)) * E.sc, 1e-9L));   // direction of (x, y) against azi1, as a displacement
  r.i("dazi", uq(angdiff(azi, a2), 1e-12L));
  r.i("drk", uq((LD)rk - (s12 > 0 ? (LD)m12 / (LD)s12 : 1.0L), 1e-15L));
  // Forward then Reverse; the Reverse outputs against Direct(centre, atan2(x, y), hypot(x, y))
  double la = 0, lo = 0, az2 = 0, rk2 = 0;
  string rout = guarded([&] { P.Reverse(lat0, lon0, x, y, la, lo, az2, rk2); });
  family_rev(FAM, E, P, lat0, lon0, x, y, la, lo, az2, rk2, rout, ov[1], lv[1], df[1]);
  double sr_ = hypot(x, y), lar, lor, azr, mr; E.g.Direct(lat0, lon0, Math::atan2d(x, y), sr_, lar, lor, azr, mr);
  r.str("rout", rout).i("rt", uq(chordll(E.a, E.f, lat, lon, la, lo) * E.sc, 1e-9L)).b("rng", fabs(la) <= 90 && fabs(lo) <= 180);
  r.i("rdpos", uq(chordll(E.a, E.f, lar, lor, la, lo) * E.sc, 1e-9L)).i("rdazi", uq(angdiff(az2, azr), 1e-12L));
  r.i("rdrk", uq((LD)rk2 - (sr_ > 0 ? (LD)mr / (LD)sr_ : 1.0L), 1e-15L));
  // Reverse then Forward for an independent (x, y)
  double rad = g.uni(0, 1.2) * double(half); if (g.range(0, 5) == 0) rad = pow(10.0, g.uni(-6, 7)) / E.sc;
  double th = g.uni(-180, 180); if (g.range(0, 5) == 0) th = 90.0 * double(g.range(-2, 2));
  double xi = rad * double(sind_(th)), yi = rad * double(cosd_(th));
  int w2 = int(g.range(0, 15)); if (w2 == 0) { xi = 0; yi = 0; } if (w2 == 1) { xi = 0; yi = -0.0; } if (w2 == 2) { xi = -0.0; yi = 0; }
  double lb = 0, lob = 0, azb = 0, rkb = 0, xo = 0, yo = 0, azo = 0, rko = 0;
  string r2 = guarded([&] { P.Reverse(lat0, lon0, xi, yi, lb, lob, azb, rkb); P.Forward(lat0, lon0, lb, lob, xo, yo, azo, rko); });
  family_rev(FAM, E, P, lat0, lon0, xi, yi, lb, lob, azb, rkb, r2, ov[2], lv[2], df[2]);
  double si = hypot(xi, yi), lbr, lobr, azbr, mbr; E.g.Direct(lat0, lon0, Math::atan2d(xi, yi), si, lbr, lobr, azbr, mbr);
  r.str("r2", r2).i("rr", uq((LD)si / half, 1e-6L)).i("plb", poleq(lbr));
  r.i("r2dpos", uq(chordll(E.a, E.f, lbr, lobr, lb, lob) * E.sc, 1e-9L)).i("r2dazi", uq(angdiff(azb, azbr), 1e-12L));
  r.i("r2drk", uq((LD)rkb - (si > 0 ? (LD)mbr / (LD)si : 1.0L), 1e-15L)).b("r2rng", fabs(lb) <= 90 && fabs(lob) <= 180);
  { LD ex = (LD)xo - xi, ey = (LD)yo - yi, ux = sind_(th), uy = cosd_(th);      // radial 1:1, transverse scaled by rk (displacement on the ellipsoid)
    r.i("dxy", uq(hypotl(ex * ux + ey * uy, (ex * uy - ey * ux) * (LD)rkb) * E.sc, 1e-9L)); }
  r.b("ovl", ov[0] && ov[1] && ov[2]).b("lived", lv[0] && lv[1] && lv[2]).b("dflt", df[0] && df[1] && df[2]);
  r.b("insp", vt::bits(P.EquatorialRadius()) == vt::bits(E.a) && vt::bits(P.Flattening()) == vt::bits(E.f));
  r.str("kf", "none"); (void) centre;
  r.emit();
}

// Gnomonic
static void rec_gn(vt::Rng& g, ll id) {
  Earth E(int(g.range(0, NF - 1)), int(g.range(0, NA - 1)));
  Gnomonic P(E.g);
  double lat0, lon0, lat, lon; rpoint(g, lat0, lon0);
  int w = int(g.range(0, 11));       // points mostly inside the horizon (random azimuth and distance), sometimes anywhere
  if (w <= 7) {
    double d = g.uni(0, 0.55) * PIL * E.minr; if (w == 0) d = pow(10.0, g.uni(-6, 6)) / E.sc; if (w == 1) d = (0.5 + g.uni(-1, 1) * pow(10.0, g.uni(-9, -1))) * PIL * E.minr;
    double az = g.uni(-180, 180); if (w == 2) az = 90.0 * double(g.range(-2, 2));
    E.g.Direct(lat0, lon0, az, d, lat, lon);
  } else rpoint(g, lat, lon);
  if (w == 8) { lat = Math::LatFix(lat0); lon = lon0; }
  double x = vt::sentinel(1), y = vt::sentinel(2), azi = vt::sentinel(3), rk = vt::sentinel(4);
  string out = guarded([&] { P.Forward(lat0, lon0, lat, lon, x, y, azi, rk); });
  static Family<Gnomonic> FAM; bool ov[3] = {true, true, true}, lv[3] = {true, true, true}, df[3] = {true, true, true};
  family_fwd(FAM, E, P, lat0, lon0, lat, lon, x, y, azi, rk, out, ov[0], lv[0], df[0]);
  double s12, a1, a2, m12, M12, M21, S12;
  E.g.GenInverse(lat0, lon0, lat, lon, Geodesic::ALL, s12, a1, a2, m12, M12, M21, S12);
  Rec r; r.str("e", "gn").i("id", id).i("fi", E.fi).i("ai", E.ai).str("out", out).i("pl0", poleq(lat0)).i("pl", poleq(lat));
  r.i("hz", sgn(M12)).i("Mq", sq(M12, 1e-9L)).b("nanxy", std::isnan(x) && std::isnan(y)).b("anynan", std::isnan(x) || std::isnan(y));
  r.b("aznan", std::isnan(azi) || std::isnan(rk));
  LD rho = (LD)m12 / (LD)M12;
  // residual in the plane converted to a displacement on the ellipsoid (d rho / ds = 1 / M12^2)
  r.i("dpos", uq(hypotl((LD)x - rho * sind_(a1), (LD)y - rho * cosd_(a1)) * (LD)M12 * M12 * E.sc, 1e-9L));
  r.i("dazi", uq(angdiff(azi, a2), 1e-12L)).i("drk", uq((LD)rk - M12, 1e-15L));
  double la = 0, lo = 0, az2 = 0, rk2 = 0; string rout = "none";
  if (out == "ok" && !std::isnan(x) && !std::isnan(y)) {
    rout = guarded([&] { P.Reverse(lat0, lon0, x, y, la, lo, az2, rk2); });
    family_rev(FAM, E, P, lat0, lon0, x, y, la, lo, az2, rk2, rout, ov[1], lv[1], df[1]);
    r.i("rt", uq(chordll(E.a, E.f, lat, lon, la, lo) * E.sc, 1e-9L)).b("rtnan", std::isnan(la) || std::isnan(lo) || std::isnan(az2) || std::isnan(rk2));
    r.b("rng", std::isnan(la) || (fabs(la) <= 90 && fabs(lo) <= 180));
  } else r.i("rt", -1).b("rtnan", false).b("rng", true);
  r.str("rout", rout);
  // Reverse then Forward for an independent (x, y); radius log-uniform in [1e-9 a, 1e4 a] or uniform in [0, 3 a]
  double rad = E.a * pow(10.0, g.uni(-9, 4)); if (g.coin()) rad = E.a * g.uni(0, 3);
  double th = g.uni(-180, 180); if (g.range(0, 5) == 0) th = 90.0 * double(g.range(-2, 2));
  double xi = rad * double(sind_(th)), yi = rad * double(cosd_(th));
  if (g.range(0, 15) == 0) { xi = 0; yi = g.coin() ? 0.0 : -0.0; rad = 0; }
  double lb = 0, lob = 0, azb = 0, rkb = 0, xo = 0, yo = 0, azo = 0, rko = 0;
  string r2 = guarded([&] { P.Reverse(lat0, lon0, xi, yi, lb, lob, azb, rkb); P.Forward(lat0, lon0, lb, lob, xo, yo, azo, rko); });
  family_rev(FAM, E, P, lat0, lon0, xi, yi, lb, lob, azb, rkb, r2, ov[2], lv[2], df[2]);
  r.b("ovl", ov[0] && ov[1] && ov[2]).b("lived", lv[0] && lv[1] && lv[2]).b("dflt", df[0] && df[1] && df[2]);
  r.b("insp", vt::bits(P.EquatorialRadius()) == vt::bits(E.a) && vt::bits(P.Flattening()) == vt::bits(E.f));
  r.str("r2", r2).i("rr", uq((LD)rad / E.a, 1e-3L)).b("r2nan", std::isnan(lb) || std::isnan(lob) || std::isnan(azb) || std::isnan(rkb));
  r.b("r2allnan", std::isnan(lb) && std::isnan(lob) && std::isnan(azb) && std::isnan(rkb)).i("plb", poleq(lb)).b("r2rng", std::isnan(lb) || (fabs(lb) <= 90 && fabs(lob) <= 180));
  // the point returned by Reverse lies on the geodesic leaving the centre with azimuth atan2(x, y); its azimuth and scale are those of
  // the geodesic centre -> point
  double sb, ab1, ab2, mb, Mb, Mb21, Sb; E.g.GenInverse(lat0, lon0, lb, lob, Geodesic::ALL, sb, ab1, ab2, mb, Mb, Mb21, Sb);
  r.i("r2dir", uq((LD)mb * sind_(angdiff(Math::atan2d(xi, yi), ab1)) * E.sc, 1e-9L)).i("r2dazi", uq((LD)fabs(mb) * sind_(angdiff(azb, ab2)) * E.sc, 1e-9L)).i("r2drk", uq((LD)rkb - Mb, 1e-15L));
  r.i("dxy", uq(hypotl((LD)xo - xi, (LD)yo - yi) * (LD)rkb * rkb * E.sc, 1e-9L));
  r.emit();
}

// CassiniSoldner
// The object is stateful (Reset).  Every record builds its object through a HISTORY chosen by the seed - constructor form x a
// sequence of earlier origins x the final Reset(lat0, lon0) - and all observations are made on that object; `fresh` logs whether
// every output is bit-identical to the one of the freshly constructed CassiniSoldner(lat0, lon0, earth).
//   hist = [constructor form (0: CassiniSoldner(earth) + Reset, 1: CassiniSoldner(lat, lon, earth)), codes of the earlier origins]
//   codes: 1 same meridian, other latitude; 2 same latitude, other meridian; 3 identical; 4 a pole on the same meridian;
//          5 unrelated; 6 same latitude, longitude + 360; 7 same latitude, opposite meridian
struct CsOut { string out; double v[4]; };
static CsOut cs_fwd(const CassiniSoldner& P, double lat, double lon) {
  CsOut o; for (int i = 0; i < 4; ++i) o.v[i] = vt::sentinel(i + 1);
  o.out = guarded([&] { P.Forward(lat, lon, o.v[0], o.v[1], o.v[2], o.v[3]); }); return o;
}
static CsOut cs_rev(const CassiniSoldner& P, double x, double y) {
  CsOut o; for (int i = 0; i < 4; ++i) o.v[i] = vt::sentinel(i + 1);
  o.out = guarded([&] { P.Reverse(x, y, o.v[0], o.v[1], o.v[2], o.v[3]); }); return o;
}
static bool cs_same(const CsOut& a, const CsOut& b) { return a.out == b.out && sameb({a.v[0], a.v[1], a.v[2], a.v[3]}, {b.v[0], b.v[1], b.v[2], b.v[3]}); }
static bool cs_untouched(const CsOut& a) { return a.out == "ok" && vt::is_sentinel(a.v[0], 1) && vt::is_sentinel(a.v[1], 2) && vt::is_sentinel(a.v[2], 3) && vt::is_sentinel(a.v[3], 4); }

static void rec_cs(vt::Rng& g, ll id) {
  Earth E(int(g.range(0, NF - 1)), int(g.range(0, NA - 1)));
  double lat0, lon0, lat, lon; rpoint(g, lat0, lon0); rpoint(g, lat, lon);
  int w = int(g.range(0, 11));
  if (w == 0) lon = lon0; if (w == 1) lon = lon0 + 180; if (w == 2) { lat = Math::LatFix(lat0); lon = lon0; }
  if (w == 3) lon = lon0 + (g.coin() ? 1 : -1) * (90 + g.uni(-1, 1) * pow(10.0, g.uni(-9, 0)));
  if (w == 4) lon = lon0 + g.uni(-1, 1) * pow(10.0, g.uni(-9, 0));
  // the history
  vector<ll> hist; int form = int(g.range(0, 1)), nh = int(g.range(0, 3)); if (g.range(0, 3) == 0) nh = 0;
  hist.push_back(form);
  vector<pair<double, double> > origins;
  for (int i = 0; i < nh; ++i) {
    int code = int(g.range(1, 7)); double la = lat0, lo = lon0;
    if (code == 1) la = g.uni(-90, 90); if (code == 2) lo = g.uni(-180, 180); if (code == 4) la = g.coin() ? 90 : -90;
    if (code == 5) rpoint(g, la, lo); if (code == 6) lo = lon0 + (g.coin() ? 360 : -360); if (code == 7) lo = lon0 + 180;
    hist.push_back(code); origins.push_back(make_pair(la, lo));
  }
  origins.push_back(make_pair(lat0, lon0));
  CassiniSoldner* Pp = nullptr; size_t first = 0;
  string hout = guarded([&] {
    if (form == 0) Pp = new CassiniSoldner(E.g); else { Pp = new CassiniSoldner(origins[0].first, origins[0].second, E.g); first = 1; }
    for (size_t i = first; i < origins.size(); ++i) Pp->Reset(origins[i].first, origins[i].second);
  });
  if (!Pp) Pp = new CassiniSoldner(lat0, lon0, E.g);
  const CassiniSoldner& P = *Pp;
  CassiniSoldner F(lat0, lon0, E.g);                       // the freshly constructed object
  CassiniSoldner U(E.g);                                   // "uninitialized": Forward and Reverse do nothing
  double x = vt::sentinel(1), y = vt::sentinel(2), azi = vt::sentinel(3), rk = vt::sentinel(4);
  string out = guarded([&] { P.Forward(lat, lon, x, y, azi, rk); });
  bool fresh = hout == "ok" && cs_same(cs_fwd(P, lat, lon), cs_fwd(F, lat, lon)) && P.Init() == F.Init()
    && sameb({P.LatitudeOrigin(), P.LongitudeOrigin(), P.EquatorialRadius(), P.Flattening()}, {F.LatitudeOrigin(), F.LongitudeOrigin(), F.EquatorialRadius(), F.Flattening()});
  bool uninit = !U.Init() && cs_untouched(cs_fwd(U, lat, lon));
  // the overloads without azi / rk, and the object made with the default ellipsoid argument
  bool ovl = true, dflt = true;
  { double xs = vt::sentinel(1), ys = vt::sentinel(2); string o1 = guarded([&] { P.Forward(lat, lon, xs, ys); }); ovl = ovl && o1 == out && sameb({x, y}, {xs, ys}); }
  static CassiniSoldner* D0 = new CassiniSoldner(); CassiniSoldner D1(lat0, lon0);
  guarded([&] { D0->Reset(lat0, lon0); });
  dflt = dflt && cs_same(cs_fwd(*D0, lat, lon), cs_fwd(P, lat, lon)) && cs_same(cs_fwd(D1, lat, lon), cs_fwd(P, lat, lon));
  LD Q = E.ell.QuarterMeridian();
  Rec r; r.str("e", "cs").i("id", id).i("fi", E.fi).i("ai", E.ai).str("out", out).b("init", P.Init()).i("pl0", poleq(lat0)).i("pl", poleq(lat));
  r.li("hist", hist);
  r.b("org", vt::bits(P.LatitudeOrigin()) == vt::bits(Math::LatFix(lat0)) && fabs(angdiff(P.LongitudeOrigin(), lon0)) == 0);
  r.b("insp", vt::bits(P.EquatorialRadius()) == vt::bits(E.a) && vt::bits(P.Flattening()) == vt::bits(E.f));
  // the documented construction: north along the central meridian by y, turn clockwise 90 degrees, go x
  double lat1, lon1, azm; E.g.Direct(lat0, lon0, 0.0, y, lat1, lon1, azm);
  double lat2, lon2, azd, M12d, M21d; E.g.Direct(lat1, lon1, azm + 90, x, lat2, lon2, azd, M12d, M21d);
  r.i("dend", uq(chordll(E.a, E.f, lat, lon, lat2, lon2) * E.sc, 1e-9L));
  // the foot is the closest point of the meridian: distance and perpendicularity from the inverse problem foot -> point
  double s, aA, aB, m12, M12, M21, S12;
  E.g.GenInverse(lat1, lon1, lat, lon, Geodesic::ALL, s, aA, aB, m12, M12, M21, S12);
  r.i("dx", uq(((LD)fabs(x) - s) * E.sc, 1e-9L)).i("dperp", uq((LD)s * cosd_(angdiff(azm, aA)) * E.sc, 1e-9L));
  // azimuth of the easting direction and reciprocal northing scale: those of the perpendicular geodesic at the point
  r.i("dazi", uq((LD)fabs(m12) * sind_(angdiff(azi, azd)) * E.sc, 1e-9L)).i("dazia", uq(angdiff(azi, azd), 1e-12L)).i("drk", uq((LD)rk - M12d, 1e-15L));
  // on the (full) central meridian itself, x = 0 exactly, the easting direction is the heading of the construction turned by 90
  // degrees and the northing scale is unity
  r.b("xz", x == 0).i("drk1", uq((LD)rk - 1, 1e-15L));
  r.i("xq", uq((LD)fabs(x) / Q, 1e-6L)).i("yq", uq((LD)fabs(y) / Q, 1e-6L));
  // y is the meridian distance of the foot (Ellipsoid::MeridianDistance, independent code); over a pole when the foot lies
  // on the opposite meridian
  bool same = fabs(angdiff(lon1, lon0)) <= 90 || fabs(lat1) == 90;
  LD mu1 = E.ell.MeridianDistance(lat1), mu0 = E.ell.MeridianDistance(Math::LatFix(lat0));
  LD best = 1e300L;
  for (int k = -1; k <= 1; ++k) {
    if (same) best = min(best, fabsl((LD)y - (mu1 - mu0 + 4 * Q * k)));
    else { best = min(best, fabsl((LD)y - (2 * Q - mu1 - mu0 + 4 * Q * k))); best = min(best, fabsl((LD)y - (-2 * Q - mu1 - mu0 + 4 * Q * k))); }
  }
  r.i("dy", uq(best * E.sc, 1e-9L)).b("yrng", fabsl((LD)y) <= 2 * Q * (1 + 1e-12L));
  // Forward then Reverse
  double la = 0, lo = 0, az2 = 0, rk2 = 0;
  string rout = guarded([&] { P.Reverse(x, y, la, lo, az2, rk2); });
  { double ls = 0, os = 0; string o1 = guarded([&] { P.Reverse(x, y, ls, os); }); ovl = ovl && o1 == rout && sameb({la, lo}, {ls, os}); }
  fresh = fresh && cs_same(cs_rev(P, x, y), cs_rev(F, x, y)); uninit = uninit && cs_untouched(cs_rev(U, x, y));
  dflt = dflt && cs_same(cs_rev(*D0, x, y), cs_rev(P, x, y)) && cs_same(cs_rev(D1, x, y), cs_rev(P, x, y));
  r.str("rout", rout).i("rt", uq(chordll(E.a, E.f, lat, lon, la, lo) * E.sc, 1e-9L)).b("rng", fabs(la) <= 90 && fabs(lo) <= 180);
  // Reverse for an independent (x, y) against the documented construction, then Forward
  double xi = g.uni(-1.1, 1.1) * double(Q), yi = g.uni(-2, 2) * double(Q);
  if (g.range(0, 5) == 0) xi = (g.coin() ? 1 : -1) * pow(10.0, g.uni(-6, 6)) / E.sc; if (g.range(0, 5) == 0) yi = (g.coin() ? 1 : -1) * pow(10.0, g.uni(-6, 6)) / E.sc;
  if (g.range(0, 9) == 0) xi = 0; if (g.range(0, 9) == 0) yi = 0;
  double lb = 0, lob = 0, azb = 0, rkb = 0, xo = 0, yo = 0, azo = 0, rko = 0;
  string r2 = guarded([&] { P.Reverse(xi, yi, lb, lob, azb, rkb); P.Forward(lb, lob, xo, yo, azo, rko); });
  { double ls = 0, os = 0; string o1 = guarded([&] { P.Reverse(xi, yi, ls, os); }); ovl = ovl && o1 == r2 && sameb({lb, lob}, {ls, os}); }
  fresh = fresh && cs_same(cs_rev(P, xi, yi), cs_rev(F, xi, yi)) && cs_same(cs_fwd(P, lb, lob), cs_fwd(F, lb, lob));
  double l1a, l1o, am; E.g.Direct(lat0, lon0, 0.0, yi, l1a, l1o, am);
  double l2a, l2o, a2d, Mr, Mr21; E.g.Direct(l1a, l1o, am + 90, xi, l2a, l2o, a2d, Mr, Mr21);
  r.str("r2", r2).i("rx", uq((LD)fabs(xi) / Q, 1e-6L)).i("ry", uq((LD)fabs(yi) / Q, 1e-6L)).i("plb", poleq(l2a));
  r.i("r2dpos", uq(chordll(E.a, E.f, l2a, l2o, lb, lob) * E.sc, 1e-9L)).i("r2dazi", uq(angdiff(azb, a2d), 1e-12L)).i("r2drk", uq((LD)rkb - Mr, 1e-15L));
  r.b("rxz", xi == 0).i("r2drk1", uq((LD)rkb - 1, 1e-15L));
  r.b("r2rng", fabs(lb) <= 90 && fabs(lob) <= 180);
  // northing differences are measured on the ellipsoid: dy * rk
  r.i("dxy", uq(hypotl((LD)xo - xi, ((LD)yo - yi) * (LD)rkb) * E.sc, 1e-9L));
  r.b("fresh", fresh).b("uninit", uninit).b("ovl", ovl).b("dflt", dflt);
  r.emit();
  delete Pp;
}


// ================================================================== intersections
struct XE {   // ellipsoid + solver for the intersection laws
  int fi; double a, f, sc, minr; bool exact; Geodesic g; Intersect I;
  XE(int fi_, double a_, double f_, bool ex) : fi(fi_), a(a_), f(f_), sc(AW / a_), minr(min(a_, a_ * (1 - f_))), exact(ex), g(a_, f_, ex), I(g) {}
};
// |f| <= 0.02 with the series solver, larger |f| with exact = true as the documentation prescribes
static const double XF[] = {1 / 298.257223563, 0, -1 / 298.257223563, 0.01, -0.01, 0.02, -0.02, 0.1, -0.1, 0.2, -0.25};
static const int NXF = 11;
static XE* xearth(vt::Rng& g, int exact = 0) {      // exact = 1: one of the eccentric ellipsoids that need the exact solver
  static map<pair<int, int>, XE*> cache;
  int fi = int(g.range(0, NXF - 1)); if (g.coin()) fi = 0;
  int ai = int(g.range(0, 2)); if (g.coin()) ai = 0;
  if (exact) fi = int(g.range(7, NXF - 1));
  auto key = make_pair(fi, ai);
  auto it = cache.find(key);
  if (it != cache.end()) return it->second;
  double a = ai == 0 ? AW : ai == 1 ? 1.0 : RA;
  XE* e = new XE(fi, a, XF[fi], fabs(XF[fi]) > 0.02);
  cache[key] = e; return e;
}
struct Ln { double lat, lon, azi; };
typedef Intersect::Point Pt;
// an intersection candidate: separation of the two points (nm at WGS84 scale) and |sin| of the crossing angle there
struct Hit { ll z; LD sn; bool anti; };
static Hit hit_raw(double a, double f, double sc, const GeodesicLine& lx, const GeodesicLine& ly, double x, double y) {
  double la, lo, az, lb, lob, azb; lx.Position(x, la, lo, az); ly.Position(y, lb, lob, azb);
  Hit h; h.z = uq(chordll(a, f, la, lo, lb, lob) * sc, 1e-9L);
  // crossing angle from the two headings as unit vectors in space (well defined at the poles too)
  V3 t1 = tangent(la, lo, az), t2 = tangent(lb, lob, azb);
  LD cx = t1.y * t2.z - t1.z * t2.y, cy = t1.z * t2.x - t1.x * t2.z, cz = t1.x * t2.y - t1.y * t2.x;
  h.sn = min((LD)1, sqrtl(cx * cx + cy * cy + cz * cz)); h.anti = t1.x * t2.x + t1.y * t2.y + t1.z * t2.z < 0;
  return h;
}
static Hit hit(const XE& E, const GeodesicLine& lx, const GeodesicLine& ly, double x, double y) { return hit_raw(E.a, E.f, E.sc, lx, ly, x, y); }
static LD l1(double x, double y, double px, double py) { return fabsl((LD)x - px) + fabsl((LD)y - py); }
static LD l1(const Pt& p, const Pt& q) { return l1(p.first, p.second, q.first, q.second); }

// Comparison of a returned intersection p with the list `all` of every intersection around the origin p0.
// An intersection is located along the lines only to (separation tolerance) / sin(crossing angle); differences of displacements are
// therefore multiplied by the sine of the crossing angle (the smaller of the two), which turns them into separations across the lines.
//   dminc : min over the list of (L1(e, p0) - L1(p, p0)) * sin, signed (negative = some listed intersection is closer than p)
//   inallc: min over the list of L1(e, p) * sin (p itself is in the list)
struct Cmp { ll dminc, inallc, n; };
static Cmp cmp_all(const XE& E, const GeodesicLine& lx, const GeodesicLine& ly, const Pt& p, const Pt& p0, const vector<Pt>& all, LD snp,
                   const Pt* skip = nullptr) {
  Cmp c; c.n = 0; LD dm = 1e300L, in = 1e300L, d0 = l1(p, p0);
  for (auto& q : all) {
    LD sn = min(snp, hit(E, lx, ly, q.first, q.second).sn);
    if (skip && l1(q, *skip) * E.sc <= 1.0L) continue;                   // the excluded intersection itself (within 1 m along the lines)
    ++c.n; dm = min(dm, (l1(q, p0) - d0) * sn); in = min(in, l1(q, p) * sn);
  }
  c.dminc = c.n ? sq(dm * E.sc, 1e-9L) : 0; c.inallc = c.n ? uq(in * E.sc, 1e-9L) : -1;
  return c;
}

// two random lines; mk = how they were constructed (from the inputs only)
static string rlines(vt::Rng& g, const XE& E, Ln& X, Ln& Y) {
  rpoint(g, X.lat, X.lon); X.azi = g.uni(-180, 180); rpoint(g, Y.lat, Y.lon); Y.azi = g.uni(-180, 180);
  if (fabs(X.lat) == 90) X.lat = X.lat > 0 ? 89.5 : -89.5; if (fabs(Y.lat) == 90) Y.lat = Y.lat > 0 ? 89.5 : -89.5;
  int w = int(g.range(0, 15));
  if (w == 0) X.azi = 90.0 * double(g.range(-2, 2)); if (w == 1) { X.lat = 0; X.azi = g.coin() ? 90 : -90; }
  if (w == 2) { X.azi = g.coin() ? 0 : 180; Y.azi = g.coin() ? 0 : 180; return fabs(sin((X.lon - Y.lon) * double(PIL) / 180)) < 1e-2 ? "near" : "merid2"; }   // two meridians
  if (w == 3 || w == 4 || w == 5) {      // Y is the same geodesic as X (w == 3 parallel, w == 4 antiparallel) or crosses it at a tiny angle
    double s = g.uni(-1.5, 1.5) * PIL * E.a, az; E.g.Direct(X.lat, X.lon, X.azi, s, Y.lat, Y.lon, az);
    if (fabs(Y.lat) > 89.9) return "near";
    if (w == 3) { Y.azi = az; return "coin+"; }
    if (w == 4) { Y.azi = az + 180; return "coin-"; }
    Y.azi = az + (g.coin() ? 0 : 180) + (g.coin() ? 1 : -1) * pow(10.0, g.uni(-13, -2)); return "near";
  }
  if (w == 6) { Y.lat = X.lat; Y.lon = X.lon; if (fabs(sin((X.azi - Y.azi) * double(PIL) / 180)) < 1e-2) return "near"; }   // common starting point
  if (w == 7) { X.lat = 0; X.azi = 90; Y.lat = 0; Y.azi = g.coin() ? 90 : -90; return Y.azi == 90 ? "coin+" : "coin-"; }  // equator twice
  if (w == 8) { X.azi = 0; bool samelon = g.coin(), north = g.coin(); Y.azi = north ? 0 : 180; Y.lon = X.lon + (samelon ? 0 : 180); return samelon == north ? "coin+" : "coin-"; }   // same meridian plane
  return "gen";
}

// spacing of doubles at the larger of the two displacements (nm at WGS84 scale, rounded up): the displacements themselves cannot be
// more precise than that
static ll ulpq(const XE& E, double x, double y) {
  double m = max(fabs(x), fabs(y)); if (!std::isfinite(m)) return 0;
  return uq(((LD)std::nextafter(m, numeric_limits<double>::infinity()) - m) * E.sc, 1e-9L);
}
static void put_hit(Rec& r, const XE& E, const Pt& p, const Hit& h, int c) {
  r.i("z", h.z).i("um", ulpq(E, p.first, p.second)).i("sn", uq(h.sn, 1e-9L)).i("anti", h.anti ? 1 : 0).i("c", c);
}

// tie = true: the origin is placed where the closest intersection is as far away as it can be - around the middle between an
// intersection and its nearest neighbour (a random point of the L1 ball around the midpoint whose radius is half their distance),
// in all directions; there several intersections are nearly equidistant and the closest one is far from every starting guess
static void rec_xc(vt::Rng& g, ll id, bool tie = false) {
  XE& E = *xearth(g); Ln X, Y; string mk = rlines(g, E, X, Y);
  Pt p0(0, 0); if (g.range(0, 2) == 0) p0 = Pt(g.uni(-3, 3) * PIL * E.a, g.uni(-3, 3) * PIL * E.a);
  GeodesicLine lx = E.g.Line(X.lat, X.lon, X.azi, Intersect::LineCaps), ly = E.g.Line(Y.lat, Y.lon, Y.azi, Intersect::LineCaps);
  if (tie) {
    vector<Pt> near; guarded([&] { near = E.I.All(lx, ly, 2.6 * double(PIL) * E.a, Pt(g.uni(-2, 2) * PIL * E.a, g.uni(-2, 2) * PIL * E.a)); });
    if (near.size() >= 2) {
      const Pt& h1 = near[0]; size_t j = 1; for (size_t i = 2; i < near.size(); ++i) if (l1(near[i], h1) < l1(near[j], h1)) j = i;
      const Pt& h2 = near[j]; double rad = double(l1(h1, h2)) / 2, u = g.uni(-1, 1), v = (g.coin() ? 1 : -1) * (1 - fabs(u)) * g.uni(0, 1);
      double eps = g.coin() ? 0 : (g.coin() ? 1 : -1) * pow(10.0, g.uni(-9, 0));     // towards one of the two, from exactly equidistant to clearly closer
      p0 = Pt((h1.first + h2.first) / 2 + rad * u + eps * (h1.first - h2.first) / 2, (h1.second + h2.second) / 2 + rad * v + eps * (h1.second - h2.second) / 2);
    }
  }
  int c = -9; Pt p(0, 0);
  string out = guarded([&] { p = E.I.Closest(lx, ly, p0, &c); });
  int c2 = -9; Pt p2(0, 0);           // same call through the position + azimuth interface
  guarded([&] { p2 = E.I.Closest(X.lat, X.lon, X.azi, Y.lat, Y.lon, Y.azi, p0, &c2); });
  DBG(id, "xc a=%.17g f=%.17g exact=%d X=(%.17g %.17g %.17g) Y=(%.17g %.17g %.17g) p0=(%.17g %.17g) -> x=%.17g y=%.17g c=%d\n", E.a, E.f, (int) E.exact, X.lat, X.lon, X.azi, Y.lat, Y.lon, Y.azi, p0.first, p0.second, p.first, p.second, c);
  Rec r; r.str("e", "xc").i("id", id).i("fi", E.fi).b("ex", E.exact).str("mk", mk).str("out", out).b("tie", tie);
  r.b("same", vt::bits(p.first) == vt::bits(p2.first) && vt::bits(p.second) == vt::bits(p2.second) && c == c2);
  r.b("fin", std::isfinite(p.first) && std::isfinite(p.second));
  Hit h = hit(E, lx, ly, p.first, p.second); put_hit(r, E, p, h, c);
  LD d0 = l1(p, p0);
  r.i("dq", uq(d0 / (PIL * E.a), 1e-6L));
  // every intersection within the same distance (+ 1 km): none may be closer, and the closest must be among them
  vector<int> cs; vector<Pt> all;
  string aout = guarded([&] { all = E.I.All(lx, ly, double(d0) + 1000 / E.sc, cs, p0); });
  Cmp m = cmp_all(E, lx, ly, p, p0, all, h.sn);
  r.str("aout", aout).i("na", m.n).i("dminc", m.dminc).i("inallc", m.inallc).str("kf", "none");
  r.emit();
}

// vertex = true: ONE geodesic taken twice (antiparallel twice as often as parallel), mostly started at a vertex (its extreme
// latitude, heading east or west) or along a meridian, on the eccentric ellipsoids with the exact solver three times out of four:
// the lines coincide everywhere, and the origin itself is the intersection that Next has to exclude
static void rec_xn(vt::Rng& g, ll id, bool vertex = false) {
  XE& E = *xearth(g, vertex && g.range(0, 3) != 0 ? 1 : 0); Ln X; rpoint(g, X.lat, X.lon); if (fabs(X.lat) == 90) X.lat = X.lat > 0 ? 89 : -89;
  X.azi = g.uni(-180, 180); double aziY = g.uni(-180, 180);
  string mk = "gen"; int w = int(g.range(0, 9));
  if (vertex) {
    int a = int(g.range(0, 5)); if (a <= 3) X.azi = g.coin() ? 90 : -90; else if (a == 4) X.azi = g.coin() ? 0 : 180;
    w = g.range(0, 2) == 0 ? 0 : 1;
  }
  if (w == 3) { X.azi = 90.0 * double(g.range(-2, 2)); } if (w == 4) { X.lat = 0; X.azi = 90; }
  if (w == 0) { aziY = X.azi; mk = "coin+"; } if (w == 1) { aziY = X.azi + 180; mk = "coin-"; }
  if (w == 2) { aziY = X.azi + (g.coin() ? 0 : 180) + (g.coin() ? 1 : -1) * pow(10.0, g.uni(-13, -2)); mk = "near"; }
  if (mk == "gen" && fabs(sin(angdiff(X.azi, aziY) * double(PIL) / 180)) < 1e-2) mk = "near";
  GeodesicLine lx = E.g.Line(X.lat, X.lon, X.azi, Intersect::LineCaps), ly = E.g.Line(X.lat, X.lon, aziY, Intersect::LineCaps);
  int c = -9; Pt p(0, 0);
  string out = guarded([&] { p = E.I.Next(lx, ly, &c); });
  int c2 = -9; Pt p2(0, 0);
  guarded([&] { p2 = E.I.Next(X.lat, X.lon, X.azi, aziY, &c2); });
  DBG(id, "xn a=%.17g f=%.17g exact=%d X=(%.17g %.17g %.17g) aziY=%.17g -> x=%.17g y=%.17g c=%d\n", E.a, E.f, (int) E.exact, X.lat, X.lon, X.azi, aziY, p.first, p.second, c);
  Rec r; r.str("e", "xn").i("id", id).i("fi", E.fi).b("ex", E.exact).str("mk", mk).str("out", out);
  r.b("same", vt::bits(p.first) == vt::bits(p2.first) && vt::bits(p.second) == vt::bits(p2.second) && c == c2);
  r.b("fin", std::isfinite(p.first) && std::isfinite(p.second));
  Hit h = hit(E, lx, ly, p.first, p.second); put_hit(r, E, p, h, c);
  LD d0 = l1(p, Pt(0, 0));
  r.i("dq", uq(d0 / (PIL * E.a), 1e-6L)).i("d0m", uq(d0 * E.sc, 1.0L));
  // one geodesic taken twice: |y - cc x| = 0 iff X(x) and Y(y) are the same point of the same branch
  r.i("lin", mk == "coin+" ? uq(((LD)p.second - p.first) * E.sc, 1e-9L) : mk == "coin-" ? uq(((LD)p.second + p.first) * E.sc, 1e-9L) : -1);
  vector<int> cs; vector<Pt> all;
  string aout = guarded([&] { all = E.I.All(lx, ly, double(d0) + 1000 / E.sc, cs); });
  Pt org(0, 0); Cmp m = cmp_all(E, lx, ly, p, org, all, h.sn, &org);
  // known finding (from the inputs only): one geodesic taken twice ANTIPARALLEL, started at a vertex (azimuth exactly +-90), exact solver
  bool kfc = mk == "coin-" && E.exact && fabs(X.azi) == 90;
  // second known finding (from the inputs only): the same geodesic twice PARALLEL from a vertex on the most prolate ellipsoid (f = -1/4)
  bool kfp = mk == "coin+" && E.exact && fabs(X.azi) == 90 && E.f == -0.25;
  r.str("aout", aout).i("na", m.n).i("nall", (ll) all.size()).i("dminc", m.dminc).i("inallc", m.inallc)
    .str("kf", kfc ? "int-next-anti-vertex-exact" : kfp ? "int-next-par-vertex-prolate" : "none");
  kfc = kfc || kfp;
  r.emit();
  if (kfc) {   // the observations of the same call that the finding does not touch, as a record of their own (no label)
    Rec o; o.str("e", "xo").i("id", id).i("fi", E.fi).b("ex", E.exact).str("mk", mk).str("out", out);
    o.b("same", vt::bits(p.first) == vt::bits(p2.first) && vt::bits(p.second) == vt::bits(p2.second) && c == c2).b("fin", std::isfinite(p.first) && std::isfinite(p.second));
    o.i("z", h.z).i("um", ulpq(E, p.first, p.second)).i("d0m", uq(d0 * E.sc, 1.0L)).str("kf", "none");
    o.emit();
  }
}

// Segments cut from ONE geodesic.  t1, t2 = where Y's end points lie on X's geodesic (as fractions of X, 0 = first, 1 = second end
// point): the pieces overlap iff [min t, max t] meets [0, 1] in more than a point.  ovq = length of the overlap (negative: of the
// gap) as a fraction of X in ppm - computed from the inputs.
//   coin  : end points computed with Direct along an arbitrary geodesic (coincident up to round-off)
//   coinx : cx = true, pieces of the equator or of one meridian, given by their coordinates: EXACTLY coincident in floating point
static ll ovlq(double t1, double t2) { double lo = max(0.0, min(t1, t2)), hi = min(1.0, max(t1, t2)); return sq(hi - lo, 1e-6L); }
static void rec_xs(vt::Rng& g, ll id, bool cx = false) {
  XE& E = *xearth(g);
  double la1, lo1, la2, lo2, lb1, lob1, lb2, lob2;
  rpoint(g, la1, lo1); rpoint(g, lb1, lob1);
  int w = int(g.range(0, 9)); ll ovq = 0; string kf = "none";
  if (cx) w = 10;
  // segment lengths: mostly short to medium so that many pairs intersect; always well below the half circumference
  auto seg = [&](double lat, double lon, double& latb, double& lonb, double scale) {
    double az = g.uni(-180, 180), d = g.uni(0.001, scale) * PIL * E.minr; E.g.Direct(lat, lon, az, d, latb, lonb); };
  if (fabs(la1) == 90) la1 = la1 > 0 ? 89 : -89; if (fabs(lb1) == 90) lb1 = lb1 > 0 ? 89 : -89;
  string mk = "gen";
  if (w <= 5) {     // make Y pass near a point of X so that the segments are likely to cross
    seg(la1, lo1, la2, lo2, w <= 2 ? 0.2 : 0.85);
    GeodesicLine t = E.g.InverseLine(la1, lo1, la2, lo2); double mlat, mlon; t.Position(g.uni(0, 1) * t.Distance(), mlat, mlon);
    double az = g.uni(-180, 180), d = g.uni(0, 0.3) * t.Distance(); E.g.Direct(mlat, mlon, az, d, lb1, lob1);
    E.g.Direct(mlat, mlon, az + 180 + g.uni(-5, 5), g.uni(0, 0.4) * t.Distance(), lb2, lob2);
  } else if (w == 6) { seg(la1, lo1, la2, lo2, 0.85); seg(lb1, lob1, lb2, lob2, 0.85); }
  else if (w == 7) {   // Y shares an end point with X
    seg(la1, lo1, la2, lo2, 0.5); bool first = g.coin(); lb1 = first ? la1 : la2; lob1 = first ? lo1 : lo2; seg(lb1, lob1, lb2, lob2, 0.5); mk = "corner";
  } else if (w == 8) { // Y is a piece of the geodesic of X (coincident)
    seg(la1, lo1, la2, lo2, 0.4); GeodesicLine t = E.g.InverseLine(la1, lo1, la2, lo2);
    double t1 = g.uni(-0.5, 1.5), t2 = g.uni(-0.5, 1.5);
    t.Position(t1 * t.Distance(), lb1, lob1); t.Position(t2 * t.Distance(), lb2, lob2); mk = "coin"; kf = "int-seg-coincident"; ovq = ovlq(t1, t2);
  } else if (w == 10) {
    // the parameter along the closed geodesic: longitude on the equator, latitude on a meridian; X = [u1, u1 + du], Y = u1 + du * [t1, t2]
    bool eq = g.coin(), integer = g.coin();
    double ext = eq ? min(1.0, 1 - E.f) * 40 : 40;                       // every piece well below the half circumference / the conjugate distance
    double du = (g.coin() ? 1 : -1) * g.uni(0.5, ext), u1 = eq ? g.uni(-180, 180) : g.uni(-85, 85);
    double t1 = g.uni(-1.5, 2.5), t2 = g.uni(-1.5, 2.5); int v = int(g.range(0, 7));
    if (integer) { u1 = nearbyint(u1); du = (du > 0 ? 8 : -8) * double(g.range(1, int(ext / 8))); t1 = nearbyint(t1 * 8) / 8; t2 = nearbyint(t2 * 8) / 8; }   // integer degrees
    if (v == 0) t1 = 0; if (v == 1) t1 = 1; if (v == 2) t2 = 0; if (v == 3) t2 = 1; if (v == 4) { t1 = 0; t2 = 1; } if (v == 5) { t1 = 1; t2 = 0; }   // shared end points, identical pieces
    if (t1 == t2) t2 = t1 + 0.25;
    if (!eq && (fabs(u1 + du * 2.5) > 89 || fabs(u1 - du * 1.5) > 89)) { u1 = 0; if (fabs(du) > 32) du = du > 0 ? 32 : -32; }        // keep every end point off the poles
    double u2 = u1 + du, v1 = u1 + du * t1, v2 = u1 + du * t2;
    if (eq) { la1 = la2 = lb1 = lb2 = 0; lo1 = u1; lo2 = u2; lob1 = v1; lob2 = v2; }
    else { lo1 = lo2 = lob1 = lob2 = integer ? double(g.range(-180, 180)) : g.uni(-180, 180); la1 = u1; la2 = u2; lb1 = v1; lb2 = v2; }
    // Y's end points as fractions of X, recomputed from the coordinates actually used
    t1 = (v1 - u1) / (u2 - u1); t2 = (v2 - u1) / (u2 - u1);
    // same direction along the parameter <=> parallel
    mk = ((u2 - u1 > 0) == (v2 - v1 > 0)) ? "coinx+" : "coinx-"; ovq = ovlq(t1, t2);
  } else { seg(la1, lo1, la2, lo2, 0.05); seg(lb1, lob1, lb2, lob2, 0.05); }
  GeodesicLine lx = E.g.InverseLine(la1, lo1, la2, lo2, Intersect::LineCaps), ly = E.g.InverseLine(lb1, lob1, lb2, lob2, Intersect::LineCaps);
  double sx = lx.Distance(), sy = ly.Distance();
  if (mk == "gen") { double t, a1, a2; E.g.Inverse(la1, lo1, lb1, lob1, t, a1, a2); (void) a2; }
  int segmode = -99, c = -9; Pt p(0, 0);
  string out = guarded([&] { p = E.I.Segment(lx, ly, segmode, &c); });
  int sm2 = -99, c2 = -9; Pt p2(0, 0);
  guarded([&] { p2 = E.I.Segment(la1, lo1, la2, lo2, lb1, lob1, lb2, lob2, sm2, &c2); });
  double x = p.first, y = p.second;
  DBG(id, "xs a=%.17g f=%.17g exact=%d X=(%.17g %.17g)-(%.17g %.17g) Y=(%.17g %.17g)-(%.17g %.17g) sx=%.17g sy=%.17g -> x=%.17g y=%.17g c=%d segmode=%d\n", E.a, E.f, (int) E.exact, la1, lo1, la2, lo2, lb1, lob1, lb2, lob2, sx, sy, p.first, p.second, c, segmode);
  Rec r; r.str("e", "xs").i("id", id).i("fi", E.fi).b("ex", E.exact).str("mk", mk).str("out", out).i("segmode", segmode);
  r.b("same", vt::bits(x) == vt::bits(p2.first) && vt::bits(y) == vt::bits(p2.second) && c == c2 && segmode == sm2);
  r.b("fin", std::isfinite(x) && std::isfinite(y));
  r.i("x0", sgn(x)).i("x1", sgn(x - sx)).i("y0", sgn(y)).i("y1", sgn(y - sy));       // exact comparisons against the segment ends
  r.i("sxq", uq((LD)sx / (PIL * E.minr), 1e-6L)).i("syq", uq((LD)sy / (PIL * E.minr), 1e-6L));
  Hit h = hit(E, lx, ly, x, y); put_hit(r, E, p, h, c);
  // all intersections around the midpoints that could lie in the rectangle or be closer to the midpoints than the result
  Pt mid(sx / 2, sy / 2); LD d0 = l1(p, mid);
  double R = double(max(d0, ((LD)sx + sy) / 2)) + 1000 / E.sc;
  vector<int> cs; vector<Pt> all;
  string aout = guarded([&] { all = E.I.All(lx, ly, R, cs, mid); });
  Cmp m = cmp_all(E, lx, ly, p, mid, all, h.sn);
  // depth (signed, across the lines) by which a listed intersection lies inside the closed rectangle [0,sx] x [0,sy]: the largest one
  LD insmax = -1e300L; ll anyc = 0;
  for (size_t i = 0; i < all.size(); ++i) {
    auto& q = all[i]; LD sn = hit(E, lx, ly, q.first, q.second).sn;
    insmax = max(insmax, min(min((LD)q.first, (LD)sx - q.first), min((LD)q.second, (LD)sy - q.second)) * sn);
    if (i < cs.size() && cs[i]) anyc = 1;
  }
  r.str("aout", aout).i("na", m.n).i("dminc", m.dminc).i("inallc", m.inallc);
  r.i("insmax", all.empty() ? -2000000000LL : sq(insmax * E.sc, 1e-9L)).i("anyc", anyc).i("ovq", ovq).str("kf", kf);
  r.emit();
}

static void rec_xa(vt::Rng& g, ll id) {
  XE& E = *xearth(g); Ln X, Y; string mk = rlines(g, E, X, Y);
  Pt p0(0, 0); if (g.range(0, 2) == 0) p0 = Pt(g.uni(-2, 2) * PIL * E.a, g.uni(-2, 2) * PIL * E.a);
  double R = g.uni(0, 4.5) * PIL * E.a; if (g.range(0, 7) == 0) R = g.uni(0, 0.3) * PIL * E.a;
  GeodesicLine lx = E.g.Line(X.lat, X.lon, X.azi, Intersect::LineCaps), ly = E.g.Line(Y.lat, Y.lon, Y.azi, Intersect::LineCaps);
  vector<int> cs; vector<Pt> all;
  string out = guarded([&] { all = E.I.All(lx, ly, R, cs, p0); });
  vector<Pt> all1;      // the overload without the coincidence vector, position + azimuth interface
  guarded([&] { all1 = E.I.All(X.lat, X.lon, X.azi, Y.lat, Y.lon, Y.azi, R, p0); });
  bool same = all1.size() == all.size() && cs.size() == all.size();
  for (size_t i = 0; same && i < all.size(); ++i) same = vt::bits(all[i].first) == vt::bits(all1[i].first) && vt::bits(all[i].second) == vt::bits(all1[i].second);
  DBG(id, "xa a=%.17g f=%.17g exact=%d X=(%.17g %.17g %.17g) Y=(%.17g %.17g %.17g) p0=(%.17g %.17g) R=%.17g\n", E.a, E.f, (int) E.exact, X.lat, X.lon, X.azi, Y.lat, Y.lon, Y.azi, p0.first, p0.second, R);
  for (size_t i = 0; i < all.size(); ++i) DBG(id, "  [%zu] x=%.17g y=%.17g c=%d d=%.17g\n", i, all[i].first, all[i].second, cs[i], Intersect::Dist(all[i], p0));
  Rec r; r.str("e", "xa").i("id", id).i("fi", E.fi).b("ex", E.exact).str("mk", mk).str("out", out).i("n", (ll) all.size()).b("same", same);
  r.i("Rq", uq((LD)R / (PIL * E.a), 1e-6L));
  LD srt = 1e300L, sepc = 1e300L, over = -1e300L, snmin = 1; ll zmax = 0, anyc = 0, cbad = 0, um = 0; bool fin = true;
  vector<Hit> hs; for (auto& q : all) hs.push_back(hit(E, lx, ly, q.first, q.second));
  for (size_t i = 0; i < all.size(); ++i) {
    fin = fin && std::isfinite(all[i].first) && std::isfinite(all[i].second);
    over = max(over, (LD)Intersect::Dist(all[i], p0) - (LD)R);                            // the documented distance function, in doubles
    if (i + 1 < all.size()) srt = min(srt, (LD)Intersect::Dist(all[i + 1], p0) - (LD)Intersect::Dist(all[i], p0));
    for (size_t j = i + 1; j < all.size(); ++j) sepc = min(sepc, l1(all[i], all[j]) * min(hs[i].sn, hs[j].sn));
    zmax = max(zmax, hs[i].z); snmin = min(snmin, hs[i].sn); um = max(um, ulpq(E, all[i].first, all[i].second));
    if (i < cs.size() && cs[i]) { anyc = 1; if (hs[i].sn > 1e-6L || (cs[i] > 0) == hs[i].anti) cbad = 1; }
  }
  r.b("fin", fin).i("srt", all.size() > 1 ? sq(srt * E.sc, 1e-9L) : 0).i("sepc", all.size() > 1 ? uq(sepc * E.sc, 1e-9L) : 2000000000LL);
  r.i("over", all.empty() ? -1 : sq(over * E.sc, 1e-9L)).i("zmax", zmax).i("um", um).i("snmin", uq(snmin, 1e-9L)).i("anyc", anyc).i("cbad", cbad);
  // consistency with a smaller radius (a different tiling of the plane)
  double R2 = R * g.uni(0.2, 0.95); vector<Pt> sub;
  string out2 = guarded([&] { sub = E.I.All(lx, ly, R2, p0); });
  ll lo = 0, hi = 0;        // elements whose distance is within 1 mm (across the lines) of the smaller radius may fall on either side
  for (size_t i = 0; i < all.size(); ++i) { LD d = l1(all[i], p0), edge = 1e-3L / E.sc / max(hs[i].sn, 1e-12L); if (d <= R2 - edge) ++lo; if (d <= R2 + edge) ++hi; }
  LD submiss = 0;      // every element of the smaller query must be an element of the larger one
  for (auto& q : sub) { LD sn = hit(E, lx, ly, q.first, q.second).sn, m = 1e300L; for (auto& t : all) m = min(m, l1(q, t) * sn); submiss = max(submiss, m); }
  r.str("out2", out2).i("n2", (ll) sub.size()).i("n2lo", lo).i("n2hi", hi).i("submiss", sub.empty() || all.empty() ? (sub.empty() ? 0 : 2000000000LL) : uq(submiss * E.sc, 1e-9L));
  // the closest query with the same origin must return the first element
  Pt pc(0, 0); int cc = 0; string outc = guarded([&] { pc = E.I.Closest(lx, ly, p0, &cc); });
  LD dc = l1(pc, p0), snc = hit(E, lx, ly, pc.first, pc.second).sn, edgec = 1e-3L / E.sc / max(snc, 1e-12L);
  r.str("outc", outc).i("cin", dc <= (LD)R - edgec ? 1 : dc <= (LD)R + edgec ? 0 : -1);
  r.i("cfirst", all.empty() ? -1 : uq((l1(all[0], p0) - dc) * min(snc, hs[0].sn) * E.sc, 1e-9L));
  // chain: the intersection next to the first element (lines restarted there) is an element too when it is within the radius
  ll chain = -1, chin = -1;
  if (!all.empty() && cs[0] == 0) {
    double la, lo_, azx, lb, lob, azy; lx.Position(all[0].first, la, lo_, azx); ly.Position(all[0].second, lb, lob, azy);
    Pt pn(0, 0); int cn = 0;
    string outn = guarded([&] { pn = E.I.Next(la, lo_, azx, azy, &cn); });
    if (outn == "ok" && cn == 0 && fabs(la) < 89.9) {
      Pt q(all[0].first + pn.first, all[0].second + pn.second); LD dq = l1(q, p0), sn = hit(E, lx, ly, q.first, q.second).sn;
      chin = dq <= (LD)R - 1000 / E.sc ? 1 : 0;
      LD m = 1e300L; for (auto& t : all) m = min(m, l1(q, t) * sn); chain = uq(m * E.sc, 1e-9L);
    }
  }
  // both lines are meridians: azimuth a multiple of 180 degrees, or the starting point within 1e-4 degree of a pole
  auto merid = [](const Ln& L) { return fabs(sin(L.azi * double(PIL) / 180)) < 1e-9 || fabs(L.lat) > 89.9999; };
  r.i("chain", chain).i("chin", chin).str("kf", merid(X) && merid(Y) && fabs(E.f) > 0.02 ? "int-all-dup-meridians" : "none");
  r.emit();
}


// ================================================================== nearest neighbour
struct IntMetric {       // the model's metrics: 0 = |a - b| on the integers, 1 = L1 on a 3 x 3 grid (points 0..8), 2 = discrete 0/1... see NearestNeighbor.tla
  int kind;
  int operator()(const int& a, const int& b) const {
    if (kind == 0) return abs(a - b);
    if (kind == 1) return abs(a % 3 - b % 3) + abs(a / 3 - b / 3);
    return a == b ? 0 : 1;
  }
};
typedef NearestNeighbor<int, int, IntMetric> NNI;

// parse the text form written by Save(os, false): header [version realspec bucket numpoints treesize cost] + nodes
template<class T> static bool parse_tree(const string& txt, vector<ll>& hdr, vector<vector<T> >& nodes, int& bucket) {
  istringstream is(txt); hdr.clear(); nodes.clear();
  for (int i = 0; i < 6; ++i) { ll v; if (!(is >> v)) return false; hdr.push_back(v); }
  bucket = int(hdr[2]); ll ts = hdr[4];
  for (ll i = 0; i < ts; ++i) {
    vector<T> nd; ll idx; if (!(is >> idx)) return false; nd.push_back(T(idx));
    if (idx >= 0) { for (int l = 0; l < 2; ++l) { T lo, up; ll ch; if (!(is >> lo >> up >> ch)) return false; nd.push_back(lo); nd.push_back(up); nd.push_back(T(ch)); } }
    else { for (int l = 0; l < bucket; ++l) { ll v; if (!(is >> v)) return false; nd.push_back(T(v)); } }
    nodes.push_back(nd);
  }
  string rest; if (is >> rest) return false;
  return true;
}

template<class NN> static string save_text(const NN& t) { ostringstream os; t.Save(os, false); return os.str(); }
template<class NN> static string save_bin(const NN& t) { ostringstream os; t.Save(os, true); return os.str(); }

// round trips: text Load, binary Load, operator<< / operator>>; each returns whether the re-saved text is identical
template<class NN> static void roundtrips(const NN& t, NN& viaText, NN& viaBin, bool& okT, bool& okB, bool& okOp, string& res) {
  string txt = save_text(t);
  res = guarded([&] {
    { istringstream is(txt); viaText.Load(is, false); }
    { istringstream is(save_bin(t)); viaBin.Load(is, true); }
    NN viaOp; { ostringstream os; os << t; istringstream is(os.str()); is >> viaOp; okOp = save_text(viaOp) == txt; }
  });
  // the tree reloaded from the TEXT save must be the original bit for bit: its BINARY save equals the binary save of the original
  // (a text save with too few digits reloads to a tree whose re-saved text is the same text again)
  okT = save_text(viaText) == txt && viaText.NumPoints() == t.NumPoints() && save_bin(viaText) == save_bin(t);
  okB = save_text(viaBin) == txt && save_bin(viaBin) == save_bin(t);
}

// The NearestNeighbor object as a state machine (NearestNeighbor.hpp: the constructor with points is Initialize; "Initialize or
// re-initialize"; "If an exception is thrown, the state of the NearestNeighbor is unchanged" for Initialize and Load; swap).  The
// state is observed through Save(text).  Logged: whether each history leaves the state a fresh Initialize(pts, dist, bucket) gives.
template<class NN, class P, class D> static void nn_histories(Rec& r, const NN& t, const vector<P>& pts, const vector<P>& other, const D& d, int bucket) {
  string want = save_text(t); bool ctor = false, reinit = false, unch = false, swp = false;
  guarded([&] { NN c(pts, d, bucket); ctor = save_text(c) == want; });
  guarded([&] {
    NN h(other, d, 1); h.Initialize(pts, d, bucket); reinit = save_text(h) == want;
    string o1 = guarded([&] { h.Initialize(other, d, -1); });                       // bucket out of bounds
    string o2 = guarded([&] { istringstream is("1 0 0 garbage"); h.Load(is, false); });
    string o3 = guarded([&] { istringstream is(want.substr(0, want.size() / 2)); h.Load(is, false); });   // truncated save
    unch = o1 == "throw" && o2 == "throw" && (o3 == "throw" || pts.empty()) && (o3 == "throw" ? save_text(h) == want : true);
    NN e; e.swap(h); swp = save_text(e) == want && save_text(h) == save_text(NN()) && h.NumPoints() == 0;
  });
  r.b("hctor", ctor).b("hreinit", reinit).b("hunch", unch).b("hswap", swp);
}

// ---- lattice instances (integer metrics)
static void nn_tree_int(int metric, int bucket, const vector<int>& pts) {
  IntMetric d{metric}; NNI t; string init = guarded([&] { t.Initialize(pts, d, bucket); });
  Rec r; r.str("e", "nnt").i("m", metric).i("b", bucket).li("pts", vector<ll>(pts.begin(), pts.end())).i("np", (ll) pts.size()).str("init", init);
  vector<ll> hdr; vector<vector<ll> > nodes; int bk = -1; bool parsed = parse_tree<ll>(save_text(t), hdr, nodes, bk);
  vector<vector<ll> > D(pts.size(), vector<ll>(pts.size()));
  for (size_t i = 0; i < pts.size(); ++i) for (size_t j = 0; j < pts.size(); ++j) D[i][j] = d(pts[i], pts[j]);
  NNI a, b; bool okT = false, okB = false, okOp = false; string rt; roundtrips(t, a, b, okT, okB, okOp, rt);
  r.b("parsed", parsed).raw("hdr", jl(hdr)).raw("tree", jll(nodes)).raw("D", jll(D)).i("npo", t.NumPoints());
  r.str("rt", rt).b("rtt", okT).b("rtb", okB).b("rto", okOp);
  { vector<int> other(pts.rbegin(), pts.rend()); other.push_back(metric == 1 ? 4 : 2); nn_histories(r, t, pts, other, d, bucket); }
  r.emit();
}

static void nn_search_int(int metric, int bucket, const vector<int>& pts, int q, int k, int maxd, int mind, bool exh, int tol) {
  IntMetric d{metric}; NNI t; guarded([&] { t.Initialize(pts, d, bucket); });
  NNI a, b; bool okT, okB, okOp; string rt; roundtrips(t, a, b, okT, okB, okOp, rt);
  int md = maxd < 0 ? numeric_limits<int>::max() : maxd;
  vector<int> ind, ind2, ind3; int dret = -7, d2 = -7, d3 = -7;
  string out = guarded([&] { dret = t.Search(pts, d, q, ind, k, md, mind, exh, tol); });
  guarded([&] { d2 = a.Search(pts, d, q, ind2, k, md, mind, exh, tol); d3 = b.Search(pts, d, q, ind3, k, md, mind, exh, tol); });
  vector<ll> dq; for (int p : pts) dq.push_back(d(p, q));
  Rec r; r.str("e", "nns").i("m", metric).i("b", bucket).li("pts", vector<ll>(pts.begin(), pts.end())).i("np", (ll) pts.size()).i("q", q)
    .i("k", k).i("maxd", maxd < 0 ? 1000000 : maxd).i("mind", mind).b("exh", exh).i("tol", tol).str("out", out).li("dq", dq)
    .li("ind", vector<ll>(ind.begin(), ind.end())).i("d", dret).b("lat", true)
    .b("rtsame", ind2 == ind && ind3 == ind && d2 == dret && d3 == dret).str("kf", tol > 0 && maxd >= 0 ? "nn-tol-maxdist" : "none");
  r.emit();
}

// ---- random instances: dist_t = double; all doubles are replaced by their ranks (order preserving), so that the brute-force
// comparison in the specification is exact
struct GeoMetric {
  const Geodesic* g;
  double operator()(const pair<double, double>& a, const pair<double, double>& b) const { double s; g->Inverse(a.first, a.second, b.first, b.second, s); return s; }
};
struct GridMetric {   // integer-valued points in the plane; kind 0: L1, 1: Linf, 2: weighted L1 (2 dx + 3 dy).  All three are exact in
  int kind;           // doubles, so that the triangle inequality the class demands holds exactly (a rounded Euclidean distance violates
  double operator()(const pair<double, double>& a, const pair<double, double>& b) const {   // it by an ulp for collinear lattice points)
    double dx = fabs(a.first - b.first), dy = fabs(a.second - b.second);
    return kind == 0 ? dx + dy : kind == 1 ? max(dx, dy) : 2 * dx + 3 * dy;
  }
};
struct Ranker {
  vector<double> v; void add(double x) { v.push_back(x); }
  void done() { sort(v.begin(), v.end()); v.erase(unique(v.begin(), v.end()), v.end()); }
  ll operator()(double x) const { return (ll)(lower_bound(v.begin(), v.end(), x) - v.begin()); }
};

template<class M> static void nn_random(vt::Rng& g, ll id, const M& d, const vector<pair<double, double> >& pts, int mkind, bool withtree,
                                        const vector<pair<double, double> >& queries) {
  typedef NearestNeighbor<double, pair<double, double>, M> NN;
  int bucket = int(g.range(0, 10)); if (g.coin()) bucket = 4;
  NN t; string init = guarded([&] { t.Initialize(pts, d, bucket); });
  NN a, b; bool okT = false, okB = false, okOp = false; string rt; roundtrips(t, a, b, okT, okB, okOp, rt);
  size_t n = pts.size();
  if (withtree) {
    vector<ll> hdr; vector<vector<double> > nodes; int bk = -1; bool parsed = parse_tree<double>(save_text(t), hdr, nodes, bk);
    Ranker R; vector<vector<double> > D(n, vector<double>(n));
    for (size_t i = 0; i < n; ++i) for (size_t j = 0; j < n; ++j) { D[i][j] = d(pts[i], pts[j]); R.add(D[i][j]); }
    for (auto& nd : nodes) if (nd[0] >= 0) { R.add(nd[1]); R.add(nd[2]); R.add(nd[4]); R.add(nd[5]); }
    R.add(0); R.done();
    vector<vector<ll> > Dr(n, vector<ll>(n)), tr;
    for (size_t i = 0; i < n; ++i) for (size_t j = 0; j < n; ++j) Dr[i][j] = R(D[i][j]);
    for (auto& nd : nodes) { vector<ll> q; q.push_back((ll) nd[0]);
      if (nd[0] >= 0) { q.push_back(R(nd[1])); q.push_back(R(nd[2])); q.push_back((ll) nd[3]); q.push_back(R(nd[4])); q.push_back(R(nd[5])); q.push_back((ll) nd[6]); }
      else for (size_t l = 1; l < nd.size(); ++l) q.push_back((ll) nd[l]);
      tr.push_back(q); }
    Rec r; r.str("e", "nnt").i("id", id).i("m", 100 + mkind).i("b", bucket).i("np", (ll) n).str("init", init).b("parsed", parsed).raw("hdr", jl(hdr))
      .raw("tree", jll(tr)).raw("D", jll(Dr)).i("npo", t.NumPoints()).i("zero", R(0)).str("rt", rt).b("rtt", okT).b("rtb", okB).b("rto", okOp);
    { vector<pair<double, double> > other(pts.rbegin(), pts.rend()); other.push_back(make_pair(1.0, 2.0)); nn_histories(r, t, pts, other, d, bucket); }
    r.emit();
  }
  for (auto& q : queries) {
    vector<double> dq(n); for (size_t i = 0; i < n; ++i) dq[i] = d(pts[i], q);
    vector<double> sorted = dq; sort(sorted.begin(), sorted.end());
    int k = int(g.range(1, 6)); if (g.range(0, 5) == 0) k = int(g.range(0, (ll) n + 2));
    double maxd = numeric_limits<double>::max(), mind = -1; bool exh = g.range(0, 3) != 0;
    if (n && g.coin()) maxd = sorted[g.range(0, (ll) n - 1)] * (g.coin() ? 1.0 : g.uni(0.5, 1.5));      // often exactly the distance of a point (closed end)
    if (n && g.range(0, 2) == 0) mind = sorted[g.range(0, (ll) n - 1)] * (g.coin() ? 1.0 : g.uni(0.0, 1.2));   // open end
    if (g.range(0, 7) == 0) mind = 0;
    vector<int> ind, ind2, ind3; double dret = -7, d2 = -7, d3 = -7;
    string out = guarded([&] { dret = t.Search(pts, d, q, ind, k, maxd, mind, exh); });
    guarded([&] { d2 = a.Search(pts, d, q, ind2, k, maxd, mind, exh); d3 = b.Search(pts, d, q, ind3, k, maxd, mind, exh); });
    Ranker R; for (double x : dq) R.add(x); R.add(maxd); R.add(mind); R.add(-1); if (dret >= 0) R.add(dret); R.done();
    vector<ll> dqr; for (double x : dq) dqr.push_back(R(x));
    Rec r; r.str("e", "nns").i("id", id).i("m", 100 + mkind).i("b", bucket).i("np", (ll) n).i("k", k).i("maxd", R(maxd)).i("mind", R(mind)).b("exh", exh).i("tol", 0)
      .str("out", out).li("dq", dqr).li("ind", vector<ll>(ind.begin(), ind.end())).i("d", dret == -1 ? -1 : R(dret)).b("lat", false)
      .b("rtsame", ind2 == ind && ind3 == ind && vt::bits(d2) == vt::bits(dret) && vt::bits(d3) == vt::bits(dret)).str("kf", "none");
    r.emit();
  }
}

static void rec_nn(vt::Rng& g, ll id) {
  int mk = int(g.range(0, 3));
  bool withtree = g.range(0, 3) == 0;
  int n = withtree ? int(g.range(0, 24)) : int(g.range(0, 120));
  if (g.range(0, 9) == 0) n = int(g.range(0, 3));
  vector<pair<double, double> > pts, qs;
  int nq = withtree ? 3 : 6;
  if (mk == 0) {
    static Geodesic wgs = Geodesic::WGS84();
    bool cluster = g.coin(); double clat = g.uni(-80, 80), clon = g.uni(-180, 180);
    for (int i = 0; i < n; ++i) { double la, lo; if (cluster) { la = clat + g.uni(-2, 2); lo = clon + g.uni(-2, 2); } else { la = asin(g.uni(-1, 1)) * 180 / double(PIL); lo = g.uni(-180, 180); } pts.push_back(make_pair(la, lo)); }
    if (n > 3 && g.coin()) pts[g.range(0, n - 1)] = pts[g.range(0, n - 1)];      // coincident points are allowed
    for (int i = 0; i < nq; ++i) { if (n && g.range(0, 3) == 0) qs.push_back(pts[g.range(0, n - 1)]); else if (cluster) qs.push_back(make_pair(clat + g.uni(-3, 3), clon + g.uni(-3, 3))); else qs.push_back(make_pair(g.uni(-90, 90), g.uni(-180, 180))); }
    nn_random(g, id, GeoMetric{&wgs}, pts, 0, withtree, qs);
  } else {
    int span = int(g.range(1, 12));
    for (int i = 0; i < n; ++i) pts.push_back(make_pair(double(g.range(-span, span)), double(g.range(-span, span))));
    for (int i = 0; i < nq; ++i) qs.push_back(make_pair(double(g.range(-span - 2, span + 2)), double(g.range(-span - 2, span + 2))));
    nn_random(g, id, GridMetric{mk - 1}, pts, mk, withtree, qs);
  }
}

// ================================================================== lattice replay (unit-degree sphere)
// displacement -> [round(2 x), residual in pm]
static void halfq(vector<ll>& o, double x) {
  if (!std::isfinite(x)) { o.push_back(2000000001LL); o.push_back(0); return; }
  LD t = nearbyintl(2 * (LD)x); o.push_back((ll) t); o.push_back(sq((LD)x - t / 2, 1e-12L));
}

// ellipsoids of the lattice intersections: 0 = the unit-degree sphere; 1..4 = the same equatorial radius (one degree of longitude
// along the equator is one metre on each of them), f = 0.1, -0.1, 0.2, -0.25 with the exact solver
static const Intersect& lattice_intersect(int ell, const Geodesic** gp = nullptr) {
  static const double LF[] = {0, 0.1, -0.1, 0.2, -0.25};
  static Geodesic* G[5] = {nullptr, nullptr, nullptr, nullptr, nullptr}; static Intersect* I[5] = {nullptr, nullptr, nullptr, nullptr, nullptr};
  if (ell < 0 || ell > 4) ell = 0;
  if (!I[ell]) { G[ell] = new Geodesic(RA, LF[ell], ell > 0); I[ell] = new Intersect(*G[ell]); }
  if (gp) *gp = G[ell];
  return *I[ell];
}

static void replay() {
  string line;
  while (getline(cin, line)) {
    auto t = vt::split(line); if (t.empty()) continue;
    auto I_ = [&](size_t i) { return atoi(t[i].c_str()); };
    if (t[0] == "nnt") {            // nnt metric bucket n p1..pn
      vector<int> pts; for (int i = 0; i < I_(3); ++i) pts.push_back(I_(4 + i));
      nn_tree_int(I_(1), I_(2), pts);
    } else if (t[0] == "nns") {     // nns metric bucket q k maxd mind exh tol n p1..pn
      vector<int> pts; for (int i = 0; i < I_(9); ++i) pts.push_back(I_(10 + i));
      nn_search_int(I_(1), I_(2), pts, I_(3), I_(4), I_(5), I_(6), I_(7) != 0, I_(8));
    } else if (t[0] == "ic" || t[0] == "ia" || t[0] == "in") {
      // ic|ia|in  incA nodeA sA incB nodeB sB  latA lonA aziA latB lonB aziB  p0x p0y  maxd  ell
      double latA = I_(7), lonA = I_(8), aziA = I_(9), latB = I_(10), lonB = I_(11), aziB = I_(12); double p0x = I_(13), p0y = I_(14), maxd = I_(15);
      int ell = I_(16); const Intersect& I = lattice_intersect(ell);
      Rec r; r.str("e", t[0]).li("A", {I_(1), I_(2), I_(3)}).li("B", {I_(4), I_(5), I_(6)}).li("p0", {I_(13), I_(14)}).i("maxd", I_(15)).i("ell", ell);
      if (t[0] == "ic") {
        int c = -9; Intersect::Point p(0, 0); string out = guarded([&] { p = I.Closest(latA, lonA, aziA, latB, lonB, aziB, Intersect::Point(p0x, p0y), &c); });
        vector<ll> q; halfq(q, p.first); halfq(q, p.second); r.str("out", out).li("p", q).i("c", c);
        // for coincident circles: the invariant of the coincidence line y - c x and the L1 distance from the origin
        vector<ll> lin, l1q; halfq(lin, p.second - c * p.first); halfq(l1q, double(fabsl((LD)p.first - p0x) + fabsl((LD)p.second - p0y)));
        r.li("lin", lin).li("l1", l1q);
      } else if (t[0] == "in") {
        int c = -9; Intersect::Point p(0, 0); string out = guarded([&] { p = I.Next(latA, lonA, aziA, aziB, &c); });
        vector<ll> q; halfq(q, p.first); halfq(q, p.second); r.str("out", out).li("p", q).i("c", c);
        vector<ll> lin; halfq(lin, p.second - c * p.first); r.li("lin", lin);
      } else {
        vector<int> cs; vector<Intersect::Point> all; string out = guarded([&] { all = I.All(latA, lonA, aziA, latB, lonB, aziB, maxd, cs, Intersect::Point(p0x, p0y)); });
        vector<vector<ll> > L; for (size_t i = 0; i < all.size(); ++i) { vector<ll> q; halfq(q, all[i].first); halfq(q, all[i].second); q.push_back(i < cs.size() ? cs[i] : -9); L.push_back(q); }
        r.str("out", out).raw("ps", jll(L));
      }
      r.emit();
    } else if (t[0] == "is") {
      // is incA nodeA sA lenA incB nodeB sB lenB  latA1 lonA1 latA2 lonA2 latB1 lonB1 latB2 lonB2  ell
      int segmode = -99, c = -9; Intersect::Point p(0, 0);
      int ell = I_(17); const Intersect& I = lattice_intersect(ell);
      string out = guarded([&] { p = I.Segment(I_(9), I_(10), I_(11), I_(12), I_(13), I_(14), I_(15), I_(16), segmode, &c); });
      vector<ll> q; halfq(q, p.first); halfq(q, p.second);
      Rec r; r.str("e", "is").li("A", {I_(1), I_(2), I_(3)}).i("lenA", I_(4)).li("B", {I_(5), I_(6), I_(7)}).i("lenB", I_(8)).i("ell", ell).str("out", out).li("p", q).i("c", c).i("segmode", segmode);
      r.emit();
    } else if (t[0] == "nv") {
      // nv ell lat lon azi cc : Next on one geodesic taken twice (cc = 1 parallel, -1 antiparallel) from the vertex (lat, lon), heading azi
      int ell = I_(1), cc = I_(5); const Geodesic* gp = nullptr; const Intersect& I = lattice_intersect(ell, &gp);
      double lat = I_(2), lon = I_(3), azi = I_(4), aziY = cc > 0 ? azi : azi + 180;
      int c = -9; Intersect::Point p(0, 0); string out = guarded([&] { p = I.Next(lat, lon, azi, aziY, &c); });
      vector<ll> q; halfq(q, p.first); halfq(q, p.second);
      Rec r; r.str("e", "nv").i("ell", ell).i("lat", I_(2)).i("lon", I_(3)).i("azi", I_(4)).i("cc", cc).str("out", out).li("p", q).i("c", c);
      // separation of the two points named by the answer (nm at WGS84 scale) and the spacing of doubles at the displacements
      GeodesicLine lx = gp->Line(lat, lon, azi, Intersect::LineCaps), ly = gp->Line(lat, lon, aziY, Intersect::LineCaps);
      double m = max(fabs(p.first), fabs(p.second));
      Hit h = hit_raw(gp->EquatorialRadius(), gp->Flattening(), AW / RA, lx, ly, p.first, p.second);
      r.i("z", h.z).i("sn", uq(h.sn, 1e-9L)).i("anti", h.anti ? 1 : 0).i("blin", uq(((LD)p.second - cc * (LD)p.first) * (AW / RA), 1e-9L));
      ll um = std::isfinite(m) ? uq(((LD)std::nextafter(m, numeric_limits<double>::infinity()) - m) * (AW / RA), 1e-9L) : 0;
      // known finding (from the inputs only): antiparallel, started at a vertex, exact solver (see rec_xn)
      bool kfc = ell > 0 && cc < 0;
      r.i("um", um).str("kf", kfc ? "int-next-anti-vertex-exact" : "none");
      r.emit();
      if (kfc) {   // the observations the finding does not touch, as a record of their own (no label)
        Rec o; o.str("e", "nvo").i("ell", ell).i("lat", I_(2)).i("lon", I_(3)).i("azi", I_(4)).i("cc", cc).str("out", out).li("p", q).i("z", h.z).i("um", um).str("kf", "none");
        o.emit();
      }
    }
  }
}

// ================================================================== projection objects: replay of the histories of MC_ProjObject
// [round(2 v), residual] with the residual in units of 1e-12 (pm / 1e-12 degree); rk: residual in 1e-15
static string hq(double v) { vector<ll> o; halfq(o, v); return jl(o); }
static string hrk(double v) {
  if (!std::isfinite(v)) return "[2000000001,0]";
  LD t = nearbyintl(2 * (LD)v); vector<ll> o; o.push_back((ll) t); o.push_back(sq((LD)v - t / 2, 1e-15L)); return jl(o);
}
static void replayobj() {
  static Geodesic S(RA, 0);
  AzimuthalEquidistant AZ(S); Gnomonic GN(S);                 // live for the whole replay, serve every centre
  string line;
  while (getline(cin, line)) {
    auto t = vt::split(line); if (t.empty() || t[0] != "ph") continue;
    size_t k = 1; auto nxt = [&]() { return k < t.size() ? atoi(t[k++].c_str()) : 0; };
    int form = nxt(), nc = nxt(); vector<pair<int, int> > cen; for (int i = 0; i < nc; ++i) { int a = nxt(), b = nxt(); cen.push_back(make_pair(a, b)); }
    auto pairs = [&]() { int n = nxt(); vector<pair<int, int> > v; for (int i = 0; i < n; ++i) { int a = nxt(), b = nxt(); v.push_back(make_pair(a, b)); } return v; };
    auto fp = pairs(), rp = pairs(), ap = pairs(), aq = pairs();
    // the history on ONE object
    CassiniSoldner* P = nullptr; size_t first = 0;
    auto state = [&](Rec& r) { r.b("init", P->Init());
      if (P->Init()) r.raw("lat0", hq(P->LatitudeOrigin())).raw("lon0", hq(P->LongitudeOrigin())); else r.raw("lat0", "[0,0]").raw("lon0", "[0,0]"); };
    { Rec r; r.str("e", "Reset").i("form", form);
      if (form == 0) { P = new CassiniSoldner(S); r.li("o", {0, 0}); } else { P = new CassiniSoldner(cen[0].first, cen[0].second, S); first = 1; r.li("o", {cen[0].first, cen[0].second}); }
      state(r); r.emit(); }
    for (size_t i = first; i < cen.size(); ++i) { Rec r; r.str("e", "rs").li("o", {cen[i].first, cen[i].second}); string o = guarded([&] { P->Reset(cen[i].first, cen[i].second); }); r.str("out", o); state(r); r.emit(); }
    bool init = !cen.empty(); int la0 = init ? cen.back().first : 0, lo0 = init ? cen.back().second : 0;
    CassiniSoldner F(la0, lo0, S);                             // the freshly constructed object for the last centre
    for (auto& p : fp) {
      CsOut a = cs_fwd(*P, p.first, p.second), b = cs_fwd(F, p.first, p.second);
      double xs = vt::sentinel(1), ys = vt::sentinel(2); string o1 = guarded([&] { P->Forward(p.first, p.second, xs, ys); });
      Rec r; r.str("e", "pf").li("p", {p.first, p.second}).li("fo", {la0, lo0}).str("out", a.out).b("init", P->Init()).b("untouched", cs_untouched(a) && vt::is_sentinel(xs, 1) && vt::is_sentinel(ys, 2));
      r.raw("x", hq(a.v[0])).raw("y", hq(a.v[1])).raw("azi", hq(a.v[2])).raw("rk", hrk(a.v[3])).b("fresh", cs_same(a, b)).b("ovl", o1 == a.out && sameb({a.v[0], a.v[1]}, {xs, ys}));
      r.emit();
    }
    for (auto& q : rp) {
      CsOut a = cs_rev(*P, q.first, q.second), b = cs_rev(F, q.first, q.second);
      double ls = vt::sentinel(1), os = vt::sentinel(2); string o1 = guarded([&] { P->Reverse(q.first, q.second, ls, os); });
      Rec r; r.str("e", "pr").li("q", {q.first, q.second}).li("fo", {la0, lo0}).str("out", a.out).b("init", P->Init()).b("untouched", cs_untouched(a) && vt::is_sentinel(ls, 1) && vt::is_sentinel(os, 2));
      r.raw("lat", hq(a.v[0])).raw("lon", hq(a.v[1])).raw("azi", hq(a.v[2])).raw("rk", hrk(a.v[3])).b("fresh", cs_same(a, b)).b("ovl", o1 == a.out && sameb({a.v[0], a.v[1]}, {ls, os}));
      r.emit();
    }
    // the stateless projections with the centre the history has reached: the long-lived objects against new ones
    AzimuthalEquidistant AZ1(S); Gnomonic GN1(S);
    for (auto& p : ap) {
      { double x = vt::sentinel(1), y = vt::sentinel(2), azi = vt::sentinel(3), rk = vt::sentinel(4), x1 = x, y1 = y, a1 = azi, r1 = rk, xs = x, ys = y;
        string out = guarded([&] { AZ.Forward(la0, lo0, p.first, p.second, x, y, azi, rk); });
        guarded([&] { AZ1.Forward(la0, lo0, p.first, p.second, x1, y1, a1, r1); AZ.Forward(la0, lo0, p.first, p.second, xs, ys); });
        Rec r; r.str("e", "af").li("o", {la0, lo0}).li("p", {p.first, p.second}).str("out", out).raw("x", hq(x)).raw("y", hq(y)).raw("azi", hq(azi));
        r.b("lived", sameb({x, y, azi, rk}, {x1, y1, a1, r1})).b("ovl", sameb({x, y}, {xs, ys})); r.emit(); }
      { double x = vt::sentinel(1), y = vt::sentinel(2), azi = vt::sentinel(3), rk = vt::sentinel(4), x1 = x, y1 = y, a1 = azi, r1 = rk, xs = x, ys = y;
        string out = guarded([&] { GN.Forward(la0, lo0, p.first, p.second, x, y, azi, rk); });
        guarded([&] { GN1.Forward(la0, lo0, p.first, p.second, x1, y1, a1, r1); GN.Forward(la0, lo0, p.first, p.second, xs, ys); });
        Rec r; r.str("e", "gf").li("o", {la0, lo0}).li("p", {p.first, p.second}).str("out", out).b("nan", std::isnan(x) && std::isnan(y));
        r.raw("tx", hq(x / RA)).raw("ty", hq(y / RA)).raw("azi", hq(azi)).raw("rk", hrk(rk));
        r.b("lived", sameb({x, y, azi, rk}, {x1, y1, a1, r1})).b("ovl", sameb({x, y}, {xs, ys})); r.emit(); }
    }
    for (auto& q : aq) {
      double la = 0, lo = 0, azi = 0, rk = 0, l1_ = 0, o1_ = 0, a1 = 0, r1 = 0, ls = 0, os = 0;
      string out = guarded([&] { AZ.Reverse(la0, lo0, q.first, q.second, la, lo, azi, rk); });
      guarded([&] { AZ1.Reverse(la0, lo0, q.first, q.second, l1_, o1_, a1, r1); AZ.Reverse(la0, lo0, q.first, q.second, ls, os); });
      Rec r; r.str("e", "ar").li("o", {la0, lo0}).li("q", {q.first, q.second}).str("out", out).raw("lat", hq(la)).raw("lon", hq(lo)).raw("azi", hq(azi));
      r.b("lived", sameb({la, lo, azi, rk}, {l1_, o1_, a1, r1})).b("ovl", sameb({la, lo}, {ls, os})); r.emit();
    }
    delete P;
  }
}

static void do_record(uint64_t seed, ll n) {
  vt::Rng g(seed);
  for (ll it = 0; it < n; ++it) {
    switch (int(it % 20)) {
      case 0: case 1: case 2: rec_az(g, it); break;
      case 3: case 4: case 5: rec_gn(g, it); break;
      case 6: case 7: case 8: rec_cs(g, it); break;
      case 9: case 10: rec_xc(g, it); break;
      case 11: rec_xn(g, it); break;
      case 12: case 13: rec_xs(g, it); break;
      case 14: rec_xa(g, it); break;
      case 15: rec_nn(g, it); break;
      case 16: rec_xn(g, it, true); break;
      case 17: rec_xs(g, it, true); break;
      case 18: rec_xc(g, it, true); break;
      default: rec_cs(g, it); break;
    }
  }
}

int main(int argc, char** argv) {
  vt::install_terminate();
  if (argc >= 2 && string(argv[1]) == "replay") { replay(); return 0; }
  if (argc >= 2 && string(argv[1]) == "replayobj") { replayobj(); return 0; }
  if (argc >= 5 && string(argv[1]) == "record") g_dbg = atoll(argv[4]);
  if (argc >= 4 && string(argv[1]) == "record") { do_record(strtoull(argv[2], 0, 10), atoll(argv[3])); return 0; }
  fprintf(stderr, "usage: drv_constr replay < vectors | record seed n\n"); return 2;
}
