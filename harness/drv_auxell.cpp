// Driver for C15 (auxiliary latitudes, ellipsoid measures, elliptic functions).
// It executes the real library and logs observations; for the tolerance laws it reduces a result to an integer
// residual against a fixed textbook formula (the defining closed form / integral evaluated in binary128).
// Residual unit: 2^-53 ("ulp" of the auxiliary-latitude documentation), ceil, clipped to 2e9; 2000000001 = NaN;
// -1 = not evaluated.  Tolerances, applicability guards and every accept/reject decision live in the TLA+ trace spec.
#include "trace.hpp"
#include <GeographicLib/AuxLatitude.hpp>
#include <GeographicLib/DAuxLatitude.hpp>
#include <GeographicLib/AuxAngle.hpp>
#include <GeographicLib/Ellipsoid.hpp>
#include <GeographicLib/EllipticFunction.hpp>
#include <GeographicLib/Geodesic.hpp>
#include <GeographicLib/GeodesicExact.hpp>
#include <GeographicLib/Rhumb.hpp>
#include <GeographicLib/TransverseMercator.hpp>
#include <GeographicLib/TransverseMercatorExact.hpp>
#include <GeographicLib/Geocentric.hpp>
#include <GeographicLib/Math.hpp>
#include <functional>
#include <map>
#include <atomic>

using namespace GeographicLib;
using namespace std;
using vt::Rec;
static thread_local FILE* OUT = stdout;      // each worker thread writes to its own memory stream

// =============================================================== binary128 kit
typedef __float128 Q;
extern "C" {
  Q sqrtq(Q); Q sinq(Q); Q cosq(Q); Q tanq(Q); Q atanq(Q); Q atan2q(Q, Q); Q asinq(Q); Q asinhq(Q); Q atanhq(Q);
  Q sinhq(Q); Q coshq(Q); Q tanhq(Q); Q expq(Q); Q logq(Q); Q hypotq(Q, Q); Q cbrtq(Q); Q floorq(Q); Q ceilq(Q);
  Q ldexpq(Q, int); Q log2q(Q); Q nearbyintq(Q);
}
static Q QPI, QH;   // pi, pi/2
static inline Q qabs(Q x) { return x < 0 ? -x : x; }
static inline bool qnan(Q x) { return x != x; }
static inline bool qinf(Q x) { return !qnan(x) && qnan(x - x); }
static inline Q qmax(Q a, Q b) { return a > b ? a : b; }
static inline Q qmin(Q a, Q b) { return a < b ? a : b; }
static inline Q sq(Q x) { return x * x; }

static const long long CLIP = 2000000000LL, RNAN = 2000000001LL;
// v (>= 0) in units of 2^-53, rounded up
static long long qU(Q v) {
  if (qnan(v)) return RNAN;
  Q s = v * (Q)9007199254740992.0;
  if (!(s < (Q)2.0e9)) return CLIP;
  return (long long) ceilq(s);
}
static long long relU(Q got, Q ref) {
  if (qnan(got) || qnan(ref)) return RNAN;
  if (got == ref) return 0;
  if (ref == 0 || qinf(ref) || qinf(got)) return CLIP;
  return qU(qabs(got - ref) / qabs(ref));
}
static long long absU(Q got, Q ref, Q scale) {
  if (qnan(got) || qnan(ref)) return RNAN;
  if (got == ref) return 0;
  if (qinf(ref) || qinf(got)) return CLIP;
  return qU(qabs(got - ref) / scale);
}
// mixed criterion: error relative to max(|ref|, floor)
static long long mixU(Q got, Q ref, Q flr) { return absU(got, ref, qmax(qabs(ref), flr)); }

// exact limbs of a double: [s, e, hi, lo], |v| = (hi*2^31 + lo) * 2^e, 2^21 <= hi < 2^22; s = sign, +-2 = inf, 3 = NaN
static vector<long long> d3(double v) {
  if (std::isnan(v)) return {3, 0, 0, 0};
  if (std::isinf(v)) return {v > 0 ? 2 : -2, 0, 0, 0};
  if (v == 0) return {0, 0, 0, 0};
  int ex; double m = frexp(fabs(v), &ex);
  uint64_t M = (uint64_t) ldexp(m, 53);
  return {v > 0 ? 1 : -1, (long long) ex - 53, (long long)(M >> 31), (long long)(M & 0x7fffffffULL)};
}
static long long ilog2(double v) {   // floor(log2|v|); -9999 zero; 9999 inf/nan
  if (v == 0) return -9999; if (!std::isfinite(v)) return 9999;
  int ex; frexp(fabs(v), &ex); return ex - 1;
}
static int sgn(double v) { return v > 0 ? 1 : v < 0 ? -1 : 0; }

// ---------------------------------------------------------------- Gauss-Legendre, adaptive
static const int GLN = 20;
static Q glx[GLN], glw[GLN];
static void gl_init() {
  for (int i = 0; i < GLN; ++i) {
    Q x = cosq(QPI * (i + (Q)0.75) / (GLN + (Q)0.5)), dp = 0;
    for (int it = 0; it < 100; ++it) {
      Q p0 = 1, p1 = x;
      for (int k = 2; k <= GLN; ++k) { Q p2 = ((2 * k - 1) * x * p1 - (k - 1) * p0) / k; p0 = p1; p1 = p2; }
      dp = GLN * (x * p1 - p0) / (x * x - 1);
      Q dx = p1 / dp; x -= dx;
      if (qabs(dx) < (Q)1e-33) break;
    }
    glx[i] = x; glw[i] = 2 / ((1 - x * x) * dp * dp);
  }
}
static thread_local bool g_qbad = false;     // set when the adaptive rule hit its depth limit (reference unusable)
typedef std::function<Q(Q)> QF;
static Q glpanel(const QF& f, Q a, Q b) {
  Q c = (a + b) / 2, h = (b - a) / 2, s = 0;
  for (int i = 0; i < GLN; ++i) s += glw[i] * f(c + h * glx[i]);
  return s * h;
}
static Q integ(const QF& f, Q a, Q b) {
  if (!(b > a)) return 0;
  struct P { Q a, b, v; int d; };
  vector<P> st; Q total = 0; st.push_back({a, b, glpanel(f, a, b), 0});
  Q rough = qabs(st[0].v);        // magnitude of the integral: panels that cannot matter are not refined
  long budget = 6000;      // panels; a non-integrable or NaN integrand exhausts it and marks the reference unusable
  while (!st.empty()) {
    P p = st.back(); st.pop_back();
    Q m = (p.a + p.b) / 2, l = glpanel(f, p.a, m), r = glpanel(f, m, p.b);
    if (qnan(l + r) || qinf(l + r) || --budget < 0) { g_qbad = true; return total; }
    if (qabs(l + r - p.v) <= (Q)1e-25 * qabs(l + r) || qabs(l + r - p.v) <= (Q)1e-26 * qmax(rough, qabs(total))) total += l + r;
    else if (p.d >= 1300) { g_qbad = true; total += l + r; }
    else { st.push_back({p.a, m, l, p.d + 1}); st.push_back({m, p.b, r, p.d + 1}); }
  }
  return total;
}

// ---------------------------------------------------------------- Carlson symmetric integrals in binary128
// (DLMF 19.36(i): duplication until the arguments agree to 1e-5, then the degree-7 series: error ~1e-40)
static Q qRF(Q x, Q y, Q z) {
  Q A0 = (x + y + z) / 3, An = A0, x0 = x, y0 = y, z0 = z, mul = 1;
  Q D = qmax(qmax(qabs(A0 - x), qabs(A0 - y)), qabs(A0 - z));
  for (int n = 0; n < 400 && !(D < (Q)1e-5 * mul * qabs(An)); ++n) {
    Q lam = sqrtq(x0) * sqrtq(y0) + sqrtq(y0) * sqrtq(z0) + sqrtq(z0) * sqrtq(x0);
    An = (An + lam) / 4; x0 = (x0 + lam) / 4; y0 = (y0 + lam) / 4; z0 = (z0 + lam) / 4; mul *= 4;
  }
  Q X = (A0 - x) / (mul * An), Y = (A0 - y) / (mul * An), Z = -(X + Y), E2 = X * Y - Z * Z, E3 = X * Y * Z;
  return (1 - E2 / 10 + E3 / 14 + E2 * E2 / 24 - 3 * E2 * E3 / 44 - 5 * E2 * E2 * E2 / 208 + 3 * E3 * E3 / 104
          + E2 * E2 * E3 / 16) / sqrtq(An);
}
static Q qRC(Q x, Q y) {
  if (x == y) return 1 / sqrtq(y);
  if (x < y) return atanq(sqrtq((y - x) / x)) / sqrtq(y - x);   // x = 0 -> atan(inf) = pi/2
  return atanhq(sqrtq((x - y) / x)) / sqrtq(x - y);
}
static Q ser57(Q E2, Q E3, Q E4, Q E5) {
  return 1 - 3 * E2 / 14 + E3 / 6 + 9 * E2 * E2 / 88 - 3 * E4 / 22 - 9 * E2 * E3 / 52 + 3 * E5 / 26 - E2 * E2 * E2 / 16
         + 3 * E3 * E3 / 40 + 3 * E2 * E4 / 20 + 45 * E2 * E2 * E3 / 272 - 9 * (E3 * E4 + E2 * E5) / 68;
}
static Q qRD(Q x, Q y, Q z) {
  Q A0 = (x + y + 3 * z) / 5, An = A0, x0 = x, y0 = y, z0 = z, mul = 1, s = 0;
  Q D = qmax(qmax(qabs(A0 - x), qabs(A0 - y)), qabs(A0 - z));
  for (int n = 0; n < 400 && !(D < (Q)1e-5 * mul * qabs(An)); ++n) {
    Q lam = sqrtq(x0) * sqrtq(y0) + sqrtq(y0) * sqrtq(z0) + sqrtq(z0) * sqrtq(x0);
    s += 1 / (mul * sqrtq(z0) * (z0 + lam));
    An = (An + lam) / 4; x0 = (x0 + lam) / 4; y0 = (y0 + lam) / 4; z0 = (z0 + lam) / 4; mul *= 4;
  }
  Q X = (A0 - x) / (mul * An), Y = (A0 - y) / (mul * An), Z = -(X + Y) / 3;
  Q E2 = X * Y - 6 * Z * Z, E3 = (3 * X * Y - 8 * Z * Z) * Z, E4 = 3 * (X * Y - Z * Z) * Z * Z, E5 = X * Y * Z * Z * Z;
  return ser57(E2, E3, E4, E5) / (mul * An * sqrtq(An)) + 3 * s;
}
// incomplete E(phi, k^2) from s = sin(phi) >= 0, c = cos(phi) >= 0 (DLMF 19.25.9), any k^2 < 1
static Q qEinc(Q s, Q c, Q k2) {
  if (s == 0) return 0;
  Q d2 = k2 > 0 ? (1 - k2) + k2 * c * c : 1 - k2 * s * s;
  return s * (qRF(c * c, d2, 1) - k2 * s * s * qRD(c * c, d2, 1) / 3);
}

// =============================================================== auxiliary latitudes: the defining relations
struct Ell {
  double a, f; Q fm1, e2, ee, ep;   // ee = e (oblate), ep = sqrt(-e2) (prolate)
  Ell(double a_, double f_) : a(a_), f(f_) { init(1 - (Q)f_); }
  // the ellipsoid given by its semi-axes: 1 - f = b/a exactly (AuxLatitude::axes)
  Ell(double a_, double b_, int) : a(a_), f(double(1 - (Q)b_ / (Q)a_)) { init((Q)b_ / (Q)a_); }
  void init(Q fm1_) { fm1 = fm1_; Q F = 1 - fm1; e2 = F * (2 - F); ee = e2 > 0 ? sqrtq(e2) : 0; ep = e2 < 0 ? sqrtq(-e2) : 0; }
  Q athE(Q x) const { return e2 > 0 ? atanhq(ee * x) / ee : e2 < 0 ? atanq(ep * x) / ep : x; }   // atanh(e x)/e
};
enum { PHI = 0, BETA = 1, THETA = 2, MU = 3, CHI = 4, XI = 5 };

// meridian arcs on the ellipsoid with a = 1: from the equator to beta, and from beta to the pole
static void arcs(const Ell& E, Q tb, Q& sa, Q& sb) {
  Q h = hypotq(1, tb), sbeta = tb / h, cbeta = 1 / h;
  Q kb = -(1 - E.fm1 * E.fm1) / (E.fm1 * E.fm1);
  sa = E.fm1 * qEinc(sbeta, cbeta, kb);      // int_0^beta sqrt(sin^2 + fm1^2 cos^2)
  sb = qEinc(cbeta, sbeta, E.e2);            // int_0^(pi/2-beta) sqrt(cos^2 + fm1^2 sin^2)
}
// the same arcs by direct quadrature of the arc-length element (definition)
static void arcs_quad(const Ell& E, Q tb, Q& sa, Q& sb) {
  Q b1 = atanq(tb), b2 = atan2q(1, tb), g = E.fm1 * E.fm1;
  sa = integ([&](Q t) { Q s = sinq(t), c = cosq(t); return sqrtq(s * s + g * c * c); }, 0, b1);
  sb = integ([&](Q t) { Q s = sinq(t), c = cosq(t); return sqrtq(c * c + g * s * s); }, 0, b2);
}
// tangent of auxiliary latitude k at tan(phi) = tau >= 0
static Q Tref(const Ell& E, int k, Q tau, bool quad = false) {
  if (tau == 0 || qinf(tau) || k == PHI) return tau;
  if (k == BETA) return E.fm1 * tau;
  if (k == THETA) return E.fm1 * E.fm1 * tau;
  if (E.e2 == 0) return tau;
  Q h = hypotq(1, tau), s = tau / h;
  if (k == CHI) {
    Q psi = asinhq(tau) - E.e2 * E.athE(s);          // asinh(tan phi) - e atanh(e sin phi)
    return sinhq(psi);
  }
  if (k == XI) {
    Q c2 = 1 / (1 + tau * tau), om = c2 / (1 + s);   // cos^2, 1 - sin
    Q qv, qp, dl;
    if (!quad) {
      qv = s / (1 - E.e2 * s * s) + E.athE(s);
      qp = 1 / (1 - E.e2) + E.athE(1);
      Q d2 = E.e2 > 0 ? atanhq(E.ee * om / (1 - E.e2 * s)) / E.ee : atanq(E.ep * om / (1 - E.e2 * s)) / E.ep;
      dl = om * (1 + E.e2 * s) / ((1 - E.e2) * (1 - E.e2 * s * s)) + d2;
    } else {
      // area of the zone by quadrature of 2 cos(phi) / (1 - e2 sin^2)^2 dphi (same normalisation as q)
      Q p1 = atanq(tau), p2 = atan2q(1, tau);
      qv = integ([&](Q t) { Q u = sinq(t); return 2 * cosq(t) / sq(1 - E.e2 * u * u); }, 0, p1);
      dl = integ([&](Q t) { Q u = cosq(t); return 2 * sinq(t) / sq(1 - E.e2 * u * u); }, 0, p2);
      qp = qv + dl;
    }
    return qv / sqrtq(dl * (qp + qv));
  }
  // MU
  Q sa, sb; if (quad) arcs_quad(E, E.fm1 * tau, sa, sb); else arcs(E, E.fm1 * tau, sa, sb);
  Q M = sa + sb;
  return sinq(QH * sa / M) / sinq(QH * sb / M);
}
// tan(phi) with Tref(k, tau) = tz (tz >= 0): closed form or safeguarded secant in log space
static Q tauFrom(const Ell& E, int k, Q tz) {
  if (tz == 0 || qinf(tz) || k == PHI) return tz;
  if (k == BETA) return tz / E.fm1;
  if (k == THETA) return tz / (E.fm1 * E.fm1);
  if (E.e2 == 0) return tz;
  Q L = logq(tz), lf = logq(E.fm1);
  auto g = [&](Q x) { return logq(Tref(E, k, expq(x))) - L; };
  Q x0 = L - (k == MU ? (Q)1.5 : k == CHI ? (Q)2 : (Q)4 / 3) * lf;
  Q lo = x0 - 2, hi = x0 + 2, glo = g(lo), ghi = g(hi);
  for (int i = 0; i < 40 && glo > 0; ++i) { lo -= 4; glo = g(lo); }
  for (int i = 0; i < 40 && ghi < 0; ++i) { hi += 4; ghi = g(hi); }
  Q xa = lo, ga = glo, xb = hi, gb = ghi, x = x0;
  for (int it = 0; it < 200; ++it) {
    Q gx = g(x);
    if (qabs(gx) < (Q)1e-31) break;
    if (gx < 0) { lo = x; } else { hi = x; }
    // secant through the two most recent points
    xa = xb; ga = gb; xb = x; gb = gx;
    Q xn = (gb != ga) ? xb - gb * (xb - xa) / (gb - ga) : (lo + hi) / 2;
    if (!(xn > lo && xn < hi)) xn = (lo + hi) / 2;
    if (hi - lo < (Q)1e-32 * qmax(1, qabs(x))) break;
    x = xn;
  }
  return expq(x);
}
// d log T_b / d log T_a at tan(phi) = tau (numerical, binary128)
static Q kappa(const Ell& E, int a, int b, Q tau) {
  if (tau == 0 || qinf(tau)) return 1;
  Q x = logq(tau), h = (Q)1e-9;
  auto dl = [&](int k) { return (logq(Tref(E, k, expq(x + h))) - logq(Tref(E, k, expq(x - h)))) / (2 * h); };
  return dl(b) / dl(a);
}
// angle between direction (gy, gx) and the direction with tangent T >= 0 in the first quadrant
static Q dang(Q gy, Q gx, Q T) {
  if (qinf(gy)) { gy = gy > 0 ? 1 : -1; gx = 0; } else if (qinf(gx)) { gx = gx > 0 ? 1 : -1; gy = 0; }
  Q ry, rx; if (qinf(T)) { ry = 1; rx = 0; } else if (T > 1) { ry = 1; rx = 1 / T; } else { ry = T; rx = 1; }
  return atan2q(gy * rx - gx * ry, gx * rx + gy * ry);
}
static Q qtan(const AuxAngle& z) { return (Q)z.y() / (Q)z.x(); }
// residual of a tangent (as a double) against the reference: relative, with the representation limits of a double
// taken into account (below 2^-1021 the unit is 2^-53 * 2^-1021 = 2^-1074, one denormal quantum, i.e. the budget
// is counted in units of the local spacing; above DBL_MAX the reference is +inf)
static long long relT(Q got, Q ref) {
  if (qnan(got) || qnan(ref)) return RNAN;
  if (ref > (Q)1.7976931348623157e308) ref = 1 / (Q)0.0;
  if (got == ref) return 0;
  Q mn = ldexpq(1, -1021);
  if (qabs(ref) < mn) return absU(got, ref, mn);
  return relU(got, ref);
}
static Q qang(Q T) { return qinf(T) ? QH : atanq(T); }
static int cls_of(const AuxAngle& z) {   // 0 zero, 1 generic, 2 pole, 3 nan
  double t = z.tan();
  if (std::isnan(t) || std::isnan(z.x()) || std::isnan(z.y())) return 3;
  if (t == 0) return 0; if (std::isinf(t)) return 2; return 1;
}
static int sgn_of(const AuxAngle& z) { return sgn(z.y()) * (std::signbit(z.x()) ? -1 : 1); }
static long long Fq(double f) { return vt::q1(f, 1e-6L); }

// =============================================================== AuxLatitude observations
// lattice ellipsoids (index fi shared with AuxLat.tla: 1 - f = P * 2^-k)
struct LatEll { double a; int P, k; };
static const LatEll LATELL[] = {
  {1, 1, 0}, {6378137, 1, 1}, {1, 1, -1}, {6378137, 3, 2}, {1, 3, 1}, {6378137, 127, 7}, {1, 129, 7},
  {6378137, 1, 6}, {1, 1, -6}, {6378137, 255, 8}, {1, 257, 8}, {6378137, 511, 9}, {1, 513, 9}};
static const int NLATELL = sizeof(LATELL) / sizeof(LATELL[0]);
static double latf(int fi) { return 1.0 - ldexp(double(LATELL[fi].P), -LATELL[fi].k); }

// cm = construction mode of the AuxLatitude object: 0 AuxLatitude(a, f); 1 AuxLatitude::axes(a, b) with b = a (1 - f) rounded
// to a double (the reference ellipsoid is then the one with 1 - f = b/a exactly)
struct AuxCtx {
  Ell E; DAuxLatitude aux; Ellipsoid ell; AuxLatitude* alt; int cm;
  AuxCtx(double a, double f) : E(a, f), aux(a, f), ell(a, f), alt(nullptr), cm(0) {}
  AuxCtx(double a, double f, double b) : E(a, b, 0), aux(a, f), ell(a, f), alt(new AuxLatitude(AuxLatitude::axes(a, b))), cm(1) {}
  const AuxLatitude& A() const { return alt ? *alt : static_cast<const AuxLatitude&>(aux); }
};
static AuxCtx& ctx_for(double a, double f, int cm = 0) {
  static thread_local map<pair<pair<double, double>, int>, AuxCtx*> cache;
  auto key = make_pair(make_pair(a, f), cm); auto it = cache.find(key);
  if (it != cache.end()) return *it->second;
  AuxCtx* c = cm == 1 ? new AuxCtx(a, f, a * (1 - f)) : new AuxCtx(a, f); cache[key] = c; return *c;
}

// Input classes of the known defects at the two ends of the tangent range (exact conversions of generic angles), computed from
// the flattening, the kinds of latitude and the input tangent only; k_a = 3/2, 2, 4/3 is the exponent of the documented start
// value tan(zeta) / (1-f)^k_a of the Newton iteration from MU, CHI, XI:
//  aux-newton-start-underflow    a in {MU, CHI, XI}, f < 0, tan(zeta) (1-f)^-k_a < 2^-1073 (the start value rounds to 0 or to the last denormals)
//  aux-newton-trial-overflow     a in {MU, CHI, XI}, f > 0, tan(zeta) (1-f)^-k_a >= 2^1023 (the start value overflows);
//                                a = CHI, f < 0, tan(zeta) (1-f)^-2 exp(e' atan e') >= 2^1023, e'^2 = -e^2 (tan(chi) of the start value overflows)
//  aux-conformal-half-underflow  f > 0, a = CHI or b = CHI, (1-f)^2 tan(phi) < 2^-1073 (tan(phi)/2, (1-f) tan(phi) underflow in Conformal)
//  aux-newton-trial-underflow    f > 0, a in {MU, XI}, b != CHI, (1-f)^2 tan(phi) < 2^-1073 (b E(beta) resp. q(phi) underflow at the trial point)
// where tan(phi) is the binary128 reference value for the input.
static const char* kf_extreme(const Ell& E, int a, int b, int m, int zc, Q tz) {
  if (m != 1 || zc != 1 || a == b || E.e2 == 0) return nullptr;
  Q lf = log2q(E.fm1), lt = log2q(tz);
  bool newton = a == MU || a == CHI || a == XI;
  Q ka = a == MU ? (Q)1.5 : a == CHI ? (Q)2 : (Q)4 / 3;
  if (newton && E.e2 < 0 && lt - ka * lf < -1073) return "aux-newton-start-underflow";
  if (newton && E.e2 > 0 && lt - ka * lf >= 1023) return "aux-newton-trial-overflow";
  if (a == CHI && E.e2 < 0 && lt - 2 * lf + E.ep * atanq(E.ep) * log2q(expq(1)) >= 1023) return "aux-newton-trial-overflow";
  if (E.e2 > 0 && (newton || b == CHI)) {
    Q tau = tauFrom(E, a, tz);
    if (2 * lf + log2q(tau) < -1073) return (a == CHI || b == CHI) ? "aux-conformal-half-underflow" : "aux-newton-trial-underflow";
  }
  return nullptr;
}

// common part of a conversion record: classes, residual against the definition
static void conv_obs(AuxCtx& C, int a, int b, int m, const AuxAngle& z, const AuxAngle& o, Rec& r, bool withquad) {
  Q tz = qabs(qtan(z)), to = qabs(qtan(o));
  int zc = cls_of(z), oc = cls_of(o);
  r.i("F", Fq(C.E.f)).i("a", a).i("b", b).i("m", m).i("zc", zc).i("zs", sgn_of(z)).i("oc", oc).i("os", sgn_of(o))
   .i("lt", ilog2(z.tan()));
  long long rt = -1, ra = -1, rq = -1, kap = -1, kin = -1;
  if (zc != 3 && oc != 3) {
    Q tau = tauFrom(C.E, a, tz), T = Tref(C.E, b, tau);
    if (zc == 1) {   // conditioning: dlog T_b / dlog T_a and dlog tan(phi) / dlog T_a, in 1/1000
      kap = vt::q1((long double) kappa(C.E, a, b, tau), 1e-3L); kin = vt::q1((long double) kappa(C.E, a, PHI, tau), 1e-3L); }
    rt = relT(to, T);
    ra = qU(qabs(dang(qabs((Q)o.y()), qabs((Q)o.x()), T)));
    if (withquad && zc == 1) {
      g_qbad = false;
      // definition by quadrature: the point tau must reproduce the input under the integral definition too
      Q Tq = Tref(C.E, b, tau, true), Zq = Tref(C.E, a, tau, true);
      long long r1 = relT(to, Tq), r2 = relT(tz, Zq);
      rq = g_qbad ? -1 : max(r1, r2);
    }
  }
  r.i("rt", rt).i("ra", ra).i("rq", rq).i("kap", kap).i("kin", kin);
  const char* kf = kf_extreme(C.E, a, b, m, zc, tz);
  if (kf) r.str("kf", kf);
}

static AuxAngle mkang(int s, long long mm, int e, int form) {
  // tangent s * mm * 2^e;  form 0: (y, 1), form 1: (s*mm, 2^-e), pole: mm < 0, zero: mm == 0
  // form 2: the pole as (+-inf, 1), the equator as (+-0, 4)
  if (mm < 0) return form == 2 ? AuxAngle(s >= 0 ? INFINITY : -INFINITY, 1.0) : AuxAngle(s >= 0 ? 1.0 : -1.0, 0.0);
  if (mm == 0) return AuxAngle(s >= 0 ? 0.0 : -0.0, form == 2 ? 4.0 : 1.0);
  if (form == 1 && e > -1000 && e < 1000) return AuxAngle(double(s * mm), ldexp(1.0, -e));
  return AuxAngle(ldexp(double(s * mm), e), 1.0);
}

// replay: cv fi a b m s mm e form cm
static void do_cv(const vector<string>& t) {
  int fi = atoi(t[1].c_str()), a = atoi(t[2].c_str()), b = atoi(t[3].c_str()), m = atoi(t[4].c_str());
  int s = atoi(t[5].c_str()); long long mm = atoll(t[6].c_str()); int e = atoi(t[7].c_str()), form = atoi(t[8].c_str());
  int cm = t.size() > 9 ? atoi(t[9].c_str()) : 0;
  AuxCtx& C = ctx_for(LATELL[fi].a, latf(fi), cm);
  AuxAngle z = mkang(s, mm, e, form), o = C.A().Convert(a, b, z, m != 0);
  Rec r; r.str("e", "cv").i("fi", fi).i("cm", cm).li("z", {s, mm, e}).i("form", form);
  conv_obs(C, a, b, m, z, o, r, false);
  r.li("ot", d3(double(qtan(o))));
  // the degree interface on the same input
  double zd = z.degrees(), od = C.A().Convert(a, b, zd, m != 0);
  r.li("zd", d3(zd)).li("od", d3(od));
  r.emit(OUT);
}
// replay: path fi a b c m s mm e
static void path_obs(AuxCtx& C, int a, int b, int c, int m, const AuxAngle& z, Rec& r) {
  AuxAngle v = C.A().Convert(a, b, z, m != 0), w = C.A().Convert(b, c, v, m != 0), d = C.A().Convert(a, c, z, m != 0);
  r.i("F", Fq(C.E.f)).i("a", a).i("b", b).i("c", c).i("m", m).i("zc", cls_of(z)).i("zs", sgn_of(z))
   .i("wc", cls_of(w)).i("ws", sgn_of(w)).i("dc", cls_of(d)).i("ds", sgn_of(d)).i("lt", ilog2(z.tan()));
  long long rt = -1, ra = -1, kap = -1;
  if (cls_of(w) != 3 && cls_of(d) != 3) {
    Q tw = qabs(qtan(w)), td = qabs(qtan(d));
    rt = relT(tw, td);
    ra = qU(qabs(dang(qabs((Q)w.y()), qabs((Q)w.x()), td)));
    if (cls_of(z) == 1) { Q tau = tauFrom(C.E, a, qabs(qtan(z))); kap = vt::q1((long double) kappa(C.E, b, c, tau), 1e-3L); }
  }
  r.i("rt", rt).i("ra", ra).i("kap", kap);
}
static void do_path(const vector<string>& t) {
  int fi = atoi(t[1].c_str()), a = atoi(t[2].c_str()), b = atoi(t[3].c_str()), c = atoi(t[4].c_str()), m = atoi(t[5].c_str());
  int s = atoi(t[6].c_str()); long long mm = atoll(t[7].c_str()); int e = atoi(t[8].c_str());
  AuxCtx& C = ctx_for(LATELL[fi].a, latf(fi));
  Rec r; r.str("e", "path").i("fi", fi).li("z", {s, mm, e});
  path_obs(C, a, b, c, m, mkang(s, mm, e, 0), r);
  r.emit(OUT);
}

// ---------------------------------------------------------------- seeded random samplers
static const double RND_F[] = {1 / 298.257223563, 1 / 150.0, -1 / 150.0, 0.003, -0.003, 0, 0.01, -0.01, 0.1, -0.1,
                               0.5, -1, 0.9, 0.99, -9, -99, 1 / 297.0, 0.2, -0.2, 0.75};
static double rnd_f(vt::Rng& g, bool small) {
  int w = int(g.range(0, 9));
  if (small) {
    if (w < 3) return RND_F[g.range(0, 5)];
    if (w == 3) return RND_F[16];
    return double(g.range(-6666, 6666)) * 1e-6;
  }
  if (w < 5) return RND_F[g.range(0, 19)];
  if (w < 7) return double(g.range(-6666, 6666)) * 1e-6;
  double ba = exp(g.uni(log(0.01), log(100.0)));      // b/a log-uniform in [0.01, 100]
  return double(vt::q1(1 - ba, 1e-6L)) * 1e-6;
}
static double rnd_a(vt::Rng& g) { static const double A[] = {1, 6378137, 4194304, 57.29577951308232}; return A[g.range(0, 3)]; }
// tangent from denormal to 1e300, with the equator / pole / 45 degrees over-sampled
static AuxAngle rnd_ang(vt::Rng& g) {
  int w = int(g.range(0, 15)); double t;
  if (w < 7) t = tan(g.uni(0, 1.5707963267948966));
  else if (w < 10) t = ldexp(g.uni(1, 2), int(g.range(-800, 500)));
  else if (w == 10) t = ldexp(g.uni(1, 2), int(g.range(-60, 60)));
  else if (w == 11) t = 1 + g.uni(-1e-6, 1e-6);
  else if (w == 12) t = ldexp(g.uni(1, 2), int(g.range(-800, -700)));      // denormal tangents (the last 24 binades: 'den' records)
  else if (w == 13) t = ldexp(g.uni(1, 2), int(g.range(400, 500)));       // beyond 2^800: 'den' records
  else t = tan(g.uni(1.5, 1.5707963267948966));
  if (g.coin()) t = -t;
  if (g.range(0, 3) == 0 && fabs(t) > 1e-270 && fabs(t) < 1e270) { double x = ldexp(g.uni(1, 2), int(g.range(-30, 30))); return AuxAngle(t * x, x); }
  return AuxAngle(t, 1.0);
}
// the same with the special points of the domain mixed in (1 in 8): both poles in the forms (+-y, 0) and (+-inf, x) - "either x or y
// can be infinite, but not both" - and the equator as (+-0, x)
static AuxAngle rnd_ang_sp(vt::Rng& g) {
  if (g.range(0, 7) != 0) return rnd_ang(g);
  int w = int(g.range(0, 5)); double sg = g.coin() ? 1.0 : -1.0, x = ldexp(g.uni(1, 2), int(g.range(-3, 3)));
  const double inf = std::numeric_limits<double>::infinity();
  switch (w) {
    case 0: return AuxAngle(sg, 0.0);
    case 1: return AuxAngle(sg * x, 0.0);
    case 2: return AuxAngle(sg * inf, 1.0);
    case 3: return AuxAngle(sg * inf, x);
    case 4: return AuxAngle(sg * 0.0, 1.0);
    default: return AuxAngle(sg * 0.0, x);
  }
}
// construction mode of the AuxLatitude object (1 in 4: from the semi-axes)
static int rnd_cm(vt::Rng& g) { return g.range(0, 3) == 0 ? 1 : 0; }
static void rnd_pair(vt::Rng& g, int& a, int& b) { a = int(g.range(0, 5)); b = int(g.range(0, 5)); if (g.range(0, 7) && a == b) b = (a + 1 + int(g.range(0, 4))) % 6; }

static void rec_cv(vt::Rng& g, long long it) {
  bool ser = g.coin(); double f = rnd_f(g, ser); double aa = rnd_a(g); AuxCtx& C = ctx_for(aa, f, rnd_cm(g));
  int a, b; rnd_pair(g, a, b); int m = ser ? 0 : 1;
  AuxAngle z = rnd_ang_sp(g), o = C.A().Convert(a, b, z, m != 0);
  Rec r; r.str("e", "cv").i("fi", -1).i("cm", C.cm);
  conv_obs(C, a, b, m, z, o, r, (it % 8) == 0 && (a == MU || b == MU || a == XI || b == XI));
  r.emit(OUT);
}
static void rec_rtp(vt::Rng& g) {      // conversion and its inverse
  bool ser = g.coin(); double f = rnd_f(g, ser); double aa = rnd_a(g); AuxCtx& C = ctx_for(aa, f, rnd_cm(g));
  int a, b; rnd_pair(g, a, b); int m = ser ? 0 : 1;
  AuxAngle z = rnd_ang_sp(g), o = C.A().Convert(a, b, z, m != 0), w = C.A().Convert(b, a, o, m != 0);
  Rec r; r.str("e", "rtp").i("cm", C.cm).i("F", Fq(f)).i("a", a).i("b", b).i("m", m).i("zc", cls_of(z)).i("wc", cls_of(w))
    .i("zs", sgn_of(z)).i("ws", sgn_of(w)).i("lt", ilog2(z.tan()));
  Q tz = qabs(qtan(z)), tw = qabs(qtan(w));
  long long kap = -1;
  if (cls_of(z) == 1) { Q tau = tauFrom(C.E, a, tz); kap = vt::q1((long double) kappa(C.E, b, a, tau), 1e-3L); }
  r.i("rt", relT(tw, tz)).i("ra", qU(qabs(dang(qabs((Q)w.y()), qabs((Q)w.x()), tz)))).i("kap", kap);
  r.emit(OUT);
}
static void rec_se(vt::Rng& g) {       // series against exact
  double f = rnd_f(g, true); double aa = rnd_a(g); AuxCtx& C = ctx_for(aa, f, rnd_cm(g));
  int a, b; rnd_pair(g, a, b);
  AuxAngle z = rnd_ang_sp(g), s = C.A().Convert(a, b, z, false), x = C.A().Convert(a, b, z, true);
  Rec r; r.str("e", "se").i("cm", C.cm).i("F", Fq(f)).i("a", a).i("b", b).i("zc", cls_of(z)).i("sc", cls_of(s)).i("xc", cls_of(x))
    .i("ss", sgn_of(s)).i("xs", sgn_of(x)).i("lt", ilog2(z.tan()));
  Q tx = qabs(qtan(x));
  r.i("ra", qU(qabs(dang(qabs((Q)s.y()), qabs((Q)s.x()), tx)))).i("rt", relT(qabs(qtan(s)), tx));
  r.emit(OUT);
}
static void rec_odd(vt::Rng& g) {
  bool ser = g.coin(); double f = rnd_f(g, ser); AuxCtx& C = ctx_for(rnd_a(g), f);
  int a, b; rnd_pair(g, a, b); int m = ser ? 0 : 1;
  AuxAngle z = rnd_ang_sp(g), zn(-z.y(), z.x()), o = C.A().Convert(a, b, z, m != 0), on = C.A().Convert(a, b, zn, m != 0);
  double zd = z.degrees(), od = C.A().Convert(a, b, zd, m != 0), odn = C.A().Convert(a, b, -zd, m != 0);
  Rec r; r.str("e", "odd").i("F", Fq(f)).i("a", a).i("b", b).i("m", m).i("zc", cls_of(z))
    .i("os", sgn_of(o)).i("ons", sgn_of(on)).i("oc", cls_of(o)).i("onc", cls_of(on)).i("rt", relT(-qtan(on), qtan(o)))
    .b("beq", vt::bits(on.y()) == vt::bits(-o.y()) && vt::bits(on.x()) == vt::bits(o.x()))
    .i("rd", absU((Q)odn, -(Q)od, 1)).b("deq", vt::bits(odn) == vt::bits(-od));
  r.emit(OUT);
}
static void rec_mono(vt::Rng& g) {
  bool ser = g.coin(); double f = rnd_f(g, ser); AuxCtx& C = ctx_for(rnd_a(g), f);
  int a, b; rnd_pair(g, a, b); int m = ser ? 0 : 1;
  AuxAngle z1 = rnd_ang(g); double t1 = z1.tan(), t2;
  int w = int(g.range(0, 5));
  if (w == 0) t2 = nextafter(t1, INFINITY); else if (w == 1) t2 = t1 + fabs(t1) * g.uni(1e-16, 1e-13);
  else if (w == 2) t2 = t1 + fabs(t1) * g.uni(1e-12, 1e-6); else if (w == 3) t2 = t1 + fabs(t1) * g.uni(0.001, 1);
  else t2 = rnd_ang(g).tan();
  if (!std::isfinite(t2)) t2 = t1;
  AuxAngle za(t1, 1.0), zb(t2, 1.0), oa = C.A().Convert(a, b, za, m != 0), ob = C.A().Convert(a, b, zb, m != 0);
  // exact comparisons of tangents (cross products are exact in binary128)
  Q ca = (Q)oa.y() * (Q)ob.x(), cb = (Q)ob.y() * (Q)oa.x();     // tan(ob) - tan(oa) ~ cb - ca (x >= 0)
  int ce = cb > ca ? 1 : cb < ca ? -1 : 0; if (std::signbit(oa.x()) != std::signbit(ob.x())) ce = 9;
  Q ta = qtan(oa), tb = qtan(ob);
  Rec r; r.str("e", "mono").i("F", Fq(f)).i("a", a).i("b", b).i("m", m).i("cz", t2 > t1 ? 1 : t2 < t1 ? -1 : 0).i("ce", ce)
    .i("ac", cls_of(oa)).i("bc", cls_of(ob)).i("gz", relT((Q)t2, (Q)t1)).i("ge", relT(tb, ta))
    .i("ga", qU(qabs(atan2q((Q)ob.y() * (Q)oa.x() - (Q)ob.x() * (Q)oa.y(), (Q)ob.x() * (Q)oa.x() + (Q)ob.y() * (Q)oa.y()))));
  r.emit(OUT);
}
static void rec_path(vt::Rng& g) {
  bool ser = g.coin(); double f = rnd_f(g, ser); double aa = rnd_a(g); AuxCtx& C = ctx_for(aa, f, rnd_cm(g));
  int a = int(g.range(0, 5)), b = int(g.range(0, 5)), c = int(g.range(0, 5));
  Rec r; r.str("e", "path").i("fi", -1).i("cm", C.cm);
  path_obs(C, a, b, c, ser ? 0 : 1, rnd_ang_sp(g), r);
  r.emit(OUT);
}
// ToAuxiliary / FromAuxiliary with the derivative, rectifying radius, authalic radius
static void rec_taux(vt::Rng& g) {
  double f = rnd_f(g, false); double aa = rnd_a(g); AuxCtx& C = ctx_for(aa, f, rnd_cm(g));
  int b = int(g.range(0, 5)); AuxAngle p = rnd_ang_sp(g);
  double diff = vt::sentinel(1); AuxAngle o = C.A().ToAuxiliary(b, p, &diff);
  Q tp = qabs(qtan(p)), T = Tref(C.E, b, tp);
  if (cls_of(p) == 0 || cls_of(p) == 2) {
    // the derivative at the equator / at the pole is the limit of tan(eta) / tan(phi) of the defining closed forms (tan(eta) is
    // asymptotically proportional to tan(phi) at both ends); a record of its own: one observation, one law
    Q t0 = ldexpq(1, cls_of(p) == 0 ? -400 : 400);
    Rec d; d.str("e", "tdp").i("cm", C.cm).i("F", Fq(f)).i("b", b).i("pc", cls_of(p)).i("dc", vt::cls(diff)).i("rd", relU((Q)diff, Tref(C.E, b, t0) / t0));
    if (b == XI && cls_of(p) == 2) d.str("kf", "taux-xi-pole-diff");
    d.emit(OUT);
  }
  Rec r; r.str("e", "taux").i("cm", C.cm).i("F", Fq(f)).i("b", b).i("pc", cls_of(p)).i("oc", cls_of(o)).i("ps", sgn_of(p)).i("os", sgn_of(o))
    .i("rt", relT(qabs(qtan(o)), T));
  long long rd = -1;
  if (cls_of(p) == 1) {   // d tan(eta) / d tan(phi) = (T / tau) * dlog T / dlog tau
    Q x = logq(tp), h = (Q)1e-13, dl = (logq(Tref(C.E, b, expq(x + h))) - logq(Tref(C.E, b, expq(x - h)))) / (2 * h);
    rd = relU((Q)diff, T / tp * dl);
  }
  r.i("rd", rd);
  int niter = -7; AuxAngle z(o.y(), o.x()); AuxAngle back = C.A().FromAuxiliary(b, z, &niter);
  Q tb = qabs(qtan(back)), tauz = tauFrom(C.E, b, qabs(qtan(z)));
  r.i("rf", relT(tb, tauz)).i("bc", cls_of(back)).i("bs", sgn_of(back)).i("nit", niter);
  r.emit(OUT);
}
static void rec_rad(vt::Rng& g) {
  double f = rnd_f(g, g.coin()); double a = rnd_a(g); AuxCtx& C = ctx_for(a, f, rnd_cm(g));
  // rectifying radius: quarter meridian / (pi/2), by the arc-length integral; authalic radius^2: area / 4 pi
  Q sa, sb; arcs(C.E, 1, sa, sb);    // any beta: sa + sb is the quarter meridian for a = 1
  Q R = (Q)a * (sa + sb) / QH;
  Q qp = 1 / (1 - C.E.e2) + C.E.athE(1);
  Q c2 = sq((Q)a) * sq(C.E.fm1) * qp / 2;          // b^2 q / 2
  g_qbad = false; Q qa, qb; arcs_quad(C.E, 1, qa, qb); Q Rq = (Q)a * (qa + qb) / QH;
  Q Aq = integ([&](Q t) { Q s = sinq(t), c = cosq(t); return c * sqrtq(s * s + sq(C.E.fm1) * c * c); }, 0, QH);   // A / (4 pi a^2)
  bool bad = g_qbad;
  Rec r; r.str("e", "rad").i("cm", C.cm).i("F", Fq(f)).li("ab", {relU((Q)C.A().EquatorialRadius(), (Q)a), relU((Q)C.A().PolarSemiAxis(), (Q)a * C.E.fm1),
                                                                     absU((Q)C.A().Flattening(), 1 - C.E.fm1, 1)})
    .i("rx", relU((Q)C.A().RectifyingRadius(true), R)).i("rs", relU((Q)C.A().RectifyingRadius(false), R))
    .i("cx", relU((Q)C.A().AuthalicRadiusSquared(true), c2)).i("cs", relU((Q)C.A().AuthalicRadiusSquared(false), c2))
    .i("rqx", bad ? -1 : relU((Q)C.A().RectifyingRadius(true), Rq)).i("cqx", bad ? -1 : relU((Q)C.A().AuthalicRadiusSquared(true), sq((Q)a) * Aq));
  r.emit(OUT);
}
// divided differences (DAuxLatitude): definition (eta2 - eta1) / (zeta2 - zeta1), angles in radians
static void rec_dd(vt::Rng& g) {
  int kind = int(g.range(0, 3));      // 0 DConvert (series), 1 DParametric, 2 DRectifying, 3 DIsometric
  double f = rnd_f(g, kind == 0); AuxCtx& C = ctx_for(rnd_a(g), f);
  int a = 0, b = kind == 1 ? BETA : kind == 2 ? MU : CHI; if (kind == 0) { rnd_pair(g, a, b); }
  // point classes ("valid for arbitrary latitude"): 0 generic pair (equal / close / independent), 1 neighbouring doubles,
  // 2 both at the same pole, 3 both at the equator, 4 one at a pole and one generic
  int u = int(g.range(0, 15)), pc = u < 10 ? 0 : u < 12 ? 1 : u == 12 ? 2 : u == 13 ? 3 : 4;
  const double inf = std::numeric_limits<double>::infinity();
  double t1 = tan(g.uni(-1.57, 1.57)), t2; int w = int(g.range(0, 3));
  if (w == 0) t2 = t1; else if (w == 1) t2 = t1 * (1 + g.uni(-1e-3, 1e-3)); else t2 = tan(g.uni(-1.57, 1.57));
  if (pc == 1) { if (g.coin()) t1 = (g.coin() ? 1 : -1) * ldexp(g.uni(1, 2), int(g.range(0, 9))); t2 = nextafter(t1, g.coin() ? inf : -inf); }
  else if (pc == 2) { t1 = t2 = g.coin() ? inf : -inf; }
  else if (pc == 3) { t1 = g.coin() ? 0.0 : -0.0; t2 = g.coin() ? 0.0 : -0.0; }
  else if (pc == 4) { t2 = g.coin() ? inf : -inf; if (g.coin()) swap(t1, t2); }
  auto mk = [&](double t) { return std::isinf(t) ? AuxAngle(t > 0 ? 1.0 : -1.0, 0.0) : AuxAngle(t, 1.0); };
  AuxAngle z1 = mk(t1), z2 = mk(t2);
  double v = kind == 0 ? C.aux.DConvert(a, b, z1, z2) : kind == 1 ? C.aux.DParametric(z1, z2)
           : kind == 2 ? C.aux.DRectifying(z1, z2) : C.aux.DIsometric(z1, z2);
  auto zang = [&](double t) { return std::isinf(t) ? (t > 0 ? QH : -QH) : atanq((Q)t); };
  auto eta = [&](double t) {   // signed output angle (or isometric latitude) from input tangent t
    Q tau = tauFrom(C.E, a, qabs((Q)t)), T = Tref(C.E, b, tau);
    Q e = kind == 3 ? asinhq(T) : qang(T); return t < 0 ? -e : e; };
  auto ez = [&](Q zz) { Q tt = tanq(zz); Q tau = tauFrom(C.E, a, qabs(tt)), T = Tref(C.E, b, tau); Q e = kind == 3 ? asinhq(T) : atanq(T); return tt < 0 ? -e : e; };
  Q ref; bool infexp = kind == 3 && (std::isinf(t1) || std::isinf(t2));     // the isometric latitude is infinite at the poles
  if (infexp) ref = 1 / (Q)0.0;
  else if (pc == 2) { Q h = (Q)1e-9; ref = (QH - ez(QH - h)) / h; }          // eta(pi/2 + h) = pi - eta(pi/2 - h): a central difference
  else if (t1 == t2) { Q h = (Q)1e-13; Q z = atanq((Q)t1); ref = (ez(z + h) - ez(z - h)) / (2 * h); }
  else ref = (eta(t2) - eta(t1)) / (zang(t2) - zang(t1));
  Rec r; r.str("e", "dd").i("F", Fq(f)).i("k", kind).i("a", a).i("b", b).i("same", t1 == t2).i("pc", pc).i("vc", vt::cls(v)).b("ie", infexp)
    .i("rr", infexp ? -1 : relU((Q)v, ref)).i("rabs", infexp ? -1 : absU((Q)v, ref, 1)).i("sep", qU(qabs(zang(t2) - zang(t1)) * (Q)1e-6));
  r.emit(OUT);
}

// =============================================================== Ellipsoid observations
struct XCtx {     // the other classes that compute the same quantities
  Geodesic g; GeodesicExact ge; Rhumb r, re; TransverseMercator tm; TransverseMercator* tme; Geocentric gc;
  XCtx(double a, double f) : g(a, f), ge(a, f), r(a, f, false), re(a, f, true), tm(a, f, 1.0), tme(nullptr), gc(a, f) {
    try { tme = new TransverseMercator(a, f, 1.0, true); } catch (const std::exception&) { tme = nullptr; }
  }
};
static XCtx& xctx_for(double a, double f) {
  static thread_local map<pair<double, double>, XCtx*> cache;
  auto key = make_pair(a, f); auto it = cache.find(key);
  if (it != cache.end()) return *it->second;
  XCtx* c = new XCtx(a, f); cache[key] = c; return *c;
}
template<class F> static long long guardedU(F f) { try { return f(); } catch (const std::exception&) { return -1; } }
static Q qdeg2tan(double deg) {     // tan of an angle given in degrees, |deg| <= 90 (exact argument reduction)
  if (fabs(deg) == 90) return 1 / (Q)0.0;
  if (fabs(deg) <= 45) return tanq(qabs((Q)deg) * QPI / 180);
  return 1 / tanq((90 - qabs((Q)deg)) * QPI / 180);
}
// ellipsoids for the measures: a mix biased to the documented full-accuracy range
static double rnd_fe(vt::Rng& g) {
  int w = int(g.range(0, 9));
  if (w < 4) return double(g.range(-10000, 10000)) * 1e-6;
  if (w < 6) return RND_F[g.range(0, 19)];
  if (w < 8) return double(g.range(-200000, 200000)) * 1e-6;
  double ba = exp(g.uni(log(0.01), log(100.0)));
  return double(vt::q1(1 - ba, 1e-6L)) * 1e-6;
}
static void rec_elq(vt::Rng& g) {
  double f = rnd_fe(g), a = rnd_a(g); AuxCtx& C = ctx_for(a, f); XCtx& X = xctx_for(a, f);
  const Ellipsoid& E = C.ell; Q A = (Q)a, b = A * C.E.fm1;
  Q sa, sb; arcs(C.E, 1, sa, sb); Q L = A * (sa + sb);
  Q qp = 1 / (1 - C.E.e2) + C.E.athE(1), area = 4 * QPI * b * b * qp / 2, vol = 4 * QPI * A * A * b / 3;
  g_qbad = false; Q qa, qb; arcs_quad(C.E, 1, qa, qb);
  Q Aq = 4 * QPI * A * A * integ([&](Q t) { Q s = sinq(t), c = cosq(t); return c * sqrtq(s * s + sq(C.E.fm1) * c * c); }, 0, QH);
  bool bad = g_qbad;
  double Ld = E.QuarterMeridian(), Ad = E.Area();
  Rec r; r.str("e", "elq").i("F", Fq(f))
    .i("rL", relU((Q)Ld, L)).i("rLq", bad ? -1 : relU((Q)Ld, A * (qa + qb))).i("rA", relU((Q)Ad, area)).i("rAq", bad ? -1 : relU((Q)Ad, Aq))
    .i("rV", relU((Q)E.Volume(), vol)).i("rb", relU((Q)E.PolarRadius(), b)).i("ra", relU((Q)E.EquatorialRadius(), A));
  // shape parameters against their definitions in terms of the semi-axes
  Q fq = (Q)f;
  r.li("sh", {relU((Q)E.Flattening(), fq), relU((Q)E.SecondFlattening(), (A - b) / b), relU((Q)E.ThirdFlattening(), (A - b) / (A + b)),
              relU((Q)E.EccentricitySq(), (A * A - b * b) / (A * A)), relU((Q)E.SecondEccentricitySq(), (A * A - b * b) / (b * b)),
              relU((Q)E.ThirdEccentricitySq(), (A * A - b * b) / (A * A + b * b))});
  // the same quantities from the geodesic, rhumb and transverse Mercator classes (relative to the Ellipsoid value)
  auto s12g = [&](auto& geod) { double s; geod.Inverse(0.0, 0.0, 90.0, 0.0, s); return relU((Q)s, (Q)Ld); };
  auto s12r = [&](const Rhumb& rh) { double s, az; rh.Inverse(0.0, 0.0, 90.0, 0.0, s, az); return relU((Q)s, (Q)Ld); };
  auto ytm = [&](const TransverseMercator& tm) { double x, y; tm.Forward(0.0, 90.0, 0.0, x, y); return relU((Q)y, (Q)Ld); };
  r.i("xg", guardedU([&] { return s12g(X.g); })).i("xge", guardedU([&] { return s12g(X.ge); }))
   .i("xr", guardedU([&] { return s12r(X.r); })).i("xre", guardedU([&] { return s12r(X.re); }))
   .i("xt", guardedU([&] { return ytm(X.tm); })).i("xte", X.tme ? guardedU([&] { return ytm(*X.tme); }) : -1)
   .i("ag", relU((Q)X.g.EllipsoidArea(), (Q)Ad)).i("age", relU((Q)X.ge.EllipsoidArea(), (Q)Ad))
   .i("ar", relU((Q)X.r.EllipsoidArea(), (Q)Ad)).i("are", relU((Q)X.re.EllipsoidArea(), (Q)Ad));
  r.emit(OUT);
}
static double rnd_lat(vt::Rng& g) {
  int w = int(g.range(0, 11));
  if (w == 0) return g.coin() ? 90 : -90; if (w == 1) return 0; if (w == 2) return double(g.range(-90, 90));
  if (w == 3) return g.uni(89.9, 90) * (g.coin() ? 1 : -1); if (w == 4) return ldexp(g.uni(1, 2), int(g.range(-60, -3))) * (g.coin() ? 1 : -1);
  if (w == 5) return 90 - ldexp(g.uni(1, 2), int(g.range(-44, -3)));
  return g.uni(-90, 90);
}
static void rec_elm(vt::Rng& g) {
  double f = rnd_fe(g), a = rnd_a(g), phi = rnd_lat(g); AuxCtx& C = ctx_for(a, f); XCtx& X = xctx_for(a, f);
  const Ellipsoid& E = C.ell; Q A = (Q)a, b = A * C.E.fm1;
  Q tau = qdeg2tan(phi), tb = C.E.fm1 * tau, sg = phi < 0 ? -1 : 1;
  Q h = qinf(tau) ? 0 : hypotq(1, tau), sphi = qinf(tau) ? 1 : tau / h, cphi = qinf(tau) ? 0 : 1 / h;
  Q hb = qinf(tb) ? 0 : hypotq(1, tb), sbeta = qinf(tb) ? 1 : tb / hb, cbeta = qinf(tb) ? 0 : 1 / hb;
  Q sa, sb; if (qinf(tb)) { arcs(C.E, 1, sa, sb); sa += sb; } else arcs(C.E, tb, sa, sb);
  Q s = sg * A * sa;                                      // meridian distance
  Q w2 = 1 - C.E.e2 * sphi * sphi, rho = A * (1 - C.E.e2) / (w2 * sqrtq(w2)), nu = A / sqrtq(w2);
  double sd = E.MeridianDistance(phi), Ld = E.QuarterMeridian(), mud = E.RectifyingLatitude(phi);
  double Rd = E.CircleRadius(phi), Zd = E.CircleHeight(phi), rhod = E.MeridionalCurvatureRadius(phi), nud = E.TransverseCurvatureRadius(phi);
  Rec r; r.str("e", "elm").i("F", Fq(f)).li("phi", d3(phi))
    .i("rs", absU((Q)sd, s, A)).i("rsr", relU((Q)sd, s)).i("rsm", absU((Q)sd, (Q)mud * (Q)Ld / 90, A))
    .i("rrho", relU((Q)rhod, rho)).i("rnu", relU((Q)nud, nu))
    .i("rR", absU((Q)Rd, A * cbeta, A)).i("rZ", absU((Q)Zd, sg * b * sbeta, A)).i("rRn", absU((Q)Rd, (Q)nud * cphi, A));
  {  // normal section (Euler): 1/R = cos^2(alp)/rho + sin^2(alp)/nu
    double alp = double(g.range(-180, 180)) + (g.coin() ? 0.0 : g.uni(-0.5, 0.5));
    Q al = (Q)alp * QPI / 180, ca = cosq(al), sl = sinq(al);
    r.i("rnc", relU((Q)E.NormalCurvatureRadius(phi, alp), 1 / (ca * ca / rho + sl * sl / nu)));
  }
  {  // rho = (180/pi) ds/dphi (coarse finite difference of the library's own MeridianDistance)
    long long rds = -1;
    if (fabs(phi) < 89) { double hh = 1e-3; rds = relU(((Q)E.MeridianDistance(phi + hh) - (Q)E.MeridianDistance(phi - hh)) / (2 * (Q)hh) * 180 / QPI, (Q)rhod); }
    r.i("rds", rds);
  }
  // other classes: distance along the meridian, and the circle of latitude from Geocentric
  auto s12g = [&](auto& geod) { double s2; geod.Inverse(0.0, 0.0, phi, 0.0, s2); return absU((Q)(phi < 0 ? -s2 : s2), (Q)sd, A); };
  auto s12r = [&](const Rhumb& rh) { double s2, az; rh.Inverse(0.0, 0.0, phi, 0.0, s2, az); return absU((Q)(phi < 0 ? -s2 : s2), (Q)sd, A); };
  auto ytm = [&](const TransverseMercator& tm) { double x, y; tm.Forward(0.0, phi, 0.0, x, y); return absU((Q)y, (Q)sd, A); };
  r.i("xg", guardedU([&] { return s12g(X.g); })).i("xge", guardedU([&] { return s12g(X.ge); }))
   .i("xr", guardedU([&] { return s12r(X.r); })).i("xre", guardedU([&] { return s12r(X.re); }))
   .i("xt", guardedU([&] { return ytm(X.tm); })).i("xte", X.tme ? guardedU([&] { return ytm(*X.tme); }) : -1);
  { double x, y, z; X.gc.Forward(phi, 0.0, 0.0, x, y, z);
    r.i("xcR", absU((Q)x, (Q)Rd, A)).i("xcZ", absU((Q)z, (Q)Zd, A)); }
  r.emit(OUT);
}
// latitude wrappers of Ellipsoid (degree interface) and the isometric latitude
static void rec_ell(vt::Rng& g) {
  double f = rnd_f(g, false), a = rnd_a(g), phi = rnd_lat(g); AuxCtx& C = ctx_for(a, f); const Ellipsoid& E = C.ell;
  Q tau = qdeg2tan(phi); int sg = phi < 0 ? -1 : 1;
  double fw[5] = {E.ParametricLatitude(phi), E.GeocentricLatitude(phi), E.RectifyingLatitude(phi), E.ConformalLatitude(phi), E.AuthalicLatitude(phi)};
  double bk[5] = {E.InverseParametricLatitude(fw[0]), E.InverseGeocentricLatitude(fw[1]), E.InverseRectifyingLatitude(fw[2]),
                  E.InverseConformalLatitude(fw[3]), E.InverseAuthalicLatitude(fw[4])};
  vector<long long> rf, rb, ri, pole;
  static const int K[5] = {BETA, THETA, MU, CHI, XI};
  double zeta = rnd_lat(g);
  double inv[5] = {E.InverseParametricLatitude(zeta), E.InverseGeocentricLatitude(zeta), E.InverseRectifyingLatitude(zeta),
                   E.InverseConformalLatitude(zeta), E.InverseAuthalicLatitude(zeta)};
  for (int j = 0; j < 5; ++j) {
    Q T = Tref(C.E, K[j], tau);
    rf.push_back(absU((Q)fw[j] * QPI / 180, sg * qang(T), 1));
    rb.push_back(absU((Q)bk[j] * QPI / 180, (Q)phi * QPI / 180, 1));
    Q ti = tauFrom(C.E, K[j], qdeg2tan(zeta));
    ri.push_back(absU((Q)inv[j] * QPI / 180, (zeta < 0 ? -1 : 1) * qang(ti), 1));
    pole.push_back((fabs(phi) == 90 ? (fw[j] == phi && bk[j] == phi) : phi == 0 ? (fw[j] == 0 && bk[j] == 0) : true) ? 1 : 0);
  }
  Rec r; r.str("e", "ell").i("F", Fq(f)).li("phi", d3(phi)).li("rf", rf).li("rb", rb).li("ri", ri).li("fix", pole);
  // isometric latitude psi = asinh(tan(chi)) in degrees; finite at the poles, and the inverse returns the pole
  double psi = E.IsometricLatitude(phi), back = E.InverseIsometricLatitude(psi);
  Q Tc = Tref(C.E, CHI, tau);
  long long rpsi = qinf(Tc) ? -1 : relU((Q)psi, sg * asinhq(Tc) * 180 / QPI);
  r.i("psic", vt::cls(psi)).i("rpsi", rpsi).i("rpb", absU((Q)back * QPI / 180, (Q)phi * QPI / 180, 1)).b("pbeq", back == phi);
  double ps2 = g.uni(-2000, 2000) * (g.coin() ? 1 : 0.01), ip = E.InverseIsometricLatitude(ps2);
  Q tpi = tauFrom(C.E, CHI, sinhq(qabs((Q)ps2) * QPI / 180));
  r.i("rip", absU((Q)ip * QPI / 180, (ps2 < 0 ? -1 : 1) * qang(tpi), 1));
  r.emit(OUT);
}
// flattening / eccentricity interconversions (static members)
static void rec_elf(vt::Rng& g) {
  double f = rnd_fe(g); if (g.range(0, 3) == 0) f = g.uni(-1, 1) * ldexp(1.0, int(g.range(-40, 0)));
  Q F = (Q)f, b = 1 - F;   // a = 1
  double fp = Ellipsoid::FlatteningToSecondFlattening(f), n = Ellipsoid::FlatteningToThirdFlattening(f), e2 = Ellipsoid::FlatteningToEccentricitySq(f),
         ep2 = Ellipsoid::FlatteningToSecondEccentricitySq(f), epp2 = Ellipsoid::FlatteningToThirdEccentricitySq(f);
  Rec r; r.str("e", "elf").i("F", Fq(f)).i("fl", ilog2(f))
    .li("to", {relU((Q)fp, F / b), relU((Q)n, F / (2 - F)), relU((Q)e2, F * (2 - F)), relU((Q)ep2, F * (2 - F) / (b * b)), relU((Q)epp2, F * (2 - F) / (1 + b * b))})
    .li("back", {relU((Q)Ellipsoid::SecondFlatteningToFlattening(fp), F), relU((Q)Ellipsoid::ThirdFlatteningToFlattening(n), F),
                 relU((Q)Ellipsoid::EccentricitySqToFlattening(e2), F), relU((Q)Ellipsoid::SecondEccentricitySqToFlattening(ep2), F),
                 relU((Q)Ellipsoid::ThirdEccentricitySqToFlattening(epp2), F)});
  // the inverse maps against their definitions on independent arguments
  double u = f;   // reuse the value as fp, n, e2, ep2, epp2 where it lies in the domain
  vector<long long> dv;
  dv.push_back(u > -1 ? relU((Q)Ellipsoid::SecondFlatteningToFlattening(u), (Q)u / (1 + (Q)u)) : -1);
  dv.push_back(fabs(u) < 1 ? relU((Q)Ellipsoid::ThirdFlatteningToFlattening(u), 2 * (Q)u / (1 + (Q)u)) : -1);
  dv.push_back(u < 1 ? relU((Q)Ellipsoid::EccentricitySqToFlattening(u), 1 - sqrtq(1 - (Q)u)) : -1);
  dv.push_back(u > -1 ? relU((Q)Ellipsoid::SecondEccentricitySqToFlattening(u), 1 - 1 / sqrtq(1 + (Q)u)) : -1);
  dv.push_back(fabs(u) < 1 ? relU((Q)Ellipsoid::ThirdEccentricitySqToFlattening(u), 1 - sqrtq((1 - (Q)u) / (1 + (Q)u))) : -1);
  r.li("def", dv);
  r.emit(OUT);
}

// =============================================================== EllipticFunction observations
struct EP { double k2, kp2, a2, ap2; };
enum { LF = 0, LE = 1, LD = 2, LPI = 3, LG = 4, LH = 5 };
// integrand of the Legendre integrals in terms of s = sin(theta), c = cos(theta)
static Q legf(const EP& p, int kind, Q s, Q c) {
  Q d2 = p.k2 < 0 ? 1 - (Q)p.k2 * s * s : (Q)p.kp2 + (Q)p.k2 * c * c;
  Q al = p.a2 < 0 ? 1 - (Q)p.a2 * s * s : (Q)p.ap2 + (Q)p.a2 * c * c;
  Q d = sqrtq(d2);
  switch (kind) {
    case LF: return 1 / d; case LE: return d; case LD: return s * s / d;
    case LPI: return 1 / (d * al); case LG: return d / al; default: return c * c / (al * d);
  }
}
// is the complete integral finite?
static bool leg_finite(const EP& p, int kind) {
  bool k1 = p.kp2 == 0, a1 = p.ap2 == 0;
  switch (kind) {
    case LF: case LD: return !k1; case LE: return true;
    case LPI: return !k1 && !a1; case LG: return !a1; default: return !(k1 && a1) && !(a1 && k1);
  }
}
// int_0^r, 0 <= r <= pi/2, integrated in t = pi/2 - theta so that the near-singular end is at t = 0
static Q leg_part(const EP& p, int kind, Q r) {
  Q t0 = QH - r; if (t0 < 0) t0 = 0;
  return integ([&](Q t) { return legf(p, kind, cosq(t), sinq(t)); }, t0, QH);
}
struct LegRef {
  EP p; Q comp[6]; bool have[6];
  explicit LegRef(const EP& q) : p(q) { for (int i = 0; i < 6; ++i) have[i] = false; }
  Q complete(int kind) { if (!have[kind]) { comp[kind] = leg_part(p, kind, QH); have[kind] = true; } return comp[kind]; }
  // X(phi) for any real phi: 2 n X_c + sign(r) X(|r|), phi = n pi + r
  Q at(int kind, Q phi) {
    Q n = nearbyintq(phi / QPI), r = phi - n * QPI;
    Q v = leg_part(p, kind, qabs(r)); if (r < 0) v = -v;
    return n == 0 ? v : 2 * n * complete(kind) + v;
  }
};
// construction mode of the EllipticFunction object (all documented ways to set the parameters):
// 0 four-argument constructor; 1 two-argument constructor; 2 default constructor, then Reset(k2, alpha2);
// 3 an object that held other parameters, then Reset(k2, alpha2, kp2, alphap2).  Modes 1 and 2 are only possible when the
// complements 1 - k2, 1 - alpha2 computed in doubles are the requested kp2, alphap2 (otherwise mode 0 is used instead).
static thread_local int g_cm = 0;
static bool ep_exact(const EP& p) { return 1 - p.k2 == p.kp2 && 1 - p.a2 == p.ap2; }
static int ep_mode(const EP& p, int cm) { return ((cm == 1 || cm == 2) && !ep_exact(p)) ? 0 : cm; }
static EllipticFunction mkell(const EP& p) {
  switch (ep_mode(p, g_cm)) {
    case 1: return EllipticFunction(p.k2, p.a2);
    case 2: { EllipticFunction e; e.Reset(p.k2, p.a2); return e; }
    case 3: { EllipticFunction e(0.75, -3.0, 0.25, 4.0); double sn, cn, dn; e.sncndn(0.3, sn, cn, dn); e.Reset(p.k2, p.a2, p.kp2, p.ap2); return e; }
    default: return EllipticFunction(p.k2, p.a2, p.kp2, p.ap2);
  }
}
static void ep_fields(Rec& r, const EP& p) {
  r.i("k2s", sgn(p.k2)).i("k2e", ilog2(p.k2)).i("kp2e", ilog2(p.kp2)).i("a2s", sgn(p.a2)).i("a2e", ilog2(p.a2)).i("ap2e", ilog2(p.ap2));
  // the parameters as requested and as reported by the inspectors of the object
  EllipticFunction e = mkell(p);
  r.i("cm", ep_mode(p, g_cm)).li("pin", {sgn(p.k2), ilog2(p.k2), d3(p.kp2)[1], d3(p.kp2)[2], d3(p.kp2)[3], sgn(p.a2), ilog2(p.a2), d3(p.ap2)[1], d3(p.ap2)[2], d3(p.ap2)[3]})
   .li("insp", {sgn(e.k2()), ilog2(e.k2()), d3(e.kp2())[1], d3(e.kp2())[2], d3(e.kp2())[3], sgn(e.alpha2()), ilog2(e.alpha2()), d3(e.alphap2())[1], d3(e.alphap2())[2],
                d3(e.alphap2())[3]})
   .b("ieq", vt::bits(e.k2()) == vt::bits(p.k2) && vt::bits(e.kp2()) == vt::bits(p.kp2) && vt::bits(e.alpha2()) == vt::bits(p.a2) && vt::bits(e.alphap2()) == vt::bits(p.ap2));
}

static void obs_ec(const EP& p, Rec& r) {
  EllipticFunction e = mkell(p); LegRef R(p);
  double v[7] = {e.K(), e.E(), e.D(), e.Pi(), e.G(), e.H(), e.KE()};
  vector<long long> res, inf;
  for (int k = 0; k < 6; ++k) {
    inf.push_back(std::isinf(v[k]) ? 1 : std::isnan(v[k]) ? 2 : 0);
    long long x = -1;
    if (leg_finite(p, k)) { g_qbad = false; Q q = R.complete(k); x = g_qbad ? -1 : relU((Q)v[k], q); }
    res.push_back(x);
  }
  // K - E = k2 D
  long long ke = -1; if (leg_finite(p, LF)) { g_qbad = false; Q q = R.complete(LF) - R.complete(LE); ke = g_qbad ? -1 : absU((Q)v[6], q, qabs(R.complete(LF)) + qabs(R.complete(LE))); }
  res.push_back(ke); inf.push_back(std::isinf(v[6]) ? 1 : std::isnan(v[6]) ? 2 : 0);
  ep_fields(r, p); r.li("r", res).li("inf", inf);
  // Legendre's relation for 0 < k2 < 1:  E K' + E' K - K K' = pi/2
  long long leg = -1;
  if (p.k2 > 0 && p.kp2 > 0) {
    EllipticFunction c(p.kp2, 0, p.k2, 1);
    Q t1 = (Q)e.E() * (Q)c.K(), t2 = (Q)c.E() * (Q)e.K(), t3 = (Q)e.K() * (Q)c.K();
    leg = absU(t1 + t2 - t3, QH, qabs(t1) + qabs(t2) + qabs(t3));
  }
  r.i("leg", leg);
}
static void obs_ei(const EP& p, double phi, Rec& r) {
  EllipticFunction e = mkell(p); LegRef R(p);
  bool pastpole = fabs(phi) >= 1.5707963267948966;
  double v[6] = {e.F(phi), e.E(phi), e.D(phi), e.Pi(phi), e.G(phi), e.H(phi)};
  vector<long long> res, cl;
  Q ref[6]; bool ok[6];
  for (int k = 0; k < 6; ++k) {
    cl.push_back(vt::cls(v[k]));
    ok[k] = leg_finite(p, k) || !pastpole;
    long long x = -1;
    if (ok[k]) { g_qbad = false; ref[k] = R.at(k, (Q)phi); if (g_qbad) ok[k] = false; else x = relU((Q)v[k], ref[k]); }
    res.push_back(x);
  }
  ep_fields(r, p); r.li("phi", d3(phi)).b("past", pastpole).li("r", res).li("cl", cl);
  // the argument in degrees
  long long red = -1;
  { double ang = phi * 57.29577951308232; g_qbad = false; Q q = R.at(LE, (Q)ang * QPI / 180); if (!g_qbad) red = relU((Q)e.Ed(ang), q); }
  r.i("red", red);
  // identities stated in the header: alpha2 = 0 reductions; G and H in terms of F and Pi
  vector<long long> id;
  auto sc = [&](Q a, Q b, Q c) { return qabs(a) + qabs(b) + qabs(c); };
  if (p.a2 == 0) {
    id.push_back(relU((Q)v[3], (Q)v[0])); id.push_back(relU((Q)v[4], (Q)v[1]));
    id.push_back(absU((Q)v[5], (Q)v[0] - (Q)v[2], sc(v[0], v[2], 0)));
  } else if (std::isfinite(v[0]) && std::isfinite(v[3])) {
    Q ka = (Q)p.k2 / (Q)p.a2, ia = 1 / (Q)p.a2;
    id.push_back(-1);
    id.push_back(absU((Q)v[4], ka * (Q)v[0] + (1 - ka) * (Q)v[3], sc(ka * (Q)v[0], (1 - ka) * (Q)v[3], 0)));
    id.push_back(absU((Q)v[5], ia * (Q)v[0] + (1 - ia) * (Q)v[3], sc(ia * (Q)v[0], (1 - ia) * (Q)v[3], 0)));
  } else { id.push_back(-1); id.push_back(-1); id.push_back(-1); }
  r.li("id", id);
  // periodic parts from sn = sin(phi), cn = cos(phi): delta X = (pi/2) X(phi)/X_c - phi, period pi
  double sn = sin(phi), cn = cos(phi), dn = e.Delta(sn, cn);
  double dv[6] = {e.deltaF(sn, cn, dn), e.deltaE(sn, cn, dn), e.deltaD(sn, cn, dn), e.deltaPi(sn, cn, dn), e.deltaG(sn, cn, dn), e.deltaH(sn, cn, dn)};
  Q pe = atan2q((Q)sn, (Q)cn); if (cn < 0) pe += (sn < 0 ? QPI : -QPI);     // folded into [-pi/2, pi/2]
  vector<long long> dl;
  for (int k = 0; k < 6; ++k) {
    long long x = -1;
    if (leg_finite(p, k)) { g_qbad = false; Q q = QH * R.at(k, pe) / R.complete(k) - pe; if (!g_qbad) x = absU((Q)dv[k], q, 1); }
    dl.push_back(x);
  }
  r.li("dl", dl);
  // the (sn, cn, dn) interface, "as though phi in (-pi, pi]"
  vector<long long> tr;
  { Q pf = atan2q((Q)sn, (Q)cn);
    double tv[6] = {e.F(sn, cn, dn), e.E(sn, cn, dn), e.D(sn, cn, dn), e.Pi(sn, cn, dn), e.G(sn, cn, dn), e.H(sn, cn, dn)};
    for (int k = 0; k < 6; ++k) {
      long long x = -1;
      if (leg_finite(p, k)) { g_qbad = false; Q q = R.at(k, pf); if (!g_qbad) x = relU((Q)tv[k], q); }
      tr.push_back(x);
    } }
  r.li("tr", tr);
  // the same interface at the four cardinal points, where sn and cn are exact: phi = 0, pi/2, pi, -pi/2 "as though phi in (-pi, pi]":
  // X = 0, X_c, 2 X_c, -X_c, and the periodic parts vanish.  -1: the complete integral is infinite (judged by the ec records).
  vector<long long> cd, cdd;
  { static const double CS[4][2] = {{0.0, 1.0}, {1.0, 0.0}, {0.0, -1.0}, {-1.0, 0.0}}; static const int MULT[4] = {0, 1, 2, -1};
    for (int j = 0; j < 4; ++j) {
      double s1 = CS[j][0], c1 = CS[j][1], d1 = e.Delta(s1, c1);
      double tv[6] = {e.F(s1, c1, d1), e.E(s1, c1, d1), e.D(s1, c1, d1), e.Pi(s1, c1, d1), e.G(s1, c1, d1), e.H(s1, c1, d1)};
      double dw[6] = {e.deltaF(s1, c1, d1), e.deltaE(s1, c1, d1), e.deltaD(s1, c1, d1), e.deltaPi(s1, c1, d1), e.deltaG(s1, c1, d1), e.deltaH(s1, c1, d1)};
      for (int k = 0; k < 6; ++k) {
        long long x = -1, y = -1;
        if (leg_finite(p, k)) { g_qbad = false; Q q = R.complete(k); if (!g_qbad) { x = MULT[j] == 0 ? absU((Q)tv[k], 0, 1) : relU((Q)tv[k], MULT[j] * q); y = absU((Q)dw[k], 0, 1); } }
        cd.push_back(x); cdd.push_back(y);
      }
    } }
  r.li("cd", cd).li("cdd", cdd);
}
// inverse of E, Jacobi amplitude and elliptic functions
static void obs_ej(const EP& p, double x, Rec& r) {
  EllipticFunction e = mkell(p); LegRef R(p);
  ep_fields(r, p); r.li("x", d3(x));
  auto back = [&](int kind, double phi, Q target, long long& ru, long long& rp) {   // mixed forward/backward residual
    ru = rp = -1; if (!std::isfinite(phi)) { ru = rp = RNAN; return; }
    g_qbad = false; Q q = R.at(kind, (Q)phi); if (g_qbad) return;
    Q s = sinq((Q)phi), c = cosq((Q)phi), w = kind == LE ? 1 / legf(p, LE, s, c) : 1 / legf(p, LF, s, c);   // d phi / d X
    ru = absU(q, target, qmax(qabs(target), (Q)1e-300));
    rp = absU(q * w, target * w, qmax(qabs((Q)phi), (Q)1e-300));
  };
  long long ru, rp;
  if (p.kp2 != 0 || true) { double phi = e.Einv(x); back(LE, phi, (Q)x, ru, rp); r.i("ieu", ru).i("iep", rp).i("iec", vt::cls(phi)); }
  { // deltaEinv(sin tau, cos tau) = Einv(tau 2E/pi) - tau, tau folded into [-pi/2, pi/2]
    double st = sin(x), ct = cos(x), dv = e.deltaEinv(st, ct);
    Q tau = atan2q((Q)st, (Q)ct); if (ct < 0) tau += (st < 0 ? QPI : -QPI);
    long long du = -1, dp = -1;
    if (std::isfinite(dv)) { Q phi = (Q)dv + tau; g_qbad = false; Q q = R.at(LE, phi), tg = tau * R.complete(LE) / QH;
      if (!g_qbad) { du = absU(q, tg, qmax(qabs(tg), 1)); } }
    r.i("deu", du).i("dec", vt::cls(dv)); (void) dp;
  }
  if (p.kp2 != 0) {   // am(u): F(am(u)) = u; sn, cn, dn
    double sn, cn, dn, phi = e.am(x, sn, cn, dn), phi1 = e.am(x);
    back(LF, phi, (Q)x, ru, rp);
    r.i("amu", ru).i("amp", rp).b("ameq", vt::bits(phi) == vt::bits(phi1));
    Q s = sinq((Q)phi), c = cosq((Q)phi);
    r.li("amj", {absU((Q)sn, s, 1), absU((Q)cn, c, 1), relU((Q)dn, 1 / legf(p, LF, s, c))});
    { g_qbad = false; Q qf = R.at(LF, (Q)phi); if (!g_qbad) { Q pt = (Q)phi - (qf - (Q)x) / legf(p, LF, s, c); s = sinq(pt); c = cosq(pt); } }   // true amplitude
    if (p.k2 >= 0) {
      double s2, c2, d2; e.sncndn(x, s2, c2, d2);
      Q scale = qmax(1, qabs((Q)x));
      r.li("snj", {absU((Q)s2, s, scale), absU((Q)c2, c, scale), absU((Q)d2, 1 / legf(p, LF, s, c), scale / legf(p, LF, s, c)),
                   absU(sq((Q)s2) + sq((Q)c2), 1, 1), absU(sq((Q)d2) + (Q)p.k2 * sq((Q)s2), 1, 1)});
    } else r.li("snj", {-1, -1, -1, -1, -1});
  } else {
    double sn, cn, dn; e.sncndn(x, sn, cn, dn); double phi = e.am(x);
    double s4, c4, d4, phi4 = e.am(x, s4, c4, d4);      // the other overload: sn = tanh, cn = dn = sech
    Q t = tanhq((Q)x), ch = 1 / coshq((Q)x);
    r.i("amu", relU((Q)phi, atanq(sinhq((Q)x)))).i("amp", -1).b("ameq", vt::bits(phi) == vt::bits(phi4))
     .li("amj", {absU((Q)s4, t, 1), absU((Q)c4, ch, 1), relU((Q)d4, ch)}).li("snj", {absU((Q)sn, t, 1), absU((Q)cn, ch, 1), absU((Q)dn, ch, 1), -1, -1});
  }
}

// ---------------------------------------------------------------- Carlson symmetric integrals: definitions by quadrature
// int over t in (0, inf) with t = exp(s): trapezoidal rule, step 1/4 (error ~ exp(-8 pi^2))
static Q carl_quad(int fn, Q x, Q y, Q z, Q p) {
  Q mn = 0, mxv = 0; bool first = true;
  for (Q v : {x, y, z, p}) if (v > 0) { if (first) { mn = mxv = v; first = false; } else { mn = qmin(mn, v); mxv = qmax(mxv, v); } }
  Q lo = logq(mn) - 180, hi = logq(mxv) + 180, h = (Q)0.25, sum = 0;
  long n0 = (long) floorq(lo / h), n1 = (long) ceilq(hi / h);
  for (long i = n0; i <= n1; ++i) {
    Q t = expq(i * h), v;
    switch (fn) {
      case 0: v = (Q)0.5 / sqrtq((t + x) * (t + y) * (t + z)); break;                              // RF
      case 1: v = (Q)0.5 / (sqrtq(t + x) * (t + y)); break;                                          // RC
      case 2: v = (Q)1.5 / (sqrtq((t + x) * (t + y) * (t + z)) * (t + p)); break;                   // RJ
      case 3: v = (Q)1.5 / (sqrtq((t + x) * (t + y)) * (t + z) * sqrtq(t + z)); break;              // RD
      default: v = (Q)0.25 / sqrtq((t + x) * (t + y) * (t + z)) * (x / (t + x) + y / (t + y) + z / (t + z)) * t; break;   // RG
    }
    sum += v * t;
  }
  return sum * h;
}
typedef EllipticFunction EF;
// fn: 0 RF3, 1 RF2, 2 RC, 3 RG3, 4 RG2, 5 RJ, 6 RD;  a[] holds the arguments
static void obs_rc(int fn, const double* a, Rec& r) {
  double x = a[0], y = a[1], z = a[2], p = a[3];
  vector<long long> ax = {ilog2(x), ilog2(y), fn == 1 || fn == 2 || fn == 4 ? -9999 : ilog2(z), fn == 5 ? ilog2(p) : -9999};
  long long lo = 99999, hi = -99999; for (long long e : ax) if (e != -9999) { lo = min(lo, e); hi = max(hi, e); }
  r.i("fn", fn).li("ax", ax).i("sp", hi - lo).str("hx", vt::hexf(x) + " " + vt::hexf(y) + " " + vt::hexf(z) + " " + vt::hexf(p));
  double v; Q q; vector<long long> st;   // structure residuals
  auto rel2 = [](double u, double w) { return relU((Q)u, (Q)w); };
  switch (fn) {
    case 0: v = EF::RF(x, y, z); q = carl_quad(0, x, y, z, 0);
      st = {max(rel2(EF::RF(y, z, x), v), rel2(EF::RF(z, x, y), max(v, v))), max(rel2(EF::RF(y, x, z), v), rel2(EF::RF(x, z, y), v)),
            relU((Q)EF::RF(4 * x, 4 * y, 4 * z), (Q)v / 2)};
      { double lam = sqrt(x) * sqrt(y) + sqrt(y) * sqrt(z) + sqrt(z) * sqrt(x);
        st.push_back(relU((Q)EF::RF((x + lam) / 4, (y + lam) / 4, (z + lam) / 4), (Q)v)); }
      st.push_back(z == 0 ? rel2(EF::RF(x, y), v) : -1);
      st.push_back(y == z && y > 0 ? rel2(EF::RC(x, y), v) : -1);
      break;
    case 1: v = EF::RF(x, y); q = carl_quad(0, x, y, 0, 0);
      st = {rel2(EF::RF(y, x), v), rel2(EF::RF(x, y, 0.0), v), relU((Q)EF::RF(4 * x, 4 * y), (Q)v / 2)}; break;
    case 2: v = EF::RC(x, y); q = carl_quad(1, x, y, 0, 0);
      st = {rel2(EF::RF(x, y, y), v), relU((Q)EF::RC(4 * x, 4 * y), (Q)v / 2)}; break;
    case 3: v = EF::RG(x, y, z); q = carl_quad(4, x, y, z, 0);
      st = {max(rel2(EF::RG(y, z, x), v), rel2(EF::RG(z, x, y), v)), max(rel2(EF::RG(y, x, z), v), rel2(EF::RG(x, z, y), v)),
            relU((Q)EF::RG(4 * x, 4 * y, 4 * z), 2 * (Q)v), z == 0 ? rel2(EF::RG(x, y), v) : -1}; break;
    case 4: v = EF::RG(x, y); q = carl_quad(4, x, y, 0, 0);
      st = {rel2(EF::RG(y, x), v), rel2(EF::RG(x, y, 0.0), v), relU((Q)EF::RG(4 * x, 4 * y), 2 * (Q)v)}; break;
    case 5: v = EF::RJ(x, y, z, p); q = carl_quad(2, x, y, z, p);
      st = {max(rel2(EF::RJ(y, z, x, p), v), rel2(EF::RJ(z, x, y, p), v)), max(rel2(EF::RJ(y, x, z, p), v), rel2(EF::RJ(x, z, y, p), v)),
            relU((Q)EF::RJ(4 * x, 4 * y, 4 * z, 4 * p), (Q)v / 8), p == z ? rel2(EF::RD(x, y, z), v) : -1}; break;
    default: v = EF::RD(x, y, z); q = carl_quad(3, x, y, z, 0);
      st = {rel2(EF::RD(y, x, z), v), rel2(EF::RJ(x, y, z, z), v), relU((Q)EF::RD(4 * x, 4 * y, 4 * z), (Q)v / 8)}; break;
  }
  r.li("v", d3(v)).i("rq", relU((Q)v, q)).li("st", st);
}

// the two ends of the tangent range: the last binades above zero (denormal) and below overflow
static void rec_den(vt::Rng& g) {
  bool ser = g.range(0, 3) == 0; double f = rnd_f(g, ser); AuxCtx& C = ctx_for(rnd_a(g), f);
  int a, b; rnd_pair(g, a, b); int m = ser ? 0 : 1;
  double t;
  int w = int(g.range(0, 3));
  if (w == 0) { int e = int(g.range(-1074, -1040)); t = ldexp(g.coin() ? 1.0 : g.uni(1, 2), e); if (t == 0) t = ldexp(1.0, -1074); }
  else if (w == 1) t = ldexp(g.uni(1, 2), int(g.range(-1040, -800)));
  else if (w == 2) t = ldexp(g.uni(1, 2), int(g.range(500, 800)));
  else t = ldexp(g.uni(1, 2), int(g.range(800, 1023)));
  if (g.coin()) t = -t;
  AuxAngle z(t, 1.0), o = C.A().Convert(a, b, z, m != 0);
  Rec r; r.str("e", "den").i("fi", -1);
  conv_obs(C, a, b, m, z, o, r, false);
  r.emit(OUT);
}

// ---------------------------------------------------------------- elliptic samplers
static double rnd_dy(vt::Rng& g, int lo, int hi) { return ldexp(double(g.range(1, (1 << 20) - 1)), int(g.range(lo, hi)) - 20); }
static void rnd_par(vt::Rng& g, double& c, double& cp) {     // (k2, kp2) or (alpha2, alphap2), exactly complementary
  int w = int(g.range(0, 9));
  cp = w == 0 ? 0 : w == 1 ? 1 : w < 4 ? ldexp(1.0, -int(g.range(1, 53))) : w < 7 ? rnd_dy(g, -8, 0) : w < 9 ? 1 + rnd_dy(g, -3, 5)
     : 1 + ldexp(1.0, int(g.range(5, 14)));
  c = 1 - cp;
}
static double rnd_arg(vt::Rng& g) {
  if (g.range(0, 24) == 0) return g.coin() ? 0.0 : -0.0;
  int w = int(g.range(0, 9));
  if (w < 4) return g.uni(-1.5707963, 1.5707963); if (w < 6) return g.uni(-7, 7); if (w < 8) return g.uni(-100, 100);
  if (w == 8) return ldexp(g.uni(1, 2), -int(g.range(1, 60))) * (g.coin() ? 1 : -1);
  return (g.coin() ? 1 : -1) * (1.5707963267948966 - ldexp(g.uni(1, 2), -int(g.range(3, 40))));
}
static void rec_ell3(vt::Rng& g, int kind) {
  EP p; rnd_par(g, p.k2, p.kp2); rnd_par(g, p.a2, p.ap2); double x = rnd_arg(g);
  g_cm = int(g.range(0, 3));
  Rec r;
  if (kind == 0) { r.str("e", "ec"); obs_ec(p, r); } else if (kind == 1) { r.str("e", "ei"); obs_ei(p, x, r); } else { r.str("e", "ej"); obs_ej(p, x, r); }
  r.emit(OUT);
}
static void rec_rc(vt::Rng& g) {
  int fn = int(g.range(0, 6)); double a[4];
  int span = g.coin() ? 3 : g.coin() ? 30 : 300, base = int(g.range(-300, 300)); if (base + span > 300) base = 300 - span; if (base - span < -300) base = span - 300;
  for (int j = 0; j < 4; ++j) a[j] = ldexp(g.uni(1, 2), base + int(g.range(-span, span)));
  if ((fn == 0 || fn == 3) && g.range(0, 4) == 0) a[2] = 0;
  if ((fn == 5 || fn == 6 || fn == 2) && g.range(0, 4) == 0) a[0] = 0;
  if (fn == 0 && g.range(0, 5) == 0) a[2] = a[1];
  if (fn == 5 && g.range(0, 5) == 0) a[3] = a[2];
  Rec r; r.str("e", "rc").i("lat", 0); obs_rc(fn, a, r); r.emit(OUT);
}

// =============================================================== AuxAngle observations (the class itself)
// angle between the directions (gy, gx) and (ry, rx), full circle, infinite components allowed ("either, but not both")
static Q dang2(Q gy, Q gx, Q ry, Q rx) {
  if (qinf(gy)) { gy = gy > 0 ? 1 : -1; gx = 0; } else if (qinf(gx)) { gx = gx > 0 ? 1 : -1; gy = 0; }
  if (qinf(ry)) { ry = ry > 0 ? 1 : -1; rx = 0; } else if (qinf(rx)) { rx = rx > 0 ? 1 : -1; ry = 0; }
  Q sg = qmax(qabs(gy), qabs(gx)), sr = qmax(qabs(ry), qabs(rx));
  if (sg == 0 || sr == 0 || qnan(sg) || qnan(sr)) return 0 / (Q)0.0;
  gy /= sg; gx /= sg; ry /= sr; rx /= sr;
  return atan2q(gy * rx - gx * ry, gx * rx + gy * ry);
}
static double rnd_comp(vt::Rng& g) { return (g.coin() ? 1 : -1) * ldexp(g.uni(1, 2), int(g.range(-40, 40))); }
static void rec_ang(vt::Rng& g) {
  const double inf = std::numeric_limits<double>::infinity();
  double y = rnd_comp(g), x = rnd_comp(g); int w = int(g.range(0, 11)), sc = 0;     // sc: 0 generic, 1 a zero component, 2 an infinite component
  if (w == 0) { y = g.coin() ? 0.0 : -0.0; sc = 1; } else if (w == 1) { x = g.coin() ? 0.0 : -0.0; sc = 1; }
  else if (w == 2) { y = g.coin() ? inf : -inf; sc = 2; } else if (w == 3) { x = g.coin() ? inf : -inf; sc = 2; }
  else if (w == 4) { y = x * tan(g.uni(-1.5707, 1.5707)); }
  AuxAngle z(y, x), n = z.normalized();
  Q ang = atan2q((Q)y, (Q)x);
  Rec r; r.str("e", "ang").i("sc", sc).li("sg", {sgn(y) * (std::signbit(y) && y == 0 ? 0 : 1), sgn(x)});
  // normalized(): on the unit circle, same direction, component signs kept
  r.i("nr", absU(hypotq((Q)n.y(), (Q)n.x()), 1, 1)).i("nd", qU(qabs(dang2((Q)n.y(), (Q)n.x(), (Q)y, (Q)x))))
   .b("ns", std::signbit(n.y()) == std::signbit(y) && std::signbit(n.x()) == std::signbit(x));
  // accessors against their definitions (relative: angles near the cardinal points keep their accuracy)
  r.i("ad", relU((Q)z.degrees(), ang * 180 / QPI)).i("ar", relU((Q)z.radians(), ang));
  { Q t = (Q)z.tan(); r.i("al", qinf(t) || x == 0 ? -1 : relU((Q)z.lam(), asinhq(t))).i("ald", qinf(t) || x == 0 ? -1 : relU((Q)z.lamd(), asinhq(t) * 180 / QPI))
      .b("at", vt::bits(z.tan()) == vt::bits(y / x)); }
  // factories: degrees(d), radians(r), lam(psi), lamd(psid): direction / tangent against the definitions, and the round trips
  { double d = w < 6 ? g.uni(-180, 180) : w < 8 ? double(g.range(-180, 180)) : (g.coin() ? 1 : -1) * ldexp(g.uni(1, 2), int(g.range(-60, 7)));
    if (fabs(d) > 180) d = 180;
    AuxAngle a = AuxAngle::degrees(d); Q th = (Q)d * QPI / 180;
    r.i("fd", qU(qabs(dang2((Q)a.y(), (Q)a.x(), sinq(th), cosq(th))))).i("fdt", fabs(d) <= 45 ? relU(qtan(a), tanq(th)) : -1).i("fdb", relU((Q)a.degrees(), (Q)d));
    double rr = d * 0.017453292519943295; AuxAngle b = AuxAngle::radians(rr);
    r.i("fr", qU(qabs(dang2((Q)b.y(), (Q)b.x(), sinq((Q)rr), cosq((Q)rr))))).i("frt", fabs(rr) <= 0.78 ? relU(qtan(b), tanq((Q)rr)) : -1).i("frb", relU((Q)b.radians(), (Q)rr));
    double psi = (g.coin() ? 1 : -1) * ldexp(g.uni(1, 2), int(g.range(-30, 0))), psd = psi * 57.29577951308232;
    AuxAngle l = AuxAngle::lam(psi), ld = AuxAngle::lamd(psd);
    r.i("fl", relU(qtan(l), sinhq((Q)psi))).i("flb", relU((Q)l.lam(), (Q)psi)).i("fld", relU(qtan(ld), sinhq((Q)psd * QPI / 180))).i("fldb", relU((Q)ld.lamd(), (Q)psd)); }
  // copyquadrant(p): the magnitudes of *this with the signs of p
  { AuxAngle p(rnd_comp(g), rnd_comp(g)), c = z.copyquadrant(p);
    r.b("cq", std::signbit(c.y()) == std::signbit(p.y()) && std::signbit(c.x()) == std::signbit(p.x()) &&
              vt::bits(fabs(c.y())) == vt::bits(fabs(y)) && vt::bits(fabs(c.x())) == vt::bits(fabs(x))); }
  // a += b: the angle of the sum (finite components: "Neither *this nor p should have an infinite component")
  { double y1 = std::isinf(y) ? 1.0 : y, x1 = std::isinf(x) ? 1.0 : x; if (std::isinf(y)) x1 = 0; if (std::isinf(x)) y1 = 0;
    AuxAngle a(y1, x1), b(rnd_comp(g), rnd_comp(g)); if (g.range(0, 7) == 0) b = AuxAngle(g.coin() ? 0.0 : -0.0, fabs(b.x()));
    Q ey = (Q)y1 * (Q)b.x() + (Q)x1 * (Q)b.y(), ex = (Q)x1 * (Q)b.x() - (Q)y1 * (Q)b.y();
    AuxAngle c(a); c += b;
    r.i("pa", qU(qabs(dang2((Q)c.y(), (Q)c.x(), ey, ex)))); }
  { AuxAngle q = AuxAngle::NaN(); r.b("nn", std::isnan(q.y()) && std::isnan(q.x())); }
  r.emit(OUT);
}
// replay: angl op y1 x1 j1 y2 x2 j2 - small integer components scaled by 2^j (j = 99: the non-zero component is infinite)
static double lat_comp(int v, int j) { return v == 0 ? 0.0 : j == 99 ? (v > 0 ? INFINITY : -INFINITY) : ldexp(double(v), j); }
static void do_angl(const vector<string>& t) {
  int op = atoi(t[1].c_str()), y1 = atoi(t[2].c_str()), x1 = atoi(t[3].c_str()), j1 = atoi(t[4].c_str()), y2 = atoi(t[5].c_str()), x2 = atoi(t[6].c_str()), j2 = atoi(t[7].c_str());
  AuxAngle a(lat_comp(y1, j1), lat_comp(x1, j1)), b(lat_comp(y2, j2), lat_comp(x2, j2)), c(a);
  double deg = 0;
  switch (op) {
    case 0: c = a.normalized(); break;
    case 1: c = a.copyquadrant(b); break;
    case 2: c += b; break;
    case 3: deg = a.degrees(); break;                    // accessor at a cardinal direction
    default: c = AuxAngle::degrees(90.0 * y1); deg = c.degrees(); break;     // factory at a multiple of 90 degrees (y1 = -2..2)
  }
  // results as integers after removing the scale 2^(j1) (ops 0, 1, 3, 4) or 2^(j1 + j2) (op 2); ex: the scaling was exact
  int js = (op == 2 ? j1 + j2 : op == 1 ? j1 : 0); double ry = ldexp(c.y(), -js), rx = ldexp(c.x(), -js);
  bool ex = ry == nearbyint(ry) && rx == nearbyint(rx) && fabs(ry) < 1e6 && fabs(rx) < 1e6;
  Rec r; r.str("e", "angl").i("op", op).li("p", {y1, x1, j1, y2, x2, j2}).b("ex", ex).i("ry", ex ? (long long) ry : 0).i("rx", ex ? (long long) rx : 0)
    .li("deg", d3(deg));
  if (op == 2 && y2 == 0 && x2 < 0) r.str("kf", "ang-add-halfturn");
  r.emit(OUT);
}
// replay: sing which - the global instantiations: 0 AuxLatitude::WGS84(), 1 Ellipsoid::WGS84(); parameters as integer limbs and
// bit-for-bit agreement of every inspector / conversion with an object built from the documented constants
static void do_sing(const vector<string>& t) {
  int which = atoi(t[1].c_str()); double a, f; vector<long long> same;
  auto eq = [&](double u, double v) { same.push_back(vt::bits(u) == vt::bits(v) ? 1 : 0); };
  if (which == 0) {
    const AuxLatitude& W = AuxLatitude::WGS84(); AuxLatitude R(Constants::WGS84_a(), Constants::WGS84_f());
    a = W.EquatorialRadius(); f = W.Flattening();
    eq(W.PolarSemiAxis(), R.PolarSemiAxis()); eq(W.RectifyingRadius(true), R.RectifyingRadius(true)); eq(W.RectifyingRadius(false), R.RectifyingRadius(false));
    eq(W.AuthalicRadiusSquared(true), R.AuthalicRadiusSquared(true)); eq(W.AuthalicRadiusSquared(false), R.AuthalicRadiusSquared(false));
    for (int k = 1; k <= 5; ++k) for (int m = 0; m < 2; ++m) { eq(W.Convert(0, k, 37.5, m != 0), R.Convert(0, k, 37.5, m != 0)); eq(W.Convert(k, 0, -61.25, m != 0), R.Convert(k, 0, -61.25, m != 0)); }
  } else {
    const Ellipsoid& W = Ellipsoid::WGS84(); Ellipsoid R(Constants::WGS84_a(), Constants::WGS84_f());
    a = W.EquatorialRadius(); f = W.Flattening();
    eq(W.PolarRadius(), R.PolarRadius()); eq(W.QuarterMeridian(), R.QuarterMeridian()); eq(W.Area(), R.Area()); eq(W.Volume(), R.Volume());
    eq(W.SecondFlattening(), R.SecondFlattening()); eq(W.ThirdFlattening(), R.ThirdFlattening()); eq(W.EccentricitySq(), R.EccentricitySq());
    eq(W.SecondEccentricitySq(), R.SecondEccentricitySq()); eq(W.ThirdEccentricitySq(), R.ThirdEccentricitySq());
    eq(W.RectifyingLatitude(37.5), R.RectifyingLatitude(37.5)); eq(W.MeridianDistance(-61.25), R.MeridianDistance(-61.25)); eq(W.CircleRadius(37.5), R.CircleRadius(37.5));
    eq(W.IsometricLatitude(37.5), R.IsometricLatitude(37.5)); eq(W.NormalCurvatureRadius(37.5, 20), R.NormalCurvatureRadius(37.5, 20));
  }
  long long ahi, alo, fhi, flo; vt::limbs((long double) a, 1e-9L, ahi, alo); vt::limbs(1 / (long double) f, 1e-9L, fhi, flo);
  // a in nanometres [hi, lo] (value hi * 1e9 + lo), 1/f in units of 1e-9 likewise
  Rec r; r.str("e", "sing").i("which", which).li("a", {ahi, alo}).li("rf", {fhi, flo}).li("same", same);
  r.emit(OUT);
}

// =============================================================== main: replay of TLC vectors / seeded records
static double dy(const vector<string>& t, size_t i) { return ldexp(double(atoll(t[i].c_str())), atoi(t[i + 1].c_str())); }
static void do_ell(const vector<string>& t) {      // ec kp2m kp2e ap2m ap2e cm | ei|ej kp2m kp2e ap2m ap2e xm xe cm; k2 = 1 - kp2, alpha2 = 1 - alphap2
  EP p; p.kp2 = dy(t, 1); p.k2 = 1 - p.kp2; p.ap2 = dy(t, 3); p.a2 = 1 - p.ap2;
  { size_t ci = t[0] == "ec" ? 5 : 7; g_cm = t.size() > ci ? atoi(t[ci].c_str()) : 0; }
  Rec r; r.str("e", t[0]);
  vector<long long> par; for (int i = 1; i <= 4; ++i) par.push_back(atoll(t[i].c_str()));
  r.li("par", par);
  if (t[0] == "ec") obs_ec(p, r);
  else { r.li("arg", {atoll(t[5].c_str()), atoll(t[6].c_str())}); double x = dy(t, 5); if (t[0] == "ei") obs_ei(p, x, r); else obs_ej(p, x, r); }
  r.emit(OUT);
}
static void do_rc(const vector<string>& t) {
  int fn = atoi(t[1].c_str()); double a[4] = {dy(t, 2), dy(t, 4), dy(t, 6), dy(t, 8)};
  vector<long long> par; for (int i = 2; i <= 9; ++i) par.push_back(atoll(t[i].c_str()));
  Rec r; r.str("e", "rc").i("lat", 1).li("par", par); obs_rc(fn, a, r); r.emit(OUT);
}
static uint64_t mix64(uint64_t z) { z = (z ^ (z >> 30)) * 0xBF58476D1CE4E5B9ULL; z = (z ^ (z >> 27)) * 0x94D049BB133111EBULL; return z ^ (z >> 31); }
static void one_record(vt::Rng& g, long long it) {
  static const int W[] = {195, 115, 115, 60, 100, 80, 60, 5, 50, 25, 5, 55, 45, 25, 10, 8, 12, 20, 15};   // per mille
  int u = int(g.range(0, 999)), k = 0; while (u >= W[k]) { u -= W[k]; ++k; }
  switch (k) {
    case 0: rec_cv(g, it); break; case 1: rec_rtp(g); break; case 2: rec_se(g); break; case 3: rec_odd(g); break;
    case 4: rec_mono(g); break; case 5: rec_path(g); break; case 6: rec_taux(g); break; case 7: rec_rad(g); break;
    case 8: rec_dd(g); break; case 9: rec_den(g); break; case 10: rec_elq(g); break; case 11: rec_elm(g); break;
    case 12: rec_ell(g); break; case 13: rec_elf(g); break; case 14: rec_ell3(g, 0); break; case 15: rec_ell3(g, 1); break;
    case 16: rec_ell3(g, 2); break; case 17: rec_rc(g); break; default: rec_ang(g); break;
  }
}
#include <thread>
int main(int argc, char** argv) {
  vt::install_terminate();
  QPI = 4 * atanq(1); QH = QPI / 2; gl_init();
  if (argc >= 2 && string(argv[1]) == "replay") {
    int T = argc >= 3 ? atoi(argv[2]) : 16; if (T < 1) T = 1;
    vector<string> lines; string line;
    while (getline(cin, line)) if (!line.empty()) lines.push_back(line);
    size_t nl = lines.size(); const size_t B = 4, CHN = (nl + B - 1) / B;     // small batches, handed out dynamically
    vector<char*> buf(CHN, nullptr); vector<size_t> len(CHN, 0);
    std::atomic<size_t> next(0);
    auto work = [&]() {
      for (;;) {
        size_t c = next.fetch_add(1); if (c >= CHN) break;
        FILE* f = open_memstream(&buf[c], &len[c]); OUT = f;
        for (size_t i = c * B; i < nl && i < (c + 1) * B; ++i) {
          auto t = vt::split(lines[i]); if (t.empty()) continue;
          if (t[0] == "cv") do_cv(t); else if (t[0] == "path") do_path(t);
          else if (t[0] == "ec" || t[0] == "ei" || t[0] == "ej") do_ell(t); else if (t[0] == "rc") do_rc(t);
          else if (t[0] == "angl") do_angl(t); else if (t[0] == "sing") do_sing(t);
        }
        fclose(f); OUT = stdout;
      }
    };
    vector<std::thread> th; for (int i = 0; i < T; ++i) th.emplace_back(work);
    for (auto& x : th) x.join();
    for (size_t c = 0; c < CHN; ++c) { if (len[c]) fwrite(buf[c], 1, len[c], stdout); free(buf[c]); }
    return 0;
  }
  if (argc >= 4 && string(argv[1]) == "record") {
    uint64_t seed = strtoull(argv[2], 0, 10); long long n = atoll(argv[3]);
    int T = argc >= 5 ? atoi(argv[4]) : 16; if (T < 1) T = 1;
    const int CH = 512;                      // fixed number of chunks: the trace does not depend on the thread count
    vector<char*> buf(CH, nullptr); vector<size_t> len(CH, 0);
    std::atomic<int> next(0);
    auto work = [&]() {
      for (;;) {
        int c = next.fetch_add(1); if (c >= CH) break;
        FILE* f = open_memstream(&buf[c], &len[c]); OUT = f;
        vt::Rng g(mix64(seed * 0x9E3779B97F4A7C15ULL + uint64_t(c) + 1));     // unrelated offsets of the generator's sequence
        long long lo = n * c / CH, hi = n * (c + 1) / CH;
        for (long long it = lo; it < hi; ++it) one_record(g, it);
        fclose(f); OUT = stdout;
      }
    };
    vector<std::thread> th; for (int i = 0; i < T; ++i) th.emplace_back(work);
    for (auto& x : th) x.join();
    for (int c = 0; c < CH; ++c) { if (len[c]) fwrite(buf[c], 1, len[c], stdout); free(buf[c]); }
    return 0;
  }
  fprintf(stderr, "usage: drv_auxell replay < vectors | record seed n [threads]\n"); return 2;
}
