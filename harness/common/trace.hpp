// Common kit for the conformance drivers.  Drivers only execute library calls
// and log observations as ndjson; they never decide a property.
#pragma once
#include <cmath>
#include <cstdint>
#include <cstdio>
#include <cstdlib>
#include <cstring>
#include <exception>
#include <iostream>
#include <limits>
#include <sstream>
#include <string>
#include <vector>
#include <unistd.h>

namespace vt {

// ----------------------------------------------------------------- JSON out
struct Rec {
  std::string s;
  bool first = true;
  Rec() { s.reserve(256); s.push_back('{'); }
  void key(const char* k) {
    if (!first) s.push_back(',');
    first = false;
    s.push_back('"'); s += k; s += "\":";
  }
  Rec& i(const char* k, long long v) { key(k); s += std::to_string(v); return *this; }
  Rec& b(const char* k, bool v) { key(k); s += v ? "true" : "false"; return *this; }
  Rec& raw(const char* k, const std::string& v) { key(k); s += v; return *this; }
  Rec& str(const char* k, const std::string& v) {
    key(k); s.push_back('"');
    for (unsigned char c : v) {
      if (c == '"') s += "\\\"";
      else if (c == '\\') s += "\\\\";
      else if (c < 0x20 || c >= 0x7f) { char b[8]; snprintf(b, 8, "\\u%04x", c); s += b; }
      else s.push_back(char(c));
    }
    s.push_back('"'); return *this;
  }
  // list of ints
  Rec& li(const char* k, const std::vector<long long>& v) {
    key(k); s.push_back('[');
    for (size_t j = 0; j < v.size(); ++j) { if (j) s.push_back(','); s += std::to_string(v[j]); }
    s.push_back(']'); return *this;
  }
  void emit(FILE* f = stdout) { s += "}\n"; fwrite(s.data(), 1, s.size(), f); }
};

// byte string -> list of byte codes (strings with NUL / non-UTF8 bytes cannot be JSON strings
// that TLC reads back faithfully, so codes are logged as a list of ints)
inline std::vector<long long> codes(const std::string& v) {
  std::vector<long long> r; for (unsigned char c : v) r.push_back(c); return r;
}

// ----------------------------------------------------------------- numbers
// Eps number <<k, d>>: value k*unit moved by d ulps (nextafter), d in {-1,0,1}.
inline double eps(long long k, int d, double unit = 1.0) {
  double v = double(k) * unit;
  if (d > 0) for (int j = 0; j < d; ++j) v = std::nextafter(v, std::numeric_limits<double>::infinity());
  if (d < 0) for (int j = 0; j < -d; ++j) v = std::nextafter(v, -std::numeric_limits<double>::infinity());
  return v;
}

// class tag of a double: 0 finite, 1 NaN, 2 +inf, 3 -inf
inline int cls(double v) { return std::isnan(v) ? 1 : std::isinf(v) ? (v > 0 ? 2 : 3) : 0; }

// Quantise v/unit to the nearest integer, as a pair of 32-bit-safe limbs [hi, lo] with
// value = hi*1e9 + lo, both limbs carrying the sign of the value (|lo| < 1e9).
// Returns false when the quotient does not fit (|q| >= 2e18).
inline bool limbs(long double v, long double unit, long long& hi, long long& lo) {
  long double q = std::nearbyint(v / unit);
  if (!(std::fabs(q) < 2.0e18L)) { hi = lo = 0; return false; }
  long long n = (long long) q;
  hi = n / 1000000000LL; lo = n % 1000000000LL;
  return true;
}

// Plain quantisation to one int (caller guarantees the range |q| < 2^31).
inline long long q1(long double v, long double unit) {
  long double q = std::nearbyint(v / unit);
  if (std::isnan(q)) return 2000000001LL;
  if (q > 2.0e9L) return 2000000000LL;
  if (q < -2.0e9L) return -2000000000LL;
  return (long long) q;
}

// exact representation of a double for replay files
inline std::string hexf(double v) { char b[64]; snprintf(b, 64, "%a", v); return b; }
inline uint64_t bits(double v) { uint64_t u; memcpy(&u, &v, 8); return u; }
// bit pattern split in three limbs < 2^22.. (22+21+21 bits) so that TLC (32-bit ints) can compare
inline std::vector<long long> bits3(double v) {
  uint64_t u = bits(v);
  return { (long long)(u >> 42), (long long)((u >> 21) & 0x1fffff), (long long)(u & 0x1fffff) };
}

// sentinel NaN with payload, to detect writes to outputs
inline double sentinel(unsigned k = 1) {
  uint64_t u = 0x7ff8000000000000ULL | (0xabc000ULL + k); double d; memcpy(&d, &u, 8); return d;
}
inline bool is_sentinel(double v, unsigned k = 1) { return bits(v) == bits(sentinel(k)); }

// ----------------------------------------------------------------- input
inline std::vector<std::string> split(const std::string& l) {
  std::vector<std::string> t; std::istringstream is(l); std::string w;
  while (is >> w) t.push_back(w);
  return t;
}

// deterministic RNG (splitmix64) so that traces depend only on VERIF_SEED
struct Rng {
  uint64_t s;
  // the seed is hashed so that seeds 1, 2, 3, ... give unrelated streams (not the same stream shifted by one draw)
  static uint64_t mix(uint64_t z) { z = (z ^ (z >> 30)) * 0xBF58476D1CE4E5B9ULL; z = (z ^ (z >> 27)) * 0x94D049BB133111EBULL; return z ^ (z >> 31); }
  explicit Rng(uint64_t seed) : s(mix(mix(seed + 0x632BE59BD9B4E019ULL) + 0x9E3779B97F4A7C15ULL)) {}
  uint64_t next() { uint64_t z = (s += 0x9E3779B97F4A7C15ULL);
    z = (z ^ (z >> 30)) * 0xBF58476D1CE4E5B9ULL; z = (z ^ (z >> 27)) * 0x94D049BB133111EBULL;
    return z ^ (z >> 31); }
  double u01() { return (next() >> 11) * (1.0 / 9007199254740992.0); }
  double uni(double a, double b) { return a + (b - a) * u01(); }
  long long range(long long a, long long b) { return a + (long long)(next() % (uint64_t)(b - a + 1)); }
  bool coin() { return next() & 1; }
  template<class T> const T& pick(const std::vector<T>& v) { return v[next() % v.size()]; }
};

inline void install_terminate() {
  std::set_terminate([] {
    fflush(stdout);
    fprintf(stderr, "terminate called\n");
    _exit(3);
  });
}

} // namespace vt
