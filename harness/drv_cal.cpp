// Driver for the calendar functions of Utility (growth item attached to C10): executes TLC-chosen dates, day numbers
// and date strings on the real library and logs what it observes.  Decides nothing.
#include "trace.hpp"
#include <GeographicLib/Utility.hpp>
using namespace GeographicLib;
using namespace std;
using vt::Rec;

template<class F> static string guarded(F f) {
  try { f(); return "ok"; }
  catch (const GeographicErr&) { return "throw"; }
  catch (const std::exception&) { return "std::exception"; }
  catch (...) { return "unknown"; }
}

int main(int argc, char** argv) {
  vt::install_terminate();
  if (argc < 2 || string(argv[1]) != "replay") { fprintf(stderr, "usage: drv_cal replay < vectors\n"); return 2; }
  string line;
  while (getline(cin, line)) {
    auto t = vt::split(line); if (t.empty()) continue;
    if (t[0] == "day") {
      int y = atoi(t[1].c_str()), m = atoi(t[2].c_str()), d = atoi(t[3].c_str());
      int s = -1; string chk = guarded([&] { s = Utility::day(y, m, d, true); });
      int u = Utility::day(y, m, d);       // documented for positive y, m, d
      Rec r; r.str("e", "day").i("y", y).i("m", m).i("d", d).str("chk", chk).i("s", s).i("u", u); r.emit();
    } else if (t[0] == "date") {
      int s = atoi(t[1].c_str()); int y = -1, m = -1, d = -1; Utility::date(s, y, m, d);
      Rec r; r.str("e", "date").i("s", s).i("y", y).i("m", m).i("d", d).i("dow", Utility::dow(s)).i("dow3", Utility::dow(y, m, d)); r.emit();
    } else if (t[0] == "str") {
      string s; for (size_t i = 1; i < t.size(); ++i) s.push_back(char(atoi(t[i].c_str())));
      int y = -77, m = -77, d = -77; string out = guarded([&] { Utility::date(s, y, m, d); });
      double v = 0; string fout = guarded([&] { v = Utility::fractionalyear<double>(s); });
      long long fi = 0, fn = 0; bool fneg = false;
      if (fout == "ok" && std::isfinite(v) && fabs(v) < 2.0e9) { fneg = std::signbit(v); double fl = floor(v); fi = (long long) fl; fn = (long long) llround((v - fl) * 1e9); if (fn == 1000000000LL) { fn = 0; ++fi; } }
      else if (fout == "ok") { fi = 2000000001LL; }
      Rec r; r.str("e", "str").li("code", vt::codes(s)).str("out", out).i("y", y).i("m", m).i("d", d).b("untouched", y == -77 && m == -77 && d == -77)
        .str("fout", fout).i("fi", fi).i("fn", fn).b("fneg", fneg); r.emit();
    }
  }
  return 0;
}
