// Driver for Geoid (C20): writes synthetic .pgm rasters, replays TLC-chosen histories on real Geoid
// objects and logs observations; `record` mode runs seeded random histories on random rasters and
// enumerated file faults.
#include "trace.hpp"
#include <GeographicLib/Geoid.hpp>
#include <GeographicLib/Math.hpp>
#include <fstream>
#include <memory>
#include <sys/stat.h>

using namespace GeographicLib;
using namespace std;
using vt::Rec;

static string g_dir;

template<class F> static string guarded(F f) {
  try { f(); return "ok"; }
  catch (const GeographicErr&) { return "throw"; }
  catch (const std::bad_alloc&) { return "badalloc"; }
  catch (const std::exception&) { return "other"; }
  catch (...) { return "other"; }
}

// ---- pixel formulas (shared with spec/Geoid.tla: keep in sync) ----
static long long pix_grid(long long x, long long y) { return ((7 * x + 13 * y + x * y) % 97) * 8 + (x % 5) + 3 * (y % 4); }
static long long poly(long long a, long long b) {
  return 30000 + a * a * a - 2 * a * a * b + 3 * a * b * b + 5 * b * b * b + 7 * a * a - 11 * a * b + 13 * b * b + 17 * a - 19 * b;
}

// "ppoly": polar rows sampled from a cubic without pure-u terms, continued through the pole by the half-turn reflection
static long long pq(long long u, long long d) { return 30000 + 5 * d * d * d + 3 * u * d * d - 2 * u * u * d + 13 * d * d - 11 * u * d - 19 * d; }
static long long pix_ppoly(long long x, long long y, long long W, long long H) {
  long long Wh = W / 2, u = (x % Wh) - W / 4, sg = x < Wh ? 1 : -1, ds = (H - 1) - y;
  return y <= 3 ? pq(u, sg * y) : ds <= 3 ? pq(u, sg * ds) : 30000;
}

struct Raster { int W, H; vector<unsigned short> p; double offset, scale; string name; };

static void write_pgm(const Raster& r, const string& path, const string& hdr_override = "", long long nbytes = -1,
                      bool empty = false) {
  ofstream f(path.c_str(), ios::binary);
  if (empty) return;
  if (hdr_override.empty()) {
    f << "P5\n# Description synthetic raster for verification\n# DateTime 2026-10-01 00:00:00\n";
    f.precision(17);
    f << "# Offset " << r.offset << "\n# Scale " << r.scale << "\n# MaxBilinearError 0.1\n# RMSBilinearError 0.01\n";
    f << "# MaxCubicError 0.1\n# RMSCubicError 0.01\n" << r.W << " " << r.H << "\n65535\n";
  } else f << hdr_override;
  string data;
  for (size_t i = 0; i < r.p.size(); ++i) { data.push_back(char(r.p[i] >> 8)); data.push_back(char(r.p[i] & 0xff)); }
  if (nbytes < 0) nbytes = (long long) data.size();
  while ((long long) data.size() < nbytes) data.push_back(char(7));
  f.write(data.data(), nbytes);
}

static Raster make_raster(const string& kind, int W, int H) {
  Raster r; r.W = W; r.H = H; r.p.resize(size_t(W) * H); r.offset = -108; r.scale = 0.25; r.name = kind + to_string(W) + "x" + to_string(H);
  for (int y = 0; y < H; ++y) for (int x = 0; x < W; ++x)
    r.p[size_t(y) * W + x] = (unsigned short)(kind == "grid" ? pix_grid(x, y) : kind == "ppoly" ? pix_ppoly(x, y, W, H) : poly(x - W / 2, y - (H - 1) / 2));
  write_pgm(r, g_dir + "/" + r.name + ".pgm");
  return r;
}

// ---- current object under test + references ----
static Raster cur; static string cur_kind; static bool cur_cubic, cur_ts;
static unique_ptr<Geoid> obj, tsref;

static double lon_of(long long X8) { return double(X8) * (360.0 / cur.W) / 8.0; }
static double lat_of(long long Y8) { return 90.0 - double(Y8) * (180.0 / (cur.H - 1)) / 8.0; }

static void inspectors(Rec& r, const Geoid& g) {
  double rlon = cur.W / 360.0, rlat = (cur.H - 1) / 180.0;
  r.b("cache", g.Cache()).i("W", cur.W).i("H", cur.H);
  r.li("win", { llround(g.CacheWest() * rlon * 8), llround(g.CacheEast() * rlon * 8),
                llround((90 - g.CacheNorth()) * rlat * 8), llround((90 - g.CacheSouth()) * rlat * 8) });
}

static void do_obj(const vector<string>& t) {
  cur_kind = t[1]; int W = atoi(t[2].c_str()), H = atoi(t[3].c_str()); cur_cubic = atoi(t[4].c_str()) != 0; cur_ts = atoi(t[5].c_str()) != 0;
  if (cur.name != cur_kind + to_string(W) + "x" + to_string(H)) { cur = make_raster(cur_kind, W, H); tsref.reset(); }
  obj.reset(); string res = guarded([&] { obj.reset(new Geoid(cur.name, g_dir, cur_cubic, cur_ts)); });
  if (!tsref || tsref->Interpolation() != string(cur_cubic ? "cubic" : "bilinear")) tsref.reset(new Geoid(cur.name, g_dir, cur_cubic, true));
  Rec r; r.str("e", "Reset").str("kind", cur_kind).b("cubic", cur_cubic).b("ts", cur_ts).str("out", res);
  if (obj) { inspectors(r, *obj); r.b("tsflag", obj->ThreadSafe()); r.b("meta", obj->Offset() == cur.offset && obj->Scale() == cur.scale); }
  r.emit();
}

static void log_height(Rec& r, double h, double lat, double lon) {
  // value in raster units: (h - offset)/scale, times 64 (bilinear lattice) or 512 (polynomial)
  long double c = ((long double)h - cur.offset) / cur.scale;
  long double m = cur_kind == "grid" && !cur_cubic ? 64.0L : 512.0L;
  long double v = c * m, q = nearbyintl(v);
  bool fin = std::isfinite(h);
  r.b("fin", fin).i("v", fin && fabsl(q) < 2e9L ? (long long) q : 0).i("r", fin ? vt::q1(fabsl(v - q), 1e-6L) : 0);
  // the property's own formulation: identical, bit for bit, to a fresh object and to the thread-safe object
  double hf = 0, ht = 0;
  { Geoid fresh(cur.name, g_dir, cur_cubic, false); hf = fresh(lat, lon); }
  ht = (*tsref)(lat, lon);
  r.b("eqf", vt::bits(hf) == vt::bits(h) || (std::isnan(hf) && std::isnan(h)));
  r.b("eqt", vt::bits(ht) == vt::bits(h) || (std::isnan(ht) && std::isnan(h)));
}

static void do_h(const vector<string>& t) {
  long long X8 = atoll(t[1].c_str()), Y8 = atoll(t[2].c_str());
  double lat = lat_of(Y8), lon = lon_of(X8), h = 0;
  string res = guarded([&] { h = (*obj)(lat, lon); });
  Rec r; r.str("e", "h").i("x", X8).i("y", Y8).str("out", res);
  log_height(r, h, lat, lon); inspectors(r, *obj); r.emit();
}
static void do_ca(const vector<string>& t) {
  long long s = atoll(t[1].c_str()), w = atoll(t[2].c_str()), n = atoll(t[3].c_str()), e = atoll(t[4].c_str());
  string res = guarded([&] { obj->CacheArea(lat_of(s), lon_of(w), lat_of(n), lon_of(e)); });
  Rec r; r.str("e", "ca").li("a", {s, w, n, e}).str("out", res); inspectors(r, *obj); r.emit();
}
static void do_call() { string res = guarded([&] { obj->CacheAll(); }); Rec r; r.str("e", "call").str("out", res); inspectors(r, *obj); r.emit(); }
static void do_cc() { string res = guarded([&] { obj->CacheClear(); }); Rec r; r.str("e", "cc").str("out", res); inspectors(r, *obj); r.emit(); }

// ------------------------------------------------------------------ random histories on random rasters
static void do_record(uint64_t seed, long long nhist) {
  vt::Rng g(seed);
  for (long long it = 0; it < nhist; ++it) {
    Raster r; r.W = 2 * int(g.range(1, 36)); r.H = 2 * int(g.range(1, 18)) + 1; r.offset = g.coin() ? -108 : double(g.range(-200, 200)) / 7;
    r.scale = g.coin() ? 0.003 : 0.25; r.name = "rnd"; r.p.resize(size_t(r.W) * r.H);
    for (auto& px : r.p) px = (unsigned short) g.range(0, g.coin() ? 65535 : 1000);
    write_pgm(r, g_dir + "/rnd.pgm");
    bool cubic = g.coin();
    cur = r; cur_kind = "rnd"; cur_cubic = cubic; cur_ts = false;
    obj.reset(new Geoid("rnd", g_dir, cubic, false)); tsref.reset(new Geoid("rnd", g_dir, cubic, true));
    { Rec h; h.str("e", "Reset").str("kind", "rnd").b("cubic", cubic).b("ts", false).str("out", "ok");
      inspectors(h, *obj); h.b("tsflag", false).b("meta", obj->Offset() == r.offset && obj->Scale() == r.scale); h.emit(); }
    double plat = g.uni(-90, 90), plon = g.uni(-180, 180);
    int nops = int(g.range(5, 40));
    for (int k = 0; k < nops; ++k) {
      int op = int(g.range(0, 9));
      if (op <= 5) {
        double lat, lon; int w = int(g.range(0, 7));
        if (w == 0) { lat = plat; lon = plon; }                                   // same point
        else if (w == 1) { lat = plat + g.uni(-1, 1) * 90.0 / r.H; lon = plon + g.uni(-1, 1) * 180.0 / r.W; }  // same or adjacent cell
        else if (w == 2) { lat = g.coin() ? 90 : -90; lon = g.uni(-180, 180); }
        else if (w == 3) { lat = g.uni(-90, 90); lon = g.coin() ? 180 : -180; }
        else if (w == 4) { lat = 90 - 180.0 * double(g.range(0, r.H - 1)) / (r.H - 1); lon = 360.0 * double(g.range(0, r.W)) / r.W - 180; } // nodes
        else { lat = g.uni(-90, 90); lon = g.uni(-540, 540); }
        lat = max(-90.0, min(90.0, lat)); plat = lat; plon = lon;
        double h = 0; string res = guarded([&] { h = (*obj)(lat, lon); });
        Rec q; q.str("e", "rh").str("out", res); log_height(q, h, lat, lon);
        // periodicity, and (bilinear) continuity across the nearest cell boundaries
        double h2 = (*obj)(lat, lon + 360), h3 = (*obj)(lat, lon - 720);
        double span = r.scale * 65535;
        q.i("per", vt::q1(max(fabs(h2 - h), fabs(h3 - h)) / span, 1e-15L));
        // distance of the position from the nearest cell boundary (1e-12 cell units): cubic interpolation is a per-cell fit,
        // discontinuous at cell boundaries, so laws comparing two evaluations are not stated within round-off of one
        { double fxx = Math::AngNormalize(lon) * r.W / 360.0, fyy = (90 - lat) * (r.H - 1) / 180.0;
          q.i("edge", vt::q1(min(fabs(fxx - nearbyint(fxx)), fabs(fyy - nearbyint(fyy))), 1e-12L)); }
        long long cont = 0;
        if (!cubic) {
          double cw = 360.0 / r.W, chh = 180.0 / (r.H - 1);
          double lb = floor(lon / cw) * cw, tb = min(90.0, ceil(lat / chh) * chh);
          double a1 = (*obj)(lat, nextafter(lb, -1e9)), a2 = (*obj)(lat, lb);
          double b1 = (*obj)(min(90.0, nextafter(tb, 1e9)), lon), b2 = (*obj)(nextafter(tb, -1e9), lon);
          cont = vt::q1(max(fabs(a1 - a2), fabs(b1 - b2)) / span, 1e-15L);
        }
        q.i("cont", cont);
        // cubic, at a pole: a second evaluation at another longitude of the same cell (doc: the cubic is constrained to be
        // independent of longitude at the poles); edgex = distance of lon from the nearest cell boundary (1e-12 cell units):
        // on a boundary "the same cell" is not determined, the trace spec states the law away from it
        if (cubic && fabs(lat) == 90) {
          double cw = 360.0 / r.W, fx = lon / cw - floor(lon / cw);
          double hp = (*obj)(lat, fx < 0.5 ? lon + 0.4 * cw : lon - 0.4 * cw);
          q.i("pole", vt::q1(fabs(hp - h) / span, 1e-15L));
          double fxx = Math::AngNormalize(lon) * r.W / 360.0;
          q.i("edgex", vt::q1(fabs(fxx - nearbyint(fxx)), 1e-12L));
        }
        // ConvertHeight inverse pair
        double hh = g.uni(-100, 9000);
        double e1 = obj->ConvertHeight(lat, lon, hh, Geoid::GEOIDTOELLIPSOID), e2 = obj->ConvertHeight(lat, lon, e1, Geoid::ELLIPSOIDTOGEOID);
        q.i("conv", vt::q1(fabs(e2 - hh), 1e-12L)).b("convdef", vt::bits(e1) == vt::bits(hh + h));
        inspectors(q, *obj); q.emit();
      } else if (op == 6) { do_call(); }
      else if (op == 7) { do_cc(); }
      else {
        double s = g.uni(-90, 90), n = g.uni(-90, 90), w = g.uni(-180, 180), e = g.uni(-180, 360);
        if (g.coin() && s > n) swap(s, n);
        if (g.range(0, 3) == 0) { s = plat - 1; n = plat + 1; w = plon - 1; e = plon + 1; }
        s = max(-90.0, s); n = min(90.0, n);
        if (g.range(0, 5) == 0) { if (g.coin()) s = n; else n = s; }                    // zero-height request (south == north): not empty
        string res = guarded([&] { obj->CacheArea(s, w, n, e); });
        // requested area in eighth-cell units (floor/ceil so that containment can be judged conservatively)
        double rlon = r.W / 360.0, rlat = (r.H - 1) / 180.0;
        Rec q; q.str("e", "rca").str("out", res).b("empty", s > n)
          .li("req", { (long long) ceil((90 - s) * rlat * 8), (long long) floor(Math::AngNormalize(w) * rlon * 8),
                       (long long) floor((90 - n) * rlat * 8), (long long) ceil(Math::AngNormalize(e) * rlon * 8) });
        inspectors(q, *obj); q.emit();
      }
    }
    { double h = (*obj)(Math::NaN(), 10), h2 = (*obj)(10, Math::NaN()); Rec q; q.str("e", "rnan").b("isnan", std::isnan(h) && std::isnan(h2)); q.emit(); }
  }
  // ---- enumerated file faults (FileFormat): every one must be rejected with GeographicErr
  Raster r; r.W = 8; r.H = 5; r.offset = -108; r.scale = 0.25; r.p.assign(40, 1234);
  string good = "P5\n# Offset -108\n# Scale 0.25\n8 5\n65535\n";
  struct Fault { const char* name; string hdr; long long nbytes; };
  vector<Fault> faults = {
    {"none", good, 80}, {"comment-junk", "P5\n# Offset -108\n#\n# Foo bar\n\n# Scale 0.25\n8 5\n65535\n", 80},
    {"magic", "P6\n# Offset -108\n# Scale 0.25\n8 5\n65535\n", 80}, {"empty", "", 0}, {"magic-only", "P5\n", 0},
    {"no-offset", "P5\n# Scale 0.25\n8 5\n65535\n", 80}, {"no-scale", "P5\n# Offset -108\n8 5\n65535\n", 80},
    {"neg-scale", "P5\n# Offset -108\n# Scale -0.25\n8 5\n65535\n", 80}, {"zero-scale", "P5\n# Offset -108\n# Scale 0\n8 5\n65535\n", 80},
    {"bad-offset", "P5\n# Offset abc\n# Scale 0.25\n8 5\n65535\n", 80}, {"bad-scale", "P5\n# Offset -108\n# Scale x\n8 5\n65535\n", 80},
    {"odd-width", "P5\n# Offset -108\n# Scale 0.25\n7 5\n65535\n", 70}, {"even-height", "P5\n# Offset -108\n# Scale 0.25\n8 4\n65535\n", 64},
    {"tiny", "P5\n# Offset -108\n# Scale 0.25\n0 1\n65535\n", 0}, {"height1", "P5\n# Offset -108\n# Scale 0.25\n8 1\n65535\n", 16},
    {"bad-dims", "P5\n# Offset -108\n# Scale 0.25\nx y\n65535\n", 80}, {"one-dim", "P5\n# Offset -108\n# Scale 0.25\n8\n65535\n", 80},
    {"maxval-255", "P5\n# Offset -108\n# Scale 0.25\n8 5\n255\n", 80}, {"maxval-missing", "P5\n# Offset -108\n# Scale 0.25\n8 5\n", 0},
    {"maxval-junk", "P5\n# Offset -108\n# Scale 0.25\n8 5\nzz\n", 80},
    {"short-1", good, 79}, {"short-row", good, 64}, {"short-all", good, 0}, {"long-1", good, 81}, {"long-row", good, 96},
    {"neg-dims", "P5\n# Offset -108\n# Scale 0.25\n-8 5\n65535\n", 80}, {"huge-dims", "P5\n# Offset -108\n# Scale 0.25\n2000000000 2000000001\n65535\n", 80},
  };
  for (auto& f : faults) for (int cubic = 0; cubic < 2; ++cubic) for (int ts = 0; ts < 2; ++ts) {
    write_pgm(r, g_dir + "/fault.pgm", f.hdr, f.nbytes, f.hdr.empty());
    // ctor: outcome of the constructor alone; out: outcome of constructor + one evaluation (= ctor if that is not "ok")
    unique_ptr<Geoid> gg;
    string ctor = guarded([&] { gg.reset(new Geoid("fault", g_dir, cubic != 0, ts != 0)); });
    string res = ctor;
    if (ctor == "ok") res = guarded([&] { double h = (*gg)(10, 20); (void) h; });
    Rec q; q.str("e", "file").str("fault", f.name).b("cubic", cubic != 0).b("ts", ts != 0).str("ctor", ctor).str("out", res); q.emit();
  }
  { string res = guarded([&] { Geoid gg("does-not-exist", g_dir); }); Rec q; q.str("e", "file").str("fault", "missing").b("cubic", true).b("ts", false).str("ctor", res).str("out", res); q.emit(); }
}

int main(int argc, char** argv) {
  vt::install_terminate();
  if (argc < 3) { fprintf(stderr, "usage: drv_geoid replay DIR < ops | record DIR seed n\n"); return 2; }
  g_dir = argv[2]; mkdir(g_dir.c_str(), 0755);
  if (string(argv[1]) == "replay") {
    string line;
    while (getline(cin, line)) {
      auto t = vt::split(line); if (t.empty()) continue;
      if (t[0] == "obj") do_obj(t); else if (!obj) continue;
      else if (t[0] == "h") do_h(t); else if (t[0] == "ca") do_ca(t); else if (t[0] == "call") do_call(); else if (t[0] == "cc") do_cc();
    }
    return 0;
  }
  if (string(argv[1]) == "record" && argc >= 5) { do_record(strtoull(argv[3], 0, 10), atoll(argv[4])); return 0; }
  return 2;
}
