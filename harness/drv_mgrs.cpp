// Driver for MGRS (C05): lattice replays chosen by TLC and seeded random round-trip records.
#include "trace.hpp"
#include <GeographicLib/MGRS.hpp>
#include <GeographicLib/UTMUPS.hpp>
#include <GeographicLib/Math.hpp>

using namespace GeographicLib;
using namespace std;
using vt::Rec;

template<class F> static string guarded(F f) {
  try { f(); return "ok"; }
  catch (const GeographicErr&) { return "throw"; }
  catch (const std::bad_alloc&) { return "badalloc"; }
  catch (const std::exception&) { return "other"; }
  catch (...) { return "other"; }
}
static const char* UNCH = "~unchanged~";

// band index of a latitude as documented: 8-degree bands from -80, clipped to [-10, 9]
static int band_of(double lat) { int b = int(floor((lat + 80) / 8)) - 10; return max(-10, min(9, b)); }
// distance (1e-15 degree units, clipped) from lat to the nearest band edge and the band across it
static void edge_info(double lat, long long& dedge, int& nb) {
  int b = band_of(lat);
  double lo = 8.0 * (b + 10) - 80, hi = lo + 8;
  double dl = fabs(lat - lo), dh = fabs(hi - lat);
  bool uselo = dl <= dh;
  if (b == -10) uselo = false; if (b == 9) uselo = true;     // no band beyond C / X
  double d = uselo ? dl : dh;
  nb = uselo ? b - 1 : b + 1; if (nb < -10) nb = -10; if (nb > 9) nb = 9;
  long double q = (long double)d * 1e15L;
  dedge = !(q <= 1e9L) ? 1000000000LL : (long long) q;
}

// coordinate -> limbs of half-micrometres (base 1e9); grid=false when not near an integer
static vector<long long> halfum(double v, bool& grid) {
  long double X = (long double)v * 2.0e6L, r = nearbyintl(X);
  if (!(fabsl(X - r) < 0.05L) || !(r >= 0) || !(r < 9.0e18L)) { grid = false; return {0, 0}; }
  long long n = (long long) r; return {n / 1000000000LL, n % 1000000000LL};
}

static string from_codes(const vector<string>& t, size_t from) {
  string c; for (size_t i = from; i < t.size(); ++i) c.push_back(char(atoi(t[i].c_str()))); return c;
}

static void geom(Rec& r, int zone, bool northp, double x, double y) {
  // observed geometry of the point: latitude band from the real inverse projection
  double lat = 0, lon = 0; bool lok = false; long long dedge = 1000000000LL; int nb = 0, b = 0;
  if (zone > 0 && zone <= 60) {
    lok = guarded([&] { UTMUPS::Reverse(zone, northp, x, y, lat, lon); }) == "ok";
    if (lok) { b = band_of(lat); edge_info(lat, dedge, nb); }
  }
  r.b("lok", lok).i("band", b).i("nb", nb).i("dedge", dedge);
}

static void do_mf(const vector<string>& t) {
  int zone = atoi(t[1].c_str()); bool northp = atoi(t[2].c_str()) != 0;
  long long xk = atoll(t[3].c_str()), yk = atoll(t[5].c_str()); int xd = atoi(t[4].c_str()), yd = atoi(t[6].c_str());
  int prec = atoi(t[7].c_str());
  double x = vt::eps(xk, xd), y = vt::eps(yk, yd);
  string out = UNCH;
  string res = guarded([&] { MGRS::Forward(zone, northp, x, y, prec, out); });
  Rec r; r.str("e", "mf").i("z", zone).b("n", northp).li("x", {xk, xd}).li("y", {yk, yd}).i("p", prec).str("out", res)
    .li("code", res == "ok" ? vt::codes(out) : vector<long long>{}).b("untouched", out == UNCH);
  geom(r, zone, northp, x, y);
  r.emit();
}

// the six-argument call of Reverse (centerp left to its default): the same observation as the explicit call
static string obs_default(const string& code) {
  int zone = -99, prec = -77; bool n1 = true, n2 = false; double x = vt::sentinel(1), y = vt::sentinel(2);
  string res = guarded([&] { MGRS::Reverse(code, zone, n1, x, y, prec); });
  int z2 = -99, p2 = -77; double x2 = vt::sentinel(1), y2 = vt::sentinel(2);
  guarded([&] { MGRS::Reverse(code, z2, n2, x2, y2, p2); });
  bool untouched = zone == -99 && prec == -77 && n1 && !n2 && vt::is_sentinel(x, 1) && vt::is_sentinel(y, 2);
  bool grid = true; vector<long long> X{0, 0}, Y{0, 0};
  if (res == "ok") {
    if (std::isnan(x) && std::isnan(y)) res = "nan";
    else if (std::isnan(x) || std::isnan(y)) res = "other";
    else { X = halfum(x, grid); Y = halfum(y, grid); }
  }
  Rec d; d.str("out", res).i("zone", zone).b("northp", n1).i("p", prec).li("x", X).li("y", Y).b("grid", grid).b("untouched", untouched);
  return d.s + "}";
}

// MGRS::Decode: result kind, the four parts as byte codes, outputs untouched
static string obs_decode(const string& code) {
  const string G = "~g~", B = "~b~", E = "~e~", N = "~n~";
  string gz = G, blk = B, e = E, n = N;
  string res = guarded([&] { MGRS::Decode(code, gz, blk, e, n); });
  Rec d; d.str("out", res).li("gz", vt::codes(gz)).li("blk", vt::codes(blk)).li("e", vt::codes(e)).li("n", vt::codes(n))
    .b("untouched", gz == G && blk == B && e == E && n == N);
  return d.s + "}";
}

// "mfl z n x y latk p": the overload with a supplied latitude (latk micro-degrees, x y whole metres)
static void emit_mfl(int zone, bool northp, long long xk, long long yk, long long latk, int prec) {
  double lat = double(latk) / 1e6;
  string out = UNCH;
  string res = guarded([&] { MGRS::Forward(zone, northp, double(xk), double(yk), lat, prec, out); });
  Rec r; r.str("e", "mfl").i("z", zone).b("n", northp).li("x", {xk, 0}).li("y", {yk, 0}).i("la", latk).i("p", prec).str("out", res)
    .li("code", res == "ok" ? vt::codes(out) : vector<long long>{}).b("untouched", out == UNCH);
  r.emit();
}
static void do_mfl(const vector<string>& t) {
  emit_mfl(atoi(t[1].c_str()), atoi(t[2].c_str()) != 0, atoll(t[3].c_str()), atoll(t[4].c_str()), atoll(t[5].c_str()), atoi(t[6].c_str()));
}

// "mn z n which ov p": NaN easting (which & 1) / northing (which & 2) through the overload without (ov = 6) or with (7) a latitude
static void do_mn(const vector<string>& t) {
  int zone = atoi(t[1].c_str()); bool northp = atoi(t[2].c_str()) != 0; int w = atoi(t[3].c_str()), ov = atoi(t[4].c_str()), prec = atoi(t[5].c_str());
  double x = (w & 1) ? Math::NaN() : (zone == 0 ? 2e6 : 5e5), y = (w & 2) ? Math::NaN() : (zone == 0 ? 2e6 : 5e6);
  string c = UNCH;
  string res = ov == 7 ? guarded([&] { MGRS::Forward(zone, northp, x, y, northp ? 45.0 : -45.0, prec, c); })
                       : guarded([&] { MGRS::Forward(zone, northp, x, y, prec, c); });
  int z = 7, p = 7; bool nn = true; double x2 = 1, y2 = 2; string d = guarded([&] { MGRS::Reverse(c, z, nn, x2, y2, p, true); });
  Rec r; r.str("e", "mnan").i("z", zone).b("n", northp).i("w", w).i("ov", ov).i("p", prec).str("out", res).li("code", vt::codes(c))
    .str("dout", d).i("z2", z).i("p2", p).b("isnan", std::isnan(x2) && std::isnan(y2)); r.emit();
}

static void do_mr(const vector<string>& t) {
  bool centerp = atoi(t[1].c_str()) != 0; string code = from_codes(t, 2);
  int zone = -99, prec = -77; bool n1 = true, n2 = false; double x = vt::sentinel(1), y = vt::sentinel(2);
  string res = guarded([&] { MGRS::Reverse(code, zone, n1, x, y, prec, centerp); });
  int z2 = -99, p2 = -77; double x2 = vt::sentinel(1), y2 = vt::sentinel(2);
  guarded([&] { MGRS::Reverse(code, z2, n2, x2, y2, p2, centerp); });
  bool untouched = zone == -99 && prec == -77 && n1 && !n2 && vt::is_sentinel(x, 1) && vt::is_sentinel(y, 2);
  Rec r; r.str("e", "mr").li("code", vt::codes(code)).b("c", centerp);
  bool grid = true; vector<long long> X{0, 0}, Y{0, 0};
  long long zb = -99, dl = -1, latq = 0, lonq = 0;
  if (res == "ok") {
    if (std::isnan(x) && std::isnan(y)) res = "nan";
    else if (std::isnan(x) || std::isnan(y)) res = "other";
    else {
      X = halfum(x, grid); Y = halfum(y, grid);
      if (prec == -1) {   // grid zone only: where does the returned point lie?
        double lat = 0, lon = 0;
        if (guarded([&] { UTMUPS::Reverse(zone, n1, x, y, lat, lon); }) == "ok") {
          zb = band_of(lat); latq = vt::q1(lat, 1e-6L);
          if (zone > 0) dl = vt::q1(fabs(remainder(lon - (6.0 * zone - 183), 360.0)), 1e-6L);
          lonq = vt::q1(lon, 1e-6L);
        }
      }
    }
  }
  r.str("out", res).i("zone", zone).b("northp", n1).i("p", prec).li("x", X).li("y", Y).b("grid", grid)
    .b("untouched", untouched).i("zb", zb).i("dl", dl).i("latq", latq).i("lonq", lonq);
  r.raw("def", obs_default(code));
  r.raw("dec", obs_decode(code));
  r.emit();
}

static void header() {
  // corner latitudes (micro-degrees) of the 100 km grid from the real inverse UTM projection:
  // tbl[c][r] at easting 500 km + c*100 km, northing r*100 km, c = 0..4, r = 0..96 (zone 31 north)
  string tbl = "[";
  for (int c = 0; c <= 4; ++c) {
    if (c) tbl += ","; tbl += "[";
    for (int r = 0; r <= 96; ++r) {
      double lat = 0, lon = 0;
      UTMUPS::Reverse(31, true, 500000.0 + 100000.0 * c, 100000.0 * r, lat, lon);
      if (r) tbl += ","; tbl += to_string(vt::q1(lat, 1e-6L));
    }
    tbl += "]";
  }
  tbl += "]";
  Rec h; h.str("e", "hdr").raw("tbl", tbl); h.emit();
}

// ------------------------------------------------------------------ random records
static long long excess_nm(double p, double c, double cell) {   // (|p - c| - cell/2) in nm, clipped
  long double ex = (fabsl((long double)p - c) - (long double)cell / 2) * 1e9L;
  if (!(ex <= 1e9L)) return 1000000000LL; /* NaN counts as outside */ if (ex < -1e9L) return -1000000000LL; return (long long) ceill(ex);
}
static void do_record(uint64_t seed, long long n) {
  vt::Rng g(seed), g2(seed * 7919 + 17);      // g2: separate stream for the supplied-latitude records
  for (long long it = 0; it < n; ++it) {
    int zone; bool northp; double x, y;
    if (it % 3 == 0) {        // from a geographic point (MGRS limits)
      double lat = g.uni(-90, 90), lon = g.uni(-180, 180);
      int w = int(g.range(0, 9));
      if (w == 0) lat = 8.0 * double(g.range(-10, 9)) + (g.coin() ? 0 : g.uni(-1e-9, 1e-9));
      if (w == 1) lat = g.uni(-80.5, -79.5); if (w == 2) lat = g.uni(83.5, 84.5);
      if (w == 3) { lat = g.uni(56, 64); lon = g.uni(0, 12); } if (w == 4) { lat = g.uni(72, 84); lon = g.uni(0, 42); }
      if (w == 5) lat = g.uni(-1e-6, 1e-6);
      string f = guarded([&] { UTMUPS::Forward(lat, lon, zone, northp, x, y, UTMUPS::STANDARD, true); });
      if (f != "ok") continue;
    } else {                  // from a grid point
      zone = int(g.range(0, 60)); northp = g.coin();
      if (zone == 0) { double lo = northp ? 1300e3 : 800e3, hi = northp ? 2700e3 : 3200e3; x = g.uni(lo, hi); y = g.uni(lo, hi); }
      else {
        x = g.uni(100e3, 900e3);
        double lat = g.uni(northp ? 0 : -80, northp ? 84 : 0), lon = 6.0 * zone - 183 + g.uni(-3, 3); int z1; bool n1; double x1;
        if (guarded([&] { UTMUPS::Forward(lat, lon, z1, n1, x1, y, zone, true); }) != "ok") continue;
        northp = n1; x = x1 + (g.coin() ? 0 : g.uni(-50e3, 50e3)); if (x < 100e3 || x >= 900e3) x = x1;
      }
      int w = int(g.range(0, 7));
      if (w == 0) x = floor(x / 1e5) * 1e5; if (w == 1) y = floor(y / 1e5) * 1e5; if (w == 2) { x = floor(x); y = floor(y); }
    }
    int p = int(g.range(-1, 11));
    string code; string res = guarded([&] { MGRS::Forward(zone, northp, x, y, p, code); });
    Rec r; r.str("e", "mrt").i("z", zone).b("n", northp).i("p", p).str("out", res).li("code", vt::codes(code));
    geom(r, zone, northp, x, y);
    string low = "[";
    for (int q = -1; q < p; ++q) {
      string cq; guarded([&] { MGRS::Forward(zone, northp, x, y, q, cq); });
      if (low.size() > 1) low += ","; low += "[";
      for (size_t i = 0; i < cq.size(); ++i) { if (i) low += ","; low += to_string((unsigned char)cq[i]); }
      low += "]";
    }
    low += "]"; r.raw("lower", low);
    int z2 = -99, p2 = -77; bool n2 = !northp; double x2 = 0, y2 = 0;
    string dres = guarded([&] { MGRS::Reverse(code, z2, n2, x2, y2, p2, true); });
    r.str("dout", dres).i("z2", z2).b("n2", n2).i("p2", p2);
    string recode; string rres = "none";
    if (dres == "ok" && p >= 0) rres = guarded([&] { MGRS::Forward(z2, n2, x2, y2, p, recode); });
    r.str("rout", rres).li("recode", vt::codes(recode));
    double cell = p >= 0 ? 1e5 / pow(10.0, p) : 0;
    r.li("ex", p >= 0 && dres == "ok" ? vector<long long>{excess_nm(x, x2, cell), excess_nm(y, y2, cell)} : vector<long long>{0, 0});
    // SW corner
    int z3, p3; bool n3; double x3 = 0, y3 = 0;
    string sres = guarded([&] { MGRS::Reverse(code, z3, n3, x3, y3, p3, false); });
    r.li("exsw", p >= 0 && sres == "ok" ? vector<long long>{excess_nm(x, x3 + cell / 2, cell), excess_nm(y, y3 + cell / 2, cell)} : vector<long long>{0, 0});
    // the overload taking the latitude gives the same string when given the true latitude
    bool lateq = true;
    if (zone > 0) { double lat, lon; string c7;
      if (guarded([&] { UTMUPS::Reverse(zone, northp, x, y, lat, lon, true); }) == "ok") {
        string r7 = guarded([&] { MGRS::Forward(zone, northp, x, y, lat, p, c7); });
        long long de; int nb; edge_info(lat, de, nb);
        lateq = (r7 == res && c7 == code) || de <= 45;
      } }
    r.b("lateq", lateq);
    // case-insensitive decode
    string lc = code; for (auto& ch : lc) ch = char(tolower(ch));
    int z4 = -1, p4 = -1; bool n4 = false; double x4 = 1, y4 = 2;
    string r4 = guarded([&] { MGRS::Reverse(lc, z4, n4, x4, y4, p4, true); });
    r.b("caseeq", r4 == dres && z4 == z2 && n4 == n2 && p4 == p2 && vt::bits(x4) == vt::bits(x2) && vt::bits(y4) == vt::bits(y2));
    // the six-argument call (centerp defaulted): the centre of the square is documented as the default
    int z6 = -99, p6 = -77; bool n6 = !northp; double x6 = 0, y6 = 0;
    string r6 = guarded([&] { MGRS::Reverse(code, z6, n6, x6, y6, p6); });
    r.str("d6out", r6).i("z6", z6).b("n6", n6).i("p6", p6)
      .li("exd", p >= 0 && r6 == "ok" ? vector<long long>{excess_nm(x, x6, cell), excess_nm(y, y6, cell)} : vector<long long>{0, 0});
    r.emit();
    // the overload with a SUPPLIED latitude on a whole-metre point: consistent and inconsistent latitudes
    if (zone > 0 && res == "ok" && g2.range(0, 2) == 0) {
      long long xk = (long long) floor(x), yk = (long long) floor(y); double lat = 0, lon = 0;
      if (guarded([&] { UTMUPS::Reverse(zone, northp, double(xk), double(yk), lat, lon, true); }) == "ok") {
        long long k0 = llround(lat * 1e6), k = k0; int m = int(g2.range(0, 4));
        if (m == 0) { long long e = llround(lat / 8) * 8000000LL; k = k0 < e ? e + g2.range(0, 2000000) : e - g2.range(1, 2000000); }   // just across the nearest edge
        else if (m == 1) k = k0 + 8000000LL * (g2.coin() ? 1 : -1) * g2.range(1, 2);                                      // one or two bands away
        else if (m == 2) k = g2.range(-90000000, 90000000);
        else if (m == 3) k = 8000000LL * g2.range(-11, 11) + g2.range(-1, 1);                                                 // on / next to an edge
        if (k > 90000000) k = 90000000; if (k < -90000000) k = -90000000;
        emit_mfl(zone, northp, xk, yk, k, p);
      }
    }
  }
  // NaN / INVALID
  { string c; string res = guarded([&] { MGRS::Forward(31, true, Math::NaN(), 1e6, 5, c); });
    int z = 7, p = 7; bool nn = true; double x = 1, y = 2; string d = guarded([&] { MGRS::Reverse(c, z, nn, x, y, p, true); });
    Rec r; r.str("e", "mnan").str("out", res).li("code", vt::codes(c)).str("dout", d).i("z2", z).i("p2", p).b("isnan", std::isnan(x) && std::isnan(y)); r.emit(); }
  { string c; string res = guarded([&] { MGRS::Forward(UTMUPS::INVALID, true, 5e5, 1e6, 5, c); });
    int z = 7, p = 7; bool nn = true; double x = 1, y = 2; string d = guarded([&] { MGRS::Reverse(c, z, nn, x, y, p, true); });
    Rec r; r.str("e", "mnan").str("out", res).li("code", vt::codes(c)).str("dout", d).i("z2", z).i("p2", p).b("isnan", std::isnan(x) && std::isnan(y)); r.emit(); }
}

int main(int argc, char** argv) {
  vt::install_terminate();
  if (argc >= 2 && string(argv[1]) == "replay") {
    header();
    string line;
    while (getline(cin, line)) {
      auto t = vt::split(line); if (t.empty()) continue;
      if (t[0] == "mf") do_mf(t); else if (t[0] == "mr") do_mr(t); else if (t[0] == "mfl") do_mfl(t); else if (t[0] == "mn") do_mn(t);
    }
    return 0;
  }
  if (argc >= 4 && string(argv[1]) == "record") { header(); do_record(strtoull(argv[2], 0, 10), atoll(argv[3])); return 0; }
  fprintf(stderr, "usage: drv_mgrs replay < vectors | record seed n\n"); return 2;
}
