// Driver for C19: spherical harmonic sums, magnetic / gravity models read from synthetic files, normal gravity.
// The driver executes library calls and reduces each law to an integer residual in a declared unit
// (multiples of eps*scale, eps = 2^-52); tolerances, guards and decisions live in spec/Trace_Harmonic.tla.
#include "trace.hpp"
#include <GeographicLib/SphericalHarmonic.hpp>
#include <GeographicLib/SphericalHarmonic1.hpp>
#include <GeographicLib/SphericalHarmonic2.hpp>
#include <GeographicLib/CircularEngine.hpp>
#include <GeographicLib/MagneticModel.hpp>
#include <GeographicLib/MagneticCircle.hpp>
#include <GeographicLib/GravityModel.hpp>
#include <GeographicLib/GravityCircle.hpp>
#include <GeographicLib/NormalGravity.hpp>
#include <GeographicLib/Geocentric.hpp>
#include <GeographicLib/Constants.hpp>
#include <fstream>
#include <map>
#include <memory>
#include <functional>
#include <sys/stat.h>

using namespace GeographicLib;
using namespace std;
using vt::Rec;
typedef long double LD;

static string g_dir;
static const LD EPS = 2.220446049250313080847263336181640625e-16L;   // 2^-52
static const LD PI_L = 3.141592653589793238462643383279502884L;

template<class F> static string guarded(F f) {
  try { f(); return "ok"; }
  catch (const GeographicErr&) { return "throw"; }
  catch (const std::bad_alloc&) { return "badalloc"; }
  catch (const std::exception&) { return "other"; }
  catch (...) { return "other"; }
}

// residual in units of eps*scale, rounded up, clipped to 2e9; NaN -> 2000000001
static long long U(LD resid, LD scale) {
  if (std::isnan(resid) || std::isnan(scale)) return 2000000001LL;
  if (resid == 0) return 0;
  if (!(scale > 0)) return 2000000000LL;
  LD q = ceill(resid / (EPS * scale));
  if (!(q < 2.0e9L)) return 2000000000LL;
  return (long long) q;
}
static LD norm3(LD a, LD b, LD c) { return sqrtl(a * a + b * b + c * c); }

// -------------------------------------------------------------------------------------------------
// coefficient sets in the documented packed ("column major") layout
struct CS {
  int N = -1, M = -1;
  vector<double> C, S;
  static int csize(int N, int M) { return (M + 1) * (2 * N - M + 2) / 2; }
  void alloc(int n, int m) { N = n; M = m; C.assign(n < 0 ? 0 : csize(n, m), 0.0); S.assign(n < 0 ? 0 : csize(n, m) - (n + 1), 0.0); }
  int idx(int n, int m) const { return m * N - m * (m - 1) / 2 + n; }
  bool has(int n, int m) const { return n >= 0 && m >= 0 && m <= n && n <= N && m <= M; }
  double c(int n, int m) const { return has(n, m) ? C[idx(n, m)] : 0.0; }
  double s(int n, int m) const { return has(n, m) && m >= 1 ? S[idx(n, m) - (N + 1)] : 0.0; }
  void setc(int n, int m, double v) { if (has(n, m)) C[idx(n, m)] = v; }
  void sets(int n, int m, double v) { if (has(n, m) && m >= 1) S[idx(n, m) - (N + 1)] = v; }
};

// -------------------------------------------------------------------------------------------------
// The defining double sum, evaluated directly (long double) from the documentation of SphericalHarmonic:
//   V = sum_n q^(n+1) sum_m (C cos m lam + S sin m lam) P_nm(cos theta),
//   P_nm = sqrt(k (2n+1)? (n-m)!/(n+m)!) u^m d^m P_n(t)/dt^m   (Ferrers function without the Condon-Shortley sign).
// u^m cos/sin(m lam) = Re/Im((x+iy)/r)^m so that value and cartesian gradient are regular on the polar axis.
struct Term { LD C, S, mag; };
struct DefOut { LD V, g[3], S0, S1, S2, S3; };

template<class F> static DefOut defsum(bool full, int nmx, int mmx, LD a, LD x, LD y, LD z, F coef) {
  DefOut o; o.V = 0; o.g[0] = o.g[1] = o.g[2] = 0; o.S0 = o.S1 = o.S2 = o.S3 = 0;
  if (nmx < 0 || mmx < 0) return o;
  LD r = norm3(x, y, z), s[3] = {x / r, y / r, z / r}, t = s[2], q = a / r;
  vector<LD> A(mmx + 2), B(mmx + 2);
  A[0] = 1; B[0] = 0;
  for (int m = 1; m <= mmx + 1; ++m) { A[m] = A[m - 1] * s[0] - B[m - 1] * s[1]; B[m] = A[m - 1] * s[1] + B[m - 1] * s[0]; }
  // derivative tables R[m][n] = d^m P_n / dt^m for m = 0..mmx+1
  vector<vector<LD>> R(mmx + 2, vector<LD>(nmx + 2, 0.0L));
  LD df = 1;                                   // (2m-1)!!
  for (int m = 0; m <= mmx + 1; ++m) {
    if (m > 0) df *= (2 * m - 1);
    if (m <= nmx) R[m][m] = df;
    if (m + 1 <= nmx) R[m][m + 1] = (2 * m + 1) * t * df;
    for (int n = m + 1; n + 1 <= nmx; ++n) R[m][n + 1] = ((2 * n + 1) * t * R[m][n] - (n + m) * R[m][n - 1]) / (n - m + 1);
  }
  vector<LD> qn(nmx + 1); qn[0] = q; for (int n = 1; n <= nmx; ++n) qn[n] = qn[n - 1] * q;
  const LD E1 = 2.718281828459045235360287L, SQ2 = sqrtl(2.0L); LD cmax = 0;
  for (int m = 0; m <= mmx; ++m)
    for (int n = m; n <= nmx; ++n) {
      Term c = coef(n, m);
      LD ratio = 1; for (int j = n - m + 1; j <= n + m; ++j) ratio *= j;
      LD nf = sqrtl((m ? 2.0L : 1.0L) * (full ? 2 * n + 1 : 1) / ratio);
      LD G = R[m][n], G1 = R[m + 1][n];
      LD H = c.C * A[m] + c.S * B[m];
      LD pre = nf * qn[n];
      o.V += pre * G * H;
      for (int i = 0; i < 3; ++i) {
        LD dH = 0;
        if (m > 0) {
          LD re = -A[m] * s[i], im = -B[m] * s[i];
          if (i == 0) { re += A[m - 1]; im += B[m - 1]; }
          if (i == 1) { re += -B[m - 1]; im += A[m - 1]; }
          dH = m * (c.C * re + c.S * im);
        }
        o.g[i] += pre / r * (-(n + 1) * s[i] * G * H + G1 * ((i == 2 ? 1 : 0) - t * s[i]) * H + G * dH);
      }
      LD sup = c.mag * qn[n] * (full ? sqrtl(2 * n + 1.0L) : 1.0L);
      o.S0 += sup; o.S1 += sup * SQ2 * (n + 1) / r;
      LD k3 = 9.0L * (n + 2) / r; o.S3 += E1 * sup * k3 * k3 * k3;
      LD k2 = 6.0L * (n + 2) / r; o.S2 += E1 * sup * k2 * k2;
      cmax = fmaxl(cmax, c.mag);
    }
  // named rule UnderflowFloor: the classes scale their intermediate sums ("internal scaling ... to avoid overflow"), so a sum
  // whose every term is below ~2^-440 of the largest coefficient is flushed to zero; the magnitude bounds carry this floor
  { LD F0 = ldexpl(cmax * q, -388), k1 = SQ2 * (nmx + 1) / r, k2 = 6.0L * (nmx + 2) / r, k3 = 9.0L * (nmx + 2) / r;
    o.S0 += F0; o.S1 += F0 * k1; o.S2 += F0 * k2 * k2; o.S3 += F0 * k3 * k3 * k3; }
  return o;
}

// -------------------------------------------------------------------------------------------------
// a harmonic object with 1..3 coefficient sets
struct Harm {
  int L = 1; bool full = true; double a = 1;
  CS cs[3]; int nmx[3] = {-1, -1, -1}, mmx[3] = {-1, -1, -1}; double tau[3] = {1, 0, 0};
  bool fullctor = false;
  unique_ptr<SphericalHarmonic> h0; unique_ptr<SphericalHarmonic1> h1; unique_ptr<SphericalHarmonic2> h2;
  void build() {
    unsigned nm = full ? SphericalHarmonic::FULL : SphericalHarmonic::SCHMIDT;
    if (L == 1) h0.reset(fullctor ? new SphericalHarmonic(cs[0].C, cs[0].S, cs[0].N, a, nm)
                                  : new SphericalHarmonic(cs[0].C, cs[0].S, cs[0].N, nmx[0], mmx[0], a, nm));
    else if (L == 2) h1.reset(new SphericalHarmonic1(cs[0].C, cs[0].S, cs[0].N, nmx[0], mmx[0], cs[1].C, cs[1].S, cs[1].N, nmx[1], mmx[1], a, nm));
    else h2.reset(new SphericalHarmonic2(cs[0].C, cs[0].S, cs[0].N, nmx[0], mmx[0], cs[1].C, cs[1].S, cs[1].N, nmx[1], mmx[1],
                                         cs[2].C, cs[2].S, cs[2].N, nmx[2], mmx[2], a, nm));
  }
  double val(double x, double y, double z) const {
    return L == 1 ? (*h0)(x, y, z) : L == 2 ? (*h1)(tau[1], x, y, z) : (*h2)(tau[1], tau[2], x, y, z);
  }
  double grad(double x, double y, double z, double& gx, double& gy, double& gz) const {
    return L == 1 ? (*h0)(x, y, z, gx, gy, gz) : L == 2 ? (*h1)(tau[1], x, y, z, gx, gy, gz) : (*h2)(tau[1], tau[2], x, y, z, gx, gy, gz);
  }
  CircularEngine circle(double p, double z, bool gradp) const {
    return L == 1 ? h0->Circle(p, z, gradp) : L == 2 ? h1->Circle(tau[1], p, z, gradp) : h2->Circle(tau[1], tau[2], p, z, gradp);
  }
  Term coef(int n, int m) const {
    Term t; t.C = 0; t.S = 0; LD ac = 0, as = 0;
    for (int l = 0; l < L; ++l) {
      if (n > nmx[l] || m > mmx[l]) continue;
      LD f = l == 0 ? 1.0L : (LD) tau[l];
      t.C += f * cs[l].c(n, m); t.S += f * cs[l].s(n, m);
      ac += fabsl(f * cs[l].c(n, m)); as += fabsl(f * cs[l].s(n, m));
    }
    t.mag = hypotl(ac, as);
    return t;
  }
  DefOut def(LD x, LD y, LD z) const { return defsum(full, nmx[0], mmx[0], (LD) a, x, y, z, [&](int n, int m) { return coef(n, m); }); }
};

static void fill_random(vt::Rng& g, CS& cs, int style) {
  // style 0: dense, no decay; 1: dense with (n+1)^-2 decay; 2: sparse; 3: a single unit coefficient
  for (size_t i = 0; i < cs.C.size(); ++i) cs.C[i] = 0;
  for (size_t i = 0; i < cs.S.size(); ++i) cs.S[i] = 0;
  if (cs.N < 0) return;
  if (style == 3) {
    int m = (int) g.range(0, cs.M), n = (int) g.range(m, cs.N);
    if (m > 0 && g.coin()) cs.sets(n, m, 1.0); else cs.setc(n, m, 1.0);
    return;
  }
  for (int m = 0; m <= cs.M; ++m) for (int n = m; n <= cs.N; ++n) {
    if (style == 2 && g.range(0, 7) != 0) continue;
    double sc = style == 1 ? 1.0 / ((n + 1.0) * (n + 1.0)) : 1.0;
    cs.setc(n, m, g.uni(-1, 1) * sc);
    if (m) cs.sets(n, m, g.uni(-1, 1) * sc);
  }
}

// random evaluation point for normalising radius a; cls: 0 generic, 1 polar axis, 2 near the axis, 3 equatorial plane,
// 4 on a coordinate axis, 5 generic inside (r < a)
static void random_point(vt::Rng& g, double a, int cls, double& x, double& y, double& z) {
  double r = a * pow(10.0, cls == 5 ? g.uni(-0.25, 0.0) : g.uni(0.0, 1.0));
  if (g.range(0, 9) == 0) r = a;
  double lat = asin(g.uni(-1, 1)), lon = g.uni(-PI_L, PI_L);
  x = r * cos(lat) * cos(lon); y = r * cos(lat) * sin(lon); z = r * sin(lat);
  if (cls == 1) { x = y = 0; z = g.coin() ? r : -r; }
  if (cls == 2) { double p = r * pow(10.0, -g.uni(3, 22)); x = p * cos(lon); y = p * sin(lon); z = g.coin() ? r : -r; }
  if (cls == 3) { z = g.coin() ? 0.0 : -0.0; x = r * cos(lon); y = r * sin(lon); }
  if (cls == 4) { bool k = g.coin(); double sg = g.coin() ? r : -r; x = k ? sg : 0.0; y = k ? 0.0 : sg; z = 0; }
}

// -------------------------------------------------------------------------------------------------
// law record "sh": a random harmonic object at a random point
static void make_random_harm(vt::Rng& g, Harm& H, int maxdeg) {
  H.L = (int) g.range(1, 3); H.full = g.coin();
  H.a = g.coin() ? 1.0 : (g.coin() ? 6378137.0 : pow(2.0, (double) g.range(-3, 8)));
  int N = (int) g.range(0, maxdeg); if (g.range(0, 5) == 0) N = (int) g.range(0, 4);
  H.fullctor = H.L == 1 && g.range(0, 3) == 0;
  for (int l = 0; l < H.L; ++l) {
    int Nl = l == 0 ? N : (int) g.range(-1, H.cs[0].N);
    int nx = H.fullctor ? Nl : (int) g.range(Nl < 0 ? -1 : 0, Nl);
    if (l == 0 && g.coin()) nx = Nl;
    if (l > 0) nx = min(nx, H.nmx[0]);
    int mx = H.fullctor ? Nl : (nx < 0 ? -1 : (int) g.range(0, nx));
    if (l == 0 && g.coin()) mx = nx;
    if (l > 0) mx = min(mx, H.mmx[0]);
    if (mx < 0 || nx < 0) { nx = mx = -1; }
    // storage: full triangle, or only the columns that are needed
    H.cs[l].alloc(Nl, (Nl >= 0 && g.coin()) ? max(mx, 0) : Nl);
    if (H.fullctor) H.cs[l].alloc(Nl, Nl);
    fill_random(g, H.cs[l], (int) g.range(0, 3));
    H.nmx[l] = nx; H.mmx[l] = mx;
    H.tau[l] = l == 0 ? 1.0 : (g.range(0, 4) == 0 ? (double) g.range(-2, 2) : g.uni(-2, 2));
  }
  H.build();
}

static void rec_sh(vt::Rng& g, int maxdeg) {
  Harm H; make_random_harm(g, H, maxdeg);
  int cls = (int) g.range(0, 9); if (cls > 5) cls = 0;
  double x, y, z; random_point(g, H.a, cls, x, y, z);
  DefOut d = H.def(x, y, z);
  double gx = vt::sentinel(1), gy = vt::sentinel(2), gz = vt::sentinel(3);
  double v0 = H.val(x, y, z), v1 = H.grad(x, y, z, gx, gy, gz);
  Rec r; r.str("e", "sh").i("L", H.L).b("full", H.full).i("n", H.nmx[0]).i("m", H.mmx[0]).i("cls", cls).b("fc", H.fullctor);
  r.i("dv", U(fabsl((LD) v1 - d.V), d.S0)).i("dvv", U(fabsl((LD) v0 - (LD) v1), d.S0));
  r.i("dg", U(norm3((LD) gx - d.g[0], (LD) gy - d.g[1], (LD) gz - d.g[2]), d.S1));
  // circle of latitude through the point, same cos/sin of longitude as used by the direct evaluation
  double p = hypot(x, y), cl = p != 0 ? x / p : 1, sl = p != 0 ? y / p : 0;
  CircularEngine cg = H.circle(p, z, true), cn = H.circle(p, z, false);
  double cx = 0, cy = 0, cz = 0, cv = cg(sl, cl, cx, cy, cz), cv0 = cg(sl, cl);
  double ux = vt::sentinel(4), uy = vt::sentinel(5), uz = vt::sentinel(6), cnv = cn(sl, cl, ux, uy, uz);
  r.i("cv", U(fabsl((LD) cv - (LD) v1), d.S0)).i("cv0", U(fabsl((LD) cv0 - (LD) v1), d.S0)).i("cnv", U(fabsl((LD) cnv - (LD) v1), d.S0));
  r.i("cg", U(norm3((LD) cx - gx, (LD) cy - gy, (LD) cz - gz), d.S1));
  r.b("cunt", vt::is_sentinel(ux, 4) && vt::is_sentinel(uy, 5) && vt::is_sentinel(uz, 6));
  // another longitude on the same circle, given in degrees; the direct point is rounded, hence the wider scale
  double lon2 = g.range(0, 3) == 0 ? 45.0 * (double) g.range(-8, 8) : g.uni(-360, 360), s2, c2;
  Math::sincosd(lon2, s2, c2);
  double x2 = p * c2, y2 = p * s2, dx = 0, dy = 0, dz = 0, ex = 0, ey = 0, ez = 0;
  double dv2 = H.grad(x2, y2, z, dx, dy, dz), cv2 = cg(lon2, ex, ey, ez), cv3 = cn(lon2);
  LD rr = norm3(x, y, z);
  r.i("cv2", U(fabsl((LD) cv2 - dv2), d.S0 + rr * d.S1)).i("cv3", U(fabsl((LD) cv3 - dv2), d.S0 + rr * d.S1));
  r.i("cg2", U(norm3((LD) ex - dx, (LD) ey - dy, (LD) ez - dz), d.S1 + rr * d.S2));
  // central differences of the returned value against the returned gradient
  LD h = d.S3 > 0 && d.S0 > 0 ? cbrtl(64 * EPS * d.S0 / d.S3) : rr * 0x1p-12L;
  int ex2; frexpl(h, &ex2); double hh = (double) ldexpl(1.0L, ex2 - 1);
  double P[3] = {x, y, z}, fd[3]; LD hmax = 0, hmin = 1e300L;
  for (int i = 0; i < 3; ++i) {
    double Pp[3] = {x, y, z}, Pm[3] = {x, y, z};
    volatile double xp = P[i] + hh, xm = P[i] - hh; Pp[i] = xp; Pm[i] = xm;
    LD he = (LD) xp - (LD) xm;
    fd[i] = (double) (((LD) H.val(Pp[0], Pp[1], Pp[2]) - (LD) H.val(Pm[0], Pm[1], Pm[2])) / he);
    hmax = max(hmax, he / 2); hmin = min(hmin, he / 2);
  }
  r.i("fdr", U(norm3((LD) fd[0] - gx, (LD) fd[1] - gy, (LD) fd[2] - gz), d.S1));
  r.i("fdT", U(hmax * hmax * d.S3 / 6, d.S1));
  { LD q = d.S1 > 0 ? ceill(d.S0 / hmin / d.S1) : 0; r.i("fdR", q < 2e9L ? (long long) q : 2000000000LL); }
  r.str("kf", "none");
  r.emit();
}

// -------------------------------------------------------------------------------------------------
// synthetic model files (formats: doc sections magneticformat / gravityformat)
static void put_i32(ofstream& f, int v) { unsigned char b[4]; for (int i = 0; i < 4; ++i) b[i] = (unsigned char) (((unsigned) v) >> (8 * i)); f.write((char*) b, 4); }
static void put_f64(ofstream& f, double v) { uint64_t u = vt::bits(v); unsigned char b[8]; for (int i = 0; i < 8; ++i) b[i] = (unsigned char) (u >> (8 * i)); f.write((char*) b, 8); }
static void put_set(ofstream& f, const CS& cs) {
  put_i32(f, cs.N); put_i32(f, cs.M);
  for (double v : cs.C) put_f64(f, v);
  for (double v : cs.S) put_f64(f, v);
}
static string num(double v) { char b[64]; snprintf(b, 64, "%.17g", v); return b; }

struct MagFile {
  string name, id = "SYNTHMAG"; bool full = false; double a = 6371200.0, t0 = 2000, dt0 = 5, tmin = 1990, tmax = 2030, hmin = -1000, hmax = 600000;
  int nm = 1, nc = 0; vector<CS> sets;     // nm + 1 + nc sets
  void write() const {
    ofstream m((g_dir + "/" + name + ".wmm").c_str());
    m << "WMMF-2\n# synthetic magnetic model written by drv_harm\nName " << name << "\nDescription synthetic\nReleaseDate 2026-01-01\n"
      << "Radius " << num(a) << "\nNumModels " << nm << "\nNumConstants " << nc << "\nEpoch " << num(t0) << "\nDeltaEpoch " << num(dt0)
      << "\nMinTime " << num(tmin) << "\nMaxTime " << num(tmax) << "\nMinHeight " << num(hmin) << "\nMaxHeight " << num(hmax)
      << "\nNormalization " << (full ? "full" : "schmidt") << "\nType linear\nByteOrder little\nID " << id << "\n";
    m.close();
    ofstream c((g_dir + "/" + name + ".wmm.cof").c_str(), ios::binary);
    c.write(id.data(), 8);
    for (const CS& s : sets) put_set(c, s);
  }
};

struct GravFile {
  string name, id = "SYNTHGRV"; bool full = true; bool usej2 = false;
  double amodel = 6378136.3, gmmodel = 3986004.415e8, omega = 7292115e-11, aref = 6378137, gmref = 3986004.418e8, f = 1 / 298.257223563, j2 = 0,
         zeta0 = 0, corrmult = 1;
  CS grav, corr;
  void write() const {
    ofstream m((g_dir + "/" + name + ".egm").c_str());
    m << "EGMF-1\n# synthetic gravity model written by drv_harm\nName " << name << "\nDescription synthetic\nReleaseDate 2026-01-01\n"
      << "ModelRadius " << num(amodel) << "\nModelMass " << num(gmmodel) << "\nAngularVelocity " << num(omega)
      << "\nReferenceRadius " << num(aref) << "\nReferenceMass " << num(gmref) << "\n";
    if (usej2) m << "DynamicalFormFactor " << num(j2) << "\n"; else m << "Flattening " << num(f) << "\n";
    m << "HeightOffset " << num(zeta0) << "\nCorrectionMultiplier " << num(corrmult) << "\nNormalization " << (full ? "full" : "schmidt")
      << "\nByteOrder little\nID " << id << "\n";
    m.close();
    ofstream c((g_dir + "/" + name + ".egm.cof").c_str(), ios::binary);
    c.write(id.data(), 8);
    put_set(c, grav); put_set(c, corr);
  }
};

// textbook geodetic -> geocentric and the east/north/up frame, in long double (degrees in)
static void sincosdl(LD deg, LD& s, LD& c) {
  LD rr = remainderl(deg, 90.0L); int qd = (int) (((long long) llroundl((deg - rr) / 90.0L) % 4 + 4) % 4);
  LD sr = sinl(rr * PI_L / 180), cr = cosl(rr * PI_L / 180);
  switch (qd) { case 0: s = sr; c = cr; break; case 1: s = cr; c = -sr; break; case 2: s = -sr; c = -cr; break; default: s = -cr; c = sr; }
}
struct Frame { LD X, Y, Z, e[3], n[3], u[3]; };
static Frame frame(LD a, LD f, LD lat, LD lon, LD h) {
  Frame F; LD sp, cp, sl, cl; sincosdl(lat, sp, cp); sincosdl(lon, sl, cl);
  LD e2 = f * (2 - f), nu = a / sqrtl(1 - e2 * sp * sp);
  F.X = (nu + h) * cp * cl; F.Y = (nu + h) * cp * sl; F.Z = ((1 - e2) * nu + h) * sp;
  F.e[0] = -sl; F.e[1] = cl; F.e[2] = 0;
  F.n[0] = -sp * cl; F.n[1] = -sp * sl; F.n[2] = cp;
  F.u[0] = cp * cl; F.u[1] = cp * sl; F.u[2] = sp;
  return F;
}
static void to_enu(const Frame& F, const LD v[3], LD o[3]) {
  o[0] = F.e[0] * v[0] + F.e[1] * v[1] + F.e[2] * v[2];
  o[1] = F.n[0] * v[0] + F.n[1] * v[1] + F.n[2] * v[2];
  o[2] = F.u[0] * v[0] + F.u[1] * v[1] + F.u[2] * v[2];
}

// -------------------------------------------------------------------------------------------------
// law record "magr": random synthetic magnetic model, random time and place
static int g_serial = 0;
static void eff_limits(int Nmax, int Mmax, int& nl, int& ml) {       // constructor documentation of Nmax / Mmax
  nl = ml = 1 << 30;
  if (Nmax >= 0 || Mmax >= 0) { if (Nmax >= 0 && Mmax < 0) Mmax = Nmax; if (Nmax >= 0) nl = Nmax; if (Mmax >= 0) ml = Mmax; }
}
struct MagCoef {               // coefficient combination at a given time, per documentation of the file format
  const MagFile* F; int seg; bool interp; LD w, tau; int nl, ml; bool rate;
  Term operator()(int n, int m) const {
    auto get = [&](int i, bool sine) -> LD { const CS& c = F->sets[i]; if (n > min(c.N, nl) || m > min(c.M, ml)) return 0.0L; return sine ? c.s(n, m) : c.c(n, m); };
    Term t; LD v[2], a[2];
    for (int k = 0; k < 2; ++k) {
      LD g0 = get(seg, k), g1 = get(seg + 1, k), gc = F->nc ? get(F->nm + 1, k) : 0.0L;
      if (rate) { v[k] = interp ? (g1 - g0) / F->dt0 : g1; a[k] = interp ? (fabsl(g1) + fabsl(g0)) / F->dt0 : fabsl(g1); }
      else if (interp) { v[k] = g0 + w * (g1 - g0) + gc; a[k] = fabsl(g0) * (1 + fabsl(w)) + fabsl(w * g1) + fabsl(gc); }
      else { v[k] = g0 + tau * g1 + gc; a[k] = fabsl(g0) + fabsl(tau * g1) + fabsl(gc); }
    }
    t.C = v[0]; t.S = v[1]; t.mag = hypotl(a[0], a[1]); return t;
  }
};
static void mag_oracle(const MagFile& F, int Nmax, int Mmax, LD t, int seg, LD X, LD Y, LD Z, DefOut& B, DefOut& Bt) {
  MagCoef mc; mc.F = &F; eff_limits(Nmax, Mmax, mc.nl, mc.ml);
  mc.seg = seg; mc.interp = seg + 1 < F.nm; mc.tau = t - (LD) F.t0 - seg * (LD) F.dt0; mc.w = mc.tau / F.dt0;
  int nx = -1, mx = -1; for (const CS& c : F.sets) { nx = max(nx, min(c.N, mc.nl)); mx = max(mx, min(c.M, mc.ml)); }
  mc.rate = false; B = defsum(F.full, nx, mx, (LD) F.a, X, Y, Z, mc);
  mc.rate = true; Bt = defsum(F.full, nx, mx, (LD) F.a, X, Y, Z, mc);
  for (int i = 0; i < 3; ++i) { B.g[i] *= -(LD) F.a; Bt.g[i] *= -(LD) F.a; }
  for (DefOut* d : {&B, &Bt}) { d->S1 *= F.a; d->S2 *= F.a; }
}

static void rec_mag(vt::Rng& g, int maxdeg, int npts) {
  MagFile F; F.name = "m" + to_string(++g_serial % 8);
  F.nm = (int) g.range(1, 4); F.nc = (int) g.range(0, 1); F.full = g.range(0, 3) == 0;
  F.a = g.coin() ? 6371200.0 : g.uni(1e6, 1e7);
  F.t0 = g.coin() ? 2000.0 + 5 * (double) g.range(-20, 5) : g.uni(1900, 2025); F.dt0 = g.coin() ? 5.0 : g.coin() ? 1.0 : g.uni(0.5, 6);
  F.tmin = F.t0 - 1; F.tmax = F.t0 + F.nm * F.dt0 + g.uni(0, 5); F.hmin = -g.uni(0, 2000); F.hmax = g.uni(1e5, 1e6);
  for (int i = 0; i < F.nm + 1 + F.nc; ++i) {
    CS c; int N = (int) g.range(1, i == F.nm + 1 ? maxdeg : max(1, maxdeg / 2)); int M = g.range(0, 2) ? N : (int) g.range(0, N);
    if (g.range(0, 11) == 0) N = M = -1;
    c.alloc(N, M); fill_random(g, c, (int) g.range(0, 2));
    if (N >= 0) { c.setc(0, 0, 0.0); for (auto& v : c.C) v *= (i == F.nm ? 50.0 : 30000.0); for (auto& v : c.S) v *= (i == F.nm ? 50.0 : 30000.0); }
    F.sets.push_back(c);
  }
  F.write();
  int Nmax = -1, Mmax = -1;
  if (g.range(0, 2) == 0) { Nmax = (int) g.range(0, maxdeg); Mmax = g.coin() ? -1 : (int) g.range(0, Nmax); if (g.range(0, 5) == 0) { Mmax = (int) g.range(0, maxdeg); Nmax = -1; } }
  double ae = Constants::WGS84_a(), fe = Constants::WGS84_f();
  int ek = (int) g.range(0, 3); if (ek == 1) { ae = F.a; fe = 0; } if (ek == 2) { ae = g.uni(6e6, 7e6); fe = g.uni(-0.01, 0.01); }
  Geocentric earth(ae, fe);
  unique_ptr<MagneticModel> mm; string res = guarded([&] { mm.reset(new MagneticModel(F.name, g_dir, earth, Nmax, Mmax)); });
  vector<long long> Ns, Ms; for (const CS& c : F.sets) { Ns.push_back(c.N); Ms.push_back(c.M); }
  if (res != "ok") { Rec r; r.str("e", "magr").str("out", res).li("Ns", Ns).li("Ms", Ms).i("Nmax", Nmax).i("Mmax", Mmax).str("kf", "none"); r.emit(); return; }
  bool meta = mm->Description() == "synthetic" && mm->DateTime() == "2026-01-01" && mm->MagneticModelName() == F.name && mm->MinTime() == F.tmin
    && mm->MaxTime() == F.tmax && mm->MinHeight() == F.hmin && mm->MaxHeight() == F.hmax && mm->EquatorialRadius() == ae && mm->Flattening() == fe
    && mm->MagneticModelDirectory() == g_dir && mm->MagneticFile() == g_dir + "/" + F.name + ".wmm";
  for (int ip = 0; ip < npts; ++ip) {
    double t = F.t0 + g.uni(-1.0, F.nm + 0.5) * F.dt0; if (g.range(0, 5) == 0) t = F.t0 + (double) g.range(0, F.nm) * F.dt0;
    double lat = g.range(0, 7) == 0 ? (g.coin() ? 90.0 : -90.0) : asin(g.uni(-1, 1)) * 180 / (double) PI_L, lon = g.uni(-360, 360), h = g.uni(-5e3, 8e5);
    if (g.range(0, 9) == 0) lat = g.coin() ? 90 - pow(10.0, -g.uni(3, 14)) : 0.0;
    LD ws = ((LD) t - (LD) F.t0) / (LD) F.dt0; int seg = max(min((int) floorl(ws), F.nm - 1), 0);
    int rw = (int) roundl(ws); bool knot = fabsl(ws - roundl(ws)) < 1e-9L && rw >= 1 && rw <= F.nm - 1; int seg2 = seg == rw ? rw - 1 : rw;
    Rec r; r.str("e", "magr").str("out", "ok").i("nm", F.nm).i("nc", F.nc).b("full", F.full).li("Ns", Ns).li("Ms", Ms).i("Nmax", Nmax).i("Mmax", Mmax)
      .i("deg", mm->Degree()).i("ord", mm->Order()).b("meta", meta).b("knot", knot).i("seg", seg).b("pole", fabs(lat) == 90);
    // geocentric: library point, oracle at the same doubles
    double X, Y, Z; earth.Forward(lat, lon, h, X, Y, Z);
    double BX, BY, BZ, BXt, BYt, BZt; mm->FieldGeocentric(t, X, Y, Z, BX, BY, BZ, BXt, BYt, BZt);
    DefOut B, Bt; mag_oracle(F, Nmax, Mmax, t, seg, X, Y, Z, B, Bt);
    long long dbg = U(norm3(BX - B.g[0], BY - B.g[1], BZ - B.g[2]), B.S1);
    long long dbgt = U(norm3(BXt - Bt.g[0], BYt - Bt.g[1], BZt - Bt.g[2]), Bt.S1);
    LD s1k = 0, s2k = 0;                                   // at a knot: magnitude bounds of the neighbouring segment's formula
    if (knot) { DefOut B2, Bt2; mag_oracle(F, Nmax, Mmax, t, seg2, X, Y, Z, B2, Bt2); dbgt = min(dbgt, U(norm3(BXt - Bt2.g[0], BYt - Bt2.g[1], BZt - Bt2.g[2]), Bt2.S1));
      dbg = min(dbg, U(norm3(BX - B2.g[0], BY - B2.g[1], BZ - B2.g[2]), B2.S1)); }
    r.i("dbg", dbg).i("dbgt", dbgt);
    // geodetic: oracle from the textbook forward map and frame
    Frame Fr = frame(ae, fe, lat, lon, h); LD rr = norm3(Fr.X, Fr.Y, Fr.Z);
    mag_oracle(F, Nmax, Mmax, t, seg, Fr.X, Fr.Y, Fr.Z, B, Bt);
    LD be[3], bte[3]; to_enu(Fr, B.g, be); to_enu(Fr, Bt.g, bte);
    double Bx, By, Bz, Bxt, Byt, Bzt; (*mm)(t, lat, lon, h, Bx, By, Bz, Bxt, Byt, Bzt);
    double Cx, Cy, Cz; (*mm)(t, lat, lon, h, Cx, Cy, Cz);
    LD sb = B.S1 + rr * B.S2, sbt = Bt.S1 + rr * Bt.S2;
    long long dbet = U(norm3(Bxt - bte[0], Byt - bte[1], Bzt - bte[2]), sbt);
    if (knot) { DefOut B2, Bt2; mag_oracle(F, Nmax, Mmax, t, seg2, Fr.X, Fr.Y, Fr.Z, B2, Bt2); LD b2[3]; to_enu(Fr, Bt2.g, b2);
      dbet = min(dbet, U(norm3(Bxt - b2[0], Byt - b2[1], Bzt - b2[2]), Bt2.S1 + rr * Bt2.S2)); s1k = B2.S1; s2k = B2.S2; }
    sb = fmaxl(sb, s1k + rr * s2k);
    r.i("dbe", U(norm3(Bx - be[0], By - be[1], Bz - be[2]), sb)).i("dbet", dbet).b("b3eq", vt::bits(Cx) == vt::bits(Bx) && vt::bits(Cy) == vt::bits(By) && vt::bits(Cz) == vt::bits(Bz));
    // circle of latitude
    MagneticCircle mc = mm->Circle(t, lat, h);
    double Dx, Dy, Dz, Dxt, Dyt, Dzt; mc(lon, Dx, Dy, Dz, Dxt, Dyt, Dzt);
    double Ex, Ey, Ez; mc(lon, Ex, Ey, Ez);
    double GX, GY, GZ, GXt, GYt, GZt; mc.FieldGeocentric(lon, GX, GY, GZ, GXt, GYt, GZt);
    r.i("dc", U(norm3((LD) Dx - Bx, (LD) Dy - By, (LD) Dz - Bz), sb)).i("dct", U(norm3((LD) Dxt - Bxt, (LD) Dyt - Byt, (LD) Dzt - Bzt), sbt));
    r.i("dcg", U(norm3((LD) GX - B.g[0], (LD) GY - B.g[1], (LD) GZ - B.g[2]), sb)).i("dcgt", U(norm3((LD) GXt - Bt.g[0], (LD) GYt - Bt.g[1], (LD) GZt - Bt.g[2]), sbt));
    r.b("c3eq", vt::bits(Ex) == vt::bits(Dx) && vt::bits(Ey) == vt::bits(Dy) && vt::bits(Ez) == vt::bits(Dz));
    r.b("cinsp", mc.Init() && mc.Flattening() == fe && mc.Latitude() == lat && mc.Height() == h && mc.Time() == t);
    if (ip == 0) {   // separate record: the circle's ellipsoid radius is documented as inherited from the model object
      Rec q; q.str("e", "mcinsp").b("aeq", mc.EquatorialRadius() == mm->EquatorialRadius()).str("kf", ae != F.a ? "magcircle-radius" : "none"); q.emit();
    }
    // derived components from the returned field
    double Hh, Ff, Dd, Ii, Ht, Ft, Dt, It; MagneticModel::FieldComponents(Bx, By, Bz, Bxt, Byt, Bzt, Hh, Ff, Dd, Ii, Ht, Ft, Dt, It);
    double H4, F4, D4, I4; MagneticModel::FieldComponents(Bx, By, Bz, H4, F4, D4, I4);
    LD bx = Bx, by = By, bz = Bz, bxt = Bxt, byt = Byt, bzt = Bzt, hr = hypotl(bx, by), fr = hypotl(hr, bz), deg = 180 / PI_L;
    LD htr = (bx * bxt + by * byt) / hr, hts = (fabsl(bx * bxt) + fabsl(by * byt)) / hr;
    r.i("fH", U(fabsl(Hh - hr), hr)).i("fF", U(fabsl(Ff - fr), fr));
    r.i("fD", U(fabsl(remainderl((LD) Dd - atan2l(bx, by) * deg, 360.0L)), 180.0L)).i("fI", U(fabsl((LD) Ii - atan2l(-bz, hr) * deg), 90.0L));
    r.i("fHt", U(fabsl(Ht - htr), hts)).i("fFt", U(fabsl(Ft - (hr * htr + bz * bzt) / fr), (hr * hts + fabsl(bz * bzt)) / fr));
    r.i("fDt", U(fabsl(Dt - (by * bxt - bx * byt) / (hr * hr) * deg), (fabsl(by * bxt) + fabsl(bx * byt)) / (hr * hr) * deg));
    r.i("fIt", U(fabsl(It - (bz * htr - hr * bzt) / (fr * fr) * deg), (fabsl(bz) * hts + fabsl(hr * bzt)) / (fr * fr) * deg));
    r.b("f4eq", vt::bits(H4) == vt::bits(Hh) && vt::bits(F4) == vt::bits(Ff) && vt::bits(D4) == vt::bits(Dd) && vt::bits(I4) == vt::bits(Ii));
    r.b("hz", hr == 0 || fr == 0).b("rng", Hh >= 0 && Ff >= Hh && fabs(Dd) <= 180 && fabs(Ii) <= 90);
    if (getenv("VDBG")) { char b[400]; snprintf(b, 400, "\"%g %g %g %g %g %g | %g %g %g %g t=%.17g lat=%.17g lon=%.17g h=%.17g\"", Bx, By, Bz, Bxt, Byt, Bzt, Hh, Ff, Dd, Ii, t, lat, lon, h); r.raw("dbg_", b); }
    r.str("kf", "none");
    r.emit();
  }
}

// -------------------------------------------------------------------------------------------------
// law record "grv": random synthetic gravity model
static void rec_grv(vt::Rng& g, int maxdeg, int npts) {
  GravFile F; F.name = "g" + to_string(++g_serial % 8);
  F.full = g.range(0, 3) != 0;
  int fk = (int) g.range(0, 5);
  if (fk == 1) F.f = g.uni(1 / 400.0, 1 / 200.0); if (fk == 2) F.f = 0; if (fk == 3) F.f = -g.uni(1 / 400.0, 1 / 200.0);
  if (g.range(0, 3) == 0) { F.aref = g.uni(6.3e6, 6.4e6); F.amodel = F.aref + g.uni(-10, 10); }
  if (g.range(0, 3) == 0) F.gmmodel = F.gmref;
  if (g.range(0, 5) == 0) F.omega = 0;
  if (g.range(0, 3) == 0) { F.usej2 = true; F.j2 = NormalGravity::FlatteningToJ2(F.aref, F.gmref, F.omega, F.f); }
  NormalGravity ref0(F.aref, F.gmref, F.omega, F.usej2 ? F.j2 : F.f, !F.usej2);
  int N = (int) g.range(2, maxdeg); if (g.range(0, 2)) N = max(N, min(maxdeg, 24)); int M = g.range(0, 2) ? N : (int) g.range(0, N);
  F.grav.alloc(N, M); fill_random(g, F.grav, (int) g.range(0, 2));
  double amp = g.coin() ? 1e-6 : 1e-3;
  for (auto& v : F.grav.C) v *= amp; for (auto& v : F.grav.S) v *= amp;
  F.grav.setc(0, 0, 0.0);
  bool nearnormal = g.range(0, 2) != 0;
  if (nearnormal) for (int n = 2; n <= N; n += 2) {        // even zonals close to those of the reference ellipsoid
    double jn = ref0.DynamicalFormFactor(n); if (!std::isfinite(jn)) continue;
    double cn = -jn * F.gmref / F.gmmodel * pow(F.aref / F.amodel, n) / (F.full ? sqrt(2.0 * n + 1) : 1.0);
    F.grav.setc(n, 0, cn + F.grav.c(n, 0) * 1e-3);
  }
  int Nc = (int) g.range(-1, max(2, maxdeg / 2)), Mc = Nc < 0 ? -1 : (g.coin() ? Nc : (int) g.range(0, Nc));
  F.corr.alloc(Nc, Mc); fill_random(g, F.corr, 1);
  F.zeta0 = g.coin() ? 0.0 : g.uni(-1, 1); F.corrmult = g.coin() ? 1.0 : 0.01;
  F.write();
  int Nmax = -1, Mmax = -1;
  if (g.range(0, 3) == 0) { Nmax = (int) g.range(0, maxdeg); Mmax = g.coin() ? -1 : (int) g.range(0, Nmax); }
  unique_ptr<GravityModel> gm; string res = guarded([&] { gm.reset(new GravityModel(F.name, g_dir, Nmax, Mmax)); });
  int nl, ml; eff_limits(Nmax, Mmax, nl, ml);
  int nx = min(N, nl), mx = min(M, ml), ncx = min(Nc, nl), mcx = min(Mc, ml);
  if (res != "ok") { Rec r; r.str("e", "grvV").str("out", res).i("N", N).i("M", M).i("Nmax", Nmax).i("Mmax", Mmax).str("kf", "none"); r.emit(); return; }
  const NormalGravity& ref = gm->ReferenceEllipsoid();
  bool meta = gm->Description() == "synthetic" && gm->DateTime() == "2026-01-01" && gm->GravityModelName() == F.name && gm->MassConstant() == F.gmmodel
    && gm->ReferenceMassConstant() == F.gmref && gm->AngularVelocity() == F.omega && gm->EquatorialRadius() == F.aref
    && (F.usej2 ? ref.DynamicalFormFactor() == F.j2 : gm->Flattening() == F.f) && gm->GravityFile() == g_dir + "/" + F.name + ".egm";
  LD fl = gm->Flattening(), ka = (LD) F.gmmodel / F.amodel, kdiff = (LD) F.gmmodel - (LD) F.gmref;
  auto cf = [&](int n, int m) { Term t; t.C = (n == 0 && m == 0) ? 1.0L : (LD) F.grav.c(n, m); t.S = F.grav.s(n, m); t.mag = hypotl(t.C, t.S); return t; };
  auto cfnz = [&](int n, int m) { Term t = cf(n, m); if (n == 0) { t.C = 0; t.mag = 0; } return t; };
  auto cc = [&](int n, int m) { Term t; t.C = (LD) F.corr.c(n, m) + ((n == 0 && m == 0) ? (LD) F.zeta0 / F.corrmult : 0.0L); t.S = F.corr.s(n, m);
                                t.mag = hypotl(fabsl((LD) F.corr.c(n, m)) + ((n == 0 && m == 0) ? fabsl((LD) F.zeta0 / F.corrmult) : 0.0L), fabsl(t.S)); return t; };
  const char* fcls = F.f == 0 ? "sphere" : F.f < 0 ? "prolate" : "oblate";
  ncx = max(ncx, 0); mcx = max(mcx, 0);       // the height offset is a degree-0 term of the correction sum
  // known-finding labels, functions of the INPUTS only
  auto join = [](std::initializer_list<const char*> ls) { string o; for (const char* x : ls) if (x) { if (!o.empty()) o += "+"; o += x; } return o.empty() ? string("none") : o; };
  const char* lsph = F.f == 0 ? "grv-sphere-zonal-nan" : nullptr;
  string kfT = join({lsph, !F.full ? "grv-schmidt-zonal" : nullptr, nx < 20 ? "grv-lowdeg-zonal" : nullptr});
  string kfN = join({lsph});
  string kfG = join({lsph, F.gmmodel != F.gmref ? "grv-tgrad-gm" : nullptr});
  for (int ip = 0; ip < npts; ++ip) {
    double lat = g.range(0, 7) == 0 ? (g.coin() ? 90.0 : -90.0) : asin(g.uni(-1, 1)) * 180 / (double) PI_L, lon = g.uni(-360, 360);
    double h = g.range(0, 2) == 0 ? 0.0 : g.uni(-5e3, 1e6);
    auto head = [&](Rec& r, const char* e) { r.str("e", e).b("full", F.full).str("fcls", fcls).b("usej2", F.usej2).b("near", nearnormal).i("nx", nx).b("h0", h == 0).b("gmeq", F.gmmodel == F.gmref); };
    Rec r; head(r, "grvV"); r.str("out", "ok").i("N", N).i("M", M).i("Nc", Nc).i("Mc", Mc).i("Nmax", Nmax).i("Mmax", Mmax).i("deg", gm->Degree()).i("ord", gm->Order()).b("meta", meta);
    double X, Y, Z; ref.Earth().Forward(lat, lon, h, X, Y, Z);
    LD R = norm3(X, Y, Z), p2 = (LD) X * X + (LD) Y * Y, om2 = (LD) F.omega * F.omega;
    DefOut d = defsum(F.full, nx, mx, (LD) F.amodel, X, Y, Z, cf), dz = defsum(F.full, nx, mx, (LD) F.amodel, X, Y, Z, cfnz);
    LD zn = (LD) F.gmref / R * fabsl((LD) ref.DynamicalFormFactor()) * ((LD) F.aref / R) * ((LD) F.aref / R);   // size of the normal zonal part of T
    LD sT = ka * dz.S0 + fabsl(kdiff) / R + ka * EPS * d.S0 + 2 * zn, sD = ka * dz.S1 + fabsl(kdiff) / (R * R) + 6 * zn / R;
    LD sV = ka * (d.S0 + R * d.S1) + om2 * p2, sVg = ka * (d.S1 + R * d.S2) + om2 * sqrtl(p2);
    // V
    double GX, GY, GZ, Vl = gm->V(X, Y, Z, GX, GY, GZ);
    r.i("dV", U(fabsl(Vl - ka * d.V), ka * d.S0)).i("dVg", U(norm3(GX - ka * d.g[0], GY - ka * d.g[1], GZ - ka * d.g[2]), ka * d.S1));
    // Phi, W
    double fX, fY, Pl = gm->Phi(X, Y, fX, fY);
    r.i("dP", U(fabsl(Pl - om2 * p2 / 2), om2 * p2 / 2)).i("dPg", U(hypotl(fX - om2 * X, fY - om2 * Y), om2 * sqrtl(p2)));
    double gX, gY, gZ, Wl = gm->W(X, Y, Z, gX, gY, gZ);
    r.i("dW", U(fabsl((LD) Wl - ((LD) Vl + (LD) Pl)), fabsl((LD) Vl) + fabsl((LD) Pl)));
    r.i("dWg", U(norm3((LD) gX - ((LD) GX + fX), (LD) gY - ((LD) GY + fY), (LD) gZ - GZ), norm3(GX, GY, GZ) + hypotl(fX, fY)));
    double uX, uY, uZ, Ul = gm->U(X, Y, Z, uX, uY, uZ), vX, vY, vZ, Ur = ref.U(X, Y, Z, vX, vY, vZ);
    r.b("ueq", vt::bits(Ul) == vt::bits(Ur) && vt::bits(uX) == vt::bits(vX) && vt::bits(uY) == vt::bits(vY) && vt::bits(uZ) == vt::bits(vZ));
    // geodetic interface and circle of latitude for V, W
    Frame Fr = frame(F.aref, fl, lat, lon, h);
    double gx, gy, gz, Wg = gm->Gravity(lat, lon, h, gx, gy, gz);
    LD gw[3] = {gX, gY, gZ}, ge[3]; to_enu(Fr, gw, ge);
    r.i("dGW", U(fabsl((LD) Wg - Wl), fabsl((LD) Wl))).i("dG", U(norm3(gx - ge[0], gy - ge[1], gz - ge[2]), norm3(gX, gY, gZ)));
    GravityCircle gc = gm->Circle(lat, h);
    double cX, cY, cZ, cV = gc.V(lon, cX, cY, cZ);
    r.i("cV", U(fabsl((LD) cV - Vl), sV)).i("cVg", U(norm3((LD) cX - GX, (LD) cY - GY, (LD) cZ - GZ), sVg));
    double cW = gc.W(lon, cX, cY, cZ);
    r.i("cW", U(fabsl((LD) cW - Wl), sV)).i("cWg", U(norm3((LD) cX - gX, (LD) cY - gY, (LD) cZ - gZ), sVg));
    double cGW = gc.Gravity(lon, cX, cY, cZ);
    r.i("cGW", U(fabsl((LD) cGW - Wg), sV)).i("cG", U(norm3((LD) cX - gx, (LD) cY - gy, (LD) cZ - gz), sVg));
    r.b("cinsp", gc.Init() && gc.EquatorialRadius() == F.aref && gc.Flattening() == gm->Flattening() && gc.Latitude() == lat && gc.Height() == h);
    r.str("kf", "none"); r.emit();

    // ---- T = W - U and its gradient (value-only T for the potential; the gradient versions' return value is in grvG)
    Rec q; head(q, "grvT");
    double tX, tY, tZ, Tl = gm->T(X, Y, Z, tX, tY, tZ), T1 = gm->T(X, Y, Z);
    q.i("dT", U(fabsl((LD) T1 - ((LD) Wl - (LD) Ul)), fabsl((LD) Wl) + fabsl((LD) Ul) + sT));
    q.i("dTg", U(norm3((LD) tX - ((LD) gX - uX), (LD) tY - ((LD) gY - uY), (LD) tZ - ((LD) gZ - uZ)), norm3(gX, gY, gZ) + norm3(uX, uY, uZ) + sD));
    double ex, ey, ez, Td = gm->Disturbance(lat, lon, h, ex, ey, ez);
    LD tw[3] = {tX, tY, tZ}, te[3]; to_enu(Fr, tw, te);
    q.i("dD", U(norm3(ex - te[0], ey - te[1], ez - te[2]), sD));
    LD sTc = sT + R * sD, sDc = sD + R * (ka * dz.S2 + 2 * fabsl(kdiff) / (R * R * R) + 24 * zn / (R * R));
    double cT = gc.T(lon, cX, cY, cZ), cT1 = gc.T(lon);
    q.i("cT", U(fabsl((LD) cT - T1), sTc)).i("cT1", U(fabsl((LD) cT1 - T1), sTc)).i("cTg", U(norm3((LD) cX - tX, (LD) cY - tY, (LD) cZ - tZ), sDc));
    double cDT = gc.Disturbance(lon, cX, cY, cZ);
    q.i("cDT", U(fabsl((LD) cDT - T1), sTc)).i("cD", U(norm3((LD) cX - ex, (LD) cY - ey, (LD) cZ - ez), sDc));
    q.str("kf", kfT); q.emit();

    // ---- the potential returned together with the gradient equals the potential returned alone
    Rec w; head(w, "grvG");
    w.i("dTv", U(fabsl((LD) Tl - (LD) T1), sT)).i("dDT", U(fabsl((LD) Td - (LD) T1), sT));
    w.str("kf", kfG); w.emit();

    // ---- geoid height and spherical anomaly
    Rec n; head(n, "grvN"); n.i("Nc", Nc);
    double Dg, xi, eta; gm->SphericalAnomaly(lat, lon, h, Dg, xi, eta);
    LD gam = norm3(uX, uY, uZ), deg = 180 / PI_L;
    {
      LD Tp = (LD) T1 - kdiff / R, dp[3] = {tX + kdiff * X / (R * R * R), tY + kdiff * Y / (R * R * R), tZ + kdiff * Z / (R * R * R)};
      LD P = sqrtl(p2), cl = P > 0 ? X / P : 1, sl = P > 0 ? Y / P : 0;
      if (P == 0) { LD s2, c2; sincosdl(lon, s2, c2); cl = c2; sl = s2; }
      LD st = Z / R, ct = P / R;
      LD de = -sl * dp[0] + cl * dp[1], dn = -st * cl * dp[0] - st * sl * dp[1] + ct * dp[2], dr = ct * cl * dp[0] + ct * sl * dp[1] + st * dp[2];
      if (getenv("VDBG")) fprintf(stderr, "ref Dg=%.10Lg xi=%.10Lg eta=%.10Lg sD=%Lg sT=%Lg R=%Lg\n", -dr - 2 * Tp / R, -dn / gam * deg, -de / gam * deg, sD, sT, R);
      n.i("aD", U(fabsl(Dg - (-dr - 2 * Tp / R)), sD + 2 * sT / R)).i("aX", U(fabsl(xi - (-dn / gam * deg)), sD / gam * deg)).i("aE", U(fabsl(eta - (-de / gam * deg)), sD / gam * deg));
    }
    double X0, Y0, Z0; ref.Earth().Forward(lat, lon, 0, X0, Y0, Z0);
    LD R0 = norm3(X0, Y0, Z0);
    double Ng = gm->GeoidHeight(lat, lon), T0 = gm->T(X0, Y0, Z0), gam0 = ref.SurfaceGravity(lat);
    DefOut dc = defsum(F.full, ncx, mcx, 1.0L, X0 / R0, Y0 / R0, Z0 / R0, cc);
    DefOut d0 = defsum(F.full, nx, mx, (LD) F.amodel, X0, Y0, Z0, cfnz), d00 = defsum(F.full, nx, mx, (LD) F.amodel, X0, Y0, Z0, cf);
    LD zn0 = (LD) F.gmref / R0 * fabsl((LD) ref.DynamicalFormFactor()) * ((LD) F.aref / R0) * ((LD) F.aref / R0);
    LD sT0 = ka * d0.S0 + fabsl(kdiff) / R0 + ka * EPS * d00.S0 + 2 * zn0, sN = sT0 / gam0 + (LD) F.corrmult * dc.S0;
    LD Nexp = ((LD) T0 - kdiff / R0) / gam0 + (LD) F.corrmult * dc.V;
    n.i("dN", U(fabsl(Ng - Nexp), sN));
    double cDg, cxi, ceta; gc.SphericalAnomaly(lon, cDg, cxi, ceta);
    n.i("cA", max(U(fabsl((LD) cDg - Dg), sDc + 2 * sTc / R), max(U(fabsl((LD) cxi - xi), sDc / gam * deg), U(fabsl((LD) ceta - eta), sDc / gam * deg))));
    double cN = gc.GeoidHeight(lon);
    if (getenv("VDBG")) { char b[600]; snprintf(b, 600, "\"Dg=%.10g xi=%.10g eta=%.10g cDg=%.10g cxi=%.10g ceta=%.10g T1=%.10g Tl=%.10g t=(%g %g %g) gam=%.10g lat=%.17g lon=%.17g h=%.17g file=%s Nmax=%d Mmax=%d\"", Dg, xi, eta, cDg, cxi, ceta, T1, Tl, tX, tY, tZ, (double) gam, lat, lon, h, F.name.c_str(), Nmax, Mmax); n.raw("dbg_", b); }
    n.b("cNnan", std::isnan(cN)).i("cN", h == 0 ? U(fabsl((LD) cN - Ng), sN + R0 * ((ka * d0.S1 + 6 * zn0 / R0) / gam0 + (LD) F.corrmult * dc.S1)) : 0);
    n.str("kf", kfN); n.emit();
  }
}

// -------------------------------------------------------------------------------------------------
// normal gravity: closed formulas of the documentation page "Normal gravity" in long double
static LD Qser(LD x) {     // Q as a function of x = z^2 (x > -1); series for small |x|, closed forms otherwise
  if (fabsl(x) < 0.25L) { LD s = 0, xp = 1; for (int k = 1; k < 80; ++k) { s += ((k & 1) ? 1 : -1) * 2.0L * k * xp / ((2 * k + 1.0L) * (2 * k + 3.0L)); xp *= x; } return s; }
  if (x > 0) { LD z = sqrtl(x); return ((1 + 3 / x) * atanl(z) - 3 / z) / (2 * z * x); }
  LD y = -x, z = sqrtl(y);   // z^2 = -y: atan(z)/z -> atanh(sqrt y)/sqrt y
  return ((1 - 3 / y) * atanhl(z) / z + 3 / y) / (2 * (-y));
}
static LD Hser(LD x) {
  if (fabsl(x) < 0.25L) { LD s = 0, xp = 1; for (int k = 2; k < 80; ++k) { s += ((k & 1) ? -1 : 1) * 6.0L * xp / ((2 * k - 1.0L) * (2 * k + 1.0L)); xp *= x; } return s; }
  LD az = x > 0 ? atanl(sqrtl(x)) / sqrtl(x) : atanhl(sqrtl(-x)) / sqrtl(-x);
  return (3 * (1 + x) * (1 - az) - x) / (x * x);
}
struct NGRef { LD a, b, GM, om, E2; };   // E2 = a^2 - b^2 (signed)
static LD ng_U(const NGRef& P, LD X, LD Y, LD Z, bool rot) {
  LD R2 = X * X + Y * Y, r2 = R2 + Z * Z, E2 = P.E2, om2 = P.om * P.om;
  LD Q0 = Qser(E2 / (P.b * P.b));
  LD Um, Uq, sb2;
  if (E2 == 0) { LD r = sqrtl(r2); Um = P.GM / r; sb2 = Z * Z / r2; Uq = om2 / 2 * P.a * P.a * P.b * P.b * P.b / (r2 * r) * (sb2 - 1 / 3.0L); }
  else if (E2 > 0) {
    LD q = r2 - E2, u2 = (q + sqrtl(q * q + 4 * E2 * Z * Z)) / 2, u = sqrtl(u2), E = sqrtl(E2);
    sb2 = Z * Z / u2; Um = P.GM / E * atanl(E / u);
    Uq = om2 / 2 * P.a * P.a * P.b * P.b * P.b / (u2 * u) * Qser(E2 / u2) / Q0 * (sb2 - 1 / 3.0L);
  } else {
    LD Ep2 = -E2, q = r2 - Ep2, up2 = (q + sqrtl(q * q + 4 * Ep2 * R2)) / 2, Ep = sqrtl(Ep2), u2 = up2 + Ep2;
    sb2 = Z * Z / u2; Um = P.GM / Ep * asinhl(Ep / sqrtl(up2));
    Uq = om2 / 2 * P.a * P.a * P.b * P.b * P.b / (u2 * sqrtl(u2)) * Qser(-Ep2 / u2) / Q0 * (sb2 - 1 / 3.0L);
  }
  return Um + Uq + (rot ? om2 / 2 * R2 : 0.0L);
}
// gradient of the closed formula by 4th-order central differences in long double
static void ng_grad(const NGRef& P, LD X, LD Y, LD Z, bool rot, LD g[3]) {
  LD r = norm3(X, Y, Z), h = r * 0x1p-13L, p[3] = {X, Y, Z};
  for (int i = 0; i < 3; ++i) {
    LD v[4]; int k = 0;
    for (LD s : {-2.0L, -1.0L, 1.0L, 2.0L}) { LD q[3] = {p[0], p[1], p[2]}; q[i] += s * h; v[k++] = ng_U(P, q[0], q[1], q[2], rot); }
    g[i] = (v[0] - 8 * v[1] + 8 * v[2] - v[3]) / (12 * h);
  }
}

static void rec_ng(vt::Rng& g) {
  double a = g.coin() ? 6378137.0 : g.uni(1, 1e7), GM = g.coin() ? 3986004.418e8 : g.uni(0.1, 10) * 3986004.418e8 * pow(a / 6378137.0, 3);
  double om = g.range(0, 5) == 0 ? 0.0 : 7292115e-11 * g.uni(0, 4);
  int fk = (int) g.range(0, 7); double f = 1 / 298.257223563;
  if (fk == 1) f = g.uni(0, 0.01); if (fk == 2) f = -g.uni(0, 0.01); if (fk == 3) f = g.uni(0.01, 0.5); if (fk == 4) f = -g.uni(0.01, 1.0);
  if (fk == 5) f = 0; if (fk == 6) f = (g.coin() ? 1 : -1) * pow(10.0, -g.uni(3, 12));
  bool viaJ2 = g.range(0, 3) == 0;
  double J2 = NormalGravity::FlatteningToJ2(a, GM, om, f);
  unique_ptr<NormalGravity> ng, ngf; string res = guarded([&] { ngf.reset(new NormalGravity(a, GM, om, f, true)); ng.reset(viaJ2 ? new NormalGravity(a, GM, om, J2, false) : new NormalGravity(a, GM, om, f, true)); });
  const char* fcls = f == 0 ? "sphere" : f < 0 ? "prolate" : "oblate";
  Rec r; r.str("e", "ng").str("out", res).str("fcls", fcls).b("viaJ2", viaJ2).b("om0", om == 0).i("lf", f == 0 ? -99 : (int) floor(log10(fabs(f))));
  if (res != "ok") { r.str("kf", "none"); r.emit(); return; }
  LD fl = ng->Flattening();
  NGRef P; P.a = a; P.b = (LD) a * (1 - (LD) f); P.GM = GM; P.om = om; P.E2 = P.a * P.a * (LD) f * (2 - (LD) f);
  LD Ua = (LD) GM / a + (LD) om * om * a * a;            // potential scale
  // derived constants (documentation page: J2 = e^2/3 - 2 b^3 omega^2/(45 GM Q0); gamma_a, gamma_b; U0 = U on the ellipsoid)
  LD e2 = P.E2 / (P.a * P.a), Q0 = Qser(P.E2 / (P.b * P.b)), H0 = Hser(P.E2 / (P.b * P.b)), om2 = P.om * P.om;
  LD J2r = e2 / 3 - 2 * P.b * P.b * P.b * om2 / (45 * P.GM * Q0);
  LD gar = P.GM / (P.a * P.b) - om2 * P.a / 6 * H0 / Q0 - om2 * P.a, gbr = P.GM / (P.a * P.a) + om2 * P.b / 3 * H0 / Q0;
  LD J2s = fabsl(e2) / 3 + 2 * P.b * P.b * P.b * om2 / (45 * P.GM * Q0), gs = P.GM / (P.a * P.b) + om2 * P.a * (1 + fabsl(H0 / Q0));
  r.i("cJ2", U(fabsl(J2 - J2r), J2s)).i("cJ2o", U(fabsl(ng->DynamicalFormFactor() - J2r), J2s)).i("cJn2", U(fabsl(ng->DynamicalFormFactor(2) - ng->DynamicalFormFactor()), J2s));
  r.i("cf", U(fabsl(fl - (LD) f), viaJ2 ? fmaxl(fabsl((LD) f), J2s) : fabsl((LD) f)));
  r.i("cf2", U(fabsl(NormalGravity::J2ToFlattening(a, GM, om, J2) - (LD) f), fmaxl(fabsl((LD) f), J2s)));
  r.i("cge", U(fabsl(ng->EquatorialGravity() - gar), gs)).i("cgp", U(fabsl(ng->PolarGravity() - gbr), gs));
  r.i("cfs", U(fabsl(ng->GravityFlattening() - (gbr - gar) / gar), gs / fabsl(gar)));
  r.i("cU0", U(fabsl(ng->SurfacePotential() - ng_U(P, P.a, 0, 0, true)), Ua));
  r.b("insp", ng->Init() && ng->EquatorialRadius() == a && ng->MassConstant() == GM && ng->AngularVelocity() == om && (viaJ2 ? ng->DynamicalFormFactor() == J2 : ng->Flattening() == f)
      && ng->Earth().EquatorialRadius() == a && ng->Earth().Flattening() == ng->Flattening());
  // constructor from J2 == constructor from f
  r.i("jf", max(max(U(fabsl((LD) ng->SurfacePotential() - ngf->SurfacePotential()), Ua), U(fabsl((LD) ng->EquatorialGravity() - ngf->EquatorialGravity()), gs)),
                U(fabsl((LD) ng->PolarGravity() - ngf->PolarGravity()), gs)));
  // surface: potential constant, gravity normal, Somigliana
  double lat = g.range(0, 5) == 0 ? (g.coin() ? 90.0 : 0.0) * (g.coin() ? 1 : -1) : asin(g.uni(-1, 1)) * 180 / (double) PI_L, lon = g.uni(-360, 360);
  double X, Y, Z; ng->Earth().Forward(lat, lon, 0, X, Y, Z);
  double gX, gY, gZ, Us = ng->U(X, Y, Z, gX, gY, gZ);
  r.i("sU", U(fabsl((LD) Us - ng->SurfacePotential()), Ua));
  double gy0, gz0, Ug = ng->Gravity(lat, 0, gy0, gz0), sg = ng->SurfaceGravity(lat);
  LD sp, cp; sincosdl(lat, sp, cp);
  LD som = (P.a * gar * cp * cp + P.b * gbr * sp * sp) / sqrtl(P.a * P.a * cp * cp + P.b * P.b * sp * sp);
  r.i("sS", U(fabsl(sg - som), gs)).i("sG", U(hypotl((LD) gy0, (LD) gz0 + sg), gs)).i("sGU", U(fabsl((LD) Ug - Us), Ua));
  r.i("se", U(fabsl(ng->SurfaceGravity(0) - (LD) ng->EquatorialGravity()), gs)).i("sp", U(fabsl(ng->SurfaceGravity(g.coin() ? 90 : -90) - (LD) ng->PolarGravity()), gs));
  // exterior point: closed formula, gradient, Phi, V0 + Phi = U, geodetic interface, Laplace
  double h = pow(10.0, g.uni(0, 7.5)) * a / 6378137.0; if (g.range(0, 9) == 0) h = 0;
  double lat2 = g.range(0, 9) == 0 ? (g.coin() ? 90.0 : -90.0) : asin(g.uni(-1, 1)) * 180 / (double) PI_L;
  ng->Earth().Forward(lat2, lon, h, X, Y, Z);
  LD R = norm3(X, Y, Z), p = hypotl(X, Y);
  double vX, vY, vZ, V0 = ng->V0(X, Y, Z, vX, vY, vZ), fX, fY, Ph = ng->Phi(X, Y, fX, fY), Ue = ng->U(X, Y, Z, gX, gY, gZ);
  LD Ur = ng_U(P, X, Y, Z, true), V0r = ng_U(P, X, Y, Z, false), gr[3]; ng_grad(P, X, Y, Z, true, gr);
  LD Up = (LD) GM / R + om2 * (p * p + (LD) a * a * a * a * a / (R * R * R)), gp = (LD) GM / (R * R) + om2 * (p + (LD) a * a * a * a * a / (R * R * R * R));
  r.i("xU", U(fabsl(Ue - Ur), Up)).i("xV", U(fabsl(V0 - V0r), Up)).i("xg", U(norm3(gX - gr[0], gY - gr[1], gZ - gr[2]), gp));
  r.i("xP", U(fabsl(Ph - om2 * p * p / 2), om2 * p * p / 2)).i("xPg", U(hypotl(fX - om2 * X, fY - om2 * Y), om2 * p));
  r.i("xS", U(fabsl((LD) Ue - ((LD) V0 + Ph)), Up)).i("xSg", U(norm3((LD) gX - ((LD) vX + fX), (LD) gY - ((LD) vY + fY), (LD) gZ - vZ), gp));
  double gy, gz, U2 = ng->Gravity(lat2, h, gy, gz);
  Frame Fr = frame(a, fl, lat2, 0.0L, h);
  { double X2, Y2, Z2; ng->Earth().Forward(lat2, 0, h, X2, Y2, Z2); double wX, wY, wZ, U3 = ng->U(X2, Y2, Z2, wX, wY, wZ);
    LD gw[3] = {wX, wY, wZ}, ge[3]; to_enu(Fr, gw, ge);
    r.i("xG", U(norm3(ge[0], gy - ge[1], gz - ge[2]), gp)).i("xGU", U(fabsl((LD) U2 - U3), Up)); }
  // harmonic outside: divergence of the returned Gamma by central differences of the library's own gradient
  { LD hh = R * 0x1p-18L, div = 0, hmx = 0; double P0[3] = {X, Y, Z};
    for (int i = 0; i < 3; ++i) { double Pp[3] = {X, Y, Z}, Pm[3] = {X, Y, Z}; volatile double xp = P0[i] + (double) hh, xm = P0[i] - (double) hh; Pp[i] = xp; Pm[i] = xm;
      double a1[3], a2[3]; ng->V0(Pp[0], Pp[1], Pp[2], a1[0], a1[1], a1[2]); ng->V0(Pm[0], Pm[1], Pm[2], a2[0], a2[1], a2[2]);
      LD he = (LD) xp - (LD) xm; div += ((LD) a1[i] - (LD) a2[i]) / he; hmx = fmaxl(hmx, he / 2); }
    LD gsc = (LD) GM / (R * R) + om2 * (LD) a * a * a * a * a / (R * R * R * R);
    r.i("lap", U(fabsl(div), gsc / R)).i("lapT", U(hmx * hmx * gsc * 60 / (R * R * R), gsc / R)).i("lapR", (long long) ceill(R / hmx)); }
  // zonal harmonics: V0 = GM/r (1 - sum_n J_n (a/r)^n P_n(sin psi)) far from the ellipsoid
  { LD Rf = fmaxl(P.a, P.b) * (LD) g.uni(3, 10), psi = asinl((LD) g.uni(-1, 1)), Xf = Rf * cosl(psi), Zf = Rf * sinl(psi);
    double wX, wY, wZ, Vf = ng->V0((double) Xf, 0.0, (double) Zf, wX, wY, wZ);
    LD xx = (double) Xf, zz = (double) Zf, rf = hypotl(xx, zz), t = zz / rf, pm = 1, pc = t, sum = 1, asum = 1, qq = P.a / rf, qn = qq; bool fin = true;
    for (int n = 2; n <= 60; ++n) { LD pn = ((2 * n - 1) * t * pc - (n - 1) * pm) / n; pm = pc; pc = pn; qn *= qq;
      if (n % 2 == 0) { double jn = ng->DynamicalFormFactor(n); if (!std::isfinite(jn)) fin = false; sum -= jn * qn * pn; asum += fabsl(jn * qn); } }
    Rec z; z.str("e", "ngz").str("fcls", fcls).b("viaJ2", viaJ2).b("jfin", fin).i("zV", U(fabsl(Vf - P.GM / rf * sum), fabsl(P.GM) / rf * asum + om2 * (LD) a * a * a * a * a / (rf * rf * rf)));
    z.str("kf", f == 0 ? "ng-sphere-jn-nan" : "none"); z.emit(); }
  r.str("kf", "none");
  r.emit();
}

// -------------------------------------------------------------------------------------------------
// replay of TLC-emitted vectors
static int I(const vector<string>& t, size_t k) { return atoi(t.at(k).c_str()); }
static long long code(int n, int m, int sine) { return 1 + 2 * (16 * n + m) + sine; }

// idx N M : documented storage layout through the public accessors of SphericalEngine::coeff
static void do_idx(const vector<string>& t) {
  int N = I(t, 1), M = I(t, 2);
  CS cs; cs.alloc(N, M);
  vector<long long> cl, sl, ix, cv, sv;
  { size_t k = 0; for (int m = 0; m <= M; ++m) for (int n = m; n <= N; ++n) { cs.C[k++] = (double) code(n, m, 0); cl.push_back(code(n, m, 0)); } }
  { size_t k = 0; for (int m = 1; m <= M; ++m) for (int n = m; n <= N; ++n) { cs.S[k++] = (double) code(n, m, 1); sl.push_back(code(n, m, 1)); } }
  string res = guarded([&] {
    SphericalEngine::coeff c(cs.C, cs.S, N, N, M);
    for (int m = 0; m <= M; ++m) for (int n = m; n <= N; ++n) { int k = c.index(n, m); ix.push_back(k); cv.push_back((long long) c.Cv(k)); if (m) sv.push_back((long long) c.Sv(k)); }
  });
  Rec r; r.str("e", "idx").i("N", N).i("M", M).str("out", res).i("csize", SphericalEngine::coeff::Csize(N, M)).i("ssize", SphericalEngine::coeff::Ssize(N, M))
    .li("cl", cl).li("sl", sl).li("ix", ix).li("cv", cv).li("sv", sv); r.emit();
}
// co N nmx mmx csz ssz : constructor contract of coeff
static void do_co(const vector<string>& t) {
  int N = I(t, 1), nmx = I(t, 2), mmx = I(t, 3), csz = I(t, 4), ssz = I(t, 5);
  vector<double> C(max(csz, 0), 1.0), S(max(ssz, 0), 1.0); int rn = -9, rx = -9, rm = -9;
  string res = guarded([&] { SphericalEngine::coeff c(C, S, N, nmx, mmx); rn = c.N(); rx = c.nmx(); rm = c.mmx(); });
  string res1 = "skip"; if (nmx == N && mmx == N) res1 = guarded([&] { SphericalEngine::coeff c(C, S, N); });
  Rec r; r.str("e", "co").i("N", N).i("nmx", nmx).i("mmx", mmx).i("csz", max(csz, 0)).i("ssz", max(ssz, 0)).str("out", res).str("out1", res1).i("rN", rn).i("rnmx", rx).i("rmmx", rm); r.emit();
}
// rd N0 M0 N M trunc : binary reader
static void do_rd(const vector<string>& t) {
  int N0 = I(t, 1), M0 = I(t, 2), N = I(t, 3), M = I(t, 4); bool tr = I(t, 5) != 0;
  string fn = g_dir + "/rd.cof";
  { ofstream f(fn.c_str(), ios::binary); put_i32(f, N0); put_i32(f, M0);
    if (N0 >= M0 && M0 >= 0) {
      for (int m = 0; m <= M0; ++m) for (int n = m; n <= N0; ++n) put_f64(f, (double) code(n, m, 0));
      for (int m = 1; m <= M0; ++m) for (int n = m; n <= N0; ++n) put_f64(f, (double) code(n, m, 1));
    }
    put_i32(f, 12345); }                                      // trailer: the stream position after the call must be here
  vector<double> C(3, -7.0), S(2, -7.0); int rN = N, rM = M, trailer = -1;
  string res = guarded([&] { ifstream f(fn.c_str(), ios::binary); SphericalEngine::coeff::readcoeffs(f, rN, rM, C, S, tr);
                             unsigned char b[4] = {0, 0, 0, 0}; f.read((char*) b, 4); if (f.good()) trailer = b[0] | (b[1] << 8) | (b[2] << 16) | (b[3] << 24); });
  vector<long long> c, s; if (res == "ok") { for (double v : C) c.push_back((long long) v); for (double v : S) s.push_back((long long) v); }
  Rec r; r.str("e", "rd").i("N0", N0).i("M0", M0).i("N", N).i("M", M).b("tr", tr).str("out", res).i("rN", rN).i("rM", rM).li("c", c).li("s", s).b("pos", trailer == 12345)
    .str("kf", tr && N == -1 && M == -1 && N0 >= 0 && M0 >= 0 && N0 >= M0 ? "rd-trunc-empty-pos" : "none"); r.emit();
}

// lattice numbers: v * 2^16 = k + e / 2^30
static void ke(vector<long long>& o, double v) {
  LD s = (LD) v * 65536.0L, k = nearbyintl(s);
  if (!(fabsl(k) < 2.0e9L)) { o.push_back(2000000001LL); o.push_back(0); return; }
  o.push_back((long long) k); o.push_back((long long) nearbyintl((s - k) * 1073741824.0L));
}
static const int AX[6][3] = {{1, 0, 0}, {0, 1, 0}, {-1, 0, 0}, {0, -1, 0}, {0, 0, 1}, {0, 0, -1}};
static void lattice_set(CS& cs, int N, const vector<string>& t, size_t k) {       // c00 c10 c11 s11 c20 c30 c40
  cs.alloc(N, min(N, 1));
  if (N < 0) return;
  cs.setc(0, 0, I(t, k)); cs.setc(1, 0, I(t, k + 1)); cs.setc(1, 1, I(t, k + 2)); cs.sets(1, 1, I(t, k + 3));
  cs.setc(2, 0, I(t, k + 4)); cs.setc(3, 0, I(t, k + 5)); cs.setc(4, 0, I(t, k + 6));
}
// val L ja j pt  then L groups: tau N nmx mmx c[7]
static void do_val(const vector<string>& t) {
  Harm H; H.L = I(t, 1); H.full = false; int ja = I(t, 2), j = I(t, 3), pt = I(t, 4);
  H.a = ldexp(1.0, ja); double r = ldexp(H.a, j);
  Rec q; q.str("e", "val").i("L", H.L).i("ja", ja).i("j", j).i("pt", pt);
  vector<long long> taus, Ns, nxs, mxs; string cs_json = "[";
  for (int l = 0; l < H.L; ++l) {
    size_t k = 5 + 11 * l;
    H.tau[l] = I(t, k); int N = I(t, k + 1); H.nmx[l] = I(t, k + 2); H.mmx[l] = I(t, k + 3);
    lattice_set(H.cs[l], N, t, k + 4);
    taus.push_back(I(t, k)); Ns.push_back(N); nxs.push_back(H.nmx[l]); mxs.push_back(H.mmx[l]);
    cs_json += (l ? ",[" : "["); for (int i = 0; i < 7; ++i) { if (i) cs_json += ","; cs_json += t[k + 4 + i]; } cs_json += "]";
  }
  cs_json += "]";
  q.li("tau", taus).li("N", Ns).li("nmx", nxs).li("mmx", mxs).raw("c", cs_json);
  vector<long long> d, c, v, cn; string res = guarded([&] {
    H.build();
    double x = AX[pt - 1][0] * r, y = AX[pt - 1][1] * r, z = AX[pt - 1][2] * r, gx, gy, gz;
    double V = H.grad(x, y, z, gx, gy, gz); ke(d, V); ke(d, gx); ke(d, gy); ke(d, gz);
    ke(v, H.val(x, y, z));
    double p = pt <= 4 ? r : 0.0, lon = pt <= 4 ? 90.0 * (pt - 1) : 0.0;
    CircularEngine cg = H.circle(p, z, true), c0 = H.circle(p, z, false);
    double V2 = cg(lon, gx, gy, gz); ke(c, V2); ke(c, gx); ke(c, gy); ke(c, gz);
    ke(cn, c0(lon));
  });
  q.str("out", res).li("d", d).li("v", v).li("cg", c).li("cn", cn); q.emit();
}

// mag nm nc dt0 tq j pt Nmax Mmax then (nm+1+nc) groups: N M g10 g11 h11 g20 g30
static map<string, unique_ptr<MagneticModel>> g_mag;
static const int MPT[12][2] = {{0, 0}, {0, 90}, {0, 180}, {0, -90}, {90, 0}, {90, 90}, {90, 180}, {90, -90}, {-90, 0}, {-90, 90}, {-90, 180}, {-90, -90}};
static void do_mag(const vector<string>& t) {
  int nm = I(t, 1), nc = I(t, 2), dt0 = I(t, 3), tq = I(t, 4), j = I(t, 5), pt = I(t, 6), Nmax = I(t, 7), Mmax = I(t, 8);
  int ns = nm + 1 + nc; string key; for (size_t k = 1; k < t.size(); ++k) if (k != 4 && k != 5 && k != 6) key += t[k] + "_";
  string sets_json = "[";
  for (int i = 0; i < ns; ++i) { size_t k = 9 + 7 * i; sets_json += (i ? ",[" : "["); for (int u = 0; u < 7; ++u) { if (u) sets_json += ","; sets_json += t[k + u]; } sets_json += "]"; }
  sets_json += "]";
  Rec q; q.str("e", "mag").i("nm", nm).i("nc", nc).i("dt0", dt0).i("tq", tq).i("j", j).i("pt", pt).i("Nmax", Nmax).i("Mmax", Mmax).raw("sets", sets_json);
  const double a = 4, ae = 8, t0 = 2000;
  vector<long long> b, c; int deg = -9, ord = -9;
  string res = guarded([&] {
    auto it = g_mag.find(key);
    if (it == g_mag.end()) {
      MagFile F; F.name = "lat" + to_string(g_mag.size()); F.full = false; F.a = a; F.t0 = t0; F.dt0 = dt0; F.nm = nm; F.nc = nc; F.tmin = 1990; F.tmax = 2030;
      for (int i = 0; i < ns; ++i) { size_t k = 9 + 7 * i; CS s; int N = I(t, k), M = I(t, k + 1); s.alloc(N, M);
        s.setc(1, 0, I(t, k + 2)); s.setc(1, 1, I(t, k + 3)); s.sets(1, 1, I(t, k + 4)); s.setc(2, 0, I(t, k + 5)); s.setc(3, 0, I(t, k + 6)); F.sets.push_back(s); }
      F.write();
      it = g_mag.emplace(key, unique_ptr<MagneticModel>(new MagneticModel(F.name, g_dir, Geocentric(ae, 0), Nmax, Mmax))).first;
    }
    const MagneticModel& mm = *it->second; deg = mm.Degree(); ord = mm.Order();
    double tt = t0 + tq / 4.0, r = ldexp(a, j), lat = MPT[pt - 1][0], lon = MPT[pt - 1][1], h = r - ae;
    double Bx, By, Bz, Bxt, Byt, Bzt; mm(tt, lat, lon, h, Bx, By, Bz, Bxt, Byt, Bzt);
    for (double v : {Bx, By, Bz, Bxt, Byt, Bzt}) ke(b, v);
    MagneticCircle mc = mm.Circle(tt, lat, h); mc(lon, Bx, By, Bz, Bxt, Byt, Bzt);
    for (double v : {Bx, By, Bz, Bxt, Byt, Bzt}) ke(c, v);
  });
  q.str("out", res).i("deg", deg).i("ord", ord).li("b", b).li("cb", c); q.emit();
}

// cap req h0 : capabilities of GravityCircle; req bits: 1 GRAVITY 2 DISTURBANCE 4 DISTURBING_POTENTIAL 8 SPHERICAL_ANOMALY 16 GEOID_HEIGHT
static unique_ptr<GravityModel> g_capmodel;
static void do_cap(const vector<string>& t) {
  int req = I(t, 1); bool h0 = I(t, 2) != 0;
  if (!g_capmodel) {
    GravFile F; F.name = "cap"; F.grav.alloc(4, 4); vt::Rng g(7); fill_random(g, F.grav, 1); for (auto& v : F.grav.C) v *= 1e-5; for (auto& v : F.grav.S) v *= 1e-5;
    F.grav.setc(0, 0, 0); F.grav.setc(2, 0, -4.84e-4); F.corr.alloc(2, 2); fill_random(g, F.corr, 0); F.write();
    g_capmodel.reset(new GravityModel("cap", g_dir));
  }
  unsigned caps = 0;
  if (req & 1) caps |= GravityModel::GRAVITY; if (req & 2) caps |= GravityModel::DISTURBANCE; if (req & 4) caps |= GravityModel::DISTURBING_POTENTIAL;
  if (req & 8) caps |= GravityModel::SPHERICAL_ANOMALY; if (req & 16) caps |= GravityModel::GEOID_HEIGHT;
  if (req == 32) caps = GravityModel::ALL; if (req == 33) caps = GravityModel::NONE;
  GravityCircle gc = g_capmodel->Circle(33.0, h0 ? 0.0 : 1000.0, caps);
  double x, y, z; auto nn = [](double v) { return std::isnan(v); };
  Rec q; q.str("e", "cap").i("req", req).b("h0", h0);
  double v = gc.Gravity(20, x, y, z); q.b("gravity", !(nn(v) || nn(x) || nn(y) || nn(z))).b("gravity_all", nn(v) && nn(x) && nn(y) && nn(z));
  v = gc.W(20, x, y, z); q.b("w", !(nn(v) || nn(x) || nn(y) || nn(z)));
  v = gc.V(20, x, y, z); q.b("v", !(nn(v) || nn(x) || nn(y) || nn(z)));
  v = gc.Disturbance(20, x, y, z); q.b("disturbance", !(nn(v) || nn(x) || nn(y) || nn(z)));
  v = gc.T(20, x, y, z); q.b("tgrad", !(nn(v) || nn(x) || nn(y) || nn(z)));
  v = gc.T(20); q.b("t", !nn(v));
  gc.SphericalAnomaly(20, x, y, z); q.b("anomaly", !(nn(x) || nn(y) || nn(z)));
  v = gc.GeoidHeight(20); q.b("geoid", !nn(v));
  q.i("caps", gc.Capabilities()).b("capsall", gc.Capabilities(GravityModel::ALL)); q.emit();
}

// -------------------------------------------------------------------------------------------------
static void do_record(uint64_t seed, long long n, int maxdeg) {
  vt::Rng g(seed);
  for (long long it = 0; it < n; ++it) {
    int k = (int) (it % 10);
    if (k < 5) rec_sh(g, maxdeg);
    else if (k < 7) rec_mag(g, maxdeg / 2 + 2, 3);
    else if (k < 9) rec_grv(g, maxdeg / 2 + 6, 3);
    else { rec_ng(g); rec_ng(g); }
  }
}

int main(int argc, char** argv) {
  vt::install_terminate();
  if (argc < 3) { fprintf(stderr, "usage: drv_harm replay dir < vectors | record dir seed n [maxdeg]\n"); return 2; }
  g_dir = argv[2]; mkdir(g_dir.c_str(), 0755);
  if (string(argv[1]) == "replay") {
    string line;
    while (getline(cin, line)) {
      auto t = vt::split(line); if (t.empty()) continue;
      if (t[0] == "idx") do_idx(t); else if (t[0] == "co") do_co(t); else if (t[0] == "rd") do_rd(t);
      else if (t[0] == "val") do_val(t); else if (t[0] == "mag") do_mag(t); else if (t[0] == "cap") do_cap(t);
      else { fprintf(stderr, "unknown vector %s\n", t[0].c_str()); return 2; }
    }
    return 0;
  }
  if (string(argv[1]) == "record" && argc >= 5) { do_record(strtoull(argv[3], 0, 10), atoll(argv[4]), argc >= 6 ? atoi(argv[5]) : 40); return 0; }
  return 2;
}
