// Driver for C19: spherical harmonic sums, magnetic / gravity models read from synthetic files, normal gravity.
// The driver executes library calls and reduces each law to an integer residual in a declared unit
// (multiples of eps*scale, eps = 2^-52); tolerances, guards and decisions live in spec/Trace_Harmonic.tla.
#include "trace.hpp"
#include <GeographicLib/SphericalHarmonic.hpp>
#include <GeographicLib/SphericalHarmonic1.hpp>
#include <GeographicLib/SphericalHarmonic2.hpp>
#include <GeographicLib/CircularEngine.hpp>
#include <GeographicLib/MagneticModel.hpp>
#include <GeographicLib/MagneticCircle.hpp>
#include <GeographicLib/GravityModel.hpp>
#include <GeographicLib/GravityCircle.hpp>
#include <GeographicLib/NormalGravity.hpp>
#include <GeographicLib/Geocentric.hpp>
#include <GeographicLib/Constants.hpp>
#include <fstream>
#include <sstream>
#include <map>
#include <set>
#include <memory>
#include <functional>
#include <sys/stat.h>

using namespace GeographicLib;
using namespace std;
using vt::Rec;
typedef long double LD;

static string g_dir;
static const LD EPS = 2.220446049250313080847263336181640625e-16L;   // 2^-52
static const LD PI_L = 3.141592653589793238462643383279502884L;

template<class F> static string guarded(F f) {
  try { f(); return "ok"; }
  catch (const GeographicErr&) { return "throw"; }
  catch (const std::bad_alloc&) { return "badalloc"; }
  catch (const std::exception&) { return "other"; }
  catch (...) { return "other"; }
}

// residual in units of eps*scale, rounded up, clipped to 2e9; NaN -> 2000000001
static long long U(LD resid, LD scale) {
  if (std::isnan(resid) || std::isnan(scale)) return 2000000001LL;
  if (resid == 0) return 0;
  if (!(scale > 0)) return 2000000000LL;
  LD q = ceill(resid / (EPS * scale));
  if (!(q < 2.0e9L)) return 2000000000LL;
  return (long long) q;
}
static LD norm3(LD a, LD b, LD c) { return sqrtl(a * a + b * b + c * c); }

static unsigned caps_of(int req) {       // req bits: 1 GRAVITY 2 DISTURBANCE 4 DISTURBING_POTENTIAL 8 SPHERICAL_ANOMALY 16 GEOID_HEIGHT; 32 ALL, 33 NONE
  unsigned caps = 0;
  if (req & 1) caps |= GravityModel::GRAVITY; if (req & 2) caps |= GravityModel::DISTURBANCE; if (req & 4) caps |= GravityModel::DISTURBING_POTENTIAL;
  if (req & 8) caps |= GravityModel::SPHERICAL_ANOMALY; if (req & 16) caps |= GravityModel::GEOID_HEIGHT;
  if (req == 32) caps = GravityModel::ALL; if (req == 33) caps = GravityModel::NONE;
  return caps;
}
static const double FS[4] = {12345.678, -23456.789, 34567.891, -45678.912};    // finite sentinels: an output that is not written stays finite

// -------------------------------------------------------------------------------------------------
// coefficient sets in the documented packed ("column major") layout
struct CS {
  int N = -1, M = -1;
  vector<double> C, S;
  static int csize(int N, int M) { return (M + 1) * (2 * N - M + 2) / 2; }
  void alloc(int n, int m) { N = n; M = m; C.assign(n < 0 ? 0 : csize(n, m), 0.0); S.assign(n < 0 ? 0 : csize(n, m) - (n + 1), 0.0); }
  int idx(int n, int m) const { return m * N - m * (m - 1) / 2 + n; }
  bool has(int n, int m) const { return n >= 0 && m >= 0 && m <= n && n <= N && m <= M; }
  double c(int n, int m) const { return has(n, m) ? C[idx(n, m)] : 0.0; }
  double s(int n, int m) const { return has(n, m) && m >= 1 ? S[idx(n, m) - (N + 1)] : 0.0; }
  void setc(int n, int m, double v) { if (has(n, m)) C[idx(n, m)] = v; }
  void sets(int n, int m, double v) { if (has(n, m) && m >= 1) S[idx(n, m) - (N + 1)] = v; }
};

// -------------------------------------------------------------------------------------------------
// The defining double sum, evaluated directly (long double) from the documentation of SphericalHarmonic:
//   V = sum_n q^(n+1) sum_m (C cos m lam + S sin m lam) P_nm(cos theta),
//   P_nm = sqrt(k (2n+1)? (n-m)!/(n+m)!) u^m d^m P_n(t)/dt^m   (Ferrers function without the Condon-Shortley sign).
// u^m cos/sin(m lam) = Re/Im((x+iy)/r)^m so that value and cartesian gradient are regular on the polar axis.
struct Term { LD C, S, mag; };
struct DefOut { LD V, g[3], S0, S1, S2, S3; };

template<class F> static DefOut defsum(bool full, int nmx, int mmx, LD a, LD x, LD y, LD z, F coef) {
  DefOut o; o.V = 0; o.g[0] = o.g[1] = o.g[2] = 0; o.S0 = o.S1 = o.S2 = o.S3 = 0;
  if (nmx < 0 || mmx < 0) return o;
  LD r = norm3(x, y, z), s[3] = {x / r, y / r, z / r}, t = s[2], q = a / r;
  vector<LD> A(mmx + 2), B(mmx + 2);
  A[0] = 1; B[0] = 0;
  for (int m = 1; m <= mmx + 1; ++m) { A[m] = A[m - 1] * s[0] - B[m - 1] * s[1]; B[m] = A[m - 1] * s[1] + B[m - 1] * s[0]; }
  // derivative tables R[m][n] = d^m P_n / dt^m for m = 0..mmx+1
  vector<vector<LD>> R(mmx + 2, vector<LD>(nmx + 2, 0.0L));
  LD df = 1;                                   // (2m-1)!!
  for (int m = 0; m <= mmx + 1; ++m) {
    if (m > 0) df *= (2 * m - 1);
    if (m <= nmx) R[m][m] = df;
    if (m + 1 <= nmx) R[m][m + 1] = (2 * m + 1) * t * df;
    for (int n = m + 1; n + 1 <= nmx; ++n) R[m][n + 1] = ((2 * n + 1) * t * R[m][n] - (n + m) * R[m][n - 1]) / (n - m + 1);
  }
  vector<LD> qn(nmx + 1); qn[0] = q; for (int n = 1; n <= nmx; ++n) qn[n] = qn[n - 1] * q;
  const LD E1 = 2.718281828459045235360287L, SQ2 = sqrtl(2.0L); LD cmax = 0;
  for (int m = 0; m <= mmx; ++m)
    for (int n = m; n <= nmx; ++n) {
      Term c = coef(n, m);
      LD ratio = 1; for (int j = n - m + 1; j <= n + m; ++j) ratio *= j;
      LD nf = sqrtl((m ? 2.0L : 1.0L) * (full ? 2 * n + 1 : 1) / ratio);
      LD G = R[m][n], G1 = R[m + 1][n];
      LD H = c.C * A[m] + c.S * B[m];
      LD pre = nf * qn[n];
      o.V += pre * G * H;
      for (int i = 0; i < 3; ++i) {
        LD dH = 0;
        if (m > 0) {
          LD re = -A[m] * s[i], im = -B[m] * s[i];
          if (i == 0) { re += A[m - 1]; im += B[m - 1]; }
          if (i == 1) { re += -B[m - 1]; im += A[m - 1]; }
          dH = m * (c.C * re + c.S * im);
        }
        o.g[i] += pre / r * (-(n + 1) * s[i] * G * H + G1 * ((i == 2 ? 1 : 0) - t * s[i]) * H + G * dH);
      }
      LD sup = c.mag * qn[n] * (full ? sqrtl(2 * n + 1.0L) : 1.0L);
      o.S0 += sup; o.S1 += sup * SQ2 * (n + 1) / r;
      LD k3 = 9.0L * (n + 2) / r; o.S3 += E1 * sup * k3 * k3 * k3;
      LD k2 = 6.0L * (n + 2) / r; o.S2 += E1 * sup * k2 * k2;
      cmax = fmaxl(cmax, c.mag);
    }
  // named rule UnderflowFloor: the classes scale their intermediate sums ("internal scaling ... to avoid overflow"), so a sum
  // whose every term is below ~2^-440 of the largest coefficient is flushed to zero; the magnitude bounds carry this floor
  { LD F0 = ldexpl(cmax * q, -388), k1 = SQ2 * (nmx + 1) / r, k2 = 6.0L * (nmx + 2) / r, k3 = 9.0L * (nmx + 2) / r;
    o.S0 += F0; o.S1 += F0 * k1; o.S2 += F0 * k2 * k2; o.S3 += F0 * k3 * k3 * k3; }
  return o;
}

// -------------------------------------------------------------------------------------------------
// a harmonic object with 1..3 coefficient sets
struct Harm {
  int L = 1; bool full = true; double a = 1;
  CS cs[3]; int nmx[3] = {-1, -1, -1}, mmx[3] = {-1, -1, -1}; double tau[3] = {1, 0, 0};
  // constructor family: ct 0 = general form (C, S, N, nmx, mmx, ...), 1 = simple form (C, S, N, ...: nmx = mmx = N for every set);
  // defnorm: the normalisation argument is left out (documented default FULL); asg: default-constructed object, then copy-assigned
  int ct = 0; bool defnorm = false, asg = false;
  unique_ptr<SphericalHarmonic> h0; unique_ptr<SphericalHarmonic1> h1; unique_ptr<SphericalHarmonic2> h2;
  template<class T> static T* fin(bool asg, const T& obj) { if (!asg) return new T(obj); T* p = new T(); *p = obj; return p; }
  void build() {
    unsigned nm = full ? SphericalHarmonic::FULL : SphericalHarmonic::SCHMIDT;
    const CS &A = cs[0], &B = cs[1], &D = cs[2];
    if (L == 1) {
      if (ct == 1) h0.reset(defnorm ? fin(asg, SphericalHarmonic(A.C, A.S, A.N, a)) : fin(asg, SphericalHarmonic(A.C, A.S, A.N, a, nm)));
      else h0.reset(defnorm ? fin(asg, SphericalHarmonic(A.C, A.S, A.N, nmx[0], mmx[0], a)) : fin(asg, SphericalHarmonic(A.C, A.S, A.N, nmx[0], mmx[0], a, nm)));
    } else if (L == 2) {
      if (ct == 1) h1.reset(defnorm ? fin(asg, SphericalHarmonic1(A.C, A.S, A.N, B.C, B.S, B.N, a)) : fin(asg, SphericalHarmonic1(A.C, A.S, A.N, B.C, B.S, B.N, a, nm)));
      else h1.reset(defnorm ? fin(asg, SphericalHarmonic1(A.C, A.S, A.N, nmx[0], mmx[0], B.C, B.S, B.N, nmx[1], mmx[1], a))
                            : fin(asg, SphericalHarmonic1(A.C, A.S, A.N, nmx[0], mmx[0], B.C, B.S, B.N, nmx[1], mmx[1], a, nm)));
    } else {
      if (ct == 1) h2.reset(defnorm ? fin(asg, SphericalHarmonic2(A.C, A.S, A.N, B.C, B.S, B.N, D.C, D.S, D.N, a))
                                    : fin(asg, SphericalHarmonic2(A.C, A.S, A.N, B.C, B.S, B.N, D.C, D.S, D.N, a, nm)));
      else h2.reset(defnorm ? fin(asg, SphericalHarmonic2(A.C, A.S, A.N, nmx[0], mmx[0], B.C, B.S, B.N, nmx[1], mmx[1], D.C, D.S, D.N, nmx[2], mmx[2], a))
                            : fin(asg, SphericalHarmonic2(A.C, A.S, A.N, nmx[0], mmx[0], B.C, B.S, B.N, nmx[1], mmx[1], D.C, D.S, D.N, nmx[2], mmx[2], a, nm)));
    }
  }
  double val(double x, double y, double z) const {
    return L == 1 ? (*h0)(x, y, z) : L == 2 ? (*h1)(tau[1], x, y, z) : (*h2)(tau[1], tau[2], x, y, z);
  }
  double grad(double x, double y, double z, double& gx, double& gy, double& gz) const {
    return L == 1 ? (*h0)(x, y, z, gx, gy, gz) : L == 2 ? (*h1)(tau[1], x, y, z, gx, gy, gz) : (*h2)(tau[1], tau[2], x, y, z, gx, gy, gz);
  }
  CircularEngine circle(double p, double z, bool gradp) const {
    return L == 1 ? h0->Circle(p, z, gradp) : L == 2 ? h1->Circle(tau[1], p, z, gradp) : h2->Circle(tau[1], tau[2], p, z, gradp);
  }
  const SphericalEngine::coeff& coeffs(int l) const {
    return L == 1 ? h0->Coefficients() : L == 2 ? (l == 0 ? h1->Coefficients() : h1->Coefficients1())
                  : (l == 0 ? h2->Coefficients() : l == 1 ? h2->Coefficients1() : h2->Coefficients2());
  }
  Term coef(int n, int m) const {
    Term t; t.C = 0; t.S = 0; LD ac = 0, as = 0;
    for (int l = 0; l < L; ++l) {
      if (n > nmx[l] || m > mmx[l]) continue;
      LD f = l == 0 ? 1.0L : (LD) tau[l];
      t.C += f * cs[l].c(n, m); t.S += f * cs[l].s(n, m);
      ac += fabsl(f * cs[l].c(n, m)); as += fabsl(f * cs[l].s(n, m));
    }
    t.mag = hypotl(ac, as);
    return t;
  }
  DefOut def(LD x, LD y, LD z) const { return defsum(full, nmx[0], mmx[0], (LD) a, x, y, z, [&](int n, int m) { return coef(n, m); }); }
};

static void fill_random(vt::Rng& g, CS& cs, int style) {
  // style 0: dense, no decay; 1: dense with (n+1)^-2 decay; 2: sparse; 3: a single unit coefficient
  for (size_t i = 0; i < cs.C.size(); ++i) cs.C[i] = 0;
  for (size_t i = 0; i < cs.S.size(); ++i) cs.S[i] = 0;
  if (cs.N < 0) return;
  if (style == 3) {
    int m = (int) g.range(0, cs.M), n = (int) g.range(m, cs.N);
    if (m > 0 && g.coin()) cs.sets(n, m, 1.0); else cs.setc(n, m, 1.0);
    return;
  }
  for (int m = 0; m <= cs.M; ++m) for (int n = m; n <= cs.N; ++n) {
    if (style == 2 && g.range(0, 7) != 0) continue;
    double sc = style == 1 ? 1.0 / ((n + 1.0) * (n + 1.0)) : 1.0;
    cs.setc(n, m, g.uni(-1, 1) * sc);
    if (m) cs.sets(n, m, g.uni(-1, 1) * sc);
  }
}

// random evaluation point for normalising radius a; cls: 0 generic, 1 polar axis, 2 near the axis, 3 equatorial plane,
// 4 on a coordinate axis, 5 generic inside (r < a)
static void random_point(vt::Rng& g, double a, int cls, double& x, double& y, double& z) {
  double r = a * pow(10.0, cls == 5 ? g.uni(-0.25, 0.0) : g.uni(0.0, 1.0));
  if (g.range(0, 9) == 0) r = a;
  double lat = asin(g.uni(-1, 1)), lon = g.uni(-PI_L, PI_L);
  x = r * cos(lat) * cos(lon); y = r * cos(lat) * sin(lon); z = r * sin(lat);
  if (cls == 1) { x = y = 0; z = g.coin() ? r : -r; }
  if (cls == 2) { double p = r * pow(10.0, -g.uni(3, 22)); x = p * cos(lon); y = p * sin(lon); z = g.coin() ? r : -r; }
  if (cls == 3) { z = g.coin() ? 0.0 : -0.0; x = r * cos(lon); y = r * sin(lon); }
  if (cls == 4) { bool k = g.coin(); double sg = g.coin() ? r : -r; x = k ? sg : 0.0; y = k ? 0.0 : sg; z = 0; }
}

// -------------------------------------------------------------------------------------------------
// law record "sh": a random harmonic object at a random point
static string make_random_harm(vt::Rng& g, Harm& H, int maxdeg) {
  H.L = (int) g.range(1, 3); H.full = g.coin();
  H.a = g.coin() ? 1.0 : (g.coin() ? 6378137.0 : pow(2.0, (double) g.range(-3, 8)));
  int N = (int) g.range(0, maxdeg); if (g.range(0, 5) == 0) N = (int) g.range(0, 4);
  // class "full sets": every set is a full triangle of its own degree N_l <= N, so that the simple constructor form applies;
  // it is then built with either form.  Otherwise: sub-triangles / truncations, general form only.
  bool fullsets = g.range(0, 2) == 0;
  H.ct = fullsets && g.range(0, 2) != 0 ? 1 : 0;
  H.defnorm = H.full && g.range(0, 2) == 0;
  H.asg = g.range(0, 3) == 0;
  for (int l = 0; l < H.L; ++l) {
    int Nl = l == 0 ? N : (int) g.range(-1, H.cs[0].N);
    int nx = fullsets ? Nl : (int) g.range(Nl < 0 ? -1 : 0, Nl);
    if (l == 0 && g.coin()) nx = Nl;
    if (l > 0) nx = min(nx, H.nmx[0]);
    int mx = fullsets ? Nl : (nx < 0 ? -1 : (int) g.range(0, nx));
    if (l == 0 && g.coin()) mx = nx;
    if (l > 0) mx = min(mx, H.mmx[0]);
    if (mx < 0 || nx < 0) { nx = mx = -1; }
    // storage: full triangle, or only the columns that are needed
    H.cs[l].alloc(Nl, (Nl >= 0 && g.coin()) ? max(mx, 0) : Nl);
    if (fullsets) H.cs[l].alloc(Nl, Nl);
    fill_random(g, H.cs[l], (int) g.range(0, 3));
    H.nmx[l] = nx; H.mmx[l] = mx;
    H.tau[l] = l == 0 ? 1.0 : (g.range(0, 4) == 0 ? (double) g.range(-2, 2) : g.uni(-2, 2));
  }
  return guarded([&] { H.build(); });
}

static void rec_sh(vt::Rng& g, int maxdeg) {
  Harm H; string built = make_random_harm(g, H, maxdeg);
  int cls = (int) g.range(0, 9); if (cls > 5) cls = 0;
  if (built != "ok") {
    Rec r; r.str("e", "sh").str("out", built).i("L", H.L).b("full", H.full).i("n", H.nmx[0]).i("m", H.mmx[0]).i("ct", H.ct).b("dn", H.defnorm).b("asg", H.asg).str("kf", "none");
    r.emit(); return;
  }
  double x, y, z; random_point(g, H.a, cls, x, y, z);
  DefOut d = H.def(x, y, z);
  double gx = vt::sentinel(1), gy = vt::sentinel(2), gz = vt::sentinel(3);
  double v0 = H.val(x, y, z), v1 = H.grad(x, y, z, gx, gy, gz);
  Rec r; r.str("e", "sh").i("L", H.L).b("full", H.full).i("n", H.nmx[0]).i("m", H.mmx[0]).i("cls", cls).str("out", "ok").i("ct", H.ct).b("dn", H.defnorm).b("asg", H.asg);
  { vector<long long> in, ob;       // Coefficients(), Coefficients1(), Coefficients2(): layout degree and the limits of every set as given to the constructor
    for (int l = 0; l < H.L; ++l) { const SphericalEngine::coeff& c = H.coeffs(l); in.push_back(H.cs[l].N); in.push_back(H.nmx[l]); in.push_back(H.mmx[l]);
      ob.push_back(c.N()); ob.push_back(c.nmx()); ob.push_back(c.mmx()); }
    r.li("cin", in).li("cob", ob); }
  r.i("dv", U(fabsl((LD) v1 - d.V), d.S0)).i("dvv", U(fabsl((LD) v0 - (LD) v1), d.S0));
  r.i("dg", U(norm3((LD) gx - d.g[0], (LD) gy - d.g[1], (LD) gz - d.g[2]), d.S1));
  // circle of latitude through the point, same cos/sin of longitude as used by the direct evaluation
  double p = hypot(x, y), cl = p != 0 ? x / p : 1, sl = p != 0 ? y / p : 0;
  CircularEngine cg = H.circle(p, z, true), cn = H.circle(p, z, false);
  double cx = 0, cy = 0, cz = 0, cv = cg(sl, cl, cx, cy, cz), cv0 = cg(sl, cl);
  double ux = vt::sentinel(4), uy = vt::sentinel(5), uz = vt::sentinel(6), cnv = cn(sl, cl, ux, uy, uz);
  r.i("cv", U(fabsl((LD) cv - (LD) v1), d.S0)).i("cv0", U(fabsl((LD) cv0 - (LD) v1), d.S0)).i("cnv", U(fabsl((LD) cnv - (LD) v1), d.S0));
  r.i("cg", U(norm3((LD) cx - gx, (LD) cy - gy, (LD) cz - gz), d.S1));
  r.b("cunt", vt::is_sentinel(ux, 4) && vt::is_sentinel(uy, 5) && vt::is_sentinel(uz, 6));
  // another longitude on the same circle, given in degrees; the direct point is rounded, hence the wider scale
  double lon2 = g.range(0, 3) == 0 ? 45.0 * (double) g.range(-8, 8) : g.uni(-360, 360), s2, c2;
  Math::sincosd(lon2, s2, c2);
  double x2 = p * c2, y2 = p * s2, dx = 0, dy = 0, dz = 0, ex = 0, ey = 0, ez = 0;
  double dv2 = H.grad(x2, y2, z, dx, dy, dz), cv2 = cg(lon2, ex, ey, ez), cv3 = cn(lon2);
  LD rr = norm3(x, y, z);
  r.i("cv2", U(fabsl((LD) cv2 - dv2), d.S0 + rr * d.S1)).i("cv3", U(fabsl((LD) cv3 - dv2), d.S0 + rr * d.S1));
  r.i("cg2", U(norm3((LD) ex - dx, (LD) ey - dy, (LD) ez - dz), d.S1 + rr * d.S2));
  // central differences of the returned value against the returned gradient
  LD h = d.S3 > 0 && d.S0 > 0 ? cbrtl(64 * EPS * d.S0 / d.S3) : rr * 0x1p-12L;
  int ex2; frexpl(h, &ex2); double hh = (double) ldexpl(1.0L, ex2 - 1);
  double P[3] = {x, y, z}, fd[3]; LD hmax = 0, hmin = 1e300L;
  for (int i = 0; i < 3; ++i) {
    double Pp[3] = {x, y, z}, Pm[3] = {x, y, z};
    volatile double xp = P[i] + hh, xm = P[i] - hh; Pp[i] = xp; Pm[i] = xm;
    LD he = (LD) xp - (LD) xm;
    fd[i] = (double) (((LD) H.val(Pp[0], Pp[1], Pp[2]) - (LD) H.val(Pm[0], Pm[1], Pm[2])) / he);
    hmax = max(hmax, he / 2); hmin = min(hmin, he / 2);
  }
  r.i("fdr", U(norm3((LD) fd[0] - gx, (LD) fd[1] - gy, (LD) fd[2] - gz), d.S1));
  r.i("fdT", U(hmax * hmax * d.S3 / 6, d.S1));
  { LD q = d.S1 > 0 ? ceill(d.S0 / hmin / d.S1) : 0; r.i("fdR", q < 2e9L ? (long long) q : 2000000000LL); }
  r.str("kf", "none");
  r.emit();
}

// -------------------------------------------------------------------------------------------------
// synthetic model files (formats: doc sections magneticformat / gravityformat)
static void put_i32(ofstream& f, int v) { unsigned char b[4]; for (int i = 0; i < 4; ++i) b[i] = (unsigned char) (((unsigned) v) >> (8 * i)); f.write((char*) b, 4); }
static void put_f64(ofstream& f, double v) { uint64_t u = vt::bits(v); unsigned char b[8]; for (int i = 0; i < 8; ++i) b[i] = (unsigned char) (u >> (8 * i)); f.write((char*) b, 8); }
static void put_set(ofstream& f, const CS& cs) {
  put_i32(f, cs.N); put_i32(f, cs.M);
  for (double v : cs.C) put_f64(f, v);
  for (double v : cs.S) put_f64(f, v);
}
static string num(double v) { char b[64]; snprintf(b, 64, "%.17g", v); return b; }

// An optional keyword is left out of the metadata file when its name is in `omit`; the sampler only puts a keyword there when the
// value equals the default the documentation gives for it (the trace specification re-checks that guard from the logged values).
// A metadata text "decorated" with everything the format sections allow without changing the meaning: comment lines, trailing
// comments, blank lines, tabs / extra blanks between KEY and VALUE and around them, keywords that the classes do not know
static string decorate(const string& text) {
  std::istringstream is(text); string line, out; int k = 0;
  while (getline(is, line)) {
    if (k++ == 0 || line.empty() || line[0] == '#') { out += line + "\n"; continue; }         // the signature line stays as it is
    size_t sp = line.find(' ');
    out += "  " + line.substr(0, sp) + " \t  " + (sp == string::npos ? string() : line.substr(sp + 1)) + "  \t# " + line.substr(0, sp) + " noted\n";
    if (k % 3 == 0) out += "\n   \t\n   # an interleaved comment line\nPublisher" + to_string(k) + "  nobody in particular # ignored keyword\nURL http://example.invalid/x#y\n";
  }
  return out;
}
static string omit_json(const std::set<string>& omit) { string o = "["; for (auto& k : omit) { if (o.size() > 1) o += ","; o += "\"" + k + "\""; } return o + "]"; }
struct MagFile {
  string name, id = "SYNTHMAG"; bool full = false; double a = 6371200.0, t0 = 2000, dt0 = 5, tmin = 1990, tmax = 2030, hmin = -1000, hmax = 600000;
  int nm = 1, nc = 0; vector<CS> sets;     // nm + 1 + nc sets
  std::set<string> omit; bool deco = false;
  void write() const {
    std::ostringstream m;
    auto opt = [&](const char* k) { return omit.count(k) == 0; };
    m << "WMMF-2\n# synthetic magnetic model written by drv_harm\n";
    if (opt("Name")) m << "Name synth-" << name << "\n";
    if (opt("Description")) m << "Description synthetic\n";
    if (opt("ReleaseDate")) m << "ReleaseDate 2026-01-01\n";
    m << "Radius " << num(a) << "\n";
    if (opt("NumModels")) m << "NumModels " << nm << "\n";
    if (opt("NumConstants")) m << "NumConstants " << nc << "\n";
    m << "Epoch " << num(t0) << "\n";
    if (opt("DeltaEpoch")) m << "DeltaEpoch " << num(dt0) << "\n";
    m << "MinTime " << num(tmin) << "\nMaxTime " << num(tmax) << "\nMinHeight " << num(hmin) << "\nMaxHeight " << num(hmax) << "\n";
    if (opt("Normalization")) m << "Normalization " << (full ? "full" : "schmidt") << "\n";
    if (opt("Type")) m << "Type linear\n";
    if (opt("ByteOrder")) m << "ByteOrder little\n";
    m << "ID " << id << "\n";
    { ofstream f((g_dir + "/" + name + ".wmm").c_str()); f << (deco ? decorate(m.str()) : m.str()); }
    ofstream c((g_dir + "/" + name + ".wmm.cof").c_str(), ios::binary);
    c.write(id.data(), 8);
    for (const CS& s : sets) put_set(c, s);
  }
};

struct GravFile {
  string name, id = "SYNTHGRV"; bool full = true; bool usej2 = false;
  double amodel = 6378136.3, gmmodel = 3986004.415e8, omega = 7292115e-11, aref = 6378137, gmref = 3986004.418e8, f = 1 / 298.257223563, j2 = 0,
         zeta0 = 0, corrmult = 1;
  CS grav, corr;
  std::set<string> omit; bool deco = false;
  void write() const {
    std::ostringstream m;
    auto opt = [&](const char* k) { return omit.count(k) == 0; };
    m << "EGMF-1\n# synthetic gravity model written by drv_harm\n";
    if (opt("Name")) m << "Name synth-" << name << "\n";
    if (opt("Description")) m << "Description synthetic\n";
    if (opt("ReleaseDate")) m << "ReleaseDate 2026-01-01\n";
    m << "ModelRadius " << num(amodel) << "\nModelMass " << num(gmmodel) << "\nAngularVelocity " << num(omega)
      << "\nReferenceRadius " << num(aref) << "\nReferenceMass " << num(gmref) << "\n";
    if (usej2) m << "DynamicalFormFactor " << num(j2) << "\n"; else m << "Flattening " << num(f) << "\n";
    if (opt("HeightOffset")) m << "HeightOffset " << num(zeta0) << "\n";
    if (opt("CorrectionMultiplier")) m << "CorrectionMultiplier " << num(corrmult) << "\n";
    if (opt("Normalization")) m << "Normalization " << (full ? "full" : "schmidt") << "\n";
    if (opt("ByteOrder")) m << "ByteOrder little\n";
    m << "ID " << id << "\n";
    { ofstream f((g_dir + "/" + name + ".egm").c_str()); f << (deco ? decorate(m.str()) : m.str()); }
    ofstream c((g_dir + "/" + name + ".egm.cof").c_str(), ios::binary);
    c.write(id.data(), 8);
    put_set(c, grav); put_set(c, corr);
  }
};
// each keyword that may be left out (value = documented default, as claimed by the sampler) is left out with probability 1/2, or none at all
static void draw_omit(vt::Rng& g, std::set<string>& omit, std::initializer_list<pair<const char*, bool>> elig) {
  bool any = g.range(0, 2) != 0;
  for (auto& e : elig) { bool c = g.coin(); if (any && e.second && c) omit.insert(e.first); }
}

// textbook geodetic -> geocentric and the east/north/up frame, in long double (degrees in)
static void sincosdl(LD deg, LD& s, LD& c) {
  LD rr = remainderl(deg, 90.0L); int qd = (int) (((long long) llroundl((deg - rr) / 90.0L) % 4 + 4) % 4);
  LD sr = sinl(rr * PI_L / 180), cr = cosl(rr * PI_L / 180);
  switch (qd) { case 0: s = sr; c = cr; break; case 1: s = cr; c = -sr; break; case 2: s = -sr; c = -cr; break; default: s = -cr; c = sr; }
}
struct Frame { LD X, Y, Z, e[3], n[3], u[3]; };
static Frame frame(LD a, LD f, LD lat, LD lon, LD h) {
  Frame F; LD sp, cp, sl, cl; sincosdl(lat, sp, cp); sincosdl(lon, sl, cl);
  LD e2 = f * (2 - f), nu = a / sqrtl(1 - e2 * sp * sp);
  F.X = (nu + h) * cp * cl; F.Y = (nu + h) * cp * sl; F.Z = ((1 - e2) * nu + h) * sp;
  F.e[0] = -sl; F.e[1] = cl; F.e[2] = 0;
  F.n[0] = -sp * cl; F.n[1] = -sp * sl; F.n[2] = cp;
  F.u[0] = cp * cl; F.u[1] = cp * sl; F.u[2] = sp;
  return F;
}
static void to_enu(const Frame& F, const LD v[3], LD o[3]) {
  o[0] = F.e[0] * v[0] + F.e[1] * v[1] + F.e[2] * v[2];
  o[1] = F.n[0] * v[0] + F.n[1] * v[1] + F.n[2] * v[2];
  o[2] = F.u[0] * v[0] + F.u[1] * v[1] + F.u[2] * v[2];
}

// -------------------------------------------------------------------------------------------------
// law record "magr": random synthetic magnetic model, random time and place
static int g_serial = 0;
static void eff_limits(int Nmax, int Mmax, int& nl, int& ml) {       // constructor documentation of Nmax / Mmax
  nl = ml = 1 << 30;
  if (Nmax >= 0 || Mmax >= 0) { if (Nmax >= 0 && Mmax < 0) Mmax = Nmax; if (Nmax >= 0) nl = Nmax; if (Mmax >= 0) ml = Mmax; }
}
struct MagCoef {               // coefficient combination at a given time, per documentation of the file format
  const MagFile* F; int seg; bool interp; LD w, tau, tabs; int nl, ml; bool rate;
  Term operator()(int n, int m) const {
    auto get = [&](int i, bool sine) -> LD { const CS& c = F->sets[i]; if (n > min(c.N, nl) || m > min(c.M, ml)) return 0.0L; return sine ? c.s(n, m) : c.c(n, m); };
    Term t; LD v[2], a[2];
    for (int k = 0; k < 2; ++k) {
      LD g0 = get(seg, k), g1 = get(seg + 1, k), gc = F->nc ? get(F->nm + 1, k) : 0.0L;
      if (rate) { v[k] = interp ? (g1 - g0) / F->dt0 : g1; a[k] = interp ? (fabsl(g1) + fabsl(g0)) / F->dt0 : fabsl(g1); }
      else if (interp) { v[k] = g0 + w * (g1 - g0) + gc; a[k] = fabsl(g0) * (1 + fabsl(w)) + fabsl(w * g1) + fabsl(gc) + tabs * (fabsl(g1) + fabsl(g0)) / F->dt0; }
      else { v[k] = g0 + tau * g1 + gc; a[k] = fabsl(g0) + fabsl(tau * g1) + fabsl(gc) + tabs * fabsl(g1); }
      // conditioning in the time argument: the offset t - Epoch - i DeltaEpoch is formed in double precision (a few ulps of |t - Epoch|),
      // so the magnitude bound of a coefficient carries |t - Epoch| x |its rate of change| (last term above)
    }
    t.C = v[0]; t.S = v[1]; t.mag = hypotl(a[0], a[1]); return t;
  }
};
static void mag_oracle(const MagFile& F, int Nmax, int Mmax, LD t, int seg, LD X, LD Y, LD Z, DefOut& B, DefOut& Bt) {
  MagCoef mc; mc.F = &F; eff_limits(Nmax, Mmax, mc.nl, mc.ml);
  mc.seg = seg; mc.interp = seg + 1 < F.nm; mc.tau = t - (LD) F.t0 - seg * (LD) F.dt0; mc.w = mc.tau / F.dt0; mc.tabs = fabsl(t - (LD) F.t0);
  int nx = -1, mx = -1; for (const CS& c : F.sets) { nx = max(nx, min(c.N, mc.nl)); mx = max(mx, min(c.M, mc.ml)); }
  mc.rate = false; B = defsum(F.full, nx, mx, (LD) F.a, X, Y, Z, mc);
  mc.rate = true; Bt = defsum(F.full, nx, mx, (LD) F.a, X, Y, Z, mc);
  for (int i = 0; i < 3; ++i) { B.g[i] *= -(LD) F.a; Bt.g[i] *= -(LD) F.a; }
  for (DefOut* d : {&B, &Bt}) { d->S1 *= F.a; d->S2 *= F.a; }
}

static void rec_mag(vt::Rng& g, int maxdeg, int npts) {
  MagFile F; F.name = "m" + to_string(++g_serial % 8); if (getenv("VKEEP")) F.name = "mk" + to_string(g_serial);   // debugging aid: keep every synthetic file
  F.nm = (int) g.range(1, 4); F.nc = (int) g.range(0, 1); F.full = g.range(0, 3) == 0;
  F.a = g.coin() ? 6371200.0 : g.uni(1e6, 1e7);
  F.t0 = g.coin() ? 2000.0 + 5 * (double) g.range(-20, 5) : g.uni(1900, 2025); F.dt0 = g.coin() ? 5.0 : g.coin() ? 1.0 : g.uni(0.5, 6);
  F.tmin = F.t0 - 1; F.tmax = F.t0 + F.nm * F.dt0 + g.uni(0, 5); F.hmin = -g.uni(0, 2000); F.hmax = g.uni(1e5, 1e6);
  for (int i = 0; i < F.nm + 1 + F.nc; ++i) {
    CS c; int N = (int) g.range(1, i == F.nm + 1 ? maxdeg : max(1, maxdeg / 2)); int M = g.range(0, 2) ? N : (int) g.range(0, N);
    if (g.range(0, 11) == 0) N = M = -1;
    c.alloc(N, M); fill_random(g, c, (int) g.range(0, 2));
    if (N >= 0) { c.setc(0, 0, 0.0); for (auto& v : c.C) v *= (i == F.nm ? 50.0 : 30000.0); for (auto& v : c.S) v *= (i == F.nm ? 50.0 : 30000.0); }
    F.sets.push_back(c);
  }
  draw_omit(g, F.omit, {{"Normalization", !F.full}, {"NumModels", F.nm == 1}, {"NumConstants", F.nc == 0}, {"DeltaEpoch", F.nm == 1 || F.dt0 == 1.0},
                        {"Type", true}, {"ByteOrder", true}, {"Name", true}, {"Description", true}, {"ReleaseDate", true}});
  F.deco = g.range(0, 2) == 0;
  F.write();
  // truncation request: none, degree (and order), the order only (Nmax < 0 <= Mmax), other negative values (= not given), Mmax > Nmax (exception)
  int Nmax = -1, Mmax = -1;
  { int tk = (int) g.range(0, 11);
    if (tk < 3) { Nmax = (int) g.range(0, maxdeg); Mmax = g.coin() ? -1 : (int) g.range(0, Nmax); }
    else if (tk == 3) { Mmax = (int) g.range(0, maxdeg); Nmax = g.coin() ? -1 : -(int) g.range(2, 9); }
    else if (tk == 4) { Nmax = (int) g.range(0, maxdeg); Mmax = Nmax + (int) g.range(1, 3); }
    else if (tk == 5) { Nmax = -(int) g.range(1, 9); Mmax = -(int) g.range(1, 9); } }
  double ae = Constants::WGS84_a(), fe = Constants::WGS84_f();
  int ek = (int) g.range(0, 3); if (ek == 1) { ae = F.a; fe = 0; } if (ek == 2) { ae = g.uni(6e6, 7e6); fe = g.uni(-0.01, 0.01); }
  Geocentric earth(ae, fe);
  // constructor argument lists: the full one, or with the trailing arguments that have their documented default value left out
  // (Mmax = -1, Nmax = -1, earth = Geocentric::WGS84())
  int alist = (int) g.range(0, 1) == 0 ? 5 : (Mmax != -1 ? 5 : Nmax != -1 ? 4 : ek != 0 ? 3 : 2);
  unique_ptr<MagneticModel> mm; string res = guarded([&] {
    mm.reset(alist == 5 ? new MagneticModel(F.name, g_dir, earth, Nmax, Mmax) : alist == 4 ? new MagneticModel(F.name, g_dir, earth, Nmax)
             : alist == 3 ? new MagneticModel(F.name, g_dir, earth) : new MagneticModel(F.name, g_dir)); });
  vector<long long> Ns, Ms; for (const CS& c : F.sets) { Ns.push_back(c.N); Ms.push_back(c.M); }
  if (res != "ok") { Rec r; r.str("e", "magr").str("out", res).li("Ns", Ns).li("Ms", Ms).i("Nmax", Nmax).i("Mmax", Mmax).str("kf", "none"); r.emit(); return; }
  bool meta = mm->MinTime() == F.tmin
    && mm->MaxTime() == F.tmax && mm->MinHeight() == F.hmin && mm->MaxHeight() == F.hmax && mm->EquatorialRadius() == ae && mm->Flattening() == fe
    && mm->MagneticModelDirectory() == g_dir && mm->MagneticFile() == g_dir + "/" + F.name + ".wmm";
  for (int ip = 0; ip < npts; ++ip) {
    double t = F.t0 + g.uni(-1.0, F.nm + 0.5) * F.dt0; if (g.range(0, 5) == 0) t = F.t0 + (double) g.range(0, F.nm) * F.dt0;
    double lat = g.range(0, 7) == 0 ? (g.coin() ? 90.0 : -90.0) : asin(g.uni(-1, 1)) * 180 / (double) PI_L, lon = g.uni(-360, 360), h = g.uni(-5e3, 8e5);
    if (g.range(0, 9) == 0) lat = g.coin() ? 90 - pow(10.0, -g.uni(3, 14)) : 0.0;
    LD ws = ((LD) t - (LD) F.t0) / (LD) F.dt0; int seg = max(min((int) floorl(ws), F.nm - 1), 0);
    int rw = (int) roundl(ws); bool knot = fabsl(ws - roundl(ws)) < 1e-9L && rw >= 1 && rw <= F.nm - 1; int seg2 = seg == rw ? rw - 1 : rw;
    Rec r; r.str("e", "magr").str("out", "ok").i("nm", F.nm).i("nc", F.nc).b("full", F.full).li("Ns", Ns).li("Ms", Ms).i("Nmax", Nmax).i("Mmax", Mmax)
      .i("deg", mm->Degree()).i("ord", mm->Order()).b("meta", meta).b("knot", knot).i("seg", seg).b("pole", fabs(lat) == 90)
      .raw("omit", omit_json(F.omit)).b("deco", F.deco).b("dt1", F.dt0 == 1.0).str("desc", mm->Description()).str("date", mm->DateTime()).str("name", mm->MagneticModelName()).str("fname", F.name);
    // geocentric: library point, oracle at the same doubles
    double X, Y, Z; earth.Forward(lat, lon, h, X, Y, Z);
    double BX, BY, BZ, BXt, BYt, BZt; mm->FieldGeocentric(t, X, Y, Z, BX, BY, BZ, BXt, BYt, BZt);
    DefOut B, Bt; mag_oracle(F, Nmax, Mmax, t, seg, X, Y, Z, B, Bt);
    long long dbg = U(norm3(BX - B.g[0], BY - B.g[1], BZ - B.g[2]), B.S1);
    long long dbgt = U(norm3(BXt - Bt.g[0], BYt - Bt.g[1], BZt - Bt.g[2]), Bt.S1);
    LD s1k = 0, s2k = 0;                                   // at a knot: magnitude bounds of the neighbouring segment's formula
    if (knot) { DefOut B2, Bt2; mag_oracle(F, Nmax, Mmax, t, seg2, X, Y, Z, B2, Bt2); dbgt = min(dbgt, U(norm3(BXt - Bt2.g[0], BYt - Bt2.g[1], BZt - Bt2.g[2]), Bt2.S1));
      dbg = min(dbg, U(norm3(BX - B2.g[0], BY - B2.g[1], BZ - B2.g[2]), B2.S1)); }
    r.i("dbg", dbg).i("dbgt", dbgt);
    // geodetic: oracle from the textbook forward map and frame
    Frame Fr = frame(ae, fe, lat, lon, h); LD rr = norm3(Fr.X, Fr.Y, Fr.Z);
    mag_oracle(F, Nmax, Mmax, t, seg, Fr.X, Fr.Y, Fr.Z, B, Bt);
    LD be[3], bte[3]; to_enu(Fr, B.g, be); to_enu(Fr, Bt.g, bte);
    double Bx, By, Bz, Bxt, Byt, Bzt; (*mm)(t, lat, lon, h, Bx, By, Bz, Bxt, Byt, Bzt);
    double Cx, Cy, Cz; (*mm)(t, lat, lon, h, Cx, Cy, Cz);
    LD sb = B.S1 + rr * B.S2, sbt = Bt.S1 + rr * Bt.S2;
    long long dbet = U(norm3(Bxt - bte[0], Byt - bte[1], Bzt - bte[2]), sbt);
    if (knot) { DefOut B2, Bt2; mag_oracle(F, Nmax, Mmax, t, seg2, Fr.X, Fr.Y, Fr.Z, B2, Bt2); LD b2[3]; to_enu(Fr, Bt2.g, b2);
      dbet = min(dbet, U(norm3(Bxt - b2[0], Byt - b2[1], Bzt - b2[2]), Bt2.S1 + rr * Bt2.S2)); s1k = B2.S1; s2k = B2.S2; }
    sb = fmaxl(sb, s1k + rr * s2k);
    r.i("dbe", U(norm3(Bx - be[0], By - be[1], Bz - be[2]), sb)).i("dbet", dbet).b("b3eq", vt::bits(Cx) == vt::bits(Bx) && vt::bits(Cy) == vt::bits(By) && vt::bits(Cz) == vt::bits(Bz));
    // circle of latitude
    MagneticCircle mc = mm->Circle(t, lat, h);
    double Dx, Dy, Dz, Dxt, Dyt, Dzt; mc(lon, Dx, Dy, Dz, Dxt, Dyt, Dzt);
    double Ex, Ey, Ez; mc(lon, Ex, Ey, Ez);
    double GX, GY, GZ, GXt, GYt, GZt; mc.FieldGeocentric(lon, GX, GY, GZ, GXt, GYt, GZt);
    r.i("dc", U(norm3((LD) Dx - Bx, (LD) Dy - By, (LD) Dz - Bz), sb)).i("dct", U(norm3((LD) Dxt - Bxt, (LD) Dyt - Byt, (LD) Dzt - Bzt), sbt));
    r.i("dcg", U(norm3((LD) GX - B.g[0], (LD) GY - B.g[1], (LD) GZ - B.g[2]), sb)).i("dcgt", U(norm3((LD) GXt - Bt.g[0], (LD) GYt - Bt.g[1], (LD) GZt - Bt.g[2]), sbt));
    r.b("c3eq", vt::bits(Ex) == vt::bits(Dx) && vt::bits(Ey) == vt::bits(Dy) && vt::bits(Ez) == vt::bits(Dz));
    r.b("cinsp", mc.Init() && mc.Flattening() == fe && mc.Latitude() == lat && mc.Height() == h && mc.Time() == t);
    if (ip == 0) {   // separate record: the circle's ellipsoid radius is documented as inherited from the model object
      Rec q; q.str("e", "mcinsp").b("aeq", mc.EquatorialRadius() == mm->EquatorialRadius()).str("kf", ae != F.a ? "magcircle-radius" : "none"); q.emit();
    }
    // derived components from the returned field
    double Hh, Ff, Dd, Ii, Ht, Ft, Dt, It; MagneticModel::FieldComponents(Bx, By, Bz, Bxt, Byt, Bzt, Hh, Ff, Dd, Ii, Ht, Ft, Dt, It);
    double H4, F4, D4, I4; MagneticModel::FieldComponents(Bx, By, Bz, H4, F4, D4, I4);
    LD bx = Bx, by = By, bz = Bz, bxt = Bxt, byt = Byt, bzt = Bzt, hr = hypotl(bx, by), fr = hypotl(hr, bz), deg = 180 / PI_L;
    LD htr = (bx * bxt + by * byt) / hr, hts = (fabsl(bx * bxt) + fabsl(by * byt)) / hr;
    r.i("fH", U(fabsl(Hh - hr), hr)).i("fF", U(fabsl(Ff - fr), fr));
    r.i("fD", U(fabsl(remainderl((LD) Dd - atan2l(bx, by) * deg, 360.0L)), 180.0L)).i("fI", U(fabsl((LD) Ii - atan2l(-bz, hr) * deg), 90.0L));
    r.i("fHt", U(fabsl(Ht - htr), hts)).i("fFt", U(fabsl(Ft - (hr * htr + bz * bzt) / fr), (hr * hts + fabsl(bz * bzt)) / fr));
    r.i("fDt", U(fabsl(Dt - (by * bxt - bx * byt) / (hr * hr) * deg), (fabsl(by * bxt) + fabsl(bx * byt)) / (hr * hr) * deg));
    r.i("fIt", U(fabsl(It - (bz * htr - hr * bzt) / (fr * fr) * deg), (fabsl(bz) * hts + fabsl(hr * bzt)) / (fr * fr) * deg));
    r.b("f4eq", vt::bits(H4) == vt::bits(Hh) && vt::bits(F4) == vt::bits(Ff) && vt::bits(D4) == vt::bits(Dd) && vt::bits(I4) == vt::bits(Ii));
    r.b("hz", hr == 0 || fr == 0).b("rng", Hh >= 0 && Ff >= Hh && fabs(Dd) <= 180 && fabs(Ii) <= 90);
    if (getenv("VDBG")) { char b[400]; snprintf(b, 400, "\"%g %g %g %g %g %g | %g %g %g %g t=%.17g lat=%.17g lon=%.17g h=%.17g\"", Bx, By, Bz, Bxt, Byt, Bzt, Hh, Ff, Dd, Ii, t, lat, lon, h); r.raw("dbg_", b); }
    r.str("kf", "none");
    r.emit();
  }
}

// -------------------------------------------------------------------------------------------------
// law record "grv": random synthetic gravity model
static void rec_grv(vt::Rng& g, int maxdeg, int npts) {
  GravFile F; F.name = "g" + to_string(++g_serial % 8);
  F.full = g.range(0, 3) != 0;
  int fk = (int) g.range(0, 5);
  if (fk == 1) F.f = g.uni(1 / 400.0, 1 / 200.0); if (fk == 2) F.f = 0; if (fk == 3) F.f = -g.uni(1 / 400.0, 1 / 200.0);
  if (g.range(0, 3) == 0) { F.aref = g.uni(6.3e6, 6.4e6); F.amodel = F.aref + g.uni(-10, 10); }
  if (g.range(0, 3) == 0) F.gmmodel = F.gmref;
  if (g.range(0, 5) == 0) F.omega = 0;
  if (g.range(0, 3) == 0) { F.usej2 = true; F.j2 = NormalGravity::FlatteningToJ2(F.aref, F.gmref, F.omega, F.f); }
  NormalGravity ref0(F.aref, F.gmref, F.omega, F.usej2 ? F.j2 : F.f, !F.usej2);
  int N = (int) g.range(2, maxdeg); if (g.range(0, 2)) N = max(N, min(maxdeg, 24)); int M = g.range(0, 2) ? N : (int) g.range(0, N);
  F.grav.alloc(N, M); fill_random(g, F.grav, (int) g.range(0, 2));
  double amp = g.coin() ? 1e-6 : 1e-3;
  for (auto& v : F.grav.C) v *= amp; for (auto& v : F.grav.S) v *= amp;
  F.grav.setc(0, 0, 0.0);
  bool nearnormal = g.range(0, 2) != 0;
  if (nearnormal) for (int n = 2; n <= N; n += 2) {        // even zonals close to those of the reference ellipsoid
    double jn = ref0.DynamicalFormFactor(n); if (!std::isfinite(jn)) continue;
    double cn = -jn * F.gmref / F.gmmodel * pow(F.aref / F.amodel, n) / (F.full ? sqrt(2.0 * n + 1) : 1.0);
    F.grav.setc(n, 0, cn + F.grav.c(n, 0) * 1e-3);
  }
  int Nc = (int) g.range(-1, max(2, maxdeg / 2)), Mc = Nc < 0 ? -1 : (g.coin() ? Nc : (int) g.range(0, Nc));
  F.corr.alloc(Nc, Mc); fill_random(g, F.corr, 1);
  F.zeta0 = g.coin() ? 0.0 : g.uni(-1, 1); F.corrmult = g.coin() ? 1.0 : 0.01;
  draw_omit(g, F.omit, {{"Normalization", F.full}, {"HeightOffset", F.zeta0 == 0}, {"CorrectionMultiplier", F.corrmult == 1},
                        {"ByteOrder", true}, {"Name", true}, {"Description", true}, {"ReleaseDate", true}});
  F.deco = g.range(0, 2) == 0;
  F.write();
  // truncation request: none, degree (and order), the order only (Nmax < 0 <= Mmax), other negative values (= not given), Mmax > Nmax (exception)
  int Nmax = -1, Mmax = -1;
  { int tk = (int) g.range(0, 11);
    if (tk < 3) { Nmax = (int) g.range(0, maxdeg); Mmax = g.coin() ? -1 : (int) g.range(0, Nmax); }
    else if (tk == 3) { Mmax = (int) g.range(0, maxdeg); Nmax = g.coin() ? -1 : -(int) g.range(2, 9); }
    else if (tk == 4) { Nmax = (int) g.range(0, maxdeg); Mmax = Nmax + (int) g.range(1, 3); }
    else if (tk == 5) { Nmax = -(int) g.range(1, 9); Mmax = -(int) g.range(1, 9); } }
  int alist = (int) g.range(0, 1) == 0 ? 4 : (Mmax != -1 ? 4 : Nmax != -1 ? 3 : 2);      // trailing default arguments left out
  unique_ptr<GravityModel> gm; string res = guarded([&] {
    gm.reset(alist == 4 ? new GravityModel(F.name, g_dir, Nmax, Mmax) : alist == 3 ? new GravityModel(F.name, g_dir, Nmax) : new GravityModel(F.name, g_dir)); });
  int nl, ml; eff_limits(Nmax, Mmax, nl, ml);
  int nx = min(N, nl), mx = min(M, ml), ncx = min(Nc, nl), mcx = min(Mc, ml);
  if (res != "ok") { Rec r; r.str("e", "grvV").str("out", res).i("N", N).i("M", M).i("Nmax", Nmax).i("Mmax", Mmax).str("kf", "none"); r.emit(); return; }
  const NormalGravity& ref = gm->ReferenceEllipsoid();
  bool meta = gm->MassConstant() == F.gmmodel
    && gm->ReferenceMassConstant() == F.gmref && gm->AngularVelocity() == F.omega && gm->EquatorialRadius() == F.aref
    && (F.usej2 ? ref.DynamicalFormFactor() == F.j2 : gm->Flattening() == F.f) && gm->GravityFile() == g_dir + "/" + F.name + ".egm";
  LD fl = gm->Flattening(), ka = (LD) F.gmmodel / F.amodel, kdiff = (LD) F.gmmodel - (LD) F.gmref;
  auto cf = [&](int n, int m) { Term t; t.C = (n == 0 && m == 0) ? 1.0L : (LD) F.grav.c(n, m); t.S = F.grav.s(n, m); t.mag = hypotl(t.C, t.S); return t; };
  auto cfnz = [&](int n, int m) { Term t = cf(n, m); if (n == 0) { t.C = 0; t.mag = 0; } return t; };
  // the disturbing series: model coefficients minus the zonal coefficients of the reference ellipsoid (J_n of the library's NormalGravity,
  // converted to the model's GM, radius and normalisation), even degrees 2 .. model degree
  vector<LD> znorm(nx + 1, 0.0L);
  for (int n = 2; n <= nx; n += 2) znorm[n] = -(LD) ref.DynamicalFormFactor(n) * ((LD) F.gmref / (LD) F.gmmodel) * powl((LD) F.aref / (LD) F.amodel, n) / (F.full ? sqrtl(2.0L * n + 1) : 1.0L);
  auto cfT = [&](int n, int m) { Term t = cfnz(n, m); if (m == 0 && n <= nx) { t.C -= znorm[n]; t.mag = hypotl(fabsl((LD) F.grav.c(n, 0)) + fabsl(znorm[n]), 0.0L); if (n == 0) t.mag = 0; } return t; };
  auto cc = [&](int n, int m) { Term t; t.C = (LD) F.corr.c(n, m) + ((n == 0 && m == 0) ? (LD) F.zeta0 / F.corrmult : 0.0L); t.S = F.corr.s(n, m);
                                t.mag = hypotl(fabsl((LD) F.corr.c(n, m)) + ((n == 0 && m == 0) ? fabsl((LD) F.zeta0 / F.corrmult) : 0.0L), fabsl(t.S)); return t; };
  const char* fcls = F.f == 0 ? "sphere" : F.f < 0 ? "prolate" : "oblate";
  ncx = max(ncx, 0); mcx = max(mcx, 0);       // the height offset is a degree-0 term of the correction sum
  // known-finding labels, functions of the INPUTS only
  auto join = [](std::initializer_list<const char*> ls) { string o; for (const char* x : ls) if (x) { if (!o.empty()) o += "+"; o += x; } return o.empty() ? string("none") : o; };
  const char* lsph = F.f == 0 ? "grv-sphere-zonal-nan" : nullptr;
  string kfT = join({lsph, !F.full ? "grv-schmidt-zonal" : nullptr, nx < 20 ? "grv-lowdeg-zonal" : nullptr});
  string kfN = join({lsph});
  string kfZ = join({lsph, !F.full ? "grv-schmidt-zonal" : nullptr});
  string kfG = join({lsph, F.gmmodel != F.gmref ? "grv-tgrad-gm" : nullptr});
  for (int ip = 0; ip < npts; ++ip) {
    double lat = g.range(0, 7) == 0 ? (g.coin() ? 90.0 : -90.0) : asin(g.uni(-1, 1)) * 180 / (double) PI_L, lon = g.uni(-360, 360);
    double h = g.range(0, 2) == 0 ? 0.0 : g.uni(-5e3, 1e6);
    auto head = [&](Rec& r, const char* e) { r.str("e", e).b("full", F.full).str("fcls", fcls).b("usej2", F.usej2).b("near", nearnormal).i("nx", nx).b("h0", h == 0).b("gmeq", F.gmmodel == F.gmref); };
    Rec r; head(r, "grvV"); r.str("out", "ok").i("N", N).i("M", M).i("Nc", Nc).i("Mc", Mc).i("Nmax", Nmax).i("Mmax", Mmax).i("deg", gm->Degree()).i("ord", gm->Order()).b("meta", meta);
    r.raw("omit", omit_json(F.omit)).b("deco", F.deco).b("z0", F.zeta0 == 0).b("cm1", F.corrmult == 1).str("desc", gm->Description()).str("date", gm->DateTime()).str("name", gm->GravityModelName()).str("fname", F.name);
    double X, Y, Z; ref.Earth().Forward(lat, lon, h, X, Y, Z);
    LD R = norm3(X, Y, Z), p2 = (LD) X * X + (LD) Y * Y, om2 = (LD) F.omega * F.omega;
    DefOut d = defsum(F.full, nx, mx, (LD) F.amodel, X, Y, Z, cf), dz = defsum(F.full, nx, mx, (LD) F.amodel, X, Y, Z, cfnz);
    LD zn = (LD) F.gmref / R * fabsl((LD) ref.DynamicalFormFactor()) * ((LD) F.aref / R) * ((LD) F.aref / R);   // size of the normal zonal part of T
    LD sT = ka * dz.S0 + fabsl(kdiff) / R + ka * EPS * d.S0 + 2 * zn, sD = ka * dz.S1 + fabsl(kdiff) / (R * R) + 6 * zn / R;
    LD sV = ka * (d.S0 + R * d.S1) + om2 * p2, sVg = ka * (d.S1 + R * d.S2) + om2 * sqrtl(p2);
    // V
    double GX, GY, GZ, Vl = gm->V(X, Y, Z, GX, GY, GZ);
    r.i("dV", U(fabsl(Vl - ka * d.V), ka * d.S0)).i("dVg", U(norm3(GX - ka * d.g[0], GY - ka * d.g[1], GZ - ka * d.g[2]), ka * d.S1));
    // Phi, W
    double fX, fY, Pl = gm->Phi(X, Y, fX, fY);
    r.i("dP", U(fabsl(Pl - om2 * p2 / 2), om2 * p2 / 2)).i("dPg", U(hypotl(fX - om2 * X, fY - om2 * Y), om2 * sqrtl(p2)));
    double gX, gY, gZ, Wl = gm->W(X, Y, Z, gX, gY, gZ);
    r.i("dW", U(fabsl((LD) Wl - ((LD) Vl + (LD) Pl)), fabsl((LD) Vl) + fabsl((LD) Pl)));
    r.i("dWg", U(norm3((LD) gX - ((LD) GX + fX), (LD) gY - ((LD) GY + fY), (LD) gZ - GZ), norm3(GX, GY, GZ) + hypotl(fX, fY)));
    double uX, uY, uZ, Ul = gm->U(X, Y, Z, uX, uY, uZ), vX, vY, vZ, Ur = ref.U(X, Y, Z, vX, vY, vZ);
    r.b("ueq", vt::bits(Ul) == vt::bits(Ur) && vt::bits(uX) == vt::bits(vX) && vt::bits(uY) == vt::bits(vY) && vt::bits(uZ) == vt::bits(vZ));
    // geodetic interface and circle of latitude for V, W
    Frame Fr = frame(F.aref, fl, lat, lon, h);
    double gx, gy, gz, Wg = gm->Gravity(lat, lon, h, gx, gy, gz);
    LD gw[3] = {gX, gY, gZ}, ge[3]; to_enu(Fr, gw, ge);
    r.i("dGW", U(fabsl((LD) Wg - Wl), fabsl((LD) Wl))).i("dG", U(norm3(gx - ge[0], gy - ge[1], gz - ge[2]), norm3(gX, gY, gZ)));
    GravityCircle gc = gm->Circle(lat, h);
    double cX, cY, cZ, cV = gc.V(lon, cX, cY, cZ);
    r.i("cV", U(fabsl((LD) cV - Vl), sV)).i("cVg", U(norm3((LD) cX - GX, (LD) cY - GY, (LD) cZ - GZ), sVg));
    double cW = gc.W(lon, cX, cY, cZ);
    r.i("cW", U(fabsl((LD) cW - Wl), sV)).i("cWg", U(norm3((LD) cX - gX, (LD) cY - gY, (LD) cZ - gZ), sVg));
    double cGW = gc.Gravity(lon, cX, cY, cZ);
    r.i("cGW", U(fabsl((LD) cGW - Wg), sV)).i("cG", U(norm3((LD) cX - gx, (LD) cY - gy, (LD) cZ - gz), sVg));
    r.b("cinsp", gc.Init() && gc.EquatorialRadius() == F.aref && gc.Flattening() == gm->Flattening() && gc.Latitude() == lat && gc.Height() == h);
    r.str("kf", "none"); r.emit();

    // ---- T = W - U and its gradient (value-only T for the potential; the gradient versions' return value is in grvG)
    Rec q; head(q, "grvT");
    double tX, tY, tZ, Tl = gm->T(X, Y, Z, tX, tY, tZ), T1 = gm->T(X, Y, Z);
    q.i("dT", U(fabsl((LD) T1 - ((LD) Wl - (LD) Ul)), fabsl((LD) Wl) + fabsl((LD) Ul) + sT));
    q.i("dTg", U(norm3((LD) tX - ((LD) gX - uX), (LD) tY - ((LD) gY - uY), (LD) tZ - ((LD) gZ - uZ)), norm3(gX, gY, gZ) + norm3(uX, uY, uZ) + sD));
    q.str("kf", kfT); q.emit();

    // ---- what every model owes, also where T = W - U is excused (low degree): T and its gradient equal the disturbing series
    // (model minus normal zonal coefficients up to the model degree, plus the (GMmodel - GMref)/R term); rotation; circle = point
    Rec zr; head(zr, "grvZ"); zr.i("Nc", Nc);
    DefOut dt = defsum(F.full, nx, mx, (LD) F.amodel, X, Y, Z, cfT);
    LD sTz = ka * dt.S0 + fabsl(kdiff) / R + ka * EPS * d.S0, sDz = ka * dt.S1 + fabsl(kdiff) / (R * R);
    { LD Tz = ka * dt.V + kdiff / R, gzv[3] = {ka * dt.g[0] - kdiff * X / (R * R * R), ka * dt.g[1] - kdiff * Y / (R * R * R), ka * dt.g[2] - kdiff * Z / (R * R * R)};
      zr.i("dTz", U(fabsl((LD) T1 - Tz), sTz)).i("dTgz", U(norm3((LD) tX - gzv[0], (LD) tY - gzv[1], (LD) tZ - gzv[2]), sDz)); }
    double ex, ey, ez, Td = gm->Disturbance(lat, lon, h, ex, ey, ez);
    LD tw[3] = {tX, tY, tZ}, te[3]; to_enu(Fr, tw, te);
    zr.i("dD", U(norm3(ex - te[0], ey - te[1], ez - te[2]), sD));
    LD sTc = sT + R * sD, sDc = sD + R * (ka * dz.S2 + 2 * fabsl(kdiff) / (R * R * R) + 24 * zn / (R * R));
    double cT = gc.T(lon, cX, cY, cZ), cT1 = gc.T(lon);
    zr.i("cT", U(fabsl((LD) cT - T1), sTc)).i("cT1", U(fabsl((LD) cT1 - T1), sTc)).i("cTg", U(norm3((LD) cX - tX, (LD) cY - tY, (LD) cZ - tZ), sDc));
    double cDT = gc.Disturbance(lon, cX, cY, cZ);
    zr.i("cDT", U(fabsl((LD) cDT - T1), sTc)).i("cD", U(norm3((LD) cX - ex, (LD) cY - ey, (LD) cZ - ez), sDc));

    // ---- the potential returned together with the gradient equals the potential returned alone
    Rec w; head(w, "grvG");
    w.i("dTv", U(fabsl((LD) Tl - (LD) T1), sT)).i("dDT", U(fabsl((LD) Td - (LD) T1), sT));
    w.str("kf", kfG); w.emit();

    // ---- geoid height and spherical anomaly
    Rec n; head(n, "grvN"); n.i("Nc", Nc);
    double Dg, xi, eta; gm->SphericalAnomaly(lat, lon, h, Dg, xi, eta);
    LD gam = norm3(uX, uY, uZ), deg = 180 / PI_L;
    {
      LD Tp = (LD) T1 - kdiff / R, dp[3] = {tX + kdiff * X / (R * R * R), tY + kdiff * Y / (R * R * R), tZ + kdiff * Z / (R * R * R)};
      LD P = sqrtl(p2), cl = P > 0 ? X / P : 1, sl = P > 0 ? Y / P : 0;
      if (P == 0) { LD s2, c2; sincosdl(lon, s2, c2); cl = c2; sl = s2; }
      LD st = Z / R, ct = P / R;
      LD de = -sl * dp[0] + cl * dp[1], dn = -st * cl * dp[0] - st * sl * dp[1] + ct * dp[2], dr = ct * cl * dp[0] + ct * sl * dp[1] + st * dp[2];
      if (getenv("VDBG")) fprintf(stderr, "ref Dg=%.10Lg xi=%.10Lg eta=%.10Lg sD=%Lg sT=%Lg R=%Lg\n", -dr - 2 * Tp / R, -dn / gam * deg, -de / gam * deg, sD, sT, R);
      n.i("aD", U(fabsl(Dg - (-dr - 2 * Tp / R)), sD + 2 * sT / R)).i("aX", U(fabsl(xi - (-dn / gam * deg)), sD / gam * deg)).i("aE", U(fabsl(eta - (-de / gam * deg)), sD / gam * deg));
    }
    double X0, Y0, Z0; ref.Earth().Forward(lat, lon, 0, X0, Y0, Z0);
    LD R0 = norm3(X0, Y0, Z0);
    double Ng = gm->GeoidHeight(lat, lon), T0 = gm->T(X0, Y0, Z0), gam0 = ref.SurfaceGravity(lat);
    DefOut dc = defsum(F.full, ncx, mcx, 1.0L, X0 / R0, Y0 / R0, Z0 / R0, cc);
    DefOut d0 = defsum(F.full, nx, mx, (LD) F.amodel, X0, Y0, Z0, cfnz), d00 = defsum(F.full, nx, mx, (LD) F.amodel, X0, Y0, Z0, cf);
    LD zn0 = (LD) F.gmref / R0 * fabsl((LD) ref.DynamicalFormFactor()) * ((LD) F.aref / R0) * ((LD) F.aref / R0);
    LD sT0 = ka * d0.S0 + fabsl(kdiff) / R0 + ka * EPS * d00.S0 + 2 * zn0, sN = sT0 / gam0 + (LD) F.corrmult * dc.S0;
    LD Nexp = ((LD) T0 - kdiff / R0) / gam0 + (LD) F.corrmult * dc.V;
    n.i("dN", U(fabsl(Ng - Nexp), sN));
    { DefOut dt0 = defsum(F.full, nx, mx, (LD) F.amodel, X0, Y0, Z0, cfT);      // geoid height from the disturbing series itself (not from the library's T)
      zr.i("dNz", U(fabsl(Ng - (ka * dt0.V / gam0 + (LD) F.corrmult * dc.V)), (ka * dt0.S0 + ka * EPS * d00.S0) / gam0 + (LD) F.corrmult * dc.S0)); }
    double cDg, cxi, ceta; gc.SphericalAnomaly(lon, cDg, cxi, ceta);
    n.i("cA", max(U(fabsl((LD) cDg - Dg), sDc + 2 * sTc / R), max(U(fabsl((LD) cxi - xi), sDc / gam * deg), U(fabsl((LD) ceta - eta), sDc / gam * deg))));
    double cN = gc.GeoidHeight(lon);
    if (getenv("VDBG")) { char b[600]; snprintf(b, 600, "\"Dg=%.10g xi=%.10g eta=%.10g cDg=%.10g cxi=%.10g ceta=%.10g T1=%.10g Tl=%.10g t=(%g %g %g) gam=%.10g lat=%.17g lon=%.17g h=%.17g file=%s Nmax=%d Mmax=%d\"", Dg, xi, eta, cDg, cxi, ceta, T1, Tl, tX, tY, tZ, (double) gam, lat, lon, h, F.name.c_str(), Nmax, Mmax); n.raw("dbg_", b); }
    n.b("cNnan", std::isnan(cN)).i("cN", h == 0 ? U(fabsl((LD) cN - Ng), sN + R0 * ((ka * d0.S1 + 6 * zn0 / R0) / gam0 + (LD) F.corrmult * dc.S1)) : 0);
    n.str("kf", kfN); n.emit();
    zr.str("kf", kfZ); zr.emit();

    // ---- a circle created with a capability request: allowed functions agree bit for bit with the circle that has ALL, the others return NaNs
    { int req = (int) g.range(0, 33); GravityCircle gs = gm->Circle(lat, h, caps_of(req));
      Rec c; c.str("e", "grvC").i("req", req).b("h0", h == 0).i("caps", gs.Capabilities());
      auto cmp = [&](const char* fn, int nout, std::function<void(const GravityCircle&, double*)> call) {
        double a[4] = {FS[0], FS[1], FS[2], FS[3]}, b[4] = {FS[0], FS[1], FS[2], FS[3]}; call(gs, a); call(gc, b);
        bool eq = true, nan = true; for (int i = 0; i < nout; ++i) { eq = eq && vt::bits(a[i]) == vt::bits(b[i]); nan = nan && std::isnan(a[i]); }
        c.b((string(fn) + "_eq").c_str(), eq).b((string(fn) + "_nan").c_str(), nan); };
      cmp("gravity", 4, [&](const GravityCircle& k, double* o) { o[0] = k.Gravity(lon, o[1], o[2], o[3]); });
      cmp("w", 4, [&](const GravityCircle& k, double* o) { o[0] = k.W(lon, o[1], o[2], o[3]); });
      cmp("v", 4, [&](const GravityCircle& k, double* o) { o[0] = k.V(lon, o[1], o[2], o[3]); });
      cmp("disturbance", 4, [&](const GravityCircle& k, double* o) { o[0] = k.Disturbance(lon, o[1], o[2], o[3]); });
      cmp("tgrad", 4, [&](const GravityCircle& k, double* o) { o[0] = k.T(lon, o[1], o[2], o[3]); });
      cmp("t", 1, [&](const GravityCircle& k, double* o) { o[0] = k.T(lon); });
      cmp("anomaly", 3, [&](const GravityCircle& k, double* o) { k.SphericalAnomaly(lon, o[0], o[1], o[2]); });
      cmp("geoid", 1, [&](const GravityCircle& k, double* o) { o[0] = k.GeoidHeight(lon); });
      c.str("kf", "none"); c.emit(); }
  }
}

// -------------------------------------------------------------------------------------------------
// normal gravity: closed formulas of the documentation page "Normal gravity" in long double
static LD Qser(LD x) {     // Q as a function of x = z^2 (x > -1); series for small |x|, closed forms otherwise
  if (fabsl(x) < 0.25L) { LD s = 0, xp = 1; for (int k = 1; k < 80; ++k) { s += ((k & 1) ? 1 : -1) * 2.0L * k * xp / ((2 * k + 1.0L) * (2 * k + 3.0L)); xp *= x; } return s; }
  if (x > 0) { LD z = sqrtl(x); return ((1 + 3 / x) * atanl(z) - 3 / z) / (2 * z * x); }
  LD y = -x, z = sqrtl(y);   // z^2 = -y: atan(z)/z -> atanh(sqrt y)/sqrt y
  return ((1 - 3 / y) * atanhl(z) / z + 3 / y) / (2 * (-y));
}
static LD Hser(LD x) {
  if (fabsl(x) < 0.25L) { LD s = 0, xp = 1; for (int k = 2; k < 80; ++k) { s += ((k & 1) ? -1 : 1) * 6.0L * xp / ((2 * k - 1.0L) * (2 * k + 1.0L)); xp *= x; } return s; }
  LD az = x > 0 ? atanl(sqrtl(x)) / sqrtl(x) : atanhl(sqrtl(-x)) / sqrtl(-x);
  return (3 * (1 + x) * (1 - az) - x) / (x * x);
}
struct NGRef { LD a, b, GM, om, E2; };   // E2 = a^2 - b^2 (signed)
static LD ng_U(const NGRef& P, LD X, LD Y, LD Z, bool rot) {
  LD R2 = X * X + Y * Y, r2 = R2 + Z * Z, E2 = P.E2, om2 = P.om * P.om;
  LD Q0 = Qser(E2 / (P.b * P.b));
  LD Um, Uq, sb2;
  if (E2 == 0) { LD r = sqrtl(r2); Um = P.GM / r; sb2 = Z * Z / r2; Uq = om2 / 2 * P.a * P.a * P.b * P.b * P.b / (r2 * r) * (sb2 - 1 / 3.0L); }
  else if (E2 > 0) {
    LD q = r2 - E2, u2 = (q + sqrtl(q * q + 4 * E2 * Z * Z)) / 2, u = sqrtl(u2), E = sqrtl(E2);
    sb2 = Z * Z / u2; Um = P.GM / E * atanl(E / u);
    Uq = om2 / 2 * P.a * P.a * P.b * P.b * P.b / (u2 * u) * Qser(E2 / u2) / Q0 * (sb2 - 1 / 3.0L);
  } else {
    LD Ep2 = -E2, q = r2 - Ep2, up2 = (q + sqrtl(q * q + 4 * Ep2 * R2)) / 2, Ep = sqrtl(Ep2), u2 = up2 + Ep2;
    sb2 = Z * Z / u2; Um = P.GM / Ep * asinhl(Ep / sqrtl(up2));
    Uq = om2 / 2 * P.a * P.a * P.b * P.b * P.b / (u2 * sqrtl(u2)) * Qser(-Ep2 / u2) / Q0 * (sb2 - 1 / 3.0L);
  }
  return Um + Uq + (rot ? om2 / 2 * R2 : 0.0L);
}
// gradient of the closed formula by 4th-order central differences in long double
static void ng_grad(const NGRef& P, LD X, LD Y, LD Z, bool rot, LD g[3]) {
  LD r = norm3(X, Y, Z), h = r * 0x1p-13L, p[3] = {X, Y, Z};
  for (int i = 0; i < 3; ++i) {
    LD v[4]; int k = 0;
    for (LD s : {-2.0L, -1.0L, 1.0L, 2.0L}) { LD q[3] = {p[0], p[1], p[2]}; q[i] += s * h; v[k++] = ng_U(P, q[0], q[1], q[2], rot); }
    g[i] = (v[0] - 8 * v[1] + 8 * v[2] - v[3]) / (12 * h);
  }
}

// "A global instantiation of NormalGravity for the WGS84 / GRS80 ellipsoid": the singleton agrees with the object constructed from the
// documented constants of Constants.hpp (WGS84: a, GM, omega, f; GRS80: a, GM, omega, J2), inspectors and values bit for bit
static void rec_ngs(vt::Rng& g) {
  for (int k = 0; k < 2; ++k) {
    const NormalGravity& s = k == 0 ? NormalGravity::WGS84() : NormalGravity::GRS80();
    NormalGravity c = k == 0 ? NormalGravity(Constants::WGS84_a(), Constants::WGS84_GM(), Constants::WGS84_omega(), Constants::WGS84_f(), true)
                             : NormalGravity(Constants::GRS80_a(), Constants::GRS80_GM(), Constants::GRS80_omega(), Constants::GRS80_J2(), false);
    double lat = asin(g.uni(-1, 1)) * 180 / (double) PI_L, lon = g.uni(-180, 180), h = g.uni(-1e3, 1e6), X, Y, Z; c.Earth().Forward(lat, lon, h, X, Y, Z);
    double a1[4], a2[4]; a1[0] = s.U(X, Y, Z, a1[1], a1[2], a1[3]); a2[0] = c.U(X, Y, Z, a2[1], a2[2], a2[3]);
    bool ueq = true; for (int i = 0; i < 4; ++i) ueq = ueq && vt::bits(a1[i]) == vt::bits(a2[i]);
    Rec r; r.str("e", "ngs").str("which", k == 0 ? "WGS84" : "GRS80")
      .b("aeq", s.EquatorialRadius() == (k == 0 ? Constants::WGS84_a() : Constants::GRS80_a()))
      .b("gmeq", s.MassConstant() == (k == 0 ? Constants::WGS84_GM() : Constants::GRS80_GM()))
      .b("omeq", s.AngularVelocity() == (k == 0 ? Constants::WGS84_omega() : Constants::GRS80_omega()))
      .b("feq", k == 0 ? s.Flattening() == Constants::WGS84_f() : s.DynamicalFormFactor() == Constants::GRS80_J2())
      .b("ceq", vt::bits(s.Flattening()) == vt::bits(c.Flattening()) && vt::bits(s.DynamicalFormFactor()) == vt::bits(c.DynamicalFormFactor())
                && vt::bits(s.SurfacePotential()) == vt::bits(c.SurfacePotential()) && vt::bits(s.EquatorialGravity()) == vt::bits(c.EquatorialGravity())
                && vt::bits(s.PolarGravity()) == vt::bits(c.PolarGravity()) && vt::bits(s.SurfaceGravity(lat)) == vt::bits(c.SurfaceGravity(lat)))
      .b("ueq", ueq).str("kf", "none"); r.emit();
  }
}

static void rec_ng(vt::Rng& g) {
  double a = g.coin() ? 6378137.0 : g.uni(1, 1e7), GM = g.coin() ? 3986004.418e8 : g.uni(0.1, 10) * 3986004.418e8 * pow(a / 6378137.0, 3);
  double om = g.range(0, 5) == 0 ? 0.0 : 7292115e-11 * g.uni(0, 4);
  int fk = (int) g.range(0, 7); double f = 1 / 298.257223563;
  if (fk == 1) f = g.uni(0, 0.01); if (fk == 2) f = -g.uni(0, 0.01); if (fk == 3) f = g.uni(0.01, 0.5); if (fk == 4) f = -g.uni(0.01, 1.0);
  if (fk == 5) f = 0; if (fk == 6) f = (g.coin() ? 1 : -1) * pow(10.0, -g.uni(3, 12));
  bool viaJ2 = g.range(0, 3) == 0;
  double J2 = NormalGravity::FlatteningToJ2(a, GM, om, f);
  bool defgeo = !viaJ2 && g.coin();       // "geometricp if true (the default)": argument left out
  unique_ptr<NormalGravity> ng, ngf; string res = guarded([&] { ngf.reset(new NormalGravity(a, GM, om, f, true));
    ng.reset(viaJ2 ? new NormalGravity(a, GM, om, J2, false) : defgeo ? new NormalGravity(a, GM, om, f) : new NormalGravity(a, GM, om, f, true)); });
  const char* fcls = f == 0 ? "sphere" : f < 0 ? "prolate" : "oblate";
  Rec r; r.str("e", "ng").str("out", res).str("fcls", fcls).b("viaJ2", viaJ2).b("defgeo", defgeo).b("om0", om == 0).i("lf", f == 0 ? -99 : (int) floor(log10(fabs(f))));
  if (res != "ok") { r.str("kf", "none"); r.emit(); return; }
  LD fl = ng->Flattening();
  NGRef P; P.a = a; P.b = (LD) a * (1 - (LD) f); P.GM = GM; P.om = om; P.E2 = P.a * P.a * (LD) f * (2 - (LD) f);
  LD Ua = (LD) GM / a + (LD) om * om * a * a;            // potential scale
  // derived constants (documentation page: J2 = e^2/3 - 2 b^3 omega^2/(45 GM Q0); gamma_a, gamma_b; U0 = U on the ellipsoid)
  LD e2 = P.E2 / (P.a * P.a), Q0 = Qser(P.E2 / (P.b * P.b)), H0 = Hser(P.E2 / (P.b * P.b)), om2 = P.om * P.om;
  LD J2r = e2 / 3 - 2 * P.b * P.b * P.b * om2 / (45 * P.GM * Q0);
  LD gar = P.GM / (P.a * P.b) - om2 * P.a / 6 * H0 / Q0 - om2 * P.a, gbr = P.GM / (P.a * P.a) + om2 * P.b / 3 * H0 / Q0;
  LD J2s = fabsl(e2) / 3 + 2 * P.b * P.b * P.b * om2 / (45 * P.GM * Q0), gs = P.GM / (P.a * P.b) + om2 * P.a * (1 + fabsl(H0 / Q0));
  r.i("cJ2", U(fabsl(J2 - J2r), J2s)).i("cJ2o", U(fabsl(ng->DynamicalFormFactor() - J2r), J2s)).i("cJn2", U(fabsl(ng->DynamicalFormFactor(2) - ng->DynamicalFormFactor()), J2s));
  r.i("cf", U(fabsl(fl - (LD) f), viaJ2 ? fmaxl(fabsl((LD) f), J2s) : fabsl((LD) f)));
  r.i("cf2", U(fabsl(NormalGravity::J2ToFlattening(a, GM, om, J2) - (LD) f), fmaxl(fabsl((LD) f), J2s)));
  r.i("cge", U(fabsl(ng->EquatorialGravity() - gar), gs)).i("cgp", U(fabsl(ng->PolarGravity() - gbr), gs));
  r.i("cfs", U(fabsl(ng->GravityFlattening() - (gbr - gar) / gar), gs / fabsl(gar)));
  r.i("cU0", U(fabsl(ng->SurfacePotential() - ng_U(P, P.a, 0, 0, true)), Ua));
  r.b("insp", ng->Init() && ng->EquatorialRadius() == a && ng->MassConstant() == GM && ng->AngularVelocity() == om && (viaJ2 ? ng->DynamicalFormFactor() == J2 : ng->Flattening() == f)
      && ng->Earth().EquatorialRadius() == a && ng->Earth().Flattening() == ng->Flattening());
  // constructor from J2 == constructor from f
  r.i("jf", max(max(U(fabsl((LD) ng->SurfacePotential() - ngf->SurfacePotential()), Ua), U(fabsl((LD) ng->EquatorialGravity() - ngf->EquatorialGravity()), gs)),
                U(fabsl((LD) ng->PolarGravity() - ngf->PolarGravity()), gs)));
  // surface: potential constant, gravity normal, Somigliana
  double lat = g.range(0, 5) == 0 ? (g.coin() ? 90.0 : 0.0) * (g.coin() ? 1 : -1) : asin(g.uni(-1, 1)) * 180 / (double) PI_L, lon = g.uni(-360, 360);
  double X, Y, Z; ng->Earth().Forward(lat, lon, 0, X, Y, Z);
  double gX, gY, gZ, Us = ng->U(X, Y, Z, gX, gY, gZ);
  r.i("sU", U(fabsl((LD) Us - ng->SurfacePotential()), Ua));
  double gy0, gz0, Ug = ng->Gravity(lat, 0, gy0, gz0), sg = ng->SurfaceGravity(lat);
  LD sp, cp; sincosdl(lat, sp, cp);
  LD som = (P.a * gar * cp * cp + P.b * gbr * sp * sp) / sqrtl(P.a * P.a * cp * cp + P.b * P.b * sp * sp);
  r.i("sS", U(fabsl(sg - som), gs)).i("sG", U(hypotl((LD) gy0, (LD) gz0 + sg), gs)).i("sGU", U(fabsl((LD) Ug - Us), Ua));
  r.i("se", U(fabsl(ng->SurfaceGravity(0) - (LD) ng->EquatorialGravity()), gs)).i("sp", U(fabsl(ng->SurfaceGravity(g.coin() ? 90 : -90) - (LD) ng->PolarGravity()), gs));
  // exterior point: closed formula, gradient, Phi, V0 + Phi = U, geodetic interface, Laplace
  double h = pow(10.0, g.uni(0, 7.5)) * a / 6378137.0; if (g.range(0, 9) == 0) h = 0;
  double lat2 = g.range(0, 9) == 0 ? (g.coin() ? 90.0 : -90.0) : asin(g.uni(-1, 1)) * 180 / (double) PI_L;
  ng->Earth().Forward(lat2, lon, h, X, Y, Z);
  LD R = norm3(X, Y, Z), p = hypotl(X, Y);
  double vX, vY, vZ, V0 = ng->V0(X, Y, Z, vX, vY, vZ), fX, fY, Ph = ng->Phi(X, Y, fX, fY), Ue = ng->U(X, Y, Z, gX, gY, gZ);
  LD Ur = ng_U(P, X, Y, Z, true), V0r = ng_U(P, X, Y, Z, false), gr[3]; ng_grad(P, X, Y, Z, true, gr);
  LD Up = (LD) GM / R + om2 * (p * p + (LD) a * a * a * a * a / (R * R * R)), gp = (LD) GM / (R * R) + om2 * (p + (LD) a * a * a * a * a / (R * R * R * R));
  r.i("xU", U(fabsl(Ue - Ur), Up)).i("xV", U(fabsl(V0 - V0r), Up)).i("xg", U(norm3(gX - gr[0], gY - gr[1], gZ - gr[2]), gp));
  r.i("xP", U(fabsl(Ph - om2 * p * p / 2), om2 * p * p / 2)).i("xPg", U(hypotl(fX - om2 * X, fY - om2 * Y), om2 * p));
  r.i("xS", U(fabsl((LD) Ue - ((LD) V0 + Ph)), Up)).i("xSg", U(norm3((LD) gX - ((LD) vX + fX), (LD) gY - ((LD) vY + fY), (LD) gZ - vZ), gp));
  double gy, gz, U2 = ng->Gravity(lat2, h, gy, gz);
  Frame Fr = frame(a, fl, lat2, 0.0L, h);
  { double X2, Y2, Z2; ng->Earth().Forward(lat2, 0, h, X2, Y2, Z2); double wX, wY, wZ, U3 = ng->U(X2, Y2, Z2, wX, wY, wZ);
    LD gw[3] = {wX, wY, wZ}, ge[3]; to_enu(Fr, gw, ge);
    r.i("xG", U(norm3(ge[0], gy - ge[1], gz - ge[2]), gp)).i("xGU", U(fabsl((LD) U2 - U3), Up)); }
  // harmonic outside: divergence of the returned Gamma by central differences of the library's own gradient
  { LD hh = R * 0x1p-18L, div = 0, hmx = 0; double P0[3] = {X, Y, Z};
    for (int i = 0; i < 3; ++i) { double Pp[3] = {X, Y, Z}, Pm[3] = {X, Y, Z}; volatile double xp = P0[i] + (double) hh, xm = P0[i] - (double) hh; Pp[i] = xp; Pm[i] = xm;
      double a1[3], a2[3]; ng->V0(Pp[0], Pp[1], Pp[2], a1[0], a1[1], a1[2]); ng->V0(Pm[0], Pm[1], Pm[2], a2[0], a2[1], a2[2]);
      LD he = (LD) xp - (LD) xm; div += ((LD) a1[i] - (LD) a2[i]) / he; hmx = fmaxl(hmx, he / 2); }
    LD gsc = (LD) GM / (R * R) + om2 * (LD) a * a * a * a * a / (R * R * R * R);
    r.i("lap", U(fabsl(div), gsc / R)).i("lapT", U(hmx * hmx * gsc * 60 / (R * R * R), gsc / R)).i("lapR", (long long) ceill(R / hmx)); }
  // zonal harmonics: V0 = GM/r (1 - sum_n J_n (a/r)^n P_n(sin psi)) far from the ellipsoid
  { LD Rf = fmaxl(P.a, P.b) * (LD) g.uni(3, 10), psi = asinl((LD) g.uni(-1, 1)), Xf = Rf * cosl(psi), Zf = Rf * sinl(psi);
    double wX, wY, wZ, Vf = ng->V0((double) Xf, 0.0, (double) Zf, wX, wY, wZ);
    // the series starts at n = 0 with the library's J_0 (= -1: V0 -> GM/r); "J_n = 0 if n is odd" is logged as the largest |J_n| over odd n
    double J0 = ng->DynamicalFormFactor(0); LD jodd = 0; for (int n = 1; n <= 61; n += 2) jodd = fmaxl(jodd, fabsl((LD) ng->DynamicalFormFactor(n)));
    if (std::isnan(jodd)) jodd = 1;
    LD xx = (double) Xf, zz = (double) Zf, rf = hypotl(xx, zz), t = zz / rf, pm = 1, pc = t, sum = -(LD) J0, asum = fabsl((LD) J0), qq = P.a / rf, qn = qq; bool fin = std::isfinite(J0);
    for (int n = 2; n <= 60; ++n) { LD pn = ((2 * n - 1) * t * pc - (n - 1) * pm) / n; pm = pc; pc = pn; qn *= qq;
      if (n % 2 == 0) { double jn = ng->DynamicalFormFactor(n); if (!std::isfinite(jn)) fin = false; sum -= jn * qn * pn; asum += fabsl(jn * qn); } }
    Rec z; z.str("e", "ngz").str("fcls", fcls).b("viaJ2", viaJ2).b("jfin", fin).i("j0", U(fabsl((LD) J0 + 1), 1.0L)).i("jodd", U(jodd, 1.0L)).i("zV", U(fabsl(Vf - P.GM / rf * sum), fabsl(P.GM) / rf * asum + om2 * (LD) a * a * a * a * a / (rf * rf * rf)));
    z.str("kf", f == 0 ? "ng-sphere-jn-nan" : "none"); z.emit(); }
  r.str("kf", "none");
  r.emit();
}

// -------------------------------------------------------------------------------------------------
// replay of TLC-emitted vectors
static int I(const vector<string>& t, size_t k) { return atoi(t.at(k).c_str()); }
static long long code(int n, int m, int sine) { return 1 + 2 * (16 * n + m) + sine; }

// idx N M : documented storage layout through the public accessors of SphericalEngine::coeff
static void do_idx(const vector<string>& t) {
  int N = I(t, 1), M = I(t, 2);
  CS cs; cs.alloc(N, M);
  vector<long long> cl, sl, ix, cv, sv;
  { size_t k = 0; for (int m = 0; m <= M; ++m) for (int n = m; n <= N; ++n) { cs.C[k++] = (double) code(n, m, 0); cl.push_back(code(n, m, 0)); } }
  { size_t k = 0; for (int m = 1; m <= M; ++m) for (int n = m; n <= N; ++n) { cs.S[k++] = (double) code(n, m, 1); sl.push_back(code(n, m, 1)); } }
  string res = guarded([&] {
    SphericalEngine::coeff c(cs.C, cs.S, N, N, M);
    for (int m = 0; m <= M; ++m) for (int n = m; n <= N; ++n) { int k = c.index(n, m); ix.push_back(k); cv.push_back((long long) c.Cv(k)); if (m) sv.push_back((long long) c.Sv(k)); }
  });
  Rec r; r.str("e", "idx").i("N", N).i("M", M).str("out", res).i("csize", SphericalEngine::coeff::Csize(N, M)).i("ssize", SphericalEngine::coeff::Ssize(N, M))
    .li("cl", cl).li("sl", sl).li("ix", ix).li("cv", cv).li("sv", sv); r.emit();
}
// co N nmx mmx csz ssz : constructor contract of coeff
static void do_co(const vector<string>& t) {
  int N = I(t, 1), nmx = I(t, 2), mmx = I(t, 3), csz = I(t, 4), ssz = I(t, 5);
  vector<double> C(max(csz, 0), 1.0), S(max(ssz, 0), 1.0); int rn = -9, rx = -9, rm = -9;
  string res = guarded([&] { SphericalEngine::coeff c(C, S, N, nmx, mmx); rn = c.N(); rx = c.nmx(); rm = c.mmx(); });
  string res1 = "skip"; if (nmx == N && mmx == N) res1 = guarded([&] { SphericalEngine::coeff c(C, S, N); });
  Rec r; r.str("e", "co").i("N", N).i("nmx", nmx).i("mmx", mmx).i("csz", max(csz, 0)).i("ssz", max(ssz, 0)).str("out", res).str("out1", res1).i("rN", rn).i("rnmx", rx).i("rmmx", rm); r.emit();
}
// rd N0 M0 N M trunc : binary reader
static void do_rd(const vector<string>& t) {
  int N0 = I(t, 1), M0 = I(t, 2), N = I(t, 3), M = I(t, 4); bool tr = I(t, 5) != 0;
  string fn = g_dir + "/rd.cof";
  { ofstream f(fn.c_str(), ios::binary); put_i32(f, N0); put_i32(f, M0);
    if (N0 >= M0 && M0 >= 0) {
      for (int m = 0; m <= M0; ++m) for (int n = m; n <= N0; ++n) put_f64(f, (double) code(n, m, 0));
      for (int m = 1; m <= M0; ++m) for (int n = m; n <= N0; ++n) put_f64(f, (double) code(n, m, 1));
    }
    put_i32(f, 12345); }                                      // trailer: the stream position after the call must be here
  vector<double> C(3, -7.0), S(2, -7.0); int rN = N, rM = M, trailer = -1;
  string res = guarded([&] { ifstream f(fn.c_str(), ios::binary); SphericalEngine::coeff::readcoeffs(f, rN, rM, C, S, tr);
                             unsigned char b[4] = {0, 0, 0, 0}; f.read((char*) b, 4); if (f.good()) trailer = b[0] | (b[1] << 8) | (b[2] << 16) | (b[3] << 24); });
  vector<long long> c, s; if (res == "ok") { for (double v : C) c.push_back((long long) v); for (double v : S) s.push_back((long long) v); }
  Rec r; r.str("e", "rd").i("N0", N0).i("M0", M0).i("N", N).i("M", M).b("tr", tr).str("out", res).i("rN", rN).i("rM", rM).li("c", c).li("s", s).b("pos", trailer == 12345)
    .str("kf", tr && N == -1 && M == -1 && N0 >= 0 && M0 >= 0 && N0 >= M0 ? "rd-trunc-empty-pos" : "none"); r.emit();
}

// lattice numbers: v * 2^16 = k + e / 2^30
static void ke(vector<long long>& o, double v) {
  LD s = (LD) v * 65536.0L, k = nearbyintl(s);
  if (!(fabsl(k) < 2.0e9L)) { o.push_back(2000000001LL); o.push_back(0); return; }
  o.push_back((long long) k); o.push_back((long long) nearbyintl((s - k) * 1073741824.0L));
}
static const int AX[6][3] = {{1, 0, 0}, {0, 1, 0}, {-1, 0, 0}, {0, -1, 0}, {0, 0, 1}, {0, 0, -1}};
// a lattice coefficient vector c00 c10 c11 s11 c20 c30 c40 stored with layout degree N and order M; for full normalisation the
// Schmidt lattice coefficient c of degree n is written as c / sqrt(2n + 1)
static void lattice_set(CS& cs, int N, int M, const vector<string>& t, size_t k, bool fulln = false) {
  cs.alloc(N, N < 0 ? -1 : max(0, min(N, M)));
  if (N < 0) return;
  auto w = [&](int n, int v) { return fulln ? (double) ((LD) v / sqrtl(2.0L * n + 1)) : (double) v; };
  cs.setc(0, 0, w(0, I(t, k))); cs.setc(1, 0, w(1, I(t, k + 1))); cs.setc(1, 1, w(1, I(t, k + 2))); cs.sets(1, 1, w(1, I(t, k + 3)));
  cs.setc(2, 0, w(2, I(t, k + 4))); cs.setc(3, 0, w(3, I(t, k + 5))); cs.setc(4, 0, w(4, I(t, k + 6)));
}
// val L ja j pt ct norm wn asg  then L groups: tau N nmx mmx c[7]
static void do_val(const vector<string>& t) {
  Harm H; H.L = I(t, 1); int ja = I(t, 2), j = I(t, 3), pt = I(t, 4);
  const string ct = t.at(5), norm = t.at(6), wn = t.at(7); H.asg = I(t, 8) != 0;
  H.ct = ct == "simple" ? 1 : 0; H.defnorm = norm == "default"; H.full = norm == "default" || norm == "full";
  H.a = ldexp(1.0, ja); double r = ldexp(H.a, j);
  Rec q; q.str("e", "val").i("L", H.L).i("ja", ja).i("j", j).i("pt", pt).str("ct", ct).str("norm", norm).str("wn", wn).b("asg", H.asg);
  vector<long long> taus, Ns, nxs, mxs; string cs_json = "[";
  for (int l = 0; l < H.L; ++l) {
    size_t k = 9 + 11 * l;
    H.tau[l] = I(t, k); int N = I(t, k + 1); H.nmx[l] = I(t, k + 2); H.mmx[l] = I(t, k + 3);
    // storage: the columns 0..1 that carry lattice coefficients, more if the sum is asked to run further; full triangle for the simple form
    lattice_set(H.cs[l], N, H.ct == 1 ? N : max(1, H.mmx[l]), t, k + 4, wn == "full");
    taus.push_back(I(t, k)); Ns.push_back(N); nxs.push_back(H.nmx[l]); mxs.push_back(H.mmx[l]);
    cs_json += (l ? ",[" : "["); for (int i = 0; i < 7; ++i) { if (i) cs_json += ","; cs_json += t[k + 4 + i]; } cs_json += "]";
  }
  cs_json += "]";
  q.li("tau", taus).li("N", Ns).li("nmx", nxs).li("mmx", mxs).raw("c", cs_json);
  vector<long long> d, c, v, cn; string res = guarded([&] {
    H.build();
    double x = AX[pt - 1][0] * r, y = AX[pt - 1][1] * r, z = AX[pt - 1][2] * r, gx, gy, gz;
    double V = H.grad(x, y, z, gx, gy, gz); ke(d, V); ke(d, gx); ke(d, gy); ke(d, gz);
    ke(v, H.val(x, y, z));
    double p = pt <= 4 ? r : 0.0, lon = pt <= 4 ? 90.0 * (pt - 1) : 0.0;
    CircularEngine cg = H.circle(p, z, true), c0 = H.circle(p, z, false);
    double V2 = cg(lon, gx, gy, gz); ke(c, V2); ke(c, gx); ke(c, gy); ke(c, gz);
    ke(cn, c0(lon));
  });
  if (res != "ok") { d.clear(); c.clear(); v.clear(); cn.clear(); }
  // known-finding label, a function of the INPUTS only: general form, every set valid on its own, nmx_l <= nmx and mmx_l <= mmx, but a layout degree N_l > N
  bool lay = H.ct == 0 && H.L > 1;
  if (lay) { bool gt = false;
    for (int l = 0; l < H.L; ++l) { int N = (int) Ns[l]; if (!(N >= H.nmx[l] && ((H.nmx[l] >= H.mmx[l] && H.mmx[l] >= 0) || (H.nmx[l] == -1 && H.mmx[l] == -1)))) lay = false;
      if (l > 0) { if (H.nmx[l] > H.nmx[0] || H.mmx[l] > H.mmx[0]) lay = false; if (Ns[l] > Ns[0]) gt = true; } }
    lay = lay && gt; }
  q.str("out", res).li("d", d).li("v", v).li("cg", c).li("cn", cn).str("kf", lay ? "sh-general-layout-n1-gt-n" : "none"); q.emit();
}

// lattice metadata: the keywords that are present, as (key, value) tokens; echoed as a JSON object (numbers for the numeric keywords)
struct LMeta {
  vector<pair<string, string>> kv;
  bool has(const string& k) const { for (auto& e : kv) if (e.first == k) return true; return false; }
  string get(const string& k) const { for (auto& e : kv) if (e.first == k) return e.second; return ""; }
  static bool numeric(const string& k) { return k == "NumModels" || k == "NumConstants" || k == "DeltaEpoch" || k == "Radius" || k == "ModelRadius" || k == "HeightOffset" || k == "CorrectionMultiplier"; }
  size_t parse(const vector<string>& t, size_t k) { int n = I(t, k++); for (int i = 0; i < n; ++i) { kv.push_back({t.at(k), t.at(k + 1)}); k += 2; } return k; }
  string json() const { string o = "{"; for (size_t i = 0; i < kv.size(); ++i) { if (i) o += ","; o += "\"" + kv[i].first + "\":" + (numeric(kv[i].first) ? kv[i].second : "\"" + kv[i].second + "\""); } return o + "}"; }
  string key() const { string o; for (auto& e : kv) o += e.first + "=" + e.second + ";"; return o; }
  // the optional lines, exactly as listed (the keys named in skip are written by the caller)
  void lines(ostream& m, std::initializer_list<const char*> skip) const {
    for (auto& e : kv) { bool sk = false; for (const char* x : skip) if (e.first == x) sk = true; if (!sk) m << e.first << " " << e.second << "\n"; }
  }
};

// mag tq j pt Nmax Mmax wn deco nsets  then nsets groups: N M g10 g11 h11 g20 g30  then nmeta (key value)*
// the file NAME.wmm contains the required keywords (Radius 4, Epoch 2000, ID), the four advisory limits and the listed keywords
static map<string, unique_ptr<MagneticModel>> g_mag;
static map<string, string> g_magname;
static const int MPT[12][2] = {{0, 0}, {0, 90}, {0, 180}, {0, -90}, {90, 0}, {90, 90}, {90, 180}, {90, -90}, {-90, 0}, {-90, 90}, {-90, 180}, {-90, -90}};
static void do_mag(const vector<string>& t) {
  int tq = I(t, 1), j = I(t, 2), pt = I(t, 3), Nmax = I(t, 4), Mmax = I(t, 5); const string wn = t.at(6); bool deco = I(t, 7) != 0; int ns = I(t, 8);
  LMeta M; M.parse(t, 9 + 7 * (size_t) ns);
  string key; for (size_t k = 4; k < t.size(); ++k) key += t[k] + "_";
  string sets_json = "[";
  for (int i = 0; i < ns; ++i) { size_t k = 9 + 7 * i; sets_json += (i ? ",[" : "["); for (int u = 0; u < 7; ++u) { if (u) sets_json += ","; sets_json += t[k + u]; } sets_json += "]"; }
  sets_json += "]";
  Rec q; q.str("e", "mag").raw("meta", M.json()).b("deco", deco).raw("sets", sets_json).i("tq", tq).i("j", j).i("pt", pt).i("Nmax", Nmax).i("Mmax", Mmax).str("wn", wn);
  const double a = 4, ae = 8, t0 = 2000;
  vector<long long> b, c; int deg = -9, ord = -9; string desc, date, name, fname;
  string res = guarded([&] {
    auto it = g_mag.find(key);
    if (it == g_mag.end()) {
      fname = "lat" + to_string(g_mag.size()); g_magname[key] = fname;
      { std::ostringstream m;
        m << "WMMF-2\n# lattice magnetic model written by drv_harm\nRadius " << num(a) << "\nEpoch " << num(t0)
          << "\nMinTime 1990\nMaxTime 2030\nMinHeight -1000\nMaxHeight 600000\nID SYNTHMAG\n";
        M.lines(m, {"Radius"});
        ofstream f((g_dir + "/" + fname + ".wmm").c_str()); f << (deco ? decorate(m.str()) : m.str()); }
      { ofstream cf((g_dir + "/" + fname + ".wmm.cof").c_str(), ios::binary); cf.write("SYNTHMAG", 8);
        for (int i = 0; i < ns; ++i) { size_t k = 9 + 7 * i; CS s; int N = I(t, k), Mo = I(t, k + 1); s.alloc(N, Mo); bool fn = wn == "full";
          auto w = [&](int n, int v) { return fn ? (double) ((LD) v / sqrtl(2.0L * n + 1)) : (double) v; };
          s.setc(1, 0, w(1, I(t, k + 2))); s.setc(1, 1, w(1, I(t, k + 3))); s.sets(1, 1, w(1, I(t, k + 4))); s.setc(2, 0, w(2, I(t, k + 5))); s.setc(3, 0, w(3, I(t, k + 6)));
          put_set(cf, s); } }
      it = g_mag.emplace(key, nullptr).first;               // a model that cannot be loaded is remembered as such
      // "Nmax = -1, Mmax = -1" are the defaults: leave the trailing arguments out whenever they have the default value
      it->second.reset(Mmax != -1 ? new MagneticModel(fname, g_dir, Geocentric(ae, 0), Nmax, Mmax)
                       : Nmax != -1 ? new MagneticModel(fname, g_dir, Geocentric(ae, 0), Nmax) : new MagneticModel(fname, g_dir, Geocentric(ae, 0)));
    }
    fname = g_magname[key];
    if (!it->second) throw GeographicErr("model could not be loaded");
    const MagneticModel& mm = *it->second; deg = mm.Degree(); ord = mm.Order();
    desc = mm.Description(); date = mm.DateTime(); name = mm.MagneticModelName();
    double tt = t0 + tq / 4.0, r = ldexp(a, j), lat = MPT[pt - 1][0], lon = MPT[pt - 1][1], h = r - ae;
    double Bx, By, Bz, Bxt, Byt, Bzt; mm(tt, lat, lon, h, Bx, By, Bz, Bxt, Byt, Bzt);
    for (double v : {Bx, By, Bz, Bxt, Byt, Bzt}) ke(b, v);
    MagneticCircle mc = mm.Circle(tt, lat, h); mc(lon, Bx, By, Bz, Bxt, Byt, Bzt);
    for (double v : {Bx, By, Bz, Bxt, Byt, Bzt}) ke(c, v);
  });
  q.str("out", res).i("deg", deg).i("ord", ord).str("desc", desc).str("date", date).str("name", name).str("fname", fname).li("b", b).li("cb", c); q.emit();
}

// grv ja jr km kr refkey Nmax Mmax p j req wn deco  N M c[7]  Nc Mc c[7]  nmeta (key value)*
// gravity model over a non-rotating spherical reference body: ModelRadius 2^ja, ReferenceRadius 2^jr, ModelMass 2^km, ReferenceMass 2^kr,
// AngularVelocity 0, Flattening 0 | DynamicalFormFactor 0; point MPT[p] at R = 2^(ja + j); circle with the capability request req
static map<string, unique_ptr<GravityModel>> g_grv;
static map<string, string> g_grvname;
static void do_grv(const vector<string>& t) {
  int ja = I(t, 1), jr = I(t, 2), km = I(t, 3), kr = I(t, 4); const string refkey = t.at(5); int Nmax = I(t, 6), Mmax = I(t, 7), p = I(t, 8), j = I(t, 9), req = I(t, 10);
  const string wn = t.at(11); bool fn = wn == "full", deco = I(t, 12) != 0;
  LMeta M; M.parse(t, 31);
  string key; for (size_t k = 1; k < t.size(); ++k) if (k < 8 || k > 10) key += t[k] + "_";
  auto setjson = [&](size_t k) { string o = "[" + t[k] + "," + t[k + 1] + ",["; for (int u = 0; u < 7; ++u) { if (u) o += ","; o += t[k + 2 + u]; } return o + "]]"; };
  Rec q; q.str("e", "grv").raw("meta", M.json()).b("deco", deco).raw("par", "[" + t[1] + "," + t[2] + "," + t[3] + "," + t[4] + "]").str("refkey", refkey)
    .raw("gs", setjson(13)).raw("cs", setjson(22)).i("Nmax", Nmax).i("Mmax", Mmax).i("p", p).i("j", j).i("req", req).str("wn", wn);
  vector<long long> pv, pw, pu, pt1, ptg, gg, gd, gn, ga, gx, cv, cw, cg, cd, ct1, ctg, cn, ca, cx; int deg = -9, ord = -9; string desc, date, name, fname;
  bool insp = false;
  string res = guarded([&] {
    auto it = g_grv.find(key);
    if (it == g_grv.end()) {
      fname = "glat" + to_string(g_grv.size()); g_grvname[key] = fname;
      { std::ostringstream m;
        m << "EGMF-1\n# lattice gravity model written by drv_harm\nModelRadius " << num(ldexp(1.0, ja)) << "\nModelMass " << num(ldexp(1.0, km))
          << "\nAngularVelocity 0\nReferenceRadius " << num(ldexp(1.0, jr)) << "\nReferenceMass " << num(ldexp(1.0, kr)) << "\n" << refkey << " 0\nID SYNTHGRV\n";
        M.lines(m, {"ModelRadius"});
        ofstream f((g_dir + "/" + fname + ".egm").c_str()); f << (deco ? decorate(m.str()) : m.str()); }
      { ofstream cf((g_dir + "/" + fname + ".egm.cof").c_str(), ios::binary); cf.write("SYNTHGRV", 8);
        CS a, b; lattice_set(a, I(t, 13), I(t, 14), t, 15, fn); lattice_set(b, I(t, 22), I(t, 23), t, 24, fn); put_set(cf, a); put_set(cf, b); }
      it = g_grv.emplace(key, nullptr).first;
      // "Nmax = -1, Mmax = -1" are the defaults: leave the trailing arguments out whenever they have the default value
      it->second.reset(Mmax != -1 ? new GravityModel(fname, g_dir, Nmax, Mmax) : Nmax != -1 ? new GravityModel(fname, g_dir, Nmax) : new GravityModel(fname, g_dir));
    }
    fname = g_grvname[key];
    if (!it->second) throw GeographicErr("model could not be loaded");
    const GravityModel& gm = *it->second; deg = gm.Degree(); ord = gm.Order();
    desc = gm.Description(); date = gm.DateTime(); name = gm.GravityModelName();
    insp = gm.MassConstant() == ldexp(1.0, km) && gm.ReferenceMassConstant() == ldexp(1.0, kr) && gm.AngularVelocity() == 0 && gm.EquatorialRadius() == ldexp(1.0, jr)
      && gm.Flattening() == 0 && gm.GravityFile() == g_dir + "/" + fname + ".egm" && gm.GravityModelDirectory() == g_dir;
    double lat = MPT[p - 1][0], lon = MPT[p - 1][1], R = ldexp(1.0, ja + j), h = R - ldexp(1.0, jr);
    int ax = p <= 4 ? p - 1 : p <= 8 ? 4 : 5;
    double X = AX[ax][0] * R, Y = AX[ax][1] * R, Z = AX[ax][2] * R, x, y, z, v;
    auto four = [&](vector<long long>& o, double a0, double a1, double a2, double a3) { ke(o, a0); ke(o, a1); ke(o, a2); ke(o, a3); };
    auto reset = [&] { x = FS[1]; y = FS[2]; z = FS[3]; };
    reset(); v = gm.V(X, Y, Z, x, y, z); four(pv, v, x, y, z);
    reset(); v = gm.W(X, Y, Z, x, y, z); four(pw, v, x, y, z);
    reset(); v = gm.U(X, Y, Z, x, y, z); four(pu, v, x, y, z);
    ke(pt1, gm.T(X, Y, Z));
    reset(); v = gm.T(X, Y, Z, x, y, z); four(ptg, v, x, y, z);
    reset(); v = gm.Gravity(lat, lon, h, x, y, z); four(gg, v, x, y, z);
    reset(); v = gm.Disturbance(lat, lon, h, x, y, z); four(gd, v, x, y, z);
    ke(gn, gm.GeoidHeight(lat, lon));
    const LD D2R = PI_L / 180;                       // xi, eta are returned in degrees; logged in radians (- delta / gamma, dyadic here)
    reset(); gm.SphericalAnomaly(lat, lon, h, x, y, z); ke(ga, x); ke(gx, (double) (y * D2R)); ke(gx, (double) (z * D2R));
    GravityCircle gc = gm.Circle(lat, h, caps_of(req));
    reset(); v = gc.V(lon, x, y, z); four(cv, v, x, y, z);
    reset(); v = gc.W(lon, x, y, z); four(cw, v, x, y, z);
    reset(); v = gc.Gravity(lon, x, y, z); four(cg, v, x, y, z);
    reset(); v = gc.Disturbance(lon, x, y, z); four(cd, v, x, y, z);
    ke(ct1, gc.T(lon));
    reset(); v = gc.T(lon, x, y, z); four(ctg, v, x, y, z);
    ke(cn, gc.GeoidHeight(lon));
    reset(); gc.SphericalAnomaly(lon, x, y, z); ke(ca, x); ke(cx, (double) (y * D2R)); ke(cx, (double) (z * D2R));
  });
  q.str("out", res).i("deg", deg).i("ord", ord).str("desc", desc).str("date", date).str("name", name).str("fname", fname).b("insp", insp)
    .li("pv", pv).li("pw", pw).li("pu", pu).li("pt1", pt1).li("pt", ptg).li("gg", gg).li("gd", gd).li("gn", gn).li("ga", ga).li("gx", gx)
    .li("cv", cv).li("cw", cw).li("cg", cg).li("cd", cd).li("ct1", ct1).li("ct", ctg).li("cn", cn).li("ca", ca).li("cx", cx); q.emit();
}

// ngl ja km via n p j : NormalGravity of the non-rotating sphere a = 2^ja, GM = 2^km (via: constructed from J2 = 0 instead of f = 0)
static void do_ngl(const vector<string>& t) {
  int ja = I(t, 1), km = I(t, 2); bool via = I(t, 3) != 0; int n = I(t, 4), p = I(t, 5), j = I(t, 6);
  Rec q; q.str("e", "ngl").i("ja", ja).i("km", km).b("via", via).i("n", n).i("p", p).i("j", j);
  vector<long long> jn, u, v0, phi, sg, gl, cst; bool jnfin = false;
  string res = guarded([&] {
    double a = ldexp(1.0, ja), GM = ldexp(1.0, km);
    NormalGravity ng(a, GM, 0.0, 0.0, !via);
    double lat = MPT[p - 1][0], R = ldexp(a, j), h = R - a; int ax = p <= 4 ? p - 1 : p <= 8 ? 4 : 5;
    double X = AX[ax][0] * R, Y = AX[ax][1] * R, Z = AX[ax][2] * R, x = FS[1], y = FS[2], z = FS[3], v;
    double J = ng.DynamicalFormFactor(n); jnfin = std::isfinite(J); ke(jn, J);
    v = ng.U(X, Y, Z, x, y, z); ke(u, v); ke(u, x); ke(u, y); ke(u, z);
    x = FS[1]; y = FS[2]; z = FS[3]; v = ng.V0(X, Y, Z, x, y, z); ke(v0, v); ke(v0, x); ke(v0, y); ke(v0, z);
    x = FS[1]; y = FS[2]; v = ng.Phi(X, Y, x, y); ke(phi, v); ke(phi, x); ke(phi, y);
    ke(sg, ng.SurfaceGravity(lat)); ke(sg, ng.EquatorialGravity()); ke(sg, ng.PolarGravity());
    y = FS[2]; z = FS[3]; v = ng.Gravity(lat, h, y, z); ke(gl, v); ke(gl, y); ke(gl, z);
    ke(cst, ng.SurfacePotential()); ke(cst, ng.DynamicalFormFactor()); ke(cst, ng.Flattening()); ke(cst, ng.GravityFlattening());
    ke(cst, NormalGravity::FlatteningToJ2(a, GM, 0.0, 0.0)); ke(cst, NormalGravity::J2ToFlattening(a, GM, 0.0, 0.0));
  });
  q.str("out", res).li("jn", jn).b("jnfin", jnfin).li("u", u).li("v0", v0).li("phi", phi).li("sg", sg).li("gl", gl).li("cst", cst); q.emit();
}

// cap req h0 : capabilities of GravityCircle; req bits: 1 GRAVITY 2 DISTURBANCE 4 DISTURBING_POTENTIAL 8 SPHERICAL_ANOMALY 16 GEOID_HEIGHT
static unique_ptr<GravityModel> g_capmodel;
static void do_cap(const vector<string>& t) {
  int req = I(t, 1); bool h0 = I(t, 2) != 0;
  if (!g_capmodel) {
    GravFile F; F.name = "cap"; F.grav.alloc(4, 4); vt::Rng g(7); fill_random(g, F.grav, 1); for (auto& v : F.grav.C) v *= 1e-5; for (auto& v : F.grav.S) v *= 1e-5;
    F.grav.setc(0, 0, 0); F.grav.setc(2, 0, -4.84e-4); F.corr.alloc(2, 2); fill_random(g, F.corr, 0); F.write();
    g_capmodel.reset(new GravityModel("cap", g_dir));
  }
  GravityCircle gc = g_capmodel->Circle(33.0, h0 ? 0.0 : 1000.0, caps_of(req));
  double x, y, z; auto nn = [](double v) { return std::isnan(v); };
  auto reset = [&] { x = FS[1]; y = FS[2]; z = FS[3]; };      // an output that a function leaves untouched is finite, i.e. "not NaN"
  Rec q; q.str("e", "cap").i("req", req).b("h0", h0);
  reset(); double v = gc.Gravity(20, x, y, z); q.b("gravity", !(nn(v) || nn(x) || nn(y) || nn(z))).b("gravity_all", nn(v) && nn(x) && nn(y) && nn(z));
  reset(); v = gc.W(20, x, y, z); q.b("w", !(nn(v) || nn(x) || nn(y) || nn(z))).b("w_all", nn(v) && nn(x) && nn(y) && nn(z));
  reset(); v = gc.V(20, x, y, z); q.b("v", !(nn(v) || nn(x) || nn(y) || nn(z))).b("v_all", nn(v) && nn(x) && nn(y) && nn(z));
  reset(); v = gc.Disturbance(20, x, y, z); q.b("disturbance", !(nn(v) || nn(x) || nn(y) || nn(z))).b("disturbance_all", nn(v) && nn(x) && nn(y) && nn(z));
  reset(); v = gc.T(20, x, y, z); q.b("tgrad", !(nn(v) || nn(x) || nn(y) || nn(z))).b("tgrad_all", nn(v) && nn(x) && nn(y) && nn(z));
  v = gc.T(20); q.b("t", !nn(v));
  reset(); gc.SphericalAnomaly(20, x, y, z); q.b("anomaly", !(nn(x) || nn(y) || nn(z))).b("anomaly_all", nn(x) && nn(y) && nn(z));
  v = gc.GeoidHeight(20); q.b("geoid", !nn(v));
  q.i("caps", gc.Capabilities()).b("capsall", gc.Capabilities(GravityModel::ALL)); q.emit();
}

// -------------------------------------------------------------------------------------------------
static void do_record(uint64_t seed, long long n, int maxdeg) {
  vt::Rng g(seed);
  for (long long it = 0; it < n; ++it) {
    int k = (int) (it % 10);
    if (k < 5) rec_sh(g, maxdeg);
    else if (k < 7) rec_mag(g, maxdeg / 2 + 2, 3);
    else if (k < 9) rec_grv(g, maxdeg / 2 + 6, 3);
    else { rec_ng(g); rec_ng(g); if (it % 80 == 9) rec_ngs(g); }
  }
}

int main(int argc, char** argv) {
  vt::install_terminate();
  if (argc < 3) { fprintf(stderr, "usage: drv_harm replay dir < vectors | record dir seed n [maxdeg]\n"); return 2; }
  g_dir = argv[2]; mkdir(g_dir.c_str(), 0755);
  if (string(argv[1]) == "replay") {
    string line;
    while (getline(cin, line)) {
      auto t = vt::split(line); if (t.empty()) continue;
      if (t[0] == "idx") do_idx(t); else if (t[0] == "co") do_co(t); else if (t[0] == "rd") do_rd(t);
      else if (t[0] == "val") do_val(t); else if (t[0] == "mag") do_mag(t); else if (t[0] == "cap") do_cap(t);
      else if (t[0] == "grv") do_grv(t); else if (t[0] == "ngl") do_ngl(t);
      else { fprintf(stderr, "unknown vector %s\n", t[0].c_str()); return 2; }
    }
    return 0;
  }
  if (string(argv[1]) == "record" && argc >= 5) { do_record(strtoull(argv[3], 0, 10), atoll(argv[4]), argc >= 6 ? atoi(argv[5]) : 40); return 0; }
  return 2;
}
